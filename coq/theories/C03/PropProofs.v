(* C03 — what the expected blocks (hence, by Proofs.v, the model's output) mean: the Prop-level
   statements demux_exact, groups_aligned, dropped_equals_filled. *)
From Dastard Require Import Common.ZX C03.Model C03.Spec C03.Lemmas C03.GroupProofs C03.TickProofs C03.Proofs.
From Coq Require Import ZifyBool ZifyNat.

(* ---------- positions in a concatenation ---------- *)
Lemma nth_flat_map {A B} (f : A -> list B) da d : forall l i j,
  (i < length l)%nat -> (j < length (f (nth i l da)))%nat ->
  nth (length (flat_map f (firstn i l)) + j) (flat_map f l) d = nth j (f (nth i l da)) d.
Proof.
  induction l as [|h t IH]; intros i j Hi Hj; cbn [length] in Hi; [lia|].
  destruct i as [|i]; cbn [firstn flat_map nth length] in *.
  - rewrite app_nth1 by lia. reflexivity.
  - rewrite app_length, <- Nat.add_assoc, app_nth2_plus. apply IH; auto; lia.
Qed.

Lemma length_flat_map_firstn {A B} (f : A -> list B) da : forall l i, (i < length l)%nat ->
  (length (flat_map f (firstn i l)) + length (f (nth i l da)) <= length (flat_map f l))%nat.
Proof.
  induction l as [|h t IH]; intros i Hi; cbn [length] in Hi; [lia|].
  destruct i as [|i]; cbn [firstn flat_map nth length].
  - rewrite app_length. lia.
  - rewrite !app_length. specialize (IH i ltac:(lia)). lia.
Qed.

Definition chans_of (f : ginfo -> Z -> list Z) (gi : ginfo) : list (list Z) :=
  map (f gi) (zrange 0 (gi_nchan gi)).

Lemma length_chans_prefix f : forall (l : list ginfo), (forall gi, In gi l -> 0 <= gi_nchan gi) ->
  Z.of_nat (length (flat_map (chans_of f) l)) = zsum (map gi_nchan l).
Proof.
  induction l as [|h t IH]; intros H; [reflexivity|]. cbn [flat_map map zsum fold_right].
  rewrite app_length. fold (zsum (map gi_nchan t)). rewrite Nat2Z.inj_add, IH by (intros; apply H; now right).
  unfold chans_of. rewrite map_length. unfold zrange. rewrite zrange_nat_length.
  specialize (H h (or_introl eq_refl)). lia.
Qed.

Lemma In_firstn {A} (x : A) : forall l i, In x (firstn i l) -> In x l.
Proof.
  induction l as [|h t IH]; intros [|i] H; cbn [firstn] in H; try destruct H; [now left | right; eauto].
Qed.

(* channel c of the i-th group sits at chan_pos in any per-group, per-channel concatenation *)
Lemma nth_chans f (gis : list ginfo) i gi c :
  (forall g, In g gis -> 0 < gi_nchan g) -> nth_error gis i = Some gi -> 0 <= c < gi_nchan gi ->
  (chan_pos gis i c < length (flat_map (chans_of f) gis))%nat /\
  nth (chan_pos gis i c) (flat_map (chans_of f) gis) [] = f gi c.
Proof.
  intros HG Hi Hc.
  assert (Hlt : (i < length gis)%nat) by (apply nth_error_Some; congruence).
  assert (En : nth i gis dgi = gi) by (apply nth_error_nth; exact Hi).
  assert (Lf : Z.of_nat (length (flat_map (chans_of f) (firstn i gis))) = zsum (map gi_nchan (firstn i gis))).
  { apply length_chans_prefix. intros g Hg. apply In_firstn in Hg. specialize (HG g Hg). lia. }
  assert (Lc : length (chans_of f gi) = Z.to_nat (gi_nchan gi))
    by (unfold chans_of, zrange; now rewrite map_length, zrange_nat_length).
  assert (EP : chan_pos gis i c = (length (flat_map (chans_of f) (firstn i gis)) + Z.to_nat c)%nat)
    by (unfold chan_pos; lia).
  rewrite EP. split.
  - pose proof (length_flat_map_firstn (chans_of f) dgi gis i Hlt). rewrite En, Lc in H. lia.
  - rewrite (nth_flat_map (chans_of f) dgi) by (auto; rewrite En, Lc; lia). rewrite En.
    unfold chans_of. rewrite nth_map_lt with (d := 0) by (unfold zrange; rewrite zrange_nat_length; lia).
    unfold zrange. rewrite zrange_nat_nth by lia. f_equal. lia.
Qed.

(* ---------- ranges of slots ---------- *)
Lemma chan_range_empty fpp gi seen c C a : a <= C -> chan_range fpp gi seen c C a = [].
Proof. intros. unfold chan_range. now rewrite zrange_nil by lia. Qed.

Lemma chan_range_app fpp gi seen c C a F : C <= a <= F ->
  chan_range fpp gi seen c C a ++ chan_range fpp gi seen c a F = chan_range fpp gi seen c C F.
Proof.
  intros. unfold chan_range. rewrite (zrange_split (C + 1) (F - C) (a - C)) by lia.
  rewrite flat_map_app. replace (C + 1 + (a - C)) with (a + 1) by lia.
  replace (F - C - (a - C)) with (F - a) by lia. reflexivity.
Qed.

(* what is in a slot does not change when more packets arrive later *)
Lemma chan_range_stable fpp gi seen more c C a :
  pinc (last0 gi) (arrivals gi (seen ++ more)) -> last0 gi - sync0 gi <= C -> a <= hi gi seen ->
  chan_range fpp gi (seen ++ more) c C a = chan_range fpp gi seen c C a.
Proof.
  intros P HC Ha. unfold chan_range. apply flat_map_ext_in. intros G HG. apply in_zrange in HG.
  rewrite arrivals_app in *. apply pinc_app in P as [P1 _]. unfold slot_chan.
  rewrite source_of_app_l; auto.
  destruct (source_of_some (last0 gi) (arrivals gi seen) (G + sync0 gi) P1) as [p [_ [P2 P3]]]; [unfold hi in Ha; lia|].
  eauto.
Qed.

Lemma missing_nil_sum (l : list ginfo) : zsum (map (fun gi => missing gi []) l) = 0.
Proof.
  induction l as [|g t IHg]; [reflexivity|].
  cbn [map zsum fold_right]. fold (zsum (map (fun gi => missing gi []) t)). rewrite IHg.
  unfold missing, arrivals. cbn. lia.
Qed.

Section Props.
Variable inp : input.
Hypothesis HS : Static inp.
Hypothesis HL0 : forall i, (i < length (i_groups inp))%nat -> last0 (nth i (i_groups inp) dgi) < 4294967296.
Let fpp := i_fpp inp.
Let gis := i_groups inp.

Lemma hi_mono gi seen more : In gi gis -> HValid inp (seen ++ more) -> hi gi seen <= hi gi (seen ++ more).
Proof.
  intros Hgi [HV _]. destruct (HV gi Hgi) as [P _]. rewrite arrivals_app in P.
  apply pinc_app in P as [_ P2]. unfold hi. rewrite arrivals_app, newest_app.
  destruct (pinc_newest _ _ P2). lia.
Qed.

Lemma avail_le_hi gi seen : In gi gis -> avail inp seen <= hi gi seen.
Proof.
  intros Hgi. unfold avail. fold gis.
  pose proof (in_map (fun gi => hi gi seen) _ _ Hgi) as Hin. cbv beta in Hin.
  assert (NE : map (fun gi => hi gi seen) gis <> []) by (intros E; rewrite E in Hin; destruct Hin).
  destruct (zmin_list_spec _ NE) as [_ H]. apply H. exact Hin.
Qed.

Lemma avail_mono seen more : HValid inp (seen ++ more) -> avail inp seen <= avail inp (seen ++ more).
Proof.
  intros HV. unfold avail at 2. fold gis.
  assert (NE : map (fun gi => hi gi (seen ++ more)) gis <> []).
  { destruct HS as (_ & Hne & _). intros E. apply map_eq_nil in E. unfold gis in E. congruence. }
  destruct (zmin_list_spec _ NE) as [H _]. apply in_map_iff in H as [gi [E Hgi]]. rewrite <- E.
  pose proof (avail_le_hi gi seen Hgi). pose proof (hi_mono gi seen more Hgi HV). lia.
Qed.

Definition start_ok (C : Z) : Prop := forall gi, In gi gis -> last0 gi - sync0 gi <= C.

(* the data of channel (i, c) in a delivered block *)
Lemma block_chan seen C a next drop i gi c :
  nth_error gis i = Some gi -> 0 <= c < gi_nchan gi ->
  sg_data (nth (chan_pos gis i c)
               (map (fun d => {| sg_first := next; sg_dropped := drop; sg_data := d |}) (block_data inp seen C a)) dseg)
  = chan_range fpp gi seen c C a.
Proof.
  intros Hi Hc. destruct HS as (_ & _ & HG & _).
  destruct (nth_chans (fun gi c => chan_range fpp gi seen c C a) gis i gi c) as [N1 N2]; auto.
  { intros g Hg. apply HG. exact Hg. }
  unfold block_data. fold gis fpp. fold (chans_of (fun gi c => chan_range fpp gi seen c C a)).
  rewrite nth_map_lt with (d := []) by exact N1. cbn [sg_data]. exact N2.
Qed.

(* ---------- demux_exact ---------- *)
Lemma expected_chan_out i gi c : nth_error gis i = Some gi -> 0 <= c < gi_nchan gi ->
  forall ticks seen C rep next,
  HValid inp (seen ++ concat ticks) -> start_ok C -> avail inp seen <= C ->
  chan_out (expected inp seen C rep next ticks) (chan_pos gis i c)
  = chan_range fpp gi (seen ++ concat ticks) c C (Z.max C (avail inp (seen ++ concat ticks))).
Proof.
  intros Hi Hc. assert (Hgi : In gi gis) by (eapply nth_error_In; eauto).
  induction ticks as [|b ticks IH]; intros seen C rep next HV HC HA.
  - cbn [expected chan_out flat_map concat]. rewrite app_nil_r.
    rewrite chan_range_empty by lia. reflexivity.
  - cbn [concat] in HV. rewrite app_assoc in HV. cbn [expected concat]. rewrite app_assoc.
    pose proof (HValid_prefix _ _ _ HV) as HVb.
    pose proof (avail_mono (seen ++ b) (concat ticks) HV) as AM.
    destruct HV as [HV1 HV2]. destruct (HV1 gi Hgi) as [P _].
    destruct (avail inp (seen ++ b) >? C) eqn:EA.
    + cbn [chan_out flat_map k_segs]. fold (chan_out (expected inp (seen ++ b) (avail inp (seen ++ b))
          (total_missing inp (seen ++ b)) (next + i_fpp inp * (avail inp (seen ++ b) - C)) ticks) (chan_pos gis i c)).
      rewrite (block_chan _ _ _ _ _ i gi c Hi Hc).
      rewrite IH; [| split; auto | intros g Hg; specialize (HC g Hg); lia | lia].
      rewrite <- (chan_range_stable fpp gi (seen ++ b) (concat ticks) c C (avail inp (seen ++ b))); auto;
        [| apply avail_le_hi; auto].
      rewrite chan_range_app by lia. f_equal. lia.
    + rewrite IH; [| split; auto | auto | lia]. reflexivity.
Qed.

Lemma start_props : start_ok (start inp) /\ avail inp [] <= start inp.
Proof.
  destruct HS as (_ & Hne & _). fold gis in Hne.
  assert (NE : map (fun gi => last0 gi - sync0 gi) gis <> []) by (intros E; apply map_eq_nil in E; congruence).
  destruct (zmax_list_spec _ NE) as [H1 H2]. split.
  - intros gi Hgi. unfold start. fold gis. apply H2. apply (in_map (fun gi => last0 gi - sync0 gi)). exact Hgi.
  - apply in_map_iff in H1 as [gi [E Hgi]]. pose proof (avail_le_hi gi [] Hgi). unfold hi in H. cbn in H.
    unfold start. fold gis. lia.
Qed.

Lemma expected_demux_exact : HValid inp (concat (i_ticks inp)) -> demux_exact_spec inp (expected_blocks inp).
Proof.
  intros HV i gi c Hi Hc. destruct start_props as [S1 S2].
  unfold expected_blocks. fold gis. rewrite (expected_chan_out i gi c Hi Hc); auto.
Qed.

(* ---------- dropped_equals_filled ---------- *)
Lemma block_dropped_mk seen C a next drop :
  block_dropped {| k_nsamp := fpp * (a - C);
                   k_segs := map (fun d => {| sg_first := next; sg_dropped := drop; sg_data := d |}) (block_data inp seen C a) |}
  = drop.
Proof.
  unfold block_dropped. cbn [k_segs]. destruct HS as (_ & Hne & HG & _).
  unfold block_data. destruct (i_groups inp) as [|g0 gr]; [congruence|]. cbn [flat_map].
  destruct (HG g0 (or_introl eq_refl)) as [Hn _]. rewrite zrange_cons by lia. reflexivity.
Qed.

Lemma expected_dropped_sum : forall ticks seen C rep next acc, total_missing inp acc = rep ->
  zsum (map block_dropped (expected inp seen C rep next ticks))
  = fpp * (total_missing inp (seen_at_last inp seen C ticks acc) - rep).
Proof.
  induction ticks as [|b ticks IH]; intros seen C rep next acc Hacc; cbn [expected seen_at_last].
  - cbn. lia.
  - destruct (avail inp (seen ++ b) >? C).
    + cbn [map zsum fold_right]. fold (zsum (map block_dropped (expected inp (seen ++ b) (avail inp (seen ++ b))
         (total_missing inp (seen ++ b)) (next + i_fpp inp * (avail inp (seen ++ b) - C)) ticks))).
      rewrite block_dropped_mk. rewrite (IH _ _ _ _ (seen ++ b)) by reflexivity. fold fpp. lia.
    + apply IH. exact Hacc.
Qed.

Lemma expected_dropped_uniform : forall ticks seen C rep next k s,
  In k (expected inp seen C rep next ticks) -> In s (k_segs k) -> sg_dropped s = block_dropped k.
Proof.
  induction ticks as [|b ticks IH]; intros seen C rep next k s Hk Hs; cbn [expected] in Hk; [destruct Hk|].
  destruct (avail inp (seen ++ b) >? C); [|eapply IH; eauto].
  destruct Hk as [<-|Hk]; [|eapply IH; eauto].
  rewrite block_dropped_mk. cbn [k_segs] in Hs. apply in_map_iff in Hs as [d [<- _]]. reflexivity.
Qed.

Lemma expected_dropped_equals_filled : dropped_equals_filled_spec inp (expected_blocks inp).
Proof.
  split.
  - intros k s. apply expected_dropped_uniform.
  - unfold expected_blocks. rewrite (expected_dropped_sum _ _ _ _ _ []).
    + fold fpp. lia.
    + unfold total_missing. apply missing_nil_sum.
Qed.

(* ---------- groups_aligned ---------- *)
Lemma znth_app_r {A} (d : A) a b x : 0 <= x -> znth d (a ++ b) (zlen a + x) = znth d b x.
Proof.
  intros Hx. unfold znth, zlen. destruct (Z.of_nat (length a) + x <? 0) eqn:E1; [lia|].
  destruct (x <? 0) eqn:E2; [lia|].
  replace (Z.to_nat (Z.of_nat (length a) + x)) with (length a + Z.to_nat x)%nat by lia.
  apply app_nth2_plus.
Qed.
Lemma znth_app_l {A} (d : A) a b x : 0 <= x < zlen a -> znth d (a ++ b) x = znth d a x.
Proof.
  intros Hx. unfold znth, zlen in *. destruct (x <? 0) eqn:E2; [lia|]. apply app_nth1. lia.
Qed.

Lemma expected_contiguous : forall ticks seen C rep next,
  HValid inp (seen ++ concat ticks) -> start_ok C -> avail inp seen <= C ->
  contiguous next (expected inp seen C rep next ticks).
Proof.
  induction ticks as [|b ticks IH]; intros seen C rep next HV HC HA; cbn [expected contiguous]; [exact I|].
  cbn [concat] in HV. rewrite app_assoc in HV. pose proof (HValid_prefix _ _ _ HV) as HVb.
  destruct (avail inp (seen ++ b) >? C) eqn:EA.
  - cbn [contiguous k_segs k_nsamp]. split.
    + intros s Hs. apply in_map_iff in Hs as [d [<- Hd]]. cbn [sg_first sg_data]. split; [reflexivity|].
      destruct (block_data_shape inp HS HL0 (seen ++ b) C (avail inp (seen ++ b)) HVb HC ltac:(lia) ltac:(lia)) as [_ BL].
      apply BL. exact Hd.
    + apply IH; auto; [intros g Hg; specialize (HC g Hg) | ]; lia.
  - apply IH; auto. lia.
Qed.

Lemma expected_nsegs : forall ticks seen C rep next k,
  In k (expected inp seen C rep next ticks) -> zlen (k_segs k) = zsum (map gi_nchan gis).
Proof.
  induction ticks as [|b ticks IH]; intros seen C rep next k Hk; cbn [expected] in Hk; [destruct Hk|].
  destruct (avail inp (seen ++ b) >? C); [|eapply IH; eauto].
  destruct Hk as [<-|Hk]; [|eapply IH; eauto]. cbn [k_segs]. rewrite zlen_map. unfold block_data. fold gis fpp.
  fold (chans_of (fun gi c => chan_range fpp gi (seen ++ b) c C (avail inp (seen ++ b)))).
  unfold zlen. apply length_chans_prefix. intros g Hg. destruct HS as (_ & _ & HG & _). specialize (HG g Hg). lia.
Qed.

Lemma expected_frames ALL i gi c : nth_error gis i = Some gi -> 0 <= c < gi_nchan gi -> HValid inp ALL ->
  forall ticks seen C rep next k x,
  seen ++ concat ticks = ALL -> start_ok (start inp) -> start inp <= C -> avail inp seen <= C ->
  next = fpp * (C - start inp) ->
  In k (expected inp seen C rep next ticks) -> 0 <= x < k_nsamp k ->
  let s := nth (chan_pos gis i c) (k_segs k) dseg in
  znth 0 (sg_data s) x
  = znth 0 (chan_range fpp gi ALL c (start inp) (Z.max (start inp) (avail inp ALL))) (sg_first s + x).
Proof.
  intros Hi Hc HVA. assert (Hgi : In gi gis) by (eapply nth_error_In; eauto).
  destruct HVA as [HV1 HV2]. destruct (HV1 gi Hgi) as [P _].
  induction ticks as [|b ticks IH]; intros seen C rep next k x EA HS0 HC HA HN Hk Hx; cbn [expected] in Hk; [destruct Hk|].
  cbn [concat] in EA. rewrite app_assoc in EA.
  assert (HVb : HValid inp (seen ++ b)) by (apply (HValid_prefix inp _ (concat ticks)); rewrite EA; split; auto).
  assert (AM : avail inp (seen ++ b) <= avail inp ALL)
    by (rewrite <- EA; apply avail_mono; rewrite EA; split; auto).
  destruct (avail inp (seen ++ b) >? C) eqn:EAv.
  2:{ apply (IH (seen ++ b) C rep next k x); auto. lia. }
  destruct Hk as [<-|Hk].
  2:{ apply (IH (seen ++ b) (avail inp (seen ++ b)) (total_missing inp (seen ++ b))
               (next + i_fpp inp * (avail inp (seen ++ b) - C)) k x); auto; try lia. }
  cbn [k_segs k_nsamp] in *. cbn zeta.
  set (a := avail inp (seen ++ b)) in *.
  assert (ES : sg_first (nth (chan_pos gis i c)
                 (map (fun d => {| sg_first := next; sg_dropped := i_fpp inp * (total_missing inp (seen ++ b) - rep); sg_data := d |})
                      (block_data inp (seen ++ b) C a)) dseg) = next).
  { destruct HS as (_ & _ & HG & _).
    destruct (nth_chans (fun gi c => chan_range fpp gi (seen ++ b) c C a) gis i gi c) as [N1 _]; auto.
    { intros g Hg. apply HG. exact Hg. }
    unfold block_data. fold gis fpp. fold (chans_of (fun gi c => chan_range fpp gi (seen ++ b) c C a)).
    rewrite nth_map_lt with (d := []) by exact N1. reflexivity. }
  rewrite ES, (block_chan _ _ _ _ _ i gi c Hi Hc).
  set (F := Z.max (start inp) (avail inp ALL)).
  rewrite <- (chan_range_app fpp gi ALL c (start inp) C F) by (unfold F; lia).
  rewrite <- (chan_range_app fpp gi ALL c C a F) by (unfold F; lia).
  assert (HL : zlen (chan_range fpp gi ALL c (start inp) C) = next).
  { rewrite HN. apply zlen_chan_range; auto; try (fold fpp; destruct HS; lia).
    pose proof (avail_le_hi gi ALL Hgi). lia. }
  rewrite <- HL. rewrite znth_app_r by lia.
  assert (HL2 : zlen (chan_range fpp gi ALL c C a) = fpp * (a - C)).
  { apply zlen_chan_range; auto; try (fold fpp; destruct HS; lia).
    - specialize (HS0 gi Hgi). lia.
    - pose proof (avail_le_hi gi ALL Hgi). lia. }
  rewrite znth_app_l by (rewrite HL2; exact Hx).
  rewrite <- EA. rewrite (chan_range_stable fpp gi (seen ++ b) (concat ticks) c C a); auto.
  - rewrite EA. exact P.
  - specialize (HS0 gi Hgi). lia.
  - apply avail_le_hi. exact Hgi.
Qed.

Lemma expected_groups_aligned : HValid inp (concat (i_ticks inp)) -> groups_aligned_spec inp (expected_blocks inp).
Proof.
  intros HV. destruct start_props as [S1 S2]. unfold groups_aligned_spec, expected_blocks.
  rewrite frame0_expected. split; [|split].
  - apply expected_contiguous; auto.
  - intros k Hk. eapply expected_nsegs; eauto.
  - intros k i gi c x Hk Hi Hc Hx. cbn zeta. unfold sample_at, finish. fold fpp gis.
    rewrite (expected_frames (concat (i_ticks inp)) i gi c Hi Hc HV (i_ticks inp) [] (start inp) 0 0 k x); auto; try lia.
    do 2 f_equal. lia.
Qed.

End Props.

(* per-channel sample count = frames spanned by first through last sequence number *)
Lemma demux_count inp : valid_inputb inp = true ->
  forall gi c, In gi (i_groups inp) ->
  zlen (chan_range (i_fpp inp) gi (concat (i_ticks inp)) c (start inp) (finish inp))
  = i_fpp inp * (finish inp - start inp).
Proof.
  intros V gi c Hgi. pose proof (valid_static _ V) as HS. pose proof (valid_hvalid _ V) as [HV _].
  destruct (start_props inp HS) as [S1 _]. destruct (HV gi Hgi) as [P _].
  unfold finish. destruct (Z.max_spec (start inp) (avail inp (concat (i_ticks inp)))) as [[H1 H2]|[H1 H2]]; rewrite H2.
  - apply zlen_chan_range; auto; try (destruct HS; lia). apply avail_le_hi. exact Hgi.
  - rewrite chan_range_empty by lia. unfold zlen. cbn [length]. lia.
Qed.

(* ---------- the headline statements, for every valid input and every choice of visiting orders ---------- *)
Lemma thm_demux_exact inp os :
  valid_inputb inp = true -> length os = length (i_ticks inp) -> orders_ok inp os ->
  exists st' blocks, run (init_of inp) (combine (i_ticks inp) os) = Ok (st', blocks) /\
    forall i gi c, nth_error (i_groups inp) i = Some gi -> 0 <= c < gi_nchan gi ->
      chan_out blocks (chan_pos (i_groups inp) i c)
      = chan_range (i_fpp inp) gi (concat (i_ticks inp)) c (start inp) (finish inp)
      /\ zlen (chan_out blocks (chan_pos (i_groups inp) i c)) = i_fpp inp * (finish inp - start inp).
Proof.
  intros V HL HO. destruct (model_delivers_expected inp os V HL HO) as [st' R].
  exists st', (expected_blocks inp). split; [exact R|]. intros i gi c Hi Hc.
  pose proof (expected_demux_exact inp (valid_static _ V) (valid_last0 _ V) (valid_hvalid _ V) i gi c Hi Hc) as E.
  split; [exact E|]. rewrite E. apply demux_count; auto. eapply nth_error_In; eauto.
Qed.

Lemma thm_groups_aligned inp os :
  valid_inputb inp = true -> length os = length (i_ticks inp) -> orders_ok inp os ->
  exists st' blocks, run (init_of inp) (combine (i_ticks inp) os) = Ok (st', blocks) /\
    groups_aligned_spec inp blocks.
Proof.
  intros V HL HO. destruct (model_delivers_expected inp os V HL HO) as [st' R].
  exists st', (expected_blocks inp). split; [exact R|].
  apply expected_groups_aligned; [apply valid_static | apply valid_last0 | apply valid_hvalid]; exact V.
Qed.

Lemma thm_dropped_equals_filled inp os :
  valid_inputb inp = true -> length os = length (i_ticks inp) -> orders_ok inp os ->
  exists st' blocks, run (init_of inp) (combine (i_ticks inp) os) = Ok (st', blocks) /\
    dropped_equals_filled_spec inp blocks.
Proof.
  intros V HL HO. destruct (model_delivers_expected inp os V HL HO) as [st' R].
  exists st', (expected_blocks inp). split; [exact R|].
  apply expected_dropped_equals_filled; [apply valid_static | apply valid_last0]; exact V.
Qed.

Lemma thm_model_passes_checker inp os :
  valid_inputb inp = true -> length os = length (i_ticks inp) -> orders_ok inp os ->
  exists st' blocks, run (init_of inp) (combine (i_ticks inp) os) = Ok (st', blocks) /\
    blocks = expected_blocks inp /\ C03_check inp (Some blocks) = true.
Proof.
  intros V HL HO. destruct (model_delivers_expected inp os V HL HO) as [st' R].
  exists st', (expected_blocks inp). split; [exact R|]. split; [reflexivity | apply check_expected].
Qed.

(* what the checker's "true" means, independent of any model *)
Lemma block_eqb_eq f0 e o : block_eqb f0 e o = true ->
  k_nsamp o = k_nsamp e /\ length (k_segs o) = length (k_segs e) /\
  forall j, sg_first (nth j (k_segs o) dseg) = (if (j <? length (k_segs e))%nat then f0 else 0) + sg_first (nth j (k_segs e) dseg)
         /\ sg_dropped (nth j (k_segs o) dseg) = sg_dropped (nth j (k_segs e) dseg)
         /\ sg_data (nth j (k_segs o) dseg) = sg_data (nth j (k_segs e) dseg).
Proof.
  unfold block_eqb. rewrite andb_true_iff. intros [H1 H2]. split; [lia|].
  revert H2. generalize (k_segs o). induction (k_segs e) as [|se le IH]; intros [|so lo] H; cbn [list_eqb] in H; try discriminate.
  - split; [reflexivity|]. intros j. destruct j; cbn; auto.
  - apply andb_true_iff in H as [H3 H4]. destruct (IH lo H4) as [L N]. split; [cbn; lia|].
    intros [|j]; cbn [nth length].
    + unfold seg_eqb in H3. rewrite !andb_true_iff in H3. destruct H3 as [[A B] C]. apply zlist_eqb_eq in C.
      cbn. repeat split; auto; lia.
    + specialize (N j). destruct N as (N1 & N2 & N3).
      replace (Datatypes.S j <? Datatypes.S (length le))%nat with (j <? length le)%nat; [auto|].
      destruct (j <? length le)%nat eqn:E1, (Datatypes.S j <? Datatypes.S (length le))%nat eqn:E2; auto;
        apply Nat.ltb_lt in E1 || apply Nat.ltb_ge in E1; apply Nat.ltb_lt in E2 || apply Nat.ltb_ge in E2; lia.
Qed.

Lemma checker_sound_data inp blocks :
  valid_inputb inp = true -> C03_check inp (Some blocks) = true ->
  forall j, chan_out blocks j = chan_out (expected_blocks inp) j.
Proof.
  intros V. unfold C03_check. rewrite V. generalize (frame0 blocks). generalize (expected_blocks inp).
  intros e f0. revert blocks. induction e as [|ke e IH]; intros [|ko blocks] H j; cbn [list_eqb] in H; try discriminate; auto.
  apply andb_true_iff in H as [H1 H2]. cbn [chan_out flat_map].
  destruct (block_eqb_eq _ _ _ H1) as (_ & _ & N). destruct (N j) as (_ & _ & N3). rewrite N3. f_equal.
  apply IH. exact H2.
Qed.

Lemma thm_checker_sound inp blocks :
  valid_inputb inp = true -> C03_check inp (Some blocks) = true ->
  forall i gi c, nth_error (i_groups inp) i = Some gi -> 0 <= c < gi_nchan gi ->
    chan_out blocks (chan_pos (i_groups inp) i c)
    = chan_range (i_fpp inp) gi (concat (i_ticks inp)) c (start inp) (finish inp).
Proof.
  intros V H i gi c Hi Hc. rewrite (checker_sound_data inp blocks V H).
  apply (expected_demux_exact inp (valid_static _ V) (valid_last0 _ V) (valid_hvalid _ V) i gi c Hi Hc).
Qed.
