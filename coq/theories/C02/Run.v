(* C02 — evaluation of generated cases: same case format and model comparison as C01, judged by C02's checker. *)
From Dastard Require Import Common.ZX Common.CaseLib Pipeline.Stream C01.Model C01.Spec C01.Run C02.Spec.

Definition chan_check2 (c : chan) : bool := C02_check (c_npre c) (c_nsamp c) (c_ts c) (c_F0 c) (c_hist c).
Definition verdict2 (c : case) : Z * Z := verdict_with chan_check2 c.
