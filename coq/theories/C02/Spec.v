(* C02 — the property as predicates over OBSERVABLES only, evaluated on the ground truth in absolute frame
   numbers, independently of the model: for every delivered block (annotated by C01.Spec.annotate with the
   settings in force, the ground truth so far, the epoch start and the triggers emitted so far)

     sound          every trigger of the block sits on a sample that satisfies an enabled criterion
     edge_complete  every decidable sample of the epoch that satisfies the edge criterion is a trigger or lies in
                    (t, t+nsamp] of an emitted trigger t
     level_complete every decidable sample of the epoch that satisfies the level criterion is within nsamp-1 of an
                    emitted trigger
     no_overlap     only the edge trigger on: successive triggers of the epoch are at least nsamp apart
     auto_gap       auto trigger on, no veto: successive triggers of the epoch are at most max(delay,nsamp)+nsamp
                    apart, the first at most that far after the first candidate, the last candidate at most that
                    far after the last trigger

   An epoch is a maximal run of blocks between control operations.  Its candidates are the frames from bi_C up to
   (end of the data delivered so far) - (nsamp - npre) (the last nsamp-npre samples are not decidable yet).
   bi_C (C01.Spec.new_epoch): after a fresh start the first delivered frame + npre (no history for the pre-trigger
   part before that); after a control operation the candidates CONTINUE where the decidable ones of the old epoch
   ended — samples delivered but not yet decidable under the old settings are demanded under the new ones —
   except that a candidate needs npre samples of history and only one old record length of history is taken for
   granted (first candidate >= s_H + npre).  Nothing in this file runs the model. *)
From Dastard Require Import Common.ZX Pipeline.Stream C01.Model C01.Spec.

Section Block.
Variable b : binfo.

Let ts := bi_ts b.
Let npre := bi_npre b.
Let nsamp := bi_nsamp b.
Let sg := seg_signed (bi_seg b).

(* sample at absolute frame k, shifted by 2^15 modulo 2^16 on signed channels *)
Definition gval (k : Z) : Z :=
  let v := znth 0 (bi_G b) (k - bi_F0 b) in
  if sg then (v + 32768) mod 65536 else v.

Definition in_ground (k : Z) : bool := (0 <=? k - bi_F0 b) && (k - bi_F0 b <? zlen (bi_G b)).

(* -EdgeLevel in int32 arithmetic *)
Definition neg_level (l : Z) : Z := (- l + 2147483648) mod 4294967296 - 2147483648.

(* G'[k] + G'[k-1] - G'[k-2] - G'[k-3] >= level (rising)  /  <= -level (falling) *)
Definition edge_crit (k : Z) : bool :=
  in_ground (k - 3) && in_ground k &&
  let diff := gval k + gval (k - 1) - gval (k - 2) - gval (k - 3) in
  ((ts_edgerising ts && (diff >=? ts_edgelevel ts)) || (ts_edgefalling ts && (diff <=? neg_level (ts_edgelevel ts)))).

(* G'[k] >= thr and G'[k-1] < thr (rising) or the mirror image; thr is shifted like the samples *)
Definition level_crit (k : Z) : bool :=
  in_ground (k - 1) && in_ground k &&
  let thr := if sg then (ts_levellevel ts + 32768) mod 65536 else ts_levellevel ts in
  if ts_levelrising ts then (gval k >=? thr) && (gval (k - 1) <? thr)
  else (gval k <=? thr) && (gval (k - 1) >? thr).

Definition trigs : list Z := bi_trigs b.
Definition epoch_trigs : list Z := bi_prev b ++ trigs.        (* this epoch, up to and including this block *)
Definition all_trigs : list Z := bi_all_prev b ++ trigs.      (* every trigger emitted so far *)

Definition auto_dly : Z := Z.max (ts_autodelay ts) nsamp.     (* the auto delay, or one record if longer *)

(* the auto criterion: no trigger of the epoch in the auto delay (or one record, if longer) before t *)
Definition auto_slot (t : Z) : Prop := forall u, In u epoch_trigs -> u < t -> auto_dly <= t - u.
Definition auto_slotb (t : Z) : bool := forallb (fun u => if u <? t then auto_dly <=? t - u else true) epoch_trigs.

Definition first_cand : Z := bi_C b.
Definition dec_end : Z := bi_end b - (nsamp - npre).           (* exclusive *)

Definition sound : Prop :=
  forall t, In t trigs ->
    (ts_edge ts = true /\ edge_crit t = true) \/ (ts_level ts = true /\ level_crit t = true) \/
    (ts_auto ts = true /\ auto_slot t).
Definition soundb : bool :=
  forallb (fun t => (ts_edge ts && edge_crit t) || (ts_level ts && level_crit t) || (ts_auto ts && auto_slotb t)) trigs.

Definition edge_accounted (k : Z) : Prop := exists t, In t all_trigs /\ (t = k \/ t < k <= t + nsamp).
Definition edge_accountedb (k : Z) : bool := existsb (fun t => (t =? k) || ((t <? k) && (k <=? t + nsamp))) all_trigs.

Definition edge_complete : Prop :=
  ts_edge ts = true -> forall k, first_cand <= k < dec_end -> edge_crit k = true -> edge_accounted k.

Definition level_accounted (k : Z) : Prop := exists t, In t all_trigs /\ Z.abs (k - t) < nsamp.
Definition level_accountedb (k : Z) : bool := existsb (fun t => Z.abs (k - t) <? nsamp) all_trigs.

Definition level_complete : Prop :=
  ts_level ts = true -> forall k, first_cand <= k < dec_end -> level_crit k = true -> level_accounted k.

(* the candidates that became decidable with this block (those of earlier blocks of the epoch were judged then,
   against a subset of the triggers) *)
Definition new_lo : Z := bi_lo b.
Definition edge_completeb : bool :=
  if ts_edge ts
  then forallb (fun k => if edge_crit k then edge_accountedb k else true) (zrange new_lo (dec_end - new_lo))
  else true.
Definition level_completeb : bool :=
  if ts_level ts
  then forallb (fun k => if level_crit k then level_accountedb k else true) (zrange new_lo (dec_end - new_lo))
  else true.

(* consecutive elements of x :: l differ by at least / at most d *)
Fixpoint gaps_ge (d x : Z) (l : list Z) : Prop :=
  match l with [] => True | y :: l' => d <= y - x /\ gaps_ge d y l' end.
Fixpoint gaps_geb (d x : Z) (l : list Z) : bool :=
  match l with [] => true | y :: l' => (d <=? y - x) && gaps_geb d y l' end.
Fixpoint gaps_le (d x : Z) (l : list Z) : Prop :=
  match l with [] => True | y :: l' => y - x <= d /\ gaps_le d y l' end.
Fixpoint gaps_leb (d x : Z) (l : list Z) : bool :=
  match l with [] => true | y :: l' => (y - x <=? d) && gaps_leb d y l' end.

Definition only_edge : bool := ts_edge ts && negb (ts_level ts) && negb (ts_auto ts).

(* successive triggers of the epoch (emission order = increasing order) at least nsamp apart: it is enough to
   look at the last trigger of the epoch before this block and this block's triggers *)
Definition no_overlap : Prop :=
  only_edge = true ->
  match rev (bi_prev b) with
  | [] => match trigs with [] => True | t :: l => gaps_ge nsamp t l end
  | p :: _ => gaps_ge nsamp p trigs
  end.
Definition no_overlapb : bool :=
  if only_edge then
    match rev (bi_prev b) with
    | [] => match trigs with [] => true | t :: l => gaps_geb nsamp t l end
    | p :: _ => gaps_geb nsamp p trigs
    end
  else true.

Definition auto_free : bool := ts_auto ts && (ts_autoveto ts <=? 0).
Definition auto_bound : Z := auto_dly + nsamp.
Definition chain_start : Z := match rev (bi_prev b) with [] => first_cand | p :: _ => p end.
Definition chain_last : Z := match rev trigs with [] => chain_start | t :: _ => t end.

Definition auto_gap : Prop :=
  auto_free = true ->
  gaps_le auto_bound chain_start trigs /\ (first_cand < dec_end -> dec_end - 1 - chain_last <= auto_bound).
Definition auto_gapb : bool :=
  if auto_free
  then gaps_leb auto_bound chain_start trigs && (if first_cand <? dec_end then dec_end - 1 - chain_last <=? auto_bound else true)
  else true.

Definition block_ok : Prop := sound /\ edge_complete /\ level_complete /\ no_overlap /\ auto_gap.
Definition block_okb : bool := soundb && edge_completeb && level_completeb && no_overlapb && auto_gapb.

End Block.

(* the whole history: nothing crashed and every block is fine *)
Definition C02_holds (npre nsamp : Z) (ts : tstate) (F0 : Z) (h : list (op * obs)) : Prop :=
  exists bs, annotate F0 (init_sstate npre nsamp ts F0) h = Some bs /\ forall b, In b bs -> block_ok b.

Definition C02_check (npre nsamp : Z) (ts : tstate) (F0 : Z) (h : list (op * obs)) : bool :=
  match annotate F0 (init_sstate npre nsamp ts F0) h with
  | Some bs => forallb block_okb bs
  | None => false
  end.

(* premises on the operations of a history: those of C01 (one sample period, edge-multi off, record lengths
   that fit EMTState's int32 fields) and a channel does not change its signedness during a run *)
Definition op_ok2 (period : Z) (sgn : bool) (o : op) : Prop :=
  op_ok period o /\ match o with Block sg => seg_signed sg = sgn | _ => True end.

(* premise of the auto gap bound only: auto delays below 2^60 samples ("far past" + delay stays in the past) *)
Definition max_delay : Z := 1152921504606846976.
Definition delay_ok (o : op) : Prop :=
  match o with CfgTrig ts => ts_autodelay ts <= max_delay | _ => True end.
