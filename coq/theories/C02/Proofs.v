(* C02 — proofs: the accounting invariant across blocks and control operations (DESIGN appendix A). *)
From Dastard Require Import Common.ZX Pipeline.Stream C01.Model C01.Spec C01.Proofs C02.Spec.
From Coq Require Import ZifyBool ZifyNat.

(* ---------- lists ---------- *)

Lemma znth_app_l {A} (d : A) l1 l2 i : i < zlen l1 -> znth d (l1 ++ l2) i = znth d l1 i.
Proof.
  unfold znth, zlen; intros H. destruct (i <? 0) eqn:E; [reflexivity|].
  apply app_nth1. lia.
Qed.

Lemma znth_zskipn {A} (d : A) n l i : 0 <= n -> 0 <= i -> znth d (zskipn n l) i = znth d l (n + i).
Proof.
  unfold znth, zskipn; intros Hn Hi. destruct (i <? 0) eqn:E; [lia|].
  destruct (n + i <? 0) eqn:E2; [lia|]. rewrite nth_skipn_add. f_equal. lia.
Qed.

Lemma in_zrange k a n : In k (zrange a n) <-> a <= k < a + n.
Proof.
  unfold zrange. destruct (Z.le_gt_cases n 0) as [Hn|Hn].
  - replace (Z.to_nat n) with 0%nat by lia. cbn. lia.
  - rewrite <- (Z2Nat.id n) at 2 by lia. generalize (Z.to_nat n). clear. intros m. revert a.
    induction m as [|m IH]; intros a; cbn [zrange_nat In]; [lia|]. rewrite IH. lia.
Qed.

Lemma last_opt_rev l m : last_opt l = Some m -> exists rest, rev l = m :: rest.
Proof.
  induction l as [|x l IH]; [discriminate|]. destruct l as [|y l].
  - intros H; inversion H; subst. exists []. reflexivity.
  - intros H. change (last_opt (y :: l) = Some m) in H. destruct (IH H) as [rest Hr].
    exists (rest ++ [x]). change (rev (x :: y :: l)) with (rev (y :: l) ++ [x]). now rewrite Hr.
Qed.

Lemma last_opt_map (f : Z -> Z) l : last_opt (map f l) = option_map f (last_opt l).
Proof.
  induction l as [|x l IH]; [reflexivity|]. destruct l as [|y l]; [reflexivity|].
  change (last_opt (f x :: map f (y :: l)) = option_map f (last_opt (y :: l))).
  rewrite <- IH. reflexivity.
Qed.

Lemma spaced_pair d lo l x y : 0 <= d -> spaced d lo l -> In x l -> In y l -> x < y -> d <= y - x.
Proof.
  intros Hd. revert lo. induction l as [|z l IH]; intros lo Hs Hx Hy Hlt; [destruct Hx|].
  cbn [spaced] in Hs. destruct Hs as [H1 H2].
  destruct Hx as [->|Hx]; destruct Hy as [->|Hy].
  - lia.
  - pose proof (spaced_ge d _ _ Hd H2 _ Hy). lia.
  - pose proof (spaced_ge d _ _ Hd H2 _ Hx). lia.
  - eapply IH; eassumption.
Qed.

(* ---------- criteria: stream positions vs absolute frames ---------- *)

Lemma shift_eq sg v : shift sg v = if sg then (v + 32768) mod 65536 else v.
Proof. reflexivity. Qed.

Lemma gval_rel b st i :
  StreamInv (bi_G b) (bi_F0 b) st -> st_signed st = seg_signed (bi_seg b) -> 0 <= i ->
  gval b (st_first st + i) = shift (st_signed st) (znth 0 (st_data st) i).
Proof.
  intros [Hl Hd Hf] Hs Hi. unfold gval. rewrite <- Hs, shift_eq.
  pose proof (zlen_nonneg (st_data st)).
  assert (E : znth 0 (st_data st) i = znth 0 (bi_G b) (zlen (bi_G b) - zlen (st_data st) + i)).
  { rewrite Hd at 1. now rewrite znth_zskipn by lia. }
  rewrite E.
  replace (st_first st + i - bi_F0 b) with (zlen (bi_G b) - zlen (st_data st) + i) by lia. reflexivity.
Qed.

Lemma in_ground_rel b st i :
  StreamInv (bi_G b) (bi_F0 b) st -> 0 <= i < zlen (st_data st) -> in_ground b (st_first st + i) = true.
Proof. intros [Hl Hd Hf] Hi. unfold in_ground. lia. Qed.

Lemma edge_crit_rel b st i :
  StreamInv (bi_G b) (bi_F0 b) st -> st_signed st = seg_signed (bi_seg b) -> 3 <= i < zlen (st_data st) ->
  edge_crit b (st_first st + i) = edge_at (bi_ts b) (st_signed st) (st_data st) i.
Proof.
  intros Hst Hs Hi. unfold edge_crit, edge_at, edge_test.
  replace (st_first st + i - 3) with (st_first st + (i - 3)) by lia.
  replace (st_first st + i - 2) with (st_first st + (i - 2)) by lia.
  replace (st_first st + i - 1) with (st_first st + (i - 1)) by lia.
  rewrite !in_ground_rel by (assumption || lia).
  rewrite !gval_rel by (assumption || lia). reflexivity.
Qed.

Lemma level_crit_rel b st i :
  StreamInv (bi_G b) (bi_F0 b) st -> st_signed st = seg_signed (bi_seg b) -> 1 <= i < zlen (st_data st) ->
  level_crit b (st_first st + i) =
  level_at (bi_ts b) (st_signed st) (st_data st)
           (if st_signed st then u16 (ts_levellevel (bi_ts b) + 32768) else ts_levellevel (bi_ts b)) i.
Proof.
  intros Hst Hs Hi. unfold level_crit, level_at, level_test.
  replace (st_first st + i - 1) with (st_first st + (i - 1)) by lia.
  rewrite !in_ground_rel by (assumption || lia).
  rewrite !gval_rel by (assumption || lia). rewrite <- Hs. unfold u16.
  destruct (ts_levelrising (bi_ts b)); cbn [andb orb negb]; [now rewrite orb_false_r|reflexivity].
Qed.

(* the criteria at k only look at the settings, the signedness, F0 and G[k-3 .. k] *)
Lemma gval_ext b b' x k :
  seg_signed (bi_seg b') = seg_signed (bi_seg b) -> bi_F0 b' = bi_F0 b -> bi_G b' = bi_G b ++ x ->
  k - bi_F0 b < zlen (bi_G b) -> gval b' k = gval b k.
Proof. intros Hs Hf Hg Hk. unfold gval. rewrite Hs, Hf, Hg. now rewrite znth_app_l by lia. Qed.

Lemma in_ground_ext b b' x k :
  bi_F0 b' = bi_F0 b -> bi_G b' = bi_G b ++ x -> k - bi_F0 b < zlen (bi_G b) -> in_ground b' k = in_ground b k.
Proof.
  intros Hf Hg Hk. unfold in_ground. rewrite Hf, Hg, zlen_app. pose proof (zlen_nonneg x). lia.
Qed.

Lemma edge_crit_ext b b' x k :
  bi_ts b' = bi_ts b -> seg_signed (bi_seg b') = seg_signed (bi_seg b) -> bi_F0 b' = bi_F0 b ->
  bi_G b' = bi_G b ++ x -> k - bi_F0 b < zlen (bi_G b) -> edge_crit b' k = edge_crit b k.
Proof.
  intros Ht Hs Hf Hg Hk. unfold edge_crit. rewrite Ht.
  rewrite !(in_ground_ext b b' x) by (assumption || lia).
  rewrite !(gval_ext b b' x) by (assumption || lia). reflexivity.
Qed.

Lemma level_crit_ext b b' x k :
  bi_ts b' = bi_ts b -> seg_signed (bi_seg b') = seg_signed (bi_seg b) -> bi_F0 b' = bi_F0 b ->
  bi_G b' = bi_G b ++ x -> k - bi_F0 b < zlen (bi_G b) -> level_crit b' k = level_crit b k.
Proof.
  intros Ht Hs Hf Hg Hk. unfold level_crit. rewrite Ht, Hs.
  rewrite !(in_ground_ext b b' x) by (assumption || lia).
  rewrite !(gval_ext b b' x) by (assumption || lia). reflexivity.
Qed.

(* ---------- the auto scan: spacing of its triggers ---------- *)

Lemma auto_loop_slots raw veto npre nsamp dly :
  1 <= nsamp -> nsamp <= dly ->
  forall fuel c found l, spaced 0 (c - dly) found ->
    auto_loop fuel raw veto npre nsamp dly c found = Ok l ->
    spaced dly c l /\ forall t, In t l -> forall f, In f found -> f < t -> dly <= t - f.
Proof.
  intros Hn Hd. induction fuel as [|fu IH]; intros c found l Hsp Hl; [discriminate|].
  cbn [auto_loop] in Hl. destruct (c + nsamp - npre <? zlen raw) eqn:Elt.
  2:{ inversion Hl; subst. split; [exact I|]. intros t []. }
  assert (Hemit : (forall f, In f found -> c + nsamp <= f) ->
            match vetoed raw veto (c - npre) nsamp with
            | Panic => Panic
            | Ok v => match auto_loop fu raw veto npre nsamp dly (c + dly) found with
                      | Ok l => Ok (if v then l else c :: l) | Panic => Panic end
            end = Ok l ->
            spaced dly c l /\ forall t, In t l -> forall f, In f found -> f < t -> dly <= t - f).
  { intros Hall H. destruct (vetoed raw veto (c - npre) nsamp) as [v|]; [|discriminate].
    destruct (auto_loop fu raw veto npre nsamp dly (c + dly) found) as [l'|] eqn:El'; [|discriminate].
    assert (Hsp' : spaced 0 (c + dly - dly) found).
    { destruct found as [|nf rest]; [exact I|]. cbn [spaced] in *. split; [|tauto].
      specialize (Hall nf ltac:(now left)). lia. }
    destruct (IH _ _ _ Hsp' El') as [S1 S2]. inversion H; subst l; clear H. destruct v.
    - split; [eapply spaced_weaken; [|exact S1]; lia|exact S2].
    - split; [cbn [spaced]; split; [lia|exact S1]|].
      intros t [<-|Ht] f Hf Hlt; [specialize (Hall f Hf); lia|]. eapply S2; eassumption. }
  destruct found as [|nf rest].
  - apply Hemit; [intros f []|exact Hl].
  - cbn [spaced] in Hsp. destruct Hsp as [Hnf Hrest].
    destruct (c + nsamp <=? nf) eqn:Eok.
    + apply Hemit; [|exact Hl]. intros f [<-|Hf]; [lia|].
      pose proof (spaced_ge 0 _ _ ltac:(lia) Hrest _ Hf). lia.
    + assert (Hsp' : spaced 0 (nf + dly - dly) rest) by (replace (nf + dly - dly) with (nf + 0) by lia; exact Hrest).
      destruct (IH _ _ _ Hsp' Hl) as [S1 S2]. split; [eapply spaced_weaken; [|exact S1]; lia|].
      intros t Ht f [<-|Hf] Hlt.
      * pose proof (spaced_ge dly _ _ ltac:(lia) S1 _ Ht). lia.
      * eapply S2; eassumption.
Qed.

(* ---------- the accounting invariant ---------- *)

Definition acc_edge (T : list Z) (nsamp k : Z) : Prop := exists t, In t T /\ (t = k \/ t < k <= t + nsamp).
Definition acc_level (T : list Z) (nsamp k : Z) : Prop := exists t, In t T /\ Z.abs (k - t) < nsamp.

Lemma acc_edge_mono T T' nsamp k : (forall t, In t T -> In t T') -> acc_edge T nsamp k -> acc_edge T' nsamp k.
Proof. intros H [t [Ht Hr]]. exists t. split; auto. Qed.
Lemma acc_level_mono T T' nsamp k : (forall t, In t T -> In t T') -> acc_level T nsamp k -> acc_level T' nsamp k.
Proof. intros H [t [Ht Hr]]. exists t. split; auto. Qed.

Lemma gaps_ge_map d d' F x lo l :
  d' <= d -> d' <= lo + F - x -> spaced d lo l -> gaps_ge d' x (map (fun i => F + i) l).
Proof.
  intros Hd. revert x lo. induction l as [|y l IH]; intros x lo Hx Hs; cbn [map gaps_ge]; [exact I|].
  cbn [spaced] in Hs. destruct Hs as [H1 H2]. split; [lia|].
  apply (IH _ (y + d)); [lia|exact H2].
Qed.

Section Hist.
Variables (F0 p : Z) (sgn : bool).
Hypothesis HF0 : 0 <= F0.

Definition dummy_seg : segment :=
  {| seg_data := []; seg_first := 0; seg_time := 0; seg_period := 0; seg_signed := sgn |}.
(* the checker's view of "now": settings in force, ground truth so far *)
Definition cur (s : sstate) : binfo :=
  mkbi (s_npre s) (s_nsamp s) (s_ts s) F0 (s_G s) dummy_seg (s_C s) (s_acc s) (s_epoch s) (s_all s) [].
Definition s_end (s : sstate) : Z := F0 + zlen (s_G s).
(* candidates below s_A are accounted for *)
Definition s_A (s : sstate) : Z := s_acc s.

Record Inv2 (d : dsp) (s : sstate) : Prop := {
  v_inv1 : Inv1 F0 p d (s_G s);
  v_npre : d_npre d = s_npre s;
  v_nsamp : d_nsamp d = s_nsamp s;
  v_ts : d_ts d = s_ts s;
  v_S : s_C s <= s_acc s;
  v_S0 : F0 <= s_H s /\ s_H s <= s_end s /\ s_end s - zlen (st_data (d_stream d)) <= s_H s /\
         (s_acc s = s_C s \/ s_acc s <= s_end s);
  v_sub : forall u, In u (s_epoch s) -> In u (s_all s);
  v_last : d_last d = far_past \/ In (d_last d) (s_all s);
  v_lastA : d_last d < s_A s;
  v_lastE : d_last d < s_end s;
  v_keep : s_end s - zlen (st_data (d_stream d)) + s_npre s <= s_A s;
  v_edge : ts_edge (s_ts s) = true ->
           forall k, s_C s <= k < s_A s -> edge_crit (cur s) k = true -> acc_edge (s_all s) (s_nsamp s) k;
  v_level : ts_level (s_ts s) = true ->
            forall k, s_C s <= k < s_A s -> level_crit (cur s) k = true -> acc_level (s_all s) (s_nsamp s) k;
  v_epoch_le : forall u, In u (s_epoch s) -> u <= d_last d;
  v_epoch_last : forall q rest, rev (s_epoch s) = q :: rest -> q = d_last d
}.

(* the first four judgements on a block (the auto gap bound is added further down) *)
Definition block_ok4 (b : binfo) : Prop := sound b /\ edge_complete b /\ level_complete b /\ no_overlap b.

Lemma block_step d s sg :
  Inv2 d s -> seg_period sg = p -> seg_signed sg = sgn -> seg_first sg = F0 + zlen (s_G s) ->
  exists d' recs, process_block d sg = Ok (d', recs) /\
    block_ok4 (block_info F0 s sg recs) /\
    Inv2 d' (after_block_ss F0 s sg (map r_frame recs)).
Proof.
  intros [HI Hnp Hns Hts HS HS0 Hsub Hlast HlastA HlastE Hkeep Hedge Hlevel Hle Hlst] Hper Hsg Hfirst.
  destruct (process_block_spec F0 p d (s_G s) sg HI Hfirst Hper) as [E [L [A [idx [recs [Hpb [Hsc [HF [Hst [_ [_ HI']]]]]]]]]]].
  pose proof HI as [_ Hp3 Hs1 Hmax _ _ _].
  exists (after_block (appended d sg) idx), recs. split; [exact Hpb|].
  set (d1 := appended d sg) in *. set (st1 := d_stream d1) in *.
  set (b := block_info F0 s sg recs).
  set (s' := after_block_ss F0 s sg (map r_frame recs)).
  unfold s_A in *.
  set (npre := s_npre s) in *. set (nsamp := s_nsamp s) in *. set (ts := s_ts s) in *.
  set (F1 := st_first st1). set (nd := zlen (st_data st1)).
  set (lold := zlen (st_data (d_stream d))) in *.
  pose proof (zlen_nonneg (st_data (d_stream d))) as Hlold. fold lold in Hlold.
  pose proof (zlen_nonneg (seg_data sg)) as Hnn.
  assert (HF1 : F1 = s_end s - lold) by (unfold F1, st1, d1, s_end; cbn; unfold lold; lia).
  assert (Hnd : nd = lold + zlen (seg_data sg)) by (unfold nd, st1, d1; cbn; now rewrite zlen_app).
  assert (Hend' : s_end s' = s_end s + zlen (seg_data sg)) by (unfold s_end, s', after_block_ss; cbn [s_G]; rewrite zlen_app; lia).
  assert (HendF : s_end s' = F1 + nd) by lia.
  assert (Hsg1 : st_signed st1 = sgn) by (unfold st1, d1; cbn; exact Hsg).
  assert (Hd1 : d_npre d1 = npre /\ d_nsamp d1 = nsamp /\ d_ts d1 = ts /\ d_last d1 = d_last d).
  { unfold d1. cbn. auto. }
  destruct Hd1 as [Hd1a [Hd1b [Hd1c Hd1d]]].
  assert (Hp3' : 3 <= npre) by lia. assert (Hs1' : npre + 1 <= nsamp) by lia.
  assert (Hmax' : nsamp <= max_nsamp) by lia. unfold max_nsamp in Hmax'.
  (* first potential trigger, in frames *)
  set (fp := first_potential d1).
  assert (Hfp : F1 + fp = Z.max (F1 + npre) (d_last d + nsamp)).
  { unfold fp, first_potential. fold st1. fold F1. rewrite Hd1a, Hd1b, Hd1d. destruct (_ <? _) eqn:E0; lia. }
  set (e := nd + npre - nsamp).
  assert (Hdec : dec_end b = F1 + e).
  { change (dec_end b) with (s_end s' - (nsamp - npre)). rewrite HendF. unfold e. lia. }
  assert (HfirstC : first_cand b = s_C s) by reflexivity.
  destruct HS0 as [HH0 [HH1 [HH2 HH3]]].
  (* trigger frames *)
  assert (Htr : map r_frame recs = map (fun i => F1 + i) idx).
  { apply (cut_frames st1 (d_npre d) (d_nsamp d)). exact HF. }
  assert (Htrigs : trigs b = map (fun i => F1 + i) idx) by (unfold trigs, bi_trigs; exact Htr).
  assert (Hin_tr : forall t, In t (trigs b) <-> exists i, In i idx /\ t = F1 + i).
  { intros t. rewrite Htrigs, in_map_iff. split; intros [i [H1 H2]]; exists i; split; auto. }
  (* scans, with the abbreviations *)
  pose proof (sc_edge _ _ _ _ _ Hsc) as SE. pose proof (sc_level _ _ _ _ _ Hsc) as SL.
  pose proof (sc_in _ _ _ _ _ Hsc) as SI. pose proof (sc_range _ _ _ _ _ Hsc) as SR.
  pose proof (sc_sorted _ _ _ _ _ Hsc) as SS.
  rewrite Hd1c in SE, SL. rewrite Hd1a, Hd1b in SE. rewrite Hd1a, Hd1b in SL. rewrite Hd1a, Hd1b in SR. rewrite Hd1a in SS.
  fold st1 in SE, SL, SR. fold nd in SE, SL, SR. fold fp in SE, SL. fold e in SE, SL. rewrite Hsg1 in SE, SL.
  (* criteria on the block's view = on stream positions *)
  assert (HbG : StreamInv (bi_G b) (bi_F0 b) st1) by exact Hst.
  assert (Hbs : st_signed st1 = seg_signed (bi_seg b)) by (unfold b; cbn [bi_seg]; rewrite Hsg1; now symmetry).
  assert (Hec : forall i, 3 <= i < nd -> edge_crit b (F1 + i) = edge_at ts sgn (st_data st1) i).
  { intros i Hi. unfold F1. rewrite (edge_crit_rel b st1 i HbG Hbs Hi). now rewrite Hsg1. }
  assert (Hlc : forall i, 1 <= i < nd -> level_crit b (F1 + i) =
            level_at ts sgn (st_data st1) (if sgn then u16 (ts_levellevel ts + 32768) else ts_levellevel ts) i).
  { intros i Hi. unfold F1. rewrite (level_crit_rel b st1 i HbG Hbs Hi). now rewrite Hsg1. }
  (* ranges of E and L *)
  assert (HEr : forall i, In i E -> fp <= i < e /\ ts_edge ts = true /\ edge_at ts sgn (st_data st1) i = true).
  { intros i Hi. destruct (ts_edge ts); [|subst E; destruct Hi].
    destruct (el_range _ _ _ _ _ _ _ SE i Hi). auto. }
  assert (HLr : forall i, In i L -> fp <= i < e /\ ts_level ts = true /\
            level_at ts sgn (st_data st1) (if sgn then u16 (ts_levellevel ts + 32768) else ts_levellevel ts) i = true).
  { intros i Hi. destruct (ts_level ts); [|subst L; destruct Hi].
    destruct (ll_range _ _ _ _ _ _ _ _ _ SL i Hi). auto. }
  pose proof (first_potential_ge d1) as Hfpge. fold fp in Hfpge. rewrite Hd1a in Hfpge.
  assert (He_nd : e <= nd - 1) by (unfold e; lia).
  (* all triggers of the block lie in [F1 + npre, dec_end) *)
  assert (Htr_range : forall t, In t (trigs b) -> F1 + npre <= t < F1 + e).
  { intros t Ht. apply Hin_tr in Ht. destruct Ht as [i [Hi ->]]. destruct (SR i Hi). unfold e. lia. }
  assert (Hkeep' : F1 + npre <= s_acc s) by (rewrite HF1; exact Hkeep).
  assert (HA' : s_acc s' = Z.max (s_acc s) (F1 + e)).
  { unfold s', after_block_ss. cbn [s_acc]. fold npre nsamp.
    change (F0 + zlen (s_G s ++ seg_data sg)) with (s_end s'). rewrite HendF. unfold e. f_equal. lia. }
  assert (HH' : s_H s' = Z.max (s_H s) (F1 + nd - nsamp)).
  { unfold s', after_block_ss. cbn [s_H]. fold nsamp.
    change (F0 + zlen (s_G s ++ seg_data sg)) with (s_end s'). now rewrite HendF. }
  assert (HC' : s_C s' = s_C s) by reflexivity.
  assert (Hlen_le : lold <= zlen (s_G s)).
  { destruct (i1_stream _ _ _ _ HI) as [[H1 _ _]|[H1 H2]]; [exact H1|]. unfold lold. rewrite H1, H2. reflexivity. }
  assert (Hfar : d_last d = far_past -> d_last d + nsamp <= F1 + npre).
  { intros ->. unfold far_past. unfold s_end in HF1. lia. }
  (* ---- completeness ---- *)
  assert (Hcur_e : forall k, k < s_end s -> edge_crit b k = edge_crit (cur s) k).
  { intros k Hk. apply (edge_crit_ext (cur s) b (seg_data sg)); try reflexivity.
    - cbn. now symmetry.
    - cbn. unfold s_end in Hk. lia. }
  assert (Hcur_l : forall k, k < s_end s -> level_crit b k = level_crit (cur s) k).
  { intros k Hk. apply (level_crit_ext (cur s) b (seg_data sg)); try reflexivity.
    - cbn. now symmetry.
    - cbn. unfold s_end in Hk. lia. }
  assert (Hall_l : forall t, In t (s_all s) -> In t (all_trigs b)).
  { intros t Ht. unfold all_trigs. apply in_or_app. now left. }
  assert (Hall_r : forall i, In i idx -> In (F1 + i) (all_trigs b)).
  { intros i Hi. unfold all_trigs. apply in_or_app. right. apply Hin_tr. eauto. }
  assert (HECg : ts_edge ts = true -> forall k, s_C s <= k < Z.max (s_acc s) (F1 + e) -> edge_crit b k = true ->
                 acc_edge (all_trigs b) nsamp k).
  { intros Hte k [Hk1 Hk2] Hck.
    destruct (Z.lt_ge_cases k (s_acc s)) as [HkA|HkA].
    - (* accounted before this block *)
      assert (Hke : k < s_end s) by lia.
      rewrite (Hcur_e k Hke) in Hck.
      destruct (Hedge Hte k ltac:(lia) Hck) as [t [Ht Hr]]. exists t. split; [auto|exact Hr].
    - destruct (Z.lt_ge_cases k (F1 + fp)) as [Hkf|Hkf].
      + (* between the accounted range and this scan: dead time of the last trigger *)
        assert (Hk3 : k < d_last d + nsamp) by lia.
        destruct Hlast as [Hfp0|Hin]; [specialize (Hfar Hfp0); lia|].
        exists (d_last d). split; [auto|]. right. lia.
      + (* scanned now *)
        rewrite Hte in SE.
        assert (Hki : fp <= k - F1 < e) by lia.
        assert (Hck' : edge_at ts sgn (st_data st1) (k - F1) = true).
        { rewrite <- Hec by lia. now replace (F1 + (k - F1)) with k by lia. }
        destruct (el_complete _ _ _ _ _ _ _ SE (k - F1) Hki Hck') as [Hin|[t [Ht Hr]]].
        * exists k. split; [|now left]. replace k with (F1 + (k - F1)) by lia. apply Hall_r, SI. now left.
        * exists (F1 + t). split; [apply Hall_r, SI; now left|]. right. lia. }
  assert (HEC : edge_complete b).
  { intros Hte k [Hk1 Hk2] Hck. rewrite HfirstC in Hk1. rewrite Hdec in Hk2.
    change (bi_ts b) with ts in Hte. apply (HECg Hte k); [lia|exact Hck]. }
  assert (HLCg : ts_level ts = true -> forall k, s_C s <= k < Z.max (s_acc s) (F1 + e) -> level_crit b k = true ->
                 acc_level (all_trigs b) nsamp k).
  { intros Hte k [Hk1 Hk2] Hck.
    destruct (Z.lt_ge_cases k (s_acc s)) as [HkA|HkA].
    - assert (Hke : k < s_end s) by lia.
      rewrite (Hcur_l k Hke) in Hck.
      destruct (Hlevel Hte k ltac:(lia) Hck) as [t [Ht Hr]]. exists t. split; [auto|exact Hr].
    - destruct (Z.lt_ge_cases k (F1 + fp)) as [Hkf|Hkf].
      + assert (Hk3 : k < d_last d + nsamp) by lia.
        destruct Hlast as [Hfp0|Hin]; [specialize (Hfar Hfp0); lia|].
        exists (d_last d). split; [auto|]. lia.
      + rewrite Hte in SL.
        assert (Hki : fp <= k - F1 < e) by lia.
        assert (Hck' : level_at ts sgn (st_data st1) (if sgn then u16 (ts_levellevel ts + 32768) else ts_levellevel ts) (k - F1) = true).
        { rewrite <- Hlc by lia. now replace (F1 + (k - F1)) with k by lia. }
        destruct (ll_complete _ _ _ _ _ _ _ _ _ SL (k - F1) Hki Hck') as [Hin|[f [Hf Hr]]].
        * exists k. split; [|lia]. replace k with (F1 + (k - F1)) by lia. apply Hall_r, SI. right. now left.
        * exists (F1 + f). split; [apply Hall_r, SI; now left|]. lia. }
  assert (HLC : level_complete b).
  { intros Hte k [Hk1 Hk2] Hck. rewrite HfirstC in Hk1. rewrite Hdec in Hk2.
    change (bi_ts b) with ts in Hte. apply (HLCg Hte k); [lia|exact Hck]. }
  assert (Hc0g : d_last d - F1 + auto_dly_of d1 <= first_potential_auto d1 /\ nsamp <= auto_dly_of d1).
  { unfold first_potential_auto. fold st1. fold F1. rewrite Hd1d.
    unfold auto_dly_of. rewrite Hd1a, Hd1b, Hd1c.
    destruct (ts_autodelay ts >? nsamp) eqn:E1; destruct (ts_autodelay ts <? nsamp) eqn:E2;
      destruct (_ <? npre) eqn:E3; lia. }
  (* ---- soundness ---- *)
  assert (HSND : sound b).
  { intros t Ht. apply Hin_tr in Ht. destruct Ht as [i [Hi ->]]. change (bi_ts b) with ts.
    apply SI in Hi. destruct Hi as [Hi|[Hi|Hi]].
    - left. destruct (HEr i Hi) as [Hr [Hte Hc]]. split; [exact Hte|]. rewrite Hec by lia. exact Hc.
    - right. left. destruct (HLr i Hi) as [Hr [Hte Hc]]. split; [exact Hte|]. rewrite Hlc by lia. exact Hc.
    - right. right. pose proof (sc_auto _ _ _ _ _ Hsc) as SA. rewrite Hd1c in SA.
      destruct (ts_auto ts) eqn:Ea; [|subst A; destruct Hi]. split; [reflexivity|].
      destruct SA as [fuel [EL [Hloop [Hsp HELin]]]].
      set (dly := auto_dly_of d1) in *. set (c0 := first_potential_auto d1) in *.
      assert (Hdly : dly = auto_dly b).
      { unfold dly, auto_dly_of, auto_dly. rewrite Hd1b, Hd1c. change (bi_ts b) with ts. change (bi_nsamp b) with nsamp.
        destruct (_ <? _) eqn:E0; lia. }
      assert (Hdn : nsamp <= dly) by (rewrite Hdly; unfold auto_dly; change (bi_nsamp b) with nsamp; lia).
      rewrite Hd1a, Hd1b in Hloop.
      assert (Hn1 : 1 <= nsamp) by lia.
      destruct (auto_loop_slots _ _ _ _ _ Hn1 Hdn _ _ _ _ Hsp Hloop) as [S1 S2].
      destruct Hc0g as [Hc0 _]. fold dly c0 in Hc0.
      pose proof (spaced_ge dly _ _ ltac:(lia) S1 _ Hi) as Hci.
      intros u Hu Hlt. rewrite <- Hdly. unfold epoch_trigs in Hu. apply in_app_or in Hu. destruct Hu as [Hu|Hu].
      + change (bi_prev b) with (s_epoch s) in Hu. specialize (Hle u Hu). lia.
      + apply Hin_tr in Hu. destruct Hu as [j [Hj ->]]. apply SI in Hj.
        assert (Hji : j < i) by lia.
        destruct Hj as [Hj|[Hj|Hj]].
        * specialize (S2 i Hi j (proj2 (HELin j) (or_introl Hj)) Hji). lia.
        * specialize (S2 i Hi j (proj2 (HELin j) (or_intror Hj)) Hji). lia.
        * pose proof (spaced_pair dly _ _ j i ltac:(lia) S1 Hj Hi Hji). lia. }
  (* ---- no overlap ---- *)
  assert (HNO : no_overlap b).
  { unfold no_overlap, only_edge. change (bi_ts b) with ts. change (bi_nsamp b) with nsamp. change (bi_prev b) with (s_epoch s).
    intros Hoe. assert (Hte : ts_edge ts = true) by lia. assert (Htl : ts_level ts = false) by lia.
    assert (Hta : ts_auto ts = false) by lia.
    assert (HidxE : idx = E) by (apply (sc_only_edge _ _ _ _ _ Hsc); rewrite Hd1c; assumption).
    rewrite Hte in SE. pose proof (el_spaced _ _ _ _ _ _ _ SE) as Hsp. rewrite Htrigs, HidxE.
    destruct (rev (s_epoch s)) as [|q rest] eqn:Er.
    - destruct E as [|i E']; cbn [map]; [exact I|].
      cbn [spaced] in Hsp. destruct Hsp as [H1 H2].
      apply (gaps_ge_map (nsamp + 1) nsamp F1 (F1 + i) (i + (nsamp + 1))); [lia|lia|exact H2].
    - pose proof (Hlst q rest eq_refl) as Hq. subst q.
      apply (gaps_ge_map (nsamp + 1) nsamp F1 (d_last d) fp); [lia|lia|exact Hsp]. }
  split; [repeat split; assumption|].
  (* ---- the invariant after the block ---- *)
  set (Lnew := match last_opt idx with Some i => F1 + i | None => d_last d end).
  assert (Hd'last : d_last (after_block d1 idx) = Lnew).
  { unfold after_block, Lnew. cbn [d_last set_stream set_last]. fold st1. fold F1. now rewrite Hd1d. }
  assert (HLnew : (last_opt idx = None /\ idx = [] /\ Lnew = d_last d) \/
                  (exists i, last_opt idx = Some i /\ In i idx /\ Lnew = F1 + i /\ forall j, In j idx -> j <= i)).
  { unfold Lnew. destruct (last_opt idx) as [i|] eqn:El.
    - right. destruct (last_opt_spaced _ _ _ SS El) as [H1 H2]. exists i. auto.
    - left. split; [reflexivity|]. split; [now apply last_opt_none|reflexivity]. }
  assert (Hd'len : zlen (st_data (d_stream (after_block d1 idx))) = Z.min nd (2 * nsamp + 10)).
  { unfold after_block. cbn [d_stream set_stream set_last]. rewrite Hd1b. fold st1. unfold trim. fold nd.
    destruct (2 * nsamp + 10 >=? nd) eqn:E0; [fold nd; lia|].
    cbn [st_data]. rewrite zskipn_length; fold nd; lia. }
  split.
  - exact HI'.
  - exact Hnp.
  - exact Hns.
  - exact Hts.
  - rewrite HC', HA'. lia.
  - rewrite HH', HA', HC', HendF, Hd'len. lia.
  - unfold s', after_block_ss. cbn [s_epoch s_all]. intros u Hu. apply in_app_or in Hu. apply in_or_app. destruct Hu; [left; auto|now right].
  - rewrite Hd'last. unfold s', after_block_ss. cbn [s_all]. destruct HLnew as [[_ [_ ->]]|[i [_ [Hi [-> _]]]]].
    + destruct Hlast; [now left|right; apply in_or_app; now left].
    + right. apply in_or_app. right. rewrite Htr. apply in_map_iff. eauto.
  - rewrite Hd'last. unfold s_A. rewrite HA'. destruct HLnew as [[_ [_ ->]]|[i [_ [Hi [-> _]]]]]; [lia|].
    destruct (SR i Hi). unfold e. lia.
  - rewrite Hd'last, HendF. destruct HLnew as [[_ [_ ->]]|[i [_ [Hi [-> _]]]]]; [lia|].
    destruct (SR i Hi). lia.
  - unfold s_A. rewrite Hd'len, HA', HendF. change (s_npre s') with npre. unfold e. lia.
  - change (s_ts s') with ts. change (s_nsamp s') with nsamp. change (s_all s') with (all_trigs b).
    unfold s_A. rewrite HC', HA'. intros Hte k Hk Hck.
    assert (Hck' : edge_crit b k = true).
    { rewrite <- Hck. apply (edge_crit_ext (cur s') b []); try reflexivity.
      - cbn. now symmetry.
      - symmetry. apply app_nil_r.
      - change (k - F0 < zlen (s_G s')). fold (s_end s') in HendF. unfold s_end in HendF. unfold e in Hk. lia. }
    exact (HECg Hte k Hk Hck').
  - change (s_ts s') with ts. change (s_nsamp s') with nsamp. change (s_all s') with (all_trigs b).
    unfold s_A. rewrite HC', HA'. intros Hte k Hk Hck.
    assert (Hck' : level_crit b k = true).
    { rewrite <- Hck. apply (level_crit_ext (cur s') b []); try reflexivity.
      - cbn. now symmetry.
      - symmetry. apply app_nil_r.
      - change (k - F0 < zlen (s_G s')). fold (s_end s') in HendF. unfold s_end in HendF. unfold e in Hk. lia. }
    exact (HLCg Hte k Hk Hck').
  - rewrite Hd'last. unfold s', after_block_ss. cbn [s_epoch]. intros u Hu. apply in_app_or in Hu.
    assert (HLge : d_last d <= Lnew).
    { destruct HLnew as [[_ [_ ->]]|[i [_ [Hi [-> _]]]]]; [lia|].
      assert (d_last d - F1 <= i).
      { apply SI in Hi. destruct Hi as [Hi|[Hi|Hi]]; [apply HEr in Hi; lia|apply HLr in Hi; lia|].
        pose proof (sc_auto _ _ _ _ _ Hsc) as SA. rewrite Hd1c in SA.
        destruct (ts_auto ts); [|subst A; destruct Hi].
        destruct SA as [fuel [EL [Hloop [Hsp HELin]]]]. rewrite Hd1a, Hd1b in Hloop.
        destruct Hc0g as [Hc0 Hdn].
        assert (Hn1 : 1 <= nsamp) by lia.
        destruct (auto_loop_slots _ _ _ _ _ Hn1 Hdn _ _ _ _ Hsp Hloop) as [S1 _].
        pose proof (spaced_ge (auto_dly_of d1) _ _ ltac:(lia) S1 _ Hi). lia. }
      lia. }
    destruct Hu as [Hu|Hu]; [specialize (Hle u Hu); lia|].
    rewrite Htr in Hu. apply in_map_iff in Hu. destruct Hu as [j [<- Hj]].
    destruct HLnew as [[_ [Hnil _]]|[i [_ [Hi [-> Hmaxi]]]]]; [subst idx; destruct Hj|].
    specialize (Hmaxi j Hj). lia.
  - rewrite Hd'last. unfold s', after_block_ss. cbn [s_epoch]. intros q rest Hrev. rewrite rev_app_distr in Hrev.
    destruct HLnew as [[_ [Hnil ->]]|[i [Hlo [Hi [-> _]]]]].
    + rewrite Htr, Hnil in Hrev. cbn [map rev app] in Hrev. eapply Hlst; eassumption.
    + rewrite Htr in Hrev.
      assert (Hl2 : last_opt (map (fun i0 => F1 + i0) idx) = Some (F1 + i)) by (rewrite last_opt_map, Hlo; reflexivity).
      destruct (last_opt_rev _ _ Hl2) as [rest' Hr']. rewrite Hr' in Hrev. cbn [app] in Hrev. now inversion Hrev.
Qed.

(* a control operation: the new epoch starts with nothing to account for *)
Lemma epoch_start_inv2 d' s npre' nsamp' ts' :
  Inv1 F0 p d' (s_G s) -> d_npre d' = npre' -> d_nsamp d' = nsamp' -> d_ts d' = ts' ->
  (d_last d' = far_past \/ In (d_last d') (s_all s)) -> d_last d' < s_end s ->
  d_last d' < Z.max (s_acc s) (s_H s + npre') ->
  F0 <= s_H s /\ s_H s <= s_end s /\ s_end s - zlen (st_data (d_stream d')) <= s_H s ->
  Inv2 d' (new_epoch F0 s npre' nsamp' ts').
Proof.
  intros HI Hnp Hns Hts Hlast HlastE HlastC [HH0 [HH1 HH2]].
  pose proof HI as [_ Hp3 Hs1 _ _ _ _]. rewrite Hnp in Hp3, Hs1. rewrite Hns in Hs1.
  pose proof (zlen_nonneg (s_G s)) as HG. pose proof (zlen_nonneg (st_data (d_stream d'))) as Hl.
  split; try assumption.
  - unfold new_epoch. cbn [s_C s_acc]. lia.
  - change (s_end (new_epoch F0 s npre' nsamp' ts')) with (s_end s). unfold new_epoch. cbn [s_C s_acc s_H].
    repeat split; try assumption. now left.
  - intros u [].
  - change (s_end (new_epoch F0 s npre' nsamp' ts')) with (s_end s). unfold s_A, new_epoch. cbn [s_acc s_npre]. lia.
  - intros _ k Hk. unfold s_A, new_epoch in Hk. cbn [s_C s_acc] in Hk. lia.
  - intros _ k Hk. unfold s_A, new_epoch in Hk. cbn [s_C s_acc] in Hk. lia.
  - intros u [].
  - intros q rest Hr. destruct rest; discriminate.
Qed.

Definition fresh_ss (npre nsamp : Z) (ts : tstate) : sstate :=
  mkss npre nsamp (no_emulti ts) [] F0 (F0 + npre) (F0 + npre) [] [].
Lemma init_as_epoch npre nsamp ts :
  init_sstate npre nsamp ts F0 = new_epoch F0 (fresh_ss npre nsamp ts) npre nsamp (no_emulti ts).
Proof. unfold new_epoch, init_sstate, fresh_ss. cbn [s_G s_all s_acc s_H]. now rewrite Z.max_id. Qed.

Lemma fresh_inv2 npre nsamp ts :
  lengths_ok npre nsamp = true -> nsamp <= max_nsamp ->
  Inv2 (fresh_start npre nsamp ts) (init_sstate npre nsamp ts F0).
Proof.
  intros Hl Hm. rewrite init_as_epoch. pose proof Hl as Hl'. apply lengths_ok_iff in Hl'.
  apply epoch_start_inv2; try reflexivity.
  - apply fresh_inv1; assumption.
  - now left.
  - cbn. unfold far_past, s_end. cbn. lia.
  - cbn. unfold far_past. lia.
  - unfold s_end, fresh_ss. cbn. lia.
Qed.

Lemma cfg_trig_inv2 d s ts' :
  Inv2 d s -> ts_emulti ts' = false -> Inv2 (cfg_trig_do d ts') (new_epoch F0 s (s_npre s) (s_nsamp s) ts').
Proof.
  intros HI HQ1. pose proof HI as [H1 H2 H3 H4 _ [HH0 [HH1 [HH2 _]]] _ _ _ _ _ _ _ _ _].
  pose proof H1 as [_ Hp3 _ _ _ _ _].
  apply epoch_start_inv2; try assumption; try reflexivity.
  - apply cfg_trig_inv1; assumption.
  - now left.
  - cbn. unfold far_past, s_end. pose proof (zlen_nonneg (s_G s)). lia.
  - cbn. unfold far_past. lia.
  - repeat split; assumption.
Qed.

(* ConfigureTrigger as a whole: a refused request leaves model state and checker state alone *)
Lemma cfg_trig_step2 d s ts' :
  Inv2 d s -> (ts_emulti ts' = true -> max_nsamp < ts_emt_nmono ts') ->
  Inv2 (fst (cfg_trig d ts')) (if snd (cfg_trig d ts') then s else new_epoch F0 s (s_npre s) (s_nsamp s) ts').
Proof.
  intros HI HQ. pose proof HI as [H1 _ _ _ _ _ _ _ _ _ _ _ _ _ _]. pose proof H1 as [_ Hp3 Hs1 Hmx _ _ _].
  destruct (cfg_trig_cases d ts' Hp3 Hs1 Hmx HQ) as [[He ->]|[He ->]]; cbn [fst snd]; [exact HI|].
  apply cfg_trig_inv2; assumption.
Qed.

(* re-installing the lengths already in force changes nothing the invariant looks at *)
Lemma same_len_inv2 d s :
  Inv2 d s ->
  Inv2 (mkdsp (d_nsamp d) (d_npre d) (d_last d) (d_stream d) (d_ts d) (s32 (d_nsamp d)) (s32 (d_npre d))) s.
Proof.
  intros [H1 H2 H3 H4 H5 H6 H7 H8 H9 H10 H11 H12 H13 H14 H15]. split; try assumption.
  destruct H1 as [A1 A2 A3 A4 A5 A6 A7]. split; cbn; try assumption.
  apply s32_small. unfold max_nsamp in A4. lia.
Qed.

Lemma cfg_len_inv2 d s nsamp' npre' :
  Inv2 d s -> nsamp' <= max_nsamp ->
  Inv2 (fst (cfg_len d nsamp' npre')) (if lengths_ok npre' nsamp' then accepted_len F0 s nsamp' npre' else s).
Proof.
  intros HI HQ1. pose proof HI as [H1 H2 H3 H4 _ [HH0 [HH1 [HH2 _]]] _ H8 H9 H10 _ _ _ _ _].
  unfold s_A in H9.
  unfold cfg_len. destruct (lengths_ok npre' nsamp') eqn:El; cbn [fst]; [|exact HI].
  unfold accepted_len. destruct ((nsamp' =? s_nsamp s) && (npre' =? s_npre s)) eqn:Es.
  - assert (nsamp' = d_nsamp d) by lia. assert (npre' = d_npre d) by lia. subst nsamp' npre'.
    apply same_len_inv2. exact HI.
  - apply epoch_start_inv2; try assumption; try reflexivity.
    + pose proof (cfg_len_inv1 F0 p d (s_G s) nsamp' npre' H1 HQ1 El) as Hx. unfold cfg_len in Hx. now rewrite El in Hx.
    + cbn. lia.
    + repeat split; assumption.
Qed.

Lemma model_C02_4 npre nsamp ts ops :
  lengths_ok npre nsamp = true -> nsamp <= max_nsamp -> contiguous F0 ops -> Forall (op_ok2 p sgn) ops ->
  exists bs,
    annotate F0 (init_sstate npre nsamp ts F0) (combine ops (run (fresh_start npre nsamp ts) ops)) = Some bs /\
    forall b, In b bs -> block_ok4 b.
Proof.
  intros Hl Hm Hc HQ.
  destruct (history_ind F0 Inv2 block_ok4 (op_ok2 p sgn)) with (ops := ops)
    (d := fresh_start npre nsamp ts) (s := init_sstate npre nsamp ts F0) as [bs [Ha [Hb _]]].
  - intros d s sg HI [HQ1 HQ2] Hf. cbn [op_ok] in HQ1.
    destruct (block_step d s sg HI HQ1 HQ2 Hf) as [d' [recs H]]. exists d', recs. exact H.
  - intros d s ts' HI [HQ1 _]. cbn [op_ok] in HQ1.
    apply cfg_trig_step2; assumption.
  - intros d s nsamp' npre' HI [HQ1 _]. cbn [op_ok] in HQ1. apply cfg_len_inv2; assumption.
  - apply fresh_inv2; assumption.
  - cbn. now rewrite Z.add_0_r.
  - exact HQ.
  - exists bs. split; assumption.
Qed.

End Hist.

(* ---------- the auto scan: upper bounds on the gaps (no veto) ---------- *)

Lemma auto_loop_chain raw veto npre nsamp dly :
  1 <= nsamp -> nsamp <= dly -> veto <= 0 ->
  forall fuel c found l, spaced 0 (c - dly) found ->
    auto_loop fuel raw veto npre nsamp dly c found = Ok l ->
    let e := zlen raw - nsamp + npre in
    let M := fun x => In x found \/ In x l in
    (c < e -> exists y, M y /\ c - dly < y < c + nsamp) /\
    (forall x, M x -> e <= x + dly \/ exists y, M y /\ x < y < x + dly + nsamp) /\
    (e <= c \/ exists x, M x /\ e <= x + dly).
Proof.
  intros Hn Hd Hv. induction fuel as [|fu IH]; intros c found l Hsp Hl; [discriminate|].
  cbn [auto_loop] in Hl. cbv zeta. destruct (c + nsamp - npre <? zlen raw) eqn:Elt.
  2:{ inversion Hl; subst. split; [lia|]. split; [|left; lia].
      intros x [Hx|[]]. left. pose proof (spaced_ge 0 _ _ ltac:(lia) Hsp _ Hx). lia. }
  assert (Hemit : (forall f, In f found -> c + nsamp <= f) ->
            match vetoed raw veto (c - npre) nsamp with
            | Panic => Panic
            | Ok v => match auto_loop fu raw veto npre nsamp dly (c + dly) found with
                      | Ok l => Ok (if v then l else c :: l) | Panic => Panic end
            end = Ok l ->
            (c < zlen raw - nsamp + npre -> exists y, (In y found \/ In y l) /\ c - dly < y < c + nsamp) /\
            (forall x, In x found \/ In x l ->
               zlen raw - nsamp + npre <= x + dly \/ exists y, (In y found \/ In y l) /\ x < y < x + dly + nsamp) /\
            (zlen raw - nsamp + npre <= c \/ exists x, (In x found \/ In x l) /\ zlen raw - nsamp + npre <= x + dly)).
  { intros Hall H. rewrite vetoed_off in H by assumption.
    destruct (auto_loop fu raw veto npre nsamp dly (c + dly) found) as [l'|] eqn:El'; [|discriminate].
    inversion H; subst l; clear H.
    assert (Hsp' : spaced 0 (c + dly - dly) found).
    { destruct found as [|nf rest]; [exact I|]. cbn [spaced] in *. split; [|tauto].
      specialize (Hall nf ltac:(now left)). lia. }
    destruct (IH _ _ _ Hsp' El') as [R1 [R2 R3]].
    split; [|split].
    - intros _. exists c. split; [right; now left|lia].
    - intros x [Hx|[<-|Hx]].
      + destruct (R2 x (or_introl Hx)) as [H|[y [[Hy|Hy] Hr]]]; [now left|right; exists y; split; [now left|lia]|].
        right. exists y. split; [right; now right|lia].
      + destruct (Z.lt_ge_cases (c + dly) (zlen raw - nsamp + npre)) as [Hlt|Hge]; [|left; lia].
        destruct (R1 Hlt) as [y [[Hy|Hy] Hr]]; right; exists y; (split; [|lia]); [now left|right; now right].
      + destruct (R2 x (or_intror Hx)) as [H|[y [[Hy|Hy] Hr]]]; [now left|right; exists y; split; [now left|lia]|].
        right. exists y. split; [right; now right|lia].
    - destruct R3 as [H|[x [[Hx|Hx] Hr]]].
      + right. exists c. split; [right; now left|lia].
      + right. exists x. split; [now left|lia].
      + right. exists x. split; [right; now right|lia]. }
  destruct found as [|nf rest].
  - apply Hemit; [intros f []|exact Hl].
  - cbn [spaced] in Hsp. destruct Hsp as [Hnf Hrest].
    destruct (c + nsamp <=? nf) eqn:Eok.
    + apply Hemit; [|exact Hl]. intros f [<-|Hf]; [lia|].
      pose proof (spaced_ge 0 _ _ ltac:(lia) Hrest _ Hf). lia.
    + assert (Hsp' : spaced 0 (nf + dly - dly) rest) by (replace (nf + dly - dly) with (nf + 0) by lia; exact Hrest).
      destruct (IH _ _ _ Hsp' Hl) as [R1 [R2 R3]].
      split; [|split].
      * intros Hce. destruct (Z.eq_dec nf (c - dly)) as [Heq|Hne].
        -- destruct (R1 ltac:(lia)) as [y [[Hy|Hy] Hr]]; exists y; (split; [|lia]); [left; now right|now right].
        -- exists nf. split; [left; now left|lia].
      * intros x [[<-|Hx]|Hx].
        -- destruct (Z.lt_ge_cases (nf + dly) (zlen raw - nsamp + npre)) as [Hlt|Hge]; [|left; lia].
           destruct (R1 Hlt) as [y [[Hy|Hy] Hr]]; right; exists y; (split; [|lia]); [left; now right|now right].
        -- destruct (R2 x (or_introl Hx)) as [H|[y [[Hy|Hy] Hr]]]; [now left| |];
             right; exists y; (split; [|lia]); [left; now right|now right].
        -- destruct (R2 x (or_intror Hx)) as [H|[y [[Hy|Hy] Hr]]]; [now left| |];
             right; exists y; (split; [|lia]); [left; now right|now right].
      * destruct R3 as [H|[x [[Hx|Hx] Hr]]].
        -- right. exists nf. split; [left; now left|lia].
        -- right. exists x. split; [left; now right|lia].
        -- right. exists x. split; [now right|lia].
Qed.

(* from "every trigger has a successor within B or is within B of the end" to the gaps of the sorted list *)
Lemma gaps_from_cover B e : forall M lo ref,
  spaced 0 lo M -> (forall m, In m M -> m < e) ->
  (e - 1 - ref <= B \/ exists y, In y M /\ y <= ref + B) ->
  (forall x, In x M -> e - 1 - x <= B \/ exists y, In y M /\ x < y <= x + B) ->
  gaps_le B ref M /\ e - 1 - (match rev M with [] => ref | t :: _ => t end) <= B.
Proof.
  induction M as [|m M IH]; intros lo ref Hs He Hr Hc.
  - cbn. split; [exact I|]. destruct Hr as [H|[y [[] _]]]. exact H.
  - cbn [spaced] in Hs. destruct Hs as [Hlo Hs].
    assert (Hmin : forall y, In y (m :: M) -> m <= y).
    { intros y [<-|Hy]; [lia|]. pose proof (spaced_ge 0 _ _ ltac:(lia) Hs _ Hy). lia. }
    assert (Hm : m - ref <= B).
    { destruct Hr as [H|[y [Hy H]]]; [specialize (He m ltac:(now left)); lia|specialize (Hmin y Hy); lia]. }
    destruct (IH (m + 0) m Hs) as [G1 G2].
    + intros x Hx. apply He. now right.
    + destruct (Hc m ltac:(now left)) as [H|[y [[<-|Hy] H]]]; [now left|lia|right; exists y; split; [exact Hy|lia]].
    + intros x Hx. destruct (Hc x ltac:(now right)) as [H|[y [[<-|Hy] H]]]; [now left| |right; eauto].
      specialize (Hmin x ltac:(now right)). lia.
    + split; [cbn [gaps_le]; split; assumption|].
      cbn [rev]. destruct (rev M) as [|t r]; cbn [app]; exact G2.
Qed.

Lemma spaced_map d lo F l : spaced d lo l -> spaced d (F + lo) (map (fun i => F + i) l).
Proof.
  revert lo. induction l as [|x l IH]; intros lo; cbn [spaced map]; [trivial|].
  intros [H1 H2]. split; [lia|]. replace (F + x + d) with (F + (x + d)) by lia. now apply IH.
Qed.

(* ---------- the auto gap bound across blocks ---------- *)

Section HistAuto.
Variables (F0 p : Z) (sgn : bool).
Hypothesis HF0 : 0 <= F0.

Definition afree (ts : tstate) : bool := ts_auto ts && (ts_autoveto ts <=? 0).
Definition adly (s : sstate) : Z := Z.max (ts_autodelay (s_ts s)) (s_nsamp s).

(* the pending auto trigger is never already decidable *)
Record AutoInv (d : dsp) (s : sstate) : Prop := {
  a_empty : s_epoch s = [] ->
            d_last d < s_C s /\
            (afree (s_ts s) = true -> s_acc s <= Z.max (s_C s) (d_last d + adly s));
  a_nonempty : s_epoch s <> [] -> afree (s_ts s) = true ->
               s_end F0 s - (s_nsamp s - s_npre s) <= d_last d + adly s /\
               s_end F0 s - zlen (st_data (d_stream d)) + s_npre s <= d_last d + adly s
}.

Lemma auto_epoch_start d' s npre' nsamp' ts' :
  d_last d' < Z.max (s_acc s) (s_H s + npre') -> AutoInv d' (new_epoch F0 s npre' nsamp' ts').
Proof.
  intros HL. split.
  - intros _. unfold new_epoch. cbn [s_C s_acc]. split; [exact HL|]. intros _. lia.
  - intros H. exfalso. apply H. reflexivity.
Qed.

Lemma block_step_auto d s sg :
  Inv2 F0 p sgn d s -> AutoInv d s -> seg_period sg = p -> seg_signed sg = sgn -> seg_first sg = F0 + zlen (s_G s) ->
  exists d' recs, process_block d sg = Ok (d', recs) /\
    auto_gap (block_info F0 s sg recs) /\
    AutoInv d' (after_block_ss F0 s sg (map r_frame recs)).
Proof.
  intros [HI Hnp Hns Hts HS HS0 Hsub Hlast HlastA HlastE Hkeep Hedge Hlevel Hle Hlst] [AE AN] Hper Hsg Hfirst.
  destruct (process_block_spec F0 p d (s_G s) sg HI Hfirst Hper) as [E [L [A [idx [recs [Hpb [Hsc [HF [Hst [_ [_ HI']]]]]]]]]]].
  pose proof HI as [_ Hp3 Hs1 Hmax _ _ _].
  exists (after_block (appended d sg) idx), recs. split; [exact Hpb|].
  set (d1 := appended d sg) in *. set (st1 := d_stream d1) in *.
  set (b := block_info F0 s sg recs).
  set (s' := after_block_ss F0 s sg (map r_frame recs)).
  unfold s_A in HlastA, Hkeep.
  unfold adly in AE, AN.
  set (npre := s_npre s) in *. set (nsamp := s_nsamp s) in *. set (ts := s_ts s) in *.
  set (F1 := st_first st1). set (nd := zlen (st_data st1)).
  set (lold := zlen (st_data (d_stream d))) in *.
  pose proof (zlen_nonneg (st_data (d_stream d))) as Hlold. fold lold in Hlold.
  pose proof (zlen_nonneg (seg_data sg)) as Hnn.
  assert (HF1 : F1 = s_end F0 s - lold) by (unfold F1, st1, d1, s_end; cbn; unfold lold; lia).
  assert (Hnd : nd = lold + zlen (seg_data sg)) by (unfold nd, st1, d1; cbn; now rewrite zlen_app).
  assert (Hend' : s_end F0 s' = s_end F0 s + zlen (seg_data sg)) by (unfold s_end, s', after_block_ss; cbn [s_G]; rewrite zlen_app; lia).
  assert (HendF : s_end F0 s' = F1 + nd) by lia.
  assert (Hd1 : d_npre d1 = npre /\ d_nsamp d1 = nsamp /\ d_ts d1 = ts /\ d_last d1 = d_last d).
  { unfold d1. cbn. auto. }
  destruct Hd1 as [Hd1a [Hd1b [Hd1c Hd1d]]].
  assert (Hp3' : 3 <= npre) by lia. assert (Hs1' : npre + 1 <= nsamp) by lia.
  set (e := nd + npre - nsamp).
  assert (Hdec : dec_end b = F1 + e).
  { change (dec_end b) with (s_end F0 s' - (nsamp - npre)). rewrite HendF. unfold e. lia. }
  assert (HfirstC : first_cand b = s_C s) by reflexivity.
  assert (Htr : map r_frame recs = map (fun i => F1 + i) idx).
  { apply (cut_frames st1 (d_npre d) (d_nsamp d)). exact HF. }
  assert (Htrigs : trigs b = map (fun i => F1 + i) idx) by (unfold trigs, bi_trigs; exact Htr).
  pose proof (sc_in _ _ _ _ _ Hsc) as SI. pose proof (sc_range _ _ _ _ _ Hsc) as SR.
  pose proof (sc_sorted _ _ _ _ _ Hsc) as SS. pose proof (sc_auto _ _ _ _ _ Hsc) as SA.
  rewrite Hd1c in SA. rewrite Hd1a, Hd1b in SR. rewrite Hd1a in SS. fold st1 in SR. fold nd in SR.
  set (dly := Z.max (ts_autodelay ts) nsamp) in *.
  assert (Hdlyeq : auto_dly_of d1 = dly).
  { unfold auto_dly_of, dly. rewrite Hd1b, Hd1c. destruct (_ <? _) eqn:E0; lia. }
  assert (Hdn : nsamp <= dly) by (unfold dly; lia).
  set (c0 := first_potential_auto d1) in *.
  assert (Hc0 : F1 + c0 = Z.max (F1 + npre) (d_last d + dly)).
  { unfold c0, first_potential_auto. fold st1. fold F1. rewrite Hd1d, Hd1a, Hd1b, Hd1c. unfold dly.
    destruct (ts_autodelay ts >? nsamp) eqn:E1; destruct (_ <? npre) eqn:E3; lia. }
  pose proof (first_potential_ge d1) as Hfpge. rewrite Hd1a in Hfpge.
  assert (Hfpabs : d_last d + nsamp <= F1 + first_potential d1).
  { unfold first_potential. fold st1. fold F1. rewrite Hd1a, Hd1b, Hd1d. destruct (_ <? _) eqn:E0; lia. }
  set (Lnew := match last_opt idx with Some i => F1 + i | None => d_last d end).
  assert (Hd'last : d_last (after_block d1 idx) = Lnew).
  { unfold after_block, Lnew. cbn [d_last set_stream set_last]. fold st1. fold F1. now rewrite Hd1d. }
  assert (HLnew : (idx = [] /\ Lnew = d_last d) \/
                  (exists i, In i idx /\ Lnew = F1 + i /\ forall j, In j idx -> j <= i)).
  { unfold Lnew. destruct (last_opt idx) as [i|] eqn:El.
    - right. destruct (last_opt_spaced _ _ _ SS El) as [H1 H2]. exists i. auto.
    - left. split; [now apply last_opt_none|reflexivity]. }
  assert (Hd'len : zlen (st_data (d_stream (after_block d1 idx))) = Z.min nd (2 * nsamp + 10)).
  { unfold after_block. cbn [d_stream set_stream set_last]. rewrite Hd1b. fold st1. unfold trim. fold nd.
    destruct (2 * nsamp + 10 >=? nd) eqn:E0; [fold nd; lia|].
    cbn [st_data]. rewrite zskipn_length; fold nd; lia. }
  assert (Hkeep' : F1 + npre <= s_acc s) by (rewrite HF1; exact Hkeep).
  assert (HA' : s_acc s' = Z.max (s_acc s) (F1 + e)).
  { unfold s', after_block_ss. cbn [s_acc]. fold npre nsamp.
    change (F0 + zlen (s_G s ++ seg_data sg)) with (s_end F0 s'). rewrite HendF. unfold e. f_equal. lia. }
  (* the pending candidate in frames, by cases on whether the epoch already has triggers *)
  assert (Hc0_ne : s_epoch s <> [] -> afree ts = true -> F1 + c0 = d_last d + dly).
  { intros H1 H2. destruct (AN H1 H2) as [_ H3]. rewrite <- HF1 in H3. lia. }
  assert (Hc0_e : s_epoch s = [] -> afree ts = true -> F1 + c0 < s_C s + dly /\ d_last d < s_C s).
  { intros H1 H2. destruct (AE H1) as [H3 H4]. specialize (H4 H2). lia. }
  (* facts from the scan *)
  assert (Hscan : afree ts = true ->
            (c0 < e -> exists y, In y idx /\ c0 - dly < y < c0 + nsamp) /\
            (forall x, In x idx -> e <= x + dly \/ exists y, In y idx /\ x < y < x + dly + nsamp) /\
            (e <= c0 \/ exists x, In x idx /\ e <= x + dly) /\
            (forall x, In x A -> c0 <= x)).
  { intros Haf. unfold afree in Haf. assert (Hta : ts_auto ts = true) by lia. assert (Hv : ts_autoveto ts <= 0) by lia.
    rewrite Hta in SA. destruct SA as [fuel [EL [Hloop [Hsp HELin]]]].
    rewrite Hd1a, Hd1b, Hdlyeq in Hloop. rewrite Hdlyeq in Hsp. fold st1 in Hloop.
    assert (Hn1 : 1 <= nsamp) by lia.
    destruct (auto_loop_chain _ _ _ _ _ Hn1 Hdn Hv _ _ _ _ Hsp Hloop) as [R1 [R2 R3]].
    destruct (auto_loop_slots _ _ _ _ _ Hn1 Hdn _ _ _ _ Hsp Hloop) as [S1 _].
    fold nd in R1, R2, R3. replace (nd - nsamp + npre) with e in R1, R2, R3 by (unfold e; lia).
    assert (HM : forall y, In y EL \/ In y A -> In y idx).
    { intros y [Hy|Hy]; apply SI; [apply HELin in Hy; tauto|tauto]. }
    assert (HM' : forall y, In y idx -> In y EL \/ In y A).
    { intros y Hy. apply SI in Hy. destruct Hy as [Hy|[Hy|Hy]]; [left; apply HELin; tauto|left; apply HELin; tauto|now right]. }
    split; [|split; [|split]].
    - intros Hce. destruct (R1 Hce) as [y [Hy Hr]]. exists y. split; [now apply HM|exact Hr].
    - intros x Hx. destruct (R2 x (HM' x Hx)) as [H|[y [Hy Hr]]]; [now left|right; exists y; split; [now apply HM|exact Hr]].
    - destruct R3 as [H|[x [Hx Hr]]]; [now left|right; exists x; split; [now apply HM|exact Hr]].
    - intros x Hx. apply (spaced_ge dly _ _ ltac:(lia) S1 _ Hx). }
  split.
  - (* the judgement on this block *)
    unfold auto_gap, auto_free. change (bi_ts b) with ts. fold (afree ts). intros Haf.
    destruct (Hscan Haf) as [R1 [R2 [R3 R4]]].
    unfold auto_bound, auto_dly. change (bi_ts b) with ts. change (bi_nsamp b) with nsamp. fold dly.
    assert (Hcov : gaps_le (dly + nsamp) (chain_start b) (trigs b) /\
                   dec_end b - 1 - (match rev (trigs b) with [] => chain_start b | t :: _ => t end) <= dly + nsamp).
    { apply (gaps_from_cover (dly + nsamp) (dec_end b) (trigs b) (F1 + npre) (chain_start b)).
      - rewrite Htrigs. apply spaced_map. exact SS.
      - intros m Hm. rewrite Htrigs in Hm. apply in_map_iff in Hm. destruct Hm as [i [<- Hi]].
        destruct (SR i Hi). rewrite Hdec. unfold e. lia.
      - (* the first trigger is within the bound of the chain start *)
        rewrite Hdec. unfold chain_start. change (bi_prev b) with (s_epoch s). rewrite HfirstC.
        destruct (rev (s_epoch s)) as [|q rest] eqn:Er.
        + assert (Hemp : s_epoch s = []).
          { destruct (s_epoch s) as [|x l]; [reflexivity|]. cbn [rev] in Er. destruct (rev l); discriminate. }
          destruct (Hc0_e Hemp Haf) as [H1 H2].
          destruct (Z.lt_ge_cases c0 e) as [Hce|Hce]; [|left; lia].
          destruct (R1 Hce) as [y [Hy Hr]]. right. exists (F1 + y). split; [|lia].
          rewrite Htrigs. apply in_map_iff. eauto.
        + assert (Hne : s_epoch s <> []) by (intros H; rewrite H in Er; discriminate).
          pose proof (Hlst q rest eq_refl) as Hq. subst q.
          pose proof (Hc0_ne Hne Haf) as H1.
          destruct (Z.lt_ge_cases c0 e) as [Hce|Hce]; [|left; lia].
          destruct (R1 Hce) as [y [Hy Hr]]. right. exists (F1 + y). split; [|lia].
          rewrite Htrigs. apply in_map_iff. eauto.
      - intros x Hx. rewrite Htrigs in Hx. apply in_map_iff in Hx. destruct Hx as [i [<- Hi]]. rewrite Hdec.
        destruct (R2 i Hi) as [H|[y [Hy Hr]]]; [left; lia|].
        right. exists (F1 + y). split; [|lia]. rewrite Htrigs. apply in_map_iff. eauto. }
    destruct Hcov as [G1 G2]. split; [exact G1|]. intros _. unfold chain_last. exact G2.
  - (* the invariant after the block *)
    split.
    + change (s_epoch s') with (s_epoch s ++ map r_frame recs). change (s_C s') with (s_C s). change (s_ts s') with ts. intros Hemp'.
      apply app_eq_nil in Hemp'. destruct Hemp' as [Hemp Hrec].
      assert (Hidx : idx = []).
      { rewrite Htr in Hrec. destruct idx; [reflexivity|discriminate]. }
      destruct (AE Hemp) as [H1 H2]. rewrite Hd'last.
      destruct HLnew as [[_ ->]|[i [Hi _]]]; [|rewrite Hidx in Hi; destruct Hi].
      split; [exact H1|]. intros Haf. unfold adly. change (s_ts s') with ts. change (s_nsamp s') with nsamp. fold dly. rewrite HA'.
      destruct (Hscan Haf) as [_ [_ [R3 _]]]. destruct (Hc0_e Hemp Haf) as [H3 H4]. specialize (H2 Haf).
      destruct R3 as [H|[x [Hx _]]]; [|rewrite Hidx in Hx; destruct Hx]. lia.
    + change (s_epoch s') with (s_epoch s ++ map r_frame recs). change (s_ts s') with ts. change (s_nsamp s') with nsamp. change (s_npre s') with npre. intros Hne' Haf. unfold adly. change (s_ts s') with ts. change (s_nsamp s') with nsamp. fold dly.
      rewrite Hd'last, Hd'len, HendF.
      destruct (Hscan Haf) as [_ [_ [R3 R4]]].
      destruct HLnew as [[Hidx ->]|[i [Hi [-> Hmaxi]]]].
      * (* no trigger in this block: the epoch had triggers before *)
        assert (Hne : s_epoch s <> []).
        { intros H. apply Hne'. rewrite H, Htr, Hidx. reflexivity. }
        destruct (AN Hne Haf) as [H1 H2]. pose proof (Hc0_ne Hne Haf) as H3.
        destruct R3 as [H|[x [Hx _]]]; [|rewrite Hidx in Hx; destruct Hx]. unfold e in H. rewrite <- HF1 in H2. lia.
      * destruct (SR i Hi) as [Hi1 Hi2].
        assert (He : F1 + e <= F1 + i + dly).
        { destruct R3 as [H|[x [Hx Hr]]]; [|specialize (Hmaxi x Hx); lia].
          (* e <= c0: then i is an edge/level trigger before the pending candidate *)
          assert (HiEL : In i E \/ In i L).
          { apply SI in Hi. destruct Hi as [Hi|[Hi|Hi]]; [now left|now right|]. specialize (R4 i Hi). unfold e in H. lia. }
          assert (Hfpi : first_potential d1 <= i).
          { pose proof (sc_edge _ _ _ _ _ Hsc) as SE. pose proof (sc_level _ _ _ _ _ Hsc) as SL.
            destruct HiEL as [Hx|Hx].
            - destruct (ts_edge (d_ts d1)); [|subst E; destruct Hx]. destruct (el_range _ _ _ _ _ _ _ SE i Hx). lia.
            - destruct (ts_level (d_ts d1)); [|subst L; destruct Hx]. destruct (ll_range _ _ _ _ _ _ _ _ _ SL i Hx). lia. }
          unfold e in H. lia. }
        unfold e in He. lia.
Qed.

Lemma model_C02 npre nsamp ts ops :
  lengths_ok npre nsamp = true -> nsamp <= max_nsamp -> contiguous F0 ops -> Forall (op_ok2 p sgn) ops ->
  C02_holds npre nsamp ts F0 (combine ops (run (fresh_start npre nsamp ts) ops)).
Proof.
  intros Hl Hm Hc HQ.
  destruct (history_ind F0 (fun d s => Inv2 F0 p sgn d s /\ AutoInv d s) block_ok (op_ok2 p sgn)) with (ops := ops)
    (d := fresh_start npre nsamp ts) (s := init_sstate npre nsamp ts F0) as [bs [Ha [Hb _]]].
  - intros d s sg [HI HA] [HQ1 HQ2] Hf. cbn [op_ok] in HQ1.
    destruct (block_step F0 p sgn HF0 d s sg HI HQ1 HQ2 Hf) as [d' [recs [Hpb [[B1 [B2 [B3 B4]]] HI']]]].
    destruct (block_step_auto d s sg HI HA HQ1 HQ2 Hf) as [d'' [recs' [Hpb' [B5 HA']]]].
    rewrite Hpb in Hpb'. inversion Hpb'; subst d'' recs'.
    exists d', recs. split; [exact Hpb|]. split; [exact (conj B1 (conj B2 (conj B3 (conj B4 B5))))|]. split; assumption.
  - intros d s ts' [HI HA] [HQ1 _]. cbn [op_ok] in HQ1.
    split; [apply cfg_trig_step2; assumption|].
    pose proof HI as [H1 H2 _ _ _ [HH0 _] _ _ _ _ _ _ _ _ _]. pose proof H1 as [_ Hp3 Hs1 Hmx _ _ _].
    destruct (cfg_trig_cases d ts' Hp3 Hs1 Hmx HQ1) as [[He ->]|[He ->]]; cbn [fst snd]; [exact HA|].
    apply auto_epoch_start. cbn. unfold far_past. lia.
  - intros d s nsamp' npre' [HI HA] [HQ1 _]. cbn [op_ok] in HQ1.
    split; [apply cfg_len_inv2; assumption|].
    pose proof HI as [_ _ _ _ _ _ _ _ H9 _ _ _ _ _ _]. unfold s_A in H9.
    unfold cfg_len. destruct (lengths_ok npre' nsamp'); cbn [fst]; [|exact HA].
    unfold accepted_len. destruct ((nsamp' =? s_nsamp s) && (npre' =? s_npre s)).
    + destruct HA as [A1 A2]. split; [exact A1|exact A2].
    + apply auto_epoch_start; cbn [d_last]; lia.
  - split; [apply fresh_inv2; assumption|].
    rewrite init_as_epoch. apply lengths_ok_iff in Hl. apply auto_epoch_start. cbn. unfold far_past. lia.
  - cbn. now rewrite Z.add_0_r.
  - exact HQ.
  - exists bs. split; assumption.
Qed.

End HistAuto.

(* ---------- the two defects of the unchanged tree, as refutations of the pre-fix model ---------- *)

Definition wit_ts : tstate := mkts false 0 0 false false 0 true true false 100 false.
Definition wit_flat (n v : Z) : list Z := map (fun _ => v) (zrange 0 n).
Definition wit_blk (data : list Z) (first : Z) : op :=
  Block {| seg_data := data; seg_first := first; seg_time := 1000 * first; seg_period := 1000; seg_signed := false |}.

(* (a) fresh start, restored edge trigger, npre 3, nsamp 12: the pre-fix processor keeps 10 samples, so a step at
   frame 11 (first undecidable position of a 20-sample block) is never examined at frames 11 and 12 *)
Definition wit_a_ops : list op :=
  [ wit_blk (wit_flat 11 1000 ++ wit_flat 9 3000) 0; wit_blk (wit_flat 20 3000) 20; wit_blk (wit_flat 20 3000) 40 ].

Lemma refuted_a :
  C02_check 3 12 wit_ts 0 (combine wit_a_ops (run (fresh_start_old 3 12 wit_ts) wit_a_ops)) = false /\
  C02_check 3 12 wit_ts 0 (combine wit_a_ops (run (fresh_start 3 12 wit_ts) wit_a_ops)) = true.
Proof. split; vm_compute; reflexivity. Qed.

(* (b) ConfigureTrigger on a stream that starts at frame 0: LastTrigger = 0 hides the step at frame 6 *)
Definition wit_b_ops : list op :=
  [ CfgTrig wit_ts; wit_blk (wit_flat 6 1000 ++ wit_flat 24 3000) 0; wit_blk (wit_flat 30 3000) 30 ].
Definition wit_none : tstate := mkts false 0 0 false false 0 false true false 100 false.

Lemma refuted_b :
  C02_check 3 12 wit_none 0 (combine wit_b_ops (run_old (fresh_start 3 12 wit_none) wit_b_ops)) = false /\
  C02_check 3 12 wit_none 0 (combine wit_b_ops (run (fresh_start 3 12 wit_none) wit_b_ops)) = true.
Proof. split; vm_compute; reflexivity. Qed.

(* generic: a predicate J on the checker's state that every block re-establishes (given the block's judgement P)
   and every control operation establishes from scratch *)
Section AnnotateInd.
Variable F0 : Z.
Variable J : sstate -> Prop.
Variables P Q : binfo -> Prop.
Hypothesis J_block : forall s sg recs,
  let b := block_info F0 s sg recs in
  seg_first sg = F0 + zlen (s_G s) -> J s -> P b ->
  Q b /\ J (after_block_ss F0 s sg (map r_frame recs)).
Hypothesis J_epoch : forall s npre nsamp ts, J (new_epoch F0 s npre nsamp ts).

Lemma annotate_ind : forall h s bs,
  annotate F0 s h = Some bs -> J s -> (forall b, In b bs -> P b) -> forall b, In b bs -> Q b.
Proof.
  induction h as [|[o ob] h IH]; intros s bs Ha HJ HP b Hb.
  - inversion Ha; subst. destruct Hb.
  - destruct o as [sg|ts|nsamp npre]; destruct ob as [recs n f|err|]; cbn [annotate] in Ha; try discriminate.
    + destruct (seg_first sg =? F0 + zlen (s_G s)) eqn:Ef; [|discriminate]. apply Z.eqb_eq in Ef.
      destruct (annotate F0 _ h) as [bs'|] eqn:Ea; [|discriminate]. injection Ha as Ha. subst bs.
      destruct (J_block s sg recs Ef HJ (HP _ (or_introl eq_refl))) as [HQ HJ'].
      destruct Hb as [<-|Hb]; [exact HQ|].
      eapply (IH _ _ Ea HJ'); [|exact Hb]. intros b' Hb'. apply HP. now right.
    + destruct err; (eapply (IH _ _ Ha); [first [exact HJ|apply J_epoch]|exact HP|exact Hb]).
    + destruct err; [eapply (IH _ _ Ha); [exact HJ|exact HP|exact Hb]|].
      eapply (IH _ _ Ha); [|exact HP|exact Hb]. unfold accepted_len. destruct (_ && _); [exact HJ|apply J_epoch].
Qed.
End AnnotateInd.

Lemma annotate_lo F0 h s bs :
  annotate F0 s h = Some bs -> s_C s <= s_acc s -> forall b, In b bs -> bi_C b <= bi_lo b.
Proof.
  intros Ha HJ. apply (annotate_ind F0 (fun s => s_C s <= s_acc s) (fun _ => True) (fun b => bi_C b <= bi_lo b)) with (h := h) (s := s); auto.
  - intros s0 sg recs b _ H _. split; [exact H|]. unfold after_block_ss. cbn [s_C s_acc]. lia.
  - intros s0 npre nsamp ts. unfold new_epoch. cbn [s_C s_acc]. lia.
Qed.

(* ---------- the boolean checker versus the Prop judgements ---------- *)

Lemma auto_slotb_iff b t : auto_slotb b t = true <-> auto_slot b t.
Proof.
  unfold auto_slotb, auto_slot. rewrite forallb_forall. split; intros H u Hu.
  - intros Hlt. specialize (H u Hu). destruct (u <? t) eqn:E; lia.
  - destruct (u <? t) eqn:E; [|reflexivity]. specialize (H u Hu ltac:(lia)). lia.
Qed.

Lemma soundb_iff b : soundb b = true <-> sound b.
Proof.
  unfold soundb, sound. rewrite forallb_forall. split; intros H t Ht; specialize (H t Ht).
  - rewrite !orb_true_iff, !andb_true_iff, auto_slotb_iff in H. tauto.
  - rewrite !orb_true_iff, !andb_true_iff, auto_slotb_iff. tauto.
Qed.

Lemma edge_accountedb_iff b k : edge_accountedb b k = true <-> edge_accounted b k.
Proof.
  unfold edge_accountedb, edge_accounted. rewrite existsb_exists.
  split; intros [t [Ht H]]; exists t; (split; [exact Ht|]); lia.
Qed.

Lemma level_accountedb_iff b k : level_accountedb b k = true <-> level_accounted b k.
Proof.
  unfold level_accountedb, level_accounted. rewrite existsb_exists.
  split; intros [t [Ht H]]; exists t; (split; [exact Ht|]); lia.
Qed.

(* the incremental statements the checker evaluates: candidates that became decidable with this block *)
Definition edge_complete_new (b : binfo) : Prop :=
  ts_edge (bi_ts b) = true -> forall k, new_lo b <= k < dec_end b -> edge_crit b k = true -> edge_accounted b k.
Definition level_complete_new (b : binfo) : Prop :=
  ts_level (bi_ts b) = true -> forall k, new_lo b <= k < dec_end b -> level_crit b k = true -> level_accounted b k.

Lemma edge_completeb_iff b : edge_completeb b = true <-> edge_complete_new b.
Proof.
  unfold edge_completeb, edge_complete_new. destruct (ts_edge (bi_ts b)); [|split; [discriminate|reflexivity]].
  rewrite forallb_forall. split.
  - intros H _ k Hk Hc. specialize (H k). rewrite in_zrange in H. specialize (H ltac:(lia)).
    rewrite Hc in H. now apply edge_accountedb_iff.
  - intros H k Hk. rewrite in_zrange in Hk. destruct (edge_crit b k) eqn:Hc; [|reflexivity].
    apply edge_accountedb_iff. apply H; [reflexivity|lia|exact Hc].
Qed.

Lemma level_completeb_iff b : level_completeb b = true <-> level_complete_new b.
Proof.
  unfold level_completeb, level_complete_new. destruct (ts_level (bi_ts b)); [|split; [discriminate|reflexivity]].
  rewrite forallb_forall. split.
  - intros H _ k Hk Hc. specialize (H k). rewrite in_zrange in H. specialize (H ltac:(lia)).
    rewrite Hc in H. now apply level_accountedb_iff.
  - intros H k Hk. rewrite in_zrange in Hk. destruct (level_crit b k) eqn:Hc; [|reflexivity].
    apply level_accountedb_iff. apply H; [reflexivity|lia|exact Hc].
Qed.

Lemma edge_complete_new_of b : bi_C b <= bi_lo b -> edge_complete b -> edge_complete_new b.
Proof. intros Hlo H Ht k Hk Hc. apply H; [exact Ht| |exact Hc]. unfold new_lo in Hk. unfold first_cand. lia. Qed.
Lemma level_complete_new_of b : bi_C b <= bi_lo b -> level_complete b -> level_complete_new b.
Proof. intros Hlo H Ht k Hk Hc. apply H; [exact Ht| |exact Hc]. unfold new_lo in Hk. unfold first_cand. lia. Qed.

Lemma gaps_geb_iff d x l : gaps_geb d x l = true <-> gaps_ge d x l.
Proof. revert x. induction l as [|y l IH]; intros x; cbn [gaps_geb gaps_ge]; [tauto|]. rewrite andb_true_iff, IH, Z.leb_le. tauto. Qed.
Lemma gaps_leb_iff d x l : gaps_leb d x l = true <-> gaps_le d x l.
Proof. revert x. induction l as [|y l IH]; intros x; cbn [gaps_leb gaps_le]; [tauto|]. rewrite andb_true_iff, IH, Z.leb_le. tauto. Qed.

Lemma no_overlapb_iff b : no_overlapb b = true <-> no_overlap b.
Proof.
  unfold no_overlapb, no_overlap. destruct (only_edge b); [|split; [discriminate|reflexivity]].
  destruct (rev (bi_prev b)) as [|q r].
  - destruct (trigs b) as [|t l]; [tauto|]. rewrite gaps_geb_iff. tauto.
  - rewrite gaps_geb_iff. tauto.
Qed.

Lemma auto_gapb_iff b : auto_gapb b = true <-> auto_gap b.
Proof.
  unfold auto_gapb, auto_gap. destruct (auto_free b); [|split; [discriminate|reflexivity]].
  rewrite andb_true_iff, gaps_leb_iff. destruct (first_cand b <? dec_end b) eqn:E.
  - split; [intros [H1 H2] _; split; [exact H1|intros _; lia]|]. intros H. destruct (H eq_refl) as [H1 H2].
    split; [exact H1|]. specialize (H2 ltac:(lia)). lia.
  - split; [intros [H1 _] _; split; [exact H1|lia]|]. intros H. destruct (H eq_refl) as [H1 _]. tauto.
Qed.

(* what the checker establishes for one block *)
Definition block_ok_new (b : binfo) : Prop :=
  sound b /\ edge_complete_new b /\ level_complete_new b /\ no_overlap b /\ auto_gap b.

Lemma block_okb_iff b : block_okb b = true <-> block_ok_new b.
Proof.
  unfold block_okb, block_ok_new.
  rewrite !andb_true_iff, soundb_iff, edge_completeb_iff, level_completeb_iff, no_overlapb_iff, auto_gapb_iff. tauto.
Qed.

Lemma block_ok_new_of b : bi_C b <= bi_lo b -> block_ok b -> block_ok_new b.
Proof.
  intros Hlo [H1 [H2 [H3 [H4 H5]]]].
  exact (conj H1 (conj (edge_complete_new_of b Hlo H2) (conj (level_complete_new_of b Hlo H3) (conj H4 H5)))).
Qed.

Lemma C02_check_of_holds npre nsamp ts F0 h : C02_holds npre nsamp ts F0 h -> C02_check npre nsamp ts F0 h = true.
Proof.
  intros [bs [Ha Hb]]. unfold C02_check. rewrite Ha. apply forallb_forall. intros b Hb'.
  apply block_okb_iff, block_ok_new_of; [|apply Hb, Hb'].
  apply (annotate_lo F0 h _ bs Ha); [cbn; lia|exact Hb'].
Qed.

Lemma C02_check_sound npre nsamp ts F0 h :
  C02_check npre nsamp ts F0 h = true ->
  exists bs, annotate F0 (init_sstate npre nsamp ts F0) h = Some bs /\ forall b, In b bs -> block_ok_new b.
Proof.
  unfold C02_check. destruct (annotate F0 _ h) as [bs|]; [|discriminate].
  rewrite forallb_forall. intros H. exists bs. split; [reflexivity|]. intros b Hb. apply block_okb_iff, H, Hb.
Qed.

(* ---------- the statements of Properties.v ---------- *)

Section Statements.
Variables (npre nsamp : Z) (ts : tstate) (F0 period : Z) (sgn : bool) (ops : list op).
Hypothesis HF0 : 0 <= F0.
Hypothesis Hlen : lengths_ok npre nsamp = true.
Hypothesis Hmax : nsamp <= max_nsamp.
Hypothesis Hcont : contiguous F0 ops.
Hypothesis Hops : Forall (op_ok2 period sgn) ops.

Let h := combine ops (run (fresh_start npre nsamp ts) ops).

Lemma model_blocks :
  exists bs, annotate F0 (init_sstate npre nsamp ts F0) h = Some bs /\ forall b, In b bs -> block_ok b.
Proof. exact (model_C02 F0 period sgn HF0 npre nsamp ts ops Hlen Hmax Hcont Hops). Qed.

Lemma st_edge_sound :
  exists bs, annotate F0 (init_sstate npre nsamp ts F0) h = Some bs /\
    forall b t, In b bs -> In t (trigs b) ->
      (ts_edge (bi_ts b) = true /\ edge_crit b t = true) \/
      (ts_level (bi_ts b) = true /\ level_crit b t = true) \/
      (ts_auto (bi_ts b) = true /\ forall u, In u (epoch_trigs b) -> u < t -> auto_dly b <= t - u).
Proof.
  destruct model_blocks as [bs [Ha Hb]]. exists bs. split; [exact Ha|].
  intros b t Hb' Ht. destruct (Hb b Hb') as [H _]. exact (H t Ht).
Qed.

Lemma st_edge_complete :
  exists bs, annotate F0 (init_sstate npre nsamp ts F0) h = Some bs /\
    forall b k, In b bs -> ts_edge (bi_ts b) = true ->
      first_cand b <= k < dec_end b -> edge_crit b k = true ->
      exists t, In t (all_trigs b) /\ (t = k \/ t < k <= t + bi_nsamp b).
Proof.
  destruct model_blocks as [bs [Ha Hb]]. exists bs. split; [exact Ha|].
  intros b k Hb' Ht Hk Hc. destruct (Hb b Hb') as [_ [H _]]. exact (H Ht k Hk Hc).
Qed.

Lemma st_level_complete :
  exists bs, annotate F0 (init_sstate npre nsamp ts F0) h = Some bs /\
    forall b k, In b bs -> ts_level (bi_ts b) = true ->
      first_cand b <= k < dec_end b -> level_crit b k = true ->
      exists t, In t (all_trigs b) /\ Z.abs (k - t) < bi_nsamp b.
Proof.
  destruct model_blocks as [bs [Ha Hb]]. exists bs. split; [exact Ha|].
  intros b k Hb' Ht Hk Hc. destruct (Hb b Hb') as [_ [_ [H _]]]. exact (H Ht k Hk Hc).
Qed.

Lemma st_edge_no_overlap :
  exists bs, annotate F0 (init_sstate npre nsamp ts F0) h = Some bs /\
    forall b, In b bs ->
      ts_edge (bi_ts b) = true -> ts_level (bi_ts b) = false -> ts_auto (bi_ts b) = false ->
      match rev (bi_prev b) with
      | [] => match trigs b with [] => True | t :: l => gaps_ge (bi_nsamp b) t l end
      | q :: _ => gaps_ge (bi_nsamp b) q (trigs b)
      end.
Proof.
  destruct model_blocks as [bs [Ha Hb]]. exists bs. split; [exact Ha|].
  intros b Hb' H1 H2 H3. destruct (Hb b Hb') as [_ [_ [_ [H _]]]]. apply H.
  unfold only_edge. now rewrite H1, H2, H3.
Qed.

Lemma st_auto_gap_bound :
  exists bs, annotate F0 (init_sstate npre nsamp ts F0) h = Some bs /\
    forall b, In b bs ->
      ts_auto (bi_ts b) = true -> ts_autoveto (bi_ts b) <= 0 ->
      gaps_le (auto_dly b + bi_nsamp b) (chain_start b) (trigs b) /\
      (first_cand b < dec_end b -> dec_end b - 1 - chain_last b <= auto_dly b + bi_nsamp b).
Proof.
  destruct model_blocks as [bs [Ha Hb]]. exists bs. split; [exact Ha|].
  intros b Hb' H1 H2. destruct (Hb b Hb') as [_ [_ [_ [_ H]]]]. apply H.
  unfold auto_free. rewrite H1. lia.
Qed.

Lemma st_model_passes_checker : C02_check npre nsamp ts F0 h = true.
Proof. apply C02_check_of_holds. exact model_blocks. Qed.

End Statements.

(* a concrete non-trivial history meets the premises: signed channel, restored edge+level+auto settings, a pulse in
   the dead time of an auto trigger (so the trigger sits one sample later), a refused and an accepted length change, a trigger reconfiguration *)
Definition ex2_ts : tstate := mkts true 9 0 true true 65500 true true false 100 false.
Definition ex2_blk (data : list Z) (first : Z) : op :=
  Block {| seg_data := data; seg_first := first; seg_time := 5 * first; seg_period := 5; seg_signed := true |}.
Definition ex2_ops : list op :=
  [ ex2_blk [65400;65400;65400;65400;65400;65400;65400] 100;
    ex2_blk [65400;200;200;150;100;65500] 107;
    CfgLen 2 1; CfgLen 9 4;
    ex2_blk [65400;65400;65400;65400;65400;65400;65400;65400;65400;65400] 113;
    CfgTrig (mkts false 0 0 false false 0 true false true 50 false);
    ex2_blk [65400;65400;65400;65400;65400;65400] 123 ].

Example premises_example :
  0 <= 100 /\ lengths_ok 3 6 = true /\ 6 <= max_nsamp /\ contiguous 100 ex2_ops /\ Forall (op_ok2 5 true) ex2_ops /\
  map (fun o => match o with ORecs r _ _ => map r_frame r | _ => [] end) (run (fresh_start 3 6 ex2_ts) ex2_ops) =
    [[103]; [109]; []; []; []; []; [111]].
Proof.
  repeat split; try reflexivity; try (unfold max_nsamp; lia).
  repeat constructor; cbn; unfold max_nsamp; lia.
Qed.

(* ---------- from the per-block judgements to whole-epoch statements, for ANY observed history ---------- *)


(* successive elements at least / at most d apart *)
Definition chain_ge (d : Z) (l : list Z) : Prop := match l with [] => True | t :: l' => gaps_ge d t l' end.

Lemma gaps_ge_app d x l1 l2 :
  gaps_ge d x l1 -> gaps_ge d (match rev l1 with [] => x | q :: _ => q end) l2 -> gaps_ge d x (l1 ++ l2).
Proof.
  revert x. induction l1 as [|y l1 IH]; intros x H1 H2; cbn [app]; [exact H2|].
  cbn [gaps_ge] in *. destruct H1 as [Hy H1]. split; [exact Hy|]. apply IH; [exact H1|].
  cbn [rev] in H2. destruct (rev l1) as [|q r]; exact H2.
Qed.

Lemma gaps_le_app d x l1 l2 :
  gaps_le d x l1 -> gaps_le d (match rev l1 with [] => x | q :: _ => q end) l2 -> gaps_le d x (l1 ++ l2).
Proof.
  revert x. induction l1 as [|y l1 IH]; intros x H1 H2; cbn [app]; [exact H2|].
  cbn [gaps_le] in *. destruct H1 as [Hy H1]. split; [exact Hy|]. apply IH; [exact H1|].
  cbn [rev] in H2. destruct (rev l1) as [|q r]; exact H2.
Qed.

(* edge only: ALL successive triggers of the epoch so far are at least nsamp apart *)
Lemma no_overlap_epoch F0 h s bs :
  annotate F0 s h = Some bs -> s_epoch s = [] -> (forall b, In b bs -> no_overlap b) ->
  forall b, In b bs -> only_edge b = true -> chain_ge (bi_nsamp b) (epoch_trigs b).
Proof.
  intros Ha He HP.
  apply (annotate_ind F0 (fun s => ts_edge (s_ts s) && negb (ts_level (s_ts s)) && negb (ts_auto (s_ts s)) = true ->
                                   chain_ge (s_nsamp s) (s_epoch s)) no_overlap
                      (fun b => only_edge b = true -> chain_ge (bi_nsamp b) (epoch_trigs b))) with (h := h) (s := s); try assumption.
  - intros s0 sg recs b _ HJ Hno.
    assert (HQ : only_edge b = true -> chain_ge (bi_nsamp b) (epoch_trigs b)).
    { intros Hoe. specialize (Hno Hoe). specialize (HJ Hoe). unfold epoch_trigs. change (bi_prev b) with (s_epoch s0) in *.
      change (bi_nsamp b) with (s_nsamp s0) in *.
      destruct (s_epoch s0) as [|t l] eqn:El; cbn [rev app] in *.
      - destruct (trigs b); [exact I|exact Hno].
      - cbn [chain_ge] in *. apply gaps_ge_app; [exact HJ|].
        destruct (rev l ++ [t]) as [|q r] eqn:Er; [destruct (rev l); discriminate|].
        destruct (rev l) as [|q' r']; cbn [app] in Er; inversion Er; subst; exact Hno. }
    split; [exact HQ|]. exact HQ.
  - intros s0 npre nsamp ts _. exact I.
  - intros _. rewrite He. exact I.
Qed.

(* auto on, no veto: the whole chain first candidate -> triggers of the epoch so far has no gap above the bound *)
Lemma auto_gap_epoch F0 h s bs :
  annotate F0 s h = Some bs -> s_epoch s = [] -> (forall b, In b bs -> auto_gap b) ->
  forall b, In b bs -> auto_free b = true ->
    gaps_le (auto_bound b) (first_cand b) (epoch_trigs b) /\
    (first_cand b < dec_end b -> dec_end b - 1 - chain_last b <= auto_bound b).
Proof.
  intros Ha He HP.
  apply (annotate_ind F0 (fun s => ts_auto (s_ts s) && (ts_autoveto (s_ts s) <=? 0) = true ->
                                   gaps_le (Z.max (ts_autodelay (s_ts s)) (s_nsamp s) + s_nsamp s) (s_C s) (s_epoch s))
                      auto_gap
                      (fun b => auto_free b = true ->
                                gaps_le (auto_bound b) (first_cand b) (epoch_trigs b) /\
                                (first_cand b < dec_end b -> dec_end b - 1 - chain_last b <= auto_bound b))) with (h := h) (s := s); try assumption.
  - intros s0 sg recs b _ HJ Hag.
    assert (HQ : auto_free b = true -> gaps_le (auto_bound b) (first_cand b) (epoch_trigs b)).
    { intros Haf. destruct (Hag Haf) as [H1 _]. specialize (HJ Haf). unfold epoch_trigs.
      apply gaps_le_app; [exact HJ|]. unfold chain_start in H1. exact H1. }
    split.
    + intros Haf. split; [exact (HQ Haf)|]. destruct (Hag Haf) as [_ H2]. exact H2.
    + exact HQ.
  - intros s0 npre nsamp ts _. exact I.
  - intros _. rewrite He. exact I.
Qed.

(* completeness: from "the candidates that became decidable with each block are accounted for" (what the checker
   evaluates) to "every decidable candidate of the epoch so far is" — for any observed history of a channel with
   constant signedness in which the record lengths in force satisfy 0 <= npre <= nsamp *)
Section CompleteInd.
Variables (F0 : Z) (sgn : bool).

Definition lens_ok (b : binfo) : Prop := 0 <= bi_npre b <= bi_nsamp b /\ seg_signed (bi_seg b) = sgn.

Definition SInv (s : sstate) : Prop :=
  (s_acc s = s_C s \/ s_acc s <= s_end F0 s) /\
  (ts_edge (s_ts s) = true -> forall k, s_C s <= k < s_acc s ->
     edge_crit (cur F0 sgn s) k = true -> acc_edge (s_all s) (s_nsamp s) k) /\
  (ts_level (s_ts s) = true -> forall k, s_C s <= k < s_acc s ->
     level_crit (cur F0 sgn s) k = true -> acc_level (s_all s) (s_nsamp s) k).

Lemma complete_from_new h s bs :
  annotate F0 s h = Some bs -> SInv s ->
  (forall b, In b bs -> lens_ok b /\ edge_complete_new b /\ level_complete_new b) ->
  forall b, In b bs -> edge_complete b /\ level_complete b.
Proof.
  intros Ha HJ HP.
  apply (annotate_ind F0 SInv (fun b => lens_ok b /\ edge_complete_new b /\ level_complete_new b)
                      (fun b => edge_complete b /\ level_complete b)) with (h := h) (s := s); try assumption.
  - intros s0 sg recs b Hf [Hacc [HE0 HL0]] [[Hlen Hsg] [HEn HLn]].
    change (bi_npre b) with (s_npre s0) in Hlen. change (bi_nsamp b) with (s_nsamp s0) in Hlen.
    change (seg_signed (bi_seg b)) with (seg_signed sg) in Hsg.
    pose proof (zlen_nonneg (seg_data sg)) as Hnn.
    assert (Hnl : new_lo b = s_acc s0) by reflexivity.
    assert (Hfc : first_cand b = s_C s0) by reflexivity.
    assert (Hdec : dec_end b = s_end F0 s0 + zlen (seg_data sg) - (s_nsamp s0 - s_npre s0)).
    { unfold dec_end, bi_end, s_end, b, block_info. cbn [bi_F0 bi_G bi_nsamp bi_npre]. rewrite zlen_app. lia. }
    set (s' := after_block_ss F0 s0 sg (map r_frame recs)).
    assert (Hend' : s_end F0 s' = s_end F0 s0 + zlen (seg_data sg)).
    { unfold s_end, s', after_block_ss. cbn [s_G]. rewrite zlen_app. lia. }
    assert (HA' : s_acc s' = Z.max (s_acc s0) (dec_end b)).
    { unfold s', after_block_ss. cbn [s_acc]. rewrite Hdec. unfold s_end. rewrite zlen_app. f_equal. lia. }
    assert (HECg : ts_edge (s_ts s0) = true -> forall k, s_C s0 <= k < Z.max (s_acc s0) (dec_end b) ->
                   edge_crit b k = true -> edge_accounted b k).
    { intros Hte k [Hk1 Hk2] Hck. destruct (Z.lt_ge_cases k (s_acc s0)) as [HkA|HkA].
      - assert (Hke : k < s_end F0 s0) by lia.
        assert (Hck' : edge_crit (cur F0 sgn s0) k = true).
        { rewrite <- Hck. symmetry. apply (edge_crit_ext (cur F0 sgn s0) b (seg_data sg)); try reflexivity.
          - cbn. exact Hsg.
          - cbn. unfold s_end in Hke. lia. }
        destruct (HE0 Hte k ltac:(split; [exact Hk1|exact HkA]) Hck') as [t [Ht Hr]].
        exists t. split; [unfold all_trigs; apply in_or_app; now left|exact Hr].
      - apply HEn; [exact Hte|rewrite Hnl; lia|exact Hck]. }
    assert (HLCg : ts_level (s_ts s0) = true -> forall k, s_C s0 <= k < Z.max (s_acc s0) (dec_end b) ->
                   level_crit b k = true -> level_accounted b k).
    { intros Hte k [Hk1 Hk2] Hck. destruct (Z.lt_ge_cases k (s_acc s0)) as [HkA|HkA].
      - assert (Hke : k < s_end F0 s0) by lia.
        assert (Hck' : level_crit (cur F0 sgn s0) k = true).
        { rewrite <- Hck. symmetry. apply (level_crit_ext (cur F0 sgn s0) b (seg_data sg)); try reflexivity.
          - cbn. exact Hsg.
          - cbn. unfold s_end in Hke. lia. }
        destruct (HL0 Hte k ltac:(split; [exact Hk1|exact HkA]) Hck') as [t [Ht Hr]].
        exists t. split; [unfold all_trigs; apply in_or_app; now left|exact Hr].
      - apply HLn; [exact Hte|rewrite Hnl; lia|exact Hck]. }
    split; [split|].
    + intros Hte k Hk Hck. rewrite Hfc in Hk. apply (HECg Hte k); [lia|exact Hck].
    + intros Hte k Hk Hck. rewrite Hfc in Hk. apply (HLCg Hte k); [lia|exact Hck].
    + fold s'. split; [|split].
      * rewrite HA', Hend'. change (s_C s') with (s_C s0). lia.
      * change (s_ts s') with (s_ts s0). change (s_C s') with (s_C s0). change (s_nsamp s') with (s_nsamp s0).
        change (s_all s') with (all_trigs b). rewrite HA'. intros Hte k Hk Hck.
        assert (Hck' : edge_crit b k = true).
        { rewrite <- Hck. apply (edge_crit_ext (cur F0 sgn s') b []); try reflexivity.
          - cbn. now symmetry.
          - symmetry. apply app_nil_r.
          - change (k - F0 < zlen (s_G s')). unfold s_end in Hend', Hdec, Hacc. lia. }
        exact (HECg Hte k Hk Hck').
      * change (s_ts s') with (s_ts s0). change (s_C s') with (s_C s0). change (s_nsamp s') with (s_nsamp s0).
        change (s_all s') with (all_trigs b). rewrite HA'. intros Hte k Hk Hck.
        assert (Hck' : level_crit b k = true).
        { rewrite <- Hck. apply (level_crit_ext (cur F0 sgn s') b []); try reflexivity.
          - cbn. now symmetry.
          - symmetry. apply app_nil_r.
          - change (k - F0 < zlen (s_G s')). unfold s_end in Hend', Hdec, Hacc. lia. }
        exact (HLCg Hte k Hk Hck').
  - intros s0 npre nsamp ts. unfold SInv, new_epoch. cbn [s_C s_acc s_ts].
    split; [now left|]. split; intros _ k Hk; lia.
Qed.
End CompleteInd.

(* the checker's "true", whole-epoch form *)
Lemma C02_check_sound_full npre nsamp ts F0 sgn h :
  C02_check npre nsamp ts F0 h = true ->
  exists bs, annotate F0 (init_sstate npre nsamp ts F0) h = Some bs /\
    ((forall b, In b bs -> 0 <= bi_npre b <= bi_nsamp b /\ seg_signed (bi_seg b) = sgn) ->
     forall b, In b bs ->
       block_ok b /\
       (only_edge b = true -> chain_ge (bi_nsamp b) (epoch_trigs b)) /\
       (auto_free b = true -> gaps_le (auto_bound b) (first_cand b) (epoch_trigs b))).
Proof.
  intros H. destruct (C02_check_sound _ _ _ _ _ H) as [bs [Ha Hb]]. exists bs. split; [exact Ha|].
  intros Hlens b Hin.
  assert (Hcomp : edge_complete b /\ level_complete b).
  { apply (complete_from_new F0 sgn _ _ _ Ha); [| |exact Hin].
    - unfold SInv, init_sstate. cbn [s_C s_acc s_ts]. split; [now left|]. split; intros _ k Hk; lia.
    - intros b' Hb'. destruct (Hb b' Hb') as [_ [H2 [H3 _]]]. split; [apply Hlens, Hb'|]. split; assumption. }
  destruct (Hb b Hin) as [H1 [_ [_ [H4 H5]]]]. destruct Hcomp as [H2 H3].
  split; [exact (conj H1 (conj H2 (conj H3 (conj H4 H5))))|]. split.
  - apply (no_overlap_epoch F0 h _ bs Ha); [reflexivity| |exact Hin].
    intros b' Hb'. destruct (Hb b' Hb') as [_ [_ [_ [Hx _]]]]. exact Hx.
  - intros Haf. apply (auto_gap_epoch F0 h _ bs Ha); [reflexivity| |exact Hin|exact Haf].
    intros b' Hb'. destruct (Hb b' Hb') as [_ [_ [_ [_ Hx]]]]. exact Hx.
Qed.

Lemma st_epoch_chains npre nsamp ts F0 period sgn ops :
  0 <= F0 -> lengths_ok npre nsamp = true -> nsamp <= max_nsamp ->
  contiguous F0 ops -> Forall (op_ok2 period sgn) ops ->
  exists bs, annotate F0 (init_sstate npre nsamp ts F0) (combine ops (run (fresh_start npre nsamp ts) ops)) = Some bs /\
    forall b, In b bs ->
      (ts_edge (bi_ts b) = true -> ts_level (bi_ts b) = false -> ts_auto (bi_ts b) = false ->
         chain_ge (bi_nsamp b) (epoch_trigs b)) /\
      (ts_auto (bi_ts b) = true -> ts_autoveto (bi_ts b) <= 0 ->
         gaps_le (auto_dly b + bi_nsamp b) (first_cand b) (epoch_trigs b)).
Proof.
  intros H0 Hl Hm Hc HQ.
  destruct (model_blocks npre nsamp ts F0 period sgn ops H0 Hl Hm Hc HQ) as [bs [Ha Hb]].
  exists bs. split; [exact Ha|]. intros b Hin. split.
  - intros H1 H2 H3. apply (no_overlap_epoch F0 _ _ bs Ha); [reflexivity| |exact Hin|].
    + intros b' Hb'. destruct (Hb b' Hb') as [_ [_ [_ [Hx _]]]]. exact Hx.
    + unfold only_edge. now rewrite H1, H2, H3.
  - intros H1 H2. apply (auto_gap_epoch F0 _ _ bs Ha); [reflexivity| |exact Hin|].
    + intros b' Hb'. destruct (Hb b' Hb') as [_ [_ [_ [_ Hx]]]]. exact Hx.
    + unfold auto_free. rewrite H1. lia.
Qed.
