(* C02 — Properties (filled in as the theorems close) *)
From Dastard Require Import Common.ZX Pipeline.Stream C01.Model C01.Spec.
