(* C02 — property theorems only: each closed by [exact], each followed by Print Assumptions.

   Setting (as in C01/Properties.v): [run (fresh_start npre nsamp ts) ops] is the mirror model's observation of a
   channel that PrepareRun started with lengths (npre, nsamp) and restored trigger settings ts, after each operation
   of an arbitrary history ops (blocks of any length and content, ChangeTriggerState and ConfigurePulseLengths
   requests in any order, valid or refused).  [annotate] turns (operations, observations) into one [binfo] b per
   delivered block: settings in force, ground truth bi_G b (all samples delivered so far), the first candidate
   bi_C b of the epoch (an epoch = maximal run of blocks between control operations), the triggers of the epoch
   emitted before the block (bi_prev b), all earlier triggers (bi_all_prev b) and this block's (trigs b).  Spec.v evaluates the
   criteria on the ground truth in absolute frame numbers:
     edge_crit b k  : G'[k]+G'[k-1]-G'[k-2]-G'[k-3] >= level (rising) / <= -level (falling), G' shifted by 2^15 on signed channels
     level_crit b k : G'[k] >= thr and G'[k-1] < thr (rising), or the mirror image
     first_cand b = bi_C b: F0 + npre after a fresh start; after a control operation the candidates continue where the
                    decidable ones of the previous epoch ended (nothing delivered but not yet decidable is dropped by
                    reconfiguring), but not before (history bound) + new npre, the history bound being what one old
                    record length of retained data guarantees (C01/Spec.v new_epoch)
     dec_end b = (frame after the last delivered sample) - (nsamp - npre)
     all_trigs b = every trigger emitted up to and including this block, epoch_trigs b = those of the epoch
     auto_dly b = max(auto delay in samples, nsamp)
   Every statement is made for EVERY block of the history, i.e. for every prefix; taking the last block of an epoch
   gives the statement for the whole epoch.
   Premises: frame numbers start at F0 >= 0; valid initial lengths; record lengths that fit EMTState's int32
   fields; a contiguous source with one sample period and one signedness per channel; edge-multi off (C08). *)
From Dastard Require Import Common.ZX Pipeline.Stream C01.Model C01.Spec C02.Spec C02.Proofs.

(* every primary record sits on a sample that satisfies an enabled criterion; for an auto trigger: no trigger of
   the epoch in the auto delay (or one record, if longer) before it *)
Theorem edge_sound :
  forall npre nsamp ts F0 period sgn ops,
    0 <= F0 -> lengths_ok npre nsamp = true -> nsamp <= max_nsamp ->
    contiguous F0 ops -> Forall (op_ok2 period sgn) ops ->
    exists bs, annotate F0 (init_sstate npre nsamp ts F0) (combine ops (run (fresh_start npre nsamp ts) ops)) = Some bs /\
      forall b t, In b bs -> In t (trigs b) ->
        (ts_edge (bi_ts b) = true /\ edge_crit b t = true) \/
        (ts_level (bi_ts b) = true /\ level_crit b t = true) \/
        (ts_auto (bi_ts b) = true /\ forall u, In u (epoch_trigs b) -> u < t -> auto_dly b <= t - u).
Proof. exact st_edge_sound. Qed.
Print Assumptions edge_sound.

(* every decidable sample of the epoch that satisfies the edge criterion is a trigger or lies in the one-record
   dead time (t, t+nsamp] after an emitted trigger t — from the first block after a start (whatever settings were
   restored) and after every reconfiguration, for every partition into blocks *)
Theorem edge_complete :
  forall npre nsamp ts F0 period sgn ops,
    0 <= F0 -> lengths_ok npre nsamp = true -> nsamp <= max_nsamp ->
    contiguous F0 ops -> Forall (op_ok2 period sgn) ops ->
    exists bs, annotate F0 (init_sstate npre nsamp ts F0) (combine ops (run (fresh_start npre nsamp ts) ops)) = Some bs /\
      forall b k, In b bs -> ts_edge (bi_ts b) = true ->
        first_cand b <= k < dec_end b -> edge_crit b k = true ->
        exists t, In t (all_trigs b) /\ (t = k \/ t < k <= t + bi_nsamp b).
Proof. exact st_edge_complete. Qed.
Print Assumptions edge_complete.

(* every decidable sample that satisfies the level criterion is a trigger or lies within one record length before
   or after an emitted trigger *)
Theorem level_complete :
  forall npre nsamp ts F0 period sgn ops,
    0 <= F0 -> lengths_ok npre nsamp = true -> nsamp <= max_nsamp ->
    contiguous F0 ops -> Forall (op_ok2 period sgn) ops ->
    exists bs, annotate F0 (init_sstate npre nsamp ts F0) (combine ops (run (fresh_start npre nsamp ts) ops)) = Some bs /\
      forall b k, In b bs -> ts_level (bi_ts b) = true ->
        first_cand b <= k < dec_end b -> level_crit b k = true ->
        exists t, In t (all_trigs b) /\ Z.abs (k - t) < bi_nsamp b.
Proof. exact st_level_complete. Qed.
Print Assumptions level_complete.

(* between reconfigurations edge-only triggering never yields overlapping records: this block's triggers are at
   least nsamp apart from each other and from the last trigger the epoch emitted before (emission order is
   increasing order, so by induction all successive triggers of the epoch are) *)
Theorem edge_no_overlap :
  forall npre nsamp ts F0 period sgn ops,
    0 <= F0 -> lengths_ok npre nsamp = true -> nsamp <= max_nsamp ->
    contiguous F0 ops -> Forall (op_ok2 period sgn) ops ->
    exists bs, annotate F0 (init_sstate npre nsamp ts F0) (combine ops (run (fresh_start npre nsamp ts) ops)) = Some bs /\
      forall b, In b bs ->
        ts_edge (bi_ts b) = true -> ts_level (bi_ts b) = false -> ts_auto (bi_ts b) = false ->
        match rev (bi_prev b) with
        | [] => match trigs b with [] => True | t :: l => gaps_ge (bi_nsamp b) t l end
        | q :: _ => gaps_ge (bi_nsamp b) q (trigs b)
        end.
Proof. exact st_edge_no_overlap. Qed.
Print Assumptions edge_no_overlap.

(* auto trigger on and no veto: the chain (first candidate of the epoch, or the epoch's last trigger before this
   block) -> this block's triggers has no gap above max(delay, nsamp) + nsamp, and the last decidable candidate is
   at most that far after the last trigger *)
Theorem auto_gap_bound :
  forall npre nsamp ts F0 period sgn ops,
    0 <= F0 -> lengths_ok npre nsamp = true -> nsamp <= max_nsamp ->
    contiguous F0 ops -> Forall (op_ok2 period sgn) ops ->
    exists bs, annotate F0 (init_sstate npre nsamp ts F0) (combine ops (run (fresh_start npre nsamp ts) ops)) = Some bs /\
      forall b, In b bs ->
        ts_auto (bi_ts b) = true -> ts_autoveto (bi_ts b) <= 0 ->
        gaps_le (auto_dly b + bi_nsamp b) (chain_start b) (trigs b) /\
        (first_cand b < dec_end b -> dec_end b - 1 - chain_last b <= auto_dly b + bi_nsamp b).
Proof. exact st_auto_gap_bound. Qed.
Print Assumptions auto_gap_bound.

(* the model's output passes the observable checker that the harness applies to the implementation's output *)
Theorem model_passes_checker :
  forall npre nsamp ts F0 period sgn ops,
    0 <= F0 -> lengths_ok npre nsamp = true -> nsamp <= max_nsamp ->
    contiguous F0 ops -> Forall (op_ok2 period sgn) ops ->
    C02_check npre nsamp ts F0 (combine ops (run (fresh_start npre nsamp ts) ops)) = true.
Proof. exact st_model_passes_checker. Qed.
Print Assumptions model_passes_checker.

(* what the checker's "true" means for ANY observed history: for every block, soundness, no overlap and the auto
   gap bound as above, and completeness for the candidates that became decidable with that block (from new_lo b =
   bi_lo b, the bound up to which earlier blocks were judged) against the triggers emitted so far *)
Theorem checker_sound :
  forall npre nsamp ts F0 h,
    C02_check npre nsamp ts F0 h = true ->
    exists bs, annotate F0 (init_sstate npre nsamp ts F0) h = Some bs /\
      forall b, In b bs ->
        sound b /\
        (ts_edge (bi_ts b) = true -> forall k, new_lo b <= k < dec_end b -> edge_crit b k = true -> edge_accounted b k) /\
        (ts_level (bi_ts b) = true -> forall k, new_lo b <= k < dec_end b -> level_crit b k = true -> level_accounted b k) /\
        no_overlap b /\ auto_gap b.
Proof. exact C02_check_sound. Qed.
Print Assumptions checker_sound.

(* whole-epoch forms of the last two: ALL successive triggers of the epoch so far (chain_ge d l: consecutive elements
   of l at least d apart), and the whole chain first candidate -> triggers of the epoch so far *)
Theorem epoch_chains :
  forall npre nsamp ts F0 period sgn ops,
    0 <= F0 -> lengths_ok npre nsamp = true -> nsamp <= max_nsamp ->
    contiguous F0 ops -> Forall (op_ok2 period sgn) ops ->
    exists bs, annotate F0 (init_sstate npre nsamp ts F0) (combine ops (run (fresh_start npre nsamp ts) ops)) = Some bs /\
      forall b, In b bs ->
        (ts_edge (bi_ts b) = true -> ts_level (bi_ts b) = false -> ts_auto (bi_ts b) = false ->
           chain_ge (bi_nsamp b) (epoch_trigs b)) /\
        (ts_auto (bi_ts b) = true -> ts_autoveto (bi_ts b) <= 0 ->
           gaps_le (auto_dly b + bi_nsamp b) (first_cand b) (epoch_trigs b)).
Proof. exact st_epoch_chains. Qed.
Print Assumptions epoch_chains.

(* the checker's "true" in whole-epoch form, for ANY observed history of a channel with one signedness in which the
   lengths in force satisfy 0 <= npre <= nsamp: every block passes the full judgement block_ok (= sound, edge_complete
   and level_complete over ALL candidates of the epoch so far, no_overlap, auto_gap) and the two chains hold *)
Theorem checker_sound_epoch :
  forall npre nsamp ts F0 sgn h,
    C02_check npre nsamp ts F0 h = true ->
    exists bs, annotate F0 (init_sstate npre nsamp ts F0) h = Some bs /\
      ((forall b, In b bs -> 0 <= bi_npre b <= bi_nsamp b /\ seg_signed (bi_seg b) = sgn) ->
       forall b, In b bs ->
         (sound b /\ C02.Spec.edge_complete b /\ C02.Spec.level_complete b /\ no_overlap b /\ auto_gap b) /\
         (only_edge b = true -> chain_ge (bi_nsamp b) (epoch_trigs b)) /\
         (auto_free b = true -> gaps_le (auto_bound b) (first_cand b) (epoch_trigs b))).
Proof. exact C02_check_sound_full. Qed.
Print Assumptions checker_sound_epoch.

(* the two defects of the unchanged tree, stated on the pre-fix model functions kept in Model.v:
   (a) PrepareRun left EMTState.nsamp = 0 (10 samples retained between blocks): a step at the first undecidable
       position of a block is lost;  (b) ConfigureTrigger set LastTrigger = 0: a step in the first nsamp frames of
       a stream starting at frame 0 is skipped with no emitted trigger to justify it.
   In both cases the repaired model passes on the same input. *)
Theorem edge_complete_refuted_pre_fix_a :
  C02_check 3 12 wit_ts 0 (combine wit_a_ops (run (fresh_start_old 3 12 wit_ts) wit_a_ops)) = false /\
  C02_check 3 12 wit_ts 0 (combine wit_a_ops (run (fresh_start 3 12 wit_ts) wit_a_ops)) = true.
Proof. exact refuted_a. Qed.
Print Assumptions edge_complete_refuted_pre_fix_a.

Theorem edge_complete_refuted_pre_fix_b :
  C02_check 3 12 wit_none 0 (combine wit_b_ops (run_old (fresh_start 3 12 wit_none) wit_b_ops)) = false /\
  C02_check 3 12 wit_none 0 (combine wit_b_ops (run (fresh_start 3 12 wit_none) wit_b_ops)) = true.
Proof. exact refuted_b. Qed.
Print Assumptions edge_complete_refuted_pre_fix_b.
