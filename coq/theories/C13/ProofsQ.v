(* C13 — exact-arithmetic identities over Q: the closed forms the checker evaluates equal the textbook
   definitions of Model.v, and the code's delta formula is the least-squares slope times the span. *)
From Coq Require Import ZArith QArith Qabs Lia List Qfield Psatz.
From Coq Require Import ZifyBool ZifyNat.
From Dastard Require Import Common.ZX C13.Model.
Import ListNotations.
Open Scope Q_scope.

Lemma QZ_plus x y : QZ (x + y) == QZ x + QZ y.
Proof. unfold QZ. rewrite inject_Z_plus. reflexivity. Qed.
Lemma QZ_mult x y : QZ (x * y) == QZ x * QZ y.
Proof. unfold QZ. rewrite inject_Z_mult. reflexivity. Qed.
Lemma QZ_minus x y : QZ (x - y) == QZ x - QZ y.
Proof. unfold QZ, Z.sub. rewrite inject_Z_plus, inject_Z_opp. reflexivity. Qed.
Lemma QZ_nonzero z : (z <> 0)%Z -> ~ QZ z == 0.
Proof. intros H E. apply H. unfold QZ, Qeq in E. cbn in E. lia. Qed.

Lemma Qsum_QZ (l : list Z) : Qsum (map QZ l) == QZ (Zsum l).
Proof.
  induction l as [|x r IH]; cbn [map Qsum Zsum fold_right].
  - reflexivity.
  - fold (Qsum (map QZ r)). fold (Zsum r). rewrite IH, QZ_plus. reflexivity.
Qed.

(* ---- mean, average ---- *)
Lemma mu_closed ds p : mu_x ds p == mu ds p.
Proof. unfold mu_x, mu, S0. rewrite Qsum_QZ. reflexivity. Qed.

Lemma avg_closed ds p : avg_x ds p == avg_def ds p.
Proof. unfold avg_x, avg_def, m1_x, S1. rewrite Qsum_QZ, mu_closed. reflexivity. Qed.

(* ---- mean square: the code's expansion is the mean squared deviation ---- *)
Lemma sq_expand (m : Q) (l : list Z) :
  Qsum (map (fun d => Qsq (QZ d - m)) l)
  == QZ (Zsum (map (fun d => (d * d)%Z) l)) - 2 * m * QZ (Zsum l) + QZ (zlen l) * (m * m).
Proof.
  induction l as [|x r IH]; cbn [map Qsum Zsum fold_right].
  - unfold zlen. cbn. unfold QZ. ring.
  - fold (Qsum (map (fun d => Qsq (QZ d - m)) r)). fold (Zsum r).
    fold (Zsum (map (fun d => (d * d)%Z) r)).
    rewrite IH. rewrite !QZ_plus, QZ_mult.
    replace (zlen (x :: r)) with (1 + zlen r)%Z by (unfold zlen; cbn [length]; lia).
    rewrite QZ_plus. unfold Qsq. change (QZ 1) with 1. ring.
Qed.

Lemma ms_closed ds p : (0 < NN ds p)%Z -> ms_x ds p == ms_def ds p.
Proof.
  intros HN. unfold ms_def. rewrite sq_expand. fold (NN ds p). fold (S1 ds p). fold (S2 ds p).
  unfold ms_x, m1_x, m2_x. rewrite <- mu_closed.
  field. apply QZ_nonzero. lia.
Qed.

(* ---- peak ---- *)
Lemma Qle_bool_div (a b c : Z) : (0 < b)%Z -> Qle_bool (QZ a / QZ b) (QZ c) = (a <=? c * b)%Z.
Proof.
  intros Hb.
  assert (Hb' : 0 < QZ b) by (unfold QZ, Qlt; cbn; lia).
  destruct (a <=? c * b)%Z eqn:E.
  - apply Qle_bool_iff. apply Qle_shift_div_r; auto. rewrite <- QZ_mult.
    unfold QZ. rewrite <- Zle_Qle. lia.
  - destruct (Qle_bool (QZ a / QZ b) (QZ c)) eqn:E2; auto.
    apply Qle_bool_iff in E2. exfalso.
    assert (H : QZ a <= QZ c * QZ b).
    { setoid_replace (QZ a) with (QZ a / QZ b * QZ b) by (field; apply QZ_nonzero; lia).
      apply Qmult_le_compat_r; auto. apply Qlt_le_weak; auto. }
    rewrite <- QZ_mult in H. unfold QZ in H. rewrite <- Zle_Qle in H. lia.
Qed.

Lemma Qmax_sub_compat a a' b : a == a' -> Qmax a b - a == Qmax a' b - a'.
Proof.
  intros E. unfold Qmax. rewrite (Qleb_comp _ _ E b b (Qeq_refl b)).
  destruct (Qle_bool a' b); rewrite E; reflexivity.
Qed.

Lemma peak_closed ds p : (0 < p)%Z -> peak_x ds p == peak_def ds p.
Proof.
  intros Hp. unfold peak_x, peak_def. fold (MX ds p).
  rewrite <- (Qmax_sub_compat _ _ _ (mu_closed ds p)).
  unfold Qmax, mu_x. rewrite (Qle_bool_div _ _ _ Hp).
  destruct (S0 ds p <? MX ds p * p)%Z eqn:E.
  - replace (S0 ds p <=? MX ds p * p)%Z with true by lia. reflexivity.
  - destruct (S0 ds p <=? MX ds p * p)%Z eqn:E2.
    + assert (Heq : S0 ds p = (MX ds p * p)%Z) by lia. rewrite Heq, QZ_mult. field. apply QZ_nonzero. lia.
    + ring.
Qed.

(* ---- delta ---- *)
Lemma delta_terms (d0 p : Z) : forall (l : list Z) (i : nat) (a : Z),
  Qsum (map (fun id : Z * Z => (QZ (snd id) - QZ d0) * (QZ (fst id) - (QZ p - 1) / 2)) (combine (zrange_nat a i) l))
  == QZ (Zsum (map (fun id : Z * Z => ((snd id - d0) * (2 * fst id - (p - 1)))%Z) (combine (zrange_nat a i) l))) / 2.
Proof.
  induction l as [|d r IH]; intros i a.
  - destruct i; cbn; unfold QZ; field.
  - destruct i as [|i]; [cbn; unfold QZ; field|].
    cbn [zrange_nat combine map Qsum Zsum fold_right fst snd].
    fold (Qsum (map (fun id : Z * Z => (QZ (snd id) - QZ d0) * (QZ (fst id) - (QZ p - 1) / 2)) (combine (zrange_nat (a + 1) i) r))).
    fold (Zsum (map (fun id : Z * Z => ((snd id - d0) * (2 * fst id - (p - 1)))%Z) (combine (zrange_nat (a + 1) i) r))).
    rewrite IH. repeat (first [rewrite QZ_plus | rewrite QZ_mult | rewrite QZ_minus]).
    change (QZ 2) with 2. change (QZ 1) with 1. field.
Qed.

Lemma delta_closed ds p : (0 < p)%Z -> delta_x ds p == delta_def ds p.
Proof.
  intros Hp. unfold delta_def, xbar, dfirst, zrange. rewrite delta_terms.
  fold (zrange 0 p). fold (V2 ds p). unfold delta_x.
  rewrite !QZ_mult, QZ_plus. change (QZ 6) with 6. change (QZ 1) with 1.
  field. split; [| apply QZ_nonzero; lia].
  intros E. assert (H : QZ (p + 1) == 0) by (rewrite QZ_plus; exact E).
  revert H. apply QZ_nonzero. lia.
Qed.

(* ---- the delta formula is the least-squares slope times the pre-trigger span ---- *)
Lemma QZ_S n : QZ (Z.of_nat (S n)) == QZ (Z.of_nat n) + 1.
Proof. rewrite Nat2Z.inj_succ. unfold Z.succ. rewrite QZ_plus. reflexivity. Qed.

Lemma sum_lin (c : Q) : forall n a,
  Qsum (map (fun i => QZ i - c) (zrange_nat a n))
  == QZ (Z.of_nat n) * (QZ a - c) + QZ (Z.of_nat n) * (QZ (Z.of_nat n) - 1) / 2.
Proof.
  induction n as [|n IH]; intros a.
  - cbn. unfold QZ. field.
  - cbn [zrange_nat map Qsum fold_right].
    fold (Qsum (map (fun i => QZ i - c) (zrange_nat (a + 1) n))).
    rewrite IH, QZ_S, QZ_plus. change (QZ 1) with 1. field.
Qed.

Lemma sum_sq (c : Q) : forall n a,
  Qsum (map (fun i => Qsq (QZ i - c)) (zrange_nat a n))
  == QZ (Z.of_nat n) * (QZ a - c) * (QZ a - c)
     + (QZ a - c) * QZ (Z.of_nat n) * (QZ (Z.of_nat n) - 1)
     + (QZ (Z.of_nat n) - 1) * QZ (Z.of_nat n) * (2 * QZ (Z.of_nat n) - 1) / 6.
Proof.
  induction n as [|n IH]; intros a.
  - cbn. unfold QZ. field.
  - cbn [zrange_nat map Qsum fold_right].
    fold (Qsum (map (fun i => Qsq (QZ i - c)) (zrange_nat (a + 1) n))).
    rewrite IH, QZ_S, QZ_plus. change (QZ 1) with 1. unfold Qsq. field.
Qed.

Lemma sum_cross (c m : Q) (d0 : Z) : forall l a,
  Qsum (map (fun id : Z * Z => (QZ (fst id) - c) * (QZ (snd id) - m)) (combine (zrange_nat a (length l)) l))
  == Qsum (map (fun id : Z * Z => (QZ (snd id) - QZ d0) * (QZ (fst id) - c)) (combine (zrange_nat a (length l)) l))
     + (QZ d0 - m) * Qsum (map (fun i => QZ i - c) (zrange_nat a (length l))).
Proof.
  induction l as [|d r IH]; intros a.
  - cbn. ring.
  - cbn [length zrange_nat combine map Qsum fold_right fst snd].
    fold (Qsum (map (fun id : Z * Z => (QZ (fst id) - c) * (QZ (snd id) - m)) (combine (zrange_nat (a + 1) (length r)) r))).
    fold (Qsum (map (fun id : Z * Z => (QZ (snd id) - QZ d0) * (QZ (fst id) - c)) (combine (zrange_nat (a + 1) (length r)) r))).
    fold (Qsum (map (fun i => QZ i - c) (zrange_nat (a + 1) (length r)))).
    rewrite IH. ring.
Qed.

Lemma pre_length' (ds : list Z) p : (0 <= p <= zlen ds)%Z -> length (pre ds p) = Z.to_nat p.
Proof. intros H. unfold pre, zfirstn. rewrite firstn_length. unfold zlen in H. lia. Qed.

Lemma delta_is_slope ds p : (2 <= p <= zlen ds)%Z -> delta_def ds p == delta_span ds p.
Proof.
  intros Hp. unfold delta_span, ls_slope, delta_def, zrange.
  rewrite <- (pre_length' ds p) by lia.
  rewrite (sum_cross (xbar p) (mu ds p) (dfirst ds)).
  rewrite sum_lin, sum_sq.
  rewrite (pre_length' ds p) by lia. rewrite Z2Nat.id by lia.
  unfold xbar. change (QZ 0) with 0.
  set (T := Qsum _). set (P := QZ p).
  assert (HP : ~ P == 0) by (apply QZ_nonzero; lia).
  assert (HP1 : ~ P + 1 == 0).
  { unfold P. intros E. assert (H : QZ (p + 1) == 0) by (rewrite QZ_plus; exact E). revert H. apply QZ_nonzero. lia. }
  assert (HPm : ~ P - 1 == 0).
  { unfold P. intros E. assert (H : QZ (p - 1) == 0) by (rewrite QZ_minus; exact E). revert H. apply QZ_nonzero. lia. }
  field. repeat split; auto.
  (* the denominator sum (i - xbar)^2 = P (P^2 - 1) / 12 is non-zero *)
  intros E.
  assert (E2 : P * (P - 1) * (P + 1) == 0) by nra.
  apply Qmult_integral in E2. destruct E2 as [E2|E2]; [|auto].
  apply Qmult_integral in E2. destruct E2; auto.
Qed.

Lemma NN_val (ds : list Z) p : (0 <= p <= zlen ds)%Z -> NN ds p = (zlen ds - p)%Z.
Proof. intros H. unfold NN, post, zskipn, zlen. rewrite skipn_length. unfold zlen in H. lia. Qed.

Lemma closed_forms_all ds p : (0 < p)%Z -> (p < zlen ds)%Z ->
  mu_x ds p == mu ds p /\ delta_x ds p == delta_def ds p /\ avg_x ds p == avg_def ds p /\
  ms_x ds p == ms_def ds p /\ peak_x ds p == peak_def ds p.
Proof.
  intros Hp Hn. repeat split.
  - apply mu_closed.
  - apply delta_closed; auto.
  - apply avg_closed.
  - apply ms_closed. rewrite NN_val; lia.
  - apply peak_closed; auto.
Qed.
