(* C13 — bridge between the checker's rational arithmetic (Q) and the reals of the float theorems. *)
From Coq Require Import ZArith Reals QArith Qabs Qreals Floats Lia Lra List Psatz.
From Flocq Require Import Core IEEE754.BinarySingleNaN IEEE754.PrimFloat Relative Plus_error.
From Dastard Require Import Common.ZX C13.Model C13.ModelFloat C13.Spec C13.FloatKit.
Import ListNotations.
Open Scope R_scope.

Lemma Q2R_QZ z : Q2R (QZ z) = IZR z.
Proof. unfold Q2R, QZ. cbn. rewrite Rinv_1. ring. Qed.

Lemma Q2R_Qabs q : Q2R (Qabs q) = Rabs (Q2R q).
Proof.
  destruct (Qlt_le_dec q 0) as [H|H].
  - rewrite Qabs_neg by (apply Qlt_le_weak; auto). rewrite Q2R_opp.
    apply Qlt_Rlt in H. rewrite RMicromega.Q2R_0 in H. rewrite Rabs_left; lra.
  - rewrite Qabs_pos by auto. apply Qle_Rle in H. rewrite RMicromega.Q2R_0 in H.
    rewrite Rabs_pos_eq; lra.
Qed.

Lemma Qle_b_R a b : Qle_b a b = true <-> Q2R a <= Q2R b.
Proof.
  unfold Qle_b. rewrite Qle_bool_iff. split; [apply Qle_Rle | apply Rle_Qle].
Qed.

Lemma within_R x ref tol : within x ref tol = true <-> Rabs (Q2R x - Q2R ref) <= Q2R tol.
Proof.
  unfold within. rewrite Qle_b_R, Q2R_Qabs, Q2R_minus. tauto.
Qed.

Lemma Q2R_div_QZ a b : (b <> 0)%Z -> Q2R (QZ a / QZ b) = IZR a / IZR b.
Proof.
  intros Hb. rewrite Q2R_div, !Q2R_QZ; auto.
  intros E. unfold QZ, Qeq in E. cbn in E. lia.
Qed.

Lemma Q2R_uQ : Q2R uQ = bpow radix2 (-53).
Proof. unfold Q2R, uQ. cbn [Qnum Qden]. change (bpow radix2 (-53)) with (/ IZR (2 ^ 53)). change (2 ^ 53)%Z with (Z.pos (2 ^ 53)). lra. Qed.

(* ---- float64 -> Q is exact ---- *)
Lemma shiftl_pow m e : (0 <= e)%Z -> Z.shiftl m e = (m * 2 ^ e)%Z.
Proof. intros H. apply Z.shiftl_mul_pow2. exact H. Qed.

Lemma dy2Q_R m e : Q2R (dy2Q (m, e)) = IZR m * bpow radix2 e.
Proof.
  unfold dy2Q. destruct (0 <=? e)%Z eqn:E.
  - rewrite Q2R_QZ, shiftl_pow by lia. rewrite mult_IZR. f_equal.
    rewrite (IZR_Zpower radix2) by lia. reflexivity.
  - assert (He : (0 < - e)%Z) by lia.
    rewrite shiftl_pow by lia. rewrite Z.mul_1_l.
    assert (Hpos : (0 < 2 ^ (- e))%Z) by (apply Z.pow_pos_nonneg; lia).
    unfold Q2R. cbn [Qnum Qden]. rewrite Z2Pos.id by exact Hpos.
    rewrite (IZR_Zpower radix2) by lia. rewrite bpow_opp. rewrite Rinv_inv. reflexivity.
Qed.

Lemma Q_of_float_exact f : Ffin f -> exists q, Q_of_float f = Some q /\ Q2R q = FR f.
Proof.
  intros Hf. apply Ffin_SF in Hf. rewrite FR_SF. unfold Q_of_float, dy_of_float.
  destruct (Prim2SF f) as [s|s| |s m e]; try discriminate.
  - eexists. split; [reflexivity|]. cbn [option_map]. rewrite dy2Q_R. cbn. ring.
  - eexists. split; [reflexivity|]. cbn [option_map]. rewrite dy2Q_R.
    unfold SF2R, F2R. cbn [Fnum Fexp]. destruct s; reflexivity.
Qed.

(* ---- relative error of one rounding ---- *)
Definition uR : R := bpow radix2 (-53).

Lemma RN_rel x : x = 0 \/ bpow radix2 (-1022) <= Rabs x ->
  exists e, Rabs e <= uR /\ RN x = x * (1 + e).
Proof.
  intros [H|H].
  - exists 0. split; [rewrite Rabs_R0; apply bpow_ge_0|]. subst. unfold RN. rewrite round_0; [ring | apply valid_rnd_N].
  - unfold RN. rewrite fx_FLT.
    destruct (relative_error_N_FLT_ex radix2 (-1074) 53 ltac:(reflexivity) (fun x => negb (Z.even x)) x H) as (e & He1 & He2).
    exists e. split; auto.
    unfold uR. replace (bpow radix2 (-53)) with (/ 2 * bpow radix2 (-53 + 1)); auto.
    rewrite bpow_plus. change (bpow radix2 1) with 2. field.
Qed.

Lemma Fmt_FR f : Fmt (FR f).
Proof. unfold Fmt, FR, fx. apply generic_format_B2R. Qed.

(* sums of two floats: no underflow error *)
Lemma RN_rel_plus a b : Fmt a -> Fmt b -> exists e, Rabs e <= uR /\ RN (a + b) = (a + b) * (1 + e).
Proof.
  intros Ha Hb.
  destruct (Rle_or_lt (Rabs (a + b)) (bpow radix2 (53 + -1074))) as [H|H].
  - exists 0. split; [rewrite Rabs_R0; apply bpow_ge_0|].
    rewrite Rplus_0_r, Rmult_1_r. apply RN_exact. unfold Fmt. rewrite fx_FLT.
    apply FLT_format_plus_small; auto; try (rewrite <- fx_FLT; auto). reflexivity.
  - apply RN_rel. right. apply Rle_trans with (bpow radix2 (53 + -1074)); [apply bpow_le; lia | lra].
Qed.
Lemma RN_rel_minus a b : Fmt a -> Fmt b -> exists e, Rabs e <= uR /\ RN (a - b) = (a - b) * (1 + e).
Proof.
  intros Ha Hb. unfold Rminus. apply RN_rel_plus; auto.
  unfold Fmt. apply generic_format_opp. exact Hb.
Qed.
Lemma Fmt_RN x : Fmt (RN x).
Proof. unfold Fmt, RN. apply generic_format_round; [rewrite fx_FLT; apply FLT_exp_valid; reflexivity | apply valid_rnd_N]. Qed.
