(* C13 — the checker's dyadic arithmetic is exact, and the coefficient test of the checker accepts the
   result of EVERY summation-tree evaluation of a projector row (link between Spec.coef_row_ok and
   Tree.tree_bound_gamma). *)
From Coq Require Import ZArith Reals Lia Lra Psatz List Permutation.
From Coq Require Import ZifyBool ZifyNat.
From Flocq Require Import Core.
From Dastard Require Import Common.ZX C13.Model C13.Spec C13.FloatKit C13.Bridge C13.Meets C13.Rms C13.Tree.
Import ListNotations.
Open Scope R_scope.

Definition dyR (a : dy) : R := IZR (fst a) * bpow radix2 (snd a).

Lemma shiftl_R m k : (0 <= k)%Z -> IZR (Z.shiftl m k) = IZR m * bpow radix2 k.
Proof.
  intros H. rewrite Z.shiftl_mul_pow2 by lia. rewrite mult_IZR. f_equal.
  rewrite (IZR_Zpower radix2) by lia. reflexivity.
Qed.

Lemma dyR_add a b : dyR (dy_add a b) = dyR a + dyR b.
Proof.
  destruct a as [m1 e1], b as [m2 e2]. unfold dy_add, dyR.
  destruct (e1 <=? e2)%Z eqn:E; cbn [fst snd].
  - rewrite plus_IZR, shiftl_R by lia.
    replace e2 with ((e2 - e1) + e1)%Z at 2 by lia. rewrite bpow_plus. ring.
  - rewrite plus_IZR, shiftl_R by lia.
    replace e1 with ((e1 - e2) + e2)%Z at 2 by lia. rewrite bpow_plus. ring.
Qed.
Lemma dyR_opp a : dyR (dy_opp a) = - dyR a.
Proof. unfold dy_opp, dyR. cbn [fst snd]. rewrite opp_IZR. ring. Qed.
Lemma dyR_sub a b : dyR (dy_sub a b) = dyR a - dyR b.
Proof. unfold dy_sub. rewrite dyR_add, dyR_opp. ring. Qed.
Lemma dyR_mul a b : dyR (dy_mul a b) = dyR a * dyR b.
Proof. unfold dy_mul, dyR. cbn [fst snd]. rewrite mult_IZR, bpow_plus. ring. Qed.
Lemma dyR_abs a : dyR (dy_abs a) = Rabs (dyR a).
Proof.
  unfold dy_abs, dyR. cbn [fst snd]. rewrite abs_IZR, Rabs_mult.
  rewrite (Rabs_pos_eq (bpow radix2 (snd a))) by apply bpow_ge_0. reflexivity.
Qed.
Lemma dyR_of_Z z : dyR (dy_of_Z z) = IZR z.
Proof. unfold dy_of_Z, dyR. cbn. ring. Qed.

Lemma dy_le_R a b : dy_le a b = true <-> dyR a <= dyR b.
Proof.
  unfold dy_le. rewrite Z.leb_le.
  pose proof (dyR_sub b a) as H. unfold dyR at 1 in H.
  pose proof (bpow_gt_0 radix2 (snd (dy_sub b a))) as Hp.
  split; intros H1.
  - apply IZR_le in H1. nra.
  - apply le_IZR. destruct (Rle_or_lt 0 (IZR (fst (dy_sub b a)))) as [|Hn]; auto. exfalso. nra.
Qed.

(* sum of products over a list of pairs *)
Fixpoint Rdot (l : list (R * R)) : R :=
  match l with [] => 0 | (a, b) :: r => a * b + Rdot r end.
Fixpoint Rmagdot (l : list (R * R)) : R :=
  match l with [] => 0 | (a, b) :: r => Rabs (a * b) + Rmagdot r end.

Definition pairsR (row : list dy) (d : list Z) : list (R * R) :=
  map (fun xy => (dyR (fst xy), IZR (snd xy))) (combine row d).

Lemma dy_dot_R (row : list dy) (d : list Z) :
  dyR (dy_dot row (map dy_of_Z d)) = Rdot (pairsR row d).
Proof.
  unfold dy_dot, pairsR. revert d. induction row as [|x r IH]; intros d.
  - cbn. unfold dyR. cbn. ring.
  - destruct d as [|z d']; [cbn; unfold dyR; cbn; ring|].
    cbn [map combine dy_sum fold_right Rdot fst snd].
    rewrite dyR_add, dyR_mul, dyR_of_Z. f_equal. apply IH.
Qed.

Lemma dy_magdot_R (row : list dy) (d : list Z) :
  dyR (dy_dot (map dy_abs row) (map (fun x => dy_of_Z (Z.abs x)) d)) = Rmagdot (pairsR row d).
Proof.
  unfold dy_dot, pairsR. revert d. induction row as [|x r IH]; intros d.
  - cbn. unfold dyR. cbn. ring.
  - destruct d as [|z d']; [cbn; unfold dyR; cbn; ring|].
    cbn [map combine dy_sum fold_right Rmagdot fst snd].
    rewrite dyR_add, dyR_mul, dyR_abs, dyR_of_Z, abs_IZR, Rabs_mult. f_equal. apply IH.
Qed.

(* the leaves of a summation tree, left to right *)
Fixpoint leaf_list (t : tree) : list (R * R) :=
  match t with Leaf a b => [(a, b)] | Node l r => leaf_list l ++ leaf_list r end.

Lemma Rdot_app l1 l2 : Rdot (l1 ++ l2) = Rdot l1 + Rdot l2.
Proof. induction l1 as [|[a b] r IH]; cbn [app Rdot]; [ring | rewrite IH; ring]. Qed.
Lemma Rmagdot_app l1 l2 : Rmagdot (l1 ++ l2) = Rmagdot l1 + Rmagdot l2.
Proof. induction l1 as [|[a b] r IH]; cbn [app Rmagdot]; [ring | rewrite IH; ring]. Qed.

Lemma Rdot_perm l1 l2 : Permutation l1 l2 -> Rdot l1 = Rdot l2.
Proof.
  induction 1 as [|[a b] l l' _ IH|[a b] [c d] l|l l' l'' _ IH1 _ IH2]; cbn [Rdot]; try lra; congruence.
Qed.
Lemma Rmagdot_perm l1 l2 : Permutation l1 l2 -> Rmagdot l1 = Rmagdot l2.
Proof.
  induction 1 as [|[a b] l l' _ IH|[a b] [c d] l|l l' l'' _ IH1 _ IH2]; cbn [Rmagdot]; try lra; congruence.
Qed.

Lemma exact_leaf_list t : exact t = Rdot (leaf_list t).
Proof. induction t as [a b|l IHl r IHr]; cbn [exact leaf_list Rdot]; [ring | rewrite Rdot_app; lra]. Qed.
Lemma mag_leaf_list t : mag t = Rmagdot (leaf_list t).
Proof. induction t as [a b|l IHl r IHr]; cbn [mag leaf_list Rmagdot]; [ring | rewrite Rmagdot_app; lra]. Qed.
Lemma leaves_leaf_list t : leaves t = length (leaf_list t).
Proof. induction t as [a b|l IHl r IHr]; cbn [leaves leaf_list length]; [reflexivity | rewrite app_length; lia]. Qed.

(* the checker's row test, read over the reals *)
Lemma coef_row_ok_R n c ex mg : (0 < n < 2 ^ 53)%Z ->
  coef_row_ok n c ex mg = true <->
  Rabs (dyR c - dyR ex) <= IZR n * uR / (1 - IZR n * uR) * dyR mg + IZR n * etaR.
Proof.
  intros Hn. unfold coef_row_ok. rewrite dy_le_R.
  rewrite dyR_mul, dyR_abs, dyR_sub, dyR_add, !dyR_mul.
  assert (Hku : dyR (dy_ku n) = IZR n * uR) by (unfold dy_ku, dyR, uR; reflexivity).
  assert (H1m : dyR (dy_1mku n) = 1 - IZR n * uR).
  { unfold dy_1mku, dyR, uR. cbn [fst snd]. rewrite minus_IZR.
    change (IZR (2 ^ 53)) with (bpow radix2 53).
    replace ((bpow radix2 53 - IZR n) * bpow radix2 (-53)) with (bpow radix2 53 * bpow radix2 (-53) - IZR n * bpow radix2 (-53)) by ring.
    rewrite <- bpow_plus. reflexivity. }
  assert (Hke : dyR (dy_keta n) = IZR n * etaR) by (unfold dy_keta, dyR, etaR; reflexivity).
  rewrite Hku, H1m, Hke.
  assert (Hpos : 0 < 1 - IZR n * uR).
  { assert (IZR n * uR < 1); [|lra]. unfold uR.
    apply Rmult_lt_reg_r with (bpow radix2 53); [apply bpow_gt_0|].
    rewrite Rmult_assoc, <- bpow_plus. cbn [Z.add Z.opp Z.pos_sub]. change (bpow radix2 (-53 + 53)) with 1.
    rewrite Rmult_1_r, Rmult_1_l. change (bpow radix2 53) with (IZR (2 ^ 53)). apply IZR_lt. lia. }
  set (D := Rabs (dyR c - dyR ex)). set (g := 1 - IZR n * uR) in *.
  split; intros H.
  - apply Rmult_le_reg_r with g; auto.
    replace ((IZR n * uR / g * dyR mg + IZR n * etaR) * g) with (IZR n * uR * dyR mg + IZR n * etaR * g) by (field; lra).
    exact H.
  - replace (IZR n * uR * dyR mg + IZR n * etaR * g) with ((IZR n * uR / g * dyR mg + IZR n * etaR) * g) by (field; lra).
    apply Rmult_le_compat_r; lra.
Qed.

(* For ANY summation tree over the products of one projector row with the record (in any order), the
   checker's coefficient test accepts the float result. *)
Lemma coef_check_accepts_any_tree (row : list dy) (d : list Z) (t : tree) (c : dy) :
  length row = length d -> (1 <= length d)%nat -> (zlen d < 2 ^ 52)%Z ->
  Permutation (leaf_list t) (pairsR row d) ->
  dyR c = evalf t ->
  coef_row_ok (zlen d) c (dy_dot row (map dy_of_Z d))
              (dy_dot (map dy_abs row) (map (fun x => dy_of_Z (Z.abs x)) d)) = true.
Proof.
  intros Hlen Hne Hbig Hperm Hc.
  assert (Hn : (0 < zlen d < 2 ^ 53)%Z) by (unfold zlen in *; lia).
  apply (coef_row_ok_R _ _ _ _ Hn).
  rewrite dy_dot_R, dy_magdot_R, Hc.
  rewrite <- (Rdot_perm _ _ Hperm), <- (Rmagdot_perm _ _ Hperm).
  rewrite <- exact_leaf_list, <- mag_leaf_list.
  assert (Hleaves : INR (leaves t) = IZR (zlen d)).
  { rewrite leaves_leaf_list, (Permutation_length Hperm). unfold pairsR. rewrite map_length, combine_length.
    rewrite Hlen, Nat.min_id. unfold zlen. rewrite INR_IZR_INZ. reflexivity. }
  pose proof (tree_bound_gamma t) as H. cbv zeta in H. rewrite Hleaves in H. apply H.
  (* n u <= 1/2 *)
  unfold uR. apply Rmult_le_reg_r with (bpow radix2 53); [apply bpow_gt_0|].
  rewrite Rmult_assoc, <- bpow_plus. change (bpow radix2 (-53 + 53)) with 1. rewrite Rmult_1_r.
  change (/ 2 * bpow radix2 53) with (bpow radix2 (-1) * bpow radix2 53). rewrite <- bpow_plus.
  change (bpow radix2 (-1 + 53)) with (IZR (2 ^ 52)). apply IZR_le. lia.
Qed.

(* The coefficient half of the projection part, at the level of the checker: if every reported
   coefficient is SOME summation-tree evaluation of its projector row with the record, chk_coefs accepts. *)
Definition coefficients_meet_definitions : Prop :=
  forall (P : list (list dy)) (d : list Z) (c : list dy),
    (1 <= length d)%nat -> (zlen d < 2 ^ 52)%Z ->
    Forall2 (fun row ci => length row = length d /\
                           exists t, Permutation (leaf_list t) (pairsR row d) /\ dyR ci = evalf t) P c ->
    chk_coefs (zlen d) P d c = true.

Lemma coefficients_meet_all : coefficients_meet_definitions.
Proof.
  intros P d c Hne Hbig Hall. unfold chk_coefs.
  assert (Hlen : length P = length c) by (induction Hall; cbn [length]; congruence).
  apply andb_true_intro. split.
  - unfold zlen. rewrite Hlen. apply Z.eqb_refl.
  - induction Hall as [|row ci P' c' [Hrow (t & Hperm & Hc)] _ IH]; cbn [combine forallb]; auto.
    apply andb_true_intro. split.
    + cbn [fst snd]. apply (coef_check_accepts_any_tree row d t ci); auto.
    + apply IH. cbn [length] in Hlen. lia.
Qed.
