(* C13 — the property as a boolean checker over OBSERVABLES only: the record handed to AnalyzeData
   (raw 16-bit words, signed flag, presamples), the projector/basis matrices handed to
   ConfigureProjectorsBases (float64 entries, read exactly as dyadic rationals), and what came back
   (the five float64 scalars, the model coefficients, the residual std deviation, whether the matrices
   were accepted).  Nothing here calls the float model of ModelFloat.v (only its record type is
   shared); the reference values are the exact definitions of Model.v.

   "Equal to floating-point accuracy" is made precise as follows (u = 2^-53, eta = 2^-1074,
   gamma k = k u / (1 - k u), m1 = S1/N, m2 = S2/N):
     ptm    |ptm - mu| <= u |mu|                                     (one rounding)
     delta  |delta - delta_def| <= (2u + u^2) |delta_def|            (two roundings)
     avg    |avg - avg_def| <= u (1+u) (|m1| + |mu|) + u |avg_def|   (division, reused ptm, subtraction)
     peak   |peak - peak_def| <= u (1+u) |mu| + u |peak_def|
     rms    rms finite, >= 0, and some m with rms = RN(sqrt m) has |m - ms_def| <= 6u (m2 + 2|mu||m1| + mu^2)
            (a NaN — the mean square came out negative — is NOT accepted)
     coef_i |c_i - sum_j P_ij d_j| <= gamma n * sum_j |P_ij||d_j| + n eta        (any summation order)
     resid  |s - sqrt(var (d - B c))| <= E, E built from the same kind of bounds (see resid_tol);
            c are the coefficients as REPORTED (observable), so the two checks are independent.
   Outside the property's domain (p < 3, n < p+1, words outside 0..65535, non-finite matrix entries)
   the checker accepts everything. *)
From Coq Require Import ZArith QArith Qabs List Floats.
From Dastard Require Import Common.ZX C13.Model C13.ModelFloat.
Import ListNotations.
Open Scope Z_scope.

Record input := {
  i_signed : bool;
  i_pre : Z;
  i_data : list Z;                                             (* raw words 0..65535 *)
  i_proj : option (list (list float) * list (list float))      (* projectors k x n (rows), basis n x k (rows) *)
}.

Record obs := { o_s : scalars; o_coefs : list float; o_resid : float }.
Inductive outcome := OPanic | OVals (o : obs).

(* ---- float64 -> exact dyadic ---- *)
Definition dy_of_float (f : float) : option dy :=
  match Prim2SF f with
  | S754_zero _ => Some (0, 0)
  | S754_finite s m e => Some (if s then Z.neg m else Z.pos m, e)
  | _ => None
  end.
Definition Q_of_float (f : float) : option Q := option_map dy2Q (dy_of_float f).

Fixpoint all_some {A} (l : list (option A)) : option (list A) :=
  match l with
  | [] => Some []
  | None :: _ => None
  | Some x :: r => match all_some r with Some r' => Some (x :: r') | None => None end
  end.
Definition dy_matrix (M : list (list float)) : option (list (list dy)) :=
  all_some (map (fun row => all_some (map dy_of_float row)) M).

(* ---- tolerances ---- *)
Definition uQ : Q := 1 # (2 ^ 53).
Definition etaQ : Q := 1 # (2 ^ 1074).
Definition gammaQ (k : Z) : Q := (QZ k * uQ / (1 - QZ k * uQ))%Q.
Definition Qle_b := Qle_bool.
Definition within (x ref tol : Q) : bool := Qle_b (Qabs (x - ref)) tol.

Definition words_ok (raw : list Z) : bool := forallb (fun v => (0 <=? v) && (v <? 65536)) raw.
Definition in_domain (i : input) : bool :=
  (3 <=? i_pre i) && (i_pre i + 1 <=? zlen (i_data i)) && words_ok (i_data i).

(* ---- the five scalars ---- *)
Definition chk_ptm (ds : list Z) (p : Z) (f : float) : bool :=
  match Q_of_float f with
  | None => false
  | Some q => within q (mu_x ds p) (uQ * Qabs (mu_x ds p))
  end.
Definition chk_delta (ds : list Z) (p : Z) (f : float) : bool :=
  match Q_of_float f with
  | None => false
  | Some q => within q (delta_x ds p) ((2 * uQ + uQ * uQ) * Qabs (delta_x ds p))
  end.
Definition chk_avg (ds : list Z) (p : Z) (f : float) : bool :=
  match Q_of_float f with
  | None => false
  | Some q => within q (avg_x ds p)
                (uQ * (1 + uQ) * (Qabs (m1_x ds p) + Qabs (mu_x ds p)) + uQ * Qabs (avg_x ds p))
  end.
Definition chk_peak (ds : list Z) (p : Z) (f : float) : bool :=
  match Q_of_float f with
  | None => false
  | Some q => within q (peak_x ds p) (uQ * (1 + uQ) * Qabs (mu_x ds p) + uQ * Qabs (peak_x ds p))
  end.
Definition ms_tol (ds : list Z) (p : Z) : Q :=
  (6 * uQ * (m2_x ds p + 2 * Qabs (mu_x ds p) * Qabs (m1_x ds p) + mu_x ds p * mu_x ds p))%Q.
Definition chk_rms (ds : list Z) (p : Z) (f : float) : bool :=
  match Q_of_float f with
  | None => false
  | Some r =>
      let ms := ms_x ds p in
      let E := ms_tol ds p in
      Qle_b 0 r
      && Qle_b (r * r / ((1 + uQ) * (1 + uQ)) - E) ms
      && Qle_b ms (r * r / ((1 - uQ) * (1 - uQ)) + E)
  end.

Definition check_scalars (ds : list Z) (p : Z) (s : scalars) : bool :=
  chk_ptm ds p (s_ptm s) && chk_delta ds p (s_delta s) && chk_avg ds p (s_avg s)
  && chk_rms ds p (s_rms s) && chk_peak ds p (s_peak s).

(* ---- projection ---- *)
Definition shapes_ok (n : Z) (P B : list (list float)) : bool :=
  let k := zlen P in
  forallb (fun row => zlen row =? n) P && (zlen B =? n) && forallb (fun row => zlen row =? k) B.

(* dyadic helpers: all per-entry work is done on dyadic numbers (integers and shifts); Q only at the end *)
Definition dy_le (a b : dy) : bool := 0 <=? fst (dy_sub b a).
Definition dy_max (a b : dy) : dy := if dy_le a b then b else a.
Definition dy_u : dy := (1, -53).                       (* u *)
Definition dy_ku (k : Z) : dy := (k, -53).              (* k u *)
Definition dy_1mku (k : Z) : dy := (2 ^ 53 - k, -53).   (* 1 - k u *)
Definition dy_keta (k : Z) : dy := (k, -1074).          (* k eta *)

(* |c - exact| <= gamma n * mag + n eta, multiplied through by (1 - n u) > 0 so that it stays dyadic:
   |c - exact| (1 - n u) <= n u mag + n eta (1 - n u) *)
Definition coef_row_ok (n : Z) (c exact mag : dy) : bool :=
  dy_le (dy_mul (dy_abs (dy_sub c exact)) (dy_1mku n))
        (dy_add (dy_mul (dy_ku n) mag) (dy_mul (dy_keta n) (dy_1mku n))).

Definition chk_coefs (n : Z) (P : list (list dy)) (d : list Z) (c : list dy) : bool :=
  (zlen c =? zlen P) &&
  forallb (fun rc =>
     let exact := dy_dot (fst rc) (map dy_of_Z d) in
     let mag := dy_dot (map dy_abs (fst rc)) (map (fun x => dy_of_Z (Z.abs x)) d) in
     coef_row_ok n (snd rc) exact mag)
   (combine P c).

(* bound E on |s_obs - sigma| (derivation in design.d/C13.md), with gamma k = k u / (1 - k u):
     a_i  = gamma k * sum_j |B_ij||c_j| + k eta              error of (B c)_i, any order
     e_i  = a_i + u (|r_i| + a_i)                            plus the rounding of d_i - (B c)_i
     e    = max e_i ;  dm = gamma n * (mean |r_i| + e)       error of the float mean
     g    = gamma (n+4) ;  A = (e + dm)(1 + g)
     E    = A + g (s_obs + A) / (1 - g) + 2^-500
   E is increasing in every ingredient, so it is evaluated in dyadic arithmetic with every division
   replaced by a dyadic UPPER bound (1/(1-x) <= 1+2x for x <= 1/2; 1/n <= (floor(2^64/n)+1) 2^-64) and
   mantissas cut to 64 bits rounding UP (dy_up): the E used is >= the E above, by a relative 2^-50. *)
Definition dy_up (a : dy) : dy :=
  let '(m, e) := a in
  if m <=? 0 then a else
  let b := Z.log2 m in
  if b <? 64 then a else (Z.shiftr m (b - 63) + 1, e + (b - 63)).
Definition dy_mulu (a b : dy) : dy := dy_up (dy_mul a b).
Definition dy_one : dy := (1, 0).
Definition dy_gamma_up (k : Z) : dy := dy_mulu (dy_ku k) (2 ^ 53 + 2 * k, -53).   (* k u (1 + 2 k u) >= gamma k *)
Definition dy_rcp_up (n : Z) : dy := (2 ^ 64 / n + 1, -64).                       (* >= 1/n *)

(* e_i (1 - k u) without its constant part k eta (1 - k u)(1 + u):  k u mag_i (1 + u) + u (1 - k u) |r_i| *)
Definition resid_err_row (k : Z) (mag r : dy) : dy :=
  dy_add (dy_mul (dy_mul (dy_ku k) mag) (2 ^ 53 + 1, -53)) (dy_mul (dy_mul dy_u (dy_1mku k)) (dy_abs r)).
Definition resid_tol (n k : Z) (B : list (list dy)) (c : list dy) (r : list dy) (sobs : dy) : dy :=
  let cabs := map dy_abs c in
  let e1 := fold_right dy_max (0, 0)
              (map (fun br => resid_err_row k (dy_dot (map dy_abs (fst br)) cabs) (snd br)) (combine B r)) in
  let e' := dy_add (dy_up e1) (dy_mul (dy_mul (dy_keta k) (dy_1mku k)) (2 ^ 53 + 1, -53)) in
  let e := dy_mulu (dy_up e') (2 ^ 53 + 2 * k, -53) in                       (* / (1 - k u) *)
  let meanabs := dy_mulu (dy_up (dy_sum (map dy_abs r))) (dy_rcp_up n) in
  let dm := dy_mulu (dy_gamma_up n) (dy_up (dy_add meanabs e)) in
  let g := dy_gamma_up (n + 4) in
  let A := dy_mulu (dy_up (dy_add e dm)) (dy_add dy_one g) in
  dy_up (dy_add (dy_add A (dy_mulu (dy_mulu g (dy_up (dy_add sobs A))) (dy_add dy_one (dy_scale 2 g))))
                (1, -500)).

(* |s_obs - sigma| <= E  <=>  (s_obs - E)^2 <= var <= (s_obs + E)^2  (left part only when s_obs > E);
   var = V / n^3 with V = sum (n r_i - sum r)^2 *)
Definition chk_resid (n : Z) (B : list (list dy)) (d : list Z) (c : list dy) (sobs : dy) : bool :=
  let r := resid_x B c d in
  let E := resid_tol n (zlen c) B c r sobs in
  let V := var_num_x r in
  let n3 := dy_of_Z (n * n * n) in
  let lo := dy_sub sobs E in
  let hi := dy_add sobs E in
  (0 <=? fst sobs) && (n <? 2 ^ 26)
  && (if fst lo <=? 0 then true else dy_le (dy_mul (dy_mul lo lo) n3) V)
  && dy_le V (dy_mul (dy_mul hi hi) n3).

Definition check_proj (ds : list Z) (P B : list (list float)) (o : obs) : bool :=
  match dy_matrix P, dy_matrix B with
  | Some Pd, Some Bd =>
      match all_some (map dy_of_float (o_coefs o)), dy_of_float (o_resid o) with
      | Some c, Some s => chk_coefs (zlen ds) Pd ds c && chk_resid (zlen ds) Bd ds c s
      | _, _ => false
      end
  | _, _ => true                         (* non-finite matrix entries: outside the domain *)
  end.

Definition C13_check (i : input) (accepted : bool) (o : outcome) : bool :=
  if negb (in_domain i) then true else
  match o with
  | OPanic => false
  | OVals ob =>
      let ds := map (interp (i_signed i)) (i_data i) in
      check_scalars ds (i_pre i) (o_s ob) &&
      match i_proj i with
      | None => negb accepted && (zlen (o_coefs ob) =? 0)
      | Some (P, B) =>
          let ok := (1 <=? zlen P) && shapes_ok (zlen ds) P B in
          Bool.eqb accepted ok &&
          (if ok then check_proj ds P B ob else zlen (o_coefs ob) =? 0)
      end
  end.

(* ---- the full statement of the scalar part, as a Prop (proved: Properties.v scalars_meet_definitions_all) ---- *)
Definition scalars_meet_definitions : Prop :=
  forall signed p raw,
    words_ok raw = true -> 2 <= p -> p + 1 <= zlen raw ->
    p * p * 2 ^ 17 < 2 ^ 53 -> (zlen raw - p) * 2 ^ 32 < 2 ^ 53 ->
    exists s, analyze signed p raw = Ok s /\ check_scalars (map (interp signed) raw) p s = true.

(* ---- the projection part.  Its coefficient half is stated as a Prop in Dyadic.v
   (coefficients_meet_definitions: if every reported coefficient is SOME summation-tree evaluation, in
   binary64 with one rounding per product and per addition, of its projector row with the record, then
   chk_coefs accepts) and proved (Properties.v coefficients_meet_definitions_all); the dyadic references
   are the definitions of Model.v (dyadic_references_are_definitions).  The residual half is proved at
   the real-number level (Properties.v residual_stddev_any_tree: dastard's two-pass stdDev of d - B c,
   B c by any summation trees, is within E of the exact standard deviation, with the same structure as
   resid_tol); that the dyadic over-approximation resid_tol dominates that E, so that chk_resid
   accepts, is NOT proved.  That gonum's kernels are summation trees of this kind is validated by the
   correspondence runs only. *)
