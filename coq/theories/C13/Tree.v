(* C13 — projection_tree_bound: a dot product evaluated in binary64 with every product rounded once
   and the products added in ANY order (any binary summation tree, every addition rounded once) differs
   from the exact value by at most  gamma_n * sum |a_i b_i| + n * eta,  n = number of products,
   gamma_n = n u / (1 - n u), u = 2^-53, eta = 2^-1074 (the term for products that underflow). *)
From Coq Require Import ZArith Reals Lia Lra Psatz.
From Flocq Require Import Core Relative Plus_error.
From Dastard Require Import C13.FloatKit C13.Bridge C13.Meets C13.Rms.
Open Scope R_scope.

Inductive tree : Type :=
| Leaf (a b : R)            (* the rounded product a*b *)
| Node (l r : tree).        (* the rounded sum of two sub-results *)

Fixpoint exact (t : tree) : R :=
  match t with Leaf a b => a * b | Node l r => exact l + exact r end.
Fixpoint mag (t : tree) : R :=
  match t with Leaf a b => Rabs (a * b) | Node l r => mag l + mag r end.
Fixpoint leaves (t : tree) : nat :=
  match t with Leaf _ _ => 1%nat | Node l r => (leaves l + leaves r)%nat end.
Fixpoint depth (t : tree) : nat :=
  match t with Leaf _ _ => 1%nat | Node l r => S (Nat.max (depth l) (depth r)) end.
(* the value computed in floating point *)
Fixpoint evalf (t : tree) : R :=
  match t with Leaf a b => RN (a * b) | Node l r => RN (evalf l + evalf r) end.

Definition etaR : R := bpow radix2 (-1074).

Lemma mag_nonneg t : 0 <= mag t.
Proof. induction t; cbn [mag]; [apply Rabs_pos | lra]. Qed.

Lemma exact_le_mag t : Rabs (exact t) <= mag t.
Proof.
  induction t; cbn [exact mag]; [lra|]. eapply Rle_trans; [apply Rabs_triang|]. lra.
Qed.

Lemma Fmt_evalf t : Fmt (evalf t).
Proof. destruct t; cbn [evalf]; apply Fmt_RN. Qed.

(* one rounded product: relative error u plus at most eta/2 when it underflows *)
Lemma RN_mult_err x : Rabs (RN x - x) <= uR * Rabs x + etaR / 2.
Proof.
  unfold RN. rewrite fx_FLT.
  destruct (relative_error_N_FLT'_ex radix2 (-1074) 53 ltac:(reflexivity) (fun x => negb (Z.even x)) x)
    as (eps & eta & Heps & Heta & _ & Hr).
  rewrite Hr.
  replace (x * (1 + eps) + eta - x) with (x * eps + eta) by ring.
  eapply Rle_trans; [apply Rabs_triang|].
  apply Rplus_le_compat.
  - rewrite Rabs_mult, Rmult_comm. apply Rmult_le_compat_r; [apply Rabs_pos|].
    eapply Rle_trans; [exact Heps|].
    unfold u_ro. change (/ 2 * bpow radix2 (- (53) + 1)) with (/ 2 * bpow radix2 (-52)).
    assert (Hu : / 2 * bpow radix2 (-52) = uR).
    { unfold uR. change (-53)%Z with (-1 + -52)%Z. rewrite bpow_plus. reflexivity. }
    rewrite Hu. pose proof uR_small.
    apply Rmult_le_reg_r with (1 + uR); [lra|]. unfold Rdiv. rewrite Rmult_assoc, Rinv_l by lra. nra.
  - unfold etaR. unfold Rdiv. rewrite Rmult_comm. exact Heta.
Qed.

Definition pw (k : nat) : R := (1 + uR) ^ k.

Lemma pw_ge1 k : 1 <= pw k.
Proof. apply pow1u_ge1. Qed.
Lemma pw_mono j k : (j <= k)%nat -> pw j <= pw k.
Proof. intros H. apply Rle_pow; auto. pose proof uR_small. lra. Qed.

Lemma tree_bound_depth t :
  Rabs (evalf t - exact t) <= (pw (depth t) - 1) * mag t + INR (leaves t) * (etaR / 2) * pw (depth t - 1).
Proof.
  pose proof uR_small as Hu.
  assert (Heta : 0 <= etaR / 2) by (unfold etaR; pose proof (bpow_gt_0 radix2 (-1074)); lra).
  induction t as [a b|l IHl r IHr].
  - cbn [evalf exact mag leaves depth]. unfold pw. simpl. pose proof (RN_mult_err (a * b)). lra.
  - cbn [evalf exact mag leaves depth].
    set (dm := Nat.max (depth l) (depth r)) in *.
    assert (Hdl : (depth l <= dm)%nat) by (unfold dm; lia).
    assert (Hdr : (depth r <= dm)%nat) by (unfold dm; lia).
    assert (Hdm : (1 <= dm)%nat) by (destruct l; cbn [depth] in Hdl; lia).
    destruct (RN_rel_plus _ _ (Fmt_evalf l) (Fmt_evalf r)) as (d & Hd & Hs).
    rewrite Hs. apply Rabs_le_inv in Hd.
    set (vl := evalf l) in *. set (vr := evalf r) in *.
    set (Dl := Rabs (vl - exact l)) in *. set (Dr := Rabs (vr - exact r)) in *.
    pose proof (mag_nonneg l) as Ml. pose proof (mag_nonneg r) as Mr.
    pose proof (exact_le_mag l) as El. pose proof (exact_le_mag r) as Er.
    pose proof (pw_ge1 (depth l)). pose proof (pw_ge1 (depth r)). pose proof (pw_ge1 dm).
    pose proof (pw_ge1 (depth l - 1)). pose proof (pw_ge1 (depth r - 1)). pose proof (pw_ge1 (dm - 1)).
    pose proof (pw_mono _ _ Hdl). pose proof (pw_mono _ _ Hdr).
    assert (pw (depth l - 1) <= pw (dm - 1)) by (apply pw_mono; lia).
    assert (pw (depth r - 1) <= pw (dm - 1)) by (apply pw_mono; lia).
    pose proof (pos_INR (leaves l)) as Nl. pose proof (pos_INR (leaves r)) as Nr.
    (* weaken both induction hypotheses to the common depth dm *)
    assert (IHl' : Dl <= (pw dm - 1) * mag l + INR (leaves l) * (etaR / 2) * pw (dm - 1)).
    { eapply Rle_trans; [exact IHl|]. apply Rplus_le_compat.
      - apply Rmult_le_compat_r; [auto | lra].
      - apply Rmult_le_compat_l; [apply Rmult_le_pos; auto | auto]. }
    assert (IHr' : Dr <= (pw dm - 1) * mag r + INR (leaves r) * (etaR / 2) * pw (dm - 1)).
    { eapply Rle_trans; [exact IHr|]. apply Rplus_le_compat.
      - apply Rmult_le_compat_r; [auto | lra].
      - apply Rmult_le_compat_l; [apply Rmult_le_pos; auto | auto]. }
    replace ((vl + vr) * (1 + d) - (exact l + exact r))
      with ((vl - exact l) + (vr - exact r) + d * (vl + vr)) by ring.
    assert (Hsum : Rabs (vl + vr) <= mag l + mag r + Dl + Dr).
    { replace (vl + vr) with ((vl - exact l) + (vr - exact r) + (exact l + exact r)) by ring.
      eapply Rle_trans; [apply Rabs_triang|]. eapply Rle_trans; [apply Rplus_le_compat_r; apply Rabs_triang|].
      fold Dl Dr. pose proof (Rabs_triang (exact l) (exact r)). lra. }
    assert (Hd' : Rabs (d * (vl + vr)) <= uR * (mag l + mag r + Dl + Dr)).
    { rewrite Rabs_mult. apply Rmult_le_compat; auto using Rabs_pos. apply Rabs_le; lra. }
    eapply Rle_trans; [apply Rabs_triang|]. eapply Rle_trans; [apply Rplus_le_compat_r; apply Rabs_triang|].
    fold Dl Dr.
    assert (Hpw : pw (S dm) = pw dm * (1 + uR)) by (unfold pw; simpl; ring).
    assert (Hpw1 : pw (S dm - 1) = pw (dm - 1) * (1 + uR)).
    { replace (S dm - 1)%nat with (S (dm - 1)) by lia. unfold pw. simpl. ring. }
    rewrite Hpw, Hpw1. rewrite plus_INR.
    assert (0 <= Dl) by apply Rabs_pos. assert (0 <= Dr) by apply Rabs_pos.
    nra.
Qed.

Lemma leaves_ge1 t : (1 <= leaves t)%nat.
Proof. induction t; cbn [leaves]; lia. Qed.

Lemma depth_le_leaves t : (depth t <= leaves t)%nat.
Proof.
  induction t; cbn [depth leaves]; [lia|].
  pose proof (leaves_ge1 t1). pose proof (leaves_ge1 t2). lia.
Qed.

(* (1+u)^n (1 - n u) <= 1 *)
Lemma pw_gamma n : pw n * (1 - INR n * uR) <= 1.
Proof.
  pose proof uR_small as Hu.
  induction n as [|n IH].
  - unfold pw. simpl. lra.
  - assert (Hp : pw (S n) = pw n * (1 + uR)) by (unfold pw; simpl; ring).
    rewrite Hp, S_INR. pose proof (pw_ge1 n). pose proof (pos_INR n).
    assert ((1 + uR) * (1 - (INR n + 1) * uR) <= 1 - INR n * uR) by nra.
    nra.
Qed.

Lemma tree_bound_gamma t :
  let n := INR (leaves t) in
  n * uR <= / 2 ->
  Rabs (evalf t - exact t) <= n * uR / (1 - n * uR) * mag t + n * etaR.
Proof.
  cbv zeta. intros Hn.
  pose proof uR_small as Hu.
  set (n := INR (leaves t)) in *.
  assert (Hn0 : 0 <= n) by apply pos_INR.
  pose proof (tree_bound_depth t) as H.
  pose proof (depth_le_leaves t) as Hd.
  pose proof (mag_nonneg t) as Hm.
  assert (Heta : 0 < etaR) by apply bpow_gt_0.
  assert (H1 : pw (depth t) <= pw (leaves t)) by (apply pw_mono; auto).
  assert (H2 : pw (depth t - 1) <= pw (leaves t)) by (apply pw_mono; lia).
  pose proof (pw_gamma (leaves t)) as H3. fold n in H3.
  pose proof (pw_ge1 (leaves t)) as H4. pose proof (pw_ge1 (depth t)) as H5. pose proof (pw_ge1 (depth t - 1)) as H6.
  assert (Hden : 0 < 1 - n * uR) by lra.
  assert (H7 : pw (leaves t) <= / (1 - n * uR)).
  { apply Rmult_le_reg_r with (1 - n * uR); auto. rewrite Rinv_l by lra. exact H3. }
  assert (H8 : / (1 - n * uR) <= 2).
  { rewrite <- (Rinv_inv 2). apply Rinv_le_contravar; lra. }
  assert (H9 : pw (depth t) - 1 <= n * uR / (1 - n * uR)).
  { replace (n * uR / (1 - n * uR)) with (/ (1 - n * uR) - 1) by (field; lra). lra. }
  eapply Rle_trans; [exact H|].
  apply Rplus_le_compat.
  - apply Rmult_le_compat_r; auto.
  - assert (n * (etaR / 2) * pw (depth t - 1) <= n * (etaR / 2) * 2).
    { apply Rmult_le_compat_l; [nra | lra]. }
    fold n. lra.
Qed.

Lemma tree_example :
  let t := Node (Leaf 3 (/ 7)) (Node (Leaf (-5) 11) (Leaf (bpow radix2 (-40)) 65535)) in
  INR (leaves t) * bpow radix2 (-53) <= / 2.
Proof.
  cbv zeta. cbn [leaves]. simpl INR.
  assert (bpow radix2 (-53) <= / 100) by apply uR_tiny. lra.
Qed.
