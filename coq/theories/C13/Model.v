(* C13 (a) — the mathematical definitions of the per-record analysis values, in exact arithmetic.
   Definitions only.  Two layers:
     * textbook definitions over Q on lists (mu, ls_slope, delta_def, avg_def, ms_def, peak_def,
       coef_def, resid_var_def) — what the property text means;
     * closed forms that the checker evaluates (integer sums, one division at the end; dyadic numbers
       m*2^e for everything that involves matrix entries) — proved equal (Qeq) to the textbook
       definitions in Proofs.v.
   d_i are the samples as integers (signed or unsigned reading of the 16-bit word), p = presamples,
   n = record length, N = n - p. *)
From Coq Require Import ZArith QArith List.
From Dastard Require Import Common.ZX.
Import ListNotations.
Open Scope Z_scope.

(* int16(v) for a uint16 v, or v itself *)
Definition interp (signed : bool) (v : Z) : Z :=
  if signed then (if v <? 32768 then v else v - 65536) else v.

Definition Zsum (l : list Z) : Z := fold_right Z.add 0 l.
Definition Qsum (l : list Q) : Q := fold_right Qplus 0%Q l.
Definition QZ : Z -> Q := inject_Z.
Definition Zmaxl (l : list Z) : Z := match l with [] => 0 | x :: r => fold_right Z.max x r end.
Definition Qsq (x : Q) : Q := (x * x)%Q.
Definition Qmax (a b : Q) : Q := if Qle_bool a b then b else a.

(* ------------------------------------------------------------------ textbook definitions *)
Section Textbook.
  Variable ds : list Z.      (* the whole record *)
  Variable p : Z.            (* presamples *)

  Definition pre : list Z := zfirstn p ds.
  Definition post : list Z := zskipn p ds.
  Definition NN : Z := zlen post.

  (* pre-trigger mean *)
  Definition mu : Q := (Qsum (map QZ pre) / QZ p)%Q.

  (* least-squares slope of the points (i, d_i), i = 0..p-1 *)
  Definition xbar : Q := ((QZ p - 1) / 2)%Q.
  Definition ls_slope : Q :=
    (Qsum (map (fun id => (QZ (fst id) - xbar) * (QZ (snd id) - mu)) (combine (zrange 0 p) pre))
     / Qsum (map (fun i => Qsq (QZ i - xbar)) (zrange 0 p)))%Q.
  (* pre-trigger delta: slope times the pre-trigger span p-1 *)
  Definition delta_span : Q := (ls_slope * (QZ p - 1))%Q.
  (* the formula of the DESIGN / the code: 12 * sum (d_i-d_0)(i-(p-1)/2) / (p(p+1)) *)
  Definition dfirst : Z := hd 0 ds.
  Definition delta_def : Q :=
    (12 * Qsum (map (fun id => (QZ (snd id) - QZ dfirst) * (QZ (fst id) - xbar)) (combine (zrange 0 p) pre))
     / (QZ p * (QZ p + 1)))%Q.

  Definition avg_def : Q := (Qsum (map QZ post) / QZ NN - mu)%Q.
  (* mean square deviation from the pre-trigger mean; pulse RMS is its square root *)
  Definition ms_def : Q := (Qsum (map (fun d => Qsq (QZ d - mu)) post) / QZ NN)%Q.
  (* the code starts its maximum at mu: a record never above its baseline has peak 0 *)
  Definition peak_def : Q := (Qmax mu (QZ (Zmaxl post)) - mu)%Q.
End Textbook.

(* projection: P is k x n, d has n entries *)
Definition Qdot (a b : list Q) : Q := Qsum (map (fun xy => (fst xy * snd xy)%Q) (combine a b)).
Definition coef_def (P : list (list Q)) (d : list Q) : list Q := map (fun row => Qdot row d) P.
(* residual r = d - B c  (B is n x k), population variance of r; the residual std deviation is its root *)
Definition resid_def (B : list (list Q)) (c d : list Q) : list Q :=
  map (fun bd => (snd bd - Qdot (fst bd) c)%Q) (combine B d).
Definition var_def (r : list Q) : Q :=
  let n := QZ (zlen r) in
  let m := (Qsum r / n)%Q in
  (Qsum (map (fun x => Qsq (x - m)) r) / n)%Q.

(* ------------------------------------------------------------------ closed forms over Z *)
Section Closed.
  Variable ds : list Z.
  Variable p : Z.
  Definition S0 : Z := Zsum (pre ds p).
  (* twice the slope accumulator: sum (d_i - d_0) (2i - (p-1)) *)
  Definition V2 : Z :=
    Zsum (map (fun id => (snd id - hd 0 ds) * (2 * fst id - (p - 1))) (combine (zrange 0 p) (pre ds p))).
  Definition S1 : Z := Zsum (post ds p).
  Definition S2 : Z := Zsum (map (fun d => d * d) (post ds p)).
  Definition MX : Z := Zmaxl (post ds p).

  Definition mu_x : Q := (QZ S0 / QZ p)%Q.
  Definition delta_x : Q := (QZ (6 * V2) / QZ (p * (p + 1)))%Q.
  Definition m1_x : Q := (QZ S1 / QZ (NN ds p))%Q.
  Definition m2_x : Q := (QZ S2 / QZ (NN ds p))%Q.
  Definition avg_x : Q := (m1_x - mu_x)%Q.
  (* the code's expansion, in exact arithmetic *)
  Definition ms_x : Q := (m2_x - 2 * mu_x * m1_x + mu_x * mu_x)%Q.
  Definition peak_x : Q := if S0 <? MX * p then (QZ MX - mu_x)%Q else 0%Q.
End Closed.

(* ------------------------------------------------------------------ dyadic numbers m * 2^e *)
Definition dy : Type := (Z * Z)%type.
Definition dy_of_Z (z : Z) : dy := (z, 0).
Definition dy_add (a b : dy) : dy :=
  let '(m1, e1) := a in let '(m2, e2) := b in
  if e1 <=? e2 then (m1 + Z.shiftl m2 (e2 - e1), e1) else (Z.shiftl m1 (e1 - e2) + m2, e2).
Definition dy_opp (a : dy) : dy := (- fst a, snd a).
Definition dy_sub (a b : dy) : dy := dy_add a (dy_opp b).
Definition dy_mul (a b : dy) : dy := (fst a * fst b, snd a + snd b).
Definition dy_abs (a : dy) : dy := (Z.abs (fst a), snd a).
Definition dy_scale (k : Z) (a : dy) : dy := (k * fst a, snd a).
Definition dy_sum (l : list dy) : dy := fold_right dy_add (0, 0) l.
Definition dy_dot (a b : list dy) : dy := dy_sum (map (fun xy => dy_mul (fst xy) (snd xy)) (combine a b)).
Definition dy2Q (a : dy) : Q :=
  let '(m, e) := a in
  if 0 <=? e then QZ (Z.shiftl m e) else Qmake m (Z.to_pos (Z.shiftl 1 (- e))).

(* closed forms of the projection quantities: everything dyadic, one division by n^3 at the end *)
Definition coef_x (P : list (list dy)) (d : list Z) : list dy :=
  map (fun row => dy_dot row (map dy_of_Z d)) P.
Definition resid_x (B : list (list dy)) (c : list dy) (d : list Z) : list dy :=
  map (fun bd => dy_sub (dy_of_Z (snd bd)) (dy_dot (fst bd) c)) (combine B d).
(* n^3 * variance = sum (n r_i - sum r)^2 *)
Definition var_num_x (r : list dy) : dy :=
  let n := zlen r in
  let s := dy_sum r in
  dy_sum (map (fun x => let t := dy_sub (dy_scale n x) s in dy_mul t t) r).
Definition var_x (r : list dy) : Q := (dy2Q (var_num_x r) / QZ (zlen r * zlen r * zlen r))%Q.
