(* C13 — evaluation of generated cases: float model vs observed implementation output (bit for bit on
   the five scalars and on the accept/reject of the matrices), and the checker against the exact
   definitions. *)
From Coq Require Import ZArith List Floats.
From Dastard Require Import Common.ZX Common.CaseLib C13.Model C13.ModelFloat C13.Spec.
Import ListNotations.
Open Scope Z_scope.

Record case := { c_in : input; c_accepted : bool; c_out : outcome }.

(* bit-for-bit equality of float64 values (one NaN: Go's NaN payloads are not distinguished) *)
Definition sf_eqb (a b : float) : bool :=
  match Prim2SF a, Prim2SF b with
  | S754_zero s, S754_zero t => Bool.eqb s t
  | S754_infinity s, S754_infinity t => Bool.eqb s t
  | S754_nan, S754_nan => true
  | S754_finite s m e, S754_finite t m' e' => Bool.eqb s t && Pos.eqb m m' && (e =? e')
  | _, _ => false
  end.

(* index of the first differing observable: 0 ptm, 1 delta, 2 avg, 3 rms, 4 peak, 5 panic/no panic,
   6 matrices accepted/rejected; -1 none *)
Definition first_diff (i : input) (acc : bool) (o : outcome) : Z :=
  let n := zlen (i_data i) in
  let macc := match i_proj i with
              | None => false
              | Some (P, B) =>
                  (* the harness builds mat.Dense from equal-length rows: rows x len(first row) *)
                  set_projectors_ok n (zlen P) (zlen (hd [] P)) (zlen B) (zlen (hd [] B))
              end in
  match analyze (i_signed i) (i_pre i) (i_data i), o with
  | Panic, OPanic => -1
  | Ok m, OVals ob =>
      let s := o_s ob in
      if negb (sf_eqb (s_ptm m) (s_ptm s)) then 0
      else if negb (sf_eqb (s_delta m) (s_delta s)) then 1
      else if negb (sf_eqb (s_avg m) (s_avg s)) then 2
      else if negb (sf_eqb (s_rms m) (s_rms s)) then 3
      else if negb (sf_eqb (s_peak m) (s_peak s)) then 4
      else if negb (Bool.eqb macc acc) then 6
      else -1
  | _, _ => 5
  end.

Definition verdict (c : case) : Z * Z :=
  let d := first_diff (c_in c) (c_accepted c) (c_out c) in
  (verdict_code (d =? -1) (C13_check (c_in c) (c_accepted c) (c_out c)), d).

(* compact constructors for generated files *)
Definition mkS (ptm delta avg rms peak : float) : scalars :=
  {| s_ptm := ptm; s_delta := delta; s_avg := avg; s_rms := rms; s_peak := peak |}.
(* no projectors *)
Definition K0 (signed : bool) (p : Z) (d : list Z) (ptm delta avg rms peak : float) : case :=
  {| c_in := {| i_signed := signed; i_pre := p; i_data := d; i_proj := None |};
     c_accepted := false;
     c_out := OVals {| o_s := mkS ptm delta avg rms peak; o_coefs := []; o_resid := 0%float |} |}.
(* projectors P (rows), basis B (rows), accepted?, coefficients, residual *)
Definition KP (signed : bool) (p : Z) (d : list Z) (P B : list (list float)) (acc : bool)
              (ptm delta avg rms peak : float) (coefs : list float) (resid : float) : case :=
  {| c_in := {| i_signed := signed; i_pre := p; i_data := d; i_proj := Some (P, B) |};
     c_accepted := acc;
     c_out := OVals {| o_s := mkS ptm delta avg rms peak; o_coefs := coefs; o_resid := resid |} |}.
Definition KPanic (signed : bool) (p : Z) (d : list Z) : case :=
  {| c_in := {| i_signed := signed; i_pre := p; i_data := d; i_proj := None |};
     c_accepted := false; c_out := OPanic |}.

(* A generated case is a HISTORY: records analysed one after the other on ONE DataStreamProcessor (with
   reconfigurations of the pulse lengths, projectors loaded / replaced / rejected / dropped in between,
   and longer or shorter pre-triggers than before).  The model [analyze] and the checker are functions
   of the record (and of the matrices loaded for it) alone, so evaluating every step against them states
   that the results must not depend on what the processor analysed or how it was configured before.
   Result: (code of the first bad step, its index), or (0, -1). *)
Fixpoint verdict_from (i : Z) (h : list case) : Z * Z :=
  match h with
  | [] => (0, -1)
  | c :: r => let v := verdict c in if fst v =? 0 then verdict_from (i + 1) r else (fst v, i)
  end.
Definition verdict_hist (h : list case) : Z * Z := verdict_from 0 h.

(* run-length segment of a record: [Rp k v] = k copies of the word v (long flat stretches) *)
Definition Rp (k v : Z) : list Z := repeat v (Z.to_nat k).

(* several records analysed in ONE AnalyzeData call with the same projectors / basis (a trigger burst):
   one case per record shown, the matrices written once *)
Definition KPs (signed : bool) (p : Z) (P B : list (list float)) (acc : bool)
               (recs : list (list Z * (float * float * float * float * float) * list float * float)) : list case :=
  map (fun r => let '(d, (ptm, delta, avg, rms, peak), coefs, resid) := r in
                KP signed p d P B acc ptm delta avg rms peak coefs resid) recs.
Definition BR (d : list Z) (ptm delta avg rms peak : float) (coefs : list float) (resid : float)
  : list Z * (float * float * float * float * float) * list float * float :=
  (d, (ptm, delta, avg, rms, peak), coefs, resid).
