(* C13 — the residual standard deviation: error analysis of dastard's two-pass stdDev (process_data.go)
   in binary64, and of the whole residual computation  stdDev (d - B c)  for any summation order of the
   matrix product, in the style of rms_bound / projection_tree_bound (real-number level). *)
From Coq Require Import ZArith Reals Lia Lra Psatz List.
From Flocq Require Import Core Relative Plus_error.
From Dastard Require Import C13.FloatKit C13.Bridge C13.Meets C13.Rms C13.Tree.
Import ListNotations.
Open Scope R_scope.

Definition Rsum (l : list R) : R := fold_right Rplus 0 l.
Definition Rasum (l : list R) : R := fold_right (fun x a => Rabs x + a) 0 l.
Definition len (l : list R) : R := INR (length l).

(* s := a0; for v in l { s += v } *)
Definition fsum_from (a0 : R) (l : list R) : R := fold_left (fun a v => RN (a + v)) l a0.

Lemma Rasum_nonneg l : 0 <= Rasum l.
Proof. induction l; cbn [Rasum fold_right]; [lra|]. fold (Rasum l). pose proof (Rabs_pos a). lra. Qed.

Lemma Rsum_le_Rasum l : Rabs (Rsum l) <= Rasum l.
Proof.
  induction l; cbn [Rsum Rasum fold_right]; [rewrite Rabs_R0; lra|].
  fold (Rsum l). fold (Rasum l). eapply Rle_trans; [apply Rabs_triang|]. lra.
Qed.

Lemma pw_S k : pw (S k) = pw k * (1 + uR).
Proof. unfold pw. simpl. ring. Qed.

(* sequential summation of floats: relative error (1+u)^k - 1 on the sum of magnitudes, no underflow term *)
Lemma fsum_bound : forall l a0, Fmt a0 -> Forall Fmt l ->
  Fmt (fsum_from a0 l) /\
  Rabs (fsum_from a0 l - (a0 + Rsum l)) <= (pw (length l) - 1) * (Rabs a0 + Rasum l).
Proof.
  pose proof uR_small as Hu.
  induction l as [|x r IH]; intros a0 Ha Hall.
  - cbn. split; auto. unfold pw. simpl. replace (a0 - (a0 + 0)) with 0 by ring. rewrite Rabs_R0. lra.
  - inversion Hall as [|? ? Hx Hr]; subst.
    cbn [fsum_from fold_left]. fold (fsum_from (RN (a0 + x)) r).
    destruct (RN_rel_plus a0 x Ha Hx) as (d & Hd & Hs).
    destruct (IH (RN (a0 + x)) (Fmt_RN _) Hr) as [IH1 IH2].
    split; auto.
    cbn [Rsum Rasum fold_right length]. fold (Rsum r). fold (Rasum r).
    set (a1 := RN (a0 + x)) in *.
    apply Rabs_le_inv in Hd.
    assert (H1 : Rabs (a1 - (a0 + x)) <= uR * (Rabs a0 + Rabs x)).
    { rewrite Hs. replace ((a0 + x) * (1 + d) - (a0 + x)) with ((a0 + x) * d) by ring.
      rewrite Rabs_mult. pose proof (Rabs_triang a0 x). pose proof (Rabs_pos (a0 + x)).
      assert (Rabs d <= uR) by (apply Rabs_le; lra). nra. }
    assert (H2 : Rabs a1 <= (1 + uR) * (Rabs a0 + Rabs x)).
    { replace a1 with ((a1 - (a0 + x)) + (a0 + x)) by ring.
      eapply Rle_trans; [apply Rabs_triang|]. pose proof (Rabs_triang a0 x). lra. }
    replace (fsum_from a1 r - (a0 + (x + Rsum r))) with ((fsum_from a1 r - (a1 + Rsum r)) + (a1 - (a0 + x))) by ring.
    eapply Rle_trans; [apply Rabs_triang|].
    rewrite pw_S. pose proof (pw_ge1 (length r)). pose proof (Rasum_nonneg r).
    pose proof (Rabs_pos a0). pose proof (Rabs_pos x).
    assert (HH3 : (pw (length r) - 1) * (Rabs a1 + Rasum r) <= (pw (length r) - 1) * ((1 + uR) * (Rabs a0 + Rabs x) + Rasum r)).
    { apply Rmult_le_compat_l; lra. }
    set (P := pw (length r)) in *. set (A := Rabs a0 + Rabs x) in *. set (R0 := Rasum r) in *.
    apply Rle_trans with ((P - 1) * ((1 + uR) * A + R0) + uR * A); [lra|].
    assert (0 <= P * uR * R0) by (apply Rmult_le_pos; [apply Rmult_le_pos; lra | lra]).
    replace ((P * (1 + uR) - 1) * (Rabs a0 + (Rabs x + R0)))
      with ((P - 1) * ((1 + uR) * A + R0) + uR * A + P * uR * R0) by (unfold A; ring).
    lra.
Qed.

(* ---- square-root facts ---- *)
Lemma sqrt_add_le a b : 0 <= a -> 0 <= b -> sqrt (a + b) <= sqrt a + sqrt b.
Proof.
  intros Ha Hb. pose proof (sqrt_pos a). pose proof (sqrt_pos b).
  rewrite <- (sqrt_Rsqr (sqrt a + sqrt b)) by lra.
  apply sqrt_le_1_alt. unfold Rsqr.
  pose proof (sqrt_sqrt a Ha). pose proof (sqrt_sqrt b Hb). nra.
Qed.
Lemma sqrt_sq_mul T c : 0 <= T -> 0 <= c -> sqrt (T * T * c) = T * sqrt c.
Proof. intros HT Hc. rewrite sqrt_mult by nra. rewrite sqrt_square by auto. reflexivity. Qed.
Lemma sqrt_ge1_le x : 1 <= x -> sqrt x <= x.
Proof. intros H. rewrite <- (sqrt_square x) at 2 by lra. apply sqrt_le_1_alt. nra. Qed.
Lemma sqrt_le1_ge x : 0 <= x <= 1 -> x <= sqrt x.
Proof. intros H. rewrite <- (sqrt_square x) at 1 by lra. apply sqrt_le_1_alt. nra. Qed.
Lemma sqrt_hyp a b : 0 <= a -> 0 <= b -> sqrt (a * a + b * b) <= a + b.
Proof.
  intros Ha Hb. rewrite <- (sqrt_square (a + b)) by lra. apply sqrt_le_1_alt. nra.
Qed.

(* |sqrt v - T| <= G T + sqrt eps  when  |v - T^2| <= G T^2 + eps *)
Lemma sqrt_perturb T v G eps : 0 <= T -> 0 <= v -> 0 <= G <= 1 -> 0 <= eps ->
  Rabs (v - T * T) <= G * (T * T) + eps ->
  Rabs (sqrt v - T) <= G * T + sqrt eps.
Proof.
  intros HT Hv HG He H. apply Rabs_le_inv in H. pose proof (sqrt_pos eps) as Hse.
  apply Rabs_le. split.
  - (* T (1 - G) <= sqrt v + sqrt eps *)
    assert (H1 : T * T * (1 - G) <= v + eps) by nra.
    assert (H2 : sqrt (T * T * (1 - G)) <= sqrt (v + eps)) by (apply sqrt_le_1_alt; exact H1).
    rewrite sqrt_sq_mul in H2 by lra.
    pose proof (sqrt_add_le v eps Hv He). pose proof (sqrt_le1_ge (1 - G) ltac:(lra)). nra.
  - assert (H1 : v <= T * T * (1 + G) + eps) by nra.
    assert (H2 : sqrt v <= sqrt (T * T * (1 + G) + eps)) by (apply sqrt_le_1_alt; exact H1).
    pose proof (sqrt_add_le (T * T * (1 + G)) eps ltac:(nra) He) as H3.
    rewrite sqrt_sq_mul in H3 by lra. pose proof (sqrt_ge1_le (1 + G) ltac:(lra)). nra.
Qed.

(* ---- exact quantities and dastard's stdDev in binary64 ---- *)
Definition mean (l : list R) : R := Rsum l / len l.
Definition ssd (m : R) (l : list R) : R := Rsum (map (fun x => (x - m) * (x - m)) l).
Definition sigma (l : list R) : R := sqrt (ssd (mean l) l / len l).

Definition fl_mean (l : list R) : R := RN (fsum_from 0 l / len l).
Definition fl_sq (m v : R) : R := RN (RN (v - m) * RN (v - m)).
Definition fl_ssd (m : R) (l : list R) : R := fsum_from 0 (map (fl_sq m) l).
Definition fl_stddev (l : list R) : R := RN (sqrt (RN (fl_ssd (fl_mean l) l / len l))).

Lemma Fmt_0 : Fmt 0.
Proof. replace 0 with (IZR 0) by reflexivity. apply Fmt_int. cbn. lia. Qed.

Lemma RN_0 : RN 0 = 0.
Proof. apply RN_exact. apply Fmt_0. Qed.

(* the first addition 0 + x is exact: n - 1 roundings for n terms *)
Lemma fsum0_bound l : Forall Fmt l ->
  Fmt (fsum_from 0 l) /\ Rabs (fsum_from 0 l - Rsum l) <= (pw (length l - 1) - 1) * Rasum l.
Proof.
  intros Hall. destruct l as [|x r].
  - cbn. split; [apply Fmt_0|]. unfold pw. simpl. rewrite Rminus_0_r, Rabs_R0. lra.
  - inversion Hall as [|? ? Hx Hr]; subst.
    cbn [fsum_from fold_left]. rewrite Rplus_0_l, (RN_exact x Hx). fold (fsum_from x r).
    destruct (fsum_bound r x Hx Hr) as [H1 H2]. split; auto.
    cbn [length Rsum Rasum fold_right]. fold (Rsum r). fold (Rasum r).
    replace (S (length r) - 1)%nat with (length r) by lia. exact H2.
Qed.

Lemma len_pos l : l <> [] -> 1 <= len l.
Proof.
  intros H. unfold len. destruct l; [congruence|]. cbn [length]. rewrite S_INR. pose proof (pos_INR (length l)). lra.
Qed.

Lemma etaR_pos : 0 < etaR.
Proof. apply bpow_gt_0. Qed.

(* error of the float mean *)
Lemma fl_mean_err l : l <> [] -> Forall Fmt l ->
  Rabs (fl_mean l - mean l) <= (pw (length l) - 1) * (Rasum l / len l) + etaR / 2.
Proof.
  intros Hne Hall. pose proof uR_small as Hu. pose proof (len_pos l Hne) as Hn.
  destruct (fsum0_bound l Hall) as [_ Hs].
  unfold fl_mean, mean. set (S0 := fsum_from 0 l) in *. set (n := len l) in *.
  pose proof (RN_mult_err (S0 / n)) as Hr.
  pose proof (Rasum_nonneg l) as HA. pose proof (Rsum_le_Rasum l) as HSA.
  assert (Hk : pw (length l) = pw (length l - 1) * (1 + uR)).
  { destruct l; [congruence|]. cbn [length]. replace (S (length l) - 1)%nat with (length l) by lia. apply pw_S. }
  pose proof (pw_ge1 (length l - 1)) as Hp. set (P := pw (length l - 1)) in *.
  assert (Hinv : 0 < / n <= 1).
  { split; [apply Rinv_0_lt_compat; lra|]. rewrite <- Rinv_1. apply Rinv_le_contravar; lra. }
  assert (H1 : Rabs (S0 / n - Rsum l / n) <= (P - 1) * (Rasum l / n)).
  { replace (S0 / n - Rsum l / n) with ((S0 - Rsum l) * / n) by (unfold Rdiv; ring).
    rewrite Rabs_mult, (Rabs_pos_eq (/ n)) by lra. unfold Rdiv.
    replace ((P - 1) * (Rasum l * / n)) with ((P - 1) * Rasum l * / n) by ring.
    apply Rmult_le_compat_r; lra. }
  assert (H2 : Rabs (S0 / n) <= P * (Rasum l / n)).
  { replace (S0 / n) with ((S0 / n - Rsum l / n) + Rsum l / n) by ring.
    eapply Rle_trans; [apply Rabs_triang|].
    assert (Rabs (Rsum l / n) <= Rasum l / n).
    { unfold Rdiv. rewrite Rabs_mult, (Rabs_pos_eq (/ n)) by lra. apply Rmult_le_compat_r; lra. }
    lra. }
  replace (RN (S0 / n) - Rsum l / n) with ((RN (S0 / n) - S0 / n) + (S0 / n - Rsum l / n)) by ring.
  eapply Rle_trans; [apply Rabs_triang|].
  assert (0 <= Rasum l / n) by (unfold Rdiv; apply Rmult_le_pos; lra).
  rewrite Hk. nra.
Qed.

(* sum of squared deviations about any point *)
Lemma ssd_expand m l : ssd m l = Rsum (map (fun x => x * x) l) - 2 * m * Rsum l + len l * (m * m).
Proof.
  unfold ssd, len. induction l as [|x r IH]; cbn [map Rsum fold_right length].
  - simpl. ring.
  - fold (Rsum (map (fun x => (x - m) * (x - m)) r)). fold (Rsum r). fold (Rsum (map (fun x => x * x) r)).
    rewrite IH, S_INR. ring.
Qed.

Lemma ssd_shift m l : l <> [] -> ssd m l = ssd (mean l) l + len l * ((m - mean l) * (m - mean l)).
Proof.
  intros Hne. pose proof (len_pos l Hne). rewrite !ssd_expand. unfold mean. field. lra.
Qed.

Lemma ssd_nonneg m l : 0 <= ssd m l.
Proof.
  unfold ssd. induction l; cbn [map Rsum fold_right]; [lra|].
  unfold Rsum in IHl. pose proof (Rle_0_sqr (a - m)) as Hs. unfold Rsqr in Hs. lra.
Qed.

Lemma RN_nonneg x : 0 <= x -> 0 <= RN x.
Proof.
  intros H. rewrite <- RN_0. unfold RN. apply round_le; auto.
  - rewrite fx_FLT. apply FLT_exp_valid. reflexivity.
  - apply valid_rnd_N.
Qed.

Lemma pw_add j k : pw (j + k) = pw j * pw k.
Proof. unfold pw. apply pow_add. Qed.

(* one squared deviation: three roundings *)
Lemma fl_sq_err m v : Fmt v -> Fmt m ->
  let w := v - m in
  0 <= fl_sq m v /\ Fmt (fl_sq m v) /\ Rabs (fl_sq m v - w * w) <= (pw 3 - 1) * (w * w) + etaR / 2.
Proof.
  intros Hv Hm w. pose proof uR_small as Hu.
  unfold fl_sq. fold w.
  destruct (RN_rel_minus v m Hv Hm) as (d & Hd & Hy). fold w in Hy. rewrite Hy.
  apply Rabs_le_inv in Hd.
  set (y := w * (1 + d)).
  assert (Hyy : 0 <= y * y) by nra.
  split; [apply RN_nonneg; exact Hyy|]. split; [apply Fmt_RN|].
  pose proof (RN_mult_err (y * y)) as Hr. rewrite (Rabs_pos_eq (y * y)) in Hr by auto.
  assert (Hww : 0 <= w * w) by nra.
  assert (H1 : y * y <= w * w * ((1 + uR) * (1 + uR))).
  { unfold y. replace (w * (1 + d) * (w * (1 + d))) with (w * w * ((1 + d) * (1 + d))) by ring.
    apply Rmult_le_compat_l; auto. nra. }
  assert (H2 : Rabs (y * y - w * w) <= w * w * ((1 + uR) * (1 + uR) - 1)).
  { unfold y. replace (w * (1 + d) * (w * (1 + d)) - w * w) with (w * w * ((1 + d) * (1 + d) - 1)) by ring.
    rewrite Rabs_mult, (Rabs_pos_eq (w * w)) by auto. apply Rmult_le_compat_l; auto.
    apply Rabs_le. split; nra. }
  replace (RN (y * y) - w * w) with ((RN (y * y) - y * y) + (y * y - w * w)) by ring.
  eapply Rle_trans; [apply Rabs_triang|].
  assert (Hp3 : pw 3 = (1 + uR) * ((1 + uR) * (1 + uR))) by (unfold pw; simpl; ring).
  rewrite Hp3. nra.
Qed.

Lemma Rasum_nonneg_eq l : Forall (fun x => 0 <= x) l -> Rasum l = Rsum l.
Proof.
  induction 1 as [|x r Hx Hr IH]; cbn [Rasum Rsum fold_right]; auto.
  fold (Rasum r). fold (Rsum r). rewrite IH, Rabs_pos_eq; auto.
Qed.

Lemma fsum_nonneg : forall l a0, 0 <= a0 -> Forall (fun x => 0 <= x) l -> 0 <= fsum_from a0 l.
Proof.
  induction l as [|x r IH]; intros a0 Ha Hall; cbn [fsum_from fold_left]; auto.
  inversion Hall; subst. apply IH; auto. apply RN_nonneg. lra.
Qed.

(* the float sum of squared deviations about the float mean m *)
Lemma fl_ssd_err m l : Fmt m -> Forall Fmt l ->
  let D := ssd m l in
  0 <= fl_ssd m l /\ Fmt (fl_ssd m l) /\
  Rabs (fl_ssd m l - D) <= (pw (length l + 2) - 1) * D + pw (length l - 1) * (len l * (etaR / 2)).
Proof.
  intros Hm Hall D. pose proof uR_small as Hu. pose proof etaR_pos as He.
  set (qs := map (fl_sq m) l).
  assert (Hq : Forall Fmt qs /\ Forall (fun x => 0 <= x) qs /\
               Rabs (Rsum qs - D) <= (pw 3 - 1) * D + len l * (etaR / 2)).
  { unfold qs, D, ssd, len. clear qs D. induction Hall as [|x r Hx Hr IH]; cbn [map Rsum fold_right length].
    - split; [constructor|]. split; [constructor|]. simpl. rewrite Rminus_0_r, Rabs_R0. lra.
    - destruct IH as (I1 & I2 & I3). destruct (fl_sq_err m x Hx Hm) as (F1 & F2 & F3). cbv zeta in F3.
      split; [constructor; auto|]. split; [constructor; auto|].
      fold (Rsum (map (fl_sq m) r)). fold (Rsum (map (fun x => (x - m) * (x - m)) r)).
      rewrite S_INR.
      replace (fl_sq m x + Rsum (map (fl_sq m) r) - ((x - m) * (x - m) + Rsum (map (fun x0 => (x0 - m) * (x0 - m)) r)))
        with ((fl_sq m x - (x - m) * (x - m)) + (Rsum (map (fl_sq m) r) - Rsum (map (fun x0 => (x0 - m) * (x0 - m)) r))) by ring.
      eapply Rle_trans; [apply Rabs_triang|]. lra. }
  destruct Hq as (Q1 & Q2 & Q3).
  destruct (fsum0_bound qs Q1) as [S1 S2]. unfold fl_ssd. fold qs.
  split; [apply fsum_nonneg; [lra | auto]|]. split; auto.
  rewrite (Rasum_nonneg_eq qs Q2) in S2.
  assert (Hlen : length qs = length l) by (unfold qs; apply map_length). rewrite Hlen in S2.
  pose proof (ssd_nonneg m l) as HD. fold D in HD.
  apply Rabs_le_inv in Q3.
  assert (Hsq : Rsum qs <= pw 3 * D + len l * (etaR / 2)) by lra.
  pose proof (pw_ge1 (length l - 1)) as Hp. pose proof (pw_ge1 3) as Hp3.
  assert (Hn0 : 0 <= len l * (etaR / 2)).
  { apply Rmult_le_pos; [apply pos_INR | lra]. }
  assert (Hpw : pw (length l + 2) = pw (length l - 1) * pw 3 \/ length l = 0%nat).
  { destruct (length l) eqn:E; [right; reflexivity | left].
    replace (S n + 2)%nat with ((S n - 1) + 3)%nat by lia. apply pw_add. }
  replace (fsum_from 0 qs - D) with ((fsum_from 0 qs - Rsum qs) + (Rsum qs - D)) by ring.
  eapply Rle_trans; [apply Rabs_triang|].
  assert (Q3' : Rabs (Rsum qs - D) <= (pw 3 - 1) * D + len l * (etaR / 2)) by (apply Rabs_le; lra).
  destruct Hpw as [Hpw|Hz].
  - rewrite Hpw. set (P := pw (length l - 1)) in *. set (P3 := pw 3) in *. set (N := len l * (etaR / 2)) in *.
    assert ((P - 1) * Rsum qs <= (P - 1) * (P3 * D + N)) by (apply Rmult_le_compat_l; lra).
    replace ((P * P3 - 1) * D + P * N) with ((P - 1) * (P3 * D + N) + ((P3 - 1) * D + N)) by ring.
    lra.
  - (* empty list *)
    assert (l = []) by (destruct l; [reflexivity | discriminate]). subst l.
    cbn in *. unfold pw in *. simpl in *. lra.
Qed.

Lemma pw_le2 k : INR k * uR <= / 2 -> pw k <= 2.
Proof.
  intros H. pose proof (pw_gamma k) as G. pose proof (pw_ge1 k).
  assert (pw k * / 2 <= pw k * (1 - INR k * uR)) by (apply Rmult_le_compat_l; lra). lra.
Qed.

(* the rounded square root of a non-negative float: one relative rounding, no underflow *)
Lemma RN_sqrt_rel v : Fmt v -> 0 <= v -> exists e, Rabs e <= uR /\ RN (sqrt v) = sqrt v * (1 + e).
Proof.
  intros Hf Hv. apply RN_rel.
  destruct (Rle_lt_or_eq_dec 0 v Hv) as [Hpos|Hz].
  - right. pose proof (sqrt_pos v) as Hs. rewrite Rabs_pos_eq by auto.
    pose proof (Fmt_pos_ge v Hf Hpos) as Hge.
    destruct (Rle_or_lt (bpow radix2 (-1022)) (sqrt v)) as [H|H]; auto. exfalso.
    assert (sqrt v * sqrt v < bpow radix2 (-1022) * bpow radix2 (-1022)).
    { pose proof (bpow_gt_0 radix2 (-1022)). nra. }
    rewrite <- bpow_plus in H0. rewrite sqrt_sqrt in H0 by auto.
    assert (bpow radix2 (-1022 + -1022) <= bpow radix2 (-1074)) by (apply bpow_le; lia). lra.
  - left. rewrite <- Hz. apply sqrt_0.
Qed.

(* stddev_two_pass_bound: dastard's stdDev of ANY vector of binary64 numbers *)
Lemma stddev_two_pass_bound l : l <> [] -> Forall Fmt l -> INR (length l + 4) * uR <= / 2 ->
  let dmb := (pw (length l) - 1) * (Rasum l / len l) + etaR / 2 in
  Rabs (fl_stddev l - sigma l) <= dmb + (pw (length l + 4) - 1) * (sigma l + dmb) + (1 + uR) * sqrt (2 * etaR).
Proof.
  intros Hne Hall Hsmall dmb. pose proof uR_small as Hu. pose proof etaR_pos as He.
  pose proof (len_pos l Hne) as Hn. set (n := len l) in *.
  set (k := length l) in *.
  assert (Hk1 : (1 <= k)%nat) by (unfold k; destruct l; [congruence | cbn; lia]).
  assert (Hp4 : pw (k + 4) <= 2) by (apply pw_le2; exact Hsmall).
  assert (Hmono : forall j, (j <= k + 4)%nat -> pw j <= 2).
  { intros j Hj. eapply Rle_trans; [apply pw_mono; exact Hj | exact Hp4]. }
  set (m := fl_mean l).
  assert (Hm : Fmt m) by (unfold m, fl_mean; apply Fmt_RN).
  pose proof (fl_mean_err l Hne Hall) as Hme. fold m k n in Hme. fold dmb in Hme.
  destruct (fl_ssd_err m l Hm Hall) as (S0 & S1 & S2). cbv zeta in S2. fold k n in S2.
  set (D := ssd m l) in *. set (s2 := fl_ssd m l) in *.
  pose proof (ssd_nonneg m l) as HD. fold D in HD.
  assert (Hinv : 0 < / n <= 1).
  { split; [apply Rinv_0_lt_compat; lra|]. rewrite <- Rinv_1. apply Rinv_le_contravar; lra. }
  set (TT := D / n).
  assert (HTT : 0 <= TT) by (unfold TT, Rdiv; apply Rmult_le_pos; lra).
  set (T := sqrt TT). assert (HT : 0 <= T) by apply sqrt_pos.
  assert (HT2 : T * T = TT) by (apply sqrt_sqrt; auto).
  (* x = s2 / n *)
  set (x := s2 / n).
  assert (Hx0 : 0 <= x) by (unfold x, Rdiv; apply Rmult_le_pos; lra).
  pose proof (pw_ge1 (k - 1)) as Hpk1. pose proof (pw_ge1 (k + 2)) as Hpk2.
  assert (Hx : Rabs (x - TT) <= (pw (k + 2) - 1) * TT + pw (k - 1) * (etaR / 2)).
  { unfold x, TT. replace (s2 / n - D / n) with ((s2 - D) * / n) by (unfold Rdiv; ring).
    rewrite Rabs_mult, (Rabs_pos_eq (/ n)) by lra.
    replace ((pw (k + 2) - 1) * (D / n) + pw (k - 1) * (etaR / 2))
      with (((pw (k + 2) - 1) * D + pw (k - 1) * (n * (etaR / 2))) * / n) by (field; lra).
    apply Rmult_le_compat_r; lra. }
  (* v = RN x *)
  set (v := RN x).
  assert (Hv0 : 0 <= v) by (apply RN_nonneg; auto).
  assert (Hvf : Fmt v) by apply Fmt_RN.
  pose proof (RN_mult_err x) as Hvx. rewrite (Rabs_pos_eq x) in Hvx by auto. fold v in Hvx.
  set (G := pw (k + 3) - 1).
  assert (HG : 0 <= G <= 1).
  { unfold G. pose proof (pw_ge1 (k + 3)). pose proof (Hmono (k + 3)%nat ltac:(lia)). lra. }
  assert (Hpk3 : pw (k + 3) = pw (k + 2) * (1 + uR)).
  { replace (k + 3)%nat with (S (k + 2)) by lia. apply pw_S. }
  assert (Hpk : pw k = pw (k - 1) * (1 + uR)).
  { replace k with (S (k - 1)) at 1 by lia. apply pw_S. }
  assert (Hv : Rabs (v - T * T) <= G * (T * T) + 2 * etaR).
  { rewrite HT2. apply Rabs_le_inv in Hx. apply Rabs_le_inv in Hvx.
    assert (Hxu : x <= pw (k + 2) * TT + pw (k - 1) * (etaR / 2)) by lra.
    pose proof (Hmono k ltac:(lia)) as Hk2.
    assert (E1 : uR * x <= uR * (pw (k + 2) * TT + pw (k - 1) * (etaR / 2))) by (apply Rmult_le_compat_l; lra).
    assert (E2 : pw (k - 1) * (etaR / 2) + uR * (pw (k - 1) * (etaR / 2)) = pw k * (etaR / 2)) by (rewrite Hpk; ring).
    unfold G. rewrite Hpk3.
    apply Rabs_le. split; nra. }
  assert (He2 : 0 <= 2 * etaR) by lra.
  pose proof (sqrt_perturb T v G (2 * etaR) HT Hv0 HG He2 Hv) as Hsv.
  destruct (RN_sqrt_rel v Hvf Hv0) as (e & Hee & Hres).
  pose proof (sqrt_pos v) as Hsq0. pose proof (sqrt_pos (2 * etaR)) as Hse.
  unfold fl_stddev. fold m s2 n x v. rewrite Hres.
  apply Rabs_le_inv in Hee. apply Rabs_le_inv in Hsv.
  (* res vs T *)
  set (G' := pw (k + 4) - 1).
  assert (Hpk4 : pw (k + 4) = pw (k + 3) * (1 + uR)).
  { replace (k + 4)%nat with (S (k + 3)) by lia. apply pw_S. }
  assert (HresT : Rabs (sqrt v * (1 + e) - T) <= G' * T + (1 + uR) * sqrt (2 * etaR)).
  { unfold G'. rewrite Hpk4. fold G. replace (pw (k + 3)) with (G + 1) by (unfold G; ring).
    assert (sqrt v <= T + G * T + sqrt (2 * etaR)) by lra.
    apply Rabs_le. split; nra. }
  (* T vs sigma *)
  set (sg := sigma l).
  assert (Hsg0 : 0 <= sg) by apply sqrt_pos.
  set (dm := m - mean l) in *.
  assert (HTTsg : TT = sg * sg + dm * dm).
  { unfold TT, D. rewrite (ssd_shift m l Hne). fold n dm.
    unfold sg, sigma. fold n. rewrite sqrt_sqrt.
    - field. lra.
    - unfold Rdiv. apply Rmult_le_pos; [apply ssd_nonneg | lra]. }
  assert (HTsg : sg <= T <= sg + Rabs dm).
  { split.
    - unfold T. rewrite <- (sqrt_square sg) by auto. apply sqrt_le_1_alt. rewrite HTTsg. nra.
    - unfold T. rewrite HTTsg. replace (dm * dm) with (Rabs dm * Rabs dm).
      + apply sqrt_hyp; auto. apply Rabs_pos.
      + rewrite <- Rabs_mult. apply Rabs_pos_eq. nra. }
  assert (Hdm0 : 0 <= Rabs dm) by apply Rabs_pos.
  assert (HG' : 0 <= G') by (unfold G'; pose proof (pw_ge1 (k + 4)); lra).
  replace (sqrt v * (1 + e) - sg) with ((sqrt v * (1 + e) - T) + (T - sg)) by ring.
  eapply Rle_trans; [apply Rabs_triang|].
  assert (Rabs (T - sg) <= Rabs dm) by (apply Rabs_le; lra).
  assert (G' * T <= G' * (sg + dmb)) by (apply Rmult_le_compat_l; lra).
  lra.
Qed.

(* ---- the standard deviation is 1-Lipschitz for the max norm ---- *)
Definition close_by (e : R) (a b : list R) : Prop := Forall2 (fun x y => Rabs (x - y) <= e) a b.

Lemma close_by_sym e a b : close_by e a b -> close_by e b a.
Proof. induction 1; constructor; auto. rewrite Rabs_minus_sym. auto. Qed.
Lemma close_by_len e a b : close_by e a b -> length a = length b.
Proof. induction 1; cbn [length]; congruence. Qed.

Lemma qm_am l : Rasum l * Rasum l <= len l * Rsum (map (fun x => x * x) l).
Proof.
  unfold len. induction l as [|x r IH]; cbn [Rasum Rsum map fold_right length].
  - simpl. lra.
  - fold (Rasum r). fold (Rsum (map (fun x => x * x) r)). rewrite S_INR.
    set (S0 := Rasum r) in *. set (Q := Rsum (map (fun x => x * x) r)) in *. set (k := INR (length r)) in *.
    assert (HS : 0 <= S0) by apply Rasum_nonneg.
    assert (Hk : 0 <= k) by apply pos_INR.
    assert (HQ : 0 <= Q).
    { unfold Q. clear. induction r; cbn [map Rsum fold_right]; [lra|]. unfold Rsum in IHr. nra. }
    set (ax := Rabs x). assert (Hax : 0 <= ax) by apply Rabs_pos.
    assert (Hxx : x * x = ax * ax) by (unfold ax; rewrite <- Rabs_mult; symmetry; apply Rabs_pos_eq; nra).
    rewrite Hxx.
    pose proof (Rle_0_sqr (k * ax - S0)) as Hsq. unfold Rsqr in Hsq.
    (* 2 ax S0 <= k ax^2 + Q *)
    assert (H2 : 2 * ax * S0 <= k * (ax * ax) + Q).
    { destruct (Req_dec k 0) as [Hz|Hnz].
      - rewrite Hz in *. assert (S0 * S0 <= 0) by lra. assert (S0 = 0) by nra. subst S0. rewrite H0. nra.
      - assert (0 < k) by lra.
        assert (2 * k * ax * S0 <= k * k * (ax * ax) + k * Q) by nra.
        apply Rmult_le_reg_l with k; auto. nra. }
    nra.
Qed.

Lemma ssd_perturb e t a b : 0 <= e -> close_by e a b ->
  ssd t a <= ssd t b + 2 * e * Rasum (map (fun y => y - t) b) + len b * (e * e).
Proof.
  intros He H. unfold ssd, len. induction H as [|x y a b Hxy Hab IH]; cbn [map Rsum Rasum fold_right length].
  - simpl. lra.
  - fold (Rsum (map (fun x => (x - t) * (x - t)) a)). fold (Rsum (map (fun x => (x - t) * (x - t)) b)).
    fold (Rasum (map (fun y => y - t) b)). rewrite S_INR.
    apply Rabs_le_inv in Hxy.
    assert ((x - t) * (x - t) <= (y - t) * (y - t) + 2 * e * Rabs (y - t) + e * e).
    { replace (x - t) with ((y - t) + (x - y)) by ring.
      set (w := y - t). set (c := x - y) in *.
      assert (w * c <= Rabs w * e).
      { destruct (Rcase_abs w) as [Hn|Hp].
        - rewrite (Rabs_left w Hn). nra.
        - rewrite (Rabs_right w Hp). nra. }
      nra. }
    lra.
Qed.

Lemma sigma_sq l : l <> [] -> sigma l * sigma l = ssd (mean l) l / len l.
Proof.
  intros Hne. pose proof (len_pos l Hne). unfold sigma. apply sqrt_sqrt.
  unfold Rdiv. apply Rmult_le_pos; [apply ssd_nonneg | left; apply Rinv_0_lt_compat; lra].
Qed.

Lemma sigma_le e a b : 0 <= e -> a <> [] -> close_by e a b -> sigma a <= sigma b + e.
Proof.
  intros He Hne H. pose proof (close_by_len _ _ _ H) as Hlen.
  assert (Hneb : b <> []) by (destruct b; [destruct a; [congruence | discriminate] | discriminate]).
  pose proof (len_pos a Hne) as Hn. assert (Hnn : len b = len a) by (unfold len; congruence).
  set (n := len a) in *.
  pose proof (sigma_sq a Hne) as Sa. pose proof (sigma_sq b Hneb) as Sb. rewrite Hnn in Sb. fold n in Sa.
  set (sa := sigma a) in *. set (sb := sigma b) in *.
  assert (Hsa : 0 <= sa) by apply sqrt_pos. assert (Hsb : 0 <= sb) by apply sqrt_pos.
  (* n sa^2 = ssd(mean a) a <= ssd(mean b) a *)
  pose proof (ssd_shift (mean b) a Hne) as Hshift. fold n in Hshift.
  pose proof (ssd_perturb e (mean b) a b He H) as Hp. rewrite Hnn in Hp.
  set (w := map (fun y => y - mean b) b) in *.
  pose proof (qm_am w) as Hq.
  assert (Hlw : len w = n) by (unfold w, len; rewrite map_length; fold (len b); auto).
  assert (Hw2 : Rsum (map (fun x => x * x) w) = ssd (mean b) b).
  { unfold w, ssd. rewrite map_map. reflexivity. }
  rewrite Hlw, Hw2 in Hq.
  assert (E1 : ssd (mean a) a = n * (sa * sa)) by (rewrite Sa; field; lra).
  assert (E2 : ssd (mean b) b = n * (sb * sb)) by (rewrite Sb; field; lra).
  rewrite E2 in *.
  assert (HA : 0 <= Rasum w) by apply Rasum_nonneg.
  assert (HAw : Rasum w <= n * sb).
  { assert (Rasum w * Rasum w <= (n * sb) * (n * sb)) by nra.
    destruct (Rle_or_lt (Rasum w) (n * sb)); auto. exfalso. assert (0 <= n * sb) by nra. nra. }
  assert (Hfin : n * (sa * sa) <= n * ((sb + e) * (sb + e))).
  { pose proof (Rle_0_sqr (mean b - mean a)) as Hsq. unfold Rsqr in Hsq.
    assert (0 <= n * ((mean b - mean a) * (mean b - mean a))) by (apply Rmult_le_pos; lra).
    assert (2 * e * Rasum w <= 2 * e * (n * sb)) by (apply Rmult_le_compat_l; lra).
    replace (n * ((sb + e) * (sb + e))) with (n * (sb * sb) + 2 * e * (n * sb) + n * (e * e)) by ring.
    lra. }
  assert (sa * sa <= (sb + e) * (sb + e)) by (apply Rmult_le_reg_l with n; lra).
  destruct (Rle_or_lt sa (sb + e)); auto. exfalso. nra.
Qed.

Lemma sigma_lipschitz e a b : 0 <= e -> a <> [] -> close_by e a b -> Rabs (sigma a - sigma b) <= e.
Proof.
  intros He Hne H.
  assert (Hneb : b <> []).
  { pose proof (close_by_len _ _ _ H). destruct b; [destruct a; [congruence | discriminate] | discriminate]. }
  pose proof (sigma_le e a b He Hne H). pose proof (sigma_le e b a He Hneb (close_by_sym _ _ _ H)).
  apply Rabs_le. lra.
Qed.

Lemma Rasum_close e a b : close_by e a b -> Rasum a <= Rasum b + len b * e.
Proof.
  unfold len. induction 1 as [|x y a b Hxy Hab IH]; cbn [Rasum fold_right length]; [simpl; lra|].
  fold (Rasum a). fold (Rasum b). rewrite S_INR.
  assert (Rabs x <= Rabs y + e).
  { replace x with (y + (x - y)) at 1 by ring. eapply Rle_trans; [apply Rabs_triang|]. lra. }
  lra.
Qed.

(* ---- the residual: d - B c with B c by any summation tree, one rounded subtraction, then stdDev ---- *)
Definition tree_tol (t : tree) : R :=
  INR (leaves t) * uR / (1 - INR (leaves t) * uR) * mag t + INR (leaves t) * etaR.

Lemma residual_entry_err (d : R) (t : tree) : Fmt d -> INR (leaves t) * uR <= / 2 ->
  Rabs (RN (d - evalf t) - (d - exact t)) <= tree_tol t + uR * (Rabs (d - exact t) + tree_tol t).
Proof.
  intros Hd Hn. pose proof uR_small as Hu.
  pose proof (tree_bound_gamma t Hn) as Ht. fold (tree_tol t) in Ht.
  destruct (RN_rel_minus d (evalf t) Hd (Fmt_evalf t)) as (dl & Hdl & Hr). rewrite Hr.
  replace ((d - evalf t) * (1 + dl) - (d - exact t)) with ((exact t - evalf t) + dl * (d - evalf t)) by ring.
  eapply Rle_trans; [apply Rabs_triang|].
  rewrite Rabs_minus_sym in Ht.
  assert (H1 : Rabs (d - evalf t) <= Rabs (d - exact t) + tree_tol t).
  { replace (d - evalf t) with ((d - exact t) + (exact t - evalf t)) by ring.
    eapply Rle_trans; [apply Rabs_triang|]. lra. }
  rewrite Rabs_mult. pose proof (Rabs_pos dl). pose proof (Rabs_pos (d - evalf t)). nra.
Qed.

Lemma sigma_nonneg l : 0 <= sigma l.
Proof. apply sqrt_pos. Qed.

(* residual_stddev_bound: rt = the residual vector as computed (any binary64 numbers within e of the exact
   residuals r), s = dastard's stdDev of rt in binary64:  |s - sigma r| <= E  with
   dm = ((1+u)^n - 1)(mean|r| + e) + eta/2,  E = e + dm + ((1+u)^(n+4) - 1)(sigma r + e + dm) + (1+u) sqrt(2 eta) *)
Lemma residual_stddev_bound (rt r : list R) (e : R) :
  rt <> [] -> Forall Fmt rt -> 0 <= e -> close_by e rt r -> INR (length r + 4) * uR <= / 2 ->
  let dm := (pw (length r) - 1) * (Rasum r / len r + e) + etaR / 2 in
  Rabs (fl_stddev rt - sigma r)
  <= e + dm + (pw (length r + 4) - 1) * (sigma r + e + dm) + (1 + uR) * sqrt (2 * etaR).
Proof.
  intros Hne Hall He Hc Hsmall. cbv zeta. pose proof uR_small as Hu.
  pose proof (close_by_len _ _ _ Hc) as Hlen.
  pose proof (len_pos rt Hne) as Hn. assert (Hnn : len r = len rt) by (unfold len; congruence).
  rewrite <- Hlen in Hsmall.
  pose proof (stddev_two_pass_bound rt Hne Hall Hsmall) as HA. cbv zeta in HA.
  pose proof (sigma_lipschitz e rt r He Hne Hc) as HB. apply Rabs_le_inv in HB.
  pose proof (Rasum_close e rt r Hc) as HR.
  rewrite <- Hlen in *. rewrite Hnn in *. set (n := len rt) in *. set (k := length rt) in *.
  set (G := pw (k + 4) - 1) in *. set (P := pw k - 1) in *.
  set (dm := P * (Rasum r / n + e) + etaR / 2).
  assert (HG : 0 <= G) by (unfold G; pose proof (pw_ge1 (k + 4)); lra).
  assert (HP : 0 <= P) by (unfold P; pose proof (pw_ge1 k); lra).
  assert (Hinv : 0 < / n) by (apply Rinv_0_lt_compat; lra).
  assert (Hmean : Rasum rt / n <= Rasum r / n + e).
  { unfold Rdiv. replace (Rasum r * / n + e) with ((Rasum r + n * e) * / n) by (field; lra).
    apply Rmult_le_compat_r; lra. }
  set (dmb := P * (Rasum rt / n) + etaR / 2) in *.
  assert (Hdm : dmb <= dm).
  { unfold dmb, dm. assert (P * (Rasum rt / n) <= P * (Rasum r / n + e)) by (apply Rmult_le_compat_l; lra). lra. }
  pose proof (sigma_nonneg rt). pose proof (sigma_nonneg r).
  assert (Hdmb0 : 0 <= dmb).
  { unfold dmb. pose proof etaR_pos. pose proof (Rasum_nonneg rt).
    assert (0 <= P * (Rasum rt / n)) by (apply Rmult_le_pos; [lra | unfold Rdiv; apply Rmult_le_pos; lra]). lra. }
  replace (fl_stddev rt - sigma r) with ((fl_stddev rt - sigma rt) + (sigma rt - sigma r)) by ring.
  eapply Rle_trans; [apply Rabs_triang|].
  assert (Rabs (sigma rt - sigma r) <= e) by (apply Rabs_le; lra).
  assert (G * (sigma rt + dmb) <= G * (sigma r + e + dm)) by (apply Rmult_le_compat_l; lra).
  lra.
Qed.

(* the whole residual computation for ANY summation trees of the rows of B c *)
Lemma residual_any_tree (rows : list (R * tree)) (e : R) :
  rows <> [] -> 0 <= e ->
  Forall (fun dt => Fmt (fst dt) /\ INR (leaves (snd dt)) * uR <= / 2 /\
                    tree_tol (snd dt) + uR * (Rabs (fst dt - exact (snd dt)) + tree_tol (snd dt)) <= e) rows ->
  INR (length rows + 4) * uR <= / 2 ->
  let rt := map (fun dt => RN (fst dt - evalf (snd dt))) rows in
  let r := map (fun dt => fst dt - exact (snd dt)) rows in
  let dm := (pw (length rows) - 1) * (Rasum r / len r + e) + etaR / 2 in
  Rabs (fl_stddev rt - sigma r)
  <= e + dm + (pw (length rows + 4) - 1) * (sigma r + e + dm) + (1 + uR) * sqrt (2 * etaR).
Proof.
  intros Hne He Hall Hsmall rt r dm.
  assert (Hlr : length r = length rows) by (unfold r; apply map_length).
  assert (Hc : close_by e rt r /\ Forall Fmt rt).
  { unfold rt, r. clear rt r dm Hlr Hsmall Hne. induction Hall as [|[d t] l (Hd & Hn & Hb) Hl IH]; cbn [map].
    - split; constructor.
    - destruct IH as [I1 I2]. cbn [fst snd] in *. split; constructor; auto.
      + eapply Rle_trans; [apply residual_entry_err; auto | exact Hb].
      + apply Fmt_RN. }
  destruct Hc as [Hc Hf].
  assert (Hnert : rt <> []) by (unfold rt; destruct rows; [congruence | discriminate]).
  pose proof (residual_stddev_bound rt r e Hnert Hf He Hc) as H. rewrite Hlr in H. apply H. exact Hsmall.
Qed.
