(* C13 — the dyadic references that the checker evaluates (Model.coef_x, resid_x, var_x) ARE the exact
   definitions of Model.v over Q (coef_def, resid_def, var_def) applied to the matrix entries read as
   rationals. *)
From Coq Require Import ZArith Reals QArith Qabs Qreals Lia Lra List Qfield Psatz.
From Coq Require Import ZifyBool ZifyNat.
From Flocq Require Import Core.
From Dastard Require Import Common.ZX C13.Model C13.Spec C13.FloatKit C13.ProofsQ C13.Bridge C13.Dyadic.
Import ListNotations.
Open Scope Q_scope.

Lemma dy2Q_dyR (a : dy) : Q2R (dy2Q a) = dyR a.
Proof. destruct a as [m e]. rewrite dy2Q_R. reflexivity. Qed.

Lemma dy2Q_add a b : dy2Q (dy_add a b) == dy2Q a + dy2Q b.
Proof. apply eqR_Qeq. rewrite Q2R_plus, !dy2Q_dyR. apply dyR_add. Qed.
Lemma dy2Q_opp a : dy2Q (dy_opp a) == - dy2Q a.
Proof. apply eqR_Qeq. rewrite Q2R_opp, !dy2Q_dyR. apply dyR_opp. Qed.
Lemma dy2Q_sub a b : dy2Q (dy_sub a b) == dy2Q a - dy2Q b.
Proof. apply eqR_Qeq. rewrite Q2R_minus, !dy2Q_dyR. apply dyR_sub. Qed.
Lemma dy2Q_mul a b : dy2Q (dy_mul a b) == dy2Q a * dy2Q b.
Proof. apply eqR_Qeq. rewrite Q2R_mult, !dy2Q_dyR. apply dyR_mul. Qed.
Lemma dy2Q_of_Z z : dy2Q (dy_of_Z z) == QZ z.
Proof. apply eqR_Qeq. rewrite dy2Q_dyR, dyR_of_Z, Q2R_QZ. reflexivity. Qed.
Lemma dy2Q_zero : dy2Q (0%Z, 0%Z) == 0.
Proof. reflexivity. Qed.
Lemma dy2Q_scale k a : dy2Q (dy_scale k a) == QZ k * dy2Q a.
Proof.
  apply eqR_Qeq. rewrite Q2R_mult, !dy2Q_dyR, Q2R_QZ. unfold dy_scale, dyR. cbn [fst snd].
  rewrite mult_IZR. ring.
Qed.

Lemma dy_sum_Q (l : list dy) : dy2Q (dy_sum l) == Qsum (map dy2Q l).
Proof.
  induction l as [|x r IH]; cbn [dy_sum fold_right map Qsum].
  - reflexivity.
  - fold (dy_sum r). fold (Qsum (map dy2Q r)). rewrite dy2Q_add, IH. reflexivity.
Qed.

Lemma dy_dot_Q : forall (a b : list dy), dy2Q (dy_dot a b) == Qdot (map dy2Q a) (map dy2Q b).
Proof.
  unfold dy_dot, Qdot. induction a as [|x r IH]; intros b.
  - reflexivity.
  - destruct b as [|y b']; [reflexivity|].
    cbn [combine map dy_sum fold_right Qsum fst snd].
    fold (dy_sum (map (fun xy : dy * dy => dy_mul (fst xy) (snd xy)) (combine r b'))).
    fold (Qsum (map (fun xy : Q * Q => fst xy * snd xy) (combine (map dy2Q r) (map dy2Q b')))).
    rewrite dy2Q_add, dy2Q_mul, IH. reflexivity.
Qed.

(* Qdot respects pointwise equality of its second argument *)
Lemma Qdot_compat_r (a : list Q) : forall b b', Forall2 Qeq b b' -> Qdot a b == Qdot a b'.
Proof.
  unfold Qdot. induction a as [|x r IH]; intros b b' H; [reflexivity|].
  destruct H as [|y y' b b' Hy Hb]; [reflexivity|].
  cbn [combine map Qsum fold_right fst snd].
  fold (Qsum (map (fun xy : Q * Q => fst xy * snd xy) (combine r b))).
  fold (Qsum (map (fun xy : Q * Q => fst xy * snd xy) (combine r b'))).
  rewrite Hy, (IH b b' Hb). reflexivity.
Qed.

Lemma map_of_Z_Q (d : list Z) : Forall2 Qeq (map dy2Q (map dy_of_Z d)) (map QZ d).
Proof. induction d; cbn [map]; constructor; auto. apply dy2Q_of_Z. Qed.

(* ---- coefficients ---- *)
Lemma coef_x_is_coef_def (P : list (list dy)) (d : list Z) :
  Forall2 Qeq (map dy2Q (coef_x P d)) (coef_def (map (map dy2Q) P) (map QZ d)).
Proof.
  unfold coef_x, coef_def. induction P as [|row P' IH]; cbn [map]; constructor; auto.
  rewrite dy_dot_Q. apply Qdot_compat_r. apply map_of_Z_Q.
Qed.

(* ---- residual ---- *)
Lemma resid_x_is_resid_def (B : list (list dy)) (c : list dy) : forall (d : list Z),
  Forall2 Qeq (map dy2Q (resid_x B c d)) (resid_def (map (map dy2Q) B) (map dy2Q c) (map QZ d)).
Proof.
  unfold resid_x, resid_def. induction B as [|row B' IH]; intros d; cbn [combine map]; [constructor|].
  destruct d as [|z d']; cbn [combine map]; constructor.
  - cbn [fst snd]. rewrite dy2Q_sub, dy2Q_of_Z, dy_dot_Q. reflexivity.
  - apply IH.
Qed.

(* ---- variance ---- *)
Lemma Qsum_compat : forall l l', Forall2 Qeq l l' -> Qsum l == Qsum l'.
Proof.
  induction 1 as [|x y l l' Hx Hl IH]; cbn [Qsum fold_right]; [reflexivity|].
  fold (Qsum l). fold (Qsum l'). rewrite Hx, IH. reflexivity.
Qed.

Lemma Forall2_zlen {A B} (R : A -> B -> Prop) l l' : Forall2 R l l' -> zlen l = zlen l'.
Proof. intros H. unfold zlen. f_equal. induction H; cbn [length]; congruence. Qed.

Lemma sq_dev_compat a a' : a == a' -> forall l l', Forall2 Qeq l l' ->
  Forall2 Qeq (map (fun x => Qsq (x - a)) l) (map (fun x => Qsq (x - a')) l').
Proof.
  intros Ha. induction 1 as [|x y l l' Hx Hl IH]; cbn [map]; constructor; auto.
  unfold Qsq. rewrite Hx, Ha. reflexivity.
Qed.

Lemma var_def_compat r r' : Forall2 Qeq r r' -> var_def r == var_def r'.
Proof.
  intros H. unfold var_def. rewrite <- (Forall2_zlen _ _ _ H).
  set (n := QZ (zlen r)).
  assert (Hs : Qsum r == Qsum r') by (apply Qsum_compat; auto).
  assert (Hq : Qsum (map (fun x => Qsq (x - Qsum r / n)) r) == Qsum (map (fun x => Qsq (x - Qsum r' / n)) r')).
  { apply Qsum_compat. apply sq_dev_compat; auto. rewrite Hs. reflexivity. }
  rewrite Hq. reflexivity.
Qed.

(* sum (x - s/n)^2 * n^2 = sum (n x - s)^2 *)
Lemma var_scale (s n : Q) : ~ n == 0 -> forall l,
  Qsum (map (fun x => Qsq (x - s / n)) l) * (n * n) == Qsum (map (fun x => Qsq (n * x - s)) l).
Proof.
  intros Hn. induction l as [|x r IH]; cbn [map Qsum fold_right]; [ring|].
  fold (Qsum (map (fun x => Qsq (x - s / n)) r)). fold (Qsum (map (fun x => Qsq (n * x - s)) r)).
  rewrite <- IH. unfold Qsq. field. exact Hn.
Qed.

Lemma var_x_is_var_def (r : list dy) : r <> [] -> var_x r == var_def (map dy2Q r).
Proof.
  intros Hne. unfold var_x, var_def, var_num_x.
  assert (Hlen : zlen (map dy2Q r) = zlen r) by (unfold zlen; rewrite map_length; reflexivity).
  rewrite Hlen. set (n := zlen r).
  assert (Hn : ~ QZ n == 0).
  { apply QZ_nonzero. unfold n, zlen. destruct r; [congruence | cbn [length]; lia]. }
  rewrite dy_sum_Q, map_map.
  assert (Hq : Qsum (map (fun x => dy2Q (let t := dy_sub (dy_scale n x) (dy_sum r) in dy_mul t t)) r)
               == Qsum (map (fun x => Qsq (QZ n * x - Qsum (map dy2Q r))) (map dy2Q r))).
  { rewrite map_map. apply Qsum_compat.
    assert (G : forall l, Forall2 Qeq
              (map (fun x => dy2Q (let t := dy_sub (dy_scale n x) (dy_sum r) in dy_mul t t)) l)
              (map (fun x => Qsq (QZ n * dy2Q x - Qsum (map dy2Q r))) l)).
    { induction l; cbn [map]; constructor; auto.
      cbv zeta. rewrite dy2Q_mul, dy2Q_sub, dy2Q_scale, dy_sum_Q. unfold Qsq. reflexivity. }
    apply G. }
  rewrite Hq. rewrite <- (var_scale (Qsum (map dy2Q r)) (QZ n) Hn).
  rewrite !QZ_mult. field. exact Hn.
Qed.

(* ---- everything the projection part of the checker compares against ---- *)
Lemma dyadic_refs_are_definitions (P B : list (list dy)) (c : list dy) (d : list Z) :
  Forall2 Qeq (map dy2Q (coef_x P d)) (coef_def (map (map dy2Q) P) (map QZ d)) /\
  (B <> [] -> d <> [] ->
   var_x (resid_x B c d) == var_def (resid_def (map (map dy2Q) B) (map dy2Q c) (map QZ d))).
Proof.
  split; [apply coef_x_is_coef_def|].
  intros HB Hd. rewrite var_x_is_var_def.
  - apply var_def_compat. apply resid_x_is_resid_def.
  - unfold resid_x. destruct B; [congruence|]. destruct d; [congruence|]. cbn. discriminate.
Qed.
