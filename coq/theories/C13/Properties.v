(* C13 — property theorems only: each closed by [exact], each followed by Print Assumptions.
   FR f = the real value of the float64 f, Ffin f = f is finite, RN = rounding to nearest even in
   binary64 (FloatKit.v); S0 V2 S1 S2 MX = the exact integer sums of Model.v. *)
From Coq Require Import ZArith Reals Floats List QArith.
From Flocq Require Import Core.
From Dastard Require Import Common.ZX C13.Model C13.ModelFloat C13.Spec C13.FloatKit C13.Proofs.

(* No rounding occurs in the two accumulation loops of AnalyzeData: the float accumulators hold the
   exact integer (half-integer for the slope accumulator) sums. *)
Theorem sums_exact :
  forall signed p raw,
    words_ok raw = true -> (1 <= p)%Z -> (p + 1 <= zlen raw)%Z ->
    (p * p * 2 ^ 17 < 2 ^ 53)%Z -> ((zlen raw - p) * 2 ^ 32 < 2 ^ 53)%Z ->
    let ds := map (interp signed) raw in
    let val := fst (acc_pre signed p raw) in
    let valPTDelta := snd (acc_pre signed p raw) in
    let sum := fst (fst (acc_post signed p raw)) in
    let sum2 := snd (fst (acc_post signed p raw)) in
    let max := snd (acc_post signed p raw) in
    (Ffin val /\ FR val = IZR (S0 ds p)) /\
    (Ffin valPTDelta /\ FR valPTDelta = (IZR (V2 ds p) / 2)%R) /\
    (Ffin sum /\ FR sum = IZR (S1 ds p)) /\
    (Ffin sum2 /\ FR sum2 = IZR (S2 ds p)) /\
    (Ffin max /\ FR max = Rmax (FR (ptm_of signed p raw)) (IZR (MX ds p))).
Proof. exact sums_exact_all. Qed.
Print Assumptions sums_exact.

(* Rounding structure of the five results (ptmean_one_rounding and its companions): the pre-trigger
   mean is ONE correctly rounded division of the exact sum; delta two roundings; average two; peak one;
   the mean square is the code's expansion with one rounding per operation, clamped at 0, then a
   correctly rounded square root.  All five results are finite. *)
Theorem scalars_rounding_structure :
  forall signed p raw,
    words_ok raw = true -> (2 <= p)%Z -> (p + 1 <= zlen raw)%Z ->
    (p * p * 2 ^ 17 < 2 ^ 53)%Z -> ((zlen raw - p) * 2 ^ 32 < 2 ^ 53)%Z ->
    let ds := map (interp signed) raw in
    let N := (zlen raw - p)%Z in
    let mu := RN (IZR (S0 ds p) / IZR p) in
    let m1 := RN (IZR (S1 ds p) / IZR N) in
    let m2 := RN (IZR (S2 ds p) / IZR N) in
    let ms := RN (RN (m2 - RN (RN (2 * mu) * m1)) + RN (mu * mu)) in
    exists s, analyze signed p raw = Ok s /\
      (Ffin (s_ptm s) /\ FR (s_ptm s) = mu) /\
      (Ffin (s_delta s) /\ FR (s_delta s) = RN (RN (IZR (V2 ds p) / 2 * 12) / IZR (p * (p + 1)))) /\
      (Ffin (s_avg s) /\ FR (s_avg s) = RN (m1 - mu)) /\
      (Ffin (s_rms s) /\ FR (s_rms s) = RN (R_sqrt.sqrt (Rmax 0 ms))) /\
      (Ffin (s_peak s) /\ FR (s_peak s) = RN (Rmax mu (IZR (MX ds p)) - mu)).
Proof. exact analyze_structure. Qed.
Print Assumptions scalars_rounding_structure.
