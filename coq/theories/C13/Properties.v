(* C13 — property theorems only: each closed by [exact], each followed by Print Assumptions.
   FR f = the real value of the float64 f, Ffin f = f is finite, RN = rounding to nearest even in
   binary64 (FloatKit.v); S0 V2 S1 S2 MX = the exact integer sums of Model.v. *)
From Coq Require Import ZArith Reals Floats List QArith Permutation.
From Flocq Require Import Core.
From Dastard Require Import Common.ZX C13.Model C13.ModelFloat C13.Spec C13.FloatKit C13.Proofs C13.ProofsQ C13.Bridge C13.Meets C13.Rms C13.Tree C13.Dyadic C13.DyadicQ C13.StdDev.

(* No rounding occurs in the two accumulation loops of AnalyzeData: the float accumulators hold the
   exact integer (half-integer for the slope accumulator) sums. *)
Theorem sums_exact :
  forall signed p raw,
    words_ok raw = true -> (1 <= p)%Z -> (p + 1 <= zlen raw)%Z ->
    (p * p * 2 ^ 17 < 2 ^ 53)%Z -> ((zlen raw - p) * 2 ^ 32 < 2 ^ 53)%Z ->
    let ds := map (interp signed) raw in
    let val := fst (acc_pre signed p raw) in
    let valPTDelta := snd (acc_pre signed p raw) in
    let sum := fst (fst (acc_post signed p raw)) in
    let sum2 := snd (fst (acc_post signed p raw)) in
    let max := snd (acc_post signed p raw) in
    (Ffin val /\ FR val = IZR (S0 ds p)) /\
    (Ffin valPTDelta /\ FR valPTDelta = (IZR (V2 ds p) / 2)%R) /\
    (Ffin sum /\ FR sum = IZR (S1 ds p)) /\
    (Ffin sum2 /\ FR sum2 = IZR (S2 ds p)) /\
    (Ffin max /\ FR max = Rmax (FR (ptm_of signed p raw)) (IZR (MX ds p))).
Proof. exact sums_exact_all. Qed.
Print Assumptions sums_exact.

(* Rounding structure of the five results (ptmean_one_rounding and its companions): the pre-trigger
   mean is ONE correctly rounded division of the exact sum; delta two roundings; average two; peak one;
   the mean square is the code's expansion with one rounding per operation, clamped at 0, then a
   correctly rounded square root.  All five results are finite. *)
Theorem scalars_rounding_structure :
  forall signed p raw,
    words_ok raw = true -> (2 <= p)%Z -> (p + 1 <= zlen raw)%Z ->
    (p * p * 2 ^ 17 < 2 ^ 53)%Z -> ((zlen raw - p) * 2 ^ 32 < 2 ^ 53)%Z ->
    let ds := map (interp signed) raw in
    let N := (zlen raw - p)%Z in
    let mu := RN (IZR (S0 ds p) / IZR p) in
    let m1 := RN (IZR (S1 ds p) / IZR N) in
    let m2 := RN (IZR (S2 ds p) / IZR N) in
    let ms := RN (RN (m2 - RN (RN (2 * mu) * m1)) + RN (mu * mu)) in
    exists s, analyze signed p raw = Ok s /\
      (Ffin (s_ptm s) /\ FR (s_ptm s) = mu) /\
      (Ffin (s_delta s) /\ FR (s_delta s) = RN (RN (IZR (V2 ds p) / 2 * 12) / IZR (p * (p + 1)))) /\
      (Ffin (s_avg s) /\ FR (s_avg s) = RN (m1 - mu)) /\
      (Ffin (s_rms s) /\ FR (s_rms s) = RN (R_sqrt.sqrt (Rmax 0 ms))) /\
      (Ffin (s_peak s) /\ FR (s_peak s) = RN (Rmax mu (IZR (MX ds p)) - mu)).
Proof. exact analyze_structure. Qed.
Print Assumptions scalars_rounding_structure.

(* Exact arithmetic (Q): the closed forms that the checker evaluates are the textbook definitions of
   Model.v — mean; 12 sum (d_i-d_0)(i-(p-1)/2) / (p(p+1)); mean of the pulse minus mu;
   sum (d_i-mu)^2 / N (= the code's expansion S2/N - 2 mu S1/N + mu^2); max(mu, max d_i) - mu. *)
Theorem closed_forms_are_definitions :
  forall ds p, (0 < p)%Z -> (p < zlen ds)%Z ->
    (mu_x ds p == mu ds p)%Q /\ (delta_x ds p == delta_def ds p)%Q /\ (avg_x ds p == avg_def ds p)%Q /\
    (ms_x ds p == ms_def ds p)%Q /\ (peak_x ds p == peak_def ds p)%Q.
Proof. exact closed_forms_all. Qed.
Print Assumptions closed_forms_are_definitions.

(* The delta formula equals the least-squares slope of (i, d_i), i < p, times the span p - 1. *)
Theorem delta_is_slope_times_span :
  forall ds p, (2 <= p <= zlen ds)%Z ->
    (delta_def ds p == ls_slope ds p * (QZ p - 1))%Q.
Proof. exact delta_is_slope. Qed.
Print Assumptions delta_is_slope_times_span.

(* rms_bound: the mean square as the code computes it (its expansion, one rounding per operation) is
   within 6u (S2/N + 2|mu||S1/N| + mu^2) of the exact value S2/N - 2 mu S1/N + mu^2 (which equals
   sum (d_i-mu)^2 / N by closed_forms_are_definitions); u = 2^-53. *)
Theorem rms_bound :
  forall signed p raw,
    words_ok raw = true -> (2 <= p)%Z -> (p + 1 <= zlen raw)%Z ->
    (p * p * 2 ^ 17 < 2 ^ 53)%Z -> ((zlen raw - p) * 2 ^ 32 < 2 ^ 53)%Z ->
    let ds := map (interp signed) raw in
    let N := (zlen raw - p)%Z in
    let x0 := (IZR (S0 ds p) / IZR p)%R in
    let x1 := (IZR (S1 ds p) / IZR N)%R in
    let X2 := (IZR (S2 ds p) / IZR N)%R in
    let mu := RN x0 in let m1 := RN x1 in let m2 := RN X2 in
    let ms := RN (RN (m2 - RN (RN (2 * mu) * m1)) + RN (mu * mu)) in
    (Rabs (ms - (X2 - 2 * x0 * x1 + x0 * x0)) <= 6 * bpow radix2 (-53) * (X2 + 2 * Rabs x0 * Rabs x1 + x0 * x0))%R.
Proof. exact ms_r_bound. Qed.
Print Assumptions rms_bound.

(* THE SCALAR PART OF THE PROPERTY, in full: for every record in the domain the five values computed by
   the float model pass the checker, i.e. they equal their exact definitions within the tolerances
   stated in Spec.v (one to five roundings each; the RMS through its square). *)
Theorem scalars_meet_definitions_all :
  forall signed p raw,
    words_ok raw = true -> (2 <= p)%Z -> (p + 1 <= zlen raw)%Z ->
    (p * p * 2 ^ 17 < 2 ^ 53)%Z -> ((zlen raw - p) * 2 ^ 32 < 2 ^ 53)%Z ->
    exists s, analyze signed p raw = Ok s /\ check_scalars (map (interp signed) raw) p s = true.
Proof. exact scalars_meet_all. Qed.
Print Assumptions scalars_meet_definitions_all.

(* a concrete non-trivial input meets the hypotheses shared by the theorems above *)
Example hypotheses_are_satisfiable :
  let raw := [40000; 40001; 40003; 50000; 65535; 7]%Z in
  words_ok raw = true /\ (2 <= 3)%Z /\ (3 + 1 <= zlen raw)%Z /\
  (3 * 3 * 2 ^ 17 < 2 ^ 53)%Z /\ ((zlen raw - 3) * 2 ^ 32 < 2 ^ 53)%Z.
Proof. exact hypotheses_example. Qed.

(* The code before the fix (no clamp of a negative mean square): on the record 59999, 60000 x 2073 with
   2073 presamples, which is in the domain, pulseRMS is NaN and the checker rejects it. *)
Theorem pulse_rms_refuted_pre_fix :
  in_domain {| i_signed := false; i_pre := 2073; i_data := nan_witness; i_proj := None |} = true /\
  exists s, analyze_old false 2073 nan_witness = Ok s /\
            PrimFloat.is_nan (s_rms s) = true /\
            chk_rms (map (interp false) nan_witness) 2073 (s_rms s) = false.
Proof. exact rms_nan_before_fix. Qed.
Print Assumptions pulse_rms_refuted_pre_fix.

(* projection_tree_bound: a dot product sum_i a_i b_i evaluated in binary64 with every product rounded
   once and the rounded products added in ANY order (t ranges over all binary summation trees; every
   addition rounded once) is within  gamma_n sum |a_i b_i| + n eta  of the exact value, n = number of
   products, gamma_n = n u / (1 - n u), u = 2^-53, eta = 2^-1074.  This is the per-row tolerance of the
   checker (coef_row_ok) for the model coefficients P d, and the a_i term of the residual tolerance. *)
Theorem projection_tree_bound :
  forall t : tree,
    let n := INR (leaves t) in
    (n * bpow radix2 (-53) <= / 2)%R ->
    (Rabs (evalf t - exact t)
     <= n * bpow radix2 (-53) / (1 - n * bpow radix2 (-53)) * mag t + n * bpow radix2 (-1074))%R.
Proof. exact tree_bound_gamma. Qed.
Print Assumptions projection_tree_bound.

Example tree_hypothesis_is_satisfiable :
  let t := Node (Leaf 3 (/ 7)) (Node (Leaf (-5) 11) (Leaf (bpow radix2 (-40)) 65535)) in
  (INR (leaves t) * bpow radix2 (-53) <= / 2)%R.
Proof. exact tree_example. Qed.

(* The checker's test of one model coefficient (Spec.chk_coefs applies coef_row_ok to every projector
   row with exactly these arguments) accepts the float result of EVERY summation-tree evaluation of that
   row: t ranges over all trees whose leaves are the products P_ij * d_j of the row in any order; c is
   the reported coefficient read as a dyadic number (dyR c = its real value); the reference values are
   the checker's exact dyadic dot products. *)
Theorem coefficient_check_accepts_any_summation_tree :
  forall (row : list dy) (d : list Z) (t : tree) (c : dy),
    length row = length d -> (1 <= length d)%nat -> (zlen d < 2 ^ 52)%Z ->
    Permutation (leaf_list t) (pairsR row d) ->
    dyR c = evalf t ->
    coef_row_ok (zlen d) c (dy_dot row (map dy_of_Z d))
                (dy_dot (map dy_abs row) (map (fun x => dy_of_Z (Z.abs x)) d)) = true.
Proof. exact coef_check_accepts_any_tree. Qed.
Print Assumptions coefficient_check_accepts_any_summation_tree.

(* The coefficient half of the projection part at the level of the checker (chk_coefs is what C13_check
   runs on the reported coefficients): every row evaluated by some summation tree  ==>  accepted. *)
Theorem coefficients_meet_definitions_all :
  forall (P : list (list dy)) (d : list Z) (c : list dy),
    (1 <= length d)%nat -> (zlen d < 2 ^ 52)%Z ->
    Forall2 (fun row ci => length row = length d /\
                           exists t, Permutation (leaf_list t) (pairsR row d) /\ dyR ci = evalf t) P c ->
    chk_coefs (zlen d) P d c = true.
Proof. exact coefficients_meet_all. Qed.
Print Assumptions coefficients_meet_definitions_all.

(* The references of the projection part of the checker ARE the definitions of Model.v: the dyadic
   evaluations coef_x (P d), resid_x (d - B c) and var_x (population variance, computed as
   sum (n r_i - sum r)^2 / n^3) equal, over Q, the textbook coef_def / resid_def / var_def applied to the
   matrix entries read as rationals (dy2Q). *)
Theorem dyadic_references_are_definitions :
  forall (P B : list (list dy)) (c : list dy) (d : list Z),
    Forall2 Qeq (map dy2Q (coef_x P d)) (coef_def (map (map dy2Q) P) (map QZ d)) /\
    (B <> nil -> d <> nil ->
     (var_x (resid_x B c d) == var_def (resid_def (map (map dy2Q) B) (map dy2Q c) (map QZ d)))%Q).
Proof. exact dyadic_refs_are_definitions. Qed.
Print Assumptions dyadic_references_are_definitions.

(* The residual standard deviation, real-number level (u = uR = 2^-53, eta = etaR = 2^-1074,
   pw k = (1+u)^k, Fmt = is a binary64 number, RN = round to nearest even).
   fl_stddev is dastard's stdDev (process_data.go) operation for operation: s += v sequentially,
   mean = s/n, x = v - mean, s2 += x*x sequentially, sqrt(s2/n); sigma is the exact population standard
   deviation.

   stddev_two_pass_bound: for ANY non-empty vector of binary64 numbers the float result is within
   dmb + ((1+u)^(n+4) - 1)(sigma + dmb) + (1+u) sqrt(2 eta) of sigma, dmb = ((1+u)^n - 1) mean|l| + eta/2. *)
Theorem stddev_two_pass_bound :
  forall l : list R, l <> nil -> Forall Fmt l -> (INR (length l + 4) * uR <= / 2)%R ->
    let dmb := ((pw (length l) - 1) * (Rasum l / len l) + etaR / 2)%R in
    (Rabs (fl_stddev l - sigma l)
     <= dmb + (pw (length l + 4) - 1) * (sigma l + dmb) + (1 + uR) * R_sqrt.sqrt (2 * etaR))%R.
Proof. exact StdDev.stddev_two_pass_bound. Qed.
Print Assumptions stddev_two_pass_bound.

(* The standard deviation is 1-Lipschitz for the max norm: entries within e => sigmas within e. *)
Theorem sigma_is_lipschitz :
  forall (e : R) (a b : list R), (0 <= e)%R -> a <> nil ->
    Forall2 (fun x y => (Rabs (x - y) <= e)%R) a b -> (Rabs (sigma a - sigma b) <= e)%R.
Proof. exact sigma_lipschitz. Qed.
Print Assumptions sigma_is_lipschitz.

(* residual_stddev_any_tree: the whole residual computation. rows = the samples d_i (binary64) paired with
   ANY summation tree t_i whose leaves are the products B_ij c_j of row i; the implementation computes
   rt_i = RN(d_i - evalf t_i) and s = fl_stddev rt; the exact residuals are r_i = d_i - exact t_i.  If e
   bounds the entry errors  tree_tol t_i + u (|r_i| + tree_tol t_i)  (tree_tol = the bound of
   projection_tree_bound), then |s - sigma r| <= E(e) below.  This is the derivation behind the checker's
   residual tolerance (design.d/C13.md), now a theorem over the reals. *)
Theorem residual_stddev_any_tree :
  forall (rows : list (R * tree)) (e : R),
    rows <> nil -> (0 <= e)%R ->
    Forall (fun dt => Fmt (fst dt) /\ (INR (leaves (snd dt)) * uR <= / 2)%R /\
                      (tree_tol (snd dt) + uR * (Rabs (fst dt - exact (snd dt)) + tree_tol (snd dt)) <= e)%R) rows ->
    (INR (length rows + 4) * uR <= / 2)%R ->
    let rt := map (fun dt => RN (fst dt - evalf (snd dt))) rows in
    let r := map (fun dt => (fst dt - exact (snd dt))%R) rows in
    let dm := ((pw (length rows) - 1) * (Rasum r / len r + e) + etaR / 2)%R in
    (Rabs (fl_stddev rt - sigma r)
     <= e + dm + (pw (length rows + 4) - 1) * (sigma r + e + dm) + (1 + uR) * R_sqrt.sqrt (2 * etaR))%R.
Proof. exact residual_any_tree. Qed.
Print Assumptions residual_stddev_any_tree.
