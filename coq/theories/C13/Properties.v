(* C13 — property theorems only. *)
From Dastard Require Import Common.ZX C13.Model C13.ModelFloat C13.Spec C13.Proofs.
