(* C13 — the float model's results pass the checker's tests against the exact definitions
   (pre-trigger mean, delta, pulse average, peak value). *)
From Coq Require Import ZArith Reals QArith Qabs Qreals Floats Lia Lra List Psatz.
From Coq Require Import ZifyBool ZifyNat.
From Flocq Require Import Core.
From Dastard Require Import Common.ZX C13.Model C13.ModelFloat C13.Spec C13.FloatKit C13.Proofs C13.ProofsQ C13.Bridge.
Import ListNotations.
Open Scope R_scope.

Lemma uR_small : 0 < uR <= / 2.
Proof.
  unfold uR. split; [apply bpow_gt_0|].
  change (/ 2) with (bpow radix2 (-1)). apply bpow_le. lia.
Qed.

Lemma ratio_lower53 z n : (z <> 0)%Z -> (0 < n < 2 ^ 53)%Z -> bpow radix2 (-53) <= Rabs (IZR z / IZR n).
Proof.
  intros Hz Hn.
  assert (Hn' : 0 < IZR n) by (apply IZR_lt; lia).
  apply Rle_trans with (/ IZR n).
  - change (bpow radix2 (-53)) with (/ bpow radix2 53). apply Rinv_le_contravar; auto.
    rewrite bpow_IZR by lia. apply IZR_le. lia.
  - unfold Rdiv. rewrite Rabs_mult. rewrite (Rabs_pos_eq (/ IZR n)) by (left; apply Rinv_0_lt_compat; auto).
    assert (1 <= Rabs (IZR z)).
    { rewrite <- abs_IZR. apply IZR_le. lia. }
    assert (0 < / IZR n) by (apply Rinv_0_lt_compat; auto). nra.
Qed.
Lemma ratio_lower z n : (z <> 0)%Z -> (0 < n < 2 ^ 53)%Z -> bpow radix2 (-1022) <= Rabs (IZR z / IZR n).
Proof.
  intros Hz Hn. apply Rle_trans with (bpow radix2 (-53)); [apply bpow_le; lia | apply ratio_lower53; auto].
Qed.

Lemma ratio_cases z n : (0 < n < 2 ^ 53)%Z ->
  IZR z / IZR n = 0 \/ bpow radix2 (-1022) <= Rabs (IZR z / IZR n).
Proof.
  intros Hn. destruct (Z.eq_dec z 0) as [->|Hz].
  - left. unfold Rdiv. ring.
  - right. apply ratio_lower; auto.
Qed.

Section Meets.
  Variable signed : bool.
  Variable p : Z.
  Variable raw : list Z.
  Hypothesis Hw : words_ok raw = true.
  Hypothesis Hp : (2 <= p)%Z.
  Hypothesis Hn : (p + 1 <= zlen raw)%Z.
  Hypothesis Hpp : (p * p * 2 ^ 17 < 2 ^ 53)%Z.
  Hypothesis HN : ((zlen raw - p) * 2 ^ 32 < 2 ^ 53)%Z.

  Let ds := map (interp signed) raw.
  Let N := (zlen raw - p)%Z.
  Let x0 := IZR (S0 ds p) / IZR p.
  Let x1 := IZR (S1 ds p) / IZR N.

  Lemma NN_is_N : NN ds p = N.
  Proof.
    rewrite NN_val; unfold ds, N, zlen; rewrite ?map_length; unfold zlen in Hn; lia.
  Qed.

  Lemma Q2R_mu_x : Q2R (mu_x ds p) = x0.
  Proof. unfold mu_x. rewrite Q2R_div_QZ by lia. reflexivity. Qed.
  Lemma Q2R_m1_x : Q2R (m1_x ds p) = x1.
  Proof. unfold m1_x. rewrite NN_is_N. rewrite Q2R_div_QZ by (unfold N; lia). reflexivity. Qed.

  Lemma mu_r_rel : exists e, Rabs e <= uR /\ mu_r signed p raw = x0 * (1 + e).
  Proof. unfold mu_r. apply RN_rel. apply ratio_cases. nia. Qed.
  Lemma m1_r_rel : exists e, Rabs e <= uR /\ m1_r signed p raw = x1 * (1 + e).
  Proof. unfold m1_r. apply RN_rel. apply ratio_cases. unfold N in *. lia. Qed.

  Lemma model_meets_4 :
    exists s, analyze signed p raw = Ok s /\
      chk_ptm ds p (s_ptm s) = true /\ chk_delta ds p (s_delta s) = true /\
      chk_avg ds p (s_avg s) = true /\ chk_peak ds p (s_peak s) = true.
  Proof.
    destruct (analyze_structure signed p raw Hw Hp Hn Hpp HN) as (s & Hs & [Hf1 Hv1] & [Hf2 Hv2] & [Hf3 Hv3] & _ & [Hf5 Hv5]).
    fold ds in Hv2, Hv5. exists s. split; [exact Hs|].
    pose proof uR_small as Hu.
    destruct mu_r_rel as (e0 & He0 & Hmu).
    destruct m1_r_rel as (e1 & He1 & Hm1).
    apply Rabs_le_inv in He0. apply Rabs_le_inv in He1.
    repeat split.
    - (* ptm *)
      unfold chk_ptm. destruct (Q_of_float_exact _ Hf1) as (q & Hq1 & Hq2). rewrite Hq1.
      apply within_R. rewrite Q2R_mult, Q2R_Qabs, Q2R_uQ, Q2R_mu_x, Hq2, Hv1, Hmu. fold uR.
      replace (x0 * (1 + e0) - x0) with (x0 * e0) by ring. rewrite Rabs_mult, Rmult_comm.
      apply Rmult_le_compat_r; [apply Rabs_pos | apply Rabs_le; lra].
    - (* delta *)
      unfold chk_delta. destruct (Q_of_float_exact _ Hf2) as (q & Hq1 & Hq2). rewrite Hq1.
      apply within_R.
      assert (Hq : (0 < p * (p + 1) < 2 ^ 53)%Z) by nia.
      assert (Hdx : Q2R (delta_x ds p) = IZR (6 * V2 ds p) / IZR (p * (p + 1))).
      { unfold delta_x. rewrite Q2R_div_QZ by lia. reflexivity. }
      rewrite Q2R_mult, Q2R_Qabs, Q2R_plus, !Q2R_mult, Q2R_uQ, Hdx, Hq2, Hv2. fold uR.
      change (Q2R 2) with (Q2R (QZ 2)). rewrite Q2R_QZ.
      replace (IZR (V2 ds p) / 2 * 12) with (IZR (6 * V2 ds p)) by (rewrite mult_IZR; field).
      set (a := IZR (6 * V2 ds p)). set (qq := IZR (p * (p + 1))).
      assert (Hqq : 1 <= qq) by (apply IZR_le; lia).
      destruct (Z.eq_dec (6 * V2 ds p) 0) as [Hz|Hz].
      + unfold a. rewrite Hz. unfold RN at 2. rewrite round_0 by apply valid_rnd_N.
        unfold Rdiv. rewrite !Rmult_0_l. unfold RN. rewrite round_0 by apply valid_rnd_N.
        rewrite Rminus_0_r, Rabs_R0. lra.
      + assert (Ha : 1 <= Rabs a) by (unfold a; rewrite <- abs_IZR; apply IZR_le; lia).
        destruct (RN_rel a) as (e2 & He2 & Hy1).
        { right. apply Rle_trans with 1; auto. change 1 with (bpow radix2 0). apply bpow_le. lia. }
        apply Rabs_le_inv in He2.
        destruct (RN_rel (RN a / qq)) as (e3 & He3 & Hy2).
        { right. rewrite Hy1.
          replace (a * (1 + e2) / qq) with ((1 + e2) * (a / qq)) by (field; lra).
          rewrite Rabs_mult. rewrite (Rabs_pos_eq (1 + e2)) by lra.
          apply Rle_trans with (/ 2 * bpow radix2 (-53)).
          - change (/ 2) with (bpow radix2 (-1)). rewrite <- bpow_plus. apply bpow_le. lia.
          - apply Rmult_le_compat; try lra; [apply bpow_ge_0|].
            unfold a, qq. apply ratio_lower53; auto. }
        apply Rabs_le_inv in He3.
        rewrite Hy2, Hy1.
        replace (a * (1 + e2) / qq * (1 + e3) - a / qq) with ((a / qq) * (e2 + e3 + e2 * e3)) by (field; lra).
        rewrite Rabs_mult, Rmult_comm. apply Rmult_le_compat_r; [apply Rabs_pos|].
        apply Rabs_le. split; nra.
    - (* avg *)
      unfold chk_avg. destruct (Q_of_float_exact _ Hf3) as (q & Hq1 & Hq2). rewrite Hq1.
      apply within_R.
      assert (Hax : Q2R (avg_x ds p) = x1 - x0).
      { unfold avg_x. rewrite Q2R_minus, Q2R_m1_x, Q2R_mu_x. reflexivity. }
      repeat (rewrite Q2R_plus || rewrite Q2R_mult || rewrite Q2R_Qabs).
      rewrite Q2R_uQ, Hax, Q2R_m1_x, Q2R_mu_x, Hq2, Hv3. fold uR.
      change (Q2R 1) with (Q2R (QZ 1)). rewrite Q2R_QZ.
      destruct (RN_rel_minus (m1_r signed p raw) (mu_r signed p raw) (Fmt_RN _) (Fmt_RN _)) as (e3 & He3 & Hy).
      apply Rabs_le_inv in He3.
      rewrite Hy, Hm1, Hmu.
      replace (((x1 * (1 + e1) - x0 * (1 + e0)) * (1 + e3)) - (x1 - x0))
        with ((x1 * e1 - x0 * e0) * (1 + e3) + (x1 - x0) * e3) by ring.
      eapply Rle_trans; [apply Rabs_triang|].
      apply Rplus_le_compat.
      + rewrite Rabs_mult.
        assert (H1 : Rabs (x1 * e1 - x0 * e0) <= uR * (Rabs x1 + Rabs x0)).
        { eapply Rle_trans; [apply Rabs_triang|]. rewrite Rabs_Ropp, !Rabs_mult.
          assert (Rabs e1 <= uR) by (apply Rabs_le; lra).
          assert (Rabs e0 <= uR) by (apply Rabs_le; lra).
          pose proof (Rabs_pos x1). pose proof (Rabs_pos x0). nra. }
        assert (H2 : Rabs (1 + e3) <= 1 + uR) by (apply Rabs_le; lra).
        pose proof (Rabs_pos (x1 * e1 - x0 * e0)). pose proof (Rabs_pos x1). pose proof (Rabs_pos x0).
        pose proof (Rabs_pos (1 + e3)). nra.
      + rewrite Rabs_mult, Rmult_comm. apply Rmult_le_compat_r; [apply Rabs_pos | apply Rabs_le; lra].
    - (* peak *)
      unfold chk_peak. destruct (Q_of_float_exact _ Hf5) as (q & Hq1 & Hq2). rewrite Hq1.
      apply within_R.
      repeat (rewrite Q2R_plus || rewrite Q2R_mult || rewrite Q2R_Qabs).
      rewrite Q2R_uQ, Q2R_mu_x, Hq2, Hv5. fold uR.
      change (Q2R 1) with (Q2R (QZ 1)). rewrite Q2R_QZ.
      set (M := IZR (MX ds p)).
      assert (HM : Fmt M).
      { unfold M. apply Fmt_int.
        pose proof (ds_range signed raw Hw) as Hall. fold ds in Hall.
        assert (Hpost : Forall srange (post ds p)) by (apply Forall_skipn; auto).
        assert (Hne : post ds p <> []).
        { intros E. pose proof NN_is_N as HNN. unfold NN in HNN. rewrite E in HNN. unfold zlen in HNN at 1. cbn in HNN. unfold N in *. lia. }
        unfold MX, Zmaxl. destruct (post ds p) as [|x r]; [congruence|].
        inversion Hpost as [|? ? Hx Hr]; subst.
        assert (H : forall l, Forall srange l -> srange (fold_right Z.max x l)).
        { induction 1 as [|y l Hy Hl IHl]; cbn [fold_right]; auto. unfold srange in *. lia. }
        specialize (H r Hr). unfold srange in H. lia. }
      assert (Hpx : Q2R (peak_x ds p) = if (S0 ds p <? MX ds p * p)%Z then M - x0 else 0).
      { unfold peak_x. destruct (S0 ds p <? MX ds p * p)%Z.
        - rewrite Q2R_minus, Q2R_QZ, Q2R_mu_x. reflexivity.
        - apply RMicromega.Q2R_0. }
      rewrite Hpx.
      assert (Hp' : 0 < IZR p) by (apply IZR_lt; lia).
      assert (Hcmp : (S0 ds p <? MX ds p * p)%Z = true <-> x0 < M).
      { unfold x0, M. rewrite Z.ltb_lt. split; intros H.
        - apply Rmult_lt_reg_r with (IZR p); auto. unfold Rdiv. rewrite Rmult_assoc, Rinv_l by lra.
          rewrite Rmult_1_r, <- mult_IZR. apply IZR_lt. exact H.
        - apply lt_IZR. rewrite mult_IZR.
          apply Rmult_lt_compat_r with (r := IZR p) in H; auto.
          unfold Rdiv in H. rewrite Rmult_assoc, Rinv_l, Rmult_1_r in H by lra. exact H. }
      destruct (Rle_or_lt M (mu_r signed p raw)) as [Hle|Hgt].
      + (* the float maximum stays at ptm: the code reports 0 *)
        rewrite Rmax_left by exact Hle.
        replace (mu_r signed p raw - mu_r signed p raw) with 0 by ring.
        unfold RN. rewrite round_0 by apply valid_rnd_N. fold (RN 0).
        destruct (Bool.bool_dec (S0 ds p <? MX ds p * p)%Z true) as [E|E];
          [rewrite E | apply Bool.not_true_is_false in E; rewrite E].
        * apply Hcmp in E. rewrite Hmu in Hle.
          rewrite Rminus_0_l, Rabs_Ropp.
          assert (H0 : 0 <= M - x0 <= x0 * e0) by lra.
          rewrite (Rabs_pos_eq (M - x0)) by lra.
          assert (H1 : x0 * e0 <= Rabs x0 * uR).
          { rewrite <- (Rabs_pos_eq (x0 * e0)) by lra. rewrite Rabs_mult.
            apply Rmult_le_compat_l; [apply Rabs_pos | apply Rabs_le; lra]. }
          pose proof (Rabs_pos x0). nra.
        * rewrite Rminus_0_r, Rabs_R0.
          pose proof (Rabs_pos x0). nra.
      + rewrite Rmax_right by lra.
        assert (E : (S0 ds p <? MX ds p * p)%Z = true).
        { apply Hcmp. destruct (Rle_or_lt M x0) as [Hc|Hc]; auto. exfalso.
          assert (RN M <= RN x0) by (apply round_le; auto; [rewrite fx_FLT; apply FLT_exp_valid; reflexivity | apply valid_rnd_N]).
          rewrite (RN_exact M HM) in H. unfold mu_r in Hgt. fold ds in Hgt. fold x0 in Hgt. lra. }
        rewrite E.
        destruct (RN_rel_minus M (mu_r signed p raw) HM (Fmt_RN _)) as (e3 & He3 & Hy).
        apply Rabs_le_inv in He3. rewrite Hy, Hmu.
        replace ((M - x0 * (1 + e0)) * (1 + e3) - (M - x0)) with (- (x0 * e0 * (1 + e3)) + (M - x0) * e3) by ring.
        eapply Rle_trans; [apply Rabs_triang|]. rewrite Rabs_Ropp.
        apply Rplus_le_compat.
        * rewrite !Rabs_mult.
          assert (Rabs e0 <= uR) by (apply Rabs_le; lra).
          assert (Rabs (1 + e3) <= 1 + uR) by (apply Rabs_le; lra).
          assert (Rabs e0 * Rabs (1 + e3) <= uR * (1 + uR)) by (apply Rmult_le_compat; auto using Rabs_pos).
          pose proof (Rabs_pos x0). nra.
        * rewrite Rabs_mult, Rmult_comm. apply Rmult_le_compat_r; [apply Rabs_pos | apply Rabs_le; lra].
  Qed.
End Meets.
