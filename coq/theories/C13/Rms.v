(* C13 — rms_bound: the mean square computed by the code's expansion is within
   6u (S2/N + 2|mu||S1/N| + mu^2) of the exact mean squared deviation, and the reported pulse RMS passes
   the checker's test. *)
From Coq Require Import ZArith Reals QArith Qabs Qreals Floats Lia Lra List Psatz.
From Coq Require Import ZifyBool ZifyNat.
From Flocq Require Import Core.
From Dastard Require Import Common.ZX C13.Model C13.ModelFloat C13.Spec C13.FloatKit C13.Proofs C13.ProofsQ C13.Bridge C13.Meets.
Import ListNotations.
Open Scope R_scope.

(* ---- products of (1 + delta) factors ---- *)
Definition close (k : nat) (x : R) : Prop := Rabs (x - 1) <= (1 + uR) ^ k - 1.

Lemma pow1u_ge1 k : 1 <= (1 + uR) ^ k.
Proof. pose proof uR_small. apply pow_R1_Rle. lra. Qed.

Lemma close_1 d : Rabs d <= uR -> close 1 (1 + d).
Proof. intros H. unfold close. replace (1 + d - 1) with d by ring. simpl. lra. Qed.

Lemma close_mul j k a b : close j a -> close k b -> close (j + k) (a * b).
Proof.
  unfold close. intros Ha Hb. rewrite pow_add.
  pose proof (pow1u_ge1 j). pose proof (pow1u_ge1 k).
  replace (a * b - 1) with ((a - 1) * (b - 1) + (a - 1) + (b - 1)) by ring.
  eapply Rle_trans; [apply Rabs_triang|]. eapply Rle_trans; [apply Rplus_le_compat_r; apply Rabs_triang|].
  rewrite Rabs_mult.
  pose proof (Rabs_pos (a - 1)). pose proof (Rabs_pos (b - 1)). nra.
Qed.

Lemma close_weaken j k x : (j <= k)%nat -> close j x -> close k x.
Proof.
  unfold close. intros Hjk H. eapply Rle_trans; [exact H|].
  apply Rplus_le_compat_r. apply Rle_pow; auto. pose proof uR_small. lra.
Qed.

Lemma uR_tiny : uR <= / 100.
Proof.
  unfold uR. apply Rle_trans with (bpow radix2 (-7)); [apply bpow_le; lia|].
  change (bpow radix2 (-7)) with (/ IZR (2 ^ 7)). change (2 ^ 7)%Z with 128%Z. lra.
Qed.

Lemma pow5_le : (1 + uR) ^ 5 - 1 <= 6 * uR.
Proof.
  pose proof uR_small as [H0 _]. pose proof uR_tiny as H1.
  assert (H2 : uR * uR <= uR / 100) by nra.
  assert (H3 : uR * uR * uR <= uR / 100) by nra.
  assert (H4 : uR * uR * uR * uR <= uR / 100) by nra.
  assert (H5 : uR * uR * uR * uR * uR <= uR / 100) by nra.
  simpl. nra.
Qed.

Lemma close5 x : close 5 x -> Rabs (x - 1) <= 6 * uR.
Proof. unfold close. intros H. pose proof pow5_le. lra. Qed.

Lemma Fmt_double f : Fmt f -> Fmt (2 * f).
Proof.
  intros H. unfold Fmt in *. rewrite fx_FLT in *.
  apply FLT_format_generic in H; [|reflexivity].
  destruct H as [[m e] Hf Hm He]. cbn [Fnum Fexp] in *.
  apply generic_format_FLT.
  apply (FLT_spec radix2 (-1074) 53 _ (Float radix2 m (e + 1))); cbn [Fnum Fexp]; auto; [|lia].
  rewrite Hf. unfold F2R. cbn [Fnum Fexp]. rewrite bpow_plus. change (bpow radix2 1) with 2. ring.
Qed.

(* a positive float is at least 2^-1074 *)
Lemma Fmt_pos_ge f : Fmt f -> 0 < f -> bpow radix2 (-1074) <= f.
Proof.
  intros H Hpos.
  apply (generic_format_ge_bpow radix2 fx (-1074)); auto.
  intros e. rewrite fx_FLT. unfold FLT_exp. lia.
Qed.

Lemma rel_lower x e : x = 0 \/ bpow radix2 (-53) <= Rabs x -> Rabs e <= uR ->
  x * (1 + e) = 0 \/ bpow radix2 (-54) <= Rabs (x * (1 + e)).
Proof.
  intros [H|H] He; [left; subst; ring|right].
  pose proof uR_small. apply Rabs_le_inv in He.
  rewrite Rabs_mult. rewrite (Rabs_pos_eq (1 + e)) by lra.
  change (bpow radix2 (-54)) with (bpow radix2 (-53 + -1)). rewrite bpow_plus.
  change (bpow radix2 (-1)) with (/ 2).
  pose proof (bpow_gt_0 radix2 (-53)). nra.
Qed.

Lemma prod_lower a b : a = 0 \/ bpow radix2 (-54) <= Rabs a -> b = 0 \/ bpow radix2 (-54) <= Rabs b ->
  a * b = 0 \/ bpow radix2 (-1022) <= Rabs (a * b).
Proof.
  intros [Ha|Ha] [Hb|Hb]; try (left; subst; ring). right.
  rewrite Rabs_mult. apply Rle_trans with (bpow radix2 (-54) * bpow radix2 (-54)).
  - rewrite <- bpow_plus. apply bpow_le. lia.
  - apply Rmult_le_compat; auto; apply bpow_ge_0.
Qed.

Lemma ratio_cases53 z n : (0 < n < 2 ^ 53)%Z ->
  IZR z / IZR n = 0 \/ bpow radix2 (-53) <= Rabs (IZR z / IZR n).
Proof.
  intros Hn. destruct (Z.eq_dec z 0) as [->|Hz].
  - left. unfold Rdiv. ring.
  - right. apply ratio_lower53; auto.
Qed.

Section RmsBound.
  Variable signed : bool.
  Variable p : Z.
  Variable raw : list Z.
  Hypothesis Hw : words_ok raw = true.
  Hypothesis Hp : (2 <= p)%Z.
  Hypothesis Hn : (p + 1 <= zlen raw)%Z.
  Hypothesis Hpp : (p * p * 2 ^ 17 < 2 ^ 53)%Z.
  Hypothesis HN : ((zlen raw - p) * 2 ^ 32 < 2 ^ 53)%Z.

  Let ds := map (interp signed) raw.
  Let N := (zlen raw - p)%Z.
  Let x0 := IZR (S0 ds p) / IZR p.
  Let x1 := IZR (S1 ds p) / IZR N.
  Let X2 := IZR (S2 ds p) / IZR N.
  Let msR := X2 - 2 * x0 * x1 + x0 * x0.

  Lemma S2_nonneg : (0 <= S2 ds p)%Z.
  Proof.
    unfold S2. induction (post ds p) as [|d r IH]; cbn [map Zsum fold_right]; [lia|].
    fold (Zsum (map (fun d => (d * d)%Z) r)). nia.
  Qed.

  Lemma X2_nonneg : 0 <= X2.
  Proof.
    unfold X2. apply Rmult_le_pos; [apply IZR_le; apply S2_nonneg|].
    left. apply Rinv_0_lt_compat. apply IZR_lt. unfold N in *. lia.
  Qed.

  (* rms_bound on the mean square *)
  Lemma ms_r_bound :
    Rabs (ms_r signed p raw - msR) <= 6 * uR * (X2 + 2 * Rabs x0 * Rabs x1 + x0 * x0).
  Proof.
    pose proof uR_small as Hu.
    assert (HNr : (0 < N < 2 ^ 53)%Z) by (unfold N in *; lia).
    assert (Hpr : (0 < p < 2 ^ 53)%Z) by nia.
    destruct (RN_rel x0) as (e0 & He0 & Hmu); [apply ratio_cases; auto|].
    destruct (RN_rel x1) as (e1 & He1 & Hm1); [apply ratio_cases; auto|].
    destruct (RN_rel X2) as (d1 & Hd1 & Hm2); [apply ratio_cases; auto|].
    pose proof (rel_lower x0 e0 (ratio_cases53 _ _ Hpr) He0) as L0.
    pose proof (rel_lower x1 e1 (ratio_cases53 _ _ HNr) He1) as L1.
    unfold ms_r. fold ds. fold N.
    change (RN (IZR (S0 ds p) / IZR p)) with (RN x0) in *.
    change (mu_r signed p raw) with (RN x0). change (m1_r signed p raw) with (RN x1). change (m2_r signed p raw) with (RN X2).
    rewrite (RN_exact (2 * RN x0)) by (apply Fmt_double; apply Fmt_RN).
    rewrite Hmu, Hm1, Hm2.
    (* the product 2 ptm (sum/N) *)
    destruct (RN_rel (2 * (x0 * (1 + e0)) * (x1 * (1 + e1)))) as (d2 & Hd2 & HB).
    { replace (2 * (x0 * (1 + e0)) * (x1 * (1 + e1))) with ((2 * (x0 * (1 + e0))) * (x1 * (1 + e1))) by ring.
      apply prod_lower; auto.
      destruct L0 as [L0|L0]; [left; rewrite L0; ring | right].
      rewrite Rabs_mult. rewrite (Rabs_pos_eq 2) by lra. pose proof (bpow_gt_0 radix2 (-54)). lra. }
    (* ptm * ptm *)
    destruct (RN_rel ((x0 * (1 + e0)) * (x0 * (1 + e0)))) as (d3 & Hd3 & HC); [apply prod_lower; auto|].
    rewrite HB, HC.
    (* the subtraction and the addition: no underflow error *)
    assert (FA : Fmt (X2 * (1 + d1))) by (rewrite <- Hm2; apply Fmt_RN).
    assert (FB : Fmt (2 * (x0 * (1 + e0)) * (x1 * (1 + e1)) * (1 + d2))) by (rewrite <- HB; apply Fmt_RN).
    assert (FC : Fmt (x0 * (1 + e0) * (x0 * (1 + e0)) * (1 + d3))) by (rewrite <- HC; apply Fmt_RN).
    destruct (RN_rel_minus _ _ FA FB) as (d4 & Hd4 & HT). rewrite HT.
    assert (FT : Fmt ((X2 * (1 + d1) - 2 * (x0 * (1 + e0)) * (x1 * (1 + e1)) * (1 + d2)) * (1 + d4))) by (rewrite <- HT; apply Fmt_RN).
    destruct (RN_rel_plus _ _ FT FC) as (d5 & Hd5 & HS). rewrite HS.
    set (P1 := (1 + d1) * ((1 + d4) * (1 + d5))).
    set (P2 := ((1 + e0) * (1 + e1)) * ((1 + d2) * ((1 + d4) * (1 + d5)))).
    set (P3 := ((1 + e0) * (1 + e0)) * ((1 + d3) * (1 + d5))).
    replace (((X2 * (1 + d1) - 2 * (x0 * (1 + e0)) * (x1 * (1 + e1)) * (1 + d2)) * (1 + d4) +
              x0 * (1 + e0) * (x0 * (1 + e0)) * (1 + d3)) * (1 + d5) - msR)
      with (X2 * (P1 - 1) - 2 * x0 * x1 * (P2 - 1) + x0 * x0 * (P3 - 1)) by (unfold msR, P1, P2, P3; ring).
    assert (C1 : Rabs (P1 - 1) <= 6 * uR).
    { apply close5. apply (close_weaken 3 5); [lia|].
      unfold P1. apply (close_mul 1 2); [apply close_1; auto|]. apply (close_mul 1 1); apply close_1; auto. }
    assert (C2 : Rabs (P2 - 1) <= 6 * uR).
    { apply close5. unfold P2. apply (close_mul 2 3).
      - apply (close_mul 1 1); apply close_1; auto.
      - apply (close_mul 1 2); [apply close_1; auto|]. apply (close_mul 1 1); apply close_1; auto. }
    assert (C3 : Rabs (P3 - 1) <= 6 * uR).
    { apply close5. apply (close_weaken 4 5); [lia|]. unfold P3. apply (close_mul 2 2).
      - apply (close_mul 1 1); apply close_1; auto.
      - apply (close_mul 1 1); apply close_1; auto. }
    pose proof X2_nonneg as HX2.
    eapply Rle_trans; [apply Rabs_triang|].
    eapply Rle_trans; [apply Rplus_le_compat_r; apply Rabs_triang|].
    rewrite Rabs_Ropp, !Rabs_mult. rewrite (Rabs_pos_eq X2) by auto. rewrite (Rabs_pos_eq 2) by lra.
    assert (Hsq : Rabs x0 * Rabs x0 = x0 * x0).
    { rewrite <- Rabs_mult. apply Rabs_pos_eq. nra. }
    pose proof (Rabs_pos x0). pose proof (Rabs_pos x1).
    assert (T1 : X2 * Rabs (P1 - 1) <= X2 * (6 * uR)) by (apply Rmult_le_compat_l; auto).
    assert (T2 : 2 * Rabs x0 * Rabs x1 * Rabs (P2 - 1) <= 2 * Rabs x0 * Rabs x1 * (6 * uR)).
    { apply Rmult_le_compat_l; auto. nra. }
    assert (T3 : Rabs x0 * Rabs x0 * Rabs (P3 - 1) <= Rabs x0 * Rabs x0 * (6 * uR)).
    { apply Rmult_le_compat_l; auto. nra. }
    rewrite Hsq in T3 |- *. nra.
  Qed.
End RmsBound.

(* ---- the exact mean square is non-negative ---- *)
Lemma Qsum_sq_nonneg (f : Z -> Q) (l : list Z) : (0 <= Qsum (map (fun d => Qsq (f d)) l))%Q.
Proof.
  induction l as [|x r IH]; cbn [map Qsum fold_right].
  - apply Qle_refl.
  - fold (Qsum (map (fun d => Qsq (f d)) r)).
    assert (0 <= Qsq (f x))%Q by (unfold Qsq; nra).
    apply Qle_trans with (0 + 0)%Q; [apply Qle_refl|]. apply Qplus_le_compat; auto.
Qed.

Lemma ms_def_nonneg ds p : (0 < NN ds p)%Z -> (0 <= ms_def ds p)%Q.
Proof.
  intros H. unfold ms_def. apply Qle_shift_div_l.
  - unfold QZ, Qlt. cbn. lia.
  - rewrite Qmult_0_l. apply (Qsum_sq_nonneg (fun d => (QZ d - mu ds p)%Q)).
Qed.

Section RmsMeets.
  Variable signed : bool.
  Variable p : Z.
  Variable raw : list Z.
  Hypothesis Hw : words_ok raw = true.
  Hypothesis Hp : (2 <= p)%Z.
  Hypothesis Hn : (p + 1 <= zlen raw)%Z.
  Hypothesis Hpp : (p * p * 2 ^ 17 < 2 ^ 53)%Z.
  Hypothesis HN : ((zlen raw - p) * 2 ^ 32 < 2 ^ 53)%Z.

  Let ds := map (interp signed) raw.
  Let N := (zlen raw - p)%Z.
  Let x0 := IZR (S0 ds p) / IZR p.
  Let x1 := IZR (S1 ds p) / IZR N.
  Let X2 := IZR (S2 ds p) / IZR N.
  Let msR := X2 - 2 * x0 * x1 + x0 * x0.

  Lemma Q2R_m2_x : Q2R (m2_x ds p) = X2.
  Proof.
    unfold m2_x, X2, ds. rewrite (NN_is_N signed p raw) by assumption. fold N. rewrite Q2R_div_QZ by (unfold N; lia). reflexivity.
  Qed.

  Lemma Q2R_ms_x : Q2R (ms_x ds p) = msR.
  Proof.
    unfold ms_x. repeat (rewrite Q2R_plus || rewrite Q2R_minus || rewrite Q2R_mult).
    rewrite Q2R_m2_x. unfold ds. rewrite (Q2R_mu_x signed p raw), (Q2R_m1_x signed p raw) by assumption.
    change (Q2R 2) with (Q2R (QZ 2)). rewrite Q2R_QZ. reflexivity.
  Qed.

  Lemma msR_nonneg : 0 <= msR.
  Proof.
    rewrite <- Q2R_ms_x. rewrite <- RMicromega.Q2R_0. apply Qle_Rle.
    assert (HNN : (0 < NN ds p)%Z) by (unfold ds; rewrite (NN_is_N signed p raw) by assumption; lia).
    rewrite (ms_closed ds p HNN). apply ms_def_nonneg. exact HNN.
  Qed.

  Lemma Q2R_ms_tol : Q2R (ms_tol ds p) = 6 * uR * (X2 + 2 * Rabs x0 * Rabs x1 + x0 * x0).
  Proof.
    unfold ms_tol. repeat (rewrite Q2R_plus || rewrite Q2R_mult || rewrite Q2R_Qabs).
    rewrite Q2R_m2_x, Q2R_uQ. unfold ds. rewrite (Q2R_mu_x signed p raw), (Q2R_m1_x signed p raw) by assumption.
    change (Q2R 2) with (Q2R (QZ 2)). change (Q2R 6) with (Q2R (QZ 6)). rewrite !Q2R_QZ. reflexivity.
  Qed.

  Lemma rms_meets :
    exists s, analyze signed p raw = Ok s /\ chk_rms ds p (s_rms s) = true.
  Proof.
    destruct (analyze_structure signed p raw Hw Hp Hn Hpp HN) as (s & Hs & _ & _ & _ & [Hf Hv] & _).
    exists s. split; [exact Hs|].
    pose proof uR_small as Hu.
    pose proof (ms_r_bound signed p raw) as Hb. repeat (specialize (Hb ltac:(assumption))).
    fold ds N x0 x1 X2 msR in Hb.
    set (E := 6 * uR * (X2 + 2 * Rabs x0 * Rabs x1 + x0 * x0)) in *.
    pose proof msR_nonneg as Hms.
    set (m' := Rmax 0 (ms_r signed p raw)) in *.
    assert (Hm0 : 0 <= m') by apply Rmax_l.
    assert (Hm' : Rabs (m' - msR) <= E).
    { unfold m'. apply Rabs_le_inv in Hb. apply Rabs_le. unfold Rmax.
      destruct (Rle_dec 0 (ms_r signed p raw)); lra. }
    apply Rabs_le_inv in Hm'.
    (* the square root: one more rounding *)
    set (sq := R_sqrt.sqrt m') in *.
    assert (Hsq0 : 0 <= sq) by apply sqrt_pos.
    assert (Hsq2 : sq * sq = m') by (apply sqrt_sqrt; auto).
    destruct (RN_rel sq) as (e & He & Hr).
    { destruct (Rle_lt_or_eq_dec 0 m' Hm0) as [Hpos|Hz].
      - right. rewrite Rabs_pos_eq by auto.
        assert (Hfm : bpow radix2 (-1074) <= m').
        { unfold m' in *. unfold Rmax in *. destruct (Rle_dec 0 (ms_r signed p raw)).
          - apply Fmt_pos_ge; auto. unfold ms_r. apply Fmt_RN.
          - lra. }
        destruct (Rle_or_lt (bpow radix2 (-1022)) sq) as [H|H]; auto. exfalso.
        assert (sq * sq < bpow radix2 (-1022) * bpow radix2 (-1022)).
        { pose proof (bpow_gt_0 radix2 (-1022)). nra. }
        rewrite <- bpow_plus in H0. rewrite Hsq2 in H0.
        assert (bpow radix2 (-1022 + -1022) <= bpow radix2 (-1074)) by (apply bpow_le; lia). lra.
      - left. unfold sq. rewrite <- Hz. apply sqrt_0. }
    apply Rabs_le_inv in He.
    unfold chk_rms. destruct (Q_of_float_exact _ Hf) as (q & Hq1 & Hq2). rewrite Hq1.
    rewrite Hv in Hq2. fold m' in Hq2. fold sq in Hq2. rewrite Hr in Hq2.
    assert (Hone : Q2R 1 = 1) by (change (Q2R 1) with (Q2R (QZ 1)); apply Q2R_QZ).
    assert (Hu1 : ~ ((1 + uQ) * (1 + uQ) == 0)%Q).
    { intros C. apply Qeq_eqR in C. rewrite Q2R_mult, Q2R_plus, Q2R_uQ, Hone, RMicromega.Q2R_0 in C. fold uR in C. nra. }
    assert (Hu2 : ~ ((1 - uQ) * (1 - uQ) == 0)%Q).
    { intros C. apply Qeq_eqR in C. rewrite Q2R_mult, Q2R_minus, Q2R_uQ, Hone, RMicromega.Q2R_0 in C. fold uR in C. nra. }
    rewrite !Bool.andb_true_iff. repeat split.
    - apply Qle_b_R. rewrite RMicromega.Q2R_0, Hq2. nra.
    - apply Qle_b_R. rewrite Q2R_minus, Q2R_div by exact Hu1.
      rewrite !Q2R_mult, Q2R_plus, Q2R_uQ, Hone, Q2R_ms_x, Q2R_ms_tol, Hq2. fold uR. fold E.
      assert (H1 : sq * (1 + e) * (sq * (1 + e)) / ((1 + uR) * (1 + uR)) <= m').
      { rewrite <- Hsq2. apply Rmult_le_reg_r with ((1 + uR) * (1 + uR)); [nra|].
        replace (sq * (1 + e) * (sq * (1 + e)) / ((1 + uR) * (1 + uR)) * ((1 + uR) * (1 + uR)))
          with (sq * (1 + e) * (sq * (1 + e))) by (field; lra).
        assert (0 <= 1 + e <= 1 + uR) by lra.
        assert ((1 + e) * (1 + e) <= (1 + uR) * (1 + uR)) by nra.
        assert (0 <= sq * sq) by nra. nra. }
      lra.
    - apply Qle_b_R. rewrite Q2R_plus, Q2R_div by exact Hu2.
      rewrite !Q2R_mult, Q2R_minus, Q2R_uQ, Hone, Q2R_ms_x, Q2R_ms_tol, Hq2. fold uR. fold E.
      assert (H1 : m' <= sq * (1 + e) * (sq * (1 + e)) / ((1 - uR) * (1 - uR))).
      { rewrite <- Hsq2. apply Rmult_le_reg_r with ((1 - uR) * (1 - uR)); [nra|].
        replace (sq * (1 + e) * (sq * (1 + e)) / ((1 - uR) * (1 - uR)) * ((1 - uR) * (1 - uR)))
          with (sq * (1 + e) * (sq * (1 + e))) by (field; lra).
        assert (0 <= 1 - uR <= 1 + e) by lra.
        assert ((1 - uR) * (1 - uR) <= (1 + e) * (1 + e)) by nra.
        assert (0 <= sq * sq) by nra. nra. }
      lra.
  Qed.
End RmsMeets.

(* ---- all five scalars ---- *)
Lemma scalars_meet_all : scalars_meet_definitions.
Proof.
  intros signed p raw Hw Hp Hn Hpp HN.
  destruct (model_meets_4 signed p raw Hw Hp Hn Hpp HN) as (s & Hs & H1 & H2 & H3 & H5).
  destruct (rms_meets signed p raw Hw Hp Hn Hpp HN) as (s' & Hs' & H4).
  rewrite Hs in Hs'. injection Hs' as <-.
  exists s. split; auto. unfold check_scalars. rewrite H1, H2, H3, H4, H5. reflexivity.
Qed.

(* ---- the defect fixed in /repo: before the clamp, pulseRMS was NaN on this record ---- *)
Definition nan_witness : list Z := 59999%Z :: repeat 60000%Z 2073.

Lemma rms_nan_before_fix :
  in_domain {| i_signed := false; i_pre := 2073; i_data := nan_witness; i_proj := None |} = true /\
  exists s, analyze_old false 2073 nan_witness = Ok s /\
            PrimFloat.is_nan (s_rms s) = true /\
            chk_rms (map (interp false) nan_witness) 2073 (s_rms s) = false.
Proof.
  split; [vm_compute; reflexivity|].
  eexists. split; [vm_compute; reflexivity|]. split; vm_compute; reflexivity.
Qed.

Lemma hypotheses_example :
  let raw := [40000; 40001; 40003; 50000; 65535; 7]%Z in
  words_ok raw = true /\ (2 <= 3)%Z /\ (3 + 1 <= zlen raw)%Z /\
  (3 * 3 * 2 ^ 17 < 2 ^ 53)%Z /\ ((zlen raw - 3) * 2 ^ 32 < 2 ^ 53)%Z.
Proof. vm_compute. repeat split; congruence. Qed.
