(* C13 — lemmas and proofs.
   Part 1: the float accumulators of AnalyzeData are exact (sums_exact).
   Part 2: the rounding structure of the five scalars (one_rounding lemmas).
   Part 3: exact-arithmetic identities over Q (closed forms = textbook definitions). *)
From Coq Require Import ZArith Reals Floats Lia Lra Uint63 List QArith Qabs Qreals Psatz.
From Coq Require Import ZifyBool ZifyNat.
From Flocq Require Import Core IEEE754.BinarySingleNaN IEEE754.PrimFloat.
From Dastard Require Import Common.ZX C13.Model C13.ModelFloat C13.Spec C13.FloatKit.
Import ListNotations.
Open Scope Z_scope.

(* ================================================================== Part 1: exact accumulators *)

Definition IsInt (f : PrimFloat.float) (z : Z) : Prop := Ffin f /\ FR f = IZR z.
Definition IsHalf (f : PrimFloat.float) (z : Z) : Prop := Ffin f /\ FR f = (IZR z / 2)%R.

Lemma small_abs (z : Z) : Z.abs z < 2 ^ 53 -> (Rabs (IZR z) < BIG)%R.
Proof.
  intros H. apply Rle_lt_trans with (bpow radix2 53); [apply abs_lt_BIG; lia | apply BIG_ge].
Qed.
Lemma small_abs_half (z : Z) : Z.abs z < 2 ^ 53 -> (Rabs (IZR z / 2) < BIG)%R.
Proof.
  intros H. apply Rle_lt_trans with (Rabs (IZR z)); [| apply small_abs; auto].
  unfold Rdiv. rewrite Rabs_mult. rewrite (Rabs_pos_eq (/ 2)) by lra.
  pose proof (Rabs_pos (IZR z)). lra.
Qed.

Lemma f_of_Z_int z : Z.abs z < 2 ^ 53 -> IsInt (f_of_Z z) z.
Proof.
  intros H. unfold f_of_Z, IsInt. destruct (z <? 0) eqn:E.
  - destruct (FR_of_uint63 (- z)) as [H1 H2]; [lia|].
    split; [apply Ffin_opp; exact H2|]. rewrite FR_opp, H1, opp_IZR. ring.
  - destruct (FR_of_uint63 z) as [H1 H2]; [lia|]. split; auto.
Qed.

Lemma int_half f z : IsInt f z -> IsHalf f (2 * z).
Proof. intros [H1 H2]. split; auto. rewrite H2, mult_IZR. field. Qed.

Lemma half_add a b x y : IsHalf a x -> IsHalf b y -> Z.abs (x + y) < 2 ^ 53 -> IsHalf (a + b)%float (x + y).
Proof.
  intros [Ha1 Ha2] [Hb1 Hb2] H.
  assert (E : (FR a + FR b = IZR (x + y) / 2)%R) by (rewrite Ha2, Hb2, plus_IZR; field).
  destruct (kit_add_exact a b Ha1 Hb1) as [H1 H2].
  - rewrite E. apply Fmt_half; auto.
  - rewrite E. apply small_abs_half; auto.
  - split; auto. rewrite H1. exact E.
Qed.

Lemma half_sub a b x y : IsHalf a x -> IsHalf b y -> Z.abs (x - y) < 2 ^ 53 -> IsHalf (a - b)%float (x - y).
Proof.
  intros [Ha1 Ha2] [Hb1 Hb2] H.
  assert (E : (FR a - FR b = IZR (x - y) / 2)%R) by (rewrite Ha2, Hb2, minus_IZR; field).
  destruct (kit_sub_exact a b Ha1 Hb1) as [H1 H2].
  - rewrite E. apply Fmt_half; auto.
  - rewrite E. apply small_abs_half; auto.
  - split; auto. rewrite H1. exact E.
Qed.

Lemma int_add a b x y : IsInt a x -> IsInt b y -> Z.abs (x + y) < 2 ^ 53 -> IsInt (a + b)%float (x + y).
Proof.
  intros [Ha1 Ha2] [Hb1 Hb2] H.
  assert (E : (FR a + FR b = IZR (x + y))%R) by (rewrite Ha2, Hb2, plus_IZR; ring).
  destruct (kit_add_exact a b Ha1 Hb1) as [H1 H2].
  - rewrite E. apply Fmt_int; auto.
  - rewrite E. apply small_abs; auto.
  - split; auto. rewrite H1. exact E.
Qed.

Lemma int_sub a b x y : IsInt a x -> IsInt b y -> Z.abs (x - y) < 2 ^ 53 -> IsInt (a - b)%float (x - y).
Proof.
  intros [Ha1 Ha2] [Hb1 Hb2] H.
  assert (E : (FR a - FR b = IZR (x - y))%R) by (rewrite Ha2, Hb2, minus_IZR; ring).
  destruct (kit_sub_exact a b Ha1 Hb1) as [H1 H2].
  - rewrite E. apply Fmt_int; auto.
  - rewrite E. apply small_abs; auto.
  - split; auto. rewrite H1. exact E.
Qed.

Lemma int_mul a b x y : IsInt a x -> IsInt b y -> Z.abs (x * y) < 2 ^ 53 -> IsInt (a * b)%float (x * y).
Proof.
  intros [Ha1 Ha2] [Hb1 Hb2] H.
  assert (E : (FR a * FR b = IZR (x * y))%R) by (rewrite Ha2, Hb2, mult_IZR; ring).
  destruct (kit_mul_exact a b Ha1 Hb1) as [H1 H2].
  - rewrite E. apply Fmt_int; auto.
  - rewrite E. apply small_abs; auto.
  - split; auto. rewrite H1. exact E.
Qed.

Lemma int_mul_half a b x y : IsInt a x -> IsHalf b y -> Z.abs (x * y) < 2 ^ 53 -> IsHalf (a * b)%float (x * y).
Proof.
  intros [Ha1 Ha2] [Hb1 Hb2] H.
  assert (E : (FR a * FR b = IZR (x * y) / 2)%R) by (rewrite Ha2, Hb2, mult_IZR; field).
  destruct (kit_mul_exact a b Ha1 Hb1) as [H1 H2].
  - rewrite E. apply Fmt_half; auto.
  - rewrite E. apply small_abs_half; auto.
  - split; auto. rewrite H1. exact E.
Qed.

Lemma FR_half : FR 0.5%float = (/ 2)%R /\ Ffin 0.5%float.
Proof.
  split.
  - rewrite FR_SF. vm_compute Prim2SF. unfold SF2R, F2R. cbn [Fnum Fexp cond_Zopp].
    change (bpow radix2 (-53)) with (/ IZR (2 ^ 53))%R.
    change (2 ^ 53) with 9007199254740992. lra.
  - apply Ffin_SF. vm_compute. reflexivity.
Qed.

Lemma half_of_int a x : IsInt a x -> Z.abs x < 2 ^ 53 -> IsHalf (a * 0.5)%float x.
Proof.
  intros [Ha1 Ha2] H. destruct FR_half as [Hh1 Hh2].
  assert (E : (FR a * FR 0.5%float = IZR x / 2)%R) by (rewrite Ha2, Hh1; field).
  destruct (kit_mul_exact a 0.5%float Ha1 Hh2) as [H1 H2].
  - rewrite E. apply Fmt_half; auto.
  - rewrite E. apply small_abs_half; auto.
  - split; auto. rewrite H1. exact E.
Qed.

(* ---- the two loops ---- *)
Definition srange (d : Z) : Prop := -32768 <= d <= 65535.

Lemma interp_range signed v : 0 <= v < 65536 -> srange (interp signed v).
Proof. unfold interp, srange. intros H. destruct signed; [destruct (v <? 32768) eqn:E|]; lia. Qed.

(* the slope accumulator, doubled, from index i on *)
Fixpoint wsum (d0 p i : Z) (ds : list Z) : Z :=
  match ds with
  | [] => 0
  | d :: r => (d - d0) * (2 * i - (p - 1)) + wsum d0 p (i + 1) r
  end.

Lemma pre_loop_exact (d0 xm : PrimFloat.float) (d0z p : Z) :
  IsInt d0 d0z -> srange d0z -> IsHalf xm (p - 1) -> p * p * 2 ^ 17 < 2 ^ 53 ->
  forall ds i val vd sv sd,
    0 <= i -> i + zlen ds <= p ->
    Forall srange ds ->
    IsInt val sv -> Z.abs sv <= i * 2 ^ 16 ->
    IsHalf vd sd -> Z.abs sd <= i * (2 ^ 17 * p) ->
    IsInt (fst (pre_loop d0 xm i (map f_of_Z ds) val vd)) (sv + Zsum ds) /\
    IsHalf (snd (pre_loop d0 xm i (map f_of_Z ds) val vd)) (sd + wsum d0z p i ds) /\
    Z.abs (sd + wsum d0z p i ds) <= (i + zlen ds) * (2 ^ 17 * p).
Proof.
  intros Hd0 Hr0 Hxm Hp.
  induction ds as [|d r IH]; intros i val vd sv sd Hi Hlen Hall Hval Hsv Hvd Hsd.
  - cbn [map pre_loop fst snd Zsum fold_right wsum]. rewrite !Z.add_0_r. split; [exact Hval|]. split; [exact Hvd|].
    unfold zlen; cbn [length]. lia.
  - cbn [map pre_loop Zsum fold_right wsum].
    inversion Hall as [|? ? Hd Hall']; subst.
    unfold zlen in Hlen. cbn [length] in Hlen. rewrite Nat2Z.inj_succ in Hlen.
    fold (zlen r) in Hlen. pose proof (zlen_nonneg r) as Hr.
    assert (Hp1 : 1 <= p) by lia.
    assert (Hip : i < p) by lia.
    unfold srange in Hd, Hr0.
    assert (Hfd : IsInt (f_of_Z d) d) by (apply f_of_Z_int; lia).
    assert (Hfi : IsInt (f_of_Z i) i) by (apply f_of_Z_int; nia).
    (* val + x *)
    assert (Hval' : IsInt (val + f_of_Z d)%float (sv + d)).
    { apply int_add; auto. nia. }
    (* (x - d0) *)
    assert (Hxd : IsInt (f_of_Z d - d0)%float (d - d0z)) by (apply int_sub; auto; lia).
    (* float64(i) - xmean *)
    assert (Hix : IsHalf (f_of_Z i - xm)%float (2 * i - (p - 1))).
    { apply half_sub; auto. apply int_half; auto. nia. }
    assert (Hb1 : Z.abs (d - d0z) < 2 ^ 17) by lia.
    assert (Hb2 : Z.abs (2 * i - (p - 1)) < p) by lia.
    assert (Hb3 : Z.abs ((d - d0z) * (2 * i - (p - 1))) <= 2 ^ 17 * p).
    { rewrite Z.abs_mul. nia. }
    assert (Hprod : IsHalf ((f_of_Z d - d0) * (f_of_Z i - xm))%float ((d - d0z) * (2 * i - (p - 1)))).
    { apply int_mul_half; auto. nia. }
    assert (Hvd' : IsHalf (vd + (f_of_Z d - d0) * (f_of_Z i - xm))%float (sd + (d - d0z) * (2 * i - (p - 1)))).
    { apply half_add; auto. nia. }
    specialize (IH (i + 1) _ _ _ _ ltac:(lia) ltac:(lia) Hall' Hval' ltac:(lia) Hvd' ltac:(nia)).
    destruct IH as (IH1 & IH2 & IH3).
    replace (sd + ((d - d0z) * (2 * i - (p - 1)) + wsum d0z p (i + 1) r))
        with (sd + (d - d0z) * (2 * i - (p - 1)) + wsum d0z p (i + 1) r) by ring.
    repeat split.
    + apply (proj1 IH1).
    + replace (sv + (d + fold_right Z.add 0 r)) with (sv + d + Zsum r) by (unfold Zsum; ring). apply (proj2 IH1).
    + apply (proj1 IH2).
    + apply (proj2 IH2).
    + replace (i + zlen (d :: r)) with (i + 1 + zlen r) by (unfold zlen; cbn [length]; lia). exact IH3.
Qed.

Definition Rmaxl (m0 : R) (ds : list Z) : R := fold_left (fun a d => Rmax a (IZR d)) ds m0.

Lemma post_loop_exact :
  forall ds j sum sum2 mx s1 s2,
    0 <= j -> (j + zlen ds) * 2 ^ 32 < 2 ^ 53 ->
    Forall srange ds ->
    IsInt sum s1 -> Z.abs s1 <= j * 2 ^ 16 ->
    IsInt sum2 s2 -> Z.abs s2 <= j * 2 ^ 32 ->
    Ffin mx ->
    let r := post_loop (map f_of_Z ds) sum sum2 mx in
    IsInt (fst (fst r)) (s1 + Zsum ds) /\
    IsInt (snd (fst r)) (s2 + Zsum (map (fun d => d * d) ds)) /\
    Ffin (snd r) /\ FR (snd r) = Rmaxl (FR mx) ds.
Proof.
  induction ds as [|d r IH]; intros j sum sum2 mx s1 s2 Hj Hlen Hall Hs1 Hb1 Hs2 Hb2 Hmx.
  - cbn. rewrite !Z.add_0_r. auto.
  - cbn [map post_loop].
    inversion Hall as [|? ? Hd Hall']; subst.
    unfold zlen in Hlen. cbn [length] in Hlen. rewrite Nat2Z.inj_succ in Hlen.
    fold (zlen r) in Hlen. pose proof (zlen_nonneg r) as Hr.
    unfold srange in Hd.
    assert (Hfd : IsInt (f_of_Z d) d) by (apply f_of_Z_int; lia).
    assert (Hsq : IsInt (f_of_Z d * f_of_Z d)%float (d * d)) by (apply int_mul; auto; nia).
    assert (Hdd : 0 <= d * d <= 2 ^ 32) by nia.
    assert (Hs1' : IsInt (sum + f_of_Z d)%float (s1 + d)) by (apply int_add; auto; nia).
    assert (Hs2' : IsInt (sum2 + f_of_Z d * f_of_Z d)%float (s2 + d * d)) by (apply int_add; auto; nia).
    assert (Hmx' : Ffin (if PrimFloat.ltb mx (f_of_Z d) then f_of_Z d else mx) /\
                   FR (if PrimFloat.ltb mx (f_of_Z d) then f_of_Z d else mx) = Rmax (FR mx) (IZR d)).
    { destruct Hfd as [Hf1 Hf2]. rewrite (kit_ltb mx (f_of_Z d) Hmx Hf1). rewrite Hf2.
      destruct (Rlt_bool_spec (FR mx) (IZR d)) as [Hlt|Hge].
      - split; auto. rewrite Rmax_right by lra. exact Hf2.
      - split; auto. rewrite Rmax_left by lra. reflexivity. }
    destruct Hmx' as [Hm1 Hm2].
    specialize (IH (j + 1) _ _ _ _ _ ltac:(lia) ltac:(lia) Hall' Hs1' ltac:(lia) Hs2' ltac:(lia) Hm1).
    cbv zeta in IH. destruct IH as (I1 & I2 & I3 & I4).
    cbv zeta. repeat split.
    + apply (proj1 I1).
    + rewrite (proj2 I1). f_equal. cbn [Zsum fold_right]. unfold Zsum. ring.
    + apply (proj1 I2).
    + rewrite (proj2 I2). f_equal. cbn [Zsum fold_right map]. unfold Zsum. ring.
    + exact I3.
    + rewrite I4. unfold Rmaxl. cbn [fold_left]. rewrite Hm2. reflexivity.
Qed.

(* ---- assembling: the accumulators of the model ---- *)
Lemma words_srange signed raw : words_ok raw = true -> Forall srange (map (interp signed) raw).
Proof.
  unfold words_ok. rewrite forallb_forall. intros H. apply Forall_forall. intros x Hx.
  apply in_map_iff in Hx. destruct Hx as (v & <- & Hv). apply interp_range.
  specialize (H v Hv). lia.
Qed.

Lemma Forall_firstn {A} (P : A -> Prop) n (l : list A) : Forall P l -> Forall P (firstn n l).
Proof. revert l. induction n; intros l H; cbn; [constructor|]. destruct H; constructor; auto. Qed.
Lemma Forall_skipn {A} (P : A -> Prop) n (l : list A) : Forall P l -> Forall P (skipn n l).
Proof. revert l. induction n; intros l H; cbn; auto. destruct H; auto. Qed.

Lemma wsum_combine d0 p : forall l i,
  Zsum (map (fun id : Z * Z => (snd id - d0) * (2 * fst id - (p - 1))) (combine (zrange_nat i (length l)) l))
  = wsum d0 p i l.
Proof.
  induction l as [|d r IH]; intros i; cbn [length zrange_nat combine map Zsum fold_right wsum fst snd]; auto.
  fold (Zsum (map (fun id : Z * Z => (snd id - d0) * (2 * fst id - (p - 1))) (combine (zrange_nat (i + 1) (length r)) r))).
  rewrite IH. reflexivity.
Qed.

Lemma pre_length (ds : list Z) p : 0 <= p <= zlen ds -> length (pre ds p) = Z.to_nat p.
Proof. intros H. unfold pre, zfirstn. rewrite firstn_length. unfold zlen in H. lia. Qed.

Lemma V2_wsum ds p : 0 <= p <= zlen ds -> V2 ds p = wsum (hd 0 ds) p 0 (pre ds p).
Proof.
  intros H. unfold V2, zrange. rewrite <- (pre_length ds p H). apply wsum_combine.
Qed.

Lemma samples_map signed raw : samples signed raw = map f_of_Z (map (interp signed) raw).
Proof. unfold samples. rewrite map_map. reflexivity. Qed.

Lemma IsInt_zero : IsInt 0%float 0.
Proof.
  split.
  - apply Ffin_SF. vm_compute. reflexivity.
  - rewrite FR_SF. vm_compute Prim2SF. reflexivity.
Qed.
Lemma IsHalf_zero : IsHalf 0%float 0.
Proof. destruct IsInt_zero as [H1 H2]. split; auto. rewrite H2. lra. Qed.

Lemma acc_pre_exact signed p raw :
  words_ok raw = true -> 1 <= p <= zlen raw -> p * p * 2 ^ 17 < 2 ^ 53 ->
  let ds := map (interp signed) raw in
  IsInt (fst (acc_pre signed p raw)) (S0 ds p) /\ IsHalf (snd (acc_pre signed p raw)) (V2 ds p) /\
  Z.abs (V2 ds p) <= p * (2 ^ 17 * p).
Proof.
  intros Hw Hp Hpp. cbv zeta.
  unfold acc_pre. rewrite samples_map.
  set (ds := map (interp signed) raw).
  assert (Hall : Forall srange ds) by (apply words_srange; auto).
  assert (Hlen : zlen ds = zlen raw) by (unfold ds, zlen; rewrite map_length; reflexivity).
  clearbody ds.
  unfold zfirstn. rewrite firstn_map. fold (zfirstn p ds). fold (pre ds p).
  assert (Hne : ds <> []).
  { intros E. rewrite E in Hlen. unfold zlen in *. cbn in Hlen. lia. }
  assert (Hhd : hd 0%float (map f_of_Z ds) = f_of_Z (hd 0 ds)) by (destruct ds; [congruence|reflexivity]).
  rewrite Hhd. set (dfirst := hd 0 ds).
  assert (Hd0r : srange dfirst).
  { unfold dfirst. destruct ds; [congruence|]. inversion Hall; auto. }
  assert (Hd0 : IsInt (f_of_Z dfirst) dfirst) by (apply f_of_Z_int; unfold srange in Hd0r; lia).
  assert (Hxm : IsHalf (f_of_Z (p - 1) * 0.5)%float (p - 1)).
  { apply half_of_int; [apply f_of_Z_int|]; nia. }
  pose proof (pre_loop_exact (f_of_Z dfirst) (f_of_Z (p - 1) * 0.5)%float dfirst p Hd0 Hd0r Hxm Hpp
                (pre ds p) 0 0%float 0%float 0 0 ltac:(lia)) as H.
  assert (Hpl : zlen (pre ds p) = p).
  { unfold zlen. rewrite pre_length by lia. lia. }
  specialize (H ltac:(lia) (Forall_firstn _ _ _ Hall) IsInt_zero ltac:(lia) IsHalf_zero ltac:(lia)).
  destruct H as (H1 & H2 & H3). rewrite !Z.add_0_l in *. rewrite Hpl in H3.
  rewrite V2_wsum by lia. auto.
Qed.

(* ================================================================== Part 2: rounding structure *)
Open Scope R_scope.

Lemma pow_lt_BIG k : (k < 1024)%Z -> bpow radix2 k < BIG.
Proof. intros H. apply bpow_lt. exact H. Qed.

Lemma RN_pow_le k r : (-1074 <= k)%Z -> Rabs r <= bpow radix2 k -> Rabs (RN r) <= bpow radix2 k.
Proof. intros Hk H. apply RN_abs_le; auto. apply Fmt_pow2; auto. Qed.

Lemma kit_add_b x y k : Ffin x -> Ffin y -> (-1074 <= k < 1024)%Z -> Rabs (FR x + FR y) <= bpow radix2 k ->
  FR (x + y)%float = RN (FR x + FR y) /\ Ffin (x + y)%float /\ Rabs (FR (x + y)%float) <= bpow radix2 k.
Proof.
  intros Hx Hy Hk Hb. pose proof (RN_pow_le k _ (proj1 Hk) Hb) as Hr.
  destruct (kit_add x y Hx Hy) as [H1 H2].
  - eapply Rle_lt_trans; [exact Hr | apply pow_lt_BIG; lia].
  - rewrite H1. auto.
Qed.
Lemma kit_sub_b x y k : Ffin x -> Ffin y -> (-1074 <= k < 1024)%Z -> Rabs (FR x - FR y) <= bpow radix2 k ->
  FR (x - y)%float = RN (FR x - FR y) /\ Ffin (x - y)%float /\ Rabs (FR (x - y)%float) <= bpow radix2 k.
Proof.
  intros Hx Hy Hk Hb. pose proof (RN_pow_le k _ (proj1 Hk) Hb) as Hr.
  destruct (kit_sub x y Hx Hy) as [H1 H2].
  - eapply Rle_lt_trans; [exact Hr | apply pow_lt_BIG; lia].
  - rewrite H1. auto.
Qed.
Lemma kit_mul_b x y k : Ffin x -> Ffin y -> (-1074 <= k < 1024)%Z -> Rabs (FR x * FR y) <= bpow radix2 k ->
  FR (x * y)%float = RN (FR x * FR y) /\ Ffin (x * y)%float /\ Rabs (FR (x * y)%float) <= bpow radix2 k.
Proof.
  intros Hx Hy Hk Hb. pose proof (RN_pow_le k _ (proj1 Hk) Hb) as Hr.
  destruct (kit_mul x y Hx Hy) as [H1 H2].
  - eapply Rle_lt_trans; [exact Hr | apply pow_lt_BIG; lia].
  - rewrite H1. auto.
Qed.
Lemma kit_div_b x y k : Ffin x -> FR y <> 0 -> (-1074 <= k < 1024)%Z -> Rabs (FR x / FR y) <= bpow radix2 k ->
  FR (x / y)%float = RN (FR x / FR y) /\ Ffin (x / y)%float /\ Rabs (FR (x / y)%float) <= bpow radix2 k.
Proof.
  intros Hx Hy Hk Hb. pose proof (RN_pow_le k _ (proj1 Hk) Hb) as Hr.
  destruct (kit_div x y Hx Hy) as [H1 H2].
  - eapply Rle_lt_trans; [exact Hr | apply pow_lt_BIG; lia].
  - rewrite H1. auto.
Qed.

Lemma bpow_IZR k : (0 <= k)%Z -> bpow radix2 k = IZR (2 ^ k).
Proof. intros H. symmetry. apply (IZR_Zpower radix2). exact H. Qed.

(* |z / n| <= B when |z| <= n B *)
Lemma div_bound z n B : (0 < n)%Z -> (Z.abs z <= n * B)%Z -> Rabs (IZR z / IZR n) <= IZR B.
Proof.
  intros Hn Hz.
  assert (Hn' : 0 < IZR n) by (apply IZR_lt; exact Hn).
  unfold Rdiv. rewrite Rabs_mult. rewrite (Rabs_pos_eq (/ IZR n)) by (left; apply Rinv_0_lt_compat; auto).
  apply Rmult_le_reg_r with (IZR n); auto.
  rewrite Rmult_assoc, Rinv_l by lra. rewrite Rmult_1_r.
  rewrite <- abs_IZR, <- mult_IZR. apply IZR_le. lia.
Qed.

Lemma Zsum_abs_bound (l : list Z) B : Forall (fun d => (Z.abs d <= B)%Z) l -> (Z.abs (Zsum l) <= zlen l * B)%Z.
Proof.
  induction 1 as [|d r Hd Hr IH]; cbn [Zsum fold_right].
  - unfold zlen; cbn; lia.
  - fold (Zsum r). unfold zlen in *. cbn [length]. lia.
Qed.

Lemma srange_abs l : Forall srange l -> Forall (fun d => (Z.abs d <= 2 ^ 16)%Z) l.
Proof. apply Forall_impl. unfold srange. intros; lia. Qed.
Lemma srange_sq l : Forall srange l -> Forall (fun d => (Z.abs d <= 2 ^ 32)%Z) (map (fun d => (d * d)%Z) l).
Proof. intros H. apply Forall_map. revert H. apply Forall_impl. unfold srange. intros; nia. Qed.

Section Scalars.
  Variable signed : bool.
  Variable p : Z.
  Variable raw : list Z.
  Hypothesis Hw : words_ok raw = true.
  Hypothesis Hp : (1 <= p)%Z.
  Hypothesis Hn : (p + 1 <= zlen raw)%Z.
  Hypothesis Hpp : (p * p * 2 ^ 17 < 2 ^ 53)%Z.
  Hypothesis HN : ((zlen raw - p) * 2 ^ 32 < 2 ^ 53)%Z.

  Let ds := map (interp signed) raw.
  Let N := (zlen raw - p)%Z.

  Lemma ds_len : zlen ds = zlen raw.
  Proof. unfold ds, zlen. rewrite map_length. reflexivity. Qed.
  Lemma ds_range : Forall srange ds.
  Proof. apply words_srange. exact Hw. Qed.
  Lemma pre_len : zlen (pre ds p) = p.
  Proof. unfold zlen. rewrite pre_length; [lia | rewrite ds_len; lia]. Qed.
  Lemma post_len : zlen (post ds p) = N.
  Proof.
    unfold post, zskipn, zlen. rewrite skipn_length. pose proof ds_len as H. pose proof Hn as Hn'. unfold N. unfold zlen in *. lia.
  Qed.

  Lemma S0_bound : (Z.abs (S0 ds p) <= p * 2 ^ 16)%Z.
  Proof.
    unfold S0. rewrite <- pre_len at 2. apply Zsum_abs_bound. apply srange_abs.
    apply Forall_firstn. apply ds_range.
  Qed.
  Lemma S1_bound : (Z.abs (S1 ds p) <= N * 2 ^ 16)%Z.
  Proof.
    unfold S1. rewrite <- post_len. apply Zsum_abs_bound. apply srange_abs.
    apply Forall_skipn. apply ds_range.
  Qed.
  Lemma S2_bound : (Z.abs (S2 ds p) <= N * 2 ^ 32)%Z.
  Proof.
    unfold S2. rewrite <- post_len.
    replace (zlen (post ds p)) with (zlen (map (fun d => (d * d)%Z) (post ds p))) by (unfold zlen; rewrite map_length; reflexivity).
    apply Zsum_abs_bound. apply srange_sq. apply Forall_skipn. apply ds_range.
  Qed.

  Lemma fp_int : IsInt (f_of_Z p) p.
  Proof. apply f_of_Z_int. nia. Qed.
  Lemma fN_int : IsInt (f_of_Z N) N.
  Proof. apply f_of_Z_int. unfold N in *. lia. Qed.

  Let ptm := ptm_of signed p raw.

  Lemma ptm_rounding :
    FR ptm = RN (IZR (S0 ds p) / IZR p) /\ Ffin ptm /\ Rabs (FR ptm) <= bpow radix2 16.
  Proof.
    destruct (acc_pre_exact signed p raw Hw ltac:(lia) Hpp) as ([Hv1 Hv2] & _ & _). fold ds in Hv2.
    destruct fp_int as [Hf1 Hf2].
    unfold ptm, ptm_of.
    destruct (kit_div_b (fst (acc_pre signed p raw)) (f_of_Z p) 16 Hv1) as (H1 & H2 & H3).
    - rewrite Hf2. apply not_0_IZR. lia.
    - lia.
    - rewrite Hv2, Hf2. rewrite bpow_IZR by lia. apply div_bound; [lia | apply S0_bound].
    - rewrite H1, Hv2, Hf2 in *. auto.
  Qed.

  Lemma acc_post_exact :
    let r := acc_post signed p raw in
    IsInt (fst (fst r)) (S1 ds p) /\ IsInt (snd (fst r)) (S2 ds p) /\
    Ffin (snd r) /\ FR (snd r) = Rmaxl (FR ptm) (post ds p).
  Proof.
    cbv zeta. unfold acc_post. rewrite samples_map. fold ds.
    unfold zskipn. rewrite skipn_map. fold (zskipn p ds). fold (post ds p).
    destruct ptm_rounding as (_ & Hfin & _).
    pose proof (post_loop_exact (post ds p) 0 0%float 0%float ptm 0 0 ltac:(lia)) as H.
    rewrite post_len in H.
    specialize (H ltac:(unfold N; lia) (Forall_skipn _ _ _ ds_range) IsInt_zero ltac:(lia) IsInt_zero ltac:(lia) Hfin).
    cbv zeta in H. rewrite !Z.add_0_l in H. exact H.
  Qed.
End Scalars.

(* ---- more kit: constants, sqrt, clamp, max ---- *)
Lemma FR_const_12 : FR 12%float = 12 /\ Ffin 12%float.
Proof.
  split.
  - rewrite FR_SF. vm_compute Prim2SF. unfold SF2R, F2R. cbn [Fnum Fexp cond_Zopp].
    change (bpow radix2 (-49)) with (/ IZR (2 ^ 49))%R.
    change (2 ^ 49)%Z with 562949953421312%Z. lra.
  - apply Ffin_SF. vm_compute. reflexivity.
Qed.
Lemma FR_const_2 : FR 2%float = 2 /\ Ffin 2%float.
Proof.
  split.
  - rewrite FR_SF. vm_compute Prim2SF. unfold SF2R, F2R. cbn [Fnum Fexp cond_Zopp].
    change (bpow radix2 (-51)) with (/ IZR (2 ^ 51))%R.
    change (2 ^ 51)%Z with 2251799813685248%Z. lra.
  - apply Ffin_SF. vm_compute. reflexivity.
Qed.
Lemma FR_const_0 : FR 0%float = 0 /\ Ffin 0%float.
Proof. destruct IsInt_zero as [H1 H2]. split; auto. Qed.

Lemma kit_sqrt x : Ffin x -> 0 <= FR x -> FR (PrimFloat.sqrt x) = RN (R_sqrt.sqrt (FR x)) /\ Ffin (PrimFloat.sqrt x).
Proof.
  unfold FR, Ffin. intros Hf Hpos. rewrite sqrt_equiv.
  destruct (Bsqrt_correct prec emax Hprec Hmax mode_NE (Prim2B x)) as (H1 & H2 & _).
  split; [exact H1|]. rewrite H2.
  destruct (Prim2B x) as [s|s| |s m e Hb]; try reflexivity; try discriminate.
  destruct s; [|reflexivity]. exfalso.
  cbn [B2R cond_Zopp] in Hpos.
  assert (F2R (Float radix2 (Z.neg m) e) < 0) by (apply F2R_lt_0; cbn; lia).
  cbn [Z.opp] in Hpos. lra.
Qed.

Lemma kit_clamp0 x : Ffin x -> FR (clamp0 x) = Rmax 0 (FR x) /\ Ffin (clamp0 x).
Proof.
  intros Hx. destruct FR_const_0 as [Hz1 Hz2]. unfold clamp0.
  rewrite (kit_ltb x 0%float Hx Hz2). rewrite Hz1.
  destruct (Rlt_bool_spec (FR x) 0) as [Hlt|Hge].
  - split; auto. rewrite Rmax_left by lra. exact Hz1.
  - split; auto. rewrite Rmax_right by lra. reflexivity.
Qed.

Lemma IZR_Zmax a b : IZR (Z.max a b) = Rmax (IZR a) (IZR b).
Proof.
  destruct (Z.max_spec a b) as [[H1 H2]|[H1 H2]]; rewrite H2.
  - rewrite Rmax_right; auto. apply IZR_le. lia.
  - rewrite Rmax_left; auto. apply IZR_le. lia.
Qed.

Lemma Rmaxl_fold : forall r a x, IZR x <= a ->
  fold_left (fun a d => Rmax a (IZR d)) r a = Rmax a (IZR (fold_right Z.max x r)).
Proof.
  induction r as [|y r IH]; intros a x Hx; cbn [fold_left fold_right].
  - rewrite Rmax_left; auto.
  - rewrite (IH (Rmax a (IZR y)) x).
    + rewrite IZR_Zmax. rewrite <- Rmax_assoc. reflexivity.
    + eapply Rle_trans; [exact Hx | apply Rmax_l].
Qed.

Lemma Rmaxl_max l m0 : l <> [] -> Rmaxl m0 l = Rmax m0 (IZR (Zmaxl l)).
Proof.
  destruct l as [|x r]; [congruence|]. intros _. unfold Rmaxl, Zmaxl. cbn [fold_left].
  rewrite (Rmaxl_fold r (Rmax m0 (IZR x)) x) by apply Rmax_r.
  destruct r as [|y r']; cbn [fold_right].
  - rewrite Rmax_left; [reflexivity | apply Rmax_r].
  - rewrite <- Rmax_assoc. f_equal.
    rewrite <- IZR_Zmax. f_equal.
    (* Z.max x (Z.max y (fold_right Z.max x r')) = Z.max y (fold_right Z.max x r') *)
    assert (H : forall l, (x <= fold_right Z.max x l)%Z).
    { induction l; cbn [fold_right]; lia. }
    specialize (H r'). lia.
Qed.

(* ---- bounds on reals ---- *)
Lemma mul_bound j k a b : Rabs a <= bpow radix2 j -> Rabs b <= bpow radix2 k -> Rabs (a * b) <= bpow radix2 (j + k).
Proof.
  intros Ha Hb. rewrite Rabs_mult, bpow_plus.
  apply Rmult_le_compat; auto using Rabs_pos.
Qed.
Lemma add_bound j k a b : (j <= k)%Z -> Rabs a <= bpow radix2 j -> Rabs b <= bpow radix2 k -> Rabs (a + b) <= bpow radix2 (k + 1).
Proof.
  intros Hjk Ha Hb. eapply Rle_trans; [apply Rabs_triang|].
  assert (bpow radix2 j <= bpow radix2 k) by (apply bpow_le; auto).
  rewrite bpow_plus. change (bpow radix2 1) with 2. lra.
Qed.
Lemma sub_bound j k a b : (j <= k)%Z -> Rabs a <= bpow radix2 j -> Rabs b <= bpow radix2 k -> Rabs (a - b) <= bpow radix2 (k + 1).
Proof.
  intros Hjk Ha Hb. unfold Rminus.
  apply (add_bound j k); auto. rewrite Rabs_Ropp. exact Hb.
Qed.
Lemma sub_bound' j k a b : (j <= k)%Z -> Rabs a <= bpow radix2 k -> Rabs b <= bpow radix2 j -> Rabs (a - b) <= bpow radix2 (k + 1).
Proof.
  intros Hjk Ha Hb. replace (a - b) with (- b + a) by ring.
  apply (add_bound j k); auto. rewrite Rabs_Ropp. exact Hb.
Qed.
Lemma div_ge1_bound a b k : 1 <= b -> Rabs a <= bpow radix2 k -> Rabs (a / b) <= bpow radix2 k.
Proof.
  intros Hb Ha. unfold Rdiv. rewrite Rabs_mult. rewrite (Rabs_pos_eq (/ b)).
  - assert (/ b <= 1) by (rewrite <- Rinv_1; apply Rinv_le_contravar; lra).
    pose proof (Rabs_pos a). nra.
  - left. apply Rinv_0_lt_compat. lra.
Qed.

Section Structure.
  Variable signed : bool.
  Variable p : Z.
  Variable raw : list Z.
  Hypothesis Hw : words_ok raw = true.
  Hypothesis Hp : (2 <= p)%Z.
  Hypothesis Hn : (p + 1 <= zlen raw)%Z.
  Hypothesis Hpp : (p * p * 2 ^ 17 < 2 ^ 53)%Z.
  Hypothesis HN : ((zlen raw - p) * 2 ^ 32 < 2 ^ 53)%Z.

  Let ds := map (interp signed) raw.
  Let N := (zlen raw - p)%Z.
  (* the real numbers computed by the float code *)
  Definition mu_r : R := RN (IZR (S0 ds p) / IZR p).
  Definition m1_r : R := RN (IZR (S1 ds p) / IZR N).
  Definition m2_r : R := RN (IZR (S2 ds p) / IZR N).
  Definition ms_r : R := RN (RN (m2_r - RN (RN (2 * mu_r) * m1_r)) + RN (mu_r * mu_r)).

  Lemma analyze_structure :
    exists s, analyze signed p raw = Ok s /\
      (Ffin (s_ptm s) /\ FR (s_ptm s) = mu_r) /\
      (Ffin (s_delta s) /\ FR (s_delta s) = RN (RN (IZR (V2 ds p) / 2 * 12) / IZR (p * (p + 1)))) /\
      (Ffin (s_avg s) /\ FR (s_avg s) = RN (m1_r - mu_r)) /\
      (Ffin (s_rms s) /\ FR (s_rms s) = RN (R_sqrt.sqrt (Rmax 0 ms_r))) /\
      (Ffin (s_peak s) /\ FR (s_peak s) = RN (Rmax mu_r (IZR (MX ds p)) - mu_r)).
  Proof.
    assert (Hp1 : (1 <= p)%Z) by lia.
    destruct (ptm_rounding signed p raw Hw Hp1 Hn Hpp) as (Hm1 & Hm2 & Hm3).
    fold ds in Hm1. fold mu_r in Hm1.
    destruct (acc_pre_exact signed p raw Hw ltac:(lia) Hpp) as (_ & [Hvd1 Hvd2] & Hvb). fold ds in Hvd2, Hvb.
    destruct (acc_post_exact signed p raw Hw Hp1 Hn Hpp HN) as ([Hs1a Hs1b] & [Hs2a Hs2b] & Hmxa & Hmxb).
    fold ds in Hs1b, Hs2b, Hmxb.
    assert (HNpos : (1 <= N)%Z) by (unfold N; lia).
    destruct (fN_int p raw Hw Hn HN) as [HfN1 HfN2]. fold N in HfN1, HfN2.
    assert (HfNnz : FR (f_of_Z N) <> 0) by (rewrite HfN2; apply not_0_IZR; lia).
    unfold analyze, analyze_gen.
    assert (Hguard : ((zlen raw =? 0)%Z || (p <? 0)%Z || (p >? zlen raw)%Z)%bool = false) by lia.
    rewrite Hguard. clear Hguard.
    destruct (acc_post signed p raw) as [[sum sum2] mx] eqn:Epost.
    cbn [fst snd] in Hs1a, Hs1b, Hs2a, Hs2b, Hmxa, Hmxb.
    fold N. set (ptm := ptm_of signed p raw) in *.
    eexists. split; [reflexivity|]. cbn [s_ptm s_delta s_avg s_rms s_peak].
    (* sum / N *)
    destruct (kit_div_b sum (f_of_Z N) 16 Hs1a HfNnz ltac:(lia)) as (Hq1 & Hq2 & Hq3).
    { rewrite Hs1b, HfN2. rewrite bpow_IZR by lia. apply div_bound; [lia|].
      apply (S1_bound signed p raw Hw Hp1 Hn). }
    rewrite Hs1b, HfN2 in Hq1. fold m1_r in Hq1.
    (* sum2 / N *)
    destruct (kit_div_b sum2 (f_of_Z N) 32 Hs2a HfNnz ltac:(lia)) as (Hr1 & Hr2 & Hr3).
    { rewrite Hs2b, HfN2. rewrite bpow_IZR by lia. apply div_bound; [lia|].
      apply (S2_bound signed p raw Hw Hp1 Hn). }
    rewrite Hs2b, HfN2 in Hr1. fold m2_r in Hr1.
    split; [split; [exact Hm2 | exact Hm1]|].
    split.
    { (* delta *)
      replace (p <=? 1)%Z with false by lia.
      destruct FR_const_12 as [Hc1 Hc2].
      destruct (kit_mul_b (snd (acc_pre signed p raw)) 12%float 56 Hvd1 Hc2 ltac:(lia)) as (Ha1 & Ha2 & Ha3).
      { rewrite Hvd2, Hc1. replace (IZR (V2 ds p) / 2 * 12) with (IZR (6 * V2 ds p)) by (rewrite mult_IZR; field).
        rewrite bpow_IZR by lia. rewrite <- abs_IZR. apply IZR_le. nia. }
      rewrite Hvd2, Hc1 in Ha1.
      destruct (f_of_Z_int (p * (p + 1)) ltac:(nia)) as [Hpp1 Hpp2].
      destruct (kit_div_b _ (f_of_Z (p * (p + 1))) 56 Ha2) as (Hb1 & Hb2 & Hb3).
      - rewrite Hpp2. apply not_0_IZR. nia.
      - lia.
      - rewrite Hpp2. apply div_ge1_bound; auto. apply IZR_le. nia.
      - rewrite Hpp2, Ha1 in Hb1. auto. }
    split.
    { (* avg *)
      destruct (kit_sub_b (sum / f_of_Z N)%float ptm 17 Hq2 Hm2 ltac:(lia)) as (Ha1 & Ha2 & _).
      - apply (sub_bound 16 16); auto; lia.
      - rewrite Hq1, Hm1 in Ha1. auto. }
    split.
    { (* rms *)
      destruct FR_const_2 as [Hc1 Hc2].
      destruct (kit_mul_b 2%float ptm 17 Hc2 Hm2 ltac:(lia)) as (Ha1 & Ha2 & Ha3).
      { rewrite Hc1. apply (mul_bound 1 16); auto. change (bpow radix2 1) with 2. rewrite Rabs_pos_eq; lra. }
      rewrite Hc1, Hm1 in Ha1.
      destruct (kit_mul_b (2 * ptm)%float (sum / f_of_Z N)%float 33 Ha2 Hq2 ltac:(lia)) as (Hb1 & Hb2 & Hb3).
      { apply (mul_bound 17 16); auto. }
      rewrite Ha1, Hq1 in Hb1.
      destruct (kit_sub_b (sum2 / f_of_Z N)%float (2 * ptm * (sum / f_of_Z N))%float 34 Hr2 Hb2 ltac:(lia)) as (Hc1' & Hc2' & Hc3').
      { apply (sub_bound 32 33); auto; lia. }
      rewrite Hr1, Hb1 in Hc1'.
      destruct (kit_mul_b ptm ptm 32 Hm2 Hm2 ltac:(lia)) as (Hd1 & Hd2 & Hd3).
      { apply (mul_bound 16 16); auto. }
      rewrite Hm1 in Hd1.
      destruct (kit_add_b (sum2 / f_of_Z N - 2 * ptm * (sum / f_of_Z N))%float (ptm * ptm)%float 35 Hc2' Hd2 ltac:(lia)) as (He1 & He2 & _).
      { rewrite Rplus_comm. apply (add_bound 32 34); auto; lia. }
      rewrite Hc1', Hd1 in He1. fold ms_r in He1.
      unfold mean_square.
      destruct (kit_clamp0 _ He2) as [Hf1 Hf2]. rewrite He1 in Hf1.
      destruct (kit_sqrt _ Hf2) as [Hg1 Hg2].
      { rewrite Hf1. apply Rmax_l. }
      rewrite Hf1 in Hg1. auto. }
    { (* peak *)
      assert (Hpost : post ds p <> []).
      { intros E. pose proof (post_len signed p raw Hw Hp1 Hn) as HL. fold ds in HL. rewrite E in HL.
        unfold zlen in HL at 1. cbn in HL. lia. }
      rewrite (Rmaxl_max _ _ Hpost) in Hmxb. rewrite Hm1 in Hmxb. fold (MX ds p) in Hmxb.
      assert (HMX : Rabs (IZR (MX ds p)) <= bpow radix2 16).
      { rewrite bpow_IZR by lia. rewrite <- abs_IZR. apply IZR_le.
        assert (Hall : Forall srange (post ds p)) by (apply Forall_skipn; apply (ds_range signed raw Hw)).
        unfold MX, Zmaxl. destruct (post ds p) as [|x r]; [congruence|].
        inversion Hall as [|? ? Hx Hr]; subst.
        assert (H : forall l, Forall srange l -> srange (fold_right Z.max x l)).
        { induction 1 as [|y l Hy Hl IHl]; cbn [fold_right]; auto. unfold srange in *. lia. }
        specialize (H r Hr). unfold srange in H. lia. }
      destruct (kit_sub_b mx ptm 17 Hmxa Hm2 ltac:(lia)) as (Ha1 & Ha2 & _).
      - apply (sub_bound 16 16); [lia| |auto]. rewrite Hmxb.
        unfold Rmax. destruct (Rle_dec mu_r (IZR (MX ds p))); auto. rewrite <- Hm1. auto.
      - rewrite Hmxb, Hm1 in Ha1. auto. }
  Qed.
End Structure.

Lemma sums_exact_all :
  forall signed p raw,
    words_ok raw = true -> (1 <= p)%Z -> (p + 1 <= zlen raw)%Z ->
    (p * p * 2 ^ 17 < 2 ^ 53)%Z -> ((zlen raw - p) * 2 ^ 32 < 2 ^ 53)%Z ->
    let ds := map (interp signed) raw in
    let val := fst (acc_pre signed p raw) in
    let valPTDelta := snd (acc_pre signed p raw) in
    let sum := fst (fst (acc_post signed p raw)) in
    let sum2 := snd (fst (acc_post signed p raw)) in
    let max := snd (acc_post signed p raw) in
    (Ffin val /\ FR val = IZR (S0 ds p)) /\
    (Ffin valPTDelta /\ FR valPTDelta = (IZR (V2 ds p) / 2)%R) /\
    (Ffin sum /\ FR sum = IZR (S1 ds p)) /\
    (Ffin sum2 /\ FR sum2 = IZR (S2 ds p)) /\
    (Ffin max /\ FR max = Rmax (FR (ptm_of signed p raw)) (IZR (MX ds p))).
Proof.
  intros signed p raw Hw Hp Hn Hpp HN. cbv zeta.
  destruct (acc_pre_exact signed p raw Hw ltac:(lia) Hpp) as (H1 & H2 & _).
  destruct (acc_post_exact signed p raw Hw Hp Hn Hpp HN) as (H3 & H4 & H5 & H6).
  repeat split; try apply H1; try apply H2; try apply H3; try apply H4; auto.
  rewrite H6. apply Rmaxl_max.
  intros E. pose proof (post_len signed p raw Hw Hp Hn) as HL. rewrite E in HL.
  unfold zlen in HL at 1. cbn in HL. lia.
Qed.
