(* C13 — lemmas and proofs. *)
From Dastard Require Import Common.ZX C13.Model C13.ModelFloat C13.Spec.
