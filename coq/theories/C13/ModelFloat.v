(* C13 (b) — mirror of the SCALAR part of DataStreamProcessor.AnalyzeData (/repo/process_data.go) in
   Coq primitive floats: IEEE-754 binary64, round to nearest even, one Coq operation per Go operation,
   in the code's order (Go on amd64/GOAMD64=v1 never fuses multiply-add).  Definitions only.
   The model is evaluated INSIDE Coq by vm_compute and compared bit for bit with the implementation.

   Go                                                   here
   float64(v) / float64(int16(v))                       f_of_Z (interp signed v)         (exact)
   val += d_i ; valPTDelta += (d_i-d0)*(float64(i)-xmean)   pre_loop
   ptm = val/float64(npre)                              ptm
   valPTDelta*12.0/float64(npre*(npre+1))               delta   (NaN when npre <= 1)
   sum += v; sum2 += v*v; if v > max {max = v}          post_loop
   max - ptm ; sum/N - ptm                              peak, avg
   sum2/N - 2*ptm*(sum/N) + ptm*ptm                     mean_square  = ((sum2/N) - ((2*ptm)*(sum/N))) + (ptm*ptm)
   if meanSquare < 0 {meanSquare = 0}  (the fix)        clamp        (analyze_old: without it)
   math.Sqrt                                            sqrt         (correctly rounded in both)

   Panics of the Go code are explicit: an empty record (mat.NewVecDense panics on length 0) and
   presamples outside 0..len (AtVec index out of range) give Panic. *)
From Coq Require Import ZArith List Floats Uint63.
From Dastard Require Import Common.ZX C13.Model.
Import ListNotations.
Open Scope Z_scope.

(* float64(k) for an int k with |k| < 2^62 (exact below 2^53, correctly rounded above) *)
Definition f_of_Z (z : Z) : float :=
  if z <? 0 then PrimFloat.opp (PrimFloat.of_uint63 (Uint63.of_Z (- z)))
  else PrimFloat.of_uint63 (Uint63.of_Z z).

Record scalars := { s_ptm : float; s_delta : float; s_avg : float; s_rms : float; s_peak : float }.

(* first loop: i = 0 .. npre-1 *)
Fixpoint pre_loop (d0 xmean : float) (i : Z) (l : list float) (val vd : float) : float * float :=
  match l with
  | [] => (val, vd)
  | x :: r => pre_loop d0 xmean (i + 1) r
                (val + x)%float
                (vd + (x - d0) * (f_of_Z i - xmean))%float
  end.

(* second loop: i = npre .. len-1 *)
Fixpoint post_loop (l : list float) (sum sum2 mx : float) : float * float * float :=
  match l with
  | [] => (sum, sum2, mx)
  | v :: r => post_loop r (sum + v)%float (sum2 + v * v)%float (if PrimFloat.ltb mx v then v else mx)
  end.

Definition mean_square (sum sum2 N ptm : float) : float :=
  (sum2 / N - 2 * ptm * (sum / N) + ptm * ptm)%float.

Definition clamp0 (x : float) : float := if PrimFloat.ltb x 0%float then 0%float else x.

(* the record as float64 values *)
Definition samples (signed : bool) (raw : list Z) : list float :=
  map (fun v => f_of_Z (interp signed v)) raw.

(* (val, valPTDelta) after the first loop *)
Definition acc_pre (signed : bool) (npre : Z) (raw : list Z) : float * float :=
  let dv := samples signed raw in
  let d0 := hd 0%float dv in
  let xmean := (f_of_Z (npre - 1) * 0.5)%float in
  pre_loop d0 xmean 0 (zfirstn npre dv) 0%float 0%float.

Definition ptm_of (signed : bool) (npre : Z) (raw : list Z) : float :=
  (fst (acc_pre signed npre raw) / f_of_Z npre)%float.

(* (sum, sum2, max) after the second loop *)
Definition acc_post (signed : bool) (npre : Z) (raw : list Z) : float * float * float :=
  post_loop (zskipn npre (samples signed raw)) 0%float 0%float (ptm_of signed npre raw).

Definition analyze_gen (fixed : bool) (signed : bool) (npre : Z) (raw : list Z) : res scalars :=
  let n := zlen raw in
  if (n =? 0) || (npre <? 0) || (npre >? n) then Panic
  else
    let vd := snd (acc_pre signed npre raw) in
    let ptm := ptm_of signed npre raw in
    let delta := if npre <=? 1 then nan else (vd * 12 / f_of_Z (npre * (npre + 1)))%float in
    let '(sum, sum2, mx) := acc_post signed npre raw in
    let N := f_of_Z (n - npre) in
    let ms := mean_square sum sum2 N ptm in
    let ms := if fixed then clamp0 ms else ms in
    Ok {| s_ptm := ptm; s_delta := delta; s_avg := (sum / N - ptm)%float;
          s_rms := PrimFloat.sqrt ms; s_peak := (mx - ptm)%float |}.

(* the current (repaired) code, and the code as it was before the fix *)
Definition analyze := analyze_gen true.
Definition analyze_old := analyze_gen false.

(* SetProjectorsBasis: the shape test (nsamples = dsp.NSamples) *)
Definition set_projectors_ok (nsamples prow pcol brow bcol : Z) : bool :=
  (nsamples =? pcol) && (bcol =? prow) && (brow =? nsamples).
