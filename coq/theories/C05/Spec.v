(* C05 — the property as a checker over OBSERVABLES only, plus the Prop-level vocabulary of the theorems.
   Nothing here mentions the model (Model.v is not imported): the decoders below are written from
   doc/LJH.md ("Binary Information"), the doc comment of ljh.Writer3.WriteRecord and the layout comment
   at the top of off/off.go (records) + the "SavedAs" text of the OFF header (binary matrices).

   Documentation discrepancies that are NOT violations (DESIGN.md section 7, C05):
   * doc/LJH.md spells the key "Digitized Word Size in Bytes", the writer prints "... In Bytes"; readers
     ignore unknown keys and the word size "is always 2": the harness reports 2 when the documented key
     is absent, and the decoder below uses 2 bytes per sample.
   * the OFF layout comment predates the pretriggerDelta field (format version 0.3.0): the fixed part of
     a record is 36 bytes: int32 recordSamples, int32 recordPreSamples, int64 framecount, int64 timestamp,
     float32 pretriggerMean, float32 pretriggerDelta, float32 residualStdDev; then NumberOfBases float32.
   * LJH3 "firstRisingSample ... (zero or one indexed?)": taken one-indexed, = presamples + 1. *)
From Dastard Require Import Common.ZX C05.Types.
Open Scope Z_scope.

(* ---------------- reading little-endian numbers ---------------- *)

(* "All values in the data record are little endian": value of a byte string, least significant first *)
Fixpoint le_val (bs : list Z) : Z :=
  match bs with
  | [] => 0
  | b :: r => b + 256 * le_val r
  end.

(* two's complement reading of an n-byte unsigned value *)
Definition to_signed (nbytes : Z) (u : Z) : Z :=
  if u <? 2 ^ (8 * nbytes - 1) then u else u - 2 ^ (8 * nbytes).

Definition rd_u (bs : list Z) (at_ n : Z) : Z := le_val (zslice bs at_ n).
Definition rd_s (bs : list Z) (at_ n : Z) : Z := to_signed n (rd_u bs at_ n).

(* [count] consecutive unsigned words of [w] bytes *)
Fixpoint rd_words (w : nat) (count : nat) (bs : list Z) : list Z :=
  match count with
  | O => []
  | S k => le_val (firstn w bs) :: rd_words w k (skipn w bs)
  end.

Inductive presult (A : Type) :=
| POk (rs : list A)
| PMalformed           (* trailing partial record / impossible length field *)
| PFuel.               (* out of fuel: proved unreachable (parse_*_never_out_of_fuel) *)
Arguments POk {A}. Arguments PMalformed {A}. Arguments PFuel {A}.

(* ---------------- LJH 2.2 body (doc/LJH.md) ---------------- *)
(* "Each record starts with a 16-byte time marker ... next L*M bytes ... full record's length is 16+L*M.
    The first 8-byte word is the subframe counter.  The second 8-byte word is the POSIX microsecond time.
    The next L words (of M bytes each) are the data record."   M = 2. *)
Record d22 := mkd22 { d22_sfc : Z; d22_ts : Z; d22_samples : list Z }.

Fixpoint parse22_fuel (fuel : nat) (L : Z) (body : list Z) : presult d22 :=
  match body with
  | [] => POk []
  | _ :: _ =>
      match fuel with
      | O => PFuel
      | S k =>
          let reclen := 16 + L * 2 in
          if zlen body <? reclen then PMalformed
          else match parse22_fuel k L (zskipn reclen body) with
               | POk rs => POk (mkd22 (rd_s body 0 8) (rd_s body 8 8)
                                      (rd_words 2 (Z.to_nat L) (zskipn 16 body)) :: rs)
               | e => e
               end
      end
  end.
Definition parse_ljh22 (L : Z) (body : list Z) : presult d22 :=
  if L <? 0 then PMalformed else parse22_fuel (length body) L body.

(* ---------------- LJH 3 body (ljh.Writer3.WriteRecord) ---------------- *)
(* int32 number of samples, int32 firstRisingSample, int64 framecount, int64 timestamp (us), samples (uint16) *)
Record d3 := mkd3 { d3_first : Z; d3_frame : Z; d3_ts : Z; d3_samples : list Z }.

Fixpoint parse3_fuel (fuel : nat) (body : list Z) : presult d3 :=
  match body with
  | [] => POk []
  | _ :: _ =>
      match fuel with
      | O => PFuel
      | S k =>
          if zlen body <? 24 then PMalformed
          else let n := rd_s body 0 4 in
               if n <? 0 then PMalformed
               else let reclen := 24 + n * 2 in
                    if zlen body <? reclen then PMalformed
                    else match parse3_fuel k (zskipn reclen body) with
                         | POk rs => POk (mkd3 (rd_s body 4 4) (rd_s body 8 8) (rd_s body 16 8)
                                               (rd_words 2 (Z.to_nat n) (zskipn 24 body)) :: rs)
                         | e => e
                         end
      end
  end.
Definition parse_ljh3 (body : list Z) : presult d3 := parse3_fuel (length body) body.

(* ---------------- OFF body (off/off.go) ---------------- *)
Record doff := mkdoff {
  do_nsamp : Z; do_npre : Z; do_frame : Z; do_ns : Z;
  do_mean : Z; do_delta : Z; do_resid : Z;      (* float32 bit patterns *)
  do_coefs : list Z                             (* float32 bit patterns *)
}.

Fixpoint parseoff_fuel (fuel : nat) (nb : Z) (body : list Z) : presult doff :=
  match body with
  | [] => POk []
  | _ :: _ =>
      match fuel with
      | O => PFuel
      | S k =>
          let reclen := 36 + nb * 4 in
          if zlen body <? reclen then PMalformed
          else match parseoff_fuel k nb (zskipn reclen body) with
               | POk rs => POk (mkdoff (rd_s body 0 4) (rd_s body 4 4) (rd_s body 8 8) (rd_s body 16 8)
                                       (rd_u body 24 4) (rd_u body 28 4) (rd_u body 32 4)
                                       (rd_words 4 (Z.to_nat nb) (zskipn 36 body)) :: rs)
               | e => e
               end
      end
  end.

(* what follows the JSON header: "float64 binary data after header and before records. projectors first
   then basis, nbytes = rows*cols*8 for each projectors and basis", then the records *)
Record offbody := mkoffbody { ob_proj : list Z; ob_basis : list Z; ob_recs : list doff }.

Definition parse_off (nb prows pcols brows bcols : Z) (body : list Z) : option offbody :=
  if (nb <? 0) || (prows <? 0) || (pcols <? 0) || (brows <? 0) || (bcols <? 0) then None
  else let np := prows * pcols in let nbs := brows * bcols in
       if zlen body <? 8 * np + 8 * nbs then None
       else let rest := zskipn (8 * np + 8 * nbs) body in
            match parseoff_fuel (length rest) nb rest with
            | POk rs => Some (mkoffbody (rd_words 8 (Z.to_nat np) body)
                                        (rd_words 8 (Z.to_nat nbs) (zskipn (8 * np) body)) rs)
            | _ => None
            end.

(* ---------------- equality tests ---------------- *)
Definition d22_eqb (a b : d22) : bool :=
  (d22_sfc a =? d22_sfc b) && (d22_ts a =? d22_ts b) && zlist_eqb (d22_samples a) (d22_samples b).
Definition d3_eqb (a b : d3) : bool :=
  (d3_first a =? d3_first b) && (d3_frame a =? d3_frame b) && (d3_ts a =? d3_ts b)
  && zlist_eqb (d3_samples a) (d3_samples b).
Definition doff_eqb (a b : doff) : bool :=
  (do_nsamp a =? do_nsamp b) && (do_npre a =? do_npre b) && (do_frame a =? do_frame b) && (do_ns a =? do_ns b)
  && (do_mean a =? do_mean b) && (do_delta a =? do_delta b) && (do_resid a =? do_resid b)
  && zlist_eqb (do_coefs a) (do_coefs b).

(* ---------------- what a file must hold ---------------- *)

(* for a record given as the ARGUMENTS of WriteRecord (level i: r_ns = timestamp argument, r_pre =
   firstRisingSample / recordPreSamples argument, recordSamples = length of r_data) *)
Definition w_expect22 (sfdiv sfoff : Z) (r : rec) : d22 :=
  mkd22 (r_frame r * sfdiv + sfoff) (r_ns r) (r_data r).        (* subframe count = frame*divisions + offset *)
Definition w_expect3 (r : rec) : d3 := mkd3 (r_pre r) (r_frame r) (r_ns r) (r_data r).
Definition w_expectoff (r : rec) : doff :=
  mkdoff (zlen (r_data r)) (r_pre r) (r_frame r) (r_ns r) (r_mean r) (r_delta r) (r_resid r) (r_coefs r).

(* for a published record (level ii): LJH timestamps are microseconds = ns/1000 (Go's "/": toward zero) *)
Definition us_of_ns (ns : Z) : Z := Z.quot ns 1000.
Definition expect22 (sfdiv sfoff : Z) (r : rec) : d22 :=
  mkd22 (r_frame r * sfdiv + sfoff) (us_of_ns (r_ns r)) (r_data r).
Definition expect3 (r : rec) : d3 := mkd3 (r_pre r + 1) (r_frame r) (us_of_ns (r_ns r)) (r_data r).
Definition expectoff (r : rec) : doff := w_expectoff r.

(* "accepted" = the writer returned no error: LJH 2.2 refuses records whose length is not Total Samples;
   LJH 3 accepts everything; OFF refuses a record with the wrong number of coefficients, and the rest of
   that batch is then not offered to the writer. *)
Definition accepted22 (nsamp : Z) (rs : list rec) : list rec :=
  filter (fun r => zlen (r_data r) =? nsamp) rs.
Fixpoint off_prefix (nb : Z) (rs : list rec) : list rec :=
  match rs with
  | [] => []
  | r :: rest => if zlen (r_coefs r) =? nb then r :: off_prefix nb rest else []
  end.

(* ---------------- time base ---------------- *)
Definition zabs_diff (a b : Z) : Z := Z.abs (a - b).

(* the positive normal double [bits] equals tbn/tbd up to a relative error 2^-52 *)
Definition f64_near (tbn tbd bits : Z) : bool :=
  let ex := (bits / 2 ^ 52) mod 2048 in
  let M := 2 ^ 52 + bits mod 2 ^ 52 in
  let E := ex - 1075 in
  (0 <? tbn) && (0 <? tbd) && (0 <=? bits) && (bits <? 2 ^ 63) && (0 <? ex) && (ex <? 2047)
  && (let X := if 0 <=? E then M * 2 ^ E * tbd else M * tbd in
      let T := if 0 <=? E then tbn else tbn * 2 ^ (- E) in
      zabs_diff X T * 2 ^ 52 <=? T).

(* the 7-digit decimal m * 10^(e-6) equals tbn/tbd up to half a unit of the last digit (+ 1e-6 of it) *)
Definition dec7_near (tbn tbd m e : Z) : bool :=
  let k := e - 6 in
  (0 <? tbn) && (0 <? tbd) && (1000000 <=? m) && (m <? 10000000)
  && (let X := if 0 <=? k then m * 10 ^ k * tbd else m * tbd in
      let T := if 0 <=? k then tbn else tbn * 10 ^ (- k) in
      let U := if 0 <=? k then 10 ^ k * tbd else tbd in
      2 * zabs_diff X T * 1000000 <=? 1000001 * U).

(* ---------------- header checks ---------------- *)

(* every field of the observed LJH 2.2 header equals the truth; version 2.2.x; 2-byte words;
   the printed time base is the true one to 7 significant digits *)
Definition hdr22_ok (t : hdr22) (tbn tbd : Z) (h : hdr22) : bool :=
  (h22_vmaj h =? 2) && (h22_vmin h =? 2) && (h22_word h =? 2)
  && (h22_rows h =? h22_rows t) && (h22_cols h =? h22_cols t) && (h22_row h =? h22_row t) && (h22_col h =? h22_col t)
  && (h22_nchan h =? h22_nchan t) && zlist_eqb (h22_name h) (h22_name t) && (h22_number h =? h22_number t)
  && (h22_index h =? h22_index t) && (h22_sfdiv h =? h22_sfdiv t) && (h22_sfoff h =? h22_sfoff t)
  && (h22_npre h =? h22_npre t) && (h22_nsamp h =? h22_nsamp t) && (h22_spp h =? h22_spp t)
  && (h22_px h =? h22_px t) && (h22_py h =? h22_py t) && zlist_eqb (h22_pname h) (h22_pname t)
  && zlist_eqb (h22_source h) (h22_source t)
  && dec7_near tbn tbd (h22_tbm h) (h22_tbe h).

Definition hdr3_ok (t : hdr3) (tbn tbd : Z) (h : hdr3) : bool :=
  zlist_eqb (h3_fmt h) [76; 74; 72; 51] && zlist_eqb (h3_ver h) [51; 46; 48; 46; 48]      (* "LJH3" "3.0.0" *)
  && (h3_rows h =? h3_rows t) && (h3_cols h =? h3_cols t) && (h3_sfdiv h =? h3_sfdiv t)
  && (h3_row h =? h3_row t) && (h3_col h =? h3_col t) && (h3_sfoff h =? h3_sfoff t)
  && f64_near tbn tbd (h3_tb h).

Definition hdroff_ok (t : hdroff) (tbn tbd : Z) (h : hdroff) : bool :=
  zlist_eqb (ho_fmt h) [79; 70; 70] && zlist_eqb (ho_ver h) [48; 46; 51; 46; 48]          (* "OFF" "0.3.0" *)
  && (ho_index h =? ho_index t) && zlist_eqb (ho_name h) (ho_name t) && (ho_number h =? ho_number t)
  && (ho_maxpre h =? ho_maxpre t) && (ho_maxsamp h =? ho_maxsamp t)
  && (ho_nbases h =? ho_nbases t)
  && (ho_prows h =? ho_prows t) && (ho_pcols h =? ho_pcols t) && (ho_brows h =? ho_brows t) && (ho_bcols h =? ho_bcols t)
  && zlist_eqb (ho_desc h) (ho_desc t)
  && (ho_rows h =? ho_rows t) && (ho_cols h =? ho_cols t) && (ho_nchan h =? ho_nchan t) && (ho_sfdiv h =? ho_sfdiv t)
  && (ho_col h =? ho_col t) && (ho_row h =? ho_row t) && (ho_sfoff h =? ho_sfoff t)
  && (ho_px h =? ho_px t) && (ho_py h =? ho_py t) && zlist_eqb (ho_pname h) (ho_pname t)
  && zlist_eqb (ho_source h) (ho_source t)
  && f64_near tbn tbd (ho_tb h).

(* ---------------- one file against (truth, records that must be in it) ---------------- *)

(* [recs] are already the accepted ones; [exp] maps a record to its decoded form.
   File length = header + sum of record sizes; body parses with nothing left over and holds exactly the records. *)
Definition file22_ok (t : hdr22) (tbn tbd : Z) (exp : rec -> d22) (recs : list rec) (f : fobs hdr22) : bool :=
  match f with
  | FAbsent => match recs with [] => true | _ => false end
  | FBad => false
  | FFile h size hlen body =>
      hdr22_ok t tbn tbd h
      && (0 <=? hlen) && (size =? hlen + zlen recs * (16 + 2 * h22_nsamp h))
      && match parse_ljh22 (h22_nsamp h) body with
         | POk ds => list_eqb d22_eqb ds (map exp recs)
         | _ => false
         end
  end.

Definition sum_z (l : list Z) : Z := fold_right Z.add 0 l.

Definition file3_ok (t : hdr3) (tbn tbd : Z) (exp : rec -> d3) (recs : list rec) (f : fobs hdr3) : bool :=
  match f with
  | FAbsent => match recs with [] => true | _ => false end
  | FBad => false
  | FFile h size hlen body =>
      hdr3_ok t tbn tbd h
      && (0 <=? hlen) && (size =? hlen + sum_z (map (fun r => 24 + 2 * zlen (r_data r)) recs))
      && match parse_ljh3 body with
         | POk ds => list_eqb d3_eqb ds (map exp recs)
         | _ => false
         end
  end.

Definition fileoff_ok (t : hdroff) (tbn tbd : Z) (proj basis : matrix) (recs : list rec) (f : fobs hdroff) : bool :=
  match f with
  | FAbsent => match recs with [] => true | _ => false end
  | FBad => false
  | FFile h size hlen body =>
      hdroff_ok t tbn tbd h
      && (0 <=? hlen)
      && (size =? hlen + 8 * (ho_prows h * ho_pcols h) + 8 * (ho_brows h * ho_bcols h)
                  + zlen recs * (36 + 4 * ho_nbases h))
      && match parse_off (ho_nbases h) (ho_prows h) (ho_pcols h) (ho_brows h) (ho_bcols h) body with
         | Some ob => zlist_eqb (ob_proj ob) (m_bits proj) && zlist_eqb (ob_basis ob) (m_bits basis)
                      && list_eqb doff_eqb (ob_recs ob) (map expectoff recs)
         | None => false
         end
  end.

Definition is_absent {H} (f : fobs H) : bool := match f with FAbsent => true | _ => false end.

(* ---------------- level (i): one writer driven through its public API ---------------- *)

(* records whose WriteRecord returned nil *)
Fixpoint w_accepted (h : list (wop * wret)) : list rec :=
  match h with
  | [] => []
  | (WRec r, WOk) :: rest => r :: w_accepted rest
  | _ :: rest => w_accepted rest
  end.
Definition no_panic (h : list (wop * wret)) : bool :=
  forallb (fun x => match snd x with WPanic => false | _ => true end) h.

Definition C05_w22_check (t : hdr22) (tbn tbd : Z) (h : list (wop * wret)) (f : fobs hdr22) : bool :=
  no_panic h && file22_ok t tbn tbd (w_expect22 (h22_sfdiv t) (h22_sfoff t)) (w_accepted h) f.
Definition C05_w3_check (t : hdr3) (tbn tbd : Z) (h : list (wop * wret)) (f : fobs hdr3) : bool :=
  no_panic h && file3_ok t tbn tbd w_expect3 (w_accepted h) f.
Definition C05_woff_check (t : hdroff) (tbn tbd : Z) (proj basis : matrix) (h : list (wop * wret))
                          (f : fobs hdroff) : bool :=
  no_panic h && fileoff_ok t tbn tbd proj basis (w_accepted h) f.

(* ---------------- level (ii): the channel's true parameters as each format defines them ---------------- *)

Definition true_hdr22 (sp : srcp) (c : chanp) : hdr22 :=
  mkh22 2 2 (cp_rows c) (cp_cols c) (cp_row c) (cp_col c) (sp_nchan sp) (cp_name c) (cp_number c) (cp_index c)
        (sp_sfdiv sp) (cp_sfoff c) 2 (sp_npre sp) (sp_nsamp sp) 1 0 0 (cp_px c) (cp_py c) (cp_pname c) (sp_source sp).
Definition true_hdr3 (sp : srcp) (c : chanp) : hdr3 :=
  mkh3 [76; 74; 72; 51] [51; 46; 48; 46; 48] 0 (cp_rows c) (cp_cols c) (sp_sfdiv sp) (cp_row c) (cp_col c) (cp_sfoff c).
Definition true_hdroff (sp : srcp) (c : chanp) (proj basis : matrix) (desc : list Z) : hdroff :=
  mkhoff [79; 70; 70] [48; 46; 51; 46; 48] (cp_index c) (cp_name c) (cp_number c) (sp_npre sp) (sp_nsamp sp) 0
         (m_rows proj) (m_rows proj) (m_cols proj) (m_rows basis) (m_cols basis) desc
         (cp_rows c) (cp_cols c) (sp_nchan sp) (sp_sfdiv sp) (cp_col c) (cp_row c) (cp_sfoff c)
         (cp_px c) (cp_py c) (cp_pname c) (sp_source sp).

(* channels with (non-empty) projectors are the ones eligible for OFF *)
Definition off_eligible (c : chanp) : option (matrix * matrix * list Z) :=
  match cp_proj c with
  | Some (pj, bs, desc) => if (0 <? m_rows pj) && (0 <? m_cols pj) then Some (pj, bs, desc) else None
  | None => None
  end.

(* state of the checker: is a writing cycle open, is it paused, which file types, and per channel the
   records published so far in this cycle while it was unpaused ([s_acc]: all of them; [s_accoff]: per batch
   the prefix the OFF writer was offered and took) *)
Record sst := mksst {
  s_active : bool; s_paused : bool;
  s_t22 : bool; s_t3 : bool; s_toff : bool;
  s_acc : list (list rec);
  s_accoff : list (list rec)
}.

Definition s_init (cs : list chanp) : sst :=
  mksst false false false false false (map (fun _ => []) cs) (map (fun _ => []) cs).

Fixpoint app_at {A} (l : list (list A)) (i : nat) (x : list A) : list (list A) :=
  match l, i with
  | [], _ => []
  | a :: r, O => (a ++ x) :: r
  | a :: r, S k => a :: app_at r k x
  end.

Definition nb_of (c : chanp) : Z :=
  match off_eligible c with Some (pj, _, _) => m_rows pj | None => 0 end.

Definition dflt_chan : chanp := mkchanp 0 [] 0 0 0 0 0 0 0 0 [] None.

(* evolution of the checker state (START counts when it returned nil) *)
Definition sstep (cs : list chanp) (st : sst) (o : bop) (b : bobs) : sst :=
  match o, b with
  | BStart t22 t3 toff, BOk =>
      mksst true false t22 t3 toff (map (fun _ => []) cs) (map (fun _ => []) cs)
  | BPub ch rs, _ =>
      if s_active st && negb (s_paused st)
      then mksst true false (s_t22 st) (s_t3 st) (s_toff st)
                 (app_at (s_acc st) (Z.to_nat ch) rs)
                 (app_at (s_accoff st) (Z.to_nat ch)
                         (off_prefix (nb_of (nth (Z.to_nat ch) cs dflt_chan)) rs))
      else st
  | BPause, _ => mksst (s_active st) true (s_t22 st) (s_t3 st) (s_toff st) (s_acc st) (s_accoff st)
  | BUnpause, _ => mksst (s_active st) false (s_t22 st) (s_t3 st) (s_toff st) (s_acc st) (s_accoff st)
  | BStop, _ => mksst false false (s_t22 st) (s_t3 st) (s_toff st) (map (fun _ => []) cs) (map (fun _ => []) cs)
  | _, _ => st
  end.

(* one channel's files at STOP *)
(* every record of an LJH 2.2 / OFF file was cut with the pre-trigger length the file's header states
   (the header is written once; LJH 3 stores the value per record) *)
Definition pre_is (npre : Z) (rs : list rec) : bool := forallb (fun r => r_pre r =? npre) rs.

Definition chan_files_ok (sp : srcp) (st : sst) (c : chanp) (acc accoff : list rec) (cf : chfiles) : bool :=
  (if s_t22 st
   then file22_ok (true_hdr22 sp c) (sp_tbn sp) (sp_tbd sp) (expect22 (sp_sfdiv sp) (cp_sfoff c))
                  (accepted22 (sp_nsamp sp) acc) (cf22 cf)
        && pre_is (sp_npre sp) (accepted22 (sp_nsamp sp) acc)
   else is_absent (cf22 cf))
  && (if s_t3 st
      then file3_ok (true_hdr3 sp c) (sp_tbn sp) (sp_tbd sp) expect3 acc (cf3 cf)
      else is_absent (cf3 cf))
  && (match (if s_toff st then off_eligible c else None) with
      | Some (pj, bs, desc) => fileoff_ok (true_hdroff sp c pj bs desc) (sp_tbn sp) (sp_tbd sp) pj bs accoff (cfoff cf)
                               && pre_is (sp_npre sp) accoff
      | None => is_absent (cfoff cf)
      end).

Fixpoint all_chans_ok (sp : srcp) (st : sst) (cs : list chanp) (accs accoffs : list (list rec)) (l : list chfiles) : bool :=
  match cs, accs, accoffs, l with
  | [], [], [], [] => true
  | c :: cs', a :: accs', ao :: accoffs', cf :: l' =>
      chan_files_ok sp st c a ao cf && all_chans_ok sp st cs' accs' accoffs' l'
  | _, _, _, _ => false
  end.

Definition all_absent (cf : chfiles) : bool := is_absent (cf22 cf) && is_absent (cf3 cf) && is_absent (cfoff cf).

(* is this observation acceptable in this state? *)
Definition step_ok (sp : srcp) (cs : list chanp) (st : sst) (o : bop) (b : bobs) : bool :=
  match o, b with
  | BStart _ _ _, BOk => negb (s_active st)         (* a START that succeeds while a cycle is open would orphan its files *)
  | BStart _ _ _, BErr => true
  | BPub ch _, (BOk | BErr) => (0 <=? ch) && (ch <? zlen cs)
  | BFlush ch, BOk => (0 <=? ch) && (ch <? zlen cs)
  | BPause, BOk | BUnpause, BOk => true
  | BStop, BFiles l =>
      if s_active st then all_chans_ok sp st cs (s_acc st) (s_accoff st) l
      else (zlen l =? zlen cs) && forallb all_absent l
  | _, _ => false
  end.

(* ---- requests that change the source's tables: ConfigurePulseLengths ---- *)
Definition lens_change (sp : srcp) (nsamp npre : Z) : bool :=
  negb ((sp_npre sp =? npre) && (sp_nsamp sp =? nsamp)).

(* the tables after a request, given its observed outcome: an accepted change of lengths puts them in force and
   removes every channel's projectors; anything else leaves the tables alone *)
Definition cfg_step (sp : srcp) (cs : list chanp) (o : bop) (b : bobs) : srcp * list chanp :=
  match o, b with
  | BPulse nsamp npre, BOk =>
      if lens_change sp nsamp npre then (with_lens sp npre nsamp, map clear_proj cs) else (sp, cs)
  | _, _ => (sp, cs)
  end.

(* while a writing cycle is open (paused or not) the record lengths must not change: the headers of its files
   were fixed at START.  A refused request changes nothing. *)
Definition cstep_ok (sp : srcp) (cs : list chanp) (st : sst) (o : bop) (b : bobs) : bool :=
  match o, b with
  | BPulse nsamp npre, BOk => negb (s_active st) || negb (lens_change sp nsamp npre)
  | BPulse _ _, BErr => true
  | BPulse _ _, _ => false
  | _, _ => step_ok sp cs st o b
  end.

Fixpoint check_from (sp : srcp) (cs : list chanp) (st : sst) (h : list (bop * bobs)) : bool :=
  match h with
  | [] => true
  | (o, b) :: rest =>
      cstep_ok sp cs st o b &&
      (let (sp', cs') := cfg_step sp cs o b in check_from sp' cs' (sstep cs st o b) rest)
  end.

Definition C05_bench_check (sp : srcp) (cs : list chanp) (h : list (bop * bobs)) : bool :=
  check_from sp cs (s_init cs) h.

(* tables and checker state before the k-th step (for the statements of the theorems) *)
Fixpoint chk_before (sp : srcp) (cs : list chanp) (st : sst) (h : list (bop * bobs)) (k : nat)
  : srcp * list chanp * sst :=
  match h, k with
  | (o, b) :: rest, S k' => let (sp', cs') := cfg_step sp cs o b in chk_before sp' cs' (sstep cs st o b) rest k'
  | _, _ => (sp, cs, st)
  end.

(* ---------------- ranges (hypotheses of the round-trip theorems) ---------------- *)
Definition in_i64 (v : Z) : Prop := - 2 ^ 63 <= v < 2 ^ 63.
Definition in_i32 (v : Z) : Prop := - 2 ^ 31 <= v < 2 ^ 31.
Definition in_u32 (v : Z) : Prop := 0 <= v < 2 ^ 32.
Definition in_u16 (v : Z) : Prop := 0 <= v < 2 ^ 16.
Definition in_u64 (v : Z) : Prop := 0 <= v < 2 ^ 64.

(* a WriteRecord argument tuple that the LJH 2.2 layout can hold: L samples, sub-frame count within int64 *)
Definition rec22_fits (sfdiv sfoff L : Z) (r : rec) : Prop :=
  in_i64 (r_frame r * sfdiv + sfoff) /\ in_i64 (r_ns r) /\ Forall in_u16 (r_data r) /\ zlen (r_data r) = L.
Definition rec3_fits (r : rec) : Prop :=
  in_i32 (r_pre r) /\ in_i64 (r_frame r) /\ in_i64 (r_ns r) /\ Forall in_u16 (r_data r) /\ zlen (r_data r) < 2 ^ 31.
Definition recoff_fits (nb : Z) (r : rec) : Prop :=
  zlen (r_data r) < 2 ^ 31 /\ in_i32 (r_pre r) /\ in_i64 (r_frame r) /\ in_i64 (r_ns r) /\
  in_u32 (r_mean r) /\ in_u32 (r_delta r) /\ in_u32 (r_resid r) /\ Forall in_u32 (r_coefs r) /\ zlen (r_coefs r) = nb.

(* a published record whose fields fit the three layouts (the premise "within field ranges") and that was cut
   with the pre-trigger length in force, as the processors cut them *)
Definition pubrec_fits (sp : srcp) (c : chanp) (r : rec) : Prop :=
  in_i64 (r_frame r * sp_sfdiv sp + cp_sfoff c) /\ in_i64 (r_frame r) /\ in_i64 (r_ns r) /\
  in_i32 (r_pre r) /\ in_i32 (r_pre r + 1) /\ Forall in_u16 (r_data r) /\ zlen (r_data r) < 2 ^ 31 /\
  in_u32 (r_mean r) /\ in_u32 (r_delta r) /\ in_u32 (r_resid r) /\ Forall in_u32 (r_coefs r) /\
  r_pre r = sp_npre sp.      (* cut with the pre-trigger length in force *)

(* matrices whose Data slice has rows*cols entries, each a 64-bit pattern *)
Definition matrix_wf (m : matrix) : Prop :=
  0 <= m_rows m /\ 0 <= m_cols m /\ zlen (m_bits m) = m_rows m * m_cols m /\ Forall in_u64 (m_bits m).

(* a prepared source: at least one channel, the oracles (Go's 1.0/SampleRate and its %e rendering) are what
   they claim to be, matrices are well formed *)
Definition cfg_wf (sp : srcp) (cs : list chanp) : Prop :=
  cs <> [] /\ 0 <= sp_nsamp sp /\
  dec7_near (sp_tbn sp) (sp_tbd sp) (sp_tbm sp) (sp_tbe sp) = true /\
  f64_near (sp_tbn sp) (sp_tbd sp) (sp_tb64 sp) = true /\
  (forall c pj bs desc, In c cs -> cp_proj c = Some (pj, bs, desc) -> matrix_wf pj /\ matrix_wf bs).

(* every publish/flush addresses an existing channel and carries records within field ranges *)
Definition op_wf (sp : srcp) (cs : list chanp) (o : bop) : Prop :=
  match o with
  | BPub ch rs => 0 <= ch < zlen cs /\ Forall (pubrec_fits sp (nth (Z.to_nat ch) cs dflt_chan)) rs
  | BFlush ch => 0 <= ch < zlen cs
  | _ => True
  end.

(* a whole history: every request well-formed with respect to the tables in force when it is issued *)
Fixpoint hist_wf (sp : srcp) (cs : list chanp) (h : list (bop * bobs)) : Prop :=
  match h with
  | [] => True
  | (o, b) :: rest => op_wf sp cs o /\ (let (sp', cs') := cfg_step sp cs o b in hist_wf sp' cs' rest)
  end.

(* four lists related element by element (channels, their two record lists, their publishers/files) *)
Inductive all4 {A B C D} (R : A -> B -> C -> D -> Prop) : list A -> list B -> list C -> list D -> Prop :=
| all4_nil : all4 R [] [] [] []
| all4_cons a b c d la lb lc ld :
    R a b c d -> all4 R la lb lc ld -> all4 R (a :: la) (b :: lb) (c :: lc) (d :: ld).
