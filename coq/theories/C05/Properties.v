(* C05 — property theorems only: each closed by [exact], each followed by Print Assumptions.
   Encoders (ljh22_record, ljh3_record, off_record, off_header_tail, publish, bstep, brun ...) are the mirror
   model of the Go code (Model.v); decoders and checkers (parse_*, C05_bench_check, accepted22, off_prefix,
   sst_before ...) are the independent specification (Spec.v, which does not import Model.v). *)
From Dastard Require Import Common.ZX C05.Types C05.Model C05.Spec C05.RoundTrip C05.Proofs C05.Writers.
Open Scope Z_scope.

(* LJH 2.2: for ALL sub-frame parameters, ALL record lengths L >= 0 and ALL lists of WriteRecord argument tuples
   whose fields fit the layout (sub-frame count frame*divisions+offset and timestamp within int64, L samples of
   16 bits), the decoder written from doc/LJH.md reads the concatenated records back exactly, nothing left over;
   in particular the stored counter is frame*divisions + offset (w_expect22). *)
Theorem ljh22_roundtrip :
  forall sfdiv sfoff L rs,
    0 <= L -> Forall (rec22_fits sfdiv sfoff L) rs ->
    parse_ljh22 L (concat (map (fun r => ljh22_record sfdiv sfoff (r_frame r) (r_ns r) (r_data r)) rs))
    = POk (map (fun r => mkd22 (r_frame r * sfdiv + sfoff) (r_ns r) (r_data r)) rs).
Proof. exact ljh22_roundtrip_lemma. Qed.
Print Assumptions ljh22_roundtrip.

Example ljh22_roundtrip_nonvacuous :
  Forall (rec22_fits 4 2 3) [mkrec 7 (-5) 1 [0; 65535; 258] 0 0 0 []; mkrec (2 ^ 60) (2 ^ 63 - 1) 1 [1; 2; 3] 0 0 0 []].
Proof. repeat constructor; cbn; try lia; discriminate. Qed.

(* LJH 3 (self-delimiting, variable length) *)
Theorem ljh3_roundtrip :
  forall rs,
    Forall rec3_fits rs ->
    parse_ljh3 (concat (map (fun r => ljh3_record (r_pre r) (r_frame r) (r_ns r) (r_data r)) rs))
    = POk (map (fun r => mkd3 (r_pre r) (r_frame r) (r_ns r) (r_data r)) rs).
Proof. exact ljh3_roundtrip_lemma. Qed.
Print Assumptions ljh3_roundtrip.

Example ljh3_roundtrip_nonvacuous :
  Forall rec3_fits [mkrec (- 2 ^ 63) (2 ^ 63 - 1) (- 2 ^ 31) [] 0 0 0 []; mkrec 5 6 (2 ^ 31 - 1) [65535; 0; 7] 0 0 0 []].
Proof. repeat constructor; cbn; try lia; discriminate. Qed.

(* OFF: binary tail of the header (projectors then basis, float64 bit patterns) followed by the records *)
Theorem off_roundtrip :
  forall nb proj basis rs,
    0 <= nb -> matrix_wf proj -> matrix_wf basis -> Forall (recoff_fits nb) rs ->
    parse_off nb (m_rows proj) (m_cols proj) (m_rows basis) (m_cols basis)
              (off_header_tail proj basis ++
               concat (map (fun r => off_record (zlen (r_data r)) (r_pre r) (r_frame r) (r_ns r)
                                                (r_mean r) (r_delta r) (r_resid r) (r_coefs r)) rs))
    = Some (mkoffbody (m_bits proj) (m_bits basis)
                      (map (fun r => mkdoff (zlen (r_data r)) (r_pre r) (r_frame r) (r_ns r)
                                            (r_mean r) (r_delta r) (r_resid r) (r_coefs r)) rs)).
Proof. exact off_roundtrip_lemma. Qed.
Print Assumptions off_roundtrip.

Example off_roundtrip_nonvacuous :
  matrix_wf (mkmat 1 2 [0; 2 ^ 64 - 1]) /\
  Forall (recoff_fits 2) [mkrec (- 2 ^ 63) (2 ^ 63 - 1) (- 2 ^ 31) [1; 2; 3] (2 ^ 32 - 1) 0 2143289344 [4290772992; 1]].
Proof. split; [repeat split; cbn; try lia; repeat constructor; cbn; lia | repeat constructor; cbn; try lia; discriminate]. Qed.

(* the three decoders terminate with a verdict on EVERY byte string: the out-of-fuel result is unreachable *)
Theorem parsers_never_out_of_fuel :
  (forall L body, parse_ljh22 L body <> PFuel) /\
  (forall body, parse_ljh3 body <> PFuel) /\
  (forall nb body, 0 <= nb -> parseoff_fuel (length body) nb body <> PFuel).
Proof. exact parsers_never_out_of_fuel_lemma. Qed.
Print Assumptions parsers_never_out_of_fuel.

(* Over ALL header renderers, ALL source/channel parameters, ALL histories of START / publish / flush / PAUSE /
   UNPAUSE / STOP / ConfigurePulseLengths (any length, any interleaving, refused requests included) and every point k:
   while a writing cycle is open, each file the model has created holds exactly
        header ++ [OFF: projectors ++ basis ++] concat (map record (records accepted while active and unpaused))
   and its length is |header| + the sum of the record sizes; a file that was not created means that nothing was
   accepted.  [st] is the checker-side state (which records were published while the cycle was open and unpaused,
   Spec.sstep), [ps] the model's publishers after the first k requests.  LJH 2.2: sub-frame count
   frame*divisions+offset, microseconds = ns/1000 (Z.quot: toward zero, as Go divides). *)
Theorem file_is_header_plus_records :
  forall (render22 : hdr22 -> list Z) (render3 : hdr3 -> list Z) (renderoff : hdroff -> list Z) sp0 cs0 ops k,
    cfg_wf sp0 cs0 ->
    let obs := snd (crun render22 render3 renderoff true sp0 cs0 (binit cs0) ops) in
    hist_wf sp0 cs0 (combine ops obs) ->
    let chk := chk_before sp0 cs0 (s_init cs0) (combine ops obs) k in
    let sp := fst (fst chk) in let cs := snd (fst chk) in let st := snd chk in
    let ps := snd (fst (crun render22 render3 renderoff true sp0 cs0 (binit cs0) (firstn k ops))) in
    s_active st = true ->
    all4 (fun c acc accoff p =>
      (* LJH 2.2 *)
      (s_t22 st = true -> p22 p <> None) /\
      (forall h s, p22 p = Some (h, s) ->
         let A := accepted22 (sp_nsamp sp) acc in
         (w_created s = false -> A = []) /\
         (w_created s = true ->
            w_bytes s = render22 h ++ concat (map (fun r => ljh22_record (sp_sfdiv sp) (cp_sfoff c) (r_frame r)
                                                                         (Z.quot (r_ns r) 1000) (r_data r)) A)
            /\ zlen (w_bytes s) = zlen (render22 h) + zlen A * (16 + 2 * sp_nsamp sp))) /\
      (* LJH 3 *)
      (s_t3 st = true -> p3 p <> None) /\
      (forall h s, p3 p = Some (h, s) ->
         (w_created s = false -> acc = []) /\
         (w_created s = true ->
            w_bytes s = render3 h ++ concat (map (fun r => ljh3_record (r_pre r + 1) (r_frame r) (Z.quot (r_ns r) 1000) (r_data r)) acc)
            /\ zlen (w_bytes s) = zlen (render3 h) + sum_z (map (fun r => 24 + 2 * zlen (r_data r)) acc))) /\
      (* OFF *)
      (s_toff st = true -> off_eligible c <> None -> poff p <> None) /\
      (forall h pj bs s, poff p = Some (h, pj, bs, s) ->
         (w_created s = false -> accoff = []) /\
         (w_created s = true ->
            w_bytes s = renderoff h ++ off_header_tail pj bs ++
                        concat (map (fun r => off_record (zlen (r_data r)) (r_pre r) (r_frame r) (r_ns r)
                                                         (r_mean r) (r_delta r) (r_resid r) (r_coefs r)) accoff)
            /\ zlen (w_bytes s) = zlen (renderoff h) + 8 * zlen (m_bits pj) + 8 * zlen (m_bits bs)
                                  + zlen accoff * (36 + 4 * m_rows pj))))
      cs (s_acc st) (s_accoff st) ps.
Proof. exact file_is_header_plus_records_lemma. Qed.
Print Assumptions file_is_header_plus_records.

(* ... and STOP reports, per channel, exactly those bytes: header fields, size, header length, the rest *)
Theorem stop_reports_contents :
  forall (render22 : hdr22 -> list Z) (render3 : hdr3 -> list Z) (renderoff : hdroff -> list Z) sp cs ps,
    snd (bstep render22 render3 renderoff true sp cs ps BStop) =
    BFiles (map (fun p =>
      mkcf (match p22 p with
            | Some (h, s) => if w_created s then FFile h (zlen (w_bytes s)) (zlen (render22 h)) (zskipn (zlen (render22 h)) (w_bytes s)) else FAbsent
            | None => FAbsent end)
           (match p3 p with
            | Some (h, s) => if w_created s then FFile h (zlen (w_bytes s)) (zlen (render3 h)) (zskipn (zlen (render3 h)) (w_bytes s)) else FAbsent
            | None => FAbsent end)
           (match poff p with
            | Some (h, _, _, s) => if w_created s then FFile h (zlen (w_bytes s)) (zlen (renderoff h)) (zskipn (zlen (renderoff h)) (w_bytes s)) else FAbsent
            | None => FAbsent end)) ps).
Proof. exact stop_reports_contents_lemma. Qed.
Print Assumptions stop_reports_contents.

(* The headline: for ALL renderers, parameters and histories (requests addressing existing channels, record fields
   within the layouts' ranges, the two float oracles being what they claim), the observations of the model --
   every request's outcome (pulse-length requests through SourceControl included: refused while a cycle is open,
   so a file's records all have the lengths its header states) and, at every STOP, every channel's files -- pass
   the independent checker: headers
   state the channel's true parameters, bodies parse with nothing left over into exactly the records accepted
   while active and unpaused, sizes add up, no file for a type that was not requested. *)
Theorem model_passes_checker :
  forall (render22 : hdr22 -> list Z) (render3 : hdr3 -> list Z) (renderoff : hdroff -> list Z) sp cs ops,
    cfg_wf sp cs ->
    hist_wf sp cs (combine ops (snd (crun render22 render3 renderoff true sp cs (binit cs) ops))) ->
    C05_bench_check sp cs (combine ops (snd (crun render22 render3 renderoff true sp cs (binit cs) ops))) = true.
Proof. exact model_passes_checker_full. Qed.
Print Assumptions model_passes_checker.

Example model_passes_checker_nonvacuous :
  let sp := mksrcp 1 [76] 4 3 8 1 100000 4532020583610935537 1000000 (-5) in
  let cs := [mkchanp 0 [99] 1 4 2 2 1 2 0 0 [] None] in
  let ops := [BPulse 4 3; BStart true true false; BPause; BPulse 6 4; BUnpause;
              BPub 0 [mkrec 7 (-1500) 3 [1; 2; 3; 65535] 0 0 0 []]; BStop] in
  cfg_wf sp cs /\
  hist_wf sp cs (combine ops (snd (crun (fun _ => []) (fun _ => []) (fun _ => []) true sp cs (binit cs) ops))) /\
  snd (crun (fun _ => []) (fun _ => []) (fun _ => []) true sp cs (binit cs) ops) =
  [BOk; BOk; BOk; BErr; BOk; BOk;
   BFiles [mkcf (FFile (mkh22 2 2 4 2 2 1 1 [99] 1 0 4 2 2 3 4 1 1000000 (-5) 0 0 [] [76]) 24 0
                       [30; 0; 0; 0; 0; 0; 0; 0; 255; 255; 255; 255; 255; 255; 255; 255; 1; 0; 2; 0; 3; 0; 255; 255])
                (FFile (mkh3 [76; 74; 72; 51] [51; 46; 48; 46; 48] 4532020583610935537 4 2 4 2 1 2) 32 0
                       [4; 0; 0; 0; 4; 0; 0; 0; 7; 0; 0; 0; 0; 0; 0; 0; 255; 255; 255; 255; 255; 255; 255; 255;
                        1; 0; 2; 0; 3; 0; 255; 255])
                FAbsent]].
Proof.
  intros sp cs ops.
  assert (E : snd (crun (fun _ => []) (fun _ => []) (fun _ => []) true sp cs (binit cs) ops) =
              [BOk; BOk; BOk; BErr; BOk; BOk;
               BFiles [mkcf (FFile (mkh22 2 2 4 2 2 1 1 [99] 1 0 4 2 2 3 4 1 1000000 (-5) 0 0 [] [76]) 24 0
                                   [30; 0; 0; 0; 0; 0; 0; 0; 255; 255; 255; 255; 255; 255; 255; 255; 1; 0; 2; 0; 3; 0; 255; 255])
                            (FFile (mkh3 [76; 74; 72; 51] [51; 46; 48; 46; 48] 4532020583610935537 4 2 4 2 1 2) 32 0
                                   [4; 0; 0; 0; 4; 0; 0; 0; 7; 0; 0; 0; 0; 0; 0; 0; 255; 255; 255; 255; 255; 255; 255; 255;
                                    1; 0; 2; 0; 3; 0; 255; 255])
                            FAbsent]]) by (vm_compute; reflexivity).
  split; [|split; [|exact E]].
  - split; [discriminate|]. split; [cbn; lia|]. split; [vm_compute; reflexivity|]. split; [vm_compute; reflexivity|].
    intros c pj bs desc [<- | []] H. discriminate H.
  - rewrite E. subst sp cs ops. cbn [combine hist_wf]. cbn.
    repeat split; cbn; try lia; try discriminate; repeat constructor; cbn; try lia; try discriminate.
Qed.

(* Level (i): the writers of packages ljh and off driven directly.  For ALL renderers, ALL struct fields [h] whose
   constants are the format's (version, word size, format strings) and whose time base is printed faithfully, and
   ALL call sequences  CreateFile; WriteHeader; (WriteRecord | Flush | CreateFile again [| WriteHeader again])*; Close
   the file on disk passes the writer-level checker: it holds exactly the records whose WriteRecord returned nil. *)
Theorem writer22_passes_checker :
  forall (render : hdr22 -> list Z) h tbn tbd mid,
    hdr22_ok h tbn tbd h = true -> 0 <= h22_nsamp h ->
    Forall (fun o => match o with
                     | WRec r => zlen (r_data r) = h22_nsamp h -> rec22_fits (h22_sfdiv h) (h22_sfoff h) (h22_nsamp h) r
                     | WFlush | WCreate => True
                     | WHeader | WClose => False
                     end) mid ->
    let ops := WCreate :: WHeader :: mid ++ [WClose] in
    let r := w_run (w22_step render h) w_init ops in
    C05_w22_check h tbn tbd (combine ops (snd r))
                  (match w_file (fst r) with Some b => split_file render h b | None => FAbsent end) = true.
Proof. exact writer22_passes_checker_lemma. Qed.
Print Assumptions writer22_passes_checker.

Example writer22_passes_checker_nonvacuous :
  let h := mkh22 2 2 4 2 2 1 8 [99] 6 5 4 2 2 1 3 1 5000000 (-8) 0 0 [] [76] in
  hdr22_ok h 1 20000000 h = true /\
  Forall (fun o => match o with
                   | WRec r => zlen (r_data r) = h22_nsamp h -> rec22_fits (h22_sfdiv h) (h22_sfoff h) (h22_nsamp h) r
                   | WFlush | WCreate => True
                   | WHeader | WClose => False
                   end) [WRec (mkrec 7 (-5) 1 [0; 65535; 258] 0 0 0 []); WCreate; WRec (mkrec 8 9 1 [1; 2] 0 0 0 []); WFlush].
Proof.
  split; [vm_compute; reflexivity|].
  repeat constructor; cbn; try lia; try discriminate.
Qed.

Theorem writer3_passes_checker :
  forall (render : hdr3 -> list Z) h tbn tbd mid,
    hdr3_ok h tbn tbd h = true ->
    Forall (fun o => match o with
                     | WRec r => rec3_fits r
                     | WFlush | WCreate | WHeader => True
                     | WClose => False
                     end) mid ->
    let ops := WCreate :: WHeader :: mid ++ [WClose] in
    let r := w_run (w3_step render h) w_init ops in
    C05_w3_check h tbn tbd (combine ops (snd r))
                 (match w_file (fst r) with Some b => split_file render h b | None => FAbsent end) = true.
Proof. exact writer3_passes_checker_lemma. Qed.
Print Assumptions writer3_passes_checker.

Theorem writeroff_passes_checker :
  forall (render : hdroff -> list Z) h pj bs tbn tbd mid,
    hdroff_ok h tbn tbd h = true ->
    ho_nbases h = m_rows pj -> ho_prows h = m_rows pj -> ho_pcols h = m_cols pj ->
    ho_brows h = m_rows bs -> ho_bcols h = m_cols bs ->
    matrix_wf pj -> matrix_wf bs ->
    Forall (fun o => match o with
                     | WRec r => zlen (r_coefs r) = ho_nbases h -> recoff_fits (ho_nbases h) r
                     | WFlush | WCreate | WHeader => True
                     | WClose => False
                     end) mid ->
    let ops := WCreate :: WHeader :: mid ++ [WClose] in
    let r := w_run (woff_step render h pj bs) w_init ops in
    C05_woff_check h tbn tbd pj bs (combine ops (snd r))
                   (match w_file (fst r) with Some b => split_file render h b | None => FAbsent end) = true.
Proof. exact writeroff_passes_checker_lemma. Qed.
Print Assumptions writeroff_passes_checker.

(* subframe_count = frame * divisions + offset and timestamp_us = ns / 1000 (toward zero), read back by the
   decoder from the very bytes PublishData's LJH 2.2 WriteRecord call appends, for EVERY record of the right
   length whose fields fit (negative times included: Z.quot, like Go's "/") *)
Theorem subframe_count_and_timestamp_us :
  forall h s r,
    w_created s = true -> 0 <= h22_nsamp h -> zlen (r_data r) = h22_nsamp h ->
    in_i64 (r_frame r * h22_sfdiv h + h22_sfoff h) -> in_i64 (r_ns r) -> Forall in_u16 (r_data r) ->
    exists bytes,
      w_bytes (fst (w22_record h s (rec22_args r))) = w_bytes s ++ bytes /\
      snd (w22_record h s (rec22_args r)) = WOk /\
      parse_ljh22 (h22_nsamp h) bytes =
      POk [mkd22 (r_frame r * h22_sfdiv h + h22_sfoff h) (Z.quot (r_ns r) 1000) (r_data r)].
Proof. exact published_record_fields_lemma. Qed.
Print Assumptions subframe_count_and_timestamp_us.

(* The code before the fix (SetLJH3 alone: no way to pass row and column): a channel at row 2 / column 1 of a
   4 x 2 array gets an LJH 3 header saying row 0 / column 0, and the checker rejects it. *)
Theorem model_passes_checker_refuted_pre_fix :
  let sp := mksrcp 1 [76] 4 1 4 1 100000 4532020583610935537 1000000 (-5) in
  let cs := [mkchanp 0 [99] 1 4 2 2 1 2 0 0 [] None] in
  let ops := [BStart false true false; BPub 0 [mkrec 7 1000 1 [1; 2; 3; 4] 0 0 0 []]; BStop] in
  cfg_wf sp cs /\ hist_wf sp cs (combine ops (snd (crun (fun _ => []) (fun _ => []) (fun _ => []) true sp cs (binit cs) ops))) /\
  C05_bench_check sp cs (combine ops (snd (crun (fun _ => []) (fun _ => []) (fun _ => []) false sp cs (binit cs) ops))) = false /\
  C05_bench_check sp cs (combine ops (snd (crun (fun _ => []) (fun _ => []) (fun _ => []) true sp cs (binit cs) ops))) = true.
Proof. exact pre_fix_witness. Qed.
Print Assumptions model_passes_checker_refuted_pre_fix.
