(* C05 — property theorems only. *)
From Dastard Require Import Common.ZX C05.Types C05.Model C05.Spec C05.Proofs.
