(* C05 — lemmas and proofs. *)
From Dastard Require Import Common.ZX C05.Types C05.Model C05.Spec.
