(* C05 — the publisher / write-control level: invariant tying the model's writers to the checker's state,
   and the proof that every model history passes the checker. *)
From Coq Require Import ZifyBool ZifyNat.
From Dastard Require Import Common.ZX C05.Types C05.Model C05.Spec C05.RoundTrip.
Open Scope Z_scope.

(* ================================================================ small list facts *)

Lemma all4_length {A B C D} (R : A -> B -> C -> D -> Prop) la lb lc ld :
  all4 R la lb lc ld -> length lb = length la /\ length lc = length la /\ length ld = length la.
Proof. induction 1; cbn; [auto | lia]. Qed.

Lemma all4_impl {A B C D} (R R' : A -> B -> C -> D -> Prop) la lb lc ld :
  (forall a b c d, In a la -> R a b c d -> R' a b c d) -> all4 R la lb lc ld -> all4 R' la lb lc ld.
Proof.
  intros H X. induction X; constructor.
  - apply H; [now left | assumption].
  - apply IHX. intros; apply H; [now right | assumption].
Qed.

Lemma concat_map_app {A} (f : A -> list Z) a b : concat (map f (a ++ b)) = concat (map f a) ++ concat (map f b).
Proof. now rewrite map_app, concat_app. Qed.

Lemma concat_map_nil {A} (f : A -> list Z) l :
  (forall x, f x <> []) -> concat (map f l) = [] -> l = [].
Proof.
  intros H E. destruct l as [|x l]; [reflexivity|]. cbn in E.
  apply app_eq_nil in E as [E _]. now apply H in E.
Qed.

Lemma zlen_concat_const {A} (f : A -> list Z) l k :
  (forall x, In x l -> zlen (f x) = k) -> zlen (concat (map f l)) = zlen l * k.
Proof.
  intros H. induction l as [|x l IH]; [reflexivity|].
  cbn [map concat]. rewrite zlen_app, zlen_cons, IH by (intros; apply H; now right).
  rewrite (H x) by now left. lia.
Qed.

(* ================================================================ payload encoders of PublishData *)

Definition penc22 (h : hdr22) (r : rec) : list Z :=
  ljh22_record (h22_sfdiv h) (h22_sfoff h) (r_frame r) (Z.quot (r_ns r) 1000) (r_data r).
Definition penc3 (r : rec) : list Z :=
  ljh3_record (r_pre r + 1) (r_frame r) (Z.quot (r_ns r) 1000) (r_data r).

Lemma penc22_as_enc h r : penc22 h r = enc22 (h22_sfdiv h) (h22_sfoff h) (rec22_args r).
Proof. reflexivity. Qed.
Lemma penc3_as_enc r : penc3 r = enc3 (rec3_args r).
Proof. reflexivity. Qed.

Lemma penc22_nonnil h r : penc22 h r <> [].
Proof.
  intros E. pose proof (zlen_enc22 (h22_sfdiv h) (h22_sfoff h) (rec22_args r)) as H.
  rewrite <- penc22_as_enc, E in H. pose proof (zlen_nonneg (r_data (rec22_args r))). change (zlen (@nil Z)) with 0 in H. lia.
Qed.
Lemma penc3_nonnil r : penc3 r <> [].
Proof.
  intros E. pose proof (zlen_enc3 (rec3_args r)) as H.
  rewrite <- penc3_as_enc, E in H. pose proof (zlen_nonneg (r_data (rec3_args r))). change (zlen (@nil Z)) with 0 in H. lia.
Qed.
Lemma encoff_nonnil r : encoff r <> [].
Proof.
  intros E. pose proof (zlen_encoff r) as H. rewrite E in H.
  pose proof (zlen_nonneg (r_coefs r)). change (zlen (@nil Z)) with 0 in H. lia.
Qed.

(* ================================================================ the record loops *)

Lemma pub22_records_spec h rs : forall s, w_created s = true ->
  pub22_records h s rs =
  mkw true (w_hdr s) (w_nrec s + zlen (accepted22 (h22_nsamp h) rs))
      (w_bytes s ++ concat (map (penc22 h) (accepted22 (h22_nsamp h) rs))) (w_closed s).
Proof.
  induction rs as [|r rs IH]; intros s Hc.
  - cbn. rewrite app_nil_r, Z.add_0_r. destruct s; cbn in *; now subst.
  - cbn [pub22_records accepted22 filter]. unfold w22_record.
    change (r_data (rec22_args r)) with (r_data r).
    destruct (zlen (r_data r) =? h22_nsamp h) eqn:E; cbn [negb fst].
    + rewrite Hc. cbn [negb fst]. rewrite IH by (cbn; assumption).
      cbn [w_count w_append w_created w_hdr w_nrec w_bytes w_closed map concat].
      unfold accepted22. rewrite zlen_cons, <- app_assoc. f_equal. lia.
    + fold (accepted22 (h22_nsamp h) rs). apply IH. assumption.
Qed.

Lemma pub3_records_spec rs : forall s, w_created s = true ->
  pub3_records s rs =
  mkw true (w_hdr s) (w_nrec s + zlen rs) (w_bytes s ++ concat (map penc3 rs)) (w_closed s).
Proof.
  induction rs as [|r rs IH]; intros s Hc.
  - cbn. rewrite app_nil_r, Z.add_0_r. destruct s; cbn in *; now subst.
  - cbn [pub3_records]. unfold w3_record. rewrite Hc. cbn [negb fst]. rewrite IH by (cbn; assumption).
    cbn [w_count w_append w_created w_hdr w_nrec w_bytes w_closed map concat].
    rewrite zlen_cons, <- app_assoc. f_equal. lia.
Qed.

Lemma puboff_records_spec h rs : forall s, w_created s = true ->
  puboff_records h s rs =
  (mkw true (w_hdr s) (w_nrec s + zlen (off_prefix (ho_nbases h) rs))
       (w_bytes s ++ concat (map encoff (off_prefix (ho_nbases h) rs))) (w_closed s),
   (length (off_prefix (ho_nbases h) rs) =? length rs)%nat).
Proof.
  induction rs as [|r rs IH]; intros s Hc.
  - cbn. rewrite app_nil_r, Z.add_0_r. destruct s; cbn in *; now subst.
  - cbn [puboff_records off_prefix]. unfold woff_record.
    destruct (zlen (r_coefs r) =? ho_nbases h) eqn:E; cbn [negb].
    + rewrite Hc. cbn [negb]. rewrite IH by (cbn; assumption).
      cbn [w_count w_append w_created w_hdr w_nrec w_bytes w_closed map concat length].
      rewrite zlen_cons, <- app_assoc. f_equal. f_equal. lia.
    + cbn [map concat length]. rewrite app_nil_r. change (zlen (@nil rec)) with 0. rewrite Z.add_0_r.
      destruct s; cbn in *; now subst.
Qed.

(* ================================================================ the writer invariant *)

(* [hb] = the header bytes of this file; [payload] = the encoded records it must hold *)
Definition WInv (hb : list Z) (s : wstate) (payload : list Z) : Prop :=
  (w_created s = false /\ w_hdr s = false /\ w_bytes s = [] /\ payload = []) \/
  (w_created s = true /\ w_hdr s = true /\ w_bytes s = hb ++ payload).

Lemma WInv_init hb : WInv hb w_init [].
Proof. left. auto. Qed.

Section Pub.
  Variable render22 : hdr22 -> list Z.
  Variable render3 : hdr3 -> list Z.
  Variable renderoff : hdroff -> list Z.

  Notation publish := (publish render22 render3 renderoff).
  Notation bstep := (bstep render22 render3 renderoff true).
  Notation brun := (brun render22 render3 renderoff true).
  Notation stop_chan := (stop_chan render22 render3 renderoff).

  (* what the three create-and-header prologues of PublishData do *)
  Lemma open22 h s pay rs :
    WInv (render22 h) s pay -> rs <> [] ->
    exists s', (if w_hdr s then Some (Some (h, pub22_records h s rs))
                else match w_create s with
                     | (s1, WOk) => Some (Some (h, pub22_records h (fst (w22_header render22 h s1)) rs))
                     | _ => None
                     end) = Some (Some (h, s'))
               /\ WInv (render22 h) s' (pay ++ concat (map (penc22 h) (accepted22 (h22_nsamp h) rs))).
  Proof.
    intros [(Hc & Hh & Hb0 & Hp) | (Hc & Hh & Hb)] Hrs.
    - rewrite Hh. unfold w_create. rewrite Hc. unfold w22_header. cbn [w_created negb fst].
      eexists; split; [reflexivity|].
      rewrite pub22_records_spec by reflexivity. right. cbn. subst pay. rewrite Hb0. cbn. auto.
    - rewrite Hh. eexists; split; [reflexivity|].
      rewrite pub22_records_spec by assumption. right. cbn. rewrite Hb, app_assoc. auto.
  Qed.

  Lemma open3 h s pay rs :
    WInv (render3 h) s pay -> rs <> [] ->
    exists s', (if w_hdr s then Some (Some (h, pub3_records s rs))
                else match w_create s with
                     | (s1, WOk) => Some (Some (h, pub3_records (fst (w3_header render3 h s1)) rs))
                     | _ => None
                     end) = Some (Some (h, s'))
               /\ WInv (render3 h) s' (pay ++ concat (map penc3 rs)).
  Proof.
    intros [(Hc & Hh & Hb0 & Hp) | (Hc & Hh & Hb)] Hrs.
    - rewrite Hh. unfold w_create. rewrite Hc. unfold w3_header. cbn [w_created w_hdr negb fst]. rewrite Hh. cbn [negb fst].
      eexists; split; [reflexivity|].
      rewrite pub3_records_spec by reflexivity. right. cbn. subst pay. rewrite Hb0. cbn. auto.
    - rewrite Hh. eexists; split; [reflexivity|].
      rewrite pub3_records_spec by assumption. right. cbn. rewrite Hb, app_assoc. auto.
  Qed.

  Lemma openoff h pj bs s pay rs :
    WInv (renderoff h ++ off_header_tail pj bs) s pay -> rs <> [] ->
    exists s', (if w_hdr s then Some s
                else match w_create s with
                     | (s1, WOk) => Some (fst (woff_header renderoff h pj bs s1))
                     | _ => None
                     end) = Some s'
               /\ w_created s' = true
               /\ WInv (renderoff h ++ off_header_tail pj bs) (fst (puboff_records h s' rs))
                       (pay ++ concat (map encoff (off_prefix (ho_nbases h) rs))).
  Proof.
    intros [(Hc & Hh & Hb0 & Hp) | (Hc & Hh & Hb)] Hrs.
    - rewrite Hh. unfold w_create. rewrite Hc. unfold woff_header. cbn [w_created w_hdr negb fst]. rewrite Hh. cbn [negb fst].
      eexists; split; [reflexivity|]. split; [reflexivity|].
      rewrite puboff_records_spec by reflexivity. right. cbn. subst pay. rewrite Hb0. cbn. auto.
    - rewrite Hh. eexists; split; [reflexivity|]. split; [assumption|].
      rewrite puboff_records_spec by assumption. right. cbn. rewrite Hb, app_assoc. auto.
  Qed.

  (* ---------------- the headers the model writes for a channel ---------------- *)
  Definition model_hdr22 (sp : srcp) (c : chanp) : hdr22 :=
    mkh22 2 2 (cp_rows c) (cp_cols c) (cp_row c) (cp_col c) (sp_nchan sp) (cp_name c) (cp_number c) (cp_index c)
          (sp_sfdiv sp) (cp_sfoff c) 2 (sp_npre sp) (sp_nsamp sp) 1 (sp_tbm sp) (sp_tbe sp)
          (cp_px c) (cp_py c) (cp_pname c) (sp_source sp).
  Definition model_hdr3 (sp : srcp) (c : chanp) : hdr3 :=
    mkh3 ljh3_fmt ljh3_ver (sp_tb64 sp) (cp_rows c) (cp_cols c) (sp_sfdiv sp) (cp_row c) (cp_col c) (cp_sfoff c).
  Definition model_hdroff (sp : srcp) (c : chanp) (pj bs : matrix) (desc : list Z) : hdroff :=
    mkhoff off_fmt off_ver (cp_index c) (cp_name c) (cp_number c) (sp_npre sp) (sp_nsamp sp) (sp_tb64 sp) (m_rows pj)
           (m_rows pj) (m_cols pj) (m_rows bs) (m_cols bs) desc
           (cp_rows c) (cp_cols c) (sp_nchan sp) (sp_sfdiv sp) (cp_col c) (cp_row c) (cp_sfoff c)
           (cp_px c) (cp_py c) (cp_pname c) (sp_source sp).

  (* ---------------- one channel: model publisher vs checker state ---------------- *)
  Definition chan_rel (sp : srcp) (st : sst) (c : chanp) (acc accoff : list rec) (p : pub) : Prop :=
    (has_writer p = true -> p_paused p = s_paused st) /\
    Forall (pubrec_fits sp c) acc /\ Forall (pubrec_fits sp c) accoff /\
    Forall (fun r => zlen (r_coefs r) = nb_of c) accoff /\
    match p22 p with
    | Some (h, s) => s_t22 st = true /\ h = model_hdr22 sp c /\
                     WInv (render22 h) s (concat (map (penc22 h) (accepted22 (sp_nsamp sp) acc)))
    | None => s_t22 st = false
    end /\
    match p3 p with
    | Some (h, s) => s_t3 st = true /\ h = model_hdr3 sp c /\ WInv (render3 h) s (concat (map penc3 acc))
    | None => s_t3 st = false
    end /\
    match poff p with
    | Some (h, pj, bs, s) =>
        s_toff st = true /\ (exists desc, off_eligible c = Some (pj, bs, desc) /\ h = model_hdroff sp c pj bs desc) /\
        WInv (renderoff h ++ off_header_tail pj bs) s (concat (map encoff accoff))
    | None => s_toff st = false \/ off_eligible c = None
    end.

  Definition BInv (sp : srcp) (cs : list chanp) (st : sst) (ps : list pub) : Prop :=
    if s_active st
    then all4 (chan_rel sp st) cs (s_acc st) (s_accoff st) ps /\ existsb has_writer ps = true
    else Forall (fun p => has_writer p = false) ps /\ length ps = length cs.

  (* ---------------- publish ---------------- *)
  Lemma off_prefix_sub nb rs : incl (off_prefix nb rs) rs.
  Proof.
    induction rs as [|r rs IH]; cbn; [apply incl_refl|].
    destruct (zlen (r_coefs r) =? nb); [|apply incl_nil_l].
    apply incl_cons; [now left | apply incl_tl, IH].
  Qed.
  Lemma off_prefix_good nb rs : Forall (fun r => zlen (r_coefs r) = nb) (off_prefix nb rs).
  Proof.
    induction rs as [|r rs IH]; cbn; [constructor|].
    destruct (zlen (r_coefs r) =? nb) eqn:E; [constructor; [lia | exact IH] | constructor].
  Qed.

  Lemma publish_ret p rs : snd (publish p rs) = BOk \/ snd (publish p rs) = BErr.
  Proof.
    unfold Model.publish. destruct rs as [|r rs]; [now left|].
    destruct (p_paused p); [now left|]. destruct (negb (has_writer p)); [now left|].
    repeat match goal with
           | |- context [match ?x with _ => _ end] => destruct x; cbn [snd]; auto
           | |- context [if ?x then _ else _] => destruct x; cbn [snd]; auto
           | |- context [let (_, _) := ?x in _] => destruct x; cbn [snd]; auto
           end.
  Qed.

  Lemma ho_nbases_model sp c pj bs desc : off_eligible c = Some (pj, bs, desc) -> ho_nbases (model_hdroff sp c pj bs desc) = nb_of c.
  Proof. intros E. unfold nb_of. rewrite E. reflexivity. Qed.

  (* publishing while the cycle is open and unpaused *)
  Lemma publish_rel sp st c acc accoff p rs :
    s_active st = true -> s_paused st = false ->
    chan_rel sp st c acc accoff p -> Forall (pubrec_fits sp c) rs ->
    let st' := mksst true false (s_t22 st) (s_t3 st) (s_toff st) (s_acc st) (s_accoff st) in
    chan_rel sp st' c (acc ++ rs) (accoff ++ off_prefix (nb_of c) rs) (fst (publish p rs))
    /\ has_writer (fst (publish p rs)) = has_writer p.
  Proof.
    intros Hact Hpa (Hpz & Hf1 & Hf2 & Hnb & H22 & H3 & Hoff) Hrs st'.
    assert (Hf1' : Forall (pubrec_fits sp c) (acc ++ rs)) by (apply Forall_app; auto).
    assert (Hf2' : Forall (pubrec_fits sp c) (accoff ++ off_prefix (nb_of c) rs)).
    { apply Forall_app; split; [assumption|]. rewrite Forall_forall in *. intros x Hx. apply Hrs. now apply off_prefix_sub in Hx. }
    assert (Hnb' : Forall (fun r => zlen (r_coefs r) = nb_of c) (accoff ++ off_prefix (nb_of c) rs)).
    { apply Forall_app; split; [assumption | apply off_prefix_good]. }
    destruct rs as [|r0 rs0] eqn:Ers.
    { (* empty batch: nothing happens *)
      cbn [Model.publish fst off_prefix]. rewrite !app_nil_r. split; [|reflexivity].
      split; [intros X; rewrite (Hpz X); exact Hpa|]. repeat split; assumption. }
    rewrite <- Ers in *. assert (Hne : rs <> []) by (rewrite Ers; discriminate).
    unfold Model.publish. rewrite Ers. rewrite <- Ers.
    destruct (has_writer p) eqn:Hw.
    2:{ (* no writer at all *)
      destruct (p_paused p); cbn [negb fst]; (split; [|assumption]);
        (split; [intros X; rewrite Hw in X; discriminate|]);
        unfold has_writer in Hw; destruct (p22 p), (p3 p), (poff p); try discriminate;
        repeat split; try assumption. }
    rewrite (Hpz eq_refl), Hpa. cbn [negb].
    (* LJH22 *)
    assert (E22 : exists q22,
      match p22 p with
      | Some (h, s) => if w_hdr s then Some (Some (h, pub22_records h s rs))
                       else match w_create s with
                            | (s1, WOk) => Some (Some (h, pub22_records h (fst (w22_header render22 h s1)) rs))
                            | _ => None end
      | None => Some None
      end = Some q22 /\
      match q22 with
      | Some (h, s) => s_t22 st = true /\ h = model_hdr22 sp c /\
                       WInv (render22 h) s (concat (map (penc22 h) (accepted22 (sp_nsamp sp) (acc ++ rs))))
      | None => s_t22 st = false
      end /\ (match q22 with Some _ => true | None => false end = match p22 p with Some _ => true | None => false end)).
    { destruct (p22 p) as [[h s]|].
      - destruct H22 as (Ht & Hh & Hi). destruct (open22 h s _ rs Hi Hne) as (s' & E & Hi').
        exists (Some (h, s')). split; [exact E|]. split; [|reflexivity]. split; [assumption|]. split; [assumption|].
        unfold accepted22 in *. rewrite filter_app, concat_map_app.
        replace (h22_nsamp h) with (sp_nsamp sp) in Hi' by (subst h; reflexivity). exact Hi'.
      - exists None. auto. }
    destruct E22 as (q22 & -> & H22' & Hsame22).
    cbn [p3 p22 poff p_paused].
    (* LJH3 *)
    assert (E3 : exists q3,
      match p3 p with
      | Some (h, s) => if w_hdr s then Some (Some (h, pub3_records s rs))
                       else match w_create s with
                            | (s1, WOk) => Some (Some (h, pub3_records (fst (w3_header render3 h s1)) rs))
                            | _ => None end
      | None => Some None
      end = Some q3 /\
      match q3 with
      | Some (h, s) => s_t3 st = true /\ h = model_hdr3 sp c /\ WInv (render3 h) s (concat (map penc3 (acc ++ rs)))
      | None => s_t3 st = false
      end /\ (match q3 with Some _ => true | None => false end = match p3 p with Some _ => true | None => false end)).
    { destruct (p3 p) as [[h s]|].
      - destruct H3 as (Ht & Hh & Hi). destruct (open3 h s _ rs Hi Hne) as (s' & E & Hi').
        exists (Some (h, s')). split; [exact E|]. split; [|reflexivity]. split; [assumption|]. split; [assumption|].
        rewrite concat_map_app. exact Hi'.
      - exists None. auto. }
    destruct E3 as (q3 & -> & H3' & Hsame3).
    cbn [p3 p22 poff p_paused].
    (* OFF *)
    destruct (poff p) as [[[[h pj] bs] s]|] eqn:Epoff.
    - destruct Hoff as (Ht & (desc & Hel & Hh) & Hi).
      destruct (openoff h pj bs s _ rs Hi Hne) as (s' & E & Hc' & Hi').
      rewrite E. destruct (puboff_records h s' rs) as [s3 ok] eqn:Epr. cbn [fst] in *.
      split.
      + split; [intros _; reflexivity|]. split; [assumption|]. split; [assumption|]. split; [assumption|].
        cbn [p22 p3 poff]. split; [exact H22'|]. split; [exact H3'|].
        split; [assumption|]. split; [exists desc; auto|].
        rewrite concat_map_app.
        replace (nb_of c) with (ho_nbases h) by (subst h; apply ho_nbases_model; assumption). exact Hi'.
      + unfold has_writer. cbn [p22 p3 poff]. destruct q22, q3; reflexivity.
    - split.
      + split; [intros _; reflexivity|]. split; [assumption|]. split; [assumption|]. split; [assumption|].
        cbn [p22 p3 poff]. split; [exact H22'|]. split; [exact H3'|]. exact Hoff.
      + unfold has_writer in *. cbn [p22 p3 poff]. rewrite Epoff in Hw.
        destruct q22, q3, (p22 p), (p3 p); try discriminate; reflexivity.
  Qed.

  (* publishing when the checker does not collect: paused, or no cycle open *)
  Lemma publish_paused p rs : p_paused p = true -> fst (publish p rs) = p.
  Proof. intros H. unfold Model.publish. destruct rs; [reflexivity|]. now rewrite H. Qed.
  Lemma publish_nowriter p rs : has_writer p = false -> fst (publish p rs) = p.
  Proof. intros H. unfold Model.publish. destruct rs; [reflexivity|]. destruct (p_paused p); [reflexivity|]. now rewrite H. Qed.
End Pub.

(* ================================================================ files at STOP *)

Lemma quot1000_i64 ns : in_i64 ns -> in_i64 (Z.quot ns 1000).
Proof.
  unfold in_i64. change (2 ^ 63) with 9223372036854775808. intros H.
  destruct (Z_le_gt_dec 0 ns) as [Hp | Hn].
  - rewrite Z.quot_div_nonneg by lia.
    pose proof (Z.div_mod ns 1000 ltac:(lia)). pose proof (Z.mod_pos_bound ns 1000 ltac:(lia)). lia.
  - replace ns with (- (- ns)) by lia. rewrite Z.quot_opp_l by lia. rewrite Z.quot_div_nonneg by lia.
    pose proof (Z.div_mod (- ns) 1000 ltac:(lia)). pose proof (Z.mod_pos_bound (- ns) 1000 ltac:(lia)). lia.
Qed.

Section Stop.
  Variable render22 : hdr22 -> list Z.
  Variable render3 : hdr3 -> list Z.
  Variable renderoff : hdroff -> list Z.
  Variable sp : srcp.
  Hypothesis Hns : 0 <= sp_nsamp sp.
  Hypothesis Hdec : dec7_near (sp_tbn sp) (sp_tbd sp) (sp_tbm sp) (sp_tbe sp) = true.
  Hypothesis Hf64 : f64_near (sp_tbn sp) (sp_tbd sp) (sp_tb64 sp) = true.

  Lemma hdr22_ok_model c : hdr22_ok (true_hdr22 sp c) (sp_tbn sp) (sp_tbd sp) (model_hdr22 sp c) = true.
  Proof.
    unfold hdr22_ok, true_hdr22, model_hdr22.
    cbn [h22_vmaj h22_vmin h22_rows h22_cols h22_row h22_col h22_nchan h22_name h22_number h22_index h22_sfdiv
         h22_sfoff h22_word h22_npre h22_nsamp h22_spp h22_tbm h22_tbe h22_px h22_py h22_pname h22_source].
    rewrite !Z.eqb_refl, !zlist_eqb_refl, Hdec. reflexivity.
  Qed.
  Lemma hdr3_ok_model c : hdr3_ok (true_hdr3 sp c) (sp_tbn sp) (sp_tbd sp) (model_hdr3 sp c) = true.
  Proof.
    unfold hdr3_ok, true_hdr3, model_hdr3.
    cbn [h3_fmt h3_ver h3_tb h3_rows h3_cols h3_sfdiv h3_row h3_col h3_sfoff].
    rewrite !Z.eqb_refl, Hf64. reflexivity.
  Qed.
  Lemma hdroff_ok_model c pj bs desc :
    hdroff_ok (true_hdroff sp c pj bs desc) (sp_tbn sp) (sp_tbd sp) (model_hdroff sp c pj bs desc) = true.
  Proof.
    unfold hdroff_ok, true_hdroff, model_hdroff.
    cbn [ho_fmt ho_ver ho_index ho_name ho_number ho_maxpre ho_maxsamp ho_tb ho_nbases ho_prows ho_pcols ho_brows ho_bcols
         ho_desc ho_rows ho_cols ho_nchan ho_sfdiv ho_col ho_row ho_sfoff ho_px ho_py ho_pname ho_source].
    rewrite !Z.eqb_refl, !zlist_eqb_refl, Hf64. reflexivity.
  Qed.

  Lemma d22_eqb_refl x : d22_eqb x x = true.
  Proof. unfold d22_eqb. now rewrite !Z.eqb_refl, zlist_eqb_refl. Qed.
  Lemma d3_eqb_refl x : d3_eqb x x = true.
  Proof. unfold d3_eqb. now rewrite !Z.eqb_refl, zlist_eqb_refl. Qed.
  Lemma doff_eqb_refl x : doff_eqb x x = true.
  Proof. unfold doff_eqb. now rewrite !Z.eqb_refl, zlist_eqb_refl. Qed.

  Lemma accepted22_len n acc r : In r (accepted22 n acc) -> zlen (r_data r) = n.
  Proof. unfold accepted22. rewrite filter_In. intros [_ H]. lia. Qed.
  Lemma accepted22_sub n acc : incl (accepted22 n acc) acc.
  Proof. unfold accepted22. intros x H. now apply filter_In in H. Qed.

  (* ---- LJH 2.2 ---- *)
  Lemma file22_ok_closed c s acc :
    Forall (pubrec_fits sp c) acc ->
    WInv (render22 (model_hdr22 sp c)) s (concat (map (penc22 (model_hdr22 sp c)) (accepted22 (sp_nsamp sp) acc))) ->
    file22_ok (true_hdr22 sp c) (sp_tbn sp) (sp_tbd sp) (expect22 (sp_sfdiv sp) (cp_sfoff c))
              (accepted22 (sp_nsamp sp) acc) (closed_file render22 (Some (model_hdr22 sp c, s))) = true.
  Proof.
    intros Hfit [(Hc & Hh & Hb0 & Hp) | (Hc & Hh & Hb)]; unfold closed_file; rewrite Hc.
    - apply concat_map_nil in Hp; [|apply penc22_nonnil]. now rewrite Hp.
    - set (h := model_hdr22 sp c) in *. set (A := accepted22 (sp_nsamp sp) acc) in *.
      unfold split_file, file22_ok. rewrite Hb.
      rewrite zskipn_app_exact by reflexivity.
      rewrite hdr22_ok_model.
      assert (Hlen : zlen (concat (map (penc22 h) A)) = zlen A * (16 + 2 * sp_nsamp sp)).
      { apply zlen_concat_const. intros x Hx. rewrite penc22_as_enc, zlen_enc22.
        change (r_data (rec22_args x)) with (r_data x). now rewrite (accepted22_len _ _ _ Hx). }
      change (h22_nsamp h) with (sp_nsamp sp).
      rewrite zlen_app, Hlen.
      destruct (0 <=? zlen (render22 h)) eqn:E0; [|pose proof (zlen_nonneg (render22 h)); lia].
      rewrite Z.eqb_refl. cbn [andb].
      replace (concat (map (penc22 h) A))
        with (concat (map (fun r => ljh22_record (sp_sfdiv sp) (cp_sfoff c) (r_frame r) (r_ns r) (r_data r)) (map rec22_args A)))
        by (rewrite map_map; reflexivity).
      rewrite ljh22_roundtrip_lemma; [| exact Hns |].
      + rewrite map_map. apply list_eqb_refl, d22_eqb_refl.
      + rewrite Forall_forall. intros x Hx. apply in_map_iff in Hx as (r & <- & Hr).
        pose proof (accepted22_len _ _ _ Hr) as Hl. apply accepted22_sub in Hr.
        rewrite Forall_forall in Hfit. destruct (Hfit r Hr) as (H1 & H2 & H3 & H4 & H5 & H6 & H7 & _).
        repeat split; try assumption; try (apply quot1000_i64; assumption); try apply H1.
  Qed.

  (* ---- LJH 3 ---- *)
  Lemma sum_sizes3 acc : zlen (concat (map penc3 acc)) = sum_z (map (fun r => 24 + 2 * zlen (r_data r)) acc).
  Proof.
    induction acc as [|r acc IH]; [reflexivity|].
    cbn [map concat sum_z fold_right]. rewrite zlen_app, penc3_as_enc, zlen_enc3. fold (sum_z (map (fun r => 24 + 2 * zlen (r_data r)) acc)).
    rewrite IH. reflexivity.
  Qed.

  Lemma file3_ok_closed c s acc :
    Forall (pubrec_fits sp c) acc ->
    WInv (render3 (model_hdr3 sp c)) s (concat (map penc3 acc)) ->
    file3_ok (true_hdr3 sp c) (sp_tbn sp) (sp_tbd sp) expect3 acc (closed_file render3 (Some (model_hdr3 sp c, s))) = true.
  Proof.
    intros Hfit [(Hc & Hh & Hb0 & Hp) | (Hc & Hh & Hb)]; unfold closed_file; rewrite Hc.
    - apply concat_map_nil in Hp; [|apply penc3_nonnil]. now rewrite Hp.
    - set (h := model_hdr3 sp c) in *.
      unfold split_file, file3_ok. rewrite Hb.
      rewrite zskipn_app_exact by reflexivity.
      rewrite hdr3_ok_model.
      rewrite zlen_app, sum_sizes3.
      destruct (0 <=? zlen (render3 h)) eqn:E0; [|pose proof (zlen_nonneg (render3 h)); lia].
      rewrite Z.eqb_refl. cbn [andb].
      replace (concat (map penc3 acc))
        with (concat (map (fun r => ljh3_record (r_pre r) (r_frame r) (r_ns r) (r_data r)) (map rec3_args acc)))
        by (rewrite map_map; reflexivity).
      rewrite ljh3_roundtrip_lemma.
      + rewrite map_map. apply list_eqb_refl, d3_eqb_refl.
      + rewrite Forall_forall. intros x Hx. apply in_map_iff in Hx as (r & <- & Hr).
        rewrite Forall_forall in Hfit. destruct (Hfit r Hr) as (H1 & H2 & H3 & H4 & H5 & H6 & H7 & _).
        repeat split; try assumption; try (apply quot1000_i64; assumption); try apply H5; try apply H2.
  Qed.

  (* ---- OFF ---- *)
  Lemma fileoff_ok_closed c pj bs desc s accoff :
    off_eligible c = Some (pj, bs, desc) -> matrix_wf pj -> matrix_wf bs ->
    Forall (pubrec_fits sp c) accoff -> Forall (fun r => zlen (r_coefs r) = nb_of c) accoff ->
    WInv (renderoff (model_hdroff sp c pj bs desc) ++ off_header_tail pj bs) s (concat (map encoff accoff)) ->
    fileoff_ok (true_hdroff sp c pj bs desc) (sp_tbn sp) (sp_tbd sp) pj bs accoff
               (closed_file renderoff (Some (model_hdroff sp c pj bs desc, s))) = true.
  Proof.
    intros Hel Hwp Hwb Hfit Hnb [(Hc & Hh & Hb0 & Hp) | (Hc & Hh & Hb)]; unfold closed_file; rewrite Hc.
    - apply concat_map_nil in Hp; [|apply encoff_nonnil]. now rewrite Hp.
    - set (h := model_hdroff sp c pj bs desc) in *.
      assert (Hnbc : nb_of c = m_rows pj) by (unfold nb_of; now rewrite Hel).
      unfold split_file, fileoff_ok. rewrite Hb. rewrite <- app_assoc.
      rewrite zskipn_app_exact by reflexivity.
      rewrite hdroff_ok_model.
      change (ho_prows h) with (m_rows pj). change (ho_pcols h) with (m_cols pj).
      change (ho_brows h) with (m_rows bs). change (ho_bcols h) with (m_cols bs).
      change (ho_nbases h) with (m_rows pj).
      assert (Hlen : zlen (concat (map encoff accoff)) = zlen accoff * (36 + 4 * m_rows pj)).
      { apply zlen_concat_const. intros x Hx. rewrite zlen_encoff.
        rewrite Forall_forall in Hnb. rewrite (Hnb x Hx). lia. }
      destruct Hwp as (Hpr & Hpc & Hpl & Hpb). destruct Hwb as (Hbr & Hbc & Hbl & Hbb).
      assert (Htail : zlen (off_header_tail pj bs) = 8 * (m_rows pj * m_cols pj) + 8 * (m_rows bs * m_cols bs)).
      { unfold off_header_tail. rewrite zlen_app, !zlen_enc_u64s. lia. }
      rewrite !zlen_app, Hlen, Htail.
      destruct (0 <=? zlen (renderoff h)) eqn:E0; [|pose proof (zlen_nonneg (renderoff h)); lia].
      replace (zlen (renderoff h) + (8 * (m_rows pj * m_cols pj) + 8 * (m_rows bs * m_cols bs) + zlen accoff * (36 + 4 * m_rows pj)) =?
               zlen (renderoff h) + 8 * (m_rows pj * m_cols pj) + 8 * (m_rows bs * m_cols bs) + zlen accoff * (36 + 4 * m_rows pj))
        with true by (symmetry; apply Z.eqb_eq; lia).
      cbn [andb].
      change (concat (map encoff accoff))
        with (concat (map (fun r => off_record (zlen (r_data r)) (r_pre r) (r_frame r) (r_ns r)
                                               (r_mean r) (r_delta r) (r_resid r) (r_coefs r)) accoff)).
      rewrite off_roundtrip_lemma; [| lia | repeat split; assumption | repeat split; assumption |].
      + cbn [ob_proj ob_basis ob_recs]. rewrite !zlist_eqb_refl. cbn [andb].
        apply list_eqb_refl, doff_eqb_refl.
      + rewrite Forall_forall in *. intros r Hr.
        destruct (Hfit r Hr) as (H1 & H2 & H3 & H4 & H5 & H6 & H7 & H8 & H9 & H10 & H11 & H12).
        specialize (Hnb r Hr). repeat split; try assumption; try apply H4; try apply H2; try apply H3;
          try apply H8; try apply H9; try apply H10; lia.
  Qed.
End Stop.

(* ================================================================ every model history passes the checker *)

Lemma existsb_map_pause ps b : existsb has_writer (map (fun p => set_pause p b) ps) = existsb has_writer ps.
Proof. induction ps as [|p ps IH]; [reflexivity|]. cbn [map existsb]. now rewrite IH. Qed.

Section Main.
  Variable render22 : hdr22 -> list Z.
  Variable render3 : hdr3 -> list Z.
  Variable renderoff : hdroff -> list Z.
  Variable sp : srcp.
  Variable cs : list chanp.
  Hypothesis Hwf : cfg_wf sp cs.

  Notation publish := (publish render22 render3 renderoff).
  Notation bstep := (bstep render22 render3 renderoff true).
  Notation brun := (brun render22 render3 renderoff true).
  Notation stop_chan := (stop_chan render22 render3 renderoff).
  Notation chan_rel := (chan_rel render22 render3 renderoff).
  Notation BInv := (BInv render22 render3 renderoff).

  Let Hns : 0 <= sp_nsamp sp. Proof. apply Hwf. Qed.
  Let Hdec : dec7_near (sp_tbn sp) (sp_tbd sp) (sp_tbm sp) (sp_tbe sp) = true. Proof. apply Hwf. Qed.
  Let Hf64 : f64_near (sp_tbn sp) (sp_tbd sp) (sp_tb64 sp) = true. Proof. apply Hwf. Qed.

  Lemma pre_is_fits c l : Forall (pubrec_fits sp c) l -> pre_is (sp_npre sp) l = true.
  Proof.
    intros H. unfold pre_is. rewrite forallb_forall. rewrite Forall_forall in H. intros r Hr.
    destruct (H r Hr) as (_ & _ & _ & _ & _ & _ & _ & _ & _ & _ & _ & E). lia.
  Qed.
  Lemma fits_accepted22 c n l : Forall (pubrec_fits sp c) l -> Forall (pubrec_fits sp c) (accepted22 n l).
  Proof. intros H. rewrite Forall_forall in *. intros r Hr. apply H. now apply accepted22_sub in Hr. Qed.

  (* ---- STOP ---- *)
  Lemma stop_rel st c acc accoff p :
    In c cs -> chan_rel sp st c acc accoff p ->
    chan_files_ok sp st c acc accoff (snd (stop_chan p)) = true.
  Proof.
    intros Hin (Hpz & Hf1 & Hf2 & Hnb & H22 & H3 & Hoff).
    unfold chan_files_ok, Model.stop_chan. cbn [snd cf22 cf3 cfoff].
    apply andb_true_iff; split; [apply andb_true_iff; split|].
    - destruct (p22 p) as [[h s]|].
      + destruct H22 as (-> & -> & Hi). apply andb_true_iff; split;
          [apply file22_ok_closed; assumption | apply (pre_is_fits c), fits_accepted22; assumption].
      + rewrite H22. reflexivity.
    - destruct (p3 p) as [[h s]|].
      + destruct H3 as (-> & -> & Hi). apply file3_ok_closed; assumption.
      + rewrite H3. reflexivity.
    - destruct (poff p) as [[[[h pj] bs] s]|].
      + destruct Hoff as (-> & (desc & Hel & ->) & Hi). rewrite Hel.
        assert (Hm : matrix_wf pj /\ matrix_wf bs).
        { destruct Hwf as (_ & _ & _ & _ & Hmx). unfold off_eligible in Hel.
          destruct (cp_proj c) as [[[pj' bs'] d']|] eqn:Ep; [|discriminate].
          destruct ((0 <? m_rows pj') && (0 <? m_cols pj')); [|discriminate]. inversion Hel; subst.
          eapply Hmx; eauto. }
        apply andb_true_iff; split; [apply fileoff_ok_closed; try assumption; apply Hm | apply (pre_is_fits c); assumption].
      + destruct Hoff as [-> | ->]; [reflexivity|]. destruct (s_toff st); reflexivity.
  Qed.

  Lemma stop_all st : forall cs' accs accoffs ps,
    incl cs' cs -> all4 (chan_rel sp st) cs' accs accoffs ps ->
    all_chans_ok sp st cs' accs accoffs (map snd (map stop_chan ps)) = true.
  Proof.
    intros cs' accs accoffs ps Hincl X. induction X as [|c a ao p cs' accs accoffs ps HR X IH]; [reflexivity|].
    cbn [map all_chans_ok]. rewrite (stop_rel st c a ao p); [| apply Hincl; now left | assumption].
    cbn [andb]. apply IH. intros x Hx. apply Hincl. now right.
  Qed.

  Lemma stop_nowriter p : has_writer (fst (stop_chan p)) = false.
  Proof. reflexivity. Qed.

  Lemma stop_absent p : has_writer p = false -> all_absent (snd (stop_chan p)) = true.
  Proof.
    unfold has_writer, Model.stop_chan. destruct (p22 p), (p3 p), (poff p); try discriminate. reflexivity.
  Qed.

  (* ---- PAUSE / UNPAUSE ---- *)
  Lemma pause_rel st b c acc accoff p :
    chan_rel sp st c acc accoff p ->
    chan_rel sp (mksst (s_active st) b (s_t22 st) (s_t3 st) (s_toff st) (s_acc st) (s_accoff st)) c acc accoff (set_pause p b).
  Proof.
    intros (Hpz & Hf1 & Hf2 & Hnb & H22 & H3 & Hoff).
    split; [intros _; reflexivity|]. repeat (split; [assumption|]). exact Hoff.
  Qed.

  Lemma pause_all st b : forall cs' accs accoffs ps,
    all4 (chan_rel sp st) cs' accs accoffs ps ->
    all4 (chan_rel sp (mksst (s_active st) b (s_t22 st) (s_t3 st) (s_toff st) (s_acc st) (s_accoff st)))
         cs' accs accoffs (map (fun p => set_pause p b) ps).
  Proof.
    intros cs' accs accoffs ps X. induction X; cbn [map]; constructor; [apply pause_rel; assumption | assumption].
  Qed.

  Lemma has_writer_set_pause p b : has_writer (set_pause p b) = has_writer p.
  Proof. reflexivity. Qed.

  (* ---- START ---- *)
  Lemma start_chan_rel t22 t3 toff c p :
    has_writer p = false ->
    let st' := mksst true false t22 t3 toff (map (fun _ => []) cs) (map (fun _ => []) cs) in
    chan_rel sp st' c [] [] (start_chan true sp t22 t3 toff c p).
  Proof.
    intros Hw st'. unfold has_writer in Hw.
    destruct (p22 p) eqn:E22, (p3 p) eqn:E3, (poff p) eqn:Eoff; try discriminate.
    assert (Hel : off_eligible c = if has_proj c then match cp_proj c with Some x => Some x | None => None end else None).
    { unfold off_eligible, has_proj. destruct (cp_proj c) as [[[pj bs] d]|]; [|reflexivity].
      destruct ((0 <? m_rows pj) && (0 <? m_cols pj)); reflexivity. }
    unfold start_chan, chan_rel.
    destruct t22, t3, toff; cbn [andb];
      destruct (cp_proj c) as [[[pj bs] d]|] eqn:Ep; try (destruct (has_proj c) eqn:Ehp);
      cbn [set22 set3 set3_position setoff p22 p3 poff p_paused h3_fmt h3_ver h3_tb h3_rows h3_cols h3_sfdiv h3_sfoff
           s_paused s_t22 s_t3 s_toff st'];
      rewrite ?E22, ?E3, ?Eoff;
      (split; [intros X; try reflexivity;
                      try (exfalso; revert X; unfold has_writer; cbn [p22 p3 poff]; rewrite ?E22, ?E3, ?Eoff; discriminate)|]);
      repeat (split; [try constructor; try reflexivity; try apply WInv_init|]);
      try reflexivity; try apply WInv_init; try (now left); try (right; rewrite Hel; reflexivity);
      try (exists d; rewrite Hel; split; reflexivity).
    all: try (unfold has_writer; cbn [p22 p3 poff]; rewrite ?E22, ?E3, ?Eoff; intros X; discriminate X).
  Qed.

  Lemma start_chan_writer t22 t3 toff c p :
    has_writer p = false ->
    has_writer (start_chan true sp t22 t3 toff c p) = t22 || t3 || (toff && has_proj c).
  Proof.
    intros Hw. unfold has_writer in Hw.
    destruct (p22 p) eqn:E22, (p3 p) eqn:E3, (poff p) eqn:Eoff; try discriminate.
    unfold start_chan, has_writer.
    destruct t22, t3, toff; cbn [andb orb];
      destruct (cp_proj c) as [[[pj bs] d]|] eqn:Ep; try (destruct (has_proj c) eqn:Ehp);
      cbn [set22 set3 set3_position setoff p22 p3 poff p_paused]; rewrite ?E22, ?E3, ?Eoff; try reflexivity.
    all: unfold has_proj in Ehp; rewrite Ep in Ehp; discriminate.
  Qed.

  Lemma start_all_rel t22 t3 toff : forall cs' ps,
    Forall (fun p => has_writer p = false) ps -> length ps = length cs' ->
    let st' := mksst true false t22 t3 toff (map (fun _ => []) cs) (map (fun _ => []) cs) in
    all4 (chan_rel sp st') cs' (map (fun _ => []) cs') (map (fun _ => []) cs') (start_all true sp t22 t3 toff cs' ps).
  Proof.
    induction cs' as [|c cs' IH]; intros ps Hnw Hlen st'.
    - destruct ps; [constructor | discriminate].
    - destruct ps as [|p ps]; [discriminate|]. inversion Hnw; subst.
      cbn [map start_all]. constructor; [apply start_chan_rel; assumption|].
      apply IH; [assumption | cbn in Hlen; lia].
  Qed.

  Lemma start_all_writer t22 t3 toff : forall cs' ps,
    Forall (fun p => has_writer p = false) ps -> length ps = length cs' ->
    existsb has_writer (start_all true sp t22 t3 toff cs' ps) =
    match cs' with [] => false | _ => t22 || t3 end || (toff && existsb has_proj cs').
  Proof.
    induction cs' as [|c cs' IH]; intros ps Hnw Hlen.
    - destruct ps; [|discriminate]. cbn. now rewrite andb_false_r.
    - destruct ps as [|p ps]; [discriminate|]. inversion Hnw; subst.
      cbn [start_all existsb]. rewrite start_chan_writer by assumption.
      rewrite IH by (try assumption; cbn in Hlen; lia).
      destruct t22, t3, toff, (has_proj c), cs'; cbn; try reflexivity; try (now rewrite ?orb_true_r).
  Qed.

  Lemma chan_rel_ext st st' c a ao p :
    s_paused st' = s_paused st -> s_t22 st' = s_t22 st -> s_t3 st' = s_t3 st -> s_toff st' = s_toff st ->
    chan_rel sp st c a ao p -> chan_rel sp st' c a ao p.
  Proof. unfold Proofs.chan_rel. intros -> -> -> ->. exact (fun x => x). Qed.

  (* ---- PUBLISH on channel i ---- *)
  Lemma pub_all st rs : forall cs' accs accoffs ps i,
    s_active st = true -> s_paused st = false ->
    all4 (chan_rel sp st) cs' accs accoffs ps -> (i < length cs')%nat ->
    Forall (pubrec_fits sp (nth i cs' dflt_chan)) rs ->
    let st' := mksst true false (s_t22 st) (s_t3 st) (s_toff st) (s_acc st) (s_accoff st) in
    all4 (chan_rel sp st') cs' (app_at accs i rs) (app_at accoffs i (off_prefix (nb_of (nth i cs' dflt_chan)) rs))
         (upd ps i (fun _ => fst (publish (nth i ps pub_init) rs)))
    /\ existsb has_writer (upd ps i (fun _ => fst (publish (nth i ps pub_init) rs))) = existsb has_writer ps.
  Proof.
    intros cs' accs accoffs ps i Hact Hpa X. revert i.
    induction X as [|c a ao p cs' accs accoffs ps HR X IH]; intros i Hi Hfit st'; [cbn in Hi; lia|].
    destruct i as [|i].
    - cbn [nth app_at upd existsb] in *.
      destruct (publish_rel render22 render3 renderoff sp st c a ao p rs Hact Hpa HR Hfit) as (HR' & Hw').
      split; [|now rewrite Hw'].
      constructor; [exact HR'|].
      eapply all4_impl; [|exact X]. intros c0 a0 ao0 p0 _ Q.
      eapply chan_rel_ext; [| | | | exact Q]; cbn; auto.
    - cbn [nth app_at upd existsb] in *.
      destruct (IH i ltac:(cbn [length] in Hi; lia) Hfit) as (IH1 & IH2). split; [|now rewrite IH2].
      constructor; [|exact IH1].
      eapply chan_rel_ext; [| | | | exact HR]; cbn; auto.
  Qed.

  Lemma upd_same {A} (l : list A) i d : upd l i (fun _ => nth i l d) = l.
  Proof.
    revert i; induction l as [|x l IH]; intros i; [destruct i; reflexivity|].
    destruct i; cbn [upd nth]; [reflexivity | now rewrite IH].
  Qed.

  Lemma nth_forall {A} (P : A -> Prop) l i d : Forall P l -> P d -> P (nth i l d).
  Proof. intros H Hd. revert i; induction H; intros [|i]; cbn; auto. Qed.

  Lemma all4_nth_rel st : forall cs' accs accoffs ps i,
    all4 (chan_rel sp st) cs' accs accoffs ps -> (i < length cs')%nat ->
    exists a ao, chan_rel sp st (nth i cs' dflt_chan) a ao (nth i ps pub_init).
  Proof.
    intros cs' accs accoffs ps i X. revert i. induction X; intros i Hi; [cbn in Hi; lia|].
    destruct i; cbn [nth]; [eauto | apply IHX; cbn in Hi; lia].
  Qed.

  (* ---- one step ---- *)
  Definition not_pulse (o : bop) : Prop := match o with BPulse _ _ => False | _ => True end.

  Lemma step_preserves st ps o :
    not_pulse o -> op_wf sp cs o -> BInv sp cs st ps ->
    let r := bstep sp cs ps o in
    step_ok sp cs st o (snd r) = true /\ BInv sp cs (sstep cs st o (snd r)) (fst r).
  Proof.
    intros Hnp Hop HI r. subst r. destruct Hwf as (Hne & _).
    destruct o as [t22 t3 toff | ch rs | ch | | | | pn pp]; [| | | | | | contradiction Hnp].
    - (* START *)
      cbn [Model.bstep]. unfold start.
      destruct (negb (t22 || toff || t3)) eqn:Eno; [split; [reflexivity | exact HI]|].
      destruct (existsb has_writer ps) eqn:Eex; [split; [reflexivity | exact HI]|].
      destruct (toff && negb (existsb has_proj cs)) eqn:Enp; [split; [reflexivity | exact HI]|].
      cbn [fst snd step_ok sstep].
      unfold Proofs.BInv in HI. destruct (s_active st) eqn:Eact.
      { destruct HI as (_ & HI). congruence. }
      destruct HI as (Hnw & Hlen). split; [reflexivity|].
      unfold Proofs.BInv. cbn [s_active s_acc s_accoff]. split; [apply start_all_rel; assumption|].
      rewrite start_all_writer by assumption.
      destruct cs as [|c0 cs0]; [congruence|].
      destruct t22, t3, toff; cbn in *; try reflexivity; try discriminate.
      destruct (has_proj c0 || existsb has_proj cs0); [reflexivity | discriminate].
    - (* PUBLISH *)
      destruct Hop as (Hch & Hfit). cbn [Model.bstep].
      unfold Proofs.BInv in HI.
      assert (Hlen : length ps = length cs).
      { destruct (s_active st); [destruct HI as (X & _); apply all4_length in X; lia | apply HI]. }
      destruct ((ch <? 0) || (zlen ps <=? ch)) eqn:Erange; [unfold zlen in *; lia|].
      destruct (publish (nth (Z.to_nat ch) ps pub_init) rs) as [p' ret] eqn:Epub. cbn [fst snd].
      assert (Hret : ret = BOk \/ ret = BErr).
      { pose proof (publish_ret render22 render3 renderoff (nth (Z.to_nat ch) ps pub_init) rs) as H. rewrite Epub in H. exact H. }
      split.
      { destruct Hret as [-> | ->]; cbn [step_ok]; apply andb_true_iff; split; lia. }
      assert (Hp' : p' = fst (publish (nth (Z.to_nat ch) ps pub_init) rs)) by now rewrite Epub.
      unfold Proofs.BInv.
      assert (Hss : sstep cs st (BPub ch rs) ret =
                    if s_active st && negb (s_paused st)
                    then mksst true false (s_t22 st) (s_t3 st) (s_toff st)
                               (app_at (s_acc st) (Z.to_nat ch) rs)
                               (app_at (s_accoff st) (Z.to_nat ch) (off_prefix (nb_of (nth (Z.to_nat ch) cs dflt_chan)) rs))
                    else st).
      { destruct Hret as [-> | ->]; reflexivity. }
      rewrite Hss. clear Hss.
      destruct (s_active st) eqn:Eact.
      + destruct HI as (X & Hex). destruct (s_paused st) eqn:Epa; cbn [andb negb].
        * (* paused: nothing changes *)
          rewrite Eact. split; [|].
          -- destruct (all4_nth_rel st _ _ _ _ (Z.to_nat ch) X ltac:(unfold zlen in *; lia)) as (a & ao & HR).
             destruct HR as (Hpz & _).
             destruct (has_writer (nth (Z.to_nat ch) ps pub_init)) eqn:Ehw.
             ++ rewrite Hp', publish_paused by (rewrite (Hpz eq_refl); exact Epa). now rewrite upd_same.
             ++ rewrite Hp', publish_nowriter by exact Ehw. now rewrite upd_same.
          -- destruct (all4_nth_rel st _ _ _ _ (Z.to_nat ch) X ltac:(unfold zlen in *; lia)) as (a & ao & HR).
             destruct HR as (Hpz & _).
             destruct (has_writer (nth (Z.to_nat ch) ps pub_init)) eqn:Ehw.
             ++ rewrite Hp', publish_paused by (rewrite (Hpz eq_refl); exact Epa). now rewrite upd_same.
             ++ rewrite Hp', publish_nowriter by exact Ehw. now rewrite upd_same.
        * cbn [s_active s_acc s_accoff].
          destruct (pub_all st rs cs (s_acc st) (s_accoff st) ps (Z.to_nat ch) Eact Epa X ltac:(unfold zlen in *; lia) Hfit) as (Y1 & Y2).
          rewrite Hp'. split; [|now rewrite Y2].
          eapply all4_impl; [|exact Y1]. intros c0 a0 ao0 p0 _ Q. exact Q.
      + cbn [andb]. rewrite Eact. destruct HI as (Hnw & _).
        assert (Ehw : has_writer (nth (Z.to_nat ch) ps pub_init) = false) by (apply nth_forall; [assumption | reflexivity]).
        rewrite Hp', publish_nowriter by exact Ehw. rewrite upd_same. split; assumption.
    - (* FLUSH *)
      cbn [Model.bstep fst snd step_ok sstep]. cbn in Hop. split; [apply andb_true_iff; split; lia | exact HI].
    - (* PAUSE *)
      cbn [Model.bstep fst snd step_ok sstep]. split; [reflexivity|].
      unfold Proofs.BInv in *. cbn [s_active s_acc s_accoff]. destruct (s_active st).
      + destruct HI as (X & Hex). split.
        * apply (pause_all st _ _ _ _ _ X).
        * rewrite existsb_map_pause. exact Hex.
      + destruct HI as (Hnw & Hlen). split; [|now rewrite map_length].
        apply Forall_map. eapply Forall_impl; [|exact Hnw]. intros p Hp. exact Hp.
    - (* UNPAUSE *)
      cbn [Model.bstep fst snd step_ok sstep]. split; [reflexivity|].
      unfold Proofs.BInv in *. cbn [s_active s_acc s_accoff]. destruct (s_active st).
      + destruct HI as (X & Hex). split.
        * apply (pause_all st _ _ _ _ _ X).
        * rewrite existsb_map_pause. exact Hex.
      + destruct HI as (Hnw & Hlen). split; [|now rewrite map_length].
        apply Forall_map. eapply Forall_impl; [|exact Hnw]. intros p Hp. exact Hp.
    - (* STOP *)
      cbn [Model.bstep fst snd step_ok sstep].
      unfold Proofs.BInv in *. cbn [s_active]. destruct (s_active st).
      + destruct HI as (X & Hex). split.
        * apply stop_all; [apply incl_refl | exact X].
        * split; [| rewrite !map_length; apply all4_length in X; lia].
          apply Forall_map, Forall_map. apply Forall_forall. intros; reflexivity.
      + destruct HI as (Hnw & Hlen). split.
        * apply andb_true_iff; split; [unfold zlen; rewrite !map_length; lia|].
          rewrite forallb_forall. intros x Hx. apply in_map_iff in Hx as (y & <- & Hy).
          apply in_map_iff in Hy as (p & <- & Hp). apply stop_absent. rewrite Forall_forall in Hnw. now apply Hnw.
        * split; [| now rewrite !map_length].
          apply Forall_map, Forall_map. apply Forall_forall. intros; reflexivity.
  Qed.
End Main.

(* ================================================================ whole histories *)

Lemma cfg_wf_pulse sp cs npre nsamp :
  cfg_wf sp cs -> 0 <= nsamp -> cfg_wf (with_lens sp npre nsamp) (map clear_proj cs).
Proof.
  intros (Hne & Hns & Hd & Hf & Hm) Hn. split; [|split; [|split; [|split]]].
  - destruct cs; [congruence | discriminate].
  - exact Hn.
  - exact Hd.
  - exact Hf.
  - intros c pj bs desc Hin Hp. apply in_map_iff in Hin as (c0 & <- & _). discriminate Hp.
Qed.

Section Histories.
  Variable render22 : hdr22 -> list Z.
  Variable render3 : hdr3 -> list Z.
  Variable renderoff : hdroff -> list Z.

  Notation bstep := (bstep render22 render3 renderoff true).
  Notation cstep := (cstep render22 render3 renderoff true).
  Notation crun := (crun render22 render3 renderoff true).
  Notation BInv := (BInv render22 render3 renderoff).

  Lemma BInv_init sp cs : BInv sp cs (s_init cs) (binit cs).
  Proof.
    unfold Proofs.BInv, s_init, binit. cbn [s_active]. split; [|now rewrite map_length].
    apply Forall_map, Forall_forall. intros; reflexivity.
  Qed.

  Lemma cstep_preserves_np sp cs st ps o :
    not_pulse o -> cfg_wf sp cs -> op_wf sp cs o -> BInv sp cs st ps ->
    let r := cstep sp cs ps o in
    let sp' := fst (fst (fst r)) in let cs' := snd (fst (fst r)) in let ps' := snd (fst r) in
    cstep_ok sp cs st o (snd r) = true /\ cfg_step sp cs o (snd r) = (sp', cs') /\
    cfg_wf sp' cs' /\ BInv sp' cs' (sstep cs st o (snd r)) ps'.
  Proof.
    intros Hnp Hwf Hop HI.
    pose proof (step_preserves render22 render3 renderoff sp cs Hwf st ps o Hnp Hop HI) as Hs.
    assert (Ec : cstep sp cs ps o = (sp, cs, fst (bstep sp cs ps o), snd (bstep sp cs ps o))).
    { destruct o; try contradiction; cbn [Model.cstep]; destruct (bstep sp cs ps _); reflexivity. }
    cbn zeta in *. rewrite Ec. cbn [fst snd]. destruct Hs as (Hok & HI').
    assert (E1 : cstep_ok sp cs st o (snd (bstep sp cs ps o)) = step_ok sp cs st o (snd (bstep sp cs ps o)))
      by (destruct o; try contradiction; reflexivity).
    assert (E2 : cfg_step sp cs o (snd (bstep sp cs ps o)) = (sp, cs))
      by (destruct o; try contradiction; reflexivity).
    rewrite E1, E2. auto.
  Qed.

  (* one request against (tables, publishers): the observation is acceptable, the checker computes the same new
     tables as the model, well-formedness and the invariant are kept *)
  Lemma cstep_preserves sp cs st ps o :
    cfg_wf sp cs -> op_wf sp cs o -> BInv sp cs st ps ->
    let r := cstep sp cs ps o in
    let sp' := fst (fst (fst r)) in let cs' := snd (fst (fst r)) in let ps' := snd (fst r) in
    cstep_ok sp cs st o (snd r) = true /\ cfg_step sp cs o (snd r) = (sp', cs') /\
    cfg_wf sp' cs' /\ BInv sp' cs' (sstep cs st o (snd r)) ps'.
  Proof.
    intros Hwf Hop HI.
    destruct o as [t22 t3 toff | ch rs | ch | | | | pn pp];
      try (apply cstep_preserves_np; [exact I | assumption | assumption | assumption]).
    (* ConfigurePulseLengths *)
    cbn [Model.cstep]. unfold pulse.
    destruct ((pn <=? 0) || (pp <=? 0)) eqn:E1; [cbn; auto|].
    destruct ((sp_npre sp =? pp) && (sp_nsamp sp =? pn)) eqn:E2.
    { cbn [fst snd cstep_ok cfg_step sstep]. unfold lens_change. rewrite E2. cbn [negb]. rewrite orb_true_r. auto. }
    destruct (existsb has_writer ps) eqn:E3; [cbn; auto|].
    destruct ((pp <? 3) || (pn <? 1) || (pn <? pp + 1)) eqn:E4; [cbn; auto|].
    cbn [fst snd cstep_ok cfg_step sstep]. unfold lens_change. rewrite E2. cbn [negb].
    assert (Hina : s_active st = false).
    { unfold Proofs.BInv in HI. destruct (s_active st); [|reflexivity]. destruct HI as (_ & HI). congruence. }
    rewrite Hina. cbn [negb orb]. split; [reflexivity|]. split; [reflexivity|].
    split; [apply cfg_wf_pulse; [exact Hwf | lia]|].
    unfold Proofs.BInv in *. rewrite Hina in *. destruct HI as (Hnw & Hlen). split; [exact Hnw | now rewrite map_length].
  Qed.

  Lemma crun_cons sp cs ps o ops :
    crun sp cs ps (o :: ops) =
    (let r := cstep sp cs ps o in
     let n := crun (fst (fst (fst r))) (snd (fst (fst r))) (snd (fst r)) ops in
     (fst n, snd r :: snd n)).
  Proof.
    cbn [Model.crun]. destruct (cstep sp cs ps o) as [[[sp1 cs1] ps1] r]. cbn [fst snd].
    destruct (crun sp1 cs1 ps1 ops) as [fin rs]. reflexivity.
  Qed.

  Lemma run_passes : forall ops sp cs st ps,
    cfg_wf sp cs -> BInv sp cs st ps ->
    hist_wf sp cs (combine ops (snd (crun sp cs ps ops))) ->
    check_from sp cs st (combine ops (snd (crun sp cs ps ops))) = true.
  Proof.
    induction ops as [|o ops IH]; intros sp cs st ps Hwf HI Hh; [reflexivity|].
    rewrite crun_cons in *. cbn [snd combine check_from hist_wf] in *. destruct Hh as (Hop & Hrest).
    destruct (cstep_preserves sp cs st ps o Hwf Hop HI) as (Hok & Hcfg & Hwf' & HI').
    rewrite Hok. cbn [andb]. rewrite Hcfg in *. apply IH; assumption.
  Qed.

  Lemma model_passes_checker_lemma sp cs ops :
    cfg_wf sp cs ->
    hist_wf sp cs (combine ops (snd (crun sp cs (binit cs) ops))) ->
    C05_bench_check sp cs (combine ops (snd (crun sp cs (binit cs) ops))) = true.
  Proof. intros Hwf H. apply run_passes; [exact Hwf | apply BInv_init | exact H]. Qed.

  Lemma chk_before_0 sp cs st h : chk_before sp cs st h 0 = (sp, cs, st).
  Proof. destruct h as [|[o b] r]; reflexivity. Qed.

  (* the invariant holds before every step, for the tables in force there *)
  Lemma inv_before : forall ops sp cs st ps k,
    cfg_wf sp cs -> BInv sp cs st ps ->
    hist_wf sp cs (combine ops (snd (crun sp cs ps ops))) ->
    let chk := chk_before sp cs st (combine ops (snd (crun sp cs ps ops))) k in
    let m := fst (crun sp cs ps (firstn k ops)) in
    fst (fst chk) = fst (fst m) /\ snd (fst chk) = snd (fst m) /\
    cfg_wf (fst (fst m)) (snd (fst m)) /\ BInv (fst (fst m)) (snd (fst m)) (snd chk) (snd m).
  Proof.
    induction ops as [|o ops IH]; intros sp cs st ps k Hwf HI Hh.
    - destruct k; cbn; auto.
    - destruct k as [|k]; [cbn zeta; rewrite chk_before_0; cbn; auto|].
      cbn zeta. cbn [firstn]. rewrite !crun_cons in *. cbn [snd combine hist_wf] in Hh. destruct Hh as (Hop & Hrest).
      cbn [fst snd combine chk_before].
      destruct (cstep_preserves sp cs st ps o Hwf Hop HI) as (Hok & Hcfg & Hwf' & HI').
      rewrite Hcfg in *. apply IH; assumption.
  Qed.
End Histories.

(* ---- what the invariant says about file contents, in plain terms ---- *)
Lemma WInv_content hb s pay :
  WInv hb s pay ->
  (w_created s = true -> w_bytes s = hb ++ pay) /\ (w_created s = false -> pay = []).
Proof.
  intros [(Hc & _ & _ & Hp) | (Hc & _ & Hb)]; split; intros X; try congruence; assumption.
Qed.

Lemma file_is_header_plus_records_lemma :
  forall (render22 : hdr22 -> list Z) (render3 : hdr3 -> list Z) (renderoff : hdroff -> list Z) sp0 cs0 ops k,
    cfg_wf sp0 cs0 ->
    let obs := snd (crun render22 render3 renderoff true sp0 cs0 (binit cs0) ops) in
    hist_wf sp0 cs0 (combine ops obs) ->
    let chk := chk_before sp0 cs0 (s_init cs0) (combine ops obs) k in
    let sp := fst (fst chk) in let cs := snd (fst chk) in let st := snd chk in
    let ps := snd (fst (crun render22 render3 renderoff true sp0 cs0 (binit cs0) (firstn k ops))) in
    s_active st = true ->
    all4 (fun c acc accoff p =>
      (* LJH 2.2 *)
      (s_t22 st = true -> p22 p <> None) /\
      (forall h s, p22 p = Some (h, s) ->
         let A := accepted22 (sp_nsamp sp) acc in
         (w_created s = false -> A = []) /\
         (w_created s = true ->
            w_bytes s = render22 h ++ concat (map (fun r => ljh22_record (sp_sfdiv sp) (cp_sfoff c) (r_frame r)
                                                                         (Z.quot (r_ns r) 1000) (r_data r)) A)
            /\ zlen (w_bytes s) = zlen (render22 h) + zlen A * (16 + 2 * sp_nsamp sp))) /\
      (* LJH 3 *)
      (s_t3 st = true -> p3 p <> None) /\
      (forall h s, p3 p = Some (h, s) ->
         (w_created s = false -> acc = []) /\
         (w_created s = true ->
            w_bytes s = render3 h ++ concat (map (fun r => ljh3_record (r_pre r + 1) (r_frame r) (Z.quot (r_ns r) 1000) (r_data r)) acc)
            /\ zlen (w_bytes s) = zlen (render3 h) + sum_z (map (fun r => 24 + 2 * zlen (r_data r)) acc))) /\
      (* OFF *)
      (s_toff st = true -> off_eligible c <> None -> poff p <> None) /\
      (forall h pj bs s, poff p = Some (h, pj, bs, s) ->
         (w_created s = false -> accoff = []) /\
         (w_created s = true ->
            w_bytes s = renderoff h ++ off_header_tail pj bs ++
                        concat (map (fun r => off_record (zlen (r_data r)) (r_pre r) (r_frame r) (r_ns r)
                                                         (r_mean r) (r_delta r) (r_resid r) (r_coefs r)) accoff)
            /\ zlen (w_bytes s) = zlen (renderoff h) + 8 * zlen (m_bits pj) + 8 * zlen (m_bits bs)
                                  + zlen accoff * (36 + 4 * m_rows pj))))
      cs (s_acc st) (s_accoff st) ps.
Proof.
  intros render22 render3 renderoff sp0 cs0 ops k Hwf obs Hh chk sp cs st ps Hact.
  pose proof (inv_before render22 render3 renderoff ops sp0 cs0 (s_init cs0) (binit cs0) k Hwf
                         (BInv_init render22 render3 renderoff sp0 cs0) Hh) as HI.
  cbn zeta in HI. fold obs in HI. fold chk in HI. destruct HI as (E1 & E2 & _ & HI).
  fold sp in E1. fold cs in E2. rewrite <- E1, <- E2 in HI. fold st in HI. fold ps in HI.
  unfold BInv in HI. rewrite Hact in HI. destruct HI as (X & _).
  eapply all4_impl; [|exact X]. intros c acc accoff p _ (Hpz & Hf1 & Hf2 & Hnb & H22 & H3 & Hoff).
  split; [|split; [|split; [|split; [|split]]]].
  - intros T E. rewrite E in H22. congruence.
  - intros h s E. rewrite E in H22. destruct H22 as (_ & -> & Hi).
    apply WInv_content in Hi as (Hc1 & Hc0). split.
    + intros Z0. apply Hc0 in Z0. apply concat_map_nil in Z0; [exact Z0 | apply penc22_nonnil].
    + intros Z1. rewrite (Hc1 Z1). split; [reflexivity|].
      rewrite zlen_app. f_equal. apply zlen_concat_const. intros x Hx.
      rewrite penc22_as_enc, zlen_enc22. change (r_data (rec22_args x)) with (r_data x).
      unfold accepted22 in Hx. apply filter_In in Hx as [_ Hx]. lia.
  - intros T E. rewrite E in H3. congruence.
  - intros h s E. rewrite E in H3. destruct H3 as (_ & -> & Hi).
    apply WInv_content in Hi as (Hc1 & Hc0). split.
    + intros Z0. apply Hc0 in Z0. apply concat_map_nil in Z0; [exact Z0 | apply penc3_nonnil].
    + intros Z1. rewrite (Hc1 Z1). split; [reflexivity|]. rewrite zlen_app. f_equal. apply sum_sizes3.
  - intros T Hel E. rewrite E in Hoff. destruct Hoff; congruence.
  - intros h pj bs s E. rewrite E in Hoff. destruct Hoff as (_ & (desc & Hel & ->) & Hi).
    apply WInv_content in Hi as (Hc1 & Hc0). split.
    + intros Z0. apply Hc0 in Z0. apply concat_map_nil in Z0; [exact Z0 | apply encoff_nonnil].
    + intros Z1. rewrite (Hc1 Z1). split; [now rewrite <- app_assoc|].
      rewrite !zlen_app. unfold off_header_tail. rewrite zlen_app, !zlen_enc_u64s.
      assert (Hl : zlen (concat (map encoff accoff)) = zlen accoff * (36 + 4 * m_rows pj)).
      { apply zlen_concat_const. intros x Hx. rewrite zlen_encoff.
        rewrite Forall_forall in Hnb. rewrite (Hnb x Hx). unfold nb_of. rewrite Hel. lia. }
      rewrite Hl. lia.
Qed.

(* what STOP reports about each channel is exactly that content, cut at the header length *)
Lemma stop_reports_contents_lemma :
  forall (render22 : hdr22 -> list Z) (render3 : hdr3 -> list Z) (renderoff : hdroff -> list Z) sp cs ps,
    snd (bstep render22 render3 renderoff true sp cs ps BStop) =
    BFiles (map (fun p =>
      mkcf (match p22 p with
            | Some (h, s) => if w_created s then FFile h (zlen (w_bytes s)) (zlen (render22 h)) (zskipn (zlen (render22 h)) (w_bytes s)) else FAbsent
            | None => FAbsent end)
           (match p3 p with
            | Some (h, s) => if w_created s then FFile h (zlen (w_bytes s)) (zlen (render3 h)) (zskipn (zlen (render3 h)) (w_bytes s)) else FAbsent
            | None => FAbsent end)
           (match poff p with
            | Some (h, _, _, s) => if w_created s then FFile h (zlen (w_bytes s)) (zlen (renderoff h)) (zskipn (zlen (renderoff h)) (w_bytes s)) else FAbsent
            | None => FAbsent end)) ps).
Proof.
  intros. cbn [bstep snd]. rewrite map_map. reflexivity.
Qed.

(* ================================================================ the code before the fix *)
Lemma pre_fix_witness :
  let sp := mksrcp 1 [76] 4 1 4 1 100000 4532020583610935537 1000000 (-5) in
  let cs := [mkchanp 0 [99] 1 4 2 2 1 2 0 0 [] None] in
  let ops := [BStart false true false; BPub 0 [mkrec 7 1000 1 [1; 2; 3; 4] 0 0 0 []]; BStop] in
  cfg_wf sp cs /\ hist_wf sp cs (combine ops (snd (crun (fun _ => []) (fun _ => []) (fun _ => []) true sp cs (binit cs) ops))) /\
  C05_bench_check sp cs (combine ops (snd (crun (fun _ => []) (fun _ => []) (fun _ => []) false sp cs (binit cs) ops))) = false /\
  C05_bench_check sp cs (combine ops (snd (crun (fun _ => []) (fun _ => []) (fun _ => []) true sp cs (binit cs) ops))) = true.
Proof.
  intros sp cs ops. split; [|split; [|split]].
  - split; [discriminate|]. split; [cbn; lia|]. split; [vm_compute; reflexivity|]. split; [vm_compute; reflexivity|].
    intros c pj bs desc [<- | []] H. discriminate H.
  - repeat constructor; cbn; try lia; discriminate.
  - vm_compute. reflexivity.
  - vm_compute. reflexivity.
Qed.

Lemma model_passes_checker_full :
  forall (render22 : hdr22 -> list Z) (render3 : hdr3 -> list Z) (renderoff : hdroff -> list Z) sp cs ops,
    cfg_wf sp cs ->
    hist_wf sp cs (combine ops (snd (crun render22 render3 renderoff true sp cs (binit cs) ops))) ->
    C05_bench_check sp cs (combine ops (snd (crun render22 render3 renderoff true sp cs (binit cs) ops))) = true.
Proof. intros. now apply model_passes_checker_lemma. Qed.
