(* C05 — mirror model (definitions only, no proofs) of
     getbytes.From*            (little-endian encoders)
     ljh.Writer / ljh.Writer3  (CreateFile, WriteHeader, WriteRecord, Flush, Close)     /repo/ljh/ljh.go
     off.Writer                (same methods)                                            /repo/off/off.go
     DataPublisher.SetLJH22/SetLJH3/SetOFF/Remove*/SetPause/Flush/PublishData            /repo/publish_data.go
     AnySource.WriteControl / writeControlStart (parameter passing only)                 /repo/data_source.go
   One Gallina function per Go function, same order of effects.
   A file is the list of bytes handed to the (asynchronous, buffered) writer, in order: asyncbufio keeps
   the order and Close drains it (that is property C07's subject).  WriteRecord is described by the
   BYTES it appends (the Go code may issue them as several Writes or as one).
   Header text/JSON rendering is outside the model: every function takes the renderers as arguments
   (render22, render3, renderoff: header fields -> bytes); the theorems quantify over all renderers. *)
From Dastard Require Import Common.ZX C05.Types.
Open Scope Z_scope.

(* ---------------- getbytes: little-endian, two's complement ---------------- *)

(* the n low-order bytes of v, least significant first.  For negative v, [mod]/[/] (floor) give the
   two's-complement bytes; values beyond the width are truncated exactly as Go's intN(...) conversions
   and wrapping arithmetic do. *)
Fixpoint le_bytes (n : nat) (v : Z) : list Z :=
  match n with
  | O => []
  | S k => (v mod 256) :: le_bytes k (v / 256)
  end.

Definition le16 (v : Z) := le_bytes 2 v.     (* FromUint16 / one element of FromSliceUint16 *)
Definition le32 (v : Z) := le_bytes 4 v.     (* FromInt32, FromFloat32 (bit pattern) *)
Definition le64 (v : Z) := le_bytes 8 v.     (* FromInt64, one element of FromSliceFloat64 (bit pattern) *)

Definition enc_u16s (d : list Z) : list Z := flat_map le16 d.   (* FromSliceUint16 *)
Definition enc_u32s (d : list Z) : list Z := flat_map le32 d.   (* FromSliceFloat32 *)
Definition enc_u64s (d : list Z) : list Z := flat_map le64 d.   (* FromSliceFloat64 *)

(* ---------------- record layouts ---------------- *)

(* ljh.Writer.WriteRecord(framecount, timestamp, data): subframeCount := framecount*divisions + offset *)
Definition ljh22_record (sfdiv sfoff : Z) (framecount timestamp : Z) (data : list Z) : list Z :=
  le64 (framecount * sfdiv + sfoff) ++ le64 timestamp ++ enc_u16s data.

(* ljh.Writer3.WriteRecord(firstRisingSample, framecount, timestamp, data) *)
Definition ljh3_record (first_rising framecount timestamp : Z) (data : list Z) : list Z :=
  le32 (zlen data) ++ le32 first_rising ++ le64 framecount ++ le64 timestamp ++ enc_u16s data.

(* off.Writer.WriteRecord(recordSamples, recordPreSamples, framecount, timestamp, mean, delta, resid, data) *)
Definition off_record (nsamples npre framecount timestamp mean delta resid : Z) (coefs : list Z) : list Z :=
  le32 nsamples ++ le32 npre ++ le64 framecount ++ le64 timestamp ++
  le32 mean ++ le32 delta ++ le32 resid ++ enc_u32s coefs.

(* binary tail of the OFF header: projectors.RawMatrix().Data then basis.RawMatrix().Data as float64 *)
Definition off_header_tail (proj basis : matrix) : list Z :=
  enc_u64s (m_bits proj) ++ enc_u64s (m_bits basis).

(* ---------------- level (i): one writer ---------------- *)

Record wstate := mkw {
  w_created : bool;      (* .file / .writer non-nil *)
  w_hdr : bool;          (* HeaderWritten *)
  w_nrec : Z;            (* RecordsWritten *)
  w_bytes : list Z;      (* everything handed to the file so far *)
  w_closed : bool
}.
Definition w_init : wstate := mkw false false 0 [] false.

Definition w_append (s : wstate) (b : list Z) : wstate :=
  mkw (w_created s) (w_hdr s) (w_nrec s) (w_bytes s ++ b) (w_closed s).
Definition w_set_hdr (s : wstate) : wstate :=
  mkw (w_created s) true (w_nrec s) (w_bytes s) (w_closed s).
Definition w_count (s : wstate) : wstate :=
  mkw (w_created s) (w_hdr s) (w_nrec s + 1) (w_bytes s) (w_closed s).

(* CreateFile (same for the three writers) *)
Definition w_create (s : wstate) : wstate * wret :=
  if w_created s then (s, WErr)                        (* "file already exists" *)
  else (mkw true (w_hdr s) (w_nrec s) (w_bytes s) (w_closed s), WOk).

(* Close: Close of the asynchronous writer drains and flushes, then the file is closed.
   Calls after Close are not modelled (Write would be dropped silently, Flush panics): WPanic. *)
Definition w_close (s : wstate) : wstate * wret :=
  (mkw (w_created s) (w_hdr s) (w_nrec s) (w_bytes s) true, WOk).

Section Writers.
  Variable render22 : hdr22 -> list Z.
  Variable render3 : hdr3 -> list Z.
  Variable renderoff : hdroff -> list Z.

  (* ---- ljh.Writer (LJH 2.2); h = the struct's fields ---- *)
  Definition w22_header (h : hdr22) (s : wstate) : wstate * wret :=
    if negb (w_created s) then (s, WPanic)               (* nil *asyncbufio.Writer *)
    else (w_set_hdr (w_append s (render22 h)), WOk).     (* no "already written" test in this writer *)

  Definition w22_record (h : hdr22) (s : wstate) (r : rec) : wstate * wret :=
    if negb (zlen (r_data r) =? h22_nsamp h) then (s, WErr)     (* wrong length: nothing written *)
    else if negb (w_created s) then (s, WPanic)
    else (w_count (w_append s (ljh22_record (h22_sfdiv h) (h22_sfoff h) (r_frame r) (r_ns r) (r_data r))), WOk).

  Definition w22_step (h : hdr22) (s : wstate) (o : wop) : wstate * wret :=
    if w_closed s then (s, WPanic) else
    match o with
    | WCreate => w_create s
    | WHeader => w22_header h s
    | WRec r => w22_record h s r
    | WFlush => (s, WOk)
    | WClose => w_close s
    end.

  (* ---- ljh.Writer3 ---- *)
  Definition w3_header (h : hdr3) (s : wstate) : wstate * wret :=
    if w_hdr s then (s, WErr)                            (* "header already written" *)
    else if negb (w_created s) then (s, WPanic)
    else (w_set_hdr (w_append s (render3 h)), WOk).

  (* WriteRecord(firstRisingSample = r_pre, framecount = r_frame, timestamp = r_ns, data) *)
  Definition w3_record (s : wstate) (r : rec) : wstate * wret :=
    if negb (w_created s) then (s, WPanic)
    else (w_count (w_append s (ljh3_record (r_pre r) (r_frame r) (r_ns r) (r_data r))), WOk).

  Definition w3_step (h : hdr3) (s : wstate) (o : wop) : wstate * wret :=
    if w_closed s then (s, WPanic) else
    match o with
    | WCreate => w_create s
    | WHeader => w3_header h s
    | WRec r => w3_record s r
    | WFlush => (s, WOk)
    | WClose => w_close s
    end.

  (* ---- off.Writer; h = header fields, (proj, basis) = ModelInfo.projectors/.basis ---- *)
  Definition woff_header (h : hdroff) (proj basis : matrix) (s : wstate) : wstate * wret :=
    if w_hdr s then (s, WErr)
    else if negb (w_created s) then (s, WPanic)
    else (w_set_hdr (w_append s (renderoff h ++ off_header_tail proj basis)), WOk).

  (* WriteRecord(recordSamples = len r_data, recordPreSamples = r_pre, framecount, timestamp, mean, delta, resid, coefs) *)
  Definition woff_record (h : hdroff) (s : wstate) (r : rec) : wstate * wret :=
    if negb (zlen (r_coefs r) =? ho_nbases h) then (s, WErr)    (* "wrong number of bases" *)
    else if negb (w_created s) then (s, WPanic)
    else (w_count (w_append s (off_record (zlen (r_data r)) (r_pre r) (r_frame r) (r_ns r)
                                          (r_mean r) (r_delta r) (r_resid r) (r_coefs r))), WOk).

  Definition woff_step (h : hdroff) (proj basis : matrix) (s : wstate) (o : wop) : wstate * wret :=
    if w_closed s then (s, WPanic) else
    match o with
    | WCreate => w_create s
    | WHeader => woff_header h proj basis s
    | WRec r => woff_record h s r
    | WFlush => (s, WOk)
    | WClose => w_close s
    end.

  (* a whole API history on one writer *)
  Fixpoint w_run (step : wstate -> wop -> wstate * wret) (s : wstate) (ops : list wop) : wstate * list wret :=
    match ops with
    | [] => (s, [])
    | o :: rest => let (s1, r) := step s o in
                   let (s2, rs) := w_run step s1 rest in (s2, r :: rs)
    end.

  (* what is on disk: nothing unless CreateFile succeeded *)
  Definition w_file (s : wstate) : option (list Z) :=
    if w_created s then Some (w_bytes s) else None.

  (* ---------------- level (ii): DataPublisher ---------------- *)

  Record pub := mkpub {
    p22 : option (hdr22 * wstate);
    p3 : option (hdr3 * wstate);
    poff : option (hdroff * matrix * matrix * wstate);
    p_paused : bool                                       (* WritingPaused *)
  }.
  Definition pub_init : pub := mkpub None None None false.

  Definition has_writer (p : pub) : bool :=
    match p22 p, p3 p, poff p with None, None, None => false | _, _, _ => true end.

  (* SetPause: flag, then Flush (no effect on content) *)
  Definition set_pause (p : pub) (b : bool) : pub := mkpub (p22 p) (p3 p) (poff p) b.

  (* SetLJH22(ChannelIndex, Presamples, Samples, FramesPerSample, Timebase(oracle: decimal), rows, cols, nchan,
              SubframeDivisions, rowNum, colNum, SubframeOffset, sourceName, chanName, ChannelNumberMatchingName, pixel):
     fills the struct; WriteHeader prints  vmaj.vmin = 2.2, word size 2, and the struct's fields under their keys.
     Clears WritingPaused. *)
  Definition set22 (p : pub) (index npre nsamp fps tbm tbe rows cols nchan sfdiv row col sfoff : Z)
                   (source name : list Z) (number px py : Z) (pname : list Z) : pub :=
    let h := mkh22 2 2 rows cols row col nchan name number index sfdiv sfoff 2 npre nsamp fps tbm tbe
                   px py pname source in
    mkpub (Some (h, w_init)) (p3 p) (poff p) false.

  (* SetLJH3(ChannelIndex, Timebase, rows, cols, SubframeDivisions, SubframeOffset, FileName): it has no
     parameters for the channel's row and column, Writer3.Row/.Column stay 0.  Clears WritingPaused. *)
  Definition ljh3_fmt : list Z := [76; 74; 72; 51].            (* "LJH3" *)
  Definition ljh3_ver : list Z := [51; 46; 48; 46; 48].        (* "3.0.0" *)
  Definition set3 (p : pub) (tb rows cols sfdiv sfoff : Z) : pub :=
    let h := mkh3 ljh3_fmt ljh3_ver tb rows cols sfdiv 0 0 sfoff in
    mkpub (p22 p) (Some (h, w_init)) (poff p) false.
  (* SetLJH3Position(row, col) (added by the fix): fills Writer3.Row/.Column of the writer just set *)
  Definition set3_position (p : pub) (row col : Z) : pub :=
    match p3 p with
    | Some (h, s) =>
        mkpub (p22 p) (Some (mkh3 (h3_fmt h) (h3_ver h) (h3_tb h) (h3_rows h) (h3_cols h) (h3_sfdiv h) row col (h3_sfoff h), s))
              (poff p) (p_paused p)
    | None => p
    end.

  (* SetOFF(...) -> off.NewWriter(...).  NumberOfBases = rows of the projectors; the ArrayJsoner shapes are the
     matrices' Dims().  Clears WritingPaused (C06's fix; before it the flag was left alone). *)
  Definition off_fmt : list Z := [79; 70; 70].                 (* "OFF" *)
  Definition off_ver : list Z := [48; 46; 51; 46; 48].         (* "0.3.0" *)
  Definition setoff (p : pub) (index npre nsamp tb rows cols nchan sfdiv row col sfoff : Z)
                    (source name : list Z) (number : Z) (proj basis : matrix) (desc : list Z)
                    (px py : Z) (pname : list Z) : pub :=
    let h := mkhoff off_fmt off_ver index name number npre nsamp tb (m_rows proj)
                    (m_rows proj) (m_cols proj) (m_rows basis) (m_cols basis) desc
                    rows cols nchan sfdiv col row sfoff px py pname source in
    mkpub (p22 p) (p3 p) (Some (h, proj, basis, w_init)) false.

  (* the arguments PublishData passes to the three WriteRecord functions *)
  Definition rec22_args (r : rec) : rec :=      (* (int64(trigFrame), UnixNano()/1000, data) *)
    mkrec (r_frame r) (Z.quot (r_ns r) 1000) (r_pre r) (r_data r) (r_mean r) (r_delta r) (r_resid r) (r_coefs r).
  Definition rec3_args (r : rec) : rec :=       (* (int32(presamples+1), int64(trigFrame), UnixNano()/1000, data) *)
    mkrec (r_frame r) (Z.quot (r_ns r) 1000) (r_pre r + 1) (r_data r) (r_mean r) (r_delta r) (r_resid r) (r_coefs r).
  (* OFF: (len(data), presamples, trigFrame, UnixNano(), float32(...)...) = the record itself *)

  (* LJH22 / LJH3 loops: the error of WriteRecord is ignored *)
  Fixpoint pub22_records (h : hdr22) (s : wstate) (rs : list rec) : wstate :=
    match rs with
    | [] => s
    | r :: rest => pub22_records h (fst (w22_record h s (rec22_args r))) rest
    end.
  Fixpoint pub3_records (s : wstate) (rs : list rec) : wstate :=
    match rs with
    | [] => s
    | r :: rest => pub3_records (fst (w3_record s (rec3_args r))) rest
    end.
  (* OFF loop: the first error is returned at once *)
  Fixpoint puboff_records (h : hdroff) (s : wstate) (rs : list rec) : wstate * bool (* ok *) :=
    match rs with
    | [] => (s, true)
    | r :: rest => match woff_record h s r with
                   | (s1, WOk) => puboff_records h s1 rest
                   | (s1, _) => (s1, false)
                   end
    end.

  (* PublishData *)
  Definition publish (p : pub) (rs : list rec) : pub * bobs :=
    match rs with [] => (p, BOk) | _ =>
    if p_paused p then (p, BOk)
    else if negb (has_writer p) then (p, BOk)
    else
      (* LJH22 *)
      let r22 := match p22 p with
                 | None => Some None
                 | Some (h, s) =>
                     if w_hdr s then Some (Some (h, pub22_records h s rs))
                     else match w_create s with
                          | (s1, WOk) => let s2 := fst (w22_header h s1) in
                                         Some (Some (h, pub22_records h s2 rs))
                          | _ => None
                          end
                 end in
      match r22 with
      | None => (p, BErr)
      | Some q22 =>
        let p1 := mkpub q22 (p3 p) (poff p) (p_paused p) in
        (* LJH3 *)
        let r3 := match p3 p1 with
                  | None => Some None
                  | Some (h, s) =>
                      if w_hdr s then Some (Some (h, pub3_records s rs))
                      else match w_create s with
                           | (s1, WOk) => let s2 := fst (w3_header h s1) in
                                          Some (Some (h, pub3_records s2 rs))
                           | _ => None
                           end
                  end in
        match r3 with
        | None => (p1, BErr)
        | Some q3 =>
          let p2 := mkpub (p22 p1) q3 (poff p1) (p_paused p1) in
          (* OFF *)
          match poff p2 with
          | None => (p2, BOk)
          | Some (h, pj, bs, s) =>
              let s2opt := if w_hdr s then Some s
                           else match w_create s with
                                | (s1, WOk) => Some (fst (woff_header h pj bs s1))
                                | _ => None
                                end in
              match s2opt with
              | None => (p2, BErr)
              | Some s2 =>
                  let (s3, ok) := puboff_records h s2 rs in
                  (mkpub (p22 p2) (p3 p2) (Some (h, pj, bs, s3)) (p_paused p2), if ok then BOk else BErr)
              end
          end
        end
      end
    end.

  (* ---------------- AnySource.WriteControl ---------------- *)

  Definition has_proj (c : chanp) : bool :=
    match cp_proj c with
    | Some (pj, _, _) => (0 <? m_rows pj) && (0 <? m_cols pj)      (* !projectors.IsEmpty() *)
    | None => false
    end.

  (* the body of the per-channel loop of writeControlStart: SetLJH22, then SetOFF, then SetLJH3.
     [fixed]: with (the repaired code) or without (the original code) the SetLJH3Position call. *)
  Definition start_chan (fixed : bool) (sp : srcp) (t22 t3 toff : bool) (c : chanp) (p : pub) : pub :=
    let p := if t22
             then set22 p (cp_index c) (sp_npre sp) (sp_nsamp sp) 1 (sp_tbm sp) (sp_tbe sp)
                        (cp_rows c) (cp_cols c) (sp_nchan sp) (sp_sfdiv sp) (cp_row c) (cp_col c) (cp_sfoff c)
                        (sp_source sp) (cp_name c) (cp_number c) (cp_px c) (cp_py c) (cp_pname c)
             else p in
    let p := match cp_proj c with
             | Some (pj, bs, desc) =>
                 if toff && has_proj c
                 then setoff p (cp_index c) (sp_npre sp) (sp_nsamp sp) (sp_tb64 sp)
                             (cp_rows c) (cp_cols c) (sp_nchan sp) (sp_sfdiv sp) (cp_row c) (cp_col c) (cp_sfoff c)
                             (sp_source sp) (cp_name c) (cp_number c) pj bs desc (cp_px c) (cp_py c) (cp_pname c)
                 else p
             | None => p
             end in
    if t3
    then let p := set3 p (sp_tb64 sp) (cp_rows c) (cp_cols c) (sp_sfdiv sp) (cp_sfoff c) in
         if fixed then set3_position p (cp_row c) (cp_col c) else p
    else p.

  Fixpoint start_all (fixed : bool) (sp : srcp) (t22 t3 toff : bool) (cs : list chanp) (ps : list pub) : list pub :=
    match cs, ps with
    | c :: cs', p :: ps' => start_chan fixed sp t22 t3 toff c p :: start_all fixed sp t22 t3 toff cs' ps'
    | _, _ => []
    end.

  Definition start (fixed : bool) (sp : srcp) (cs : list chanp) (ps : list pub) (t22 t3 toff : bool)
    : list pub * bobs :=
    if negb (t22 || toff || t3) then (ps, BErr)                      (* all false *)
    else if existsb has_writer ps then (ps, BErr)                    (* writing already in progress *)
    else if toff && negb (existsb has_proj cs) then (ps, BErr)       (* no projectors are loaded *)
    else (start_all fixed sp t22 t3 toff cs ps, BOk).

  (* Remove*: Close the writer (if any); the file exists iff CreateFile was reached.  The observation is
     what the harness makes of the file: it cuts the header text off (its length is the rendering's
     length) and reports the header's fields, the file size, the header length and the remaining bytes. *)
  Definition split_file {H} (render : H -> list Z) (h : H) (bytes : list Z) : fobs H :=
    FFile h (zlen bytes) (zlen (render h)) (zskipn (zlen (render h)) bytes).
  Definition closed_file {H} (render : H -> list Z) (w : option (H * wstate)) : fobs H :=
    match w with
    | Some (h, s) => if w_created s then split_file render h (w_bytes s) else FAbsent
    | None => FAbsent
    end.
  Definition stop_chan (p : pub) : pub * chfiles :=
    (mkpub None None None (p_paused p),
     mkcf (closed_file render22 (p22 p)) (closed_file render3 (p3 p))
          (match poff p with Some (h, _, _, s) => closed_file renderoff (Some (h, s)) | None => FAbsent end)).

  (* list update helpers: processors[ch] (ch out of range = Go index panic; the harness never does that) *)
  Fixpoint upd {A} (l : list A) (i : nat) (f : A -> A) : list A :=
    match l, i with
    | [], _ => []
    | x :: r, O => f x :: r
    | x :: r, S k => x :: upd r k f
    end.

  Definition bstep (fixed : bool) (sp : srcp) (cs : list chanp) (ps : list pub) (o : bop) : list pub * bobs :=
    match o with
    | BStart t22 t3 toff => start fixed sp cs ps t22 t3 toff
    | BPub ch rs =>
        if (ch <? 0) || (zlen ps <=? ch) then (ps, BErr)
        else let p := nth (Z.to_nat ch) ps pub_init in
             let (p', r) := publish p rs in
             (upd ps (Z.to_nat ch) (fun _ => p'), r)
    | BFlush _ => (ps, BOk)
    | BPause => (map (fun p => set_pause p true) ps, BOk)
    | BUnpause => (map (fun p => set_pause p false) ps, BOk)
    | BStop => let r := map stop_chan ps in (map fst r, BFiles (map snd r))
    | BPulse _ _ => (ps, BErr)      (* handled by [cstep]: it changes the source's tables, not the publishers *)
    end.

  Fixpoint brun (fixed : bool) (sp : srcp) (cs : list chanp) (ps : list pub) (ops : list bop) : list pub * list bobs :=
    match ops with
    | [] => (ps, [])
    | o :: rest => let (ps1, r) := bstep fixed sp cs ps o in
                   let (ps2, rs) := brun fixed sp cs ps1 rest in (ps2, r :: rs)
    end.

  Definition binit (cs : list chanp) : list pub := map (fun _ => pub_init) cs.

  (* ---------------- SourceControl.ConfigurePulseLengths ---------------- *)
  (* rpc_server.go: non-positive values are refused; unchanged lengths return nil at once; refused while
     WritingIsActive() (writingState.Active: true from a successful START to the next STOP, i.e. exactly while
     some channel holds a writer); then AnySource.ConfigurePulseLengths refuses npre < 3 or nsamp < npre+1 and
     otherwise every processor takes the new lengths and drops its projectors. (Edge-multi triggering, which
     adds a further validity test, is off on the bench.)  sp_npre/sp_nsamp are the lengths in force. *)
  Definition pulse (sp : srcp) (cs : list chanp) (ps : list pub) (nsamp npre : Z) : (srcp * list chanp) * bobs :=
    if (nsamp <=? 0) || (npre <=? 0) then ((sp, cs), BErr)
    else if (sp_npre sp =? npre) && (sp_nsamp sp =? nsamp) then ((sp, cs), BOk)
    else if existsb has_writer ps then ((sp, cs), BErr)
    else if (npre <? 3) || (nsamp <? 1) || (nsamp <? npre + 1) then ((sp, cs), BErr)
    else ((with_lens sp npre nsamp, map clear_proj cs), BOk).

  (* one request against (tables, publishers) *)
  Definition cstep (fixed : bool) (sp : srcp) (cs : list chanp) (ps : list pub) (o : bop)
    : (srcp * list chanp * list pub) * bobs :=
    match o with
    | BPulse nsamp npre => let '(sp', cs', r) := pulse sp cs ps nsamp npre in ((sp', cs', ps), r)
    | _ => let (ps', r) := bstep fixed sp cs ps o in ((sp, cs, ps'), r)
    end.

  Fixpoint crun (fixed : bool) (sp : srcp) (cs : list chanp) (ps : list pub) (ops : list bop)
    : (srcp * list chanp * list pub) * list bobs :=
    match ops with
    | [] => ((sp, cs, ps), [])
    | o :: rest => let '(sp1, cs1, ps1, r) := cstep fixed sp cs ps o in
                   let (fin, rs) := crun fixed sp1 cs1 ps1 rest in (fin, r :: rs)
    end.
End Writers.
