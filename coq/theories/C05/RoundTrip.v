(* C05 — byte-level lemmas and the three round-trip proofs. *)
From Coq Require Import ZifyBool ZifyNat.
From Dastard Require Import Common.ZX C05.Types C05.Model C05.Spec.
Open Scope Z_scope.

(* ================================================================ lists *)

Lemma zfirstn_app_exact {A} (a b : list A) n : zlen a = n -> zfirstn n (a ++ b) = a.
Proof.
  intros H. unfold zfirstn, zlen in *. replace (Z.to_nat n) with (length a + 0)%nat by lia.
  rewrite firstn_app_2. cbn. apply app_nil_r.
Qed.

Lemma zskipn_app_exact {A} (a b : list A) n : zlen a = n -> zskipn n (a ++ b) = b.
Proof.
  intros H. unfold zskipn, zlen in *. replace (Z.to_nat n) with (length a) by lia.
  rewrite skipn_app, skipn_all, Nat.sub_diag. reflexivity.
Qed.

Lemma zslice_mid {A} (pre x post : list A) off n :
  zlen pre = off -> zlen x = n -> zslice (pre ++ x ++ post) off n = x.
Proof.
  intros H1 H2. unfold zslice. rewrite zskipn_app_exact by assumption. apply zfirstn_app_exact; assumption.
Qed.

Lemma firstn_app_exact {A} (a b : list A) n : length a = n -> firstn n (a ++ b) = a.
Proof. intros <-. replace (length a) with (length a + 0)%nat by lia. rewrite firstn_app_2. cbn. apply app_nil_r. Qed.

Lemma skipn_app_exact {A} (a b : list A) n : length a = n -> skipn n (a ++ b) = b.
Proof. intros <-. rewrite skipn_app, skipn_all, Nat.sub_diag. reflexivity. Qed.

Lemma zlen_cons {A} (x : A) l : zlen (x :: l) = 1 + zlen l.
Proof. unfold zlen. cbn [length]. lia. Qed.

Lemma zlen_nil {A} : zlen (@nil A) = 0.
Proof. reflexivity. Qed.

Lemma zlen_map {A B} (f : A -> B) l : zlen (map f l) = zlen l.
Proof. unfold zlen. now rewrite map_length. Qed.

Lemma list_eqb_refl {A} (eqb : A -> A -> bool) (l : list A) :
  (forall x, eqb x x = true) -> list_eqb eqb l l = true.
Proof. intros H. induction l as [|x l IH]; cbn; [reflexivity|]. now rewrite H, IH. Qed.

Lemma zlist_eqb_refl l : zlist_eqb l l = true.
Proof. apply list_eqb_refl. intros; apply Z.eqb_refl. Qed.

(* ================================================================ little-endian bytes *)

Lemma le_bytes_length n v : length (le_bytes n v) = n.
Proof. revert v; induction n as [|n IH]; intros v; cbn [le_bytes length]; [reflexivity | now rewrite IH]. Qed.

Lemma zlen_le_bytes n v : zlen (le_bytes n v) = Z.of_nat n.
Proof. unfold zlen. now rewrite le_bytes_length. Qed.

Lemma le_val_le_bytes n v : le_val (le_bytes n v) = v mod 256 ^ Z.of_nat n.
Proof.
  revert v; induction n as [|n IH]; intros v.
  - cbn [le_bytes le_val]. change (256 ^ Z.of_nat 0) with 1. now rewrite Z.mod_1_r.
  - cbn [le_bytes le_val]. rewrite IH.
    replace (Z.of_nat (S n)) with (1 + Z.of_nat n) by lia.
    rewrite Z.pow_add_r by lia. change (256 ^ 1) with 256.
    rewrite Z.rem_mul_r by (try lia; apply Z.pow_pos_nonneg; lia). reflexivity.
Qed.

Lemma to_signed_mod nb v :
  0 < nb -> - 2 ^ (8 * nb - 1) <= v < 2 ^ (8 * nb - 1) -> to_signed nb (v mod 2 ^ (8 * nb)) = v.
Proof.
  intros Hnb Hv. unfold to_signed.
  assert (Hp : 2 ^ (8 * nb) = 2 * 2 ^ (8 * nb - 1)).
  { replace (8 * nb) with (1 + (8 * nb - 1)) at 1 by lia. rewrite Z.pow_add_r by lia. reflexivity. }
  assert (Hpos : 0 < 2 ^ (8 * nb - 1)) by (apply Z.pow_pos_nonneg; lia).
  destruct (Z_lt_le_dec v 0) as [Hneg | Hnn].
  - replace (v mod 2 ^ (8 * nb)) with (v + 2 ^ (8 * nb)).
    + destruct (v + 2 ^ (8 * nb) <? 2 ^ (8 * nb - 1)) eqn:E; lia.
    + apply Z.mod_unique with (q := -1); lia.
  - rewrite Z.mod_small by lia. destruct (v <? 2 ^ (8 * nb - 1)) eqn:E; lia.
Qed.

Lemma pow256 n : 256 ^ Z.of_nat n = 2 ^ (8 * Z.of_nat n).
Proof. change 256 with (2 ^ 8). rewrite <- Z.pow_mul_r by lia. reflexivity. Qed.

(* reading back one field *)
Lemma rd_u_field pre post n v off :
  zlen pre = off -> 0 <= v < 256 ^ Z.of_nat n ->
  rd_u (pre ++ le_bytes n v ++ post) off (Z.of_nat n) = v.
Proof.
  intros Hoff Hv. unfold rd_u. rewrite zslice_mid by (try assumption; apply zlen_le_bytes).
  rewrite le_val_le_bytes. apply Z.mod_small; assumption.
Qed.

Lemma rd_s_field pre post n v off :
  zlen pre = off -> (0 < n)%nat -> - 2 ^ (8 * Z.of_nat n - 1) <= v < 2 ^ (8 * Z.of_nat n - 1) ->
  rd_s (pre ++ le_bytes n v ++ post) off (Z.of_nat n) = v.
Proof.
  intros Hoff Hn Hv. unfold rd_s, rd_u. rewrite zslice_mid by (try assumption; apply zlen_le_bytes).
  rewrite le_val_le_bytes, pow256. apply to_signed_mod; lia.
Qed.

(* a run of words *)
Lemma flat_map_le_length w (d : list Z) : length (flat_map (le_bytes w) d) = (w * length d)%nat.
Proof.
  induction d as [|a d IH]; cbn [flat_map length]; [lia|].
  rewrite app_length, le_bytes_length, IH. lia.
Qed.

Lemma rd_words_enc w (d : list Z) rest :
  Forall (fun v => 0 <= v < 256 ^ Z.of_nat w) d ->
  rd_words w (length d) (flat_map (le_bytes w) d ++ rest) = d.
Proof.
  intros H. induction H as [|a d Ha Hd IH]; [reflexivity|].
  cbn [flat_map length rd_words]. rewrite <- app_assoc.
  rewrite firstn_app_exact by apply le_bytes_length.
  rewrite skipn_app_exact by apply le_bytes_length.
  rewrite le_val_le_bytes, Z.mod_small by assumption. now rewrite IH.
Qed.

(* ================================================================ LJH 2.2 round trip *)

Definition enc22 (sfdiv sfoff : Z) (r : rec) : list Z :=
  ljh22_record sfdiv sfoff (r_frame r) (r_ns r) (r_data r).

Lemma zlen_enc_u16s d : zlen (enc_u16s d) = 2 * zlen d.
Proof. unfold enc_u16s, le16, zlen. rewrite flat_map_le_length. lia. Qed.
Lemma zlen_enc_u32s d : zlen (enc_u32s d) = 4 * zlen d.
Proof. unfold enc_u32s, le32, zlen. rewrite flat_map_le_length. lia. Qed.
Lemma zlen_enc_u64s d : zlen (enc_u64s d) = 8 * zlen d.
Proof. unfold enc_u64s, le64, zlen. rewrite flat_map_le_length. lia. Qed.

Lemma zlen_enc22 sfdiv sfoff r : zlen (enc22 sfdiv sfoff r) = 16 + 2 * zlen (r_data r).
Proof.
  unfold enc22, ljh22_record, le64. rewrite !zlen_app, !zlen_le_bytes, zlen_enc_u16s. lia.
Qed.

Lemma in_u16_pow d : Forall in_u16 d -> Forall (fun v => 0 <= v < 256 ^ Z.of_nat 2) d.
Proof. apply Forall_impl. intros a H. exact H. Qed.
Lemma in_u32_pow d : Forall in_u32 d -> Forall (fun v => 0 <= v < 256 ^ Z.of_nat 4) d.
Proof. apply Forall_impl. intros a H. exact H. Qed.
Lemma in_u64_pow d : Forall in_u64 d -> Forall (fun v => 0 <= v < 256 ^ Z.of_nat 8) d.
Proof. apply Forall_impl. intros a H. exact H. Qed.

Lemma nonempty_of_zlen {A} (l : list A) : 0 < zlen l -> exists x t, l = x :: t.
Proof. destruct l as [|x t]; [unfold zlen; cbn; lia | eauto]. Qed.

(* one step of the LJH 2.2 parser on a record followed by anything *)
Lemma parse22_step k L sfdiv sfoff r tail :
  0 <= L -> rec22_fits sfdiv sfoff L r ->
  parse22_fuel (S k) L (enc22 sfdiv sfoff r ++ tail) =
  match parse22_fuel k L tail with
  | POk rs => POk (w_expect22 sfdiv sfoff r :: rs)
  | e => e
  end.
Proof.
  intros HL (Hsfc & Hts & Hd & Hlen).
  pose proof (zlen_enc22 sfdiv sfoff r) as Hz. rewrite Hlen in Hz.
  destruct (nonempty_of_zlen (enc22 sfdiv sfoff r ++ tail)) as (x & t & E).
  { rewrite zlen_app. pose proof (zlen_nonneg tail). lia. }
  cbn [parse22_fuel]. rewrite E. rewrite <- E.
  replace (16 + L * 2) with (16 + 2 * L) by lia.
  destruct (zlen (enc22 sfdiv sfoff r ++ tail) <? 16 + 2 * L) eqn:Elt.
  { rewrite zlen_app in Elt. pose proof (zlen_nonneg tail). lia. }
  rewrite zskipn_app_exact by assumption.
  destruct (parse22_fuel k L tail) as [rs| |]; try reflexivity.
  f_equal. f_equal. unfold w_expect22.
  unfold enc22, ljh22_record, le64.
  f_equal.
  - rewrite <- app_assoc.
    apply (rd_s_field [] _ 8 _ 0); [reflexivity | lia | exact Hsfc].
  - rewrite <- !app_assoc.
    change 8 with (Z.of_nat 8) at 2.
    rewrite app_assoc.
    replace (le_bytes 8 (r_frame r * sfdiv + sfoff) ++ le_bytes 8 (r_ns r) ++ enc_u16s (r_data r) ++ tail)
      with (le_bytes 8 (r_frame r * sfdiv + sfoff) ++ le_bytes 8 (r_ns r) ++ (enc_u16s (r_data r) ++ tail)) by reflexivity.
    rewrite <- app_assoc.
    apply (rd_s_field (le_bytes 8 (r_frame r * sfdiv + sfoff)) _ 8 _ 8); [apply zlen_le_bytes | lia | exact Hts].
  - rewrite <- !app_assoc. rewrite app_assoc.
    rewrite zskipn_app_exact by (rewrite zlen_app, !zlen_le_bytes; lia).
    replace (Z.to_nat L) with (length (r_data r)) by (unfold zlen in Hlen; lia).
    apply rd_words_enc. apply in_u16_pow; assumption.
Qed.

Lemma parse22_fuel_concat sfdiv sfoff L rs :
  0 <= L -> Forall (rec22_fits sfdiv sfoff L) rs ->
  forall fuel, (length rs <= fuel)%nat ->
  parse22_fuel fuel L (concat (map (enc22 sfdiv sfoff) rs)) = POk (map (w_expect22 sfdiv sfoff) rs).
Proof.
  intros HL H. induction H as [|r rs Hr Hrs IH]; intros fuel Hf.
  - cbn. destruct fuel; reflexivity.
  - destruct fuel as [|k]; [cbn in Hf; lia|].
    cbn [map concat]. rewrite parse22_step by assumption.
    rewrite IH by (cbn in Hf; lia). reflexivity.
Qed.

Lemma concat_length_ge {A} (f : A -> list Z) (rs : list A) :
  (forall r, (1 <= length (f r))%nat) -> (length rs <= length (concat (map f rs)))%nat.
Proof.
  intros H. induction rs as [|r rs IH]; cbn [map concat length]; [lia|].
  rewrite app_length. specialize (H r). lia.
Qed.

Lemma ljh22_roundtrip_lemma sfdiv sfoff L rs :
  0 <= L -> Forall (rec22_fits sfdiv sfoff L) rs ->
  parse_ljh22 L (concat (map (fun r => ljh22_record sfdiv sfoff (r_frame r) (r_ns r) (r_data r)) rs))
  = POk (map (w_expect22 sfdiv sfoff) rs).
Proof.
  intros HL H. unfold parse_ljh22. destruct (L <? 0) eqn:E; [lia|].
  apply (parse22_fuel_concat sfdiv sfoff L rs HL H).
  apply (concat_length_ge (enc22 sfdiv sfoff)). intros r.
  pose proof (zlen_enc22 sfdiv sfoff r). pose proof (zlen_nonneg (r_data r)). unfold zlen in *. lia.
Qed.

(* ================================================================ field access by skipping *)

Lemma zskipn_app_ge {A} (a b : list A) off : 0 <= off - zlen a -> zskipn off (a ++ b) = zskipn (off - zlen a) b.
Proof.
  intros H. unfold zskipn, zlen in *. rewrite skipn_app.
  rewrite skipn_all2 by lia. cbn [app]. f_equal. lia.
Qed.

Lemma rd_u_app_skip a b off n : 0 <= off - zlen a -> rd_u (a ++ b) off n = rd_u b (off - zlen a) n.
Proof. intros H. unfold rd_u, zslice. now rewrite zskipn_app_ge. Qed.

Lemma rd_s_app_skip a b off n : 0 <= off - zlen a -> rd_s (a ++ b) off n = rd_s b (off - zlen a) n.
Proof. intros H. unfold rd_s. now rewrite rd_u_app_skip. Qed.

Lemma rd_u_head n v post : 0 <= v < 256 ^ Z.of_nat n -> rd_u (le_bytes n v ++ post) 0 (Z.of_nat n) = v.
Proof. intros H. apply (rd_u_field [] post n v 0); [reflexivity | exact H]. Qed.

Lemma rd_s_head n v post :
  (0 < n)%nat -> - 2 ^ (8 * Z.of_nat n - 1) <= v < 2 ^ (8 * Z.of_nat n - 1) ->
  rd_s (le_bytes n v ++ post) 0 (Z.of_nat n) = v.
Proof. intros Hn H. apply (rd_s_field [] post n v 0); [reflexivity | exact Hn | exact H]. Qed.

Ltac skip_fields :=
  repeat (first [ rewrite rd_s_app_skip by (rewrite zlen_le_bytes; cbn; lia)
                | rewrite rd_u_app_skip by (rewrite zlen_le_bytes; cbn; lia) ];
          rewrite zlen_le_bytes; cbn [Z.of_nat Pos.of_succ_nat Pos.succ Z.sub Z.add Z.opp Z.pos_sub Z.succ_double Z.pred_double Z.double Pos.pred_double]).

(* ================================================================ LJH 3 round trip *)

Definition enc3 (r : rec) : list Z := ljh3_record (r_pre r) (r_frame r) (r_ns r) (r_data r).

Lemma zlen_enc3 r : zlen (enc3 r) = 24 + 2 * zlen (r_data r).
Proof.
  unfold enc3, ljh3_record, le32, le64. rewrite !zlen_app, !zlen_le_bytes, zlen_enc_u16s. lia.
Qed.

Lemma parse3_step k r tail :
  rec3_fits r ->
  parse3_fuel (S k) (enc3 r ++ tail) =
  match parse3_fuel k tail with
  | POk rs => POk (w_expect3 r :: rs)
  | e => e
  end.
Proof.
  intros (Hpre & Hfr & Hts & Hd & Hlen).
  pose proof (zlen_enc3 r) as Hz. pose proof (zlen_nonneg (r_data r)) as Hnn. pose proof (zlen_nonneg tail) as Htl.
  destruct (nonempty_of_zlen (enc3 r ++ tail)) as (x & t & E).
  { rewrite zlen_app. lia. }
  cbn [parse3_fuel]. rewrite E. rewrite <- E.
  destruct (zlen (enc3 r ++ tail) <? 24) eqn:E24. { rewrite zlen_app in E24. lia. }
  assert (Hn : rd_s (enc3 r ++ tail) 0 4 = zlen (r_data r)).
  { unfold enc3, ljh3_record, le32. rewrite <- !app_assoc.
    apply (rd_s_head 4); [lia | change (8 * Z.of_nat 4 - 1) with 31; lia]. }
  rewrite Hn.
  destruct (zlen (r_data r) <? 0) eqn:En; [lia|].
  replace (24 + zlen (r_data r) * 2) with (24 + 2 * zlen (r_data r)) by lia.
  destruct (zlen (enc3 r ++ tail) <? 24 + 2 * zlen (r_data r)) eqn:Elt. { rewrite zlen_app in Elt. lia. }
  rewrite zskipn_app_exact by assumption.
  destruct (parse3_fuel k tail) as [rs| |]; try reflexivity.
  f_equal. f_equal. unfold w_expect3.
  unfold enc3, ljh3_record, le32, le64. rewrite <- !app_assoc.
  f_equal.
  - change 4 with (Z.of_nat 4) at 2. skip_fields. apply rd_s_head; [lia | exact Hpre].
  - change 8 with (Z.of_nat 8) at 2. skip_fields. apply rd_s_head; [lia | exact Hfr].
  - change 8 with (Z.of_nat 8) at 1. skip_fields. apply rd_s_head; [lia | exact Hts].
  - rewrite !app_assoc. rewrite <- (app_assoc _ (enc_u16s (r_data r)) tail).
    rewrite zskipn_app_exact by (rewrite !zlen_app, !zlen_le_bytes; lia).
    replace (Z.to_nat (zlen (r_data r))) with (length (r_data r)) by (unfold zlen; lia).
    apply rd_words_enc. apply in_u16_pow; assumption.
Qed.

Lemma parse3_fuel_concat rs :
  Forall rec3_fits rs ->
  forall fuel, (length rs <= fuel)%nat ->
  parse3_fuel fuel (concat (map enc3 rs)) = POk (map w_expect3 rs).
Proof.
  intros H. induction H as [|r rs Hr Hrs IH]; intros fuel Hf.
  - cbn. destruct fuel; reflexivity.
  - destruct fuel as [|k]; [cbn in Hf; lia|].
    cbn [map concat]. rewrite parse3_step by assumption.
    rewrite IH by (cbn in Hf; lia). reflexivity.
Qed.

Lemma ljh3_roundtrip_lemma rs :
  Forall rec3_fits rs ->
  parse_ljh3 (concat (map (fun r => ljh3_record (r_pre r) (r_frame r) (r_ns r) (r_data r)) rs))
  = POk (map w_expect3 rs).
Proof.
  intros H. unfold parse_ljh3. apply (parse3_fuel_concat rs H).
  apply (concat_length_ge enc3). intros r.
  pose proof (zlen_enc3 r). pose proof (zlen_nonneg (r_data r)). unfold zlen in *. lia.
Qed.

(* ================================================================ OFF round trip *)

Definition encoff (r : rec) : list Z :=
  off_record (zlen (r_data r)) (r_pre r) (r_frame r) (r_ns r) (r_mean r) (r_delta r) (r_resid r) (r_coefs r).

Lemma zlen_encoff r : zlen (encoff r) = 36 + 4 * zlen (r_coefs r).
Proof.
  unfold encoff, off_record, le32, le64. rewrite !zlen_app, !zlen_le_bytes, zlen_enc_u32s. lia.
Qed.

Lemma parseoff_step k nb r tail :
  recoff_fits nb r ->
  parseoff_fuel (S k) nb (encoff r ++ tail) =
  match parseoff_fuel k nb tail with
  | POk rs => POk (w_expectoff r :: rs)
  | e => e
  end.
Proof.
  intros (Hns & Hpre & Hfr & Hts & Hm & Hdl & Hrs & Hc & Hnb).
  pose proof (zlen_encoff r) as Hz. pose proof (zlen_nonneg (r_coefs r)) as Hnn. pose proof (zlen_nonneg tail) as Htl.
  pose proof (zlen_nonneg (r_data r)) as Hdn.
  destruct (nonempty_of_zlen (encoff r ++ tail)) as (x & t & E).
  { rewrite zlen_app. lia. }
  cbn [parseoff_fuel]. rewrite E. rewrite <- E.
  replace (36 + nb * 4) with (36 + 4 * nb) by lia.
  destruct (zlen (encoff r ++ tail) <? 36 + 4 * nb) eqn:Elt. { rewrite zlen_app in Elt. lia. }
  rewrite zskipn_app_exact by lia.
  destruct (parseoff_fuel k nb tail) as [rs| |]; try reflexivity.
  f_equal. f_equal. unfold w_expectoff.
  unfold encoff, off_record, le32, le64. rewrite <- !app_assoc.
  f_equal.
  - change 4 with (Z.of_nat 4) at 1. apply rd_s_head; [lia | change (8 * Z.of_nat 4 - 1) with 31; lia].
  - change 4 with (Z.of_nat 4) at 2. skip_fields. apply rd_s_head; [lia | exact Hpre].
  - change 8 with (Z.of_nat 8) at 2. skip_fields. apply rd_s_head; [lia | exact Hfr].
  - change 8 with (Z.of_nat 8) at 1. skip_fields. apply rd_s_head; [lia | exact Hts].
  - change 4 with (Z.of_nat 4) at 1. skip_fields. apply rd_u_head; exact Hm.
  - change 4 with (Z.of_nat 4) at 1. skip_fields. apply rd_u_head; exact Hdl.
  - change 4 with (Z.of_nat 4) at 1. skip_fields. apply rd_u_head; exact Hrs.
  - rewrite !app_assoc. rewrite <- (app_assoc _ (enc_u32s (r_coefs r)) tail).
    rewrite zskipn_app_exact by (rewrite !zlen_app, !zlen_le_bytes; lia).
    replace (Z.to_nat nb) with (length (r_coefs r)) by (unfold zlen in Hnb; lia).
    apply rd_words_enc. apply in_u32_pow; assumption.
Qed.

Lemma parseoff_fuel_concat nb rs :
  Forall (recoff_fits nb) rs ->
  forall fuel, (length rs <= fuel)%nat ->
  parseoff_fuel fuel nb (concat (map encoff rs)) = POk (map w_expectoff rs).
Proof.
  intros H. induction H as [|r rs Hr Hrs IH]; intros fuel Hf.
  - cbn. destruct fuel; reflexivity.
  - destruct fuel as [|k]; [cbn in Hf; lia|].
    cbn [map concat]. rewrite parseoff_step by assumption.
    rewrite IH by (cbn in Hf; lia). reflexivity.
Qed.

Lemma off_roundtrip_lemma nb proj basis rs :
  0 <= nb -> matrix_wf proj -> matrix_wf basis -> Forall (recoff_fits nb) rs ->
  parse_off nb (m_rows proj) (m_cols proj) (m_rows basis) (m_cols basis)
            (off_header_tail proj basis ++
             concat (map (fun r => off_record (zlen (r_data r)) (r_pre r) (r_frame r) (r_ns r)
                                              (r_mean r) (r_delta r) (r_resid r) (r_coefs r)) rs))
  = Some (mkoffbody (m_bits proj) (m_bits basis) (map w_expectoff rs)).
Proof.
  intros Hnb (Hpr & Hpc & Hpl & Hpb) (Hbr & Hbc & Hbl & Hbb) H.
  unfold parse_off.
  destruct ((nb <? 0) || (m_rows proj <? 0) || (m_cols proj <? 0) || (m_rows basis <? 0) || (m_cols basis <? 0)) eqn:E; [lia|].
  unfold off_header_tail.
  set (recs := concat _).
  assert (Hlp : zlen (enc_u64s (m_bits proj)) = 8 * (m_rows proj * m_cols proj)) by (rewrite zlen_enc_u64s; lia).
  assert (Hlb : zlen (enc_u64s (m_bits basis)) = 8 * (m_rows basis * m_cols basis)) by (rewrite zlen_enc_u64s; lia).
  destruct (zlen ((enc_u64s (m_bits proj) ++ enc_u64s (m_bits basis)) ++ recs) <? 8 * (m_rows proj * m_cols proj) + 8 * (m_rows basis * m_cols basis)) eqn:Elt.
  { rewrite !zlen_app in Elt. pose proof (zlen_nonneg recs). lia. }
  rewrite zskipn_app_exact by (rewrite zlen_app; lia).
  subst recs. change (fun r : rec => off_record _ _ _ _ _ _ _ _) with encoff.
  rewrite (parseoff_fuel_concat nb rs H).
  2:{ apply (concat_length_ge encoff). intros r.
      pose proof (zlen_encoff r). pose proof (zlen_nonneg (r_coefs r)). unfold zlen in *. lia. }
  f_equal. f_equal.
  - rewrite <- app_assoc. unfold enc_u64s, le64.
    replace (Z.to_nat (m_rows proj * m_cols proj)) with (length (m_bits proj)) by (unfold zlen in Hpl; lia).
    apply rd_words_enc. apply in_u64_pow; assumption.
  - rewrite <- app_assoc. rewrite zskipn_app_exact by lia. unfold enc_u64s, le64.
    replace (Z.to_nat (m_rows basis * m_cols basis)) with (length (m_bits basis)) by (unfold zlen in Hbl; lia).
    apply rd_words_enc. apply in_u64_pow; assumption.
Qed.

(* ================================================================ the parsers never run out of fuel *)

Lemma zskipn_length_le {A} (l : list A) n : 0 < n -> n <= zlen l -> (length (zskipn n l) < length l)%nat.
Proof. intros H1 H2. unfold zskipn, zlen in *. rewrite skipn_length. lia. Qed.

Lemma parse22_fuel_enough L : 0 <= L -> forall fuel body, (length body <= fuel)%nat -> parse22_fuel fuel L body <> PFuel.
Proof.
  intros HL. induction fuel as [|k IH]; intros body Hb.
  - destruct body; [cbn; discriminate | cbn in Hb; lia].
  - destruct body as [|x t]; [cbn; discriminate|].
    cbn [parse22_fuel]. destruct (zlen (x :: t) <? 16 + L * 2) eqn:E; [discriminate|].
    pose proof (zskipn_length_le (x :: t) (16 + L * 2) ltac:(lia) ltac:(lia)) as Hs.
    specialize (IH (zskipn (16 + L * 2) (x :: t)) ltac:(lia)).
    destruct (parse22_fuel k L (zskipn (16 + L * 2) (x :: t))); [discriminate | discriminate | contradiction].
Qed.

Lemma parse3_fuel_enough : forall fuel body, (length body <= fuel)%nat -> parse3_fuel fuel body <> PFuel.
Proof.
  induction fuel as [|k IH]; intros body Hb.
  - destruct body; [cbn; discriminate | cbn in Hb; lia].
  - destruct body as [|x t]; [cbn; discriminate|].
    cbn [parse3_fuel]. destruct (zlen (x :: t) <? 24) eqn:E; [discriminate|].
    destruct (rd_s (x :: t) 0 4 <? 0) eqn:En; [discriminate|].
    set (n := rd_s (x :: t) 0 4) in *.
    destruct (zlen (x :: t) <? 24 + n * 2) eqn:E2; [discriminate|].
    pose proof (zskipn_length_le (x :: t) (24 + n * 2) ltac:(lia) ltac:(lia)) as Hs.
    specialize (IH (zskipn (24 + n * 2) (x :: t)) ltac:(lia)).
    destruct (parse3_fuel k (zskipn (24 + n * 2) (x :: t))); [discriminate | discriminate | contradiction].
Qed.

Lemma parseoff_fuel_enough nb : 0 <= nb -> forall fuel body, (length body <= fuel)%nat -> parseoff_fuel fuel nb body <> PFuel.
Proof.
  intros HL. induction fuel as [|k IH]; intros body Hb.
  - destruct body; [cbn; discriminate | cbn in Hb; lia].
  - destruct body as [|x t]; [cbn; discriminate|].
    cbn [parseoff_fuel]. destruct (zlen (x :: t) <? 36 + nb * 4) eqn:E; [discriminate|].
    pose proof (zskipn_length_le (x :: t) (36 + nb * 4) ltac:(lia) ltac:(lia)) as Hs.
    specialize (IH (zskipn (36 + nb * 4) (x :: t)) ltac:(lia)).
    destruct (parseoff_fuel k nb (zskipn (36 + nb * 4) (x :: t))); [discriminate | discriminate | contradiction].
Qed.

Lemma parsers_never_out_of_fuel_lemma :
  (forall L body, parse_ljh22 L body <> PFuel) /\
  (forall body, parse_ljh3 body <> PFuel) /\
  (forall nb body, 0 <= nb -> parseoff_fuel (length body) nb body <> PFuel).
Proof.
  split; [|split].
  - intros L body. unfold parse_ljh22. destruct (L <? 0) eqn:E; [discriminate|].
    apply parse22_fuel_enough; lia.
  - intros body. apply parse3_fuel_enough; lia.
  - intros nb body H. apply parseoff_fuel_enough; [exact H | lia].
Qed.
