(* C05 — evaluation of generated cases: model vs observed implementation output, and the checker.
   Byte strings and number lists are shipped packed into primitive 63-bit integers (7 bytes each)
   because Coq parses those about ten times faster than lists of Z literals; [UB]/[UW] unpack them. *)
From Coq Require Import Uint63.
From Dastard Require Import Common.ZX Common.CaseLib C05.Types C05.Model C05.Spec.
Open Scope Z_scope.

(* ---------------- unpacking ---------------- *)
Fixpoint bytes_of (n : nat) (v : Z) : list Z :=
  match n with O => [] | S k => (v mod 256) :: bytes_of k (v / 256) end.
Definition bytes7 (x : int) : list Z := bytes_of 7 (Uint63.to_Z x).
(* the first n bytes of the packed string *)
Definition UB (n : Z) (l : list int) : list Z := zfirstn n (flat_map bytes7 l).
Fixpoint group_le (w : nat) (count : nat) (bs : list Z) : list Z :=
  match count with
  | O => []
  | S k => fold_right (fun b acc => b + 256 * acc) 0 (firstn w bs) :: group_le w k (skipn w bs)
  end.
(* n unsigned words of w bytes *)
Definition UW (w : nat) (n : Z) (l : list int) : list Z := group_le w (Z.to_nat n) (UB (n * Z.of_nat w) l).
(* a 64-bit signed value too large for a cheap literal: sign, high and low 32 bits of the magnitude *)
Definition J (neg : bool) (hi lo : int) : Z :=
  let m := Uint63.to_Z hi * 4294967296 + Uint63.to_Z lo in if neg then - m else m.

Definition IZ (x : int) : Z := Uint63.to_Z x.
Arguments IZ x%uint63.
Arguments J neg (hi lo)%uint63.
Arguments UB n%Z l%uint63.
Arguments UW w%nat n%Z l%uint63.

(* record: frame ns pre (ndata, packed u16 data) mean delta resid (ncoefs, packed u32 coefs) *)
Definition R (frame ns pre nd : Z) (d : list int) (mean delta resid nc : Z) (c : list int) : rec :=
  mkrec frame ns pre (UW 2 nd d) mean delta resid (UW 4 nc c).
Definition MX (rows cols : Z) (bits : list int) : matrix := mkmat rows cols (UW 8 (rows * cols) bits).
Definition FF {H} (h : H) (size hlen n : Z) (body : list int) : fobs H := FFile h size hlen (UB n body).
Arguments R (frame ns pre nd)%Z d%uint63 (mean delta resid nc)%Z c%uint63.
Arguments MX (rows cols)%Z bits%uint63.
Arguments FF {H} h (size hlen n)%Z body%uint63.

(* large bodies / matrices (an OFF model of several MiB): lossless run-length form, long runs of zero bytes are
   not spelled out *)
Inductive bpart := PRaw (n : Z) (l : list int) | PZero (n : Z).
Arguments PRaw n%Z l%uint63.
Definition part_bytes (p : bpart) : list Z :=
  match p with PRaw n l => UB n l | PZero n => repeat 0 (Z.to_nat n) end.
Definition FFp {H} (h : H) (size hlen : Z) (parts : list bpart) : fobs H :=
  FFile h size hlen (flat_map part_bytes parts).
(* a matrix whose entries after the first [n] are all +0.0 *)
Definition MXpad (rows cols n : Z) (bits : list int) : matrix :=
  mkmat rows cols (UW 8 n bits ++ repeat 0 (Z.to_nat (rows * cols - n))).
Arguments MXpad (rows cols n)%Z bits%uint63.

(* ---------------- cases ---------------- *)
Inductive case :=
| CW22 (t : hdr22) (tbn tbd : Z) (h : list (wop * wret)) (f : fobs hdr22)
| CW3 (t : hdr3) (tbn tbd : Z) (h : list (wop * wret)) (f : fobs hdr3)
| CWOFF (t : hdroff) (tbn tbd : Z) (proj basis : matrix) (h : list (wop * wret)) (f : fobs hdroff)
| CB (sp : srcp) (cs : list chanp) (h : list (bop * bobs)).

(* ---------------- comparison of observations ---------------- *)
Definition hdr22_eqb (a b : hdr22) : bool :=
  (h22_vmaj a =? h22_vmaj b) && (h22_vmin a =? h22_vmin b)
  && (h22_rows a =? h22_rows b) && (h22_cols a =? h22_cols b) && (h22_row a =? h22_row b) && (h22_col a =? h22_col b)
  && (h22_nchan a =? h22_nchan b) && zlist_eqb (h22_name a) (h22_name b) && (h22_number a =? h22_number b)
  && (h22_index a =? h22_index b) && (h22_sfdiv a =? h22_sfdiv b) && (h22_sfoff a =? h22_sfoff b)
  && (h22_word a =? h22_word b) && (h22_npre a =? h22_npre b) && (h22_nsamp a =? h22_nsamp b)
  && (h22_spp a =? h22_spp b) && (h22_tbm a =? h22_tbm b) && (h22_tbe a =? h22_tbe b)
  && (h22_px a =? h22_px b) && (h22_py a =? h22_py b) && zlist_eqb (h22_pname a) (h22_pname b)
  && zlist_eqb (h22_source a) (h22_source b).
Definition hdr3_eqb (a b : hdr3) : bool :=
  zlist_eqb (h3_fmt a) (h3_fmt b) && zlist_eqb (h3_ver a) (h3_ver b) && (h3_tb a =? h3_tb b)
  && (h3_rows a =? h3_rows b) && (h3_cols a =? h3_cols b) && (h3_sfdiv a =? h3_sfdiv b)
  && (h3_row a =? h3_row b) && (h3_col a =? h3_col b) && (h3_sfoff a =? h3_sfoff b).
Definition hdroff_eqb (a b : hdroff) : bool :=
  zlist_eqb (ho_fmt a) (ho_fmt b) && zlist_eqb (ho_ver a) (ho_ver b)
  && (ho_index a =? ho_index b) && zlist_eqb (ho_name a) (ho_name b) && (ho_number a =? ho_number b)
  && (ho_maxpre a =? ho_maxpre b) && (ho_maxsamp a =? ho_maxsamp b) && (ho_tb a =? ho_tb b)
  && (ho_nbases a =? ho_nbases b)
  && (ho_prows a =? ho_prows b) && (ho_pcols a =? ho_pcols b) && (ho_brows a =? ho_brows b) && (ho_bcols a =? ho_bcols b)
  && zlist_eqb (ho_desc a) (ho_desc b)
  && (ho_rows a =? ho_rows b) && (ho_cols a =? ho_cols b) && (ho_nchan a =? ho_nchan b) && (ho_sfdiv a =? ho_sfdiv b)
  && (ho_col a =? ho_col b) && (ho_row a =? ho_row b) && (ho_sfoff a =? ho_sfoff b)
  && (ho_px a =? ho_px b) && (ho_py a =? ho_py b) && zlist_eqb (ho_pname a) (ho_pname b)
  && zlist_eqb (ho_source a) (ho_source b).

(* header fields and body; the sizes are the harness's own measurements (the model has no header text) *)
Definition fobs_eqb {H} (heq : H -> H -> bool) (a b : fobs H) : bool :=
  match a, b with
  | FAbsent, FAbsent => true
  | FBad, FBad => true
  | FFile h _ _ body, FFile h' _ _ body' => heq h h' && zlist_eqb body body'
  | _, _ => false
  end.
Definition chfiles_eqb (a b : chfiles) : bool :=
  fobs_eqb hdr22_eqb (cf22 a) (cf22 b) && fobs_eqb hdr3_eqb (cf3 a) (cf3 b) && fobs_eqb hdroff_eqb (cfoff a) (cfoff b).
Definition bobs_eqb (a b : bobs) : bool :=
  match a, b with
  | BOk, BOk | BErr, BErr => true
  | BFiles l, BFiles l' => list_eqb chfiles_eqb l l'
  | _, _ => false
  end.
Definition wret_eqb (a b : wret) : bool :=
  match a, b with WOk, WOk | WErr, WErr | WPanic, WPanic => true | _, _ => false end.

Fixpoint first_diff {A} (eqb : A -> A -> bool) (i : Z) (a b : list A) : Z :=
  match a, b with
  | [], [] => -1
  | x :: a', y :: b' => if eqb x y then first_diff eqb (i + 1) a' b' else i
  | _, _ => i
  end.

Definition nil_render {H} (_ : H) : list Z := [].

(* level (i): returns of every call, then the file (index = number of calls when only the file differs) *)
Definition wverdict {H} (heq : H -> H -> bool) (t : H) (step : wstate -> wop -> wstate * wret)
                    (h : list (wop * wret)) (f : fobs H) (check : bool) : Z * Z :=
  let (s, rets) := w_run step w_init (map fst h) in
  let d := first_diff wret_eqb 0 (map snd h) rets in
  let mf := match w_file s with Some bytes => split_file nil_render t bytes | None => FAbsent end in
  let d := if d =? -1 then (if fobs_eqb heq f mf then -1 else zlen h) else d in
  (verdict_code (d =? -1) check, d).

Definition verdict (c : case) : Z * Z :=
  match c with
  | CW22 t tbn tbd h f =>
      wverdict hdr22_eqb t (w22_step nil_render t) h f (C05_w22_check t tbn tbd h f)
  | CW3 t tbn tbd h f =>
      wverdict hdr3_eqb t (w3_step nil_render t) h f (C05_w3_check t tbn tbd h f)
  | CWOFF t tbn tbd pj bs h f =>
      wverdict hdroff_eqb t (woff_step nil_render t pj bs) h f (C05_woff_check t tbn tbd pj bs h f)
  | CB sp cs h =>
      let model := snd (crun nil_render nil_render nil_render true sp cs (binit cs) (map fst h)) in
      let d := first_diff bobs_eqb 0 (map snd h) model in
      (verdict_code (d =? -1) (C05_bench_check sp cs h), d)
  end.

(* ---------------- compact constructors for generated files ---------------- *)
Definition wo (o : wop) (r : wret) : wop * wret := (o, r).
Definition bo (o : bop) (b : bobs) : bop * bobs := (o, b).
