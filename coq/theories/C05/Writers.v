(* C05 — level (i): the three writers driven through their public API pass the writer-level checkers. *)
From Coq Require Import ZifyBool ZifyNat.
From Dastard Require Import Common.ZX C05.Types C05.Model C05.Spec C05.RoundTrip C05.Proofs.
Open Scope Z_scope.

(* ================================================================ a file with known content passes *)

Lemma file22_ok_content (render : hdr22 -> list Z) t tbn tbd h recs :
  hdr22_ok t tbn tbd h = true -> 0 <= h22_nsamp h ->
  Forall (rec22_fits (h22_sfdiv t) (h22_sfoff t) (h22_nsamp h)) recs ->
  file22_ok t tbn tbd (w_expect22 (h22_sfdiv t) (h22_sfoff t)) recs
            (split_file render h (render h ++ concat (map (enc22 (h22_sfdiv t) (h22_sfoff t)) recs))) = true.
Proof.
  intros Hh Hn Hfit. unfold split_file, file22_ok. rewrite Hh.
  rewrite zskipn_app_exact by reflexivity.
  assert (Hlen : zlen (concat (map (enc22 (h22_sfdiv t) (h22_sfoff t)) recs)) = zlen recs * (16 + 2 * h22_nsamp h)).
  { apply zlen_concat_const. intros x Hx. rewrite zlen_enc22.
    rewrite Forall_forall in Hfit. destruct (Hfit x Hx) as (_ & _ & _ & ->). reflexivity. }
  rewrite zlen_app, Hlen.
  destruct (0 <=? zlen (render h)) eqn:E0; [|pose proof (zlen_nonneg (render h)); lia].
  rewrite Z.eqb_refl. cbn [andb].
  change (concat (map (enc22 (h22_sfdiv t) (h22_sfoff t)) recs))
    with (concat (map (fun r => ljh22_record (h22_sfdiv t) (h22_sfoff t) (r_frame r) (r_ns r) (r_data r)) recs)).
  rewrite ljh22_roundtrip_lemma by assumption.
  apply list_eqb_refl. intros x. unfold d22_eqb. now rewrite !Z.eqb_refl, zlist_eqb_refl.
Qed.

Lemma file3_ok_content (render : hdr3 -> list Z) t tbn tbd h recs :
  hdr3_ok t tbn tbd h = true -> Forall rec3_fits recs ->
  file3_ok t tbn tbd w_expect3 recs (split_file render h (render h ++ concat (map enc3 recs))) = true.
Proof.
  intros Hh Hfit. unfold split_file, file3_ok. rewrite Hh.
  rewrite zskipn_app_exact by reflexivity.
  assert (Hlen : zlen (concat (map enc3 recs)) = sum_z (map (fun r => 24 + 2 * zlen (r_data r)) recs)).
  { clear. induction recs as [|r recs IH]; [reflexivity|].
    cbn [map concat sum_z fold_right]. rewrite zlen_app, zlen_enc3.
    fold (sum_z (map (fun r => 24 + 2 * zlen (r_data r)) recs)). now rewrite IH. }
  rewrite zlen_app, Hlen.
  destruct (0 <=? zlen (render h)) eqn:E0; [|pose proof (zlen_nonneg (render h)); lia].
  rewrite Z.eqb_refl. cbn [andb].
  change (concat (map enc3 recs))
    with (concat (map (fun r => ljh3_record (r_pre r) (r_frame r) (r_ns r) (r_data r)) recs)).
  rewrite ljh3_roundtrip_lemma by assumption.
  apply list_eqb_refl. intros x. unfold d3_eqb. now rewrite !Z.eqb_refl, zlist_eqb_refl.
Qed.

Lemma fileoff_ok_content (render : hdroff -> list Z) t tbn tbd h pj bs recs :
  hdroff_ok t tbn tbd h = true ->
  ho_nbases h = m_rows pj -> ho_prows h = m_rows pj -> ho_pcols h = m_cols pj ->
  ho_brows h = m_rows bs -> ho_bcols h = m_cols bs ->
  matrix_wf pj -> matrix_wf bs -> Forall (recoff_fits (m_rows pj)) recs ->
  fileoff_ok t tbn tbd pj bs recs
             (split_file render h ((render h ++ off_header_tail pj bs) ++ concat (map encoff recs))) = true.
Proof.
  intros Hh E1 E2 E3 E4 E5 Hwp Hwb Hfit. unfold split_file, fileoff_ok. rewrite Hh.
  rewrite <- !app_assoc. rewrite zskipn_app_exact by reflexivity.
  rewrite E1, E2, E3, E4, E5.
  assert (Hlen : zlen (concat (map encoff recs)) = zlen recs * (36 + 4 * m_rows pj)).
  { apply zlen_concat_const. intros x Hx. rewrite zlen_encoff.
    rewrite Forall_forall in Hfit. destruct (Hfit x Hx) as (_ & _ & _ & _ & _ & _ & _ & _ & ->). reflexivity. }
  pose proof Hwp as (Hpr & Hpc & Hpl & Hpb). pose proof Hwb as (Hbr & Hbc & Hbl & Hbb).
  assert (Htail : zlen (off_header_tail pj bs) = 8 * (m_rows pj * m_cols pj) + 8 * (m_rows bs * m_cols bs)).
  { unfold off_header_tail. rewrite zlen_app, !zlen_enc_u64s. lia. }
  rewrite !zlen_app, Hlen, Htail.
  destruct (0 <=? zlen (render h)) eqn:E0; [|pose proof (zlen_nonneg (render h)); lia].
  replace (zlen (render h) + (8 * (m_rows pj * m_cols pj) + 8 * (m_rows bs * m_cols bs) + zlen recs * (36 + 4 * m_rows pj)) =?
           zlen (render h) + 8 * (m_rows pj * m_cols pj) + 8 * (m_rows bs * m_cols bs) + zlen recs * (36 + 4 * m_rows pj))
    with true by (symmetry; apply Z.eqb_eq; lia).
  cbn [andb].
  change (concat (map encoff recs))
    with (concat (map (fun r => off_record (zlen (r_data r)) (r_pre r) (r_frame r) (r_ns r)
                                           (r_mean r) (r_delta r) (r_resid r) (r_coefs r)) recs)).
  rewrite off_roundtrip_lemma by (try assumption; lia).
  cbn [ob_proj ob_basis ob_recs]. rewrite !zlist_eqb_refl. cbn [andb].
  apply list_eqb_refl. intros x. unfold doff_eqb. now rewrite !Z.eqb_refl, zlist_eqb_refl.
Qed.

(* ================================================================ API histories *)

Lemma w_run_cons step s o ops :
  w_run step s (o :: ops) =
  (fst (w_run step (fst (step s o)) ops), snd (step s o) :: snd (w_run step (fst (step s o)) ops)).
Proof.
  cbn [w_run]. destruct (step s o) as [s1 r]. cbn [fst snd]. destruct (w_run step s1 ops) as [s2 rs]. reflexivity.
Qed.

(* the state of an open, header-written file *)
Definition wopen (s : wstate) : Prop := w_created s = true /\ w_hdr s = true /\ w_closed s = false.

Section W22.
  Variable render : hdr22 -> list Z.
  Variable h : hdr22.

  (* calls allowed between WriteHeader and Close; a record that has the header's length must fit the layout *)
  Definition mid22_ok (o : wop) : Prop :=
    match o with
    | WRec r => zlen (r_data r) = h22_nsamp h -> rec22_fits (h22_sfdiv h) (h22_sfoff h) (h22_nsamp h) r
    | WFlush | WCreate => True
    | WHeader | WClose => False
    end.

  Lemma w22_mid : forall mid s,
    wopen s -> Forall mid22_ok mid ->
    let r := w_run (w22_step render h) s (mid ++ [WClose]) in
    let hist := combine (mid ++ [WClose]) (snd r) in
    no_panic hist = true /\ w_created (fst r) = true /\
    w_bytes (fst r) = w_bytes s ++ concat (map (enc22 (h22_sfdiv h) (h22_sfoff h)) (w_accepted hist)) /\
    Forall (rec22_fits (h22_sfdiv h) (h22_sfoff h) (h22_nsamp h)) (w_accepted hist).
  Proof.
    induction mid as [|o mid IH]; intros s (Hc & Hh & Hcl) Hok.
    - cbn. unfold w22_step. rewrite Hcl. cbn. rewrite app_nil_r. auto.
    - inversion Hok as [|? ? Ho Hmid]; subst. cbn [app]. rewrite w_run_cons. cbn [fst snd combine].
      destruct o as [| |r| |]; try contradiction.
      + (* CreateFile again: error, nothing changes *)
        assert (Est : w22_step render h s WCreate = (s, WErr))
          by (unfold w22_step; rewrite Hcl; unfold w_create; rewrite Hc; reflexivity).
        rewrite Est. cbn [fst snd].
        specialize (IH s (conj Hc (conj Hh Hcl)) Hmid). cbn zeta in IH. cbn [no_panic forallb snd andb w_accepted]. exact IH.
      + (* WriteRecord *)
        destruct (zlen (r_data r) =? h22_nsamp h) eqn:E.
        * set (s1 := w_count (w_append s (ljh22_record (h22_sfdiv h) (h22_sfoff h) (r_frame r) (r_ns r) (r_data r)))).
          assert (Est : w22_step render h s (WRec r) = (s1, WOk))
            by (unfold w22_step; rewrite Hcl; unfold w22_record; rewrite E, Hc; reflexivity).
          rewrite Est. cbn [fst snd].
          assert (Hs1 : wopen s1) by (subst s1; repeat split; assumption).
          specialize (IH s1 Hs1 Hmid). cbn zeta in IH. destruct IH as (I1 & I2 & I3 & I4).
          cbn [no_panic forallb snd w_accepted] in *. split; [exact I1|]. split; [exact I2|]. split.
          -- rewrite I3. subst s1. cbn [w_count w_append w_bytes map concat]. now rewrite <- app_assoc.
          -- constructor; [apply Ho; lia | exact I4].
        * assert (Est : w22_step render h s (WRec r) = (s, WErr))
            by (unfold w22_step; rewrite Hcl; unfold w22_record; rewrite E; reflexivity).
          rewrite Est. cbn [fst snd].
          specialize (IH s (conj Hc (conj Hh Hcl)) Hmid). cbn zeta in IH. cbn [no_panic forallb snd andb w_accepted]. exact IH.
      + (* Flush *)
        assert (Est : w22_step render h s WFlush = (s, WOk)) by (unfold w22_step; rewrite Hcl; reflexivity).
        rewrite Est. cbn [fst snd].
        specialize (IH s (conj Hc (conj Hh Hcl)) Hmid). cbn zeta in IH. cbn [no_panic forallb snd andb w_accepted]. exact IH.
  Qed.

  Lemma writer22_passes_checker_lemma tbn tbd mid :
    hdr22_ok h tbn tbd h = true -> 0 <= h22_nsamp h -> Forall mid22_ok mid ->
    let ops := WCreate :: WHeader :: mid ++ [WClose] in
    let r := w_run (w22_step render h) w_init ops in
    C05_w22_check h tbn tbd (combine ops (snd r))
                  (match w_file (fst r) with Some b => split_file render h b | None => FAbsent end) = true.
  Proof.
    intros Hh Hn Hmid ops r. subst r ops.
    set (s0 := mkw true true 0 (render h) false).
    assert (E1 : w22_step render h w_init WCreate = (mkw true false 0 [] false, WOk)) by reflexivity.
    assert (E2 : w22_step render h (mkw true false 0 [] false) WHeader = (s0, WOk)) by reflexivity.
    rewrite w_run_cons, E1. cbn [fst snd]. rewrite w_run_cons, E2. cbn [fst snd].
    destruct (w22_mid mid s0 ltac:(repeat split) Hmid) as (I1 & I2 & I3 & I4).
    cbn zeta in *. unfold C05_w22_check. cbn [combine]. unfold no_panic in *. cbn [forallb snd andb w_accepted].
    rewrite I1. cbn [andb]. unfold w_file. rewrite I2, I3. cbn [w_bytes s0].
    apply file22_ok_content; assumption.
  Qed.
End W22.

Section W3.
  Variable render : hdr3 -> list Z.
  Variable h : hdr3.

  Definition mid3_ok (o : wop) : Prop :=
    match o with
    | WRec r => rec3_fits r
    | WFlush | WCreate | WHeader => True
    | WClose => False
    end.

  Lemma w3_mid : forall mid s,
    wopen s -> Forall mid3_ok mid ->
    let r := w_run (w3_step render h) s (mid ++ [WClose]) in
    let hist := combine (mid ++ [WClose]) (snd r) in
    no_panic hist = true /\ w_created (fst r) = true /\
    w_bytes (fst r) = w_bytes s ++ concat (map enc3 (w_accepted hist)) /\
    Forall rec3_fits (w_accepted hist).
  Proof.
    induction mid as [|o mid IH]; intros s (Hc & Hh & Hcl) Hok.
    - cbn. unfold w3_step. rewrite Hcl. cbn. rewrite app_nil_r. auto.
    - inversion Hok as [|? ? Ho Hmid]; subst. cbn [app]. rewrite w_run_cons. cbn [fst snd combine].
      destruct o as [| |r| |]; try contradiction.
      + assert (Est : w3_step render h s WCreate = (s, WErr))
          by (unfold w3_step; rewrite Hcl; unfold w_create; rewrite Hc; reflexivity).
        rewrite Est. cbn [fst snd].
        specialize (IH s (conj Hc (conj Hh Hcl)) Hmid). cbn zeta in IH. cbn [no_panic forallb snd andb w_accepted]. exact IH.
      + (* WriteHeader again: "header already written" *)
        assert (Est : w3_step render h s WHeader = (s, WErr))
          by (unfold w3_step; rewrite Hcl; unfold w3_header; rewrite Hh; reflexivity).
        rewrite Est. cbn [fst snd].
        specialize (IH s (conj Hc (conj Hh Hcl)) Hmid). cbn zeta in IH. cbn [no_panic forallb snd andb w_accepted]. exact IH.
      + set (s1 := w_count (w_append s (ljh3_record (r_pre r) (r_frame r) (r_ns r) (r_data r)))).
        assert (Est : w3_step render h s (WRec r) = (s1, WOk))
          by (unfold w3_step; rewrite Hcl; unfold w3_record; rewrite Hc; reflexivity).
        rewrite Est. cbn [fst snd].
        assert (Hs1 : wopen s1) by (subst s1; repeat split; assumption).
        specialize (IH s1 Hs1 Hmid). cbn zeta in IH. destruct IH as (I1 & I2 & I3 & I4).
        cbn [no_panic forallb snd w_accepted] in *. split; [exact I1|]. split; [exact I2|]. split.
        * rewrite I3. subst s1. cbn [w_count w_append w_bytes map concat]. now rewrite <- app_assoc.
        * constructor; [exact Ho | exact I4].
      + assert (Est : w3_step render h s WFlush = (s, WOk)) by (unfold w3_step; rewrite Hcl; reflexivity).
        rewrite Est. cbn [fst snd].
        specialize (IH s (conj Hc (conj Hh Hcl)) Hmid). cbn zeta in IH. cbn [no_panic forallb snd andb w_accepted]. exact IH.
  Qed.

  Lemma writer3_passes_checker_lemma tbn tbd mid :
    hdr3_ok h tbn tbd h = true -> Forall mid3_ok mid ->
    let ops := WCreate :: WHeader :: mid ++ [WClose] in
    let r := w_run (w3_step render h) w_init ops in
    C05_w3_check h tbn tbd (combine ops (snd r))
                 (match w_file (fst r) with Some b => split_file render h b | None => FAbsent end) = true.
  Proof.
    intros Hh Hmid ops r. subst r ops.
    set (s0 := mkw true true 0 (render h) false).
    assert (E1 : w3_step render h w_init WCreate = (mkw true false 0 [] false, WOk)) by reflexivity.
    assert (E2 : w3_step render h (mkw true false 0 [] false) WHeader = (s0, WOk)) by reflexivity.
    rewrite w_run_cons, E1. cbn [fst snd]. rewrite w_run_cons, E2. cbn [fst snd].
    destruct (w3_mid mid s0 ltac:(repeat split) Hmid) as (I1 & I2 & I3 & I4).
    cbn zeta in *. unfold C05_w3_check. cbn [combine]. unfold no_panic in *. cbn [forallb snd andb w_accepted].
    rewrite I1. cbn [andb]. unfold w_file. rewrite I2, I3. cbn [w_bytes s0].
    apply file3_ok_content; assumption.
  Qed.
End W3.

Section WOFF.
  Variable render : hdroff -> list Z.
  Variable h : hdroff.
  Variables pj bs : matrix.

  Definition midoff_ok (o : wop) : Prop :=
    match o with
    | WRec r => zlen (r_coefs r) = ho_nbases h -> recoff_fits (ho_nbases h) r
    | WFlush | WCreate | WHeader => True
    | WClose => False
    end.

  Lemma woff_mid : forall mid s,
    wopen s -> Forall midoff_ok mid ->
    let r := w_run (woff_step render h pj bs) s (mid ++ [WClose]) in
    let hist := combine (mid ++ [WClose]) (snd r) in
    no_panic hist = true /\ w_created (fst r) = true /\
    w_bytes (fst r) = w_bytes s ++ concat (map encoff (w_accepted hist)) /\
    Forall (recoff_fits (ho_nbases h)) (w_accepted hist).
  Proof.
    induction mid as [|o mid IH]; intros s (Hc & Hh & Hcl) Hok.
    - cbn. unfold woff_step. rewrite Hcl. cbn. rewrite app_nil_r. auto.
    - inversion Hok as [|? ? Ho Hmid]; subst. cbn [app]. rewrite w_run_cons. cbn [fst snd combine].
      destruct o as [| |r| |]; try contradiction.
      + assert (Est : woff_step render h pj bs s WCreate = (s, WErr))
          by (unfold woff_step; rewrite Hcl; unfold w_create; rewrite Hc; reflexivity).
        rewrite Est. cbn [fst snd].
        specialize (IH s (conj Hc (conj Hh Hcl)) Hmid). cbn zeta in IH. cbn [no_panic forallb snd andb w_accepted]. exact IH.
      + assert (Est : woff_step render h pj bs s WHeader = (s, WErr))
          by (unfold woff_step; rewrite Hcl; unfold woff_header; rewrite Hh; reflexivity).
        rewrite Est. cbn [fst snd].
        specialize (IH s (conj Hc (conj Hh Hcl)) Hmid). cbn zeta in IH. cbn [no_panic forallb snd andb w_accepted]. exact IH.
      + destruct (zlen (r_coefs r) =? ho_nbases h) eqn:E.
        * set (s1 := w_count (w_append s (off_record (zlen (r_data r)) (r_pre r) (r_frame r) (r_ns r)
                                                     (r_mean r) (r_delta r) (r_resid r) (r_coefs r)))).
          assert (Est : woff_step render h pj bs s (WRec r) = (s1, WOk))
            by (unfold woff_step; rewrite Hcl; unfold woff_record; rewrite E, Hc; reflexivity).
          rewrite Est. cbn [fst snd].
          assert (Hs1 : wopen s1) by (subst s1; repeat split; assumption).
          specialize (IH s1 Hs1 Hmid). cbn zeta in IH. destruct IH as (I1 & I2 & I3 & I4).
          cbn [no_panic forallb snd w_accepted] in *. split; [exact I1|]. split; [exact I2|]. split.
          -- rewrite I3. subst s1. cbn [w_count w_append w_bytes map concat]. now rewrite <- app_assoc.
          -- constructor; [apply Ho; lia | exact I4].
        * assert (Est : woff_step render h pj bs s (WRec r) = (s, WErr))
            by (unfold woff_step; rewrite Hcl; unfold woff_record; rewrite E; reflexivity).
          rewrite Est. cbn [fst snd].
          specialize (IH s (conj Hc (conj Hh Hcl)) Hmid). cbn zeta in IH. cbn [no_panic forallb snd andb w_accepted]. exact IH.
      + assert (Est : woff_step render h pj bs s WFlush = (s, WOk)) by (unfold woff_step; rewrite Hcl; reflexivity).
        rewrite Est. cbn [fst snd].
        specialize (IH s (conj Hc (conj Hh Hcl)) Hmid). cbn zeta in IH. cbn [no_panic forallb snd andb w_accepted]. exact IH.
  Qed.

  Lemma writeroff_passes_checker_lemma tbn tbd mid :
    hdroff_ok h tbn tbd h = true ->
    ho_nbases h = m_rows pj -> ho_prows h = m_rows pj -> ho_pcols h = m_cols pj ->
    ho_brows h = m_rows bs -> ho_bcols h = m_cols bs ->
    matrix_wf pj -> matrix_wf bs -> Forall midoff_ok mid ->
    let ops := WCreate :: WHeader :: mid ++ [WClose] in
    let r := w_run (woff_step render h pj bs) w_init ops in
    C05_woff_check h tbn tbd pj bs (combine ops (snd r))
                   (match w_file (fst r) with Some b => split_file render h b | None => FAbsent end) = true.
  Proof.
    intros Hh E1 E2 E3 E4 E5 Hwp Hwb Hmid ops r. subst r ops.
    set (s0 := mkw true true 0 (render h ++ off_header_tail pj bs) false).
    assert (Es1 : woff_step render h pj bs w_init WCreate = (mkw true false 0 [] false, WOk)) by reflexivity.
    assert (Es2 : woff_step render h pj bs (mkw true false 0 [] false) WHeader = (s0, WOk)) by reflexivity.
    rewrite w_run_cons, Es1. cbn [fst snd]. rewrite w_run_cons, Es2. cbn [fst snd].
    destruct (woff_mid mid s0 ltac:(repeat split) Hmid) as (I1 & I2 & I3 & I4).
    cbn zeta in *. unfold C05_woff_check. cbn [combine]. unfold no_panic in *. cbn [forallb snd andb w_accepted].
    rewrite I1. cbn [andb]. unfold w_file. rewrite I2, I3. cbn [w_bytes s0].
    apply fileoff_ok_content; try assumption. now rewrite <- E1.
  Qed.
End WOFF.

(* ================================================================ one published LJH 2.2 record, decoded *)
Lemma published_record_fields_lemma :
  forall h s r,
    w_created s = true -> 0 <= h22_nsamp h -> zlen (r_data r) = h22_nsamp h ->
    in_i64 (r_frame r * h22_sfdiv h + h22_sfoff h) -> in_i64 (r_ns r) -> Forall in_u16 (r_data r) ->
    exists bytes,
      w_bytes (fst (w22_record h s (rec22_args r))) = w_bytes s ++ bytes /\
      snd (w22_record h s (rec22_args r)) = WOk /\
      parse_ljh22 (h22_nsamp h) bytes =
      POk [mkd22 (r_frame r * h22_sfdiv h + h22_sfoff h) (Z.quot (r_ns r) 1000) (r_data r)].
Proof.
  intros h s r Hc Hn Hl Hsfc Hns Hd.
  exists (ljh22_record (h22_sfdiv h) (h22_sfoff h) (r_frame r) (Z.quot (r_ns r) 1000) (r_data r)).
  unfold w22_record. change (r_data (rec22_args r)) with (r_data r).
  replace (zlen (r_data r) =? h22_nsamp h) with true by (symmetry; apply Z.eqb_eq; exact Hl).
  rewrite Hc. cbn [negb fst snd w_count w_append w_bytes]. split; [reflexivity|]. split; [reflexivity|].
  pose proof (ljh22_roundtrip_lemma (h22_sfdiv h) (h22_sfoff h) (h22_nsamp h) [rec22_args r] Hn) as H.
  cbn [map concat] in H. rewrite app_nil_r in H. apply H.
  constructor; [|constructor]. repeat split; try assumption; try (apply quot1000_i64; assumption); apply Hsfc.
Qed.
