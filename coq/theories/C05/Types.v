(* C05 — vocabulary shared by the mirror model (Model.v), the observable checker (Spec.v) and the
   generated case files (Run.v).  Definitions only.

   Conventions (DESIGN.md section 3): a byte is a Z in [0,255]; a float is its IEEE bit pattern
   (float32: Z < 2^32, float64: Z < 2^64) -- "layout only"; text is a list of byte codes; times are
   integer nanoseconds.  Text/JSON rendering of the headers is harness glue: the harness splits each
   file into header and body, parses the header's key/value pairs itself and hands over the FIELDS. *)
From Dastard Require Import Common.ZX.
Open Scope Z_scope.

(* One pulse record as handed to PublishData (projection of dastard.DataRecord).
   r_mean/r_delta/r_resid/r_coefs are float32 bit patterns: Go's float32(x) conversion of the
   record's float64 analysis values is an oracle computed by the harness (never modelled). *)
Record rec := mkrec {
  r_frame : Z;            (* trigFrame *)
  r_ns : Z;               (* trigTime.UnixNano() *)
  r_pre : Z;              (* presamples *)
  r_data : list Z;        (* samples, each in [0,65535] *)
  r_mean : Z; r_delta : Z; r_resid : Z;     (* float32 bits of pretrigMean, pretrigDelta, residualStdDev *)
  r_coefs : list Z        (* float32 bits of modelCoefs *)
}.

Record matrix := mkmat { m_rows : Z; m_cols : Z; m_bits : list Z (* row-major float64 bit patterns *) }.

(* ---------------- header fields, as parsed by the harness ---------------- *)

(* LJH 2.2 text header *)
Record hdr22 := mkh22 {
  h22_vmaj : Z; h22_vmin : Z;                   (* Save File Format Version: major.minor *)
  h22_rows : Z; h22_cols : Z; h22_row : Z; h22_col : Z;
  h22_nchan : Z;                                (* Number of channels *)
  h22_name : list Z;                            (* Channel name *)
  h22_number : Z;                               (* Channel *)
  h22_index : Z;                                (* ChannelIndex (in dastard) *)
  h22_sfdiv : Z; h22_sfoff : Z;                 (* Subframe divisions / offset *)
  h22_word : Z;                                 (* Digitized Word Size in Bytes (2 when the key is absent) *)
  h22_npre : Z; h22_nsamp : Z;                  (* Presamples / Total Samples *)
  h22_spp : Z;                                  (* Number of samples per point *)
  h22_tbm : Z; h22_tbe : Z;                     (* Timebase: 7-digit decimal mantissa m (10^6 <= m < 10^7) and exponent e,
                                                   value m * 10^(e-6) *)
  h22_px : Z; h22_py : Z; h22_pname : list Z;   (* Pixel X/Y Position, Pixel Name *)
  h22_source : list Z                           (* Data source *)
}.

(* LJH 3 JSON header *)
Record hdr3 := mkh3 {
  h3_fmt : list Z;                              (* "File Format" *)
  h3_ver : list Z;                              (* "File Format Version" *)
  h3_tb : Z;                                    (* "frameperiod": float64 bits *)
  h3_rows : Z; h3_cols : Z; h3_sfdiv : Z; h3_row : Z; h3_col : Z; h3_sfoff : Z   (* "TDM" *)
}.

(* OFF JSON header *)
Record hdroff := mkhoff {
  ho_fmt : list Z; ho_ver : list Z;             (* FileFormat, FileFormatVersion *)
  ho_index : Z; ho_name : list Z; ho_number : Z;
  ho_maxpre : Z; ho_maxsamp : Z;
  ho_tb : Z;                                    (* FramePeriodSeconds: float64 bits *)
  ho_nbases : Z;
  ho_prows : Z; ho_pcols : Z; ho_brows : Z; ho_bcols : Z;   (* ModelInfo.Projectors / .Basis shapes *)
  ho_desc : list Z;                             (* ModelInfo.Description *)
  ho_rows : Z; ho_cols : Z; ho_nchan : Z; ho_sfdiv : Z; ho_col : Z; ho_row : Z; ho_sfoff : Z;  (* ReadoutInfo *)
  ho_px : Z; ho_py : Z; ho_pname : list Z;      (* PixelInfo *)
  ho_source : list Z                            (* CreationInfo.SourceName *)
}.

(* a file as seen on disk after the writer was closed *)
Inductive fobs (H : Type) :=
| FAbsent                                        (* no such file *)
| FBad                                           (* exists but the header could not be delimited / parsed *)
| FFile (h : H) (size hlen : Z) (body : list Z). (* header fields, os.Stat size, header length, bytes after the header *)
Arguments FAbsent {H}. Arguments FBad {H}. Arguments FFile {H}.

(* ---------------- level (i): the writers of packages ljh and off, public API ---------------- *)

Inductive wop :=
| WCreate                                        (* CreateFile *)
| WHeader                                        (* WriteHeader *)
| WRec (r : rec)                                 (* WriteRecord *)
| WFlush
| WClose.

Inductive wret := WOk | WErr | WPanic.

(* ---------------- level (ii): source + publishers ---------------- *)

(* the channel's true parameters (the source's tables at the time of START) *)
Record chanp := mkchanp {
  cp_index : Z; cp_name : list Z; cp_number : Z;
  cp_rows : Z; cp_cols : Z; cp_row : Z; cp_col : Z;
  cp_sfoff : Z;
  cp_px : Z; cp_py : Z; cp_pname : list Z;
  cp_proj : option (matrix * matrix * list Z)   (* projectors (nbases x nsamp), basis (nsamp x nbases), description *)
}.

Record srcp := mksrcp {
  sp_nchan : Z; sp_source : list Z; sp_sfdiv : Z;
  sp_npre : Z; sp_nsamp : Z;
  sp_tbn : Z; sp_tbd : Z;        (* the true sample period as an exact rational tbn/tbd seconds (= 1 / sample rate) *)
  (* oracles recorded by the harness: what Go computes/prints for 1.0/SampleRate *)
  sp_tb64 : Z;                   (* float64 bits of 1.0/SampleRate *)
  sp_tbm : Z; sp_tbe : Z         (* its rendering by %e *)
}.

Inductive bop :=
| BStart (t22 t3 toff : bool)    (* WriteControl START with these file types *)
| BPub (ch : Z) (rs : list rec)  (* processors[ch].PublishData(rs) *)
| BFlush (ch : Z)                (* processors[ch].DataPublisher.Flush() *)
| BPause | BUnpause
| BStop
| BPulse (nsamp npre : Z).       (* SourceControl.ConfigurePulseLengths{Nsamp, Npre} (the RPC entry point) *)

(* what a successful change of the record lengths does to the source's tables: the new lengths are in force
   and every channel loses its projectors (dsp.ConfigurePulseLengths -> removeProjectorsBasis) *)
Definition with_lens (sp : srcp) (npre nsamp : Z) : srcp :=
  mksrcp (sp_nchan sp) (sp_source sp) (sp_sfdiv sp) npre nsamp (sp_tbn sp) (sp_tbd sp) (sp_tb64 sp) (sp_tbm sp) (sp_tbe sp).
Definition clear_proj (c : chanp) : chanp :=
  mkchanp (cp_index c) (cp_name c) (cp_number c) (cp_rows c) (cp_cols c) (cp_row c) (cp_col c) (cp_sfoff c)
          (cp_px c) (cp_py c) (cp_pname c) None.

Record chfiles := mkcf { cf22 : fobs hdr22; cf3 : fobs hdr3; cfoff : fobs hdroff }.

Inductive bobs :=
| BOk | BErr                     (* the call returned nil / an error *)
| BFiles (l : list chfiles).     (* STOP: the files of the cycle just ended, one entry per channel *)
