(* C20 — property theorems only: each closed by [exact], each followed by Print Assumptions. *)
From Dastard Require Import Common.ZX C06.Model C20.Model C20.Spec C20.Proofs.

(* Over ALL configurations with at least one channel and ALL histories of
   START | STOP | PAUSE | UNPAUSE[ label] | malformed requests | label requests (stamped by the server or
   carrying a caller-supplied time stamp) | publishes |
   blocks (external-trigger counts, dropped frames, first frame):
   - the model never crashes and its observations pass the checker of Spec.v;
   - at every accepted STOP the three files read back are exactly [expected] of the span tracked since the
     last accepted START ([track]: a pure function of requests, reply classes and blocks):
       external-trigger file = header ++ all counts of the span's blocks in order (absent if there were none),
       data-drop file        = header ++ one (first frame, dropped) line per block with drops > 0 (absent if none),
       experiment-state file = header, START, one line per accepted label request (incl. UNPAUSE label)
                               in order, STOP, every line time-stamped (x_fmt = true);
     nothing is open afterwards, and nothing of an earlier span appears ([track] restarts from the empty span);
   - whenever writing is not active the model holds no file at all (closed and forgotten). *)
Theorem side_files_exact_log :
  forall (c : config) (ops : list op20),
    c_proj c <> [] ->
    let obs := snd (run20 (init20 c) ops) in
    let h := combine ops obs in
    length obs = length ops /\
    C20_check h = true /\
    (forall i r ok files closed,
       nth_error h i = Some (Req (WC r), OR ok files closed) ->
       classify (rq_str r) = KStop -> ok = true ->
       files = expected_at_stop (track None (firstn i h)) /\ closed = true) /\
    (active (rs (wc (fst (run20 (init20 c) ops)))) = false -> sf (fst (run20 (init20 c) ops)) = no_files).
Proof. exact side_files_exact_log_full. Qed.
Print Assumptions side_files_exact_log.

(* What acceptance by the observable checker means at a STOP, independent of any model. *)
Theorem checker_sound_at_stop :
  forall h i r ok files closed,
    C20_check h = true ->
    nth_error h i = Some (Req (WC r), OR ok files closed) ->
    classify (rq_str r) = KStop ->
    (ok = true -> files = expected_at_stop (track None (firstn i h)) /\ closed = true) /\
    (ok = false -> files = None).
Proof. exact checker_at_stop. Qed.
Print Assumptions checker_sound_at_stop.

(* A concrete history meeting the hypothesis: two runs with events in each and events outside any run. *)
Example side_files_exact_log_example :
  c_proj cfg20 <> [] /\
  nth 6 (snd (run20 (init20 cfg20) example_hist)) OX =
    OR true (Some {| x_ext := Some [5; 6; 7]; x_drop := Some [(30, 4)];
                     x_state := Some [(0, sSTART); (0, [65]); (0, sSTOP)]; x_fmt := true |}) true /\
  nth 10 (snd (run20 (init20 cfg20) example_hist)) OX =
    OR true (Some {| x_ext := Some [13]; x_drop := None; x_state := Some [(0, sSTART); (0, sSTOP)]; x_fmt := true |}) true.
Proof. exact example20. Qed.

(* The code as it was before the fix (a label containing a line break was accepted and wrote a line without
   time stamp): the history [START; label "a\nb"; STOP] fails the checker. *)
Theorem side_files_exact_log_refuted_pre_fix :
  C20_check (combine witness_label (snd (run20_old (init20 cfg20) witness_label))) = false /\
  nth 1 (snd (run20_old (init20 cfg20) witness_label)) OX = OR true None false.
Proof. exact refuted_before_fix20. Qed.
Print Assumptions side_files_exact_log_refuted_pre_fix.
