(* C20 — evaluation of generated cases: model vs observed implementation output, and the checker. *)
From Dastard Require Import Common.ZX Common.CaseLib C06.Model C20.Model C20.Spec.

Record case := { c_cfg : config; c_hist : list (op20 * obs20) }.

Definition obs20_eqb (a b : obs20) : bool :=
  match a, b with
  | OR k1 f1 c1, OR k2 f2 c2 => Bool.eqb k1 k2 && oeqb files_eqb f1 f2 && Bool.eqb c1 c2
  | OB e1, OB e2 => Bool.eqb e1 e2
  | OT e1, OT e2 => Bool.eqb e1 e2
  | OP, OP => true
  | _, _ => false
  end.

Fixpoint first_diff (i : Z) (a b : list obs20) : Z :=
  match a, b with
  | [], [] => -1
  | x :: a', y :: b' => if obs20_eqb x y then first_diff (i + 1) a' b' else i
  | _, _ => i
  end.

Definition verdict (c : case) : Z * Z :=
  let ops := map fst (c_hist c) in
  let impl := map snd (c_hist c) in
  let model := snd (run20 (init20 (c_cfg c)) ops) in
  let d := first_diff 0 impl model in
  (verdict_code (d =? -1) (C20_check (c_hist c)), d).

(* compact constructors for generated files *)
Definition Fs (e : option (list Z)) (d : option (list (Z * Z))) (s : option (list sline)) (fmt : bool) : option files3 :=
  Some {| x_ext := e; x_drop := d; x_state := s; x_fmt := fmt |}.
Definition NoF : option files3 := None.
Definition Wq (s : list Z) (path : Z) (b22 b3 boff : bool) (ok : bool) (f : option files3) (closed : bool) : op20 * obs20 :=
  (Req (WC {| rq_str := s; rq_path := path; rq22 := b22; rq3 := b3; rqoff := boff |}), OR ok f closed).
Definition Lq (l : list Z) (ok : bool) (f : option files3) (closed : bool) : op20 * obs20 := (Req (LABEL l), OR ok f closed).
Definition Pq (ch n : Z) : op20 * obs20 := (Req (PUB ch n), OP).
Definition Bq (ext : list Z) (drops first : Z) (err : bool) : op20 * obs20 := (BLK ext drops first, OB err).
Definition Tq (off : Z) (l : list Z) (ok : bool) : op20 * obs20 := (TLABEL off l, OT ok).
Definition mk (proj : list bool) (used : list (Z * Z)) (mapn base : Z) (h : list (op20 * obs20)) : case :=
  {| c_cfg := {| c_proj := proj; c_used := used; c_map := mapn; c_base := base |}; c_hist := h |}.
Definition crashed : case := mk [] [] (-1) 0 [(BLK [] 0 0, OX)].
(* a request that was never answered *)
Definition WqX (s : list Z) (path : Z) (b22 b3 boff : bool) : op20 * obs20 :=
  (Req (WC {| rq_str := s; rq_path := path; rq22 := b22; rq3 := b3; rqoff := boff |}), OX).
Definition LqX (l : list Z) : op20 * obs20 := (Req (LABEL l), OX).
