(* C20 — mirror model of the run-log side files (definitions only, no proofs), composed with C06's
   write-control machine (C06.Model: which requests are accepted and when writing is active).
   Go code mirrored:
     writing_state.go  Start (label START), Stop (label STOP, flush + close + reset of the three files),
                       SetExperimentStateLabel / setExperimentStateLabel (lazy creation, append)
     data_source.go    HandleExternalTriggers, HandleDataDrop (lazy creation, gates), ProcessSegments tail
   A file is  None  while it does not exist (handle nil) and  Some entries  once created; the header is
   written at creation and checked by the harness when it parses the file (x_fmt).  Entries are what the
   parser returns: int64 values / (first frame, dropped) pairs / label strings; time stamps are wall-clock
   values and are only checked for format and order by the harness. *)
From Dastard Require Import Common.ZX C06.Model.

(* a line of the experiment-state file: (time-stamp class, label); class 0 = stamped from the wall clock by the
   implementation (checked for format / order / plausibility by the harness), any other value = the offset from
   the start of the case, in ns, of a time stamp SUPPLIED with the request (must appear verbatim) *)
Definition sline : Type := (Z * list Z)%type.
Record sfiles := { f_state : option (list sline); f_ext : option (list Z); f_drop : option (list (Z * Z)) }.
Definition no_files : sfiles := {| f_state := None; f_ext := None; f_drop := None |}.

Record st20 := { wc : st; sf : sfiles }.

Definition init20 (c : config) : st20 := {| wc := init c; sf := no_files |}.

(* setExperimentStateLabel: create the file on first use, then append one line *)
Definition set_state_label (f : sfiles) (l : sline) : sfiles :=
  {| f_state := Some (match f_state f with None => [l] | Some ls => ls ++ [l] end);
     f_ext := f_ext f; f_drop := f_drop f |}.

(* content of the three files as read back after they were closed; x_fmt = headers, line formats and
   time stamps well-formed (a multi-line label makes a line without time stamp) *)
Record files3 := { x_ext : option (list Z); x_drop : option (list (Z * Z)); x_state : option (list sline);
                   x_fmt : bool }.

(* WritingState.Stop: label STOP if the state file exists, close it; flush and close the other two; reset *)
Definition stop_files (f : sfiles) : files3 * sfiles :=
  let stf := match f_state f with None => None | Some ls => Some (ls ++ [(0, sSTOP)]) end in
  ({| x_ext := f_ext f; x_drop := f_drop f; x_state := stf;
      x_fmt := match stf with None => true | Some ls => forallb (fun e => single_line (snd e)) ls end |}, no_files).

(* HandleExternalTriggers: the file name is non-empty exactly while writing is active (set by Start,
   cleared by Stop) *)
Definition handle_ext (act : bool) (f : sfiles) (ext : list Z) : sfiles :=
  let f1 := match f_ext f with
            | None => if (0 <? zlen ext) && act
                      then {| f_state := f_state f; f_ext := Some []; f_drop := f_drop f |} else f
            | Some _ => f
            end in
  match f_ext f1 with
  | Some xs => if 0 <? zlen ext then {| f_state := f_state f1; f_ext := Some (xs ++ ext); f_drop := f_drop f1 |} else f1
  | None => f1
  end.

(* HandleDataDrop *)
Definition handle_drop (act : bool) (f : sfiles) (drops first : Z) : sfiles :=
  if (0 <? drops) && act then
    let ds := match f_drop f with None => [] | Some ds => ds end in
    {| f_state := f_state f; f_ext := f_ext f; f_drop := Some (ds ++ [(first, drops)]) |}
  else f.

(* TLABEL: AnySource.SetExperimentStateLabel called with a caller-supplied time stamp (offset [off] <> 0 from the
   start of the case); this level has no empty-label check *)
Inductive op20 := Req (o : op) | BLK (ext : list Z) (drops first : Z) | TLABEL (off : Z) (l : list Z).

(* request: reply class, the files of the span that this request closed (read only when the pattern was
   non-empty before and writing is inactive after), nothing open any more;  block: error or not *)
Inductive obs20 :=
| OR (ok : bool) (files : option files3) (closed : bool)
| OB (err : bool)
| OT (ok : bool)
| OP
| OX.

Definition step20_gen (fx : bool) (s : st20) (o : op20) : st20 * obs20 :=
  match o with
  | Req (PUB ch n) => let (w', _) := step_gen fx (wc s) (PUB ch n) in ({| wc := w'; sf := sf s |}, OP)
  | Req q =>
      let act0 := active (rs (wc s)) in
      let (w', b) := step_gen fx (wc s) q in
      match b with
      | OReq r =>
          let ok := o_ok r in
          let act1 := active (rs w') in
          let '(closedfiles, f') :=
            match q with
            | WC rq =>
                match classify (rq_str rq) with
                | KStart => if ok then (None, set_state_label (sf s) (0, sSTART)) else (None, sf s)
                | KStop => if ok then let (x, f1) := stop_files (sf s) in (Some x, f1) else (None, sf s)
                | KUnpause => match unpause_arg (rq_str rq) with
                              | ULabel l => if ok then (None, set_state_label (sf s) (0, l)) else (None, sf s)
                              | _ => (None, sf s)
                              end
                | _ => (None, sf s)
                end
            | LABEL l => if ok then (None, set_state_label (sf s) (0, l)) else (None, sf s)
            | PUB _ _ => (None, sf s)
            end in
          ({| wc := w'; sf := f' |},
           OR ok (if act0 && negb act1 then closedfiles else None) (negb act1))
      | _ => ({| wc := w'; sf := sf s |}, OX)
      end
  | BLK ext drops first =>
      let act := active (rs (wc s)) in
      ({| wc := wc s; sf := handle_drop act (handle_ext act (sf s) ext) drops first |}, OB false)
  | TLABEL off l =>
      (* WritingState.SetExperimentStateLabel: refused while not active and (repaired code) for a multi-line label *)
      if active (rs (wc s)) && (negb fx || single_line l)
      then ({| wc := wc s; sf := set_state_label (sf s) (off, l) |}, OT true)
      else (s, OT false)
  end.

Definition step20 := step20_gen true.

Fixpoint run20_gen (fx : bool) (s : st20) (ops : list op20) : st20 * list obs20 :=
  match ops with
  | [] => (s, [])
  | o :: rest => let (s1, b) := step20_gen fx s o in
                 match b with
                 | OX => (s1, [b])
                 | _ => let (s2, bs) := run20_gen fx s1 rest in (s2, b :: bs)
                 end
  end.
Definition run20 := run20_gen true.
Definition run20_old := run20_gen false.
