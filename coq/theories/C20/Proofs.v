(* C20 — invariants and proofs. *)
From Dastard Require Import Common.ZX C06.Model C06.Spec C06.Proofs C20.Model C20.Spec.
From Coq Require Import ZifyBool.

(* the span the checker is tracking is exactly what the model's three open files hold *)
Definition Rel (s : st20) (k : option span) : Prop :=
  match k with
  | None => active (rs (wc s)) = false /\ sf s = no_files
  | Some sp =>
      active (rs (wc s)) = true /\
      f_state (sf s) = Some ((0, sSTART) :: sp_labels sp) /\
      f_ext (sf s) = opt_nonempty (sp_ext sp) /\
      f_drop (sf s) = opt_nonempty (sp_drop sp) /\
      forallb (fun e => single_line (snd e)) (sp_labels sp) = true
  end.

Lemma sline_eqb_eq x y : sline_eqb x y = true <-> x = y.
Proof.
  destruct x as [a l], y as [b m]; unfold sline_eqb; cbn [fst snd].
  rewrite andb_true_iff, Z.eqb_eq, zlist_eqb_eq. split.
  - intros [-> ->]; reflexivity.
  - intro E; inversion E; auto.
Qed.

Lemma files_eqb_refl f : files_eqb f f = true.
Proof.
  unfold files_eqb. destruct f as [e d s b]; cbn.
  assert (A : oeqb zlist_eqb e e = true).
  { destruct e; cbn; auto. now apply zlist_eqb_eq. }
  assert (B : oeqb (list_eqb zz_eqb) d d = true).
  { destruct d; cbn; auto. apply (list_eqb_eq zz_eqb); auto.
    intros [a1 a2] [b1 b2]; unfold zz_eqb; cbn. rewrite andb_true_iff, !Z.eqb_eq. split.
    - intros [-> ->]; reflexivity.
    - intro E; inversion E; auto. }
  assert (C : oeqb (list_eqb sline_eqb) s s = true).
  { destruct s; cbn; auto. apply (list_eqb_eq sline_eqb); auto. apply sline_eqb_eq. }
  rewrite A, B, C. now destruct b.
Qed.

Lemma zlen_cons_pos {A} (x : A) l : (0 <? zlen (x :: l)) = true.
Proof. unfold zlen. cbn [length]. lia. Qed.

Lemma handle_ext_spec f ext xs :
  f_ext f = opt_nonempty xs ->
  handle_ext true f ext = {| f_state := f_state f; f_ext := opt_nonempty (xs ++ ext); f_drop := f_drop f |}.
Proof.
  intro H. unfold handle_ext. destruct xs as [|x xs]; cbn [opt_nonempty app] in *; rewrite H.
  - destruct ext as [|e ext].
    + cbn. rewrite H. destruct f; cbn in *; congruence.
    + rewrite zlen_cons_pos. cbn. reflexivity.
  - rewrite H. destruct ext as [|e ext].
    + cbn. rewrite app_nil_r. destruct f; cbn in *; congruence.
    + rewrite zlen_cons_pos. reflexivity.
Qed.

Lemma handle_ext_idle f ext : f_ext f = None -> handle_ext false f ext = f.
Proof. intro H. unfold handle_ext. rewrite H. rewrite andb_false_r. now rewrite H. Qed.

Lemma handle_drop_spec f drops first ds :
  f_drop f = opt_nonempty ds ->
  handle_drop true f drops first =
    {| f_state := f_state f; f_ext := f_ext f;
       f_drop := opt_nonempty (if 0 <? drops then ds ++ [(first, drops)] else ds) |}.
Proof.
  intro H. unfold handle_drop. rewrite andb_true_r. destruct (0 <? drops).
  - rewrite H. destruct ds as [|d ds]; cbn; auto.
  - destruct f; cbn in *; congruence.
Qed.

Lemma single_line_START : single_line sSTART = true. Proof. reflexivity. Qed.
Lemma single_line_STOP : single_line sSTOP = true. Proof. reflexivity. Qed.

Lemma if_same {A} (b : bool) (x : A) : (if b then x else x) = x.
Proof. now destruct b. Qed.

Lemma Rel_same s s' k :
  active (rs (wc s')) = active (rs (wc s)) -> sf s' = sf s -> Rel s k -> Rel s' k.
Proof. intros H1 H2. destruct k; cbn [Rel]; rewrite H1, H2; auto. Qed.

Lemma step20_check proj s k o :
  Inv proj (wc s) -> proj <> [] -> Rel s k ->
  let (s', b) := step20 s o in
  exists k', check_step k o b = Some k' /\ Inv proj (wc s') /\ Rel s' k'.
Proof.
  intros HI Hne HR. unfold step20, step20_gen.
  destruct o as [[r|l|ch n]|ext drops first|off l].
  - (* write-control request *)
    destruct (wc_effect proj (wc s) r HI Hne) as (w' & q & Hs & HI' & Hcl & Hk).
    unfold step in Hs. rewrite Hs.
    destruct (classify (rq_str r)) eqn:Ek.
    + (* PAUSE *)
      rewrite if_same. unfold check_step; rewrite Ek; cbn [is_none].
      eexists; (split; [reflexivity|]); (split; [exact HI'|]). eapply Rel_same; eauto.
    + (* UNPAUSE *)
      destruct Hk as [Hk Hl].
      destruct (unpause_arg (rq_str r)) eqn:Eu.
      * rewrite if_same. unfold check_step; rewrite Ek, Eu; cbn [is_none negb].
        eexists; (split; [reflexivity|]); (split; [exact HI'|]). eapply Rel_same; eauto.
      * rewrite if_same. unfold check_step; rewrite Ek, Eu; cbn [is_none negb].
        eexists; (split; [reflexivity|]); (split; [exact HI'|]). eapply Rel_same; eauto.
      * destruct (o_ok q) eqn:Eok.
        -- destruct (Hl eq_refl) as [Ha Hsl]. rewrite if_same.
           unfold check_step; rewrite Ek, Eu; cbn [is_none negb].
           destruct k as [sp|]; [|destruct HR; congruence].
           eexists; (split; [reflexivity|]); (split; [exact HI'|]).
           destruct HR as (R1 & R2 & R3 & R4 & R5).
           cbn [Rel wc sf set_state_label f_state f_ext f_drop add_label sp_labels sp_ext sp_drop].
           rewrite Hk, R2. repeat split; auto.
           rewrite forallb_app. apply andb_true_iff; split; [exact R5 | cbn [forallb snd]; now rewrite Hsl].
        -- rewrite if_same. unfold check_step; rewrite Ek, Eu; cbn [is_none negb].
           eexists; (split; [reflexivity|]); (split; [exact HI'|]). eapply Rel_same; eauto.
    + (* STOP *)
      destruct Hk as [Hok Ha']. rewrite Hok, Ha'. cbn [negb]. rewrite andb_true_r.
      unfold stop_files.
      unfold check_step. rewrite Ek.
      destruct k as [sp|].
      * destruct HR as (R1 & R2 & R3 & R4 & R5). rewrite R1.
        assert (E : fst (stop_files (sf s)) = expected sp).
        { unfold stop_files, expected; cbn [fst]. rewrite R2, R3, R4. cbn [app]. f_equal.
          cbn [forallb snd]. rewrite forallb_app.
          apply andb_true_iff; split; [reflexivity | apply andb_true_iff; split; [exact R5 | reflexivity]]. }
        unfold stop_files in E; cbn [fst] in E.
        rewrite E. cbn [oeqb]. rewrite files_eqb_refl. cbn [andb].
        eexists; (split; [reflexivity|]); (split; [exact HI'|]). cbn [Rel wc sf]. auto.
      * destruct HR as [R1 R2]. rewrite R1. cbn [is_none andb].
        eexists; (split; [reflexivity|]); (split; [exact HI'|]). cbn [Rel wc sf]. auto.
    + (* START *)
      destruct (o_ok q) eqn:Eok.
      * destruct Hk as [Ha Ha']. rewrite if_same.
        unfold check_step. rewrite Ek. cbn [is_none negb].
        eexists; (split; [reflexivity|]); (split; [exact HI'|]).
        destruct k as [sp|]; [destruct HR; congruence|]. destruct HR as [_ R2].
        cbn [Rel wc sf]. rewrite R2. cbn. auto.
      * rewrite if_same. unfold check_step; rewrite Ek; cbn [is_none negb].
        eexists; (split; [reflexivity|]); (split; [exact HI'|]). eapply Rel_same; eauto.
    + (* unknown request *)
      rewrite if_same. unfold check_step; rewrite Ek; cbn [is_none].
      eexists; (split; [reflexivity|]); (split; [exact HI'|]). eapply Rel_same; eauto.
  - (* label request *)
    destruct (label_effect proj (wc s) l HI) as (q & Hs & Hcl & Hl). unfold step in Hs. rewrite Hs.
    destruct (o_ok q) eqn:Eok.
    + destruct (Hl eq_refl) as [Ha Hsl]. rewrite if_same.
      unfold check_step. cbn [is_none negb].
      destruct k as [sp|]; [|destruct HR; congruence].
      eexists; (split; [reflexivity|]); (split; [exact HI|]).
      destruct HR as (R1 & R2 & R3 & R4 & R5).
      cbn [Rel wc sf set_state_label f_state f_ext f_drop add_label sp_labels sp_ext sp_drop].
      rewrite R2. repeat split; auto. rewrite forallb_app. apply andb_true_iff; split; [exact R5 | cbn [forallb snd]; now rewrite Hsl].
    + rewrite if_same. unfold check_step; cbn [is_none negb].
      eexists; (split; [reflexivity|]); (split; [exact HI|]). eapply Rel_same; eauto.
  - (* publish *)
    destruct (pub_effect proj (wc s) ch n HI) as [HI' Hrs]. unfold step in *.
    destruct (step_gen true (wc s) (PUB ch n)) as [w' b]. cbn [fst] in *.
    unfold check_step. eexists; (split; [reflexivity|]); (split; [exact HI'|]).
    eapply Rel_same; [| |exact HR]; cbn [wc sf]; [now rewrite Hrs | reflexivity].
  - (* block *)
    unfold check_step. cbn [negb]. eexists; (split; [reflexivity|]); (split; [exact HI|]).
    destruct k as [sp|].
    + destruct HR as (R1 & R2 & R3 & R4 & R5). rewrite R1. cbn [Rel wc sf].
      rewrite (handle_ext_spec _ _ _ R3).
      rewrite (handle_drop_spec _ _ _ (sp_drop sp)) by exact R4.
      cbn [f_state f_ext f_drop add_block sp_ext sp_drop sp_labels]. repeat split; auto.
    + destruct HR as [R1 R2]. rewrite R1. cbn [Rel wc sf]. split; auto.
      rewrite R2. unfold handle_ext, handle_drop; cbn. now rewrite !andb_false_r.
  - (* label with a supplied time stamp *)
    destruct (active (rs (wc s)) && (negb true || single_line l)) eqn:Ea.
    + apply andb_true_iff in Ea as [Ha Hsl]. cbn in Hsl.
      unfold check_step.
      destruct k as [sp|]; [|destruct HR; congruence].
      eexists; (split; [reflexivity|]); (split; [exact HI|]).
      destruct HR as (R1 & R2 & R3 & R4 & R5).
      cbn [Rel wc sf set_state_label f_state f_ext f_drop add_label sp_labels sp_ext sp_drop].
      rewrite R2. repeat split; auto. rewrite forallb_app. apply andb_true_iff; split; [exact R5 | cbn [forallb snd]; now rewrite Hsl].
    + unfold check_step. eexists; (split; [reflexivity|]); (split; [exact HI|]). exact HR.
Qed.

Lemma step20_not_crash proj s k o :
  Inv proj (wc s) -> proj <> [] -> Rel s k -> snd (step20 s o) <> OX.
Proof.
  intros HI Hne HR E. pose proof (step20_check proj s k o HI Hne HR) as H.
  destruct (step20 s o) as [s' b]. cbn in E. subst b. destruct H as (k' & Hc & _).
  destruct o as [[?|?|? ?]|? ? ?|? ?]; discriminate.
Qed.

Lemma run20_check proj : forall ops s k,
  Inv proj (wc s) -> proj <> [] -> Rel s k ->
  check_from k (combine ops (snd (run20 s ops))) = true /\
  length (snd (run20 s ops)) = length ops /\
  exists k', Rel (fst (run20 s ops)) k'.
Proof.
  induction ops as [|o rest IH]; intros s k HI Hne HR; [cbn; eauto|].
  unfold run20 in *. cbn [run20_gen].
  pose proof (step20_check proj s k o HI Hne HR) as H.
  pose proof (step20_not_crash proj s k o HI Hne HR) as Hn.
  unfold step20 in *. destruct (step20_gen true s o) as [s1 b]. cbn [snd] in Hn.
  destruct H as (k' & Hc & HI' & HR').
  specialize (IH s1 k' HI' Hne HR'). destruct (run20_gen true s1 rest) as [s2 bs]. cbn [fst snd] in *.
  destruct IH as (I1 & I2 & I3).
  destruct b; try congruence; cbn [snd fst combine check_from length]; rewrite Hc; auto.
Qed.

(* ---------- headline statements ---------- *)

Lemma model_satisfies_checker20 :
  forall (c : config) (ops : list op20),
    c_proj c <> [] ->
    length (snd (run20 (init20 c) ops)) = length ops /\
    C20_check (combine ops (snd (run20 (init20 c) ops))) = true.
Proof.
  intros c ops Hne. unfold C20_check.
  destruct (run20_check (c_proj c) ops (init20 c) None) as (H1 & H2 & _); auto.
  - apply init_inv.
  - cbn. auto.
Qed.

(* in every reachable state: while writing is not active all three files are closed and forgotten *)
Lemma idle_means_closed :
  forall (c : config) (ops : list op20),
    c_proj c <> [] ->
    let s := fst (run20 (init20 c) ops) in
    active (rs (wc s)) = false -> sf s = no_files.
Proof.
  intros c ops Hne s Ha.
  destruct (run20_check (c_proj c) ops (init20 c) None) as (_ & _ & k' & HR); auto.
  - apply init_inv.
  - cbn. auto.
  - fold s in HR. destruct k' as [sp|]; destruct HR; [congruence | auto].
Qed.

(* what acceptance by the checker says, read off the checker itself: the files handed over at a STOP that
   closes a span are exactly [expected] of the events accumulated since the START that opened it *)
Lemma checker_stop_exact k r ok files closed k' sp :
  check_step k (Req (WC r)) (OR ok files closed) = Some k' ->
  classify (rq_str r) = KStop -> ok = true -> k = Some sp ->
  files = Some (expected sp) /\ closed = true /\ k' = None.
Proof.
  intros H Ek -> ->. unfold check_step in H. rewrite Ek in H.
  destruct (oeqb files_eqb files (Some (expected sp)) && closed) eqn:E; [|discriminate].
  apply andb_true_iff in E as [E1 E2]. inversion H; subst. split; [|auto].
  destruct files as [f|]; [|discriminate]. cbn in E1. f_equal.
  unfold files_eqb in E1. rewrite !andb_true_iff in E1. destruct E1 as [[[A B] C] D].
  destruct f as [e d s b], (expected sp) as [e' d' s' b'] eqn:Ex; cbn in *.
  assert (e = e').
  { destruct e, e'; cbn in A; try discriminate; auto. f_equal. now apply zlist_eqb_eq. }
  assert (d = d').
  { destruct d, d'; cbn in B; try discriminate; auto. f_equal.
    apply (list_eqb_eq zz_eqb) in B; auto.
    intros [a1 a2] [b1 b2]; unfold zz_eqb; cbn. rewrite andb_true_iff, !Z.eqb_eq. split.
    - intros [-> ->]; reflexivity.
    - intro E; inversion E; auto. }
  assert (s = s').
  { destruct s, s'; cbn in C; try discriminate; auto. f_equal.
    apply (list_eqb_eq sline_eqb) in C; auto. apply sline_eqb_eq. }
  apply eqb_prop in D. subst. reflexivity.
Qed.

(* ---------- the tree before the fix (multi-line labels were accepted) ---------- *)

Definition cfg20 : config := {| c_proj := [true; false]; c_used := []; c_map := -1; c_base := 1 |}.
Definition rSTART := Req (WC {| rq_str := sSTART; rq_path := 0; rq22 := true; rq3 := false; rqoff := false |}).
Definition rSTOP := Req (WC {| rq_str := sSTOP; rq_path := 0; rq22 := false; rq3 := false; rqoff := false |}).
Definition witness_label : list op20 := [rSTART; Req (LABEL [97; 10; 98]); rSTOP].

Lemma refuted_before_fix20 :
  C20_check (combine witness_label (snd (run20_old (init20 cfg20) witness_label))) = false /\
  nth 1 (snd (run20_old (init20 cfg20) witness_label)) OX = OR true None false.
Proof. vm_compute. split; reflexivity. Qed.

(* a concrete non-trivial history: two runs, events in both, events outside *)
Definition example_hist : list op20 :=
  [BLK [1; 2] 3 10; Req (LABEL [65]); rSTART; BLK [5; 6; 7] 0 20; Req (LABEL [65]); BLK [] 4 30; rSTOP;
   BLK [12] 2 60; rSTART; BLK [13] 0 70; rSTOP].

Lemma example20 :
  c_proj cfg20 <> [] /\
  nth 6 (snd (run20 (init20 cfg20) example_hist)) OX =
    OR true (Some {| x_ext := Some [5; 6; 7]; x_drop := Some [(30, 4)];
                     x_state := Some [(0, sSTART); (0, [65]); (0, sSTOP)]; x_fmt := true |}) true /\
  nth 10 (snd (run20 (init20 cfg20) example_hist)) OX =
    OR true (Some {| x_ext := Some [13]; x_drop := None; x_state := Some [(0, sSTART); (0, sSTOP)]; x_fmt := true |}) true.
Proof. vm_compute. repeat split; try reflexivity; discriminate. Qed.

(* ---------- the declarative reading: at every accepted STOP of a history the files read back are exactly
   [expected] of the events tracked since the last accepted START ---------- *)

Lemma check_step_track k o b k' : check_step k o b = Some k' -> k' = track_step k o b.
Proof.
  unfold check_step, track_step.
  destruct o as [[r|l|ch n]|ext drops first|off l], b as [ok files closed|err|tok| |]; try discriminate.
  - destruct (classify (rq_str r)).
    + destruct (is_none files); [|discriminate]. now intros [= <-].
    + destruct (negb (is_none files)); [discriminate|].
      destruct (unpause_arg (rq_str r)); try (now intros [= <-]).
      destruct ok; [|now intros [= <-]]. destruct k; [|discriminate]. now intros [= <-].
    + destruct ok.
      * destruct k.
        -- destruct (_ && _); [|discriminate]. now intros [= <-].
        -- destruct (_ && _); [|discriminate]. now intros [= <-].
      * destruct (is_none files); [|discriminate]. now intros [= <-].
    + destruct (negb (is_none files)); [discriminate|]. destruct ok; now intros [= <-].
    + destruct (is_none files); [|discriminate]. now intros [= <-].
  - destruct (negb (is_none files)); [discriminate|].
    destruct ok; [|now intros [= <-]]. destruct k; [|discriminate]. now intros [= <-].
  - now intros [= <-].
  - destruct err; [discriminate|]. destruct k; now intros [= <-].
  - destruct tok; [|now intros [= <-]]. destruct k; [|discriminate]. now intros [= <-].
Qed.

Lemma check_from_split : forall h1 k o b h2,
  check_from k (h1 ++ (o, b) :: h2) = true -> exists k', check_step (track k h1) o b = Some k'.
Proof.
  induction h1 as [|[o1 b1] h1 IH]; intros k o b h2 H; cbn [app check_from track] in *.
  - destruct (check_step k o b); [eauto | discriminate].
  - destruct (check_step k o1 b1) as [k1|] eqn:E; [|discriminate].
    apply check_step_track in E. subst k1. eapply IH; eauto.
Qed.

Lemma nth_error_split_at {A} : forall (l : list A) i x,
  nth_error l i = Some x -> l = firstn i l ++ x :: skipn (S i) l.
Proof.
  induction l as [|h t IH]; intros [|i] x H; cbn in *; try discriminate.
  - now inversion H.
  - f_equal. now apply IH.
Qed.

Lemma checker_at_stop h i r ok files closed :
  C20_check h = true ->
  nth_error h i = Some (Req (WC r), OR ok files closed) ->
  classify (rq_str r) = KStop ->
  (ok = true -> files = expected_at_stop (track None (firstn i h)) /\ closed = true) /\
  (ok = false -> files = None).
Proof.
  intros Hc Hn Ek. unfold C20_check in Hc.
  rewrite (nth_error_split_at h i _ Hn) in Hc. apply check_from_split in Hc as [k' Hs].
  split; intros ->.
  - destruct (track None (firstn i h)) as [sp|] eqn:Et.
    + eapply checker_stop_exact in Hs; eauto. destruct Hs as (A & B & _). cbn. auto.
    + unfold check_step in Hs. rewrite Ek in Hs. destruct (is_none files && closed) eqn:E; [|discriminate].
      apply andb_true_iff in E as [E1 E2]. destruct files; [discriminate|]. cbn. auto.
  - unfold check_step in Hs. rewrite Ek in Hs. destruct files; [discriminate | reflexivity].
Qed.

Lemma side_files_exact_log_full :
  forall (c : config) (ops : list op20),
    c_proj c <> [] ->
    let obs := snd (run20 (init20 c) ops) in
    let h := combine ops obs in
    length obs = length ops /\
    C20_check h = true /\
    (forall i r ok files closed,
       nth_error h i = Some (Req (WC r), OR ok files closed) ->
       classify (rq_str r) = KStop -> ok = true ->
       files = expected_at_stop (track None (firstn i h)) /\ closed = true) /\
    (active (rs (wc (fst (run20 (init20 c) ops)))) = false -> sf (fst (run20 (init20 c) ops)) = no_files).
Proof.
  intros c ops Hne obs h. destruct (model_satisfies_checker20 c ops Hne) as [H1 H2].
  split; [exact H1|]. split; [exact H2|]. split.
  - intros i r ok files closed Hn Ek Hok. eapply checker_at_stop in Hn; eauto. now apply Hn.
  - now apply idle_means_closed.
Qed.
