(* C20 — the property as a checker over OBSERVABLES only: the requests and blocks issued (with their
   external-trigger counts, drop counts and first frames), each request's reply class, and the content of the
   three side files read back after every STOP that closed a run.  Model files are used for vocabulary only
   (op / obs types; classify and unpause_arg = how a request string is read). *)
From Dastard Require Import Common.ZX C06.Model C20.Model.

(* the events of one START...STOP span, in order *)
Record span := { sp_ext : list Z; sp_drop : list (Z * Z); sp_labels : list sline }.
Definition empty_span : span := {| sp_ext := []; sp_drop := []; sp_labels := [] |}.
Definition add_label (l : sline) (s : span) : span :=
  {| sp_ext := sp_ext s; sp_drop := sp_drop s; sp_labels := sp_labels s ++ [l] |}.
Definition add_block (ext : list Z) (drops first : Z) (s : span) : span :=
  {| sp_ext := sp_ext s ++ ext;
     sp_drop := if 0 <? drops then sp_drop s ++ [(first, drops)] else sp_drop s;
     sp_labels := sp_labels s |}.

Definition opt_nonempty {A} (l : list A) : option (list A) := match l with [] => None | _ => Some l end.

(* what the three files of a closed span must contain *)
Definition expected (s : span) : files3 :=
  {| x_ext := opt_nonempty (sp_ext s);          (* header ++ every count of the span's blocks, in order *)
     x_drop := opt_nonempty (sp_drop s);        (* header ++ one line per block with drops > 0; absent if none *)
     x_state := Some ((0, sSTART) :: sp_labels s ++ [(0, sSTOP)]);
     x_fmt := true |}.

Definition oeqb {A} (e : A -> A -> bool) (a b : option A) : bool :=
  match a, b with Some x, Some y => e x y | None, None => true | _, _ => false end.
Definition zz_eqb (a b : Z * Z) : bool := (fst a =? fst b) && (snd a =? snd b).
Definition sline_eqb (a b : sline) : bool := (fst a =? fst b) && zlist_eqb (snd a) (snd b).
Definition files_eqb (a b : files3) : bool :=
  oeqb zlist_eqb (x_ext a) (x_ext b) && oeqb (list_eqb zz_eqb) (x_drop a) (x_drop b) &&
  oeqb (list_eqb sline_eqb) (x_state a) (x_state b) && Bool.eqb (x_fmt a) (x_fmt b).

Definition is_none {A} (o : option A) : bool := match o with None => true | Some _ => false end.

(* checker state: the span being written, if any *)
Definition check_step (k : option span) (o : op20) (b : obs20) : option (option span) :=
  match o, b with
  | Req (WC r), OR ok files closed =>
      match classify (rq_str r) with
      | KStart =>
          if negb (is_none files) then None
          else if ok then Some (Some empty_span)          (* new files, nothing carried over *)
          else Some k
      | KStop =>
          if ok then
            match k with
            | Some s => if oeqb files_eqb files (Some (expected s)) && closed then Some None else None
            | None => if is_none files && closed then Some None else None
            end
          else if is_none files then Some k else None
      | KUnpause =>
          if negb (is_none files) then None
          else match unpause_arg (rq_str r) with
               | ULabel l => if ok then match k with
                                        | Some s => Some (Some (add_label (0, l) s))
                                        | None => None      (* accepted label with no file to receive it *)
                                        end
                             else Some k
               | _ => Some k
               end
      | _ => if is_none files then Some k else None
      end
  | Req (LABEL l), OR ok files closed =>
      if negb (is_none files) then None
      else if ok then match k with
                      | Some s => Some (Some (add_label (0, l) s))
                      | None => None
                      end
      else Some k
  | TLABEL off l, OT ok =>
      (* an accepted label request adds its line, carrying the time stamp it was given *)
      if ok then match k with
                 | Some s => Some (Some (add_label (off, l) s))
                 | None => None
                 end
      else Some k
  | Req (PUB _ _), OP => Some k
  | BLK ext drops first, OB err =>
      if err then None
      else Some (match k with Some s => Some (add_block ext drops first s) | None => None end)
  | _, _ => None
  end.

Fixpoint check_from (k : option span) (h : list (op20 * obs20)) : bool :=
  match h with
  | [] => true
  | (o, b) :: rest =>
      match check_step k o b with
      | Some k' => check_from k' rest
      | None => false
      end
  end.

Definition C20_check (h : list (op20 * obs20)) : bool := check_from None h.

(* ---------- Prop-level vocabulary: which events belong to the span open at a point of a history ---------- *)

(* the span being written after one more step: a pure function of the requests, their reply classes and the
   blocks (it never looks at file contents) *)
Definition track_step (k : option span) (o : op20) (b : obs20) : option span :=
  match o, b with
  | Req (WC r), OR ok _ _ =>
      match classify (rq_str r) with
      | KStart => if ok then Some empty_span else k
      | KStop => if ok then None else k
      | KUnpause => match unpause_arg (rq_str r) with
                    | ULabel l => if ok then option_map (add_label (0, l)) k else k
                    | _ => k
                    end
      | _ => k
      end
  | Req (LABEL l), OR ok _ _ => if ok then option_map (add_label (0, l)) k else k
  | TLABEL off l, OT ok => if ok then option_map (add_label (off, l)) k else k
  | BLK ext drops first, OB _ => option_map (add_block ext drops first) k
  | _, _ => k
  end.

Fixpoint track (k : option span) (h : list (op20 * obs20)) : option span :=
  match h with
  | [] => k
  | (o, b) :: rest => track (track_step k o b) rest
  end.

(* the files a STOP must hand over, given the span that was open *)
Definition expected_at_stop (k : option span) : option files3 :=
  match k with Some s => Some (expected s) | None => None end.
