// C09 harness: connection edits (ChangeGroupTrigger / StopTriggerCoupling / SetCoupling) interleaved with real
// ProcessSegments cycles on a prepared TriangleSource (generic) or a card-less LanceroSource.
package main

import (
	"encoding/json"
	"fmt"
	"os"
	"os/exec"
	"path/filepath"
	"sort"
	"strings"
	"time"

	"github.com/usnistgov/dastard"
	"verifharness/lib"
	"verifharness/pipe"
)

// Trig configures the primary triggers of some channels (only a means to force primaries; which frames
// fire is observed, not predicted).
type Trig struct {
	Chans      []int `json:"chans"`
	Level      bool  `json:"level,omitempty"`
	Edge       bool  `json:"edge,omitempty"`
	Auto       bool  `json:"auto,omitempty"`
	AutoFrames int   `json:"autoframes,omitempty"` // auto-trigger delay in frames
	EMT        bool  `json:"emt,omitempty"`        // edge-multi trigger (exclusive of the others)
	EMTMode    int   `json:"emtmode,omitempty"`    // 0 two full-length, 1 variable length, 2 full-length isolated
	EMTZero    bool  `json:"emtzero,omitempty"`    // kink-model refinement on (needs npre >= 4 and nsamp-npre >= 4)
}

type Op struct {
	Op     string  `json:"op"`               // add del stop couple cycle trig
	Conn   [][]int `json:"conn,omitempty"`   // add/del: each entry is [source, receiver, receiver, ...]
	Status int     `json:"status,omitempty"` // couple: 1 none, 2 fb->err (CoupleFBToErr true), 3 err->fb (CoupleErrToFB true)
	ViaFB  bool    `json:"viafb,omitempty"`  // couple 1: through CoupleFBToErr(false) instead of CoupleErrToFB(false)
	Len    int     `json:"len,omitempty"`    // cycle: samples per channel
	Pulses [][]int `json:"pulses,omitempty"` // cycle: per channel, offsets where a pulse starts
	Width  int     `json:"width,omitempty"`  // cycle: pulse width
	Trig   *Trig   `json:"trig,omitempty"`
}

type Case struct {
	ID      int64  `json:"id"`
	Lancero bool   `json:"lancero,omitempty"`
	Nchan   int    `json:"nchan"` // generic: number of channels; lancero: 2*ncols*nrows
	Ncols   int    `json:"ncols,omitempty"`
	Nrows   int    `json:"nrows,omitempty"`
	Npre    int    `json:"npre"`
	Nsamp   int    `json:"nsamp"`
	F0      int64  `json:"f0"`
	Signed  []bool `json:"signed,omitempty"`
	Trigs   []Trig `json:"trigs,omitempty"` // applied before the first op
	Ops     []Op   `json:"ops"`
	// set by the crash handler only: op index known to kill the process, and the primaries of that cycle
	// (taken from a run of the same data without any connection)
	CrashAt    *int      `json:"crash_at,omitempty"`
	CrashPrims [][]int64 `json:"crash_prims,omitempty"`
	deferBias  bool      // generator only: channel 0 is an edge-multi source, aim pulses at its deferral window
}

const periodNs = 10000 // 100 kHz
const t0Ns = 1700000000000000000

// ---------- the implementation side ----------

type bench interface {
	Source() *dastard.AnySource
	sc() *dastard.SourceControl
	updates() []dastard.VerifMsg
	block(chans [][]uint16, signed []bool, first, timeNs int64) dastard.VerifBlockResult
	restart(tryWhileStopped map[int][]int) (supported bool, refusedWhileStopped bool)
	finish()
}

// generic source: a live SourceControl (real Start, CoreLoop, Stop) around a TriangleSource whose own producer
// is idle; the harness's blocks are processed inside the running CoreLoop
type liveBench struct{ l *dastard.VerifC09Live }

func (g liveBench) Source() *dastard.AnySource   { return g.l.Source() }
func (g liveBench) sc() *dastard.SourceControl   { return g.l.SC }
func (g liveBench) updates() []dastard.VerifMsg  { return g.l.Updates() }
func (g liveBench) block(chans [][]uint16, signed []bool, first, timeNs int64) dastard.VerifBlockResult {
	return g.l.Block(chans, signed, first, timeNs, periodNs)
}
func (g liveBench) start() error {
	name := "TRIANGLESOURCE"
	var reply bool
	return g.l.SC.Start(&name, &reply)
}
func (g liveBench) stop() error {
	dummy := ""
	var reply bool
	return g.l.SC.Stop(&dummy, &reply)
}
func (g liveBench) restart(try map[int][]int) (bool, bool) {
	if err := g.stop(); err != nil {
		panic(err)
	}
	refused := false
	if try != nil {
		// a request while no source runs must be refused and must not reach the next run
		var reply bool
		refused = g.l.SC.AddGroupTriggerCoupling(dastard.GroupTriggerState{Connections: try}, &reply) != nil
	}
	if err := g.start(); err != nil {
		panic(err)
	}
	return true, refused
}
func (g liveBench) finish() {
	g.stop()
	g.l.Close()
}

// Lancero source: card-less LanceroSource prepared by hand, requests executed by a stand-in for the core loop
type lanceroBench struct {
	b *dastard.VerifC09Lancero
	r *dastard.VerifC09RPC
}

func (l lanceroBench) Source() *dastard.AnySource  { return l.b.Source() }
func (l lanceroBench) sc() *dastard.SourceControl  { return l.r.SC }
func (l lanceroBench) updates() []dastard.VerifMsg { return l.r.Updates() }
func (l lanceroBench) block(chans [][]uint16, signed []bool, first, timeNs int64) dastard.VerifBlockResult {
	return l.b.Block(chans, signed, first, timeNs, periodNs)
}
func (l lanceroBench) restart(map[int][]int) (bool, bool) { return false, false }
func (l lanceroBench) finish() {
	l.r.Close()
	l.b.Close()
}

func newBench(c Case) (bench, error) {
	rate := 1e9 / float64(periodNs)
	if c.Lancero {
		b, err := dastard.VerifC09NewLancero(c.Ncols, c.Nrows, c.Npre, c.Nsamp, rate)
		if err != nil {
			return nil, err
		}
		return lanceroBench{b, b.VerifC09RPC()}, nil
	}
	l, err := dastard.VerifC09NewLive(c.Nchan, c.Npre, c.Nsamp, rate)
	if err != nil {
		return nil, err
	}
	g := liveBench{l}
	if err := g.start(); err != nil {
		l.Close()
		return nil, err
	}
	return g, nil
}

func applyTrig(ds *dastard.AnySource, t Trig, nsamp int) {
	ts := dastard.TriggerState{}
	if t.EMT {
		e, err := dastard.VerifEMTTriggerState(1500, 1, t.EMTMode, t.EMTZero)
		if err != nil {
			panic(err)
		}
		ts = e
	}
	if t.Level {
		ts.LevelTrigger, ts.LevelRising, ts.LevelLevel = true, true, 2000
	}
	if t.Edge {
		ts.EdgeTrigger, ts.EdgeRising, ts.EdgeLevel = true, true, 1500
	}
	if t.Auto {
		ts.AutoTrigger = true
		ts.AutoDelay = time.Duration(t.AutoFrames) * periodNs * time.Nanosecond
	}
	var chans []int
	for _, ch := range t.Chans {
		if ch >= 0 && ch < ds.Nchan() {
			chans = append(chans, ch)
		}
	}
	if len(chans) == 0 {
		return
	}
	ds.ChangeTriggerState(&dastard.FullTriggerState{ChannelIndices: chans, TriggerState: ts})
}

// sample of channel c at absolute sample number t (since the first block): a small channel- and
// time-dependent pattern, so that a record cut from the wrong channel or the wrong place is visible
func baseline(c int, t int64) uint16 {
	return uint16(1000 + 37*c + int((t*7+int64(c)*3)%23))
}

func connMap(conn [][]int) (map[int][]int, []int) {
	m := map[int][]int{}
	var keys []int
	for _, e := range conn {
		if len(e) == 0 {
			continue
		}
		if _, ok := m[e[0]]; !ok {
			keys = append(keys, e[0])
			m[e[0]] = []int{}
		}
		m[e[0]] = append(m[e[0]], e[1:]...)
	}
	sort.Ints(keys)
	return m, keys
}

func connTerm(conn [][]int) string {
	m, keys := connMap(conn)
	var items []string
	for _, k := range keys {
		items = append(items, fmt.Sprintf("(%s,%s)", lib.Z(int64(k)), lib.ZListInt(m[k])))
	}
	return lib.List(items)
}

func pairsOf(gts dastard.GroupTriggerState) [][2]int {
	var out [][2]int
	for src, rxs := range gts.Connections {
		for _, rx := range rxs {
			out = append(out, [2]int{src, rx})
		}
	}
	sort.Slice(out, func(i, j int) bool {
		if out[i][0] != out[j][0] {
			return out[i][0] < out[j][0]
		}
		return out[i][1] < out[j][1]
	})
	return out
}

func pairsTerm(ps [][2]int) string {
	var items []string
	for _, p := range ps {
		items = append(items, fmt.Sprintf("(%s,%s)", lib.Z(int64(p[0])), lib.Z(int64(p[1]))))
	}
	return lib.List(items)
}

type stepObs struct {
	Op        string          `json:"op"`
	Reported  [][2]int        `json:"reported,omitempty"`
	Counter   int             `json:"counter,omitempty"`
	Coupling  int             `json:"trigcoupling,omitempty"`
	Refused   bool            `json:"request_refused,omitempty"`
	First     int64           `json:"first,omitempty"`
	Primaries [][]int64       `json:"primaries,omitempty"`
	SecFrames [][]int64       `json:"secondary_frames,omitempty"`
	Err       string          `json:"err,omitempty"`
	Crash     bool            `json:"crash,omitempty"`
	Note      string          `json:"note,omitempty"`
	secs      [][]dastard.VerifRecord
}

func editTerm(o Op) string {
	switch o.Op {
	case "add":
		return "(EAdd " + connTerm(o.Conn) + ")"
	case "del":
		return "(EDel " + connTerm(o.Conn) + ")"
	case "stop":
		return "EStop"
	}
	return "(ECouple " + lib.Z(int64(o.Status)) + ")"
}

func blockData(c Case, o Op, tAbs int64) [][]uint16 {
	chans := make([][]uint16, c.Nchan)
	w := o.Width
	if w < 1 {
		w = 4
	}
	for ch := 0; ch < c.Nchan; ch++ {
		d := make([]uint16, o.Len)
		for i := range d {
			d[i] = baseline(ch, tAbs+int64(i))
		}
		if ch < len(o.Pulses) {
			for _, p := range o.Pulses[ch] {
				for i := p; i < p+w && i < o.Len; i++ {
					if i >= 0 {
						d[i] += 2000
					}
				}
			}
		}
		chans[ch] = d
	}
	return chans
}

func chansTerm(chans [][]uint16, signed []bool) string {
	var items []string
	for ch, d := range chans {
		items = append(items, fmt.Sprintf("(%s,%s)", lib.ZListU16(d), lib.B(signed[ch])))
	}
	return lib.List(items)
}

func primsTerm(p [][]int64, n int) string {
	var items []string
	for ch := 0; ch < n; ch++ {
		var l []int64
		if ch < len(p) {
			l = p[ch]
		}
		items = append(items, lib.ZList64(l))
	}
	return lib.List(items)
}

func signedOf(c Case) []bool {
	s := make([]bool, c.Nchan)
	for i := range s {
		if i < len(c.Signed) {
			s[i] = c.Signed[i]
		}
	}
	return s
}

func runCase(c Case) lib.Result {
	res := lib.Result{ID: c.ID, Hash: lib.Hash(struct {
		L          bool
		N, C, R    int
		Npre, Nsmp int
		F0         int64
		S          []bool
		T          []Trig
		O          []Op
	}{c.Lancero, c.Nchan, c.Ncols, c.Nrows, c.Npre, c.Nsamp, c.F0, c.Signed, c.Trigs, c.Ops})}
	if c.Lancero {
		c.Nchan = 2 * c.Ncols * c.Nrows
	}
	tags := map[string]bool{}
	if c.Lancero {
		tags["lancero"] = true
	} else {
		tags["generic"] = true
	}
	b, err := newBench(c)
	if err != nil {
		panic(err)
	}
	defer b.finish()
	ds := b.Source()
	for ch := 0; ch < c.Nchan; ch++ {
		if ds.VerifProcessors()[ch].VerifDecimating() {
			panic("decimation is on")
		}
	}
	emt := make([]bool, c.Nchan)
	configure := func() {
		for ch := range emt {
			emt[ch] = false
		}
		for _, t := range c.Trigs {
			applyTrig(ds, t, c.Nsamp)
			for _, ch := range t.Chans {
				if ch >= 0 && ch < c.Nchan {
					emt[ch] = t.EMT
				}
			}
		}
	}
	configure()
	signed := signedOf(c)
	var terms []string
	var impl []stepObs
	// the RPC layer: requests go through SourceControl's entry points, "reported" is what a client was last sent
	view := [][2]int{}
	coup := 0
	sawGroupMsg := false
	absorb := func() {
		for _, m := range b.updates() {
			switch m.Tag {
			case "GROUPTRIGGER":
				var g dastard.GroupTriggerState
				if err := json.Unmarshal([]byte(m.JSON), &g); err != nil {
					panic(err)
				}
				view = pairsOf(g)
				sawGroupMsg = true
			case "TRIGCOUPLING":
				if err := json.Unmarshal([]byte(m.JSON), &coup); err != nil {
					panic(err)
				}
			}
		}
	}
	absorb() // the broadcast of the fresh state, as Start does
	initView := view
	if !sawGroupMsg {
		tags["no-initial-grouptrigger-message"] = true
	}
	tAbs := int64(0) // samples delivered so far
	nontrivial := false
	// harness-side bookkeeping of the intended set, for tags only
	intended := map[[2]int]bool{}
	inRange := func(x int) bool { return x >= 0 && x < c.Nchan }
loop:
	for k, o := range c.Ops {
		if c.CrashAt != nil && k == *c.CrashAt {
			tags["crash"] = true
			if o.Op == "cycle" {
				chans := blockData(c, o, tAbs)
				first := c.F0 + tAbs
				terms = append(terms, fmt.Sprintf("CyX %s %s %d %s %s", lib.Z(first), lib.Z(t0Ns+tAbs*periodNs), periodNs,
					chansTerm(chans, signed), primsTerm(c.CrashPrims, c.Nchan)))
				impl = append(impl, stepObs{Op: "cycle", First: first, Primaries: c.CrashPrims, Crash: true})
			} else if o.Op == "restart" {
				terms = append(terms, "RsX")
				impl = append(impl, stepObs{Op: o.Op, Crash: true})
			} else {
				terms = append(terms, "EdX "+editTerm(o))
				impl = append(impl, stepObs{Op: o.Op, Crash: true})
			}
			break
		}
		refused := false
		switch o.Op {
		case "trig":
			if o.Trig != nil {
				applyTrig(ds, *o.Trig, c.Nsamp)
				tags["trigger-change-midway"] = true
				if o.Trig.EMT {
					for _, ch := range o.Trig.Chans {
						if ch >= 0 && ch < c.Nchan {
							emt[ch] = true
						}
					}
				} else {
					for _, ch := range o.Trig.Chans {
						if ch >= 0 && ch < c.Nchan {
							emt[ch] = false
						}
					}
				}
			}
			continue // not part of the modelled history: it only influences which primaries fire
		case "add", "del":
			m, _ := connMap(o.Conn)
			nvalid := 0
			for s, rxs := range m {
				seen := map[int]bool{}
				for _, r := range rxs {
					if s != r && inRange(s) && inRange(r) {
						nvalid++
					}
					switch {
					case s == r:
						tags["self-pair"] = true
					case s < 0 || r < 0:
						tags["negative-index"] = true
					case !inRange(s) || !inRange(r):
						tags["out-of-range-index"] = true
					}
					if seen[r] {
						tags["repeated-receiver-in-request"] = true
					}
					seen[r] = true
					p := [2]int{s, r}
					if o.Op == "add" {
						if intended[p] {
							tags["add-existing"] = true
						}
						if s != r && inRange(s) && inRange(r) {
							intended[p] = true
						}
					} else {
						if !intended[p] {
							tags["delete-absent"] = true
						} else {
							tags["delete-existing"] = true
						}
						delete(intended, p)
					}
				}
			}
			var reply bool
			var err error
			if o.Op == "add" {
				err = b.sc().AddGroupTriggerCoupling(dastard.GroupTriggerState{Connections: m}, &reply)
			} else {
				err = b.sc().DeleteGroupTriggerCoupling(&dastard.GroupTriggerState{Connections: m}, &reply)
			}
			refused = err != nil
			if refused {
				tags["request-answered-with-error"] = true
				if nvalid > 0 {
					tags["refused-request-with-valid-connections"] = true
				}
			}
		case "restart":
			m, _ := connMap(o.Conn)
			if len(o.Conn) == 0 {
				m = nil
			}
			ok, refusedIdle := b.restart(m)
			if !ok {
				continue // only the live (generic) source can be stopped and started
			}
			tags["restart"] = true
			if len(intended) > 0 {
				tags["restart-with-connections"] = true
			}
			if m != nil {
				if refusedIdle {
					tags["request-while-stopped-refused"] = true
				} else {
					tags["request-while-stopped-ACCEPTED"] = true
				}
			}
			intended = map[[2]int]bool{}
			configure() // the new run has new processors with default trigger settings
		case "stop":
			var dummy, reply bool
			refused = b.sc().StopTriggerCoupling(&dummy, &reply) != nil
			if len(intended) > 0 {
				tags["stop-with-connections"] = true
			}
			intended = map[[2]int]bool{}
		case "couple":
			var reply bool
			on, off := true, false
			switch o.Status {
			case 3:
				refused = b.sc().CoupleErrToFB(&on, &reply) != nil
			case 2:
				refused = b.sc().CoupleFBToErr(&on, &reply) != nil
			default:
				o.Status = 1
				if o.ViaFB {
					refused = b.sc().CoupleFBToErr(&off, &reply) != nil
				} else {
					refused = b.sc().CoupleErrToFB(&off, &reply) != nil
				}
			}
			if c.Lancero {
				tags[fmt.Sprintf("couple-lancero-%d", o.Status)] = true
				for i := 0; i+1 < c.Nchan; i += 2 {
					delete(intended, [2]int{i, i + 1})
					delete(intended, [2]int{i + 1, i})
					if o.Status == 3 {
						intended[[2]int{i, i + 1}] = true
					}
					if o.Status == 2 {
						intended[[2]int{i + 1, i}] = true
					}
				}
			} else {
				tags["couple-generic-refused"] = true
			}
		case "cycle":
			if o.Len < 1 {
				continue
			}
			chans := blockData(c, o, tAbs)
			first := c.F0 + tAbs
			timeNs := t0Ns + tAbs*periodNs
			r := b.block(chans, signed, first, timeNs)
			tAbs += int64(o.Len)
			ob := stepObs{Op: "cycle", First: first, Primaries: r.Primaries, Err: r.Err}
			ok := true
			secs := make([][]dastard.VerifRecord, c.Nchan)
			for ch := 0; ch < c.Nchan; ch++ {
				np := len(r.Primaries[ch])
				if len(r.Records[ch]) < np {
					ok = false
					break
				}
				for i := 0; i < np; i++ {
					if r.Records[ch][i].Frame != r.Primaries[ch][i] {
						ok = false
					}
				}
				secs[ch] = r.Records[ch][np:]
			}
			if !ok {
				// the published records do not start with the primaries: nothing sensible can be split off
				tags["records-do-not-start-with-primaries"] = true
				ob.Note = "published records do not start with the primary records"
				ob.Crash = true
				impl = append(impl, ob)
				terms = append(terms, fmt.Sprintf("CyX %s %s %d %s %s", lib.Z(first), lib.Z(timeNs), periodNs,
					chansTerm(chans, signed), primsTerm(r.Primaries, c.Nchan)))
				break loop
			}
			ob.secs = secs
			var recItems []string
			nprim := 0
			for ch := 0; ch < c.Nchan; ch++ {
				nprim += len(r.Primaries[ch])
				var fr []int64
				var items []string
				for _, rec := range secs[ch] {
					fr = append(fr, rec.Frame)
					items = append(items, pipe.RecTerm(rec.Frame, rec.TimeNs, rec.Pre, rec.Data, rec.Signed))
					if rec.Frame < first {
						tags["secondary-in-retained-history"] = true
					}
					if rec.Frame-int64(c.Npre) < first && rec.Frame+int64(c.Nsamp-c.Npre) > first {
						tags["secondary-straddles-block-boundary"] = true
					}
				}
				ob.SecFrames = append(ob.SecFrames, fr)
				recItems = append(recItems, lib.List(items))
				// tags / non-triviality from the intended set
				fired := 0
				var union []int64
				for p := range intended {
					if p[1] == ch && len(r.Primaries[p[0]]) > 0 && emt[p[0]] {
						tags["secondary-from-edge-multi-source"] = true
						if !emt[ch] {
							tags["edge-multi-source-other-receiver"] = true
						}
						for _, f := range r.Primaries[p[0]] {
							if f+int64(c.Nsamp-c.Npre) <= first {
								tags["secondary-from-deferred-edge-multi-primary"] = true
							}
						}
					}
					if p[1] == ch && len(r.Primaries[p[0]]) > 0 {
						fired++
						union = append(union, r.Primaries[p[0]]...)
					}
				}
				if fired >= 2 {
					nontrivial = true
					tags["receiver-with-2+-firing-sources"] = true
					sort.Slice(union, func(i, j int) bool { return union[i] < union[j] })
					for i := 1; i < len(union); i++ {
						if union[i] == union[i-1] {
							tags["same-frame-from-two-sources"] = true
						}
					}
				}
				if len(secs[ch]) > 0 && len(r.Primaries[ch]) > 0 {
					tags["receiver-also-fired"] = true
				}
			}
			if nprim == 0 && len(intended) > 0 {
				tags["cycle-no-primaries-with-connections"] = true
			}
			if nprim > 0 && len(intended) == 0 {
				tags["cycle-primaries-without-connections"] = true
			}
			if nprim > 0 && len(intended) > 0 {
				tags["cycle-primaries-and-connections"] = true
			}
			impl = append(impl, ob)
			terms = append(terms, fmt.Sprintf("Cy %s %s %d %s %s %s", lib.Z(first), lib.Z(timeNs), periodNs,
				chansTerm(chans, signed), primsTerm(r.Primaries, c.Nchan), lib.List(recItems)))
			continue
		default:
			continue
		}
		// after every request: what a client has been told last, and the broker's counter
		absorb()
		rep := view
		cnt := ds.VerifBrokerCount()
		impl = append(impl, stepObs{Op: o.Op, Reported: rep, Counter: cnt, Coupling: coup, Refused: refused})
		var ctor string
		switch o.Op {
		case "add":
			ctor = "Ad " + connTerm(o.Conn)
		case "del":
			ctor = "De " + connTerm(o.Conn)
		case "stop":
			ctor = "St"
		case "couple":
			ctor = "Co " + lib.Z(int64(o.Status))
		case "restart":
			ctor = "Rs"
		}
		terms = append(terms, fmt.Sprintf("%s %s %s %s", ctor, pairsTerm(rep), lib.Z(int64(cnt)), lib.Z(int64(coup))))
	}
	res.Term = fmt.Sprintf("mk %s %d %d %d %s %s", lib.B(c.Lancero), c.Nchan, c.Npre, c.Nsamp, pairsTerm(initView), lib.List(terms))
	res.Impl = impl
	res.NonTrivial = nontrivial
	for t := range tags {
		res.Tags = append(res.Tags, t)
	}
	sort.Strings(res.Tags)
	return res
}

// ---------- crash handling ----------

// runs cases in a child process; returns the results, or ok=false when the child died
func runInChild(c Case) (lib.Result, bool) {
	dir := os.TempDir()
	in := filepath.Join(dir, fmt.Sprintf("c09_crash_%d_%d.jsonl", os.Getpid(), c.ID))
	out := in + ".out"
	defer os.Remove(in)
	defer os.Remove(out)
	if err := lib.WriteJSONLines(in, []interface{}{c}); err != nil {
		return lib.Result{}, false
	}
	cmd := exec.Command(os.Args[0], "runchunk", "-in", in, "-out", out)
	if err := cmd.Run(); err != nil {
		return lib.Result{}, false
	}
	raws, err := lib.ReadCases(out)
	if err != nil || len(raws) != 1 {
		return lib.Result{}, false
	}
	var r lib.Result
	if err := json.Unmarshal(raws[0], &r); err != nil {
		return lib.Result{}, false
	}
	return r, true
}

func crash(raw json.RawMessage, stderr string) (lib.Result, error) {
	var c Case
	if err := json.Unmarshal(raw, &c); err != nil {
		return lib.Result{}, err
	}
	// smallest prefix that kills the process
	lo, hi := 1, len(c.Ops) // invariant: prefix hi dies, prefix lo-1 survives
	for lo < hi {
		mid := (lo + hi) / 2
		p := c
		p.Ops = c.Ops[:mid]
		if _, ok := runInChild(p); ok {
			lo = mid + 1
		} else {
			hi = mid
		}
	}
	k := lo - 1 // index of the op that kills
	// the primaries of that cycle: same data and trigger settings, no connection requests
	var prims [][]int64
	if k >= 0 && k < len(c.Ops) && c.Ops[k].Op == "cycle" {
		sh := c
		sh.Ops = nil
		for _, o := range c.Ops[:k+1] {
			if o.Op == "cycle" || o.Op == "trig" || o.Op == "restart" {
				sh.Ops = append(sh.Ops, o)
			}
		}
		if r, ok := runInChild(sh); ok {
			b, _ := json.Marshal(r.Impl)
			var steps []stepObs
			if json.Unmarshal(b, &steps) == nil && len(steps) > 0 {
				prims = steps[len(steps)-1].Primaries
			}
		}
	}
	c.CrashAt = &k
	c.CrashPrims = prims
	res := runCase(c)
	line := ""
	for _, l := range strings.Split(stderr, "\n") {
		if strings.HasPrefix(l, "panic:") {
			line = l
			break
		}
	}
	if steps, ok := res.Impl.([]stepObs); ok && len(steps) > 0 {
		steps[len(steps)-1].Note = line
		res.Impl = steps
	}
	return res, nil
}

// ---------- generators ----------

func corpus() []Case {
	lvl := func(ch ...int) Trig { return Trig{Chans: ch, Level: true} }
	cy := func(n int, pulses ...[]int) Op { return Op{Op: "cycle", Len: n, Pulses: pulses, Width: 4} }
	return []Case{
		// out-of-range source: before the fix it was stored, reported, and the next cycle with a primary died
		{Nchan: 3, Npre: 4, Nsamp: 10, F0: 0, Trigs: []Trig{lvl(0, 1, 2)},
			Ops: []Op{{Op: "add", Conn: [][]int{{7, 1}}}, cy(40, []int{20}, nil, nil), cy(40, nil, nil, nil)}},
		{Nchan: 3, Npre: 4, Nsamp: 10, F0: 100, Trigs: []Trig{lvl(0, 1, 2)},
			Ops: []Op{{Op: "add", Conn: [][]int{{-1, 2}}}, cy(40, []int{20}, nil, nil)}},
		{Nchan: 3, Npre: 4, Nsamp: 10, F0: 100, Trigs: []Trig{lvl(0, 1, 2)},
			Ops: []Op{{Op: "add", Conn: [][]int{{0, 3, -1, 0, 1}, {3, 0}}}, {Op: "del", Conn: [][]int{{3, 0}, {0, 7}}}, cy(40, []int{20}, nil, nil)}},
		// receiver never configured, source configured: before the fix they retained 10 resp. 2*nsamp+10 samples,
		// and a source primary found in the retained history (pulse in the last nsamp-npre samples of the
		// previous block) asked the receiver for samples it no longer had
		{Nchan: 2, Npre: 12, Nsamp: 20, F0: 1000, Trigs: []Trig{lvl(0)},
			Ops: []Op{{Op: "add", Conn: [][]int{{0, 1}}}, cy(60, []int{30, 56}, nil), cy(60, []int{2}, nil), cy(30, nil, nil)}},
		// two sources firing at the same frames into one receiver, which fires too
		{Nchan: 3, Npre: 3, Nsamp: 8, F0: 5000, Trigs: []Trig{lvl(0, 1, 2)},
			Ops: []Op{{Op: "add", Conn: [][]int{{0, 2}, {1, 2}}}, cy(50, []int{10, 30}, []int{10, 31}, []int{10}),
				{Op: "add", Conn: [][]int{{0, 2}}}, cy(50, []int{47}, []int{47}, nil), cy(20, nil, nil, nil),
				{Op: "del", Conn: [][]int{{0, 2}}}, cy(50, []int{10}, []int{11}, nil),
				{Op: "del", Conn: [][]int{{0, 2}}}, {Op: "del", Conn: [][]int{{1, 2}}}, cy(50, []int{10}, []int{11}, nil)}},
		// stop with connections; primaries afterwards produce nothing; re-adding works again
		{Nchan: 4, Npre: 3, Nsamp: 7, F0: 0, Trigs: []Trig{lvl(0, 1), {Chans: []int{3}, Edge: true}},
			Ops: []Op{{Op: "add", Conn: [][]int{{0, 1, 2, 3}, {3, 0}}}, cy(30, []int{12}, nil, nil, []int{20}), {Op: "stop"},
				cy(30, []int{12}, nil, nil, []int{20}), {Op: "couple", Status: 3}, {Op: "add", Conn: [][]int{{3, 2}}}, cy(30, []int{12}, nil, nil, []int{20})}},
		// Lancero err/fb coupling
		{Lancero: true, Ncols: 1, Nrows: 2, Npre: 3, Nsamp: 8, F0: 77, Trigs: []Trig{lvl(0, 1, 2, 3)},
			Ops: []Op{{Op: "couple", Status: 3}, cy(40, []int{10}, []int{20}, nil, []int{30}), {Op: "couple", Status: 2},
				cy(40, []int{10}, []int{20}, nil, []int{30}), {Op: "add", Conn: [][]int{{0, 1, 3}}}, {Op: "couple", Status: 1},
				cy(40, []int{10}, []int{20}, nil, []int{30}), {Op: "couple", Status: 3}, {Op: "stop"}, cy(40, []int{10}, []int{20}, nil, []int{30})}},
		// one request mixing valid and out-of-range indices: the valid part takes effect, the request is answered with
		// an error, and clients must still be told the new state (add and delete)
		{Nchan: 4, Npre: 3, Nsamp: 8, F0: 300, Trigs: []Trig{lvl(0, 1, 2, 3)},
			Ops: []Op{{Op: "add", Conn: [][]int{{0, 1, 7}}}, cy(40, []int{10}, nil, nil, nil),
				{Op: "add", Conn: [][]int{{2, 3}}}, {Op: "del", Conn: [][]int{{0, 1, -1}, {2, 9}}}, cy(40, []int{10}, nil, []int{20}, nil),
				{Op: "add", Conn: [][]int{{9, 1}, {1, 0}}}, cy(40, []int{10}, []int{25}, nil, nil)}},
		// coupling changes delete pairs that group-trigger requests added; clients must see that
		{Lancero: true, Ncols: 1, Nrows: 2, Npre: 3, Nsamp: 8, F0: 0, Trigs: []Trig{lvl(0, 1, 2, 3)},
			Ops: []Op{{Op: "add", Conn: [][]int{{1, 0, 5}, {0, 1}, {0, 2}}}, cy(40, []int{10}, []int{20}, nil, nil),
				{Op: "couple", Status: 1, ViaFB: true}, cy(40, []int{10}, []int{20}, nil, nil),
				{Op: "couple", Status: 2}, cy(40, []int{10}, []int{20}, nil, []int{30})}},
		// the same coupling requested again after other requests edited the err/fb pairs
		{Lancero: true, Ncols: 1, Nrows: 1, Npre: 3, Nsamp: 8, F0: 0, Trigs: []Trig{lvl(0, 1)},
			Ops: []Op{{Op: "couple", Status: 2}, {Op: "del", Conn: [][]int{{1, 0}}}, {Op: "couple", Status: 2}, cy(40, nil, []int{20}),
				{Op: "couple", Status: 3}, {Op: "stop"}, {Op: "couple", Status: 3}, cy(40, []int{10}, nil),
				{Op: "couple", Status: 1}, {Op: "add", Conn: [][]int{{0, 1}}}, {Op: "couple", Status: 1, ViaFB: true}, cy(40, []int{10}, nil)}},
		// edge-multi sources feeding receivers with other (or no) trigger settings; pulses where edge-multi defers the
		// record to the next block: the receiver must still hold those samples
		{Nchan: 3, Npre: 8, Nsamp: 20, F0: 2000, Trigs: []Trig{{Chans: []int{0}, EMT: true, EMTMode: 0}, lvl(2)},
			Ops: []Op{{Op: "add", Conn: [][]int{{0, 1, 2}}}, cy(60, []int{33}, nil, nil), cy(60, []int{5, 29}, nil, []int{5}),
				cy(3, nil, nil, nil), cy(4, nil, nil, nil), cy(60, []int{36}, nil, nil), cy(45, nil, nil, nil)}},
		{Nchan: 2, Npre: 4, Nsamp: 9, F0: 0, Trigs: []Trig{{Chans: []int{0}, EMT: true, EMTMode: 1, EMTZero: true}},
			Ops: []Op{{Op: "add", Conn: [][]int{{0, 1}}}, cy(40, []int{12, 26}, nil), cy(40, []int{28}, nil), cy(40, []int{22, 31}, nil), cy(20, nil, nil)}},
		// stop and start again: the connections do not survive, clients must be told, and stay told until re-added
		{Nchan: 3, Npre: 3, Nsamp: 8, F0: 40, Trigs: []Trig{lvl(0, 1, 2)},
			Ops: []Op{{Op: "add", Conn: [][]int{{0, 1, 2}}}, cy(40, []int{10}, nil, nil), {Op: "restart"},
				cy(40, []int{10}, nil, nil), {Op: "restart", Conn: [][]int{{0, 1}}}, cy(40, []int{12}, nil, nil),
				{Op: "add", Conn: [][]int{{0, 2}}}, cy(40, []int{10}, nil, nil)}},
		// auto triggers: every source fires at the same frames
		{Nchan: 3, Npre: 3, Nsamp: 6, F0: 10, Trigs: []Trig{{Chans: []int{0, 1}, Auto: true, AutoFrames: 9}},
			Ops: []Op{{Op: "add", Conn: [][]int{{0, 2}, {1, 2}, {1, 0}}}, cy(25), cy(1), cy(2), cy(25), {Op: "del", Conn: [][]int{{1, 2}}}, cy(25)}},
	}
}

func randConn(r *lib.Rng, n int, malformed bool) [][]int {
	idx := func() int {
		if malformed && r.Chance(1, 4) {
			return r.Pick([]int{-1, -2, n, n, n + 1, n + 4, 7, 1 << 20, -(1 << 20)})
		}
		return r.Intn(n)
	}
	var out [][]int
	for k := r.Range(1, 3); k > 0; k-- {
		e := []int{idx()}
		for j := r.Range(1, 3); j > 0; j-- {
			e = append(e, idx())
		}
		if r.Chance(1, 6) {
			e = append(e, e[len(e)-1]) // a receiver named twice
		}
		out = append(out, e)
	}
	return out
}

func randCycle(r *lib.Rng, c *Case, fired *bool) Op {
	post := c.Nsamp - c.Npre
	var n int
	switch r.Intn(8) {
	case 0:
		n = r.Range(1, 3)
	case 1:
		n = r.Pick([]int{c.Npre, post, c.Nsamp, c.Nsamp + 1})
	default:
		n = r.Range(c.Nsamp, 3*c.Nsamp+12)
	}
	if n < 1 {
		n = 1
	}
	o := Op{Op: "cycle", Len: n, Width: r.Range(2, 5)}
	shared := []int{r.Intn(n)} // a position several channels may share, so that frames coincide
	for ch := 0; ch < c.Nchan; ch++ {
		var ps []int
		k := r.Intn(6)
		if c.deferBias && ch == 0 && r.Chance(2, 3) {
			k = 4
		}
		switch k {
		case 0: // nothing
		case 1: // near the end of the block: found in the next cycle, inside the retained history
			ps = append(ps, n-post+r.Range(-2, 2))
		case 2: // near the start
			ps = append(ps, r.Range(0, 2))
		case 4: // where an edge-multi source finds the trigger now but cuts the record in the next block
			ps = append(ps, n-post-r.Range(0, c.Nsamp))
		case 3:
			ps = append(ps, shared...)
		default:
			for k := r.Range(1, 2); k > 0; k-- {
				ps = append(ps, r.Intn(n))
			}
		}
		sort.Ints(ps)
		var q []int
		for _, p := range ps {
			if p >= 0 && p < n {
				q = append(q, p)
			}
		}
		o.Pulses = append(o.Pulses, q)
	}
	return o
}

func genCase(r *lib.Rng, id int64, tier string) Case {
	c := Case{ID: id}
	c.Npre = r.Range(3, 7)
	c.Nsamp = c.Npre + r.Range(1, 8)
	long := r.Chance(1, 4) // long records: the deferred edge-multi window (nsamp wide) exceeds any fixed margin
	if long {
		c.Npre = r.Range(4, 10)
		c.Nsamp = c.Npre + r.Range(6, 16)
	}
	c.F0 = int64(r.Pick([]int{0, 0, 1, 100, 5000, 1 << 20, 1 << 33}))
	if r.Chance(1, 4) {
		c.Lancero = true
		c.Ncols, c.Nrows = 1, 1
		switch r.Intn(4) {
		case 0:
			c.Ncols, c.Nrows = 1, 2
		case 1:
			c.Ncols, c.Nrows = 2, 1
		case 2:
			if tier == "thorough" {
				c.Ncols, c.Nrows = 1, 3
			}
		}
		c.Nchan = 2 * c.Ncols * c.Nrows
	} else {
		c.Nchan = r.Pick([]int{1, 2, 2, 3, 3, 3, 4, 4, 5})
	}
	for ch := 0; ch < c.Nchan; ch++ {
		c.Signed = append(c.Signed, r.Chance(1, 3))
	}
	// triggers: most channels can fire; some channels stay unconfigured
	for ch := 0; ch < c.Nchan; ch++ {
		switch r.Intn(8) {
		case 0: // unconfigured
		case 1:
			c.Trigs = append(c.Trigs, Trig{Chans: []int{ch}, Edge: true})
		case 2:
			c.Trigs = append(c.Trigs, Trig{Chans: []int{ch}, Auto: true, AutoFrames: r.Range(c.Nsamp, 3*c.Nsamp)})
		case 3:
			c.Trigs = append(c.Trigs, Trig{Chans: []int{ch}, Level: true, Edge: true})
		case 4, 5:
			// edge-multi source: it may defer a record to the next block ("around the corner")
			zero := c.Npre >= 4 && c.Nsamp-c.Npre >= 4 && r.Chance(1, 3)
			c.Trigs = append(c.Trigs, Trig{Chans: []int{ch}, EMT: true, EMTMode: r.Intn(3), EMTZero: zero})
		default:
			c.Trigs = append(c.Trigs, Trig{Chans: []int{ch}, Level: true})
		}
	}
	if long && c.Nchan >= 2 && !c.Lancero && r.Chance(2, 3) {
		// an edge-multi source feeding every other channel, whatever their own settings
		c.deferBias = true
		var tr []Trig
		for _, t := range c.Trigs {
			if t.Chans[0] != 0 {
				tr = append(tr, t)
			}
		}
		c.Trigs = append(tr, Trig{Chans: []int{0}, EMT: true, EMTMode: r.Intn(3)})
		e := []int{0}
		for rx := 1; rx < c.Nchan; rx++ {
			e = append(e, rx)
		}
		c.Ops = append(c.Ops, Op{Op: "add", Conn: [][]int{e}})
	}
	malformed := r.Chance(1, 3)
	nops := r.Range(4, 11)
	ncyc := 0
	maxcyc := 5
	if long {
		maxcyc = 3
	}
	if tier == "thorough" {
		nops = r.Range(4, 30)
		maxcyc = 12
		if long {
			maxcyc = 6
		}
	}
	fired := false
	for i := 0; i < nops; i++ {
		x := r.Intn(20)
		if !c.Lancero && r.Chance(1, 10) {
			// stop the source and start it again: a new run has no connections, and clients must be told
			o := Op{Op: "restart"}
			if r.Chance(1, 3) {
				o.Conn = randConn(r, c.Nchan, false) // also try a request while no source runs
			}
			c.Ops = append(c.Ops, o)
			continue
		}
		if c.Lancero && r.Chance(1, 4) {
			x = 16 // err/fb coupling requests are what a Lancero source is for
		}
		switch {
		case x < 7:
			if ncyc < maxcyc {
				c.Ops = append(c.Ops, randCycle(r, &c, &fired))
				ncyc++
			} else {
				c.Ops = append(c.Ops, Op{Op: "add", Conn: randConn(r, c.Nchan, malformed)})
			}
		case x < 12:
			c.Ops = append(c.Ops, Op{Op: "add", Conn: randConn(r, c.Nchan, malformed)})
		case x < 15:
			c.Ops = append(c.Ops, Op{Op: "del", Conn: randConn(r, c.Nchan, malformed)})
		case x < 16:
			c.Ops = append(c.Ops, Op{Op: "stop"})
		case x < 18:
			c.Ops = append(c.Ops, Op{Op: "couple", Status: r.Range(1, 3), ViaFB: r.Bool()})
		case x < 19:
			// dense connections: everybody to everybody
			var conn [][]int
			for s := 0; s < c.Nchan; s++ {
				e := []int{s}
				for rx := 0; rx < c.Nchan; rx++ {
					e = append(e, rx)
				}
				conn = append(conn, e)
			}
			c.Ops = append(c.Ops, Op{Op: "add", Conn: conn})
		default:
			ch := r.Intn(c.Nchan)
			if r.Chance(1, 3) {
				c.Ops = append(c.Ops, Op{Op: "trig", Trig: &Trig{Chans: []int{ch}, EMT: true, EMTMode: r.Intn(3)}})
			} else {
				c.Ops = append(c.Ops, Op{Op: "trig", Trig: &Trig{Chans: []int{ch}, Level: true}})
			}
		}
	}
	if c.Lancero && r.Chance(1, 2) {
		// the same coupling requested twice, with the err/fb pairs edited in between by other requests
		st := r.Range(1, 3)
		k := 2 * r.Intn(c.Nchan/2)
		var mid Op
		switch r.Intn(4) {
		case 0:
			mid = Op{Op: "del", Conn: [][]int{{k, k + 1}, {k + 1, k}}}
		case 1:
			mid = Op{Op: "add", Conn: [][]int{{k, k + 1}, {k + 1, k}}}
		case 2:
			mid = Op{Op: "stop"}
		default:
			mid = Op{Op: "add", Conn: [][]int{{k + 1, k, c.Nchan}}}
		}
		c.Ops = append(c.Ops, Op{Op: "couple", Status: st}, mid, Op{Op: "couple", Status: st, ViaFB: r.Bool()}, randCycle(r, &c, &fired))
		ncyc++
	}
	if ncyc == 0 {
		c.Ops = append(c.Ops, randCycle(r, &c, &fired))
	}
	// finish with a cycle so that the last edits are exercised by live data
	c.Ops = append(c.Ops, randCycle(r, &c, &fired))
	return c
}

func gen(seed uint64, tier string) []interface{} {
	r := lib.NewRng(seed)
	n := 230
	if tier == "thorough" {
		n = 3000
	}
	var out []interface{}
	id := int64(1)
	for _, c := range corpus() {
		c.ID = id
		if c.Lancero {
			c.Nchan = 2 * c.Ncols * c.Nrows
		}
		id++
		out = append(out, c)
	}
	for i := 0; i < n; i++ {
		out = append(out, genCase(r.Fork(), id, tier))
		id++
	}
	return out
}

func main() {
	h := lib.Harness{
		Gen: gen,
		RunCase: func(raw json.RawMessage) (lib.Result, error) {
			var c Case
			if err := json.Unmarshal(raw, &c); err != nil {
				return lib.Result{}, err
			}
			return runCase(c), nil
		},
		Crash:    crash,
		Header:   "From Dastard Require Import Common.ZX Common.CaseLib Pipeline.Stream C09.Model C09.Run.",
		Verdict:  "verdict",
		PerShard: 40,
		Isolate:  true,
		Chunk:    20,
		Workers:  8,
	}
	h.Main()
}
