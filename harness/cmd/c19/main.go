// C19 harness: channel identity. Drives PrepareChannels of every source type (card-less Lancero,
// Abaco with scripted packet producers, Roach, Triangle, SimPulse, Erroring) over generated
// configurations applied one after another to the same source object, the rcCode packer, and a real
// WriteControl START on the prepared source (file names + identity fields of the headers on disk).
package main

import (
	"encoding/json"
	"fmt"
	"io"
	"log"
	"os"
	"path/filepath"
	"sort"
	"strconv"
	"strings"

	"github.com/usnistgov/dastard"
	"verifharness/lib"
)

type Op struct {
	Op       string   `json:"op"` // lrun lagain aprep rprep tprep sprep eprep rc files
	Req      []int    `json:"req,omitempty"`
	Nsamp    int      `json:"nsamp,omitempty"`
	First    int      `json:"first,omitempty"`
	SepCards int      `json:"sepCards,omitempty"`
	SepCols  int      `json:"sepCols,omitempty"`
	Geom     [][2]int `json:"geom,omitempty"` // (ncols, nrows) per requested card
	Pk       [][2]int `json:"pk,omitempty"`   // (nchan, first channel) announced by sampled packets, in arrival order
	One      bool     `json:"one,omitempty"`  // all packets from one producer (arrival order = list order)
	Devs     []int    `json:"devs,omitempty"`
	N        int      `json:"n,omitempty"`
	RC       []int    `json:"rc,omitempty"` // row col rows cols
	Base     string   `json:"base,omitempty"`
	Off      bool     `json:"off,omitempty"`
	Map      string   `json:"map,omitempty"` // pixel map loaded at START: "" none, "ok" (nchan/channelsPerPixel pixels), "short", "long", "nchan", "zero"
	Sel      string   `json:"sel,omitempty"` // with off: which channels have projectors: "" all, "odd", "even", "last", "mid"
}

type Case struct {
	ID    int64 `json:"id"`
	Avail []int `json:"avail"` // Lancero device numbers present in the machine
	HW    bool  `json:"hw,omitempty"` // Lancero devices carry simulated cards (lancero.NoHardware) and the real Sample runs (>= 0.2 s per card and start)
	Ops   []Op  `json:"ops"`
}

// ---------------------------------------------------------------- generation

func pickRows(r *lib.Rng) int {
	switch x := r.Intn(20); {
	case x < 14:
		return r.Range(1, 6)
	case x < 19:
		return r.Range(7, 16)
	default:
		return r.Range(17, 40)
	}
}
func pickStr(r *lib.Rng, xs []string) string { return xs[r.Intn(len(xs))] }

func pickCols(r *lib.Rng) int {
	if r.Chance(7, 10) {
		return r.Range(1, 3)
	}
	return r.Range(4, 8)
}

func subset(r *lib.Rng, avail []int, n int) []int {
	idx := make([]int, len(avail))
	for i := range idx {
		idx[i] = i
	}
	for i := len(idx) - 1; i > 0; i-- {
		j := r.Intn(i + 1)
		idx[i], idx[j] = idx[j], idx[i]
	}
	if n > len(idx) {
		n = len(idx)
	}
	out := make([]int, n)
	for i := 0; i < n; i++ {
		out[i] = avail[idx[i]]
	}
	if r.Chance(2, 3) {
		sort.Ints(out)
	}
	return out
}

// genLRun draws one Lancero configuration. small: keep the channel count low (file cases).
func genLRun(r *lib.Rng, avail []int, small bool, malformed bool) Op {
	ncards := 1
	switch x := r.Intn(20); {
	case x < 10:
		ncards = 1
	case x < 16:
		ncards = 2
	case x < 19:
		ncards = 3
	default:
		ncards = 4
	}
	if small && ncards > 2 {
		ncards = 2
	}
	o := Op{Op: "lrun", Nsamp: r.Range(1, 16), First: r.Range(-2, 10)}
	o.Req = subset(r, avail, ncards)
	sameRows := r.Chance(3, 5)
	rows0 := pickRows(r)
	maxrows, maxneed := 0, 0
	for range o.Req {
		nc, nr := pickCols(r), pickRows(r)
		if sameRows {
			nr = rows0
		}
		if small {
			nc, nr = r.Range(1, 2), r.Range(1, 3)
			if sameRows {
				nr = rows0%3 + 1
			}
		}
		o.Geom = append(o.Geom, [2]int{nc, nr})
		if nr > maxrows {
			maxrows = nr
		}
	}
	// column separation: 0 / negative / too small / exact / generous
	switch r.Intn(10) {
	case 0, 1, 2:
		o.SepCols = 0
	case 3:
		o.SepCols = -r.Range(1, 3)
	case 4:
		o.SepCols = maxrows - 1
	case 5:
		o.SepCols = r.Range(1, maxrows)
	case 6, 7:
		o.SepCols = maxrows
	default:
		o.SepCols = maxrows + r.Range(1, 12)
	}
	for _, g := range o.Geom {
		colsep := g[1]
		if o.SepCols > 0 {
			colsep = o.SepCols
		}
		if colsep*g[0] > maxneed {
			maxneed = colsep * g[0]
		}
	}
	switch r.Intn(10) {
	case 0, 1, 2:
		o.SepCards = 0
	case 3:
		o.SepCards = -r.Range(1, 3)
	case 4:
		o.SepCards = maxneed - 1
	case 5:
		o.SepCards = r.Range(1, maxneed)
	case 6, 7:
		o.SepCards = maxneed
	default:
		o.SepCards = maxneed + r.Range(1, 40)
	}
	if !malformed && len(o.Req) >= 2 && r.Chance(1, 6) {
		// cards in descending device order; the separation fits every card except the last active one,
		// which therefore runs into the block of the card listed before it
		sort.Sort(sort.Reverse(sort.IntSlice(o.Req)))
		need := func(g [2]int) int {
			if o.SepCols > 0 {
				return o.SepCols * g[0]
			}
			return g[1] * g[0]
		}
		m := 1
		for _, g := range o.Geom[:len(o.Geom)-1] {
			if need(g) > m {
				m = need(g)
			}
		}
		o.SepCards = m + r.Range(0, 2)
		last := &o.Geom[len(o.Geom)-1]
		for need(*last) <= o.SepCards {
			last[0]++
		}
		if r.Bool() {
			last[0] += r.Range(0, 3)
		}
	}
	if malformed {
		switch r.Intn(5) {
		case 0:
			o.Nsamp = r.Pick([]int{0, 17, -1})
		case 1:
			if len(o.Req) > 0 {
				o.Req = append(o.Req, o.Req[r.Intn(len(o.Req))]) // same card twice
				o.Geom = append(o.Geom, [2]int{1, 1})
			}
		case 2:
			o.Req = append(o.Req, 8+r.Intn(3)) // card that does not exist
			o.Geom = append(o.Geom, [2]int{1, 1})
		case 3:
			o.Req = nil
			o.Geom = nil
		case 4:
			if len(o.Geom) > 0 {
				o.Geom[r.Intn(len(o.Geom))][r.Intn(2)] = 0 // a card with no columns / no rows
			}
		}
	}
	return o
}

// genAbacoNest: one group inside another (strictly, or sharing one end), optionally with unrelated groups
// around them, in a random arrival order, mostly from a single producer so that the order is the list order.
func genAbacoNest(r *lib.Rng) Op {
	o := Op{Op: "aprep", One: r.Chance(3, 4)}
	a, k := r.Range(0, 30), r.Range(1, 8)
	x, y := r.Range(0, 4), r.Range(0, 4)
	if x > a {
		x = a
	}
	if x == 0 && y == 0 {
		y = 1
	}
	o.Pk = append(o.Pk, [2]int{k, a}, [2]int{k + x + y, a - x})
	for i, extra := 0, r.Intn(3); i < extra; i++ {
		o.Pk = append(o.Pk, [2]int{r.Range(1, 6), a + k + y + 5 + 10*i + r.Range(0, 3)})
	}
	for i := len(o.Pk) - 1; i > 0; i-- {
		j := r.Intn(i + 1)
		o.Pk[i], o.Pk[j] = o.Pk[j], o.Pk[i]
	}
	return o
}

func genAbaco(r *lib.Rng) Op {
	if r.Chance(1, 4) {
		return genAbacoNest(r)
	}
	o := Op{Op: "aprep"}
	ng := r.Range(1, 5)
	next := r.Range(0, 20)
	for i := 0; i < ng; i++ {
		n := r.Range(1, 12)
		if r.Chance(1, 8) {
			n = r.Range(13, 40)
		}
		first := next
		switch r.Intn(14) {
		case 8: // strictly contains an earlier group (both ends beyond it)
			if i > 0 {
				e := o.Pk[r.Intn(len(o.Pk))]
				lo := e[1] - r.Range(1, 4)
				if lo < 0 {
					lo = 0
				}
				first, n = lo, e[1]+e[0]+r.Range(1, 4)-lo
			}
		case 9: // contains an earlier group, sharing its first or its last channel
			if i > 0 {
				e := o.Pk[r.Intn(len(o.Pk))]
				if r.Bool() || e[1] == 0 {
					first, n = e[1], e[0]+r.Range(1, 4)
				} else {
					k := r.Range(1, 4)
					if k > e[1] {
						k = e[1]
					}
					first, n = e[1]-k, e[0]+k
				}
			}
		case 10: // lies strictly inside an earlier group
			if i > 0 {
				e := o.Pk[r.Intn(len(o.Pk))]
				if e[0] >= 3 {
					first, n = e[1]+1, r.Range(1, e[0]-2)
				}
			}
		case 11: // shares exactly one end channel with an earlier group
			if i > 0 {
				e := o.Pk[r.Intn(len(o.Pk))]
				if r.Bool() || e[1] < n-1 {
					first = e[1] + e[0] - 1 // starts on the other's last channel
				} else {
					first = e[1] - n + 1 // ends on the other's first channel
				}
			}
		case 12: // identical to an earlier group
			if i > 0 {
				e := o.Pk[r.Intn(len(o.Pk))]
				first, n = e[1], e[0]
			}
		case 13: // same first channel, other size
			if i > 0 {
				e := o.Pk[r.Intn(len(o.Pk))]
				first = e[1]
			}
		case 0, 1, 2: // adjacent
		case 3, 4: // gap
			first = next + r.Range(1, 30)
		case 5: // overlap with the previous group by a few channels
			if i > 0 {
				first = next - r.Range(1, 3)
				if first < 0 {
					first = 0
				}
			}
		case 6: // same first channel as an earlier group
			if i > 0 {
				first = o.Pk[r.Intn(len(o.Pk))][1]
			}
		case 7: // far away
			first = next + r.Range(100, 400)
		}
		o.Pk = append(o.Pk, [2]int{n, first})
		if first+n > next {
			next = first + n
		}
	}
	if r.Chance(1, 3) { // a group announced twice
		o.Pk = append(o.Pk, o.Pk[r.Intn(len(o.Pk))])
	}
	o.One = r.Chance(1, 2)
	// shuffle: the order packets arrive in must not matter (nested layouts are thereby tried in both orders)
	for i := len(o.Pk) - 1; i > 0; i-- {
		j := r.Intn(i + 1)
		o.Pk[i], o.Pk[j] = o.Pk[j], o.Pk[i]
	}
	return o
}

func genRC(r *lib.Rng) Op {
	v := func() int {
		switch r.Intn(8) {
		case 0:
			return 0
		case 1:
			return 65535
		case 2:
			return r.Pick([]int{65536, 65537, 1 << 20, -1, -2})
		case 3:
			return r.Range(32766, 32770)
		default:
			return r.Range(0, 300)
		}
	}
	return Op{Op: "rc", RC: []int{v(), v(), v(), v()}}
}

// filesOp: a START; when OFF is written, projectors sit on all channels or on a subset that is not a
// prefix of the channel list (feedback streams only, the last channels only, one channel in the middle).
func filesOp(r *lib.Rng, base string) Op {
	o := Op{Op: "files", Base: base, Off: r.Chance(2, 3)}
	switch x := r.Intn(20); { // a pixel map is loaded in half of the STARTs; one in five of those has the wrong size
	case x < 8:
		o.Map = "ok"
	case x < 10:
		o.Map = pickStr(r, []string{"short", "long", "nchan", "zero"})
	}
	if o.Off {
		o.Sel = pickStr(r, []string{"", "odd", "odd", "even", "last", "mid"})
	}
	return o
}

// offChannels lists the channel indices that get projectors.
func offChannels(o Op, nchan int) []int {
	var out []int
	if !o.Off {
		return out
	}
	for i := 0; i < nchan; i++ {
		keep := false
		switch o.Sel {
		case "odd":
			keep = i%2 == 1
		case "even":
			keep = i%2 == 0
		case "last":
			keep = i >= nchan-(nchan+2)/3
		case "mid":
			keep = i == nchan/2
		default:
			keep = true
		}
		if keep {
			out = append(out, i)
		}
	}
	return out
}

func genCase(r *lib.Rng, id int64, tier string) Case {
	c := Case{ID: id}
	navail := r.Range(1, 8)
	all := []int{0, 1, 2, 3, 4, 5, 6, 7}
	c.Avail = subset(r, all, navail)
	sort.Ints(c.Avail)
	files := func(small Op) {
		c.Ops = append(c.Ops, small)
		c.Ops = append(c.Ops, filesOp(r, pickStr(r, []string{"out", "d1/d2", "run_a"})))
	}
	// what the cards deliver at a restart without Configure: other numbers of columns (and rows)
	regeom := func(prev Op, sameRows bool) [][2]int {
		var g [][2]int
		for _, p := range prev.Geom {
			nr := p[1]
			if !sameRows && r.Chance(1, 2) {
				nr = pickRows(r)
			}
			g = append(g, [2]int{r.Range(1, 4), nr})
		}
		return g
	}
	if r.Chance(1, 80) { // real Sample on simulated cards: few, they take >= 0.2 s per card and start
		c.HW = true
		o := genLRun(r, c.Avail, true, false)
		rows := r.Range(2, 5)
		for i := range o.Geom {
			o.Geom[i] = [2]int{r.Range(1, 3), rows}
		}
		o.SepCols = r.Pick([]int{0, 0, rows, rows + 3})
		o.SepCards = r.Pick([]int{0, 0, 64})
		c.Ops = append(c.Ops, o, Op{Op: "lagain", Geom: regeom(o, true)})
		if r.Bool() {
			c.Ops = append(c.Ops, filesOp(r, "hw"))
		}
		if r.Bool() {
			c.Ops = append(c.Ops, Op{Op: "lagain"})
		}
		return c
	}
	switch x := r.Intn(100); {
	case x < 50: // Lancero history on one object
		nops := r.Range(1, 3)
		var prev *Op
		for i := 0; i < nops; i++ {
			if prev != nil && r.Chance(1, 4) {
				switch r.Intn(3) {
				case 0:
					c.Ops = append(c.Ops, Op{Op: "lagain"})
				case 1: // the hardware streams something else now
					c.Ops = append(c.Ops, Op{Op: "lagain", Geom: regeom(*prev, false)})
				case 2: // a Configure request slips in while the source is Starting
					m := genLRun(r, c.Avail, true, r.Chance(1, 8))
					m.Op, m.Geom, m.N = "lmid", nil, r.Range(1, 4)
					c.Ops = append(c.Ops, m)
					if r.Bool() {
						c.Ops = append(c.Ops, Op{Op: "lagain"})
					}
				}
				continue
			}
			o := genLRun(r, c.Avail, false, r.Chance(1, 8))
			c.Ops = append(c.Ops, o)
			prev = &c.Ops[len(c.Ops)-1]
		}
		if r.Chance(1, 8) {
			c.Ops = append(c.Ops, Op{Op: "lagain"})
		}
	case x < 58: // Lancero + files
		o := genLRun(r, c.Avail, true, false)
		files(o)
		if r.Chance(1, 2) {
			c.Ops = append(c.Ops, genLRun(r, c.Avail, true, false))
			c.Ops = append(c.Ops, filesOp(r, "out"))
		}
	case x < 72:
		n := r.Range(1, 2)
		for i := 0; i < n; i++ {
			c.Ops = append(c.Ops, genAbaco(r))
		}
		if r.Chance(1, 4) {
			c.Ops = append(c.Ops, filesOp(r, "ab"))
		}
	case x < 78:
		nd := r.Range(1, 3)
		o := Op{Op: "rprep"}
		for i := 0; i < nd; i++ {
			o.Devs = append(o.Devs, r.Range(0, 12))
		}
		c.Ops = append(c.Ops, o)
		if r.Chance(1, 2) {
			c.Ops = append(c.Ops, filesOp(r, "ro"))
		}
	case x < 88:
		kind := pickStr(r, []string{"tprep", "sprep", "eprep"})
		o := Op{Op: kind, N: r.Range(1, 12)}
		if kind != "eprep" && r.Chance(1, 6) { // Configure refuses these; an ErroringSource has no Configure (its nchan is fixed at 1 in dastard)
			o.N = r.Range(-1, 0)
		}
		c.Ops = append(c.Ops, o)
		if kind != "eprep" && r.Chance(1, 2) {
			c.Ops = append(c.Ops, filesOp(r, "sim"))
		}
	case x < 94:
		for i := 0; i < 12; i++ {
			c.Ops = append(c.Ops, genRC(r))
		}
	default: // mixed kinds in one history
		c.Ops = append(c.Ops, genLRun(r, c.Avail, true, false))
		c.Ops = append(c.Ops, genAbaco(r))
		c.Ops = append(c.Ops, Op{Op: "tprep", N: r.Range(1, 4)})
		c.Ops = append(c.Ops, Op{Op: "lagain"})
		c.Ops = append(c.Ops, Op{Op: "files", Base: "mix", Off: false})
	}
	return c
}

func corpus() []Case {
	all := []int{0, 1, 2, 3, 4, 5, 6, 7}
	g := func(x ...int) [][2]int {
		var o [][2]int
		for i := 0; i+1 < len(x); i += 2 {
			o = append(o, [2]int{x[i], x[i+1]})
		}
		return o
	}
	return []Case{
		// history: a second run with another row count on the same object (witness of the pre-fix defect)
		{Avail: all, Ops: []Op{
			{Op: "lrun", Req: []int{0}, Nsamp: 4, First: 1, Geom: g(2, 4)},
			{Op: "lrun", Req: []int{0}, Nsamp: 4, First: 1, Geom: g(2, 6)}}},
		{Avail: all, Ops: []Op{
			{Op: "lrun", Req: []int{0, 1}, Nsamp: 4, First: 1, Geom: g(2, 4, 2, 5)},
			{Op: "lrun", Req: []int{0, 1}, Nsamp: 4, First: 1, Geom: g(2, 3, 2, 3)},
			{Op: "files", Base: "out", Off: true}}},
		// column separation: too small by one / exact / generous
		{Avail: all, Ops: []Op{
			{Op: "lrun", Req: []int{0}, Nsamp: 1, First: 1, SepCols: 4, Geom: g(3, 5)},
			{Op: "lrun", Req: []int{0}, Nsamp: 1, First: 1, SepCols: 5, Geom: g(3, 5)},
			{Op: "lrun", Req: []int{0}, Nsamp: 1, First: 1, SepCols: 32, Geom: g(3, 5)}}},
		// card separation: too small by one / exact, with and without column separation, device order reversed
		{Avail: all, Ops: []Op{
			{Op: "lrun", Req: []int{1, 0}, Nsamp: 1, First: 1, SepCards: 14, Geom: g(3, 5, 2, 5)},
			{Op: "lrun", Req: []int{1, 0}, Nsamp: 1, First: 1, SepCards: 15, Geom: g(3, 5, 2, 5)},
			{Op: "lrun", Req: []int{3, 0}, Nsamp: 1, First: 0, SepCards: 23, SepCols: 8, Geom: g(3, 5, 2, 5)},
			{Op: "lrun", Req: []int{3, 0}, Nsamp: 1, First: 0, SepCards: 24, SepCols: 8, Geom: g(3, 5, 2, 5)}}},
		// a refused configuration resets chanSepColumns; starting again without Configure then succeeds
		{Avail: all, Ops: []Op{
			{Op: "lrun", Req: []int{0}, Nsamp: 1, First: 1, SepCards: 15, SepCols: 10, Geom: g(2, 4)},
			{Op: "lagain"}, {Op: "lagain"}}},
		{Avail: all, Ops: []Op{
			{Op: "lrun", Req: []int{0, 2}, Nsamp: 1, First: 1, SepCols: 3, Geom: g(2, 4, 1, 2)},
			{Op: "lagain"}}},
		// Configure validation
		{Avail: []int{0, 1, 2}, Ops: []Op{
			{Op: "lrun", Req: []int{0, 0}, Nsamp: 1, First: 1, Geom: g(1, 2, 1, 2)},
			{Op: "lagain"},
			{Op: "lrun", Req: []int{0, 5}, Nsamp: 1, First: 1, Geom: g(1, 2, 1, 2)},
			{Op: "lrun", Req: []int{0, 1}, Nsamp: 17, First: 1, Geom: g(1, 2, 1, 2)},
			{Op: "lrun", Req: []int{0, 1}, Nsamp: 0, First: 1, Geom: g(1, 2, 1, 2)},
			{Op: "lrun", Req: []int{2, 1}, Nsamp: 16, First: -2, Geom: g(1, 2, 2, 2)}}},
		// negative separations, first row below zero, sequential numbering across cards
		{Avail: all, Ops: []Op{
			{Op: "lrun", Req: []int{0}, Nsamp: 1, First: 1, SepCards: -1, Geom: g(1, 2)},
			{Op: "lrun", Req: []int{0}, Nsamp: 1, First: 1, SepCols: -1, Geom: g(1, 2)},
			{Op: "lrun", Req: []int{7, 2, 4}, Nsamp: 1, First: -2, Geom: g(2, 3, 1, 4, 3, 2)},
			{Op: "lrun", Req: []int{7, 2, 4}, Nsamp: 1, First: -2, SepCols: 4, Geom: g(2, 3, 1, 4, 3, 2)}}},
		// no active cards; fresh object started without Configure
		{Avail: all, Ops: []Op{{Op: "lagain"}, {Op: "lrun", Nsamp: 1, First: 1}, {Op: "files", Base: "x"}}},
		// Abaco: disjoint / adjacent / overlapping by one / nested / same group twice
		{Avail: all, Ops: []Op{
			{Op: "aprep", Pk: g(4, 0, 4, 8)},
			{Op: "aprep", Pk: g(4, 4, 4, 0)},
			{Op: "aprep", Pk: g(4, 0, 4, 3)},
			{Op: "aprep", Pk: g(10, 0, 2, 4)},
			{Op: "aprep", Pk: g(3, 5, 3, 5, 2, 0)},
			{Op: "aprep", Pk: g(3, 5, 4, 5)},
			{Op: "files", Base: "ab", Off: true}}},
		{Avail: all, Ops: []Op{{Op: "aprep", Pk: g(8, 16, 8, 0, 8, 8)}, {Op: "files", Base: "ab", Off: true}}},
		// nested groups in both arrival orders (small group first, then one that strictly contains it; and reversed),
		// containing groups sharing one end, identical groups, groups sharing exactly one end channel
		{Avail: all, Ops: []Op{
			{Op: "aprep", One: true, Pk: g(4, 4, 16, 0)},
			{Op: "aprep", One: true, Pk: g(16, 0, 4, 4)},
			{Op: "aprep", One: true, Pk: g(2, 4, 10, 0, 3, 20)},
			{Op: "aprep", One: true, Pk: g(3, 20, 2, 4, 3, 30, 10, 0)},
			{Op: "aprep", One: true, Pk: g(4, 4, 8, 4)},
			{Op: "aprep", One: true, Pk: g(4, 4, 8, 0)},
			{Op: "aprep", One: true, Pk: g(8, 0, 4, 4)},
			{Op: "aprep", One: true, Pk: g(4, 4, 4, 4)},
			{Op: "aprep", One: true, Pk: g(4, 4, 4, 7)},
			{Op: "aprep", One: true, Pk: g(4, 7, 4, 4)},
			{Op: "aprep", One: true, Pk: g(1, 5, 3, 4)},
			{Op: "aprep", One: true, Pk: g(1, 5, 1, 5, 1, 6)}}},
		{Avail: all, Ops: []Op{{Op: "aprep", One: true, Pk: g(4, 4, 16, 0)}, {Op: "files", Base: "ab", Off: true}}},
		// card separation large enough for every card but the LAST active one, cards in descending device order:
		// card 0 needs 16 numbers, gets 10, and runs into card 1's block
		{Avail: all, Ops: []Op{
			{Op: "lrun", Req: []int{1, 0}, Nsamp: 1, First: 1, SepCards: 10, Geom: g(1, 4, 2, 8)},
			{Op: "lrun", Req: []int{1, 0}, Nsamp: 1, First: 1, SepCards: 10, Geom: g(2, 8, 1, 4)},
			{Op: "lrun", Req: []int{2, 1, 0}, Nsamp: 1, First: 0, SepCards: 12, SepCols: 6, Geom: g(2, 5, 2, 6, 3, 4)},
			{Op: "lrun", Req: []int{5, 3}, Nsamp: 1, First: 1, SepCards: 4, Geom: g(1, 4, 3, 4)},
			{Op: "lrun", Req: []int{0}, Nsamp: 1, First: 1, SepCards: 4, Geom: g(2, 4)}}},
		{Avail: all, Ops: []Op{{Op: "rprep", Devs: []int{3, 2}}, {Op: "files", Base: "ro", Off: true}}},
		// restart without Configure while the cards deliver another geometry (stand-in for Sample, then the real
		// Sample on simulated cards: 2 columns, then 4 columns of 4 rows)
		{Avail: all, Ops: []Op{
			{Op: "lrun", Req: []int{0}, Nsamp: 4, First: 1, Geom: g(2, 4)}, {Op: "lagain", Geom: g(4, 4)},
			{Op: "lagain", Geom: g(1, 2)}, {Op: "lagain"}}},
		{Avail: []int{0, 1}, HW: true, Ops: []Op{
			{Op: "lrun", Req: []int{0}, Nsamp: 4, First: 1, Geom: g(2, 4)}, {Op: "lagain", Geom: g(4, 4)},
			{Op: "files", Base: "hw"}, {Op: "lrun", Req: []int{0}, Nsamp: 4, First: 1, Geom: g(3, 4)}}},
		{Avail: []int{0, 1}, HW: true, Ops: []Op{
			{Op: "lrun", Req: []int{0, 1}, Nsamp: 1, First: 1, SepCols: 4, Geom: g(1, 3, 2, 3)},
			{Op: "lagain", Geom: g(2, 3, 1, 3)}, {Op: "lagain"}}},
		// a Configure request arrives while the source is Starting (between Sample and PrepareChannels): it must be
		// refused; it removes a card / adds a card / only changes the numbering
		{Avail: all, Ops: []Op{
			{Op: "lrun", Req: []int{0, 1}, Nsamp: 1, First: 1, Geom: g(2, 4, 2, 4)},
			{Op: "lmid", Req: []int{0}, Nsamp: 1, First: 1, N: 4}, {Op: "lagain"},
			{Op: "lrun", Req: []int{1}, Nsamp: 1, First: 1, Geom: g(2, 4)}, {Op: "files", Base: "mid"}}},
		{Avail: all, Ops: []Op{
			{Op: "lrun", Req: []int{0}, Nsamp: 1, First: 1, Geom: g(2, 2)},
			{Op: "lmid", Req: []int{0, 1}, Nsamp: 1, First: 1, N: 2}}},
		{Avail: all, Ops: []Op{
			{Op: "lrun", Req: []int{2}, Nsamp: 1, First: 1, Geom: g(2, 3)},
			{Op: "lmid", Req: []int{2}, Nsamp: 1, First: 7, SepCols: 5, N: 3}, {Op: "files", Base: "mid", Off: true, Sel: "odd"}}},
		// a pixel map is loaded when writing starts (right size, wrong sizes), with and without OFF
		{Avail: all, Ops: []Op{
			{Op: "lrun", Req: []int{0}, Nsamp: 1, First: 1, Geom: g(2, 2)},
			{Op: "files", Base: "pm", Map: "ok"}, {Op: "files", Base: "pm", Map: "nchan"},
			{Op: "files", Base: "pm", Off: true, Sel: "odd", Map: "ok"}, {Op: "files", Base: "pm", Map: "short"},
			{Op: "files", Base: "pm", Map: "long"}, {Op: "files", Base: "pm", Map: "zero"}, {Op: "files", Base: "pm"}}},
		{Avail: all, Ops: []Op{{Op: "aprep", One: true, Pk: g(3, 8, 2, 0)}, {Op: "files", Base: "pm", Off: true, Map: "ok"},
			{Op: "files", Base: "pm", Map: "long"}, {Op: "tprep", N: 3}, {Op: "files", Base: "pm", Map: "ok"}}},
		{Avail: all, Ops: []Op{{Op: "rprep", Devs: []int{2, 2}}, {Op: "files", Base: "pm", Off: true, Sel: "last", Map: "ok"}}},
		// projectors on a subset of the channels that is not a prefix of the channel list
		{Avail: all, Ops: []Op{
			{Op: "lrun", Req: []int{0}, Nsamp: 1, First: 1, Geom: g(2, 2)},
			{Op: "files", Base: "fb", Off: true, Sel: "odd"}, {Op: "files", Base: "fb", Off: true, Sel: "mid"},
			{Op: "files", Base: "fb", Off: true, Sel: "last"}, {Op: "files", Base: "fb", Off: true, Sel: "even"}}},
		{Avail: all, Ops: []Op{{Op: "tprep", N: 4}, {Op: "files", Base: "tr", Off: true, Sel: "mid"},
			{Op: "files", Base: "tr", Off: true, Sel: "last"}}},
		{Avail: all, Ops: []Op{{Op: "aprep", One: true, Pk: g(3, 8, 2, 0)}, {Op: "files", Base: "ab", Off: true, Sel: "odd"}}},
		{Avail: all, Ops: []Op{{Op: "tprep", N: 3}, {Op: "files", Base: "tr", Off: true}, {Op: "files", Base: "tr"}}},
		{Avail: all, Ops: []Op{{Op: "sprep", N: 4}, {Op: "files", Base: "sp"}, {Op: "tprep", N: 0}, {Op: "files", Base: "sp"}}},
		{Avail: all, Ops: []Op{{Op: "eprep", N: 1}, {Op: "eprep", N: 3}}},
		{Avail: all, Ops: []Op{
			{Op: "rc", RC: []int{0, 0, 0, 0}}, {Op: "rc", RC: []int{65535, 65535, 65535, 65535}},
			{Op: "rc", RC: []int{1, 2, 3, 4}}, {Op: "rc", RC: []int{65536, 1, 1, 1}}, {Op: "rc", RC: []int{-1, 2, 3, 4}},
			{Op: "rc", RC: []int{5, 0, 40, 32768}}, {Op: "rc", RC: []int{39, 7, 40, 8}}}},
		// Lancero with files, both separations in force
		{Avail: all, Ops: []Op{
			{Op: "lrun", Req: []int{2, 5}, Nsamp: 2, First: 1, SepCards: 100, SepCols: 10, Geom: g(2, 3, 1, 3)},
			{Op: "files", Base: "tdm", Off: true}}},
	}
}

func gen(seed uint64, tier string) []interface{} {
	r := lib.NewRng(seed)
	n := 280
	if tier == "thorough" {
		n = 5000
	}
	var out []interface{}
	id := int64(1)
	for _, c := range corpus() {
		c.ID = id
		id++
		out = append(out, c)
	}
	for i := 0; i < n; i++ {
		out = append(out, genCase(r.Fork(), id, tier))
		id++
	}
	return out
}

// ---------------------------------------------------------------- rendering

func q(s string) string { return "\"" + strings.ReplaceAll(s, "\"", "\"\"") + "\"" }

func strList(xs []string) string {
	var sb strings.Builder
	sb.WriteByte('[')
	for i, x := range xs {
		if i > 0 {
			sb.WriteByte(';')
		}
		sb.WriteString(q(x))
	}
	sb.WriteByte(']')
	return sb.String()
}

func pairList(xs [][2]int) string {
	var sb strings.Builder
	sb.WriteByte('[')
	for i, x := range xs {
		if i > 0 {
			sb.WriteByte(';')
		}
		fmt.Fprintf(&sb, "(%s,%s)", lib.Z(int64(x[0])), lib.Z(int64(x[1])))
	}
	sb.WriteByte(']')
	return sb.String()
}

func u64List(xs []uint64) string {
	var sb strings.Builder
	sb.WriteByte('[')
	for i, x := range xs {
		if i > 0 {
			sb.WriteByte(';')
		}
		sb.WriteString(strconv.FormatUint(x, 10))
	}
	sb.WriteByte(']')
	return sb.String()
}

func groupsTerm(gs []dastard.GroupIndex) string {
	p := make([][2]int, len(gs))
	for i, g := range gs {
		p[i] = [2]int{g.Firstchan, g.Nchan}
	}
	return pairList(p)
}

func tablesTerm(t dastard.VerifC19Tables) string {
	return fmt.Sprintf("(T %s %s %s %s %s %s %s)", strList(t.Names), lib.ZListInt(t.Numbers), u64List(t.RowColCodes),
		lib.ZListInt(t.SubframeOffsets), groupsTerm(t.Groups), lib.Z(int64(t.SubframeDivisions)), lib.Z(int64(t.ChannelsPerPixel)))
}

func accTerm(t dastard.VerifC19Tables, mixed bool, order []int) string {
	return fmt.Sprintf("OAcc %s %s %s %s %s", tablesTerm(t), lib.B(mixed), lib.ZListInt(order), strList(t.ChannelNames), groupsTerm(t.ChanGroups))
}

// identity fields of an LJH 2.2 header
func ljhIdent(head string) string {
	if head == "" {
		return "NoId"
	}
	f := map[string]string{}
	for _, line := range strings.Split(head, "\n") {
		k := strings.LastIndex(line, ": ")
		if k < 0 {
			continue
		}
		key, val := line[:k], line[k+2:]
		switch {
		case strings.HasPrefix(key, "Row number"):
			key = "Row number"
		case strings.HasPrefix(key, "Column number"):
			key = "Column number"
		}
		if _, dup := f[key]; !dup {
			f[key] = val
		}
	}
	num := func(k string) string {
		v, err := strconv.ParseInt(strings.TrimSpace(f[k]), 10, 64)
		if err != nil {
			return "(-99)"
		}
		return lib.Z(v)
	}
	return fmt.Sprintf("(Id %s %s %s %s %s %s %s %s %s %s %s)", num("ChannelIndex (in dastard)"), q(f["Channel name"]), num("Channel"),
		num("Number of rows"), num("Number of columns"), num("Row number"), num("Column number"), num("Number of channels"),
		num("Subframe divisions"), num("Subframe offset"), q(f["Data source"]))
}

func offIdent(head string) string {
	j := func(p ...string) string { return dastard.VerifC19JSONField(head, p...) }
	num := func(p ...string) string {
		v, err := strconv.ParseInt(j(p...), 10, 64)
		if err != nil {
			return "(-99)"
		}
		return lib.Z(v)
	}
	return fmt.Sprintf("(Id %s %s %s %s %s %s %s %s %s %s %s)", num("ChannelIndex"), q(j("ChannelName")), num("ChannelNumberMatchingName"),
		num("ReadoutInfo", "NumberOfRows"), num("ReadoutInfo", "NumberOfColumns"), num("ReadoutInfo", "RowNum"), num("ReadoutInfo", "ColumnNum"),
		num("ReadoutInfo", "NumberOfChans"), num("ReadoutInfo", "SubframeDivisions"), num("ReadoutInfo", "SubframeOffset"),
		q(j("CreationInfo", "SourceName")))
}

// ---------------------------------------------------------------- running one case

type prepared struct {
	ds    *dastard.AnySource
	nchan int
	cpp   int
}

// mapPixels: number of pixels of the map loaded at START (-1: no map)
func mapPixels(o Op, nchan, cpp int) int {
	if cpp <= 0 {
		cpp = 1
	}
	switch o.Map {
	case "ok":
		return nchan / cpp
	case "short":
		return nchan/cpp - 1
	case "long":
		return nchan/cpp + 1
	case "nchan":
		return nchan
	case "zero":
		return 0
	}
	return -1
}

func runCase(c Case) (res lib.Result) {
	res = lib.Result{ID: c.ID, Hash: lib.Hash(struct {
		A []int
		H bool
		O []Op
	}{c.Avail, c.HW, c.Ops})}
	tags := map[string]bool{}
	var terms []string
	var impl []interface{}
	var lan *dastard.VerifC19Lancero
	var last *prepared
	nonTrivial := false
	tmp := ""
	starts := map[string]int{}
	defer func() {
		if lan != nil {
			lan.Close()
		}
		if tmp != "" {
			os.RemoveAll(tmp)
		}
	}()
	getLan := func() *dastard.VerifC19Lancero {
		if lan == nil {
			var err error
			lan, err = dastard.VerifC19NewLancero(c.Avail)
			if err != nil {
				panic(err)
			}
			if c.HW {
				lan.Lsync = 1000
			}
		}
		return lan
	}
	lastRows := -1
	for _, o := range c.Ops {
		var opTerm, obTerm string
		var ob interface{}
		panicked := ""
		func() {
			defer func() {
				if e := recover(); e != nil {
					panicked = fmt.Sprint(e)
				}
			}()
			lanceroStart := func(l *dastard.VerifC19Lancero, geom [][2]int, mid *Op) {
				if mid != nil { // Start() marks the source Starting before it samples
					if err := l.LS.SetStateStarting(); err != nil {
						panic(err)
					}
					defer l.LS.SetStateInactive()
				}
				refused := l.ConfigRefused()
				var serr error
				if c.HW {
					if !refused {
						if err := l.InstallCards(geom); err != nil {
							panic(err)
						}
					}
					serr = l.LS.Sample() // the real one, on simulated cards
					for try := 0; serr != nil && !refused && try < 3; try++ {
						serr = l.LS.Sample() // sampling reads by wall clock; a starved read is no statement about identity
					}
					tags["lancero-real-sample"] = true
				} else {
					serr = l.SampleDouble(geom)
				}
				if serr != nil {
					if !refused {
						panic("Sample failed: " + serr.Error())
					}
					obTerm, ob = "ORejCfg", "configure-error:"+serr.Error()
					last = nil
					tags["lancero-config-refused"] = true
					return
				}
				if mid != nil { // a ConfigureLanceroSource request arrives now
					seqln := mid.N
					if seqln <= 0 {
						seqln = 2
					}
					l.Configure(mid.Req, mid.Nsamp, seqln, mid.First, mid.SepCards, mid.SepCols)
					tags["lancero-configure-during-start"] = true
				}
				err := l.LS.PrepareChannels()
				st := l.State()
				if err != nil {
					obTerm = fmt.Sprintf("ORej %s %s %s", lib.Z(int64(st.SubframeDivisions)), lib.B(st.MixedRowCounts), lib.Z(int64(st.SepCols)))
					ob = "prepare-error:" + err.Error()
					last = nil
					tags["lancero-separation-refused"] = true
					nonTrivial = true
					return
				}
				t := l.LS.VerifC19Tables()
				obTerm, ob = accTerm(t, st.MixedRowCounts, st.ChanOrder), t
				last = &prepared{&l.LS.AnySource, t.Nchan, t.ChannelsPerPixel}
				tags["lancero-accepted"] = true
				if len(t.Groups) >= 2 && (st.SepCards > 0 || st.SepCols > 0) {
					nonTrivial = true
					tags["lancero-accepted-with-separation"] = true
				}
				if len(st.Active) >= 2 {
					tags["lancero-multi-card"] = true
				}
			}
			switch o.Op {
			case "lrun":
				geom := append([][2]int(nil), o.Geom...)
				for len(geom) < len(o.Req) {
					geom = append(geom, [2]int{1, 1})
				}
				geom = geom[:len(o.Req)]
				opTerm = fmt.Sprintf("LRun %s %s %s %s %s %s %s", lib.ZListInt(c.Avail), lib.ZListInt(o.Req), lib.Z(int64(o.Nsamp)),
					lib.Z(int64(o.First)), lib.Z(int64(o.SepCards)), lib.Z(int64(o.SepCols)), pairList(geom))
				l := getLan()
				seqln := 1
				if len(geom) > 0 {
					seqln = geom[0][1]
					if lastRows >= 0 && lastRows != seqln {
						tags["lancero-row-count-changes-between-runs"] = true
					}
					lastRows = seqln
				}
				l.Configure(o.Req, o.Nsamp, seqln, o.First, o.SepCards, o.SepCols)
				lanceroStart(l, geom, nil)
			case "lagain":
				opTerm = "LAgain " + pairList(o.Geom)
				tags["lancero-start-again"] = true
				if len(o.Geom) > 0 {
					tags["lancero-start-again-other-geometry"] = true
				}
				lanceroStart(getLan(), o.Geom, nil)
			case "lmid":
				opTerm = fmt.Sprintf("LMid %s %s %s %s %s %s", lib.ZListInt(c.Avail), lib.ZListInt(o.Req), lib.Z(int64(o.Nsamp)),
					lib.Z(int64(o.First)), lib.Z(int64(o.SepCards)), lib.Z(int64(o.SepCols)))
				mid := o
				lanceroStart(getLan(), nil, &mid)
			case "aprep":
				opTerm = "APrep " + pairList(o.Pk)
				as := dastard.VerifC19NewAbaco()
				// two producers when there are enough packets: arrival order across producers is up to the scheduler
				batches := [][][2]int{o.Pk}
				if len(o.Pk) >= 3 && !o.One {
					batches = [][][2]int{o.Pk[:len(o.Pk)/2], o.Pk[len(o.Pk)/2:]}
				}
				if len(o.Pk) == 0 {
					batches = [][][2]int{{}}
				}
				if err := as.VerifC19Sample(batches); err != nil {
					obTerm, ob = "ORej 0 false 0", "sample-error:"+err.Error()
					last = nil
					tags["abaco-refused"] = true
					nonTrivial = true
					return
				}
				if err := as.PrepareChannels(); err != nil {
					obTerm, ob = "ORej 0 false 0", "prepare-error:"+err.Error()
					last = nil
					return
				}
				as.VerifC19SetSampleRate(10000)
				t := as.VerifC19Tables()
				obTerm, ob = accTerm(t, false, nil), t
				last = &prepared{&as.AnySource, t.Nchan, t.ChannelsPerPixel}
				tags["abaco-accepted"] = true
				if len(t.Groups) >= 2 {
					nonTrivial = true
					tags["abaco-multi-group"] = true
				}
			case "rprep":
				opTerm = "RPrep " + lib.ZListInt(o.Devs)
				rs := dastard.VerifC19NewRoach(o.Devs)
				if err := rs.PrepareChannels(); err != nil {
					obTerm, ob = "ORej 0 false 0", err.Error()
					last = nil
					return
				}
				t := rs.VerifC19Tables()
				obTerm, ob = accTerm(t, false, nil), t
				last = &prepared{&rs.AnySource, t.Nchan, t.ChannelsPerPixel}
				tags["roach"] = true
			case "tprep":
				opTerm = "TPrep " + lib.Z(int64(o.N))
				ts := dastard.NewTriangleSource()
				tags["triangle"] = true
				if err := ts.Configure(&dastard.TriangleSourceConfig{Nchan: o.N, SampleRate: 10000, Min: 100, Max: 200}); err != nil {
					obTerm, ob = "ORej 0 false 0", err.Error()
					last = nil
					return
				}
				if err := ts.Sample(); err != nil {
					obTerm, ob = "ORej 0 false 0", err.Error()
					last = nil
					return
				}
				if err := ts.PrepareChannels(); err != nil {
					obTerm, ob = "ORej 0 false 0", err.Error()
					last = nil
					return
				}
				t := ts.VerifC19Tables()
				obTerm, ob = accTerm(t, false, nil), t
				last = &prepared{&ts.AnySource, t.Nchan, t.ChannelsPerPixel}
			case "sprep":
				opTerm = "SPrep " + lib.Z(int64(o.N))
				sp := dastard.NewSimPulseSource()
				tags["simpulse"] = true
				if err := sp.Configure(&dastard.SimPulseSourceConfig{Nchan: o.N, SampleRate: 10000, Pedestal: 1000,
					Amplitudes: []float64{1000}, Nsamp: 100}); err != nil {
					obTerm, ob = "ORej 0 false 0", err.Error()
					last = nil
					return
				}
				if err := sp.Sample(); err != nil {
					obTerm, ob = "ORej 0 false 0", err.Error()
					last = nil
					return
				}
				if err := sp.PrepareChannels(); err != nil {
					obTerm, ob = "ORej 0 false 0", err.Error()
					last = nil
					return
				}
				t := sp.VerifC19Tables()
				obTerm, ob = accTerm(t, false, nil), t
				last = &prepared{&sp.AnySource, t.Nchan, t.ChannelsPerPixel}
			case "eprep":
				opTerm = "EPrep " + lib.Z(int64(o.N))
				es := dastard.NewErroringSource()
				tags["erroring"] = true
				es.VerifC19SetNchan(o.N)
				es.Sample()
				if err := es.PrepareChannels(); err != nil {
					obTerm, ob = "ORej 0 false 0", err.Error()
					last = nil
					return
				}
				es.VerifC19SetSampleRate(10000)
				t := es.VerifC19Tables()
				obTerm, ob = accTerm(t, false, nil), t
				last = &prepared{&es.AnySource, t.Nchan, t.ChannelsPerPixel} // no row/column codes: a START on it panics (never generated)
			case "rc":
				rc := append(append([]int(nil), o.RC...), 0, 0, 0, 0)[:4]
				opTerm = fmt.Sprintf("RcCode %s %s %s %s", lib.Z(int64(rc[0])), lib.Z(int64(rc[1])), lib.Z(int64(rc[2])), lib.Z(int64(rc[3])))
				code, r, cc, nr, nc := dastard.VerifRcCode(rc[0], rc[1], rc[2], rc[3])
				obTerm = fmt.Sprintf("ORc %d %s %s %s %s", code, lib.Z(int64(r)), lib.Z(int64(cc)), lib.Z(int64(nr)), lib.Z(int64(nc)))
				ob = []interface{}{code, r, cc, nr, nc}
				tags["rccode"] = true
				inRange := true
				for _, v := range rc {
					if v < 0 || v > 65535 {
						inRange = false
					}
				}
				if !inRange {
					tags["rccode-out-of-field-range"] = true
				}
			case "files":
				if tmp == "" {
					d, err := os.MkdirTemp(".", "c19w")
					if err != nil {
						panic(err)
					}
					tmp, _ = filepath.Abs(d)
				}
				bname := filepath.Clean("/" + o.Base)
				if bname == "/" {
					bname = "/out"
				}
				base := tmp + bname
				if last == nil || last.nchan <= 0 {
					// today is irrelevant to the outcome
					opTerm = fmt.Sprintf("Files %s %s 0 [] (-1)", q(base), q(""))
					obTerm, ob = "ONoFiles", "nothing prepared"
					if last != nil {
						f := dastard.VerifC19WriteStart(last.ds, base, 4, 16, nil, -1)
						if f.PrepareRunErr == "" {
							panic("PrepareRun accepted a source without channels")
						}
					}
					return
				}
				offs := offChannels(o, last.nchan)
				mapn := mapPixels(o, last.nchan, last.cpp)
				f := dastard.VerifC19WriteStart(last.ds, base, 4, 16, offs, mapn)
				if f.Panic != "" {
					panic(f.Panic)
				}
				if f.PrepareRunErr != "" {
					panic("PrepareRun failed: " + f.PrepareRunErr)
				}
				i := starts[base]
				if f.StartErr != "" { // START refused (map of the wrong size): no directory was made
					opTerm = fmt.Sprintf("Files %s %s %d %s %s", q(base), q(""), i, lib.ZListInt(offs), lib.Z(int64(mapn)))
					obTerm, ob = "OStartErr", "start-error:"+f.StartErr
					tags["files-start-refused"] = true
					return
				}
				starts[base]++
				today := filepath.Base(filepath.Dir(filepath.Dir(f.Pattern)))
				opTerm = fmt.Sprintf("Files %s %s %d %s %s", q(base), q(today), i, lib.ZListInt(offs), lib.Z(int64(mapn)))
				if mapn >= 0 {
					tags["files-with-pixel-map"] = true
				}
				heads := map[string]string{}
				for _, fl := range f.Files {
					heads[fl.Name] = fl.Head
				}
				dir := filepath.Dir(f.Pattern)
				var cfs []string
				for ch, cf := range f.Chans {
					offName, offId := "", "None"
					if cf.HasOFF {
						for _, fl := range f.Files {
							if strings.HasSuffix(fl.Name, ".off") && dastard.VerifC19JSONField(fl.Head, "ChannelIndex") == strconv.Itoa(ch) {
								offName = filepath.Join(dir, fl.Name)
								offId = "(Some " + offIdent(fl.Head) + ")"
							}
						}
					}
					head := ""
					if filepath.Dir(cf.LJH22File) == dir {
						head = heads[filepath.Base(cf.LJH22File)]
					}
					cfs = append(cfs, fmt.Sprintf("CF %s %s %s %s %s %s %s", q(cf.DspName), lib.Z(int64(cf.DspNumber)),
						q(cf.LJH22File), q(cf.LJH3File), q(offName), ljhIdent(head), offId))
				}
				obTerm = fmt.Sprintf("OFiles %s %s %d", q(f.Pattern), lib.List(cfs), len(f.Files))
				ob = f
				tags["files"] = true
				if len(offs) > 0 {
					tags["files-with-off"] = true
					if len(offs) < last.nchan && offs[len(offs)-1] != len(offs)-1 {
						tags["files-off-on-non-prefix-subset"] = true
					}
				}
				nonTrivial = true
			default:
				opTerm, obTerm = "LAgain", "OPanic"
			}
		}()
		if panicked != "" {
			obTerm, ob = "OPanic", "panic: "+panicked
			tags["panic"] = true
			if opTerm == "" {
				opTerm = "LAgain"
			}
		}
		terms = append(terms, fmt.Sprintf("(%s, %s)", opTerm, obTerm))
		impl = append(impl, ob)
		if panicked != "" {
			break
		}
	}
	res.Term = "mk " + lib.List(terms)
	res.Impl = impl
	res.NonTrivial = nonTrivial
	for t := range tags {
		res.Tags = append(res.Tags, t)
	}
	sort.Strings(res.Tags)
	return res
}

func main() {
	log.SetOutput(io.Discard) // dastard logs every refused configuration
	h := lib.Harness{
		Gen: gen,
		RunCase: func(raw json.RawMessage) (lib.Result, error) {
			var c Case
			if err := json.Unmarshal(raw, &c); err != nil {
				return lib.Result{}, err
			}
			return runCase(c), nil
		},
		Header:   "From Coq Require Import String.\nFrom Dastard Require Import Common.ZX Common.CaseLib C19.Model C19.Spec C19.Run.\nOpen Scope string_scope.",
		Verdict:  "verdict",
		PerShard: 40,
	}
	h.Main()
}
