// C07 harness: file writing is record-atomic and order-preserving under any disk timing.
// Two drivers: gate.go (asyncbufio over a gate writer, deterministic, compared exactly with the model)
// and pipe.go (the real LJH 2.2 / LJH 3 / OFF writers on a stalling named pipe, trace inclusion).
package main

import (
	"encoding/json"

	"verifharness/lib"
)

type GOp struct {
	Op string `json:"op"` // gate: W F C R D T   pipe: B A S O F Y
	N  int    `json:"n,omitempty"`
	S  int    `json:"s,omitempty"`
}
type Case struct {
	ID    int64  `json:"id"`
	Kind  string `json:"kind"` // gate | pipe
	Cap   int    `json:"cap,omitempty"`
	Bsize int    `json:"bsize,omitempty"`
	Tick  bool   `json:"tick,omitempty"`
	Fmt   string `json:"fmt,omitempty"`   // ljh22 | ljh3 | off
	Warm  int    `json:"warm,omitempty"`  // pubflush: records written, flushed and closed through the same publisher in an earlier file
	N     int    `json:"n,omitempty"`     // samples per record (number of bases for off)
	Hdr   int    `json:"hdr,omitempty"`   // publish/off: samples per projector (size of the OFF header payload)
	Align bool   `json:"align,omitempty"` // pipe: raise N until the consumer stalls holding the first bytes of a record
	Ops   []GOp  `json:"ops"`
}

func sizeNear(r *lib.Rng, b int) int {
	switch r.Intn(10) {
	case 0:
		return 0
	case 1:
		return 1
	case 2:
		return b - 1
	case 3:
		return b
	case 4:
		return b + 1
	case 5:
		return 2*b + r.Range(-1, 1)
	case 6:
		return b/2 + r.Range(0, 1)
	case 7:
		return 3*b + r.Range(0, 2)
	default:
		return r.Range(0, b+b/2+2)
	}
}

func genGate(r *lib.Rng, tier string) Case {
	c := Case{Kind: "gate"}
	c.Cap = r.Pick([]int{1, 1, 2, 2, 3, 4, 5, 6, 7, 8})
	c.Bsize = r.Pick([]int{1, 2, 3, 5, 8, 8, 16, 16, 16, 31})
	big := r.Chance(1, 12)
	huge := false
	if big {
		c.Bsize = r.Pick([]int{4096, 4096, 4097, 8192})
		if r.Chance(1, 6) {
			c.Bsize, huge = 65536, true // the size ljh/off use; few and short: every byte is replayed inside Coq
		}
	}
	if r.Chance(1, 40) {
		c.Cap = 1000
	}
	nops := r.Range(6, 40)
	if tier == "thorough" {
		nops = r.Range(6, 120)
	}
	if big {
		nops = r.Range(6, 16)
	}
	if huge {
		nops = r.Range(3, 6)
	}
	fills, fillAt := 99, -1
	if c.Cap >= 1000 {
		nops, fills = r.Range(4, 14), 1 // one fill of the production depth is a thousand writes
		fillAt = r.Intn(nops)
	}
	start := r.Intn(256)
	w := func() GOp {
		n := sizeNear(r, c.Bsize)
		if n < 0 {
			n = 0
		}
		if big && c.Bsize == 65536 && n > 70000 {
			n = 65537
		}
		o := GOp{Op: "W", N: n, S: start}
		if r.Chance(1, 6) {
			o.Op = "S" // WriteString
		}
		start = (start + n + 7) % 256
		return o
	}
	closed := false
	for i := 0; i < nops; i++ {
		k := r.Intn(100)
		if i == fillAt {
			k = 50
		} else if fillAt >= 0 && k >= 45 && k < 55 {
			k = 0
		}
		switch {
		case k < 45:
			c.Ops = append(c.Ops, w())
		case k < 55 && fills > 0:
			fills--
			// try to fill the queue: park the consumer with a chunk larger than the buffer, then cap+1 more
			n := c.Cap + r.Range(0, 2)
			if n > 12 {
				n = c.Cap + 1
			}
			c.Ops = append(c.Ops, GOp{Op: "W", N: c.Bsize + 1 + r.Intn(3), S: start})
			start = (start + 11) % 256
			for j := 0; j < n; j++ {
				o := w()
				if c.Cap >= 1000 {
					o.N = r.Range(0, 2)
				}
				c.Ops = append(c.Ops, o)
			}
		case k < 73:
			c.Ops = append(c.Ops, GOp{Op: "R"})
		case k < 86:
			c.Ops = append(c.Ops, GOp{Op: "F"})
		case k < 95:
			c.Ops = append(c.Ops, GOp{Op: "D"})
		case k < 97 && !closed:
			c.Ops = append(c.Ops, GOp{Op: "C"})
			closed = true
		default:
			c.Ops = append(c.Ops, w())
		}
	}
	if closed && r.Chance(1, 2) {
		// documented misuse: Flush / Close after Close (panics); the script stops there
		c.Ops = append(c.Ops, GOp{Op: "D"}, GOp{Op: []string{"F", "C"}[r.Intn(2)]})
	}
	return c
}

func genTick(r *lib.Rng) Case {
	// real ticker with a short period.  The writer thread writes only while the consumer is parked in the
	// underlying writer or has nothing left to do, so the sequence of underlying writes does not depend
	// on when the ticks land (see design.d/C07.md).
	c := Case{Kind: "gate", Tick: true, Bsize: 4096, Cap: r.Range(1, 4)}
	start := r.Intn(256)
	wr := func(sizes []int) {
		sz := r.Pick(sizes)
		c.Ops = append(c.Ops, GOp{Op: "W", N: sz, S: start})
		start = (start + sz + 3) % 256
	}
	closed := false
	for i, n := 0, r.Range(2, 5); i < n && !closed; i++ {
		// one chunk; the periodic flush (or, for a chunk larger than the buffer, the write itself) parks the consumer
		wr([]int{1, 100, 4095, 4096, 4097, 8193, 5000})
		switch r.Intn(4) {
		case 0:
			c.Ops = append(c.Ops, GOp{Op: "D"})
		case 1:
			c.Ops = append(c.Ops, GOp{Op: "D"}, GOp{Op: "F"}, GOp{Op: "D"})
		default:
			// while the disk holds that write: more Writes are accepted, then Flush (or Close) is called;
			// it must wait for the disk and cover those Writes
			for k, nk := 0, r.Range(1, c.Cap+1); k < nk; k++ {
				wr([]int{0, 1, 7, 100, 2000, 4096, 4200})
			}
			if r.Chance(1, 4) {
				c.Ops = append(c.Ops, GOp{Op: "C"})
				closed = true
			} else {
				c.Ops = append(c.Ops, GOp{Op: "F"})
			}
			for k, nk := 0, r.Range(0, 2); k < nk; k++ {
				c.Ops = append(c.Ops, GOp{Op: "R"})
			}
			c.Ops = append(c.Ops, GOp{Op: "D"})
		}
	}
	return c
}

func genPipe(r *lib.Rng, format string) Case {
	c := Case{Kind: "pipe", Fmt: format}
	recBytes := 0
	switch format {
	case "ljh22":
		c.N = r.Pick([]int{250, 400, 600})
		recBytes = 16 + 2*c.N
	case "ljh3":
		c.N = r.Pick([]int{250, 400, 600})
		recBytes = 24 + 2*c.N
	default:
		c.N = r.Range(150, 300)
		recBytes = 36 + 4*c.N
	}
	// stall, then a burst large enough to fill bufio (64 KiB) + the pipe (64 KiB) + the queue (1000)
	fill := 2*65536/recBytes + 1000
	c.Ops = append(c.Ops, GOp{Op: "S"}, GOp{Op: "B", N: r.Range(0, 5)})
	if r.Chance(1, 2) {
		c.Ops = append(c.Ops, GOp{Op: "A", N: r.Range(1, 3*recBytes)}) // let a few bytes through, ending inside a record
	}
	c.Ops = append(c.Ops, GOp{Op: "B", N: fill + r.Range(20, 120)})
	switch r.Intn(3) {
	case 0:
		c.Ops = append(c.Ops, GOp{Op: "F"}, GOp{Op: "B", N: r.Range(1, 50)})
	case 1:
		c.Ops = append(c.Ops, GOp{Op: "A", N: r.Range(1, 20) * recBytes}, GOp{Op: "Y", N: 2000}, GOp{Op: "B", N: r.Range(5, 60)})
	default:
	}
	if r.Chance(1, 3) {
		c.Ops = append(c.Ops, GOp{Op: "O"}, GOp{Op: "B", N: r.Range(1, 30)}, GOp{Op: "F"})
	}
	return c
}

// through DataPublisher.PublishData (publish_data.go)
func genPub(r *lib.Rng, format string) Case {
	c := genPipe(r, map[string]string{"pub22": "ljh22", "pub3": "ljh3", "puboff": "off"}[format])
	c.Kind, c.Fmt = "pub", format
	if r.Chance(1, 2) {
		c.Ops = append(c.Ops, GOp{Op: "P"}, GOp{Op: "B", N: r.Range(1, 20)})
	}
	return c
}

// long records (thousands of samples / coefficients): a thousand of them queue up; several stall / refill
// cycles with different amounts let through, so that the queue becomes exactly full at varying positions
// inside the writers' call sequence
func genLongPipe(r *lib.Rng, format string, n int, cycles int, align bool) Case {
	c := Case{Kind: "pipe", Fmt: format, N: n, Align: align}
	recBytes := 16 + 2*n
	switch format {
	case "ljh3":
		recBytes = 24 + 2*n
	case "off":
		recBytes = 36 + 4*n
	}
	c.Ops = append(c.Ops, GOp{Op: "S"}, GOp{Op: "B", N: 2*65536/recBytes + 1000 + r.Range(15, 40)})
	for i := 0; i < cycles; i++ {
		c.Ops = append(c.Ops, GOp{Op: "A", N: r.Range(1, 40) * recBytes / 2}, GOp{Op: "Y", N: 3000}, GOp{Op: "B", N: r.Range(25, 45)})
	}
	return c
}

// several formats open on one channel, Flush / SetPause between small batches
func genPubFlush(r *lib.Rng) Case {
	c := Case{Kind: "pubflush", Fmt: []string{"22+off", "22+3", "3+off", "22+3+off", "22+3+off"}[r.Intn(5)], N: r.Pick([]int{16, 40, 100})}
	for i, n := 0, r.Range(2, 7); i < n; i++ {
		c.Ops = append(c.Ops, GOp{Op: "B", N: r.Range(1, 50)})
		c.Ops = append(c.Ops, GOp{Op: []string{"F", "F", "P"}[r.Intn(3)]})
	}
	if r.Chance(1, 2) {
		c.Ops = append(c.Ops, GOp{Op: "B", N: r.Range(1, 20)})
	}
	if r.Chance(1, 2) {
		// the publisher has written, flushed and closed an earlier file, with as many records as the first batch
		// of this one (or one more): bookkeeping left over from the earlier file must not matter (seed C07-18)
		c.Warm = c.Ops[0].N + r.Intn(2)*r.Intn(2)
	}
	return c
}

// a stall of several seconds (longer than any plausible time-out) across a Close / a Flush
func holdCase(r *lib.Rng, closing bool, ms int) Case {
	c := Case{Kind: "gate", Cap: r.Range(2, 5), Bsize: 8}
	ctl := "F"
	if closing {
		ctl = "C"
	}
	c.Ops = []GOp{{Op: "W", N: 9 + r.Intn(4), S: 1}, {Op: "W", N: r.Range(1, 8), S: 40}, {Op: "W", N: r.Range(0, 12), S: 90},
		{Op: ctl}, {Op: "Z", N: ms}, {Op: "R"}, {Op: "Z", N: 300}, {Op: "D"}}
	return c
}

// the consumer is parked, n small chunks queue up behind it, then Flush / Close
func backlogCase(depth, bsize, n int, ctl string) Case {
	c := Case{Kind: "gate", Cap: depth, Bsize: bsize}
	c.Ops = append(c.Ops, GOp{Op: "W", N: bsize + 1, S: 3})
	for i := 0; i < n; i++ {
		c.Ops = append(c.Ops, GOp{Op: "W", N: 1 + i%3, S: (7 * i) % 256})
	}
	c.Ops = append(c.Ops, GOp{Op: ctl}, GOp{Op: "D"}, GOp{Op: "W", N: 2, S: 9}, GOp{Op: "D"})
	return c
}

func w(n, s int) GOp { return GOp{Op: "W", N: n, S: s} }

func corpus() []Case {
	op := func(s string) GOp { return GOp{Op: s} }
	return []Case{
		// queue one short of full with the consumer parked: the witness of the pre-fix defect at the level
		// of asyncbufio (depth 4: of six one-byte parts four are accepted)
		{Kind: "gate", Cap: 4, Bsize: 8, Ops: []GOp{w(9, 0), w(1, 20), w(1, 21), w(1, 22), w(1, 23), w(1, 24), w(1, 25), op("F"), op("D")}},
		// chunk sizes around the buffer boundary, production constructor
		{Kind: "gate", Cap: 3, Bsize: 4096, Ops: []GOp{w(4095, 1), w(1, 2), w(1, 3), op("F"), op("R"), op("R"), w(4097, 9), op("F"), op("D"), w(8192, 5), w(4096, 77), op("D")}},
		{Kind: "gate", Cap: 2, Bsize: 65536, Ops: []GOp{w(65535, 1), w(2, 2), op("F"), op("D"), w(65537, 3), op("D")}},
		// writes accepted while a Flush is outstanding; Close with a full queue
		{Kind: "gate", Cap: 2, Bsize: 4, Ops: []GOp{w(3, 0), w(3, 10), op("F"), w(1, 20), w(1, 30), w(1, 40), op("R"), op("R"), op("C"), w(2, 50), op("D")}},
		// depth 1, empty chunks, Flush on an empty writer
		{Kind: "gate", Cap: 1, Bsize: 1, Ops: []GOp{op("F"), w(0, 0), w(0, 0), w(1, 5), w(2, 6), w(1, 9), op("R"), op("F"), op("D")}},
		// WriteString interleaved with Writes while the consumer is parked, and into an idle writer
		{Kind: "gate", Cap: 4, Bsize: 8, Ops: []GOp{{Op: "S", N: 5, S: 1}, w(9, 10), w(2, 30), {Op: "S", N: 3, S: 40}, w(1, 50), {Op: "S", N: 12, S: 60}, op("F"), op("R"), {Op: "S", N: 2, S: 80}, op("D")}},
		// a backlog of hundreds of queued chunks at Flush and at Close
		backlogCase(1000, 4096, 300, "C"),
		backlogCase(700, 16, 600, "F"),
		// documented misuse
		{Kind: "gate", Cap: 2, Bsize: 8, Ops: []GOp{w(3, 0), op("C"), op("D"), op("F")}},
		{Kind: "gate", Cap: 2, Bsize: 8, Ops: []GOp{w(3, 0), op("C"), op("D"), w(1, 1), w(1, 2), w(1, 3), op("C")}},
		// periodic flush; Writes, then Flush / Close, while the disk holds the write of a periodic flush
		{Kind: "gate", Cap: 3, Bsize: 4096, Tick: true, Ops: []GOp{w(10, 0), w(5, 20), w(7, 40), op("F"), op("R"), op("R"), op("D"), w(20, 60), w(3, 90), op("C"), op("D")}},
		{Kind: "gate", Cap: 2, Bsize: 4096, Tick: true, Ops: []GOp{w(100, 0), w(4096, 20), w(1, 40), w(1, 50), op("F"), op("D"), w(1, 60), op("D")}},
		{Kind: "gate", Cap: 2, Bsize: 4096, Tick: true, Ops: []GOp{w(10, 0), op("D"), w(4097, 3), op("D"), op("F"), op("D")}},
		// the defect witnesses on the real writers: reader stalled, burst past the queue capacity
	}
}

// the defect witnesses on the real writers: reader stalled, burst past queue + buffer + pipe capacity
func pipeCorpus() []Case {
	op := func(s string) GOp { return GOp{Op: s} }
	return []Case{
		{Kind: "pipe", Fmt: "ljh22", N: 250, Ops: []GOp{op("S"), {Op: "B", N: 1300}}},
		{Kind: "pipe", Fmt: "ljh3", N: 250, Ops: []GOp{op("S"), {Op: "B", N: 1300}}},
		{Kind: "pipe", Fmt: "off", N: 250, Ops: []GOp{op("S"), {Op: "B", N: 1180}}},
		// long records
		genLongPipe(lib.NewRng(71), "ljh22", 4096, 5, true),
		genLongPipe(lib.NewRng(72), "ljh3", 5000, 5, true),
		genLongPipe(lib.NewRng(73), "off", 600, 5, true),
		// several formats open, flushes between batches
		{Kind: "pubflush", Fmt: "22+off", N: 40, Ops: []GOp{{Op: "B", N: 7}, op("F"), {Op: "B", N: 30}, op("P"), {Op: "B", N: 3}}},
		{Kind: "pubflush", Fmt: "22+3+off", N: 100, Ops: []GOp{{Op: "B", N: 1}, op("F"), {Op: "B", N: 50}, op("F"), op("P"), {Op: "B", N: 9}, op("F")}},
		// ... and through DataPublisher.PublishData
		// stall (records rejected), recovery, more records, only then Flush / SetPause / Remove
		{Kind: "pub", Fmt: "puboff", N: 250, Ops: []GOp{op("S"), {Op: "B", N: 1180}, op("O"), {Op: "Y", N: 30000}, {Op: "B", N: 30}, op("F"), {Op: "B", N: 5}}},
		{Kind: "pub", Fmt: "pub22", N: 250, Ops: []GOp{op("S"), {Op: "B", N: 1300}, {Op: "A", N: 300000}, {Op: "Y", N: 30000}, {Op: "B", N: 40}, op("P"), {Op: "B", N: 5}, op("S"), {Op: "B", N: 300}, {Op: "K", N: 300}}},
		// an OFF header of more than 4 MiB (projectors and basis), a few records, no stall
		{Kind: "pub", Fmt: "puboff", N: 64, Hdr: 4200, Ops: []GOp{{Op: "B", N: 6}, op("F"), {Op: "B", N: 3}}},
		{Kind: "pub", Fmt: "pub22", N: 250, Ops: []GOp{op("S"), {Op: "B", N: 1300}}},
		{Kind: "pub", Fmt: "pub3", N: 250, Ops: []GOp{op("S"), {Op: "B", N: 1300}, op("F"), {Op: "B", N: 7}}},
		{Kind: "pub", Fmt: "puboff", N: 250, Ops: []GOp{op("S"), {Op: "B", N: 1180}, op("P"), {Op: "B", N: 5}}},
	}
}

func gen(seed uint64, tier string) []interface{} {
	r := lib.NewRng(seed)
	ngate, ntick, npipe := 100, 10, 0
	if tier == "thorough" {
		ngate, ntick, npipe = 2000, 40, 27
	}
	var out []interface{}
	id := int64(1)
	add := func(c Case) {
		c.ID = id
		id++
		out = append(out, c)
	}
	// first, so that its seconds of waiting overlap with everything else: a 6.5 s stall across a Close
	add(holdCase(lib.NewRng(7), true, 6500))
	for _, c := range corpus() {
		add(c)
	}
	// the (large) pipe cases are spread evenly so that every shard file gets about one
	every := 1
	np := 0
	npipe += len(pipeCorpus())
	every = ngate / npipe
	for i := 0; i < ngate; i++ {
		add(genGate(r.Fork(), tier))
		if i%every == every/2 && np < npipe {
			if np < len(pipeCorpus()) {
				add(pipeCorpus()[np])
			} else if (np-len(pipeCorpus()))%2 == 0 || tier != "thorough" {
				add(genPipe(r.Fork(), []string{"ljh22", "ljh3", "off"}[np%3]))
			} else {
				add(genPub(r.Fork(), []string{"pub22", "pub3", "puboff"}[np%3]))
			}
			np++
		}
	}
	for i := 0; i < ntick; i++ {
		add(genTick(r.Fork()))
	}
	if tier == "thorough" {
		add(holdCase(r.Fork(), false, 6500))
		add(holdCase(r.Fork(), true, 7000))
		add(holdCase(r.Fork(), false, 5500))
		for i, f := range []string{"ljh22", "ljh3", "off"} {
			add(genLongPipe(r.Fork(), f, []int{10000, 4096, 3000}[i], 8, false))
			add(genLongPipe(r.Fork(), f, []int{5000, 7000, 500}[i]+r.Intn(300), 3, true))
			// Close while the reader stays stalled for 6.5 s with more than bufio + pipe capacity pending
			add(Case{Kind: "pipe", Fmt: f, N: []int{250, 250, 60}[i], Ops: []GOp{{Op: "S"}, {Op: "B", N: 700}, {Op: "K", N: 6500}}})
		}
		for i := 0; i < 20; i++ {
			add(genPubFlush(r.Fork()))
		}
		// payloads from tiny to several MiB through asyncbufio.Writer (every byte is replayed inside Coq: few)
		for _, n := range []int{65536, 1 << 20, 4<<20 + 4096} {
			add(Case{Kind: "gate", Cap: 3, Bsize: r.Pick([]int{4096, 65536}), Ops: []GOp{w(1, 5), w(n, 9), w(0, 1), w(7, 30), {Op: "F"}, {Op: "D"}}})
		}
		// publisher-level path on a stalling disk: stall, recovery, more records, then Flush / SetPause / Remove
		for i, f := range []string{"pub22", "pub3", "puboff", "puboff", "pub3", "pub22"} {
			c := genPub(r.Fork(), f)
			c.Ops = append(c.Ops, GOp{Op: "O"}, GOp{Op: "Y", N: r.Range(5000, 40000)}, GOp{Op: "B", N: r.Range(5, 60)},
				GOp{Op: []string{"F", "P"}[i%2]}, GOp{Op: "B", N: r.Range(1, 9)})
			if i%3 == 0 {
				c.Ops = append(c.Ops, GOp{Op: "S"}, GOp{Op: "B", N: 400}, GOp{Op: "K", N: r.Pick([]int{200, 6500})})
			}
			add(c)
		}
		add(Case{Kind: "pub", Fmt: "puboff", N: 100, Hdr: 3000, Ops: []GOp{{Op: "S"}, {Op: "B", N: 4}, {Op: "O"}, {Op: "F"}, {Op: "B", N: 3}}})
	} else {
		add(genPubFlush(r.Fork()))
	}
	return out
}

func main() {
	h := lib.Harness{
		Gen: gen,
		RunCase: func(raw json.RawMessage) (lib.Result, error) {
			var c Case
			if err := json.Unmarshal(raw, &c); err != nil {
				return lib.Result{}, err
			}
			if c.Kind == "pipe" {
				return runPipe(c), nil
			}
			if c.Kind == "pub" {
				return runPub(c), nil
			}
			if c.Kind == "pubflush" {
				return runPubFlush(c), nil
			}
			if c.Cap < 1 {
				c.Cap = 1
			}
			if c.Bsize < 1 {
				c.Bsize = 1
			}
			return runGate(c), nil
		},
		Crash: func(raw json.RawMessage, stderr string) (lib.Result, error) {
			var c Case
			if err := json.Unmarshal(raw, &c); err != nil {
				return lib.Result{}, err
			}
			// the process died (a panic in a goroutine that cannot be recovered): rendered as a hung pipe
			// case, which the checker rejects
			return lib.Result{ID: c.ID, Term: "mkP [] [] [] true", Impl: map[string]string{"crash": stderr},
				Tags: []string{"process-crash"}, Hash: lib.Hash(c)}, nil
		},
		Header:   "From Dastard Require Import Common.ZX Common.CaseLib C07.Model C07.Spec C07.Run.",
		Verdict:  "verdict",
		PerShard: 11,
		Isolate:  true,
		Chunk:    12,
		Workers:  6,
	}
	h.Main()
}
