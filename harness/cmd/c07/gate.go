// Driver (a): asyncbufio.Writer over a gate io.Writer.  Every call is made from its own goroutine;
// after each action the driver waits until every goroutine involved (the consumer writeLoop, the
// outstanding calls) is blocked in a channel operation - read off a stop-the-world goroutine dump -
// so every observation is made in a quiescent state and the run is deterministic.
package main

import (
	"bufio"
	"bytes"
	"fmt"
	"io"
	"regexp"
	"runtime"
	"sort"
	"strconv"
	"strings"
	"sync"
	"time"

	"github.com/usnistgov/dastard/asyncbufio"
	"verifharness/lib"
)

// ---- the gate ----
type gate struct {
	mu       sync.Mutex
	contents []byte
	done     [][]byte // completed underlying writes
	parked   []byte
	isParked bool
	release  chan struct{}
}

func newGate() *gate { return &gate{release: make(chan struct{})} }

func (g *gate) Write(p []byte) (int, error) {
	cp := append([]byte{}, p...)
	g.mu.Lock()
	g.parked, g.isParked = cp, true
	g.mu.Unlock()
	gateWait(g.release)
	g.mu.Lock()
	g.contents = append(g.contents, cp...)
	g.done = append(g.done, cp)
	g.parked, g.isParked = nil, false
	g.mu.Unlock()
	return len(p), nil
}

//go:noinline
func gateWait(c chan struct{}) { <-c }

func (g *gate) snapshot() (contents []byte, ndone int, parked []byte, isParked bool) {
	g.mu.Lock()
	defer g.mu.Unlock()
	return append([]byte{}, g.contents...), len(g.done), g.parked, g.isParked
}

// ---- goroutine states from a stop-the-world dump ----
type gstate struct {
	id    int
	state string
	text  string
}

var hdrRe = regexp.MustCompile(`^goroutine (\d+) \[([^\],]*)`)

func dump() []gstate {
	buf := make([]byte, 1<<20)
	for {
		n := runtime.Stack(buf, true)
		if n < len(buf) {
			buf = buf[:n]
			break
		}
		buf = make([]byte, 2*len(buf))
	}
	var out []gstate
	for _, blk := range strings.Split(string(buf), "\n\n") {
		m := hdrRe.FindStringSubmatch(blk)
		if m == nil {
			continue
		}
		id, _ := strconv.Atoi(m[1])
		out = append(out, gstate{id, m[2], blk})
	}
	return out
}

func isBlocked(state string) bool {
	return state == "chan receive" || state == "chan send" || state == "select"
}

// goroutines are recognised by their "created by" line, which is present from the moment of creation
// (the frames of a goroutine that has not run yet show only a compiler-generated wrapper)
const consumerFn = "created by github.com/usnistgov/dastard/asyncbufio.NewWriter"
const callFn = "created by main.runGate"

func consumerIDs() map[int]bool {
	ids := map[int]bool{}
	for _, g := range dump() {
		if strings.Contains(g.text, consumerFn) {
			ids[g.id] = true
		}
	}
	return ids
}

type callRes struct {
	n        int
	err      error
	panicked bool
	file     []byte // contents of the gate at the moment a Flush/Close returned
	ndone    int    // ... and the number of completed underlying writes
}

//go:noinline
func writeCall(f func() (int, error), ch chan callRes) {
	defer func() {
		if e := recover(); e != nil {
			ch <- callRes{panicked: true}
		}
	}()
	n, err := f()
	ch <- callRes{n: n, err: err}
}

//go:noinline
func ctlCall(f func(), g *gate, ch chan callRes) {
	defer func() {
		if e := recover(); e != nil {
			ch <- callRes{panicked: true}
		}
	}()
	f()
	// the contents change only when the driver releases a parked write, and the driver is waiting
	contents, ndone, _, _ := g.snapshot()
	ch <- callRes{file: contents, ndone: ndone}
}

type quiet struct {
	consumer string // "" = exited, else its blocked state
	write    bool   // a Write call is still outstanding (blocked)
	ctl      bool   // a Flush/Close call is still outstanding (blocked)
	hung     bool   // never became quiescent
}

// quiesce waits until the consumer with the given goroutine id and all call goroutines are blocked or gone.
func quiesce(consID int, limit time.Duration) quiet {
	deadline := time.Now().Add(limit)
	for iter := 0; ; iter++ {
		var q quiet
		ok := true
		for _, g := range dump() {
			switch {
			case g.id == consID && strings.Contains(g.text, consumerFn):
				q.consumer = g.state
				if !isBlocked(g.state) {
					ok = false
				}
			case strings.Contains(g.text, callFn):
				q.ctl = true
				if !isBlocked(g.state) {
					ok = false
				}
			}
		}
		if ok {
			return q
		}
		if time.Now().After(deadline) {
			q.hung = true
			return q
		}
		if iter < 50 {
			runtime.Gosched()
		} else {
			time.Sleep(50 * time.Microsecond)
		}
	}
}

// ---- rendering ----
type gobs struct {
	Res   string  `json:"res"`  // "w:<n>:<ok>", "none", "blocked", "panic"
	Done  []int   `json:"done"` // lengths of the underlying writes that returned
	Gate  int     `json:"gate"` // length of the parked write, -1 = not parked
	Ret   int     `json:"ret"`  // length of the file when Flush/Close returned, -1 = no return
	Exit  bool    `json:"exit"`
	Op    string  `json:"op"`
	bytes obsData `json:"-"`
}
type obsData struct {
	done0, done1 int // indices of the underlying writes that returned during the action
	gate         int // index of the parked write, -1 = none
	ret          int // number of completed writes when Flush/Close returned, -1 = no return
}

func (o *gobs) term(op GOp) string {
	var res string
	switch {
	case strings.HasPrefix(o.Res, "w:"):
		p := strings.Split(o.Res, ":")
		res = fmt.Sprintf("(RW %s %s)", p[1], p[2])
	case o.Res == "none":
		res = "RNone"
	case o.Res == "blocked":
		res = "RBlocked"
	default:
		res = "RPanic"
	}
	tail := fmt.Sprintf("%s %d %d %s %s %s", res, o.bytes.done0, o.bytes.done1, lib.Z(int64(o.bytes.gate)),
		lib.Z(int64(o.bytes.ret)), lib.B(o.Exit))
	switch op.Op {
	case "W", "S":
		return fmt.Sprintf("W %s %s", segs(chunkBytes(op)), tail)
	case "F":
		return "Ct false " + tail
	case "C":
		return "Ct true " + tail
	case "R":
		return "Rl " + tail
	case "D":
		return "Dr " + tail
	case "Z":
		return "Hd " + tail
	default:
		return "Tk " + tail
	}
}

func chunkBytes(op GOp) []byte {
	b := make([]byte, op.N)
	for i := range b {
		b[i] = byte(op.S + i)
	}
	return b
}

const tickPeriod = 2 * time.Millisecond

func runGate(c Case) lib.Result {
	res := lib.Result{ID: c.ID, Hash: lib.Hash(struct {
		K    string
		C, B int
		T    bool
		O    []GOp
	}{"gate", c.Cap, c.Bsize, c.Tick, c.Ops})}
	tags := map[string]bool{"gate": true}
	before := consumerIDs()
	g := newGate()
	interval := 1000 * time.Hour
	if c.Tick {
		interval = tickPeriod
		tags["tick-mode"] = true
	}
	var aw *asyncbufio.Writer
	switch {
	case c.Bsize == 4096:
		aw = asyncbufio.NewWriter(g, c.Cap, interval) // the production constructor, default bufio size
		tags["ctor-real"] = true
	case c.Bsize > 4096:
		aw = asyncbufio.NewWriter(bufio.NewWriterSize(g, c.Bsize), c.Cap, interval) // as ljh/off do
		tags["ctor-real-wrapped"] = true
	default:
		aw = asyncbufio.VerifNewWriterSize(g, c.Cap, interval, c.Bsize)
		tags["ctor-small-buffer"] = true
	}
	consID := -1
	for id := range consumerIDs() {
		if !before[id] {
			consID = id
		}
	}
	if consID < 0 {
		panic("c07: consumer goroutine not found in the goroutine dump")
	}
	if c.Cap >= 1000 {
		tags["depth-production"] = true
	}

	limit := 20 * time.Second
	var terms []string
	var impl []gobs
	accBytes := 0
	var ctlCh chan callRes
	closeCalled := false
	full := false
	stop := false
	seenDone := 0

	// settle: wait for quiescence; in tick mode also for the periodic flush to bring everything
	// accepted in front of the underlying writer
	settle := func() quiet {
		q := quiesce(consID, limit)
		if !c.Tick || q.hung {
			return q
		}
		deadline := time.Now().Add(limit)
		for {
			contents, _, parked, isParked := g.snapshot()
			if isParked {
				return quiesce(consID, limit) // parked is stable: refresh the goroutine states
			}
			if len(contents)+len(parked) >= accBytes || q.consumer == "" {
				return q
			}
			if time.Now().After(deadline) {
				q.hung = true
				return q
			}
			time.Sleep(200 * time.Microsecond)
			q = quiesce(consID, limit)
			if q.hung {
				return q
			}
		}
	}

	exec := func(op GOp) {
		if stop {
			return
		}
		ob := gobs{Res: "none", Gate: -1, Ret: -1, Op: op.Op}
		ob.bytes.gate, ob.bytes.ret = -1, -1
		var q quiet
		switch op.Op {
		case "W", "S":
			data := chunkBytes(op)
			ch := make(chan callRes, 1)
			if op.Op == "S" {
				// WriteString: in the model a Write of the string's bytes
				str := string(data)
				go writeCall(func() (int, error) { return aw.WriteString(str) }, ch)
				tags["write-string"] = true
			} else {
				go writeCall(func() (int, error) { return aw.Write(data) }, ch)
			}
			q = quiesce(consID, limit)
			select {
			case r := <-ch:
				switch {
				case r.panicked:
					ob.Res = "panic"
					stop = true
				case r.err == nil:
					ob.Res = fmt.Sprintf("w:%d:true", r.n)
					accBytes += r.n
				default:
					ob.Res = fmt.Sprintf("w:%d:false", r.n)
					full = true
					tags["write-rejected"] = true
				}
			default:
				ob.Res = "blocked"
				tags["write-blocked"] = true
				stop = true
			}
			if c.Tick && !q.hung {
				q = settle() // now that the accepted byte count is known: wait for the periodic flush
			}
			if op.N == 0 {
				tags["empty-chunk"] = true
			}
			if op.N > c.Bsize {
				tags["chunk-larger-than-buffer"] = true
			} else if op.N == c.Bsize {
				tags["chunk-equals-buffer"] = true
			}
		case "F", "C":
			if ctlCh != nil {
				return // one control call at a time: the action is dropped, not rendered
			}
			if closeCalled {
				tags["ctl-after-close"] = true
			}
			ctlCh = make(chan callRes, 1)
			if op.Op == "F" {
				go ctlCall(func() { aw.Flush() }, g, ctlCh)
			} else {
				go ctlCall(aw.Close, g, ctlCh)
				closeCalled = true
			}
			q = settle()
		case "R":
			_, _, _, isParked := g.snapshot()
			if isParked {
				g.release <- struct{}{}
				tags["release"] = true
			}
			q = settle()
		case "D":
			q = settle()
			for !q.hung {
				_, _, _, isParked := g.snapshot()
				if !isParked {
					break
				}
				g.release <- struct{}{}
				q = settle()
			}
		case "Z":
			// wall-clock time passes while nothing is released: a stall of any length may only delay
			// an outstanding Flush/Close, never let it return
			time.Sleep(time.Duration(op.N) * time.Millisecond)
			q = settle()
			tags["hold"] = true
		case "T":
			if !c.Tick {
				return
			}
			q = settle()
		default:
			return
		}
		if q.hung {
			tags["never-quiescent"] = true
			stop = true
		}
		// the outstanding control call
		if ctlCh != nil {
			select {
			case r := <-ctlCh:
				ctlCh = nil
				if r.panicked {
					ob.Res = "panic"
					tags["ctl-panic"] = true
					stop = true
				} else {
					ob.bytes.ret, ob.Ret = r.ndone, len(r.file)
					if op.Op != "F" && op.Op != "C" {
						tags["ctl-returns-later"] = true
					}
				}
			default:
				if (op.Op == "W" || op.Op == "S") && ob.Res != "blocked" {
					tags["write-during-flush"] = true
				}
			}
		}
		_, ndone, parked, isParked := g.snapshot()
		g.mu.Lock()
		for _, d := range g.done[seenDone:ndone] {
			ob.Done = append(ob.Done, len(d))
		}
		g.mu.Unlock()
		ob.bytes.done0, ob.bytes.done1 = seenDone, ndone
		seenDone = ndone
		if isParked {
			ob.bytes.gate, ob.Gate = ndone, len(parked)
			tags["parked"] = true
		}
		ob.Exit = q.consumer == "" && !q.hung
		// the consumer must be where we think it is
		if isParked && q.consumer != "chan receive" && !q.hung {
			panic("c07: gate parked but consumer state is " + q.consumer)
		}
		terms = append(terms, ob.term(op))
		impl = append(impl, ob)
	}
	for _, op := range c.Ops {
		exec(op)
	}
	// finale: let an outstanding Flush finish, Close (if the script has not), let the disk catch up
	if ctlCh != nil {
		exec(GOp{Op: "D"})
	}
	if !closeCalled && ctlCh == nil {
		exec(GOp{Op: "C"})
	}
	exec(GOp{Op: "D"})
	// every underlying write is listed once and referred to by index
	_, _, parkedNow, isParkedNow := g.snapshot()
	g.mu.Lock()
	writes := append([][]byte{}, g.done...)
	g.mu.Unlock()
	if isParkedNow {
		writes = append(writes, parkedNow)
	}
	var ws []string
	for _, wbytes := range writes {
		ws = append(ws, segs(wbytes))
	}
	res.Term = fmt.Sprintf("mkG %d %d %s %s\n  %s", c.Cap, c.Bsize, lib.B(c.Tick), lib.List(ws), lib.List(terms))

	res.Impl = impl
	res.NonTrivial = full
	if full {
		tags["queue-full"] = true
	}
	for t := range tags {
		res.Tags = append(res.Tags, t)
	}
	sort.Strings(res.Tags)
	return res
}

var _ = bytes.Equal
var _ io.Writer = (*gate)(nil)
