// Driver (c): the same stalling named pipe, but the records go through DataPublisher.PublishData
// (publish_data.go), which creates the file, writes the header on the first batch and ignores the
// result of the LJH WriteRecord calls.  Which records were accepted is therefore unknown; the file must
// still be the header followed by whole records only, in order (C07_check_pipe_sub).
package main

import (
	"fmt"
	"math"
	"os"
	"path/filepath"
	"sort"
	"sync"
	"syscall"
	"time"

	"github.com/usnistgov/dastard"
	"gonum.org/v1/gonum/mat"
	"verifharness/lib"
)

type pubTarget struct {
	dsp   *dastard.DataStreamProcessor
	fmt   string
	n     int
	ns    int // OFF: samples per projector (the header carries 2 x n x ns float64)
	ctime time.Time
}

// plausibleHeader is an implementation-independent sanity check of a reference header (which is itself
// written by the implementation): the format's opening bytes and a lower bound on the length.
func plausibleHeader(format string, hdr []byte, minLen int) bool {
	magic := "{"
	if format == "pub22" || format == "ljh22" {
		magic = "#LJH Memorial File Format"
	}
	return len(hdr) >= minLen && len(hdr) >= len(magic) && string(hdr[:len(magic)]) == magic
}

// headerStandIn is what the checker is given when the reference header is not plausible: the opening
// bytes every header of the format has (the stream must at least begin with those).
func headerStandIn(format string) []byte {
	if format == "pub22" || format == "ljh22" {
		return []byte("#LJH Memorial File Format")
	}
	return []byte("{")
}

const pubNpre = 10

func (t *pubTarget) configure(path string) {
	dp := t.dsp.VerifPublisher()
	switch t.fmt {
	case "pub22":
		dp.SetLJH22(3, pubNpre, t.n, 1, 1e-5, t0, 4, 2, 8, 64, 2, 1, 5, path, "verif", "chan3", 3, dastard.Pixel{Name: "p"})
	case "pub3":
		dp.SetLJH3(3, 1e-5, 4, 2, 64, 5, path)
	default:
		nb, ns := t.n, t.ns
		if ns <= 0 {
			ns = 4
		}
		pd := make([]float64, nb*ns)
		bd := make([]float64, nb*ns)
		for i := range pd {
			if nb*ns > 400 {
				break // many coefficients: all-zero matrices keep the rendered header short
			}
			pd[i] = float64(i % 4)
			bd[i] = float64(i%5) - 1
		}
		dp.SetOFF(3, pubNpre, 40, 1, 1e-5, t0, 4, 2, 8, 64, 2, 1, 5, path, "verif", "chan3", 3,
			mat.NewDense(nb, ns, pd), mat.NewDense(ns, nb, bd), "model", dastard.Pixel{Name: "p"})
		dp.OFF.CreationInfo.CreationTime = t.ctime
	}
}

// record i as PublishData receives it, and the bytes a whole record has in the file
func (t *pubTarget) record(i int) (dastard.VerifRecord, []byte) {
	frame, ns := int64(1+i), int64(1000*(7+i%249))
	switch t.fmt {
	case "pub22":
		data := make([]uint16, t.n)
		for j := range data {
			data[j] = sample(i, j)
		}
		exp := append(append(le(frame*64+5), le(ns/1000)...), le(data)...)
		return dastard.VerifRecord{Chan: 0, Frame: frame, TimeNs: ns, Pre: pubNpre, Data: data}, exp
	case "pub3":
		n := t.n + i%3
		data := make([]uint16, n)
		for j := range data {
			data[j] = sample(i, j)
		}
		exp := append(append(append(append(le(int32(n)), le(int32(pubNpre+1))...), le(frame)...), le(ns/1000)...), le(data)...)
		return dastard.VerifRecord{Chan: 0, Frame: frame, TimeNs: ns, Pre: pubNpre, Data: data}, exp
	default:
		coefs := make([]float64, t.n)
		c32 := make([]float32, t.n)
		for j := range coefs {
			// float32 bit patterns whose bytes continue a ramp (cheap to render), never NaN/Inf;
			// widened to float64 exactly, so PublishData's float32(v) gives the pattern back
			b := uint32(byte(5*i + 4*j))
			if (b+3)&0x7f == 0x7f {
				b -= 8
			}
			c32[j] = math.Float32frombits(b&255 | (b+1)&255<<8 | (b+2)&255<<16 | (b+3)&255<<24)
			coefs[j] = float64(c32[j])
		}
		data := make([]uint16, 40)
		exp := le(int32(len(data)))
		for _, p := range [][]byte{le(int32(pubNpre)), le(frame), le(ns), le(float32(0)), le(float32(0)), le(float32(0)), le(c32)} {
			exp = append(exp, p...)
		}
		return dastard.VerifRecord{Chan: 0, Frame: frame, TimeNs: ns, Pre: pubNpre, Data: data, ModelCoefs: coefs}, exp
	}
}

func pubAttempt(c Case, dir string, limit time.Duration) (hdr []byte, recs [][]byte, stream []byte, hung bool) {
	bench, err := dastard.VerifNewBench(2, pubNpre, 40, 100000, nil)
	if err != nil {
		panic(err)
	}
	defer bench.Close()
	stamp := time.Now().UnixNano()
	path := filepath.Join(dir, fmt.Sprintf("c07_pfifo_%d_%d_%d", os.Getpid(), c.ID, stamp))
	ref := filepath.Join(dir, fmt.Sprintf("c07_pref_%d_%d_%d", os.Getpid(), c.ID, stamp))
	if err := syscall.Mkfifo(path, 0o600); err != nil {
		panic(err)
	}
	defer os.Remove(path)
	defer os.Remove(ref)
	ctime := time.Unix(1700000123, 456000000).UTC()
	tgt := &pubTarget{dsp: bench.VerifDsp(0), fmt: c.Fmt, n: c.N, ns: c.Hdr, ctime: ctime}
	rtg := &pubTarget{dsp: bench.VerifDsp(1), fmt: c.Fmt, n: c.N, ns: c.Hdr, ctime: ctime}
	// reference header: the same first record published through a second publisher to a plain file
	rtg.configure(ref)
	r0, e0 := rtg.record(0)
	if err := rtg.dsp.VerifPublish([]dastard.VerifRecord{r0}); err != nil {
		panic(err)
	}
	rdp := rtg.dsp.VerifPublisher()
	rdp.RemoveLJH22()
	rdp.RemoveLJH3()
	rdp.RemoveOFF()
	whole, err := os.ReadFile(ref)
	if err != nil || len(whole) < len(e0) {
		panic(fmt.Sprint("c07: reference file: ", err, len(whole)))
	}
	hdr = whole[:len(whole)-len(e0)]
	minLen := 1
	if c.Fmt == "puboff" {
		ns := c.Hdr
		if ns <= 0 {
			ns = 4
		}
		minLen = 16 * c.N * ns // projectors and basis
	}
	if !plausibleHeader(c.Fmt, hdr, minLen) {
		hdr = headerStandIn(c.Fmt)
	}

	rd := newBudgetReader()
	go rd.run(path)
	var mu sync.Mutex
	finished := make(chan struct{})
	go func() {
		defer close(finished)
		tgt.configure(path)
		dp := tgt.dsp.VerifPublisher()
		i := 0
		for _, op := range c.Ops {
			switch op.Op {
			case "B":
				for k := 0; k < op.N; {
					nb := 1 + (i % 4) // batches of 1..4 records, as TriggerData delivers them
					var batch []dastard.VerifRecord
					for b := 0; b < nb && k < op.N; b++ {
						r, exp := tgt.record(i)
						batch = append(batch, r)
						mu.Lock()
						recs = append(recs, exp)
						mu.Unlock()
						i++
						k++
					}
					tgt.dsp.VerifPublish(batch) // the OFF error (queue full) is not needed: acceptance is judged from the stream
				}
			case "A":
				rd.add(int64(op.N))
			case "S":
				rd.set(0)
			case "O":
				rd.set(-1)
			case "F":
				rd.set(-1)
				dp.Flush()
			case "P": // pause and unpause (SetPause flushes)
				rd.set(-1)
				dp.SetPause(true)
				dp.SetPause(false)
			case "Y":
				time.Sleep(time.Duration(op.N) * time.Microsecond) // lets the writer goroutine catch up; outcomes are judged, not predicted
			case "K":
				// stop writing (Remove...) while the reader stays stalled for op.N ms more
				cdone := make(chan struct{})
				go func() { dp.RemoveLJH22(); dp.RemoveLJH3(); dp.RemoveOFF(); close(cdone) }()
				time.Sleep(time.Duration(op.N) * time.Millisecond)
				rd.set(-1)
				<-cdone
			}
		}
		rd.set(-1)
		dp.RemoveLJH22()
		dp.RemoveLJH3()
		dp.RemoveOFF()
		<-rd.eof
	}()
	select {
	case <-finished:
	case <-time.After(limit):
		hung = true
		rd.set(-1)
		time.Sleep(100 * time.Millisecond)
	}
	mu.Lock()
	recs = append([][]byte{}, recs...)
	mu.Unlock()
	rd.mu.Lock()
	stream = append([]byte{}, rd.got...)
	rd.mu.Unlock()
	return
}

func runPub(c Case) lib.Result {
	res := lib.Result{ID: c.ID, Hash: lib.Hash(struct {
		K, F string
		N    int
		O    []GOp
	}{"pub", c.Fmt, c.N + 100000*c.Hdr, c.Ops})}
	dir, _ := os.Getwd()
	tags := map[string]bool{"publish": true, "publish-" + c.Fmt: true}
	hdr, recs, stream, hung := pubAttempt(c, dir, 30*time.Second)
	if hung {
		tags["watchdog-retry"] = true
		hdr, recs, stream, hung = pubAttempt(c, dir, 150*time.Second)
	}
	total := len(hdr)
	var rs []string
	for _, r := range recs {
		rs = append(rs, segs(r))
		total += len(r)
	}
	dropped := total > len(stream) // fewer bytes than header + all records: some record was rejected
	if dropped {
		tags["queue-full"] = true
		tags["record-rejected"] = true
	}
	if hung {
		tags["hung"] = true
	}
	res.Term = fmt.Sprintf("mkPS %s\n  %s\n  %s %s", segs(hdr), nested(rs, 200), nested(segList(stream), 400), lib.B(hung))
	res.Impl = map[string]interface{}{"header_len": len(hdr), "records": len(recs), "stream_len": len(stream),
		"all_records_len": total - len(hdr), "hung": hung}
	res.NonTrivial = dropped
	for t := range tags {
		res.Tags = append(res.Tags, t)
	}
	sort.Strings(res.Tags)
	return res
}

// ---- several formats open on one channel; Flush / SetPause between batches; plain files ----
// At most maxBetweenFlushes records are written between two flushes, far fewer than the queue holds, so
// every record is accepted and each open file must contain ALL records written when the call returns.
const maxBetweenFlushes = 60

type flushFile struct {
	name  string // "22" "3" "off"
	path  string
	hdr   []byte
	recs  [][]byte
	snapN []int
	snapB [][]byte
}

func runPubFlush(c Case) lib.Result {
	res := lib.Result{ID: c.ID, Hash: lib.Hash(struct {
		K, F string
		N    int
		O    []GOp
		W    int
	}{"pubflush", c.Fmt, c.N, c.Ops, c.Warm})}
	dir, _ := os.Getwd()
	tags := map[string]bool{"multi-format-flush": true, "formats-" + c.Fmt: true}
	bench, err := dastard.VerifNewBench(2, pubNpre, c.N, 100000, nil)
	if err != nil {
		panic(err)
	}
	defer bench.Close()
	stamp := time.Now().UnixNano()
	ctime := time.Unix(1700000123, 456000000).UTC()
	nb := 8
	has := func(f string) bool { // c.Fmt is e.g. "22+off", "22+3+off"
		for _, p := range splitPlus(c.Fmt) {
			if p == f {
				return true
			}
		}
		return false
	}
	var files []*flushFile
	configure := func(dsp *dastard.DataStreamProcessor, suffix string, collect bool) {
		dp := dsp.VerifPublisher()
		mk := func(name string) string {
			p := filepath.Join(dir, fmt.Sprintf("c07_mf_%d_%d_%d_%s_%s", os.Getpid(), c.ID, stamp, name, suffix))
			if collect {
				files = append(files, &flushFile{name: name, path: p})
			}
			return p
		}
		if has("22") {
			dp.SetLJH22(3, pubNpre, c.N, 1, 1e-5, t0, 4, 2, 8, 64, 2, 1, 5, mk("22"), "verif", "chan3", 3, dastard.Pixel{Name: "p"})
		}
		if has("3") {
			dp.SetLJH3(3, 1e-5, 4, 2, 64, 5, mk("3"))
		}
		if has("off") {
			pd := make([]float64, nb*4)
			bd := make([]float64, nb*4)
			for i := range pd {
				pd[i] = float64(i % 4)
				bd[i] = float64(i%5) - 1
			}
			dp.SetOFF(3, pubNpre, c.N, 1, 1e-5, t0, 4, 2, 8, 64, 2, 1, 5, mk("off"), "verif", "chan3", 3,
				mat.NewDense(nb, 4, pd), mat.NewDense(4, nb, bd), "model", dastard.Pixel{Name: "p"})
			dp.OFF.CreationInfo.CreationTime = ctime
		}
	}
	record := func(i int) (dastard.VerifRecord, map[string][]byte) {
		frame, ns := int64(1+i), int64(1000*(7+i%249))
		data := make([]uint16, c.N)
		for j := range data {
			data[j] = sample(i, j)
		}
		coefs := make([]float64, nb)
		c32 := make([]float32, nb)
		for j := range coefs {
			coefs[j] = float64((i + 3*j) % 64)
			c32[j] = float32(coefs[j])
		}
		exp := map[string][]byte{}
		exp["22"] = append(append(le(frame*64+5), le(ns/1000)...), le(data)...)
		exp["3"] = append(append(append(append(le(int32(c.N)), le(int32(pubNpre+1))...), le(frame)...), le(ns/1000)...), le(data)...)
		o := le(int32(c.N))
		for _, p := range [][]byte{le(int32(pubNpre)), le(frame), le(ns), le(float32(2)), le(float32(0)), le(float32(1)), le(c32)} {
			o = append(o, p...)
		}
		exp["off"] = o
		return dastard.VerifRecord{Chan: 0, Frame: frame, TimeNs: ns, Pre: pubNpre, Data: data, PretrigMean: 2,
			ResidualStdDev: 1, ModelCoefs: coefs}, exp
	}
	// reference headers: the first record through the second processor, files closed at once
	var refs []*flushFile
	{
		save := files
		files = nil
		configure(bench.VerifDsp(1), "ref", true)
		refs, files = files, save
		r0, e0 := record(0)
		if err := bench.VerifDsp(1).VerifPublish([]dastard.VerifRecord{r0}); err != nil {
			panic(err)
		}
		rdp := bench.VerifDsp(1).VerifPublisher()
		rdp.RemoveLJH22()
		rdp.RemoveLJH3()
		rdp.RemoveOFF()
		for _, rf := range refs {
			whole, err := os.ReadFile(rf.path)
			os.Remove(rf.path)
			if err != nil || len(whole) < len(e0[rf.name]) {
				panic(fmt.Sprint("c07: reference file ", rf.path, err))
			}
			rf.hdr = whole[:len(whole)-len(e0[rf.name])]
		}
	}
	dsp := bench.VerifDsp(0)
	if c.Warm > 0 {
		// an earlier file through the SAME publisher: c.Warm records, flush, close; its files are discarded
		tags["publisher-used-before"] = true
		save := files
		files = nil
		configure(dsp, "warm", true)
		warm := files
		files = save
		for j := 0; j < c.Warm; j++ {
			rj, _ := record(j)
			if err := dsp.VerifPublish([]dastard.VerifRecord{rj}); err != nil {
				panic(err)
			}
		}
		wdp := dsp.VerifPublisher()
		wdp.Flush()
		wdp.RemoveLJH22()
		wdp.RemoveLJH3()
		wdp.RemoveOFF()
		for _, wf := range warm {
			os.Remove(wf.path)
		}
	}
	configure(dsp, "out", true)
	for k, f := range files {
		f.hdr = refs[k].hdr
		defer os.Remove(f.path)
	}
	dp := dsp.VerifPublisher()
	snapshot := func() {
		for _, f := range files {
			b, _ := os.ReadFile(f.path)
			f.snapN = append(f.snapN, len(f.recs))
			f.snapB = append(f.snapB, b)
		}
	}
	i, since := 0, 0
	for _, op := range c.Ops {
		switch op.Op {
		case "B":
			for k := 0; k < op.N && since < maxBetweenFlushes; {
				n := 1 + (i % 4)
				var batch []dastard.VerifRecord
				for b := 0; b < n && k < op.N && since < maxBetweenFlushes; b++ {
					r, exp := record(i)
					batch = append(batch, r)
					for _, f := range files {
						f.recs = append(f.recs, exp[f.name])
					}
					i++
					k++
					since++
				}
				if err := dsp.VerifPublish(batch); err != nil {
					tags["publish-error"] = true
				}
			}
		case "F":
			dp.Flush()
			snapshot()
			since = 0
			tags["flush"] = true
		case "P":
			dp.SetPause(true)
			snapshot()
			dp.SetPause(false)
			since = 0
			tags["pause"] = true
		}
	}
	dp.RemoveLJH22()
	dp.RemoveLJH3()
	dp.RemoveOFF()
	snapshot() // after close
	var fterms []string
	impl := map[string]interface{}{}
	for _, f := range files {
		var rs, sn []string
		for _, r := range f.recs {
			rs = append(rs, segs(r))
		}
		var lens []int
		for k := range f.snapN {
			sn = append(sn, fmt.Sprintf("(%d, %s)", f.snapN[k], nested(segList(f.snapB[k]), 400)))
			lens = append(lens, len(f.snapB[k]))
		}
		fterms = append(fterms, fmt.Sprintf("mkF %s\n   %s\n   %s", segs(f.hdr), lib.List(rs), lib.List(sn)))
		impl[f.name] = map[string]interface{}{"header_len": len(f.hdr), "records": len(f.recs), "records_at_flush": f.snapN, "file_len_at_flush": lens}
	}
	res.Term = "mkFC " + lib.List(fterms)
	res.Impl = impl
	res.NonTrivial = false
	for t := range tags {
		res.Tags = append(res.Tags, t)
	}
	sort.Strings(res.Tags)
	return res
}

func splitPlus(s string) []string {
	var out []string
	cur := ""
	for _, ch := range s {
		if ch == '+' {
			out = append(out, cur)
			cur = ""
		} else {
			cur += string(ch)
		}
	}
	return append(out, cur)
}
