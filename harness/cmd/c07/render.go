package main

import (
	"fmt"
	"strings"
)

// segs renders any byte string losslessly as a Coq list of (start, length, step) runs, step 0 or 1
// (value j of a run = start + step*j mod 256); expanded again inside Coq by Spec.expand.
func segs(b []byte) string { return "[" + strings.Join(segList(b), ";") + "]" }

// nested renders a long list as a list of short lists (Coq's parser recurses on list length)
func nested(items []string, per int) string {
	var groups []string
	for i := 0; i < len(items); i += per {
		j := i + per
		if j > len(items) {
			j = len(items)
		}
		groups = append(groups, "["+strings.Join(items[i:j], ";")+"]")
	}
	return "[" + strings.Join(groups, ";\n  ") + "]"
}

func segList(b []byte) []string {
	var out []string
	for i := 0; i < len(b); {
		step := -1
		j := i + 1
		if j < len(b) {
			switch b[j] {
			case b[i]:
				step = 0
			case b[i] + 1:
				step = 1
			}
		}
		if step < 0 {
			step, j = 0, i+1
		} else {
			for j < len(b) && b[j] == b[j-1]+byte(step) {
				j++
			}
		}
		out = append(out, fmt.Sprintf("(%d,%d,%d)", b[i], j-i, step))
		i = j
	}
	return out
}
