// Driver (b): the real LJH 2.2 / LJH 3 / OFF writers (production queue depth, buffer size and flush
// interval) writing to a named pipe whose reader stalls on the script's command.  Schedules are not
// controllable here; the observed trace (result of every WriteRecord call, the byte stream the reader
// got) is judged by the trace-inclusion checker C07_check_pipe.
package main

import (
	"encoding/binary"
	"fmt"
	"io"
	"math"
	"os"
	"path/filepath"
	"sort"
	"sync"
	"syscall"
	"time"

	"github.com/usnistgov/dastard/ljh"
	"github.com/usnistgov/dastard/off"
	"gonum.org/v1/gonum/mat"
	"verifharness/lib"
)

// reader with a byte budget: -1 = unlimited
type budgetReader struct {
	mu     sync.Mutex
	cond   *sync.Cond
	budget int64
	got    []byte
	eof    chan struct{}
}

func newBudgetReader() *budgetReader {
	r := &budgetReader{eof: make(chan struct{})}
	r.cond = sync.NewCond(&r.mu)
	return r
}
func (r *budgetReader) set(b int64) {
	r.mu.Lock()
	r.budget = b
	r.mu.Unlock()
	r.cond.Broadcast()
}
func (r *budgetReader) add(b int64) {
	r.mu.Lock()
	if r.budget >= 0 {
		r.budget += b
	}
	r.mu.Unlock()
	r.cond.Broadcast()
}
func (r *budgetReader) run(path string) {
	defer close(r.eof)
	f, err := os.OpenFile(path, os.O_RDONLY, 0)
	if err != nil {
		return
	}
	defer f.Close()
	buf := make([]byte, 32768)
	for {
		r.mu.Lock()
		for r.budget == 0 {
			r.cond.Wait()
		}
		n := int64(len(buf))
		if r.budget > 0 && r.budget < n {
			n = r.budget
		}
		r.mu.Unlock()
		k, err := f.Read(buf[:n])
		r.mu.Lock()
		r.got = append(r.got, buf[:k]...)
		if r.budget > 0 {
			r.budget -= int64(k)
		}
		r.mu.Unlock()
		if err != nil {
			return
		}
	}
}

// ---- the three writers behind one interface, with an INDEPENDENT encoding of what a whole record is ----
type recWriter interface {
	create(path string) error
	header() error
	record(i int) (expected []byte, err error)
	flush()
	close()
}

func sample(i, j int) uint16 { // bytes of the sample stream form a ramp: cheap to render, position sensitive
	lo := byte(3*i + 2*j)
	return uint16(lo) | uint16(lo+1)<<8
}
func le(v interface{}) []byte {
	var b []byte
	switch x := v.(type) {
	case int32:
		b = binary.LittleEndian.AppendUint32(b, uint32(x))
	case int64:
		b = binary.LittleEndian.AppendUint64(b, uint64(x))
	case float32:
		b = binary.LittleEndian.AppendUint32(b, math.Float32bits(x))
	case []uint16:
		for _, s := range x {
			b = binary.LittleEndian.AppendUint16(b, s)
		}
	case []float32:
		for _, s := range x {
			b = binary.LittleEndian.AppendUint32(b, math.Float32bits(s))
		}
	}
	return b
}

var t0 = time.Unix(1700000000, 0).UTC()

type w22 struct {
	w     *ljh.Writer
	nsamp int
}

func new22(nsamp int) *w22 {
	return &w22{w: &ljh.Writer{ChannelIndex: 3, Presamples: nsamp / 4, Samples: nsamp, FramesPerSample: 1, Timebase: 1e-5,
		TimestampOffset: t0, NumberOfRows: 4, NumberOfColumns: 2, NumberOfChans: 8, SubframeDivisions: 64, SubframeOffset: 5,
		DastardVersion: "v", GitHash: "g", ChanName: "chan3", ChannelNumberMatchingName: 3, SourceName: "verif",
		ColumnNum: 1, RowNum: 2, PixelName: "p"}, nsamp: nsamp}
}
func (x *w22) create(path string) error { x.w.FileName = path; return x.w.CreateFile() }
func (x *w22) header() error            { return x.w.WriteHeader(t0) }
func (x *w22) record(i int) ([]byte, error) {
	data := make([]uint16, x.nsamp)
	for j := range data {
		data[j] = sample(i, j)
	}
	fc, ts := int64(0), int64(7+i%249)
	exp := append(append(le(fc*64+5), le(ts)...), le(data)...)
	return exp, x.w.WriteRecord(fc, ts, data)
}
func (x *w22) flush() { x.w.Flush() }
func (x *w22) close() { x.w.Close() }

type w3 struct {
	w     *ljh.Writer3
	nsamp int
	fixed bool
}

func new3(nsamp int) *w3 {
	return &w3{w: &ljh.Writer3{ChannelIndex: 3, Timebase: 1e-5, NumberOfRows: 4, NumberOfColumns: 2,
		SubframeDivisions: 64, SubframeOffset: 5}, nsamp: nsamp}
}
func (x *w3) create(path string) error { x.w.FileName = path; return x.w.CreateFile() }
func (x *w3) header() error            { return x.w.WriteHeader() }
func (x *w3) record(i int) ([]byte, error) {
	n := x.nsamp + i%3 // LJH3 records may vary in length
	if x.fixed {
		n = x.nsamp
	}
	data := make([]uint16, n)
	for j := range data {
		data[j] = sample(i, j)
	}
	first, fc, ts := int32(n/4+1), int64(i%200), int64(7+i%249)
	exp := append(append(append(append(le(int32(n)), le(first)...), le(fc)...), le(ts)...), le(data)...)
	return exp, x.w.WriteRecord(first, fc, ts, data)
}
func (x *w3) flush() { x.w.Flush() }
func (x *w3) close() { x.w.Close() }

type woff struct {
	w      *off.Writer
	nbases int
	ctime  time.Time
}

func newOff(nbases int, ctime time.Time) *woff { return &woff{nbases: nbases, ctime: ctime} }
func (x *woff) create(path string) error {
	nsamples := 4
	pd := make([]float64, x.nbases*nsamples)
	bd := make([]float64, x.nbases*nsamples)
	for i := range pd {
		if x.nbases > 100 {
			break // many coefficients: all-zero matrices keep the rendered header short
		}
		pd[i] = float64(i % 4)
		bd[i] = float64(i%5) - 1
	}
	x.w = off.NewWriter(path, 3, "chan3", 3, 10, 40, 1e-5, mat.NewDense(x.nbases, nsamples, pd), mat.NewDense(nsamples, x.nbases, bd),
		"model", "v", "g", "verif", off.TimeDivisionMultiplexingInfo{NumberOfRows: 4, NumberOfColumns: 2, NumberOfChans: 8,
			SubframeDivisions: 64, ColumnNum: 1, RowNum: 2, SubframeOffset: 5}, off.PixelInfo{Name: "p"})
	x.w.CreationInfo.CreationTime = x.ctime
	return x.w.CreateFile()
}
func (x *woff) header() error { return x.w.WriteHeader() }
func (x *woff) record(i int) ([]byte, error) {
	data := make([]float32, x.nbases)
	for j := range data { // bit patterns whose bytes continue a ramp (cheap to render); the writer only copies them
		b := uint32(byte(5*i + 4*j))
		data[j] = math.Float32frombits(b | (b+1)&255<<8 | (b+2)&255<<16 | (b+3)&255<<24)
	}
	rs, rp, fc, ts := int32(40), int32(10), int64(i%200), int64(7+i%249)
	pm, pd, sd := float32(0), float32(0), float32(0)
	exp := le(rs)
	for _, p := range [][]byte{le(rp), le(fc), le(ts), le(pm), le(pd), le(sd), le(data)} {
		exp = append(exp, p...)
	}
	return exp, x.w.WriteRecord(rs, rp, fc, ts, pm, pd, sd, data)
}
func (x *woff) flush() { x.w.Flush() }
func (x *woff) close() { x.w.Close() }

func recBytes(format string, n int) int {
	switch format {
	case "ljh22":
		return 16 + 2*n
	case "ljh3":
		return 24 + 2*n
	default:
		return 36 + 4*n
	}
}

// pipeCapacity is the size of a fresh named pipe's buffer (65536 unless the system is configured otherwise).
func pipeCapacity(dir string) int {
	path := filepath.Join(dir, fmt.Sprintf("c07_cap_%d_%d", os.Getpid(), time.Now().UnixNano()))
	if err := syscall.Mkfifo(path, 0o600); err != nil {
		return 65536
	}
	defer os.Remove(path)
	fd, err := syscall.Open(path, syscall.O_RDWR|syscall.O_NONBLOCK, 0)
	if err != nil {
		return 65536
	}
	defer syscall.Close(fd)
	n, _, e := syscall.Syscall(syscall.SYS_FCNTL, uintptr(fd), 1032 /* F_GETPIPE_SZ */, 0)
	if e != 0 || n == 0 {
		return 65536
	}
	return int(n)
}

// alignN raises n until, with the reader stalled from the start, the writer goroutine comes to a halt (the
// pipe full, a 65536-byte bufio flush blocked) holding a chunk that begins within the first 8 bytes of a
// record.  The queue then fills behind a record boundary shifted by one chunk: a writer that hands a record
// over in two or more Writes gets its queue full exactly between them.  (With one Write per record the
// alignment is irrelevant.)
func alignN(format string, n int, dir string, id int64) int {
	capb := pipeCapacity(dir)
	boundary := 65536 * (capb/65536 + 1)
	first := 8 // the chunk held must begin within the first bytes of a record (OFF: within its 36-byte prefix)
	if format == "off" {
		first = 32
	}
	ok := func(hlen, nn int) bool { // (a header of a bufio buffer or more is written around the buffer)
		return hlen < 65536 && hlen < boundary && (boundary-hlen)%recBytes(format, nn) < first
	}
	perN := 0 // growth of the header per unit of n (OFF: projectors and basis, 2 x 4 x 8 bytes per coefficient)
	if format == "off" {
		perN = 64
	}
	base := n
	for tries := 0; tries < 50; tries++ {
		hdr, err := referenceHeader(format, base, dir, id)
		if err != nil {
			panic(err)
		}
		// predict (the header text changes only when a number gains a digit), then measure
		k := 0
		for ; k < 40000 && len(hdr)+perN*k < 65536 && !ok(len(hdr)+perN*k, base+k); k++ {
		}
		if k == 0 {
			return base
		}
		if !ok(len(hdr)+perN*k, base+k) {
			return n // no such length: the case runs unaligned
		}
		h2, err := referenceHeader(format, base+k, dir, id)
		if err != nil {
			panic(err)
		}
		if ok(len(h2), base+k) {
			return base + k
		}
		base = base + k + 1
	}
	return n
}

var fixedLength bool // LJH3: all records of one length (aligned cases)

func mkWriter(format string, n int) recWriter {
	switch format {
	case "ljh22":
		return new22(n)
	case "ljh3":
		w := new3(n)
		w.fixed = fixedLength
		return w
	default:
		return newOff(n, t0)
	}
}

// referenceHeader: the same header written by a second writer of the same type to a plain file, no stall.
func referenceHeader(format string, n int, dir string, id int64) ([]byte, error) {
	path := filepath.Join(dir, fmt.Sprintf("c07_ref_%d_%d", os.Getpid(), id))
	defer os.Remove(path)
	w := mkWriter(format, n)
	if err := w.create(path); err != nil {
		return nil, err
	}
	if err := w.header(); err != nil {
		return nil, err
	}
	w.close()
	return os.ReadFile(path)
}

type pobs struct {
	N        int    `json:"n"`
	Header   int    `json:"header_len"`
	Calls    int    `json:"calls"`
	Rejected int    `json:"rejected"`
	Stream   int    `json:"stream_len"`
	Hung     bool   `json:"hung"`
	HdrErr   string `json:"header_err,omitempty"`
	FirstBad int    `json:"first_rejected"`
}

type pipeOut struct {
	recs   [][]byte
	oks    []bool
	stream []byte
	hdrErr error
}

func pipeAttempt(c Case, dir string, limit time.Duration) (pipeOut, bool) {
	path := filepath.Join(dir, fmt.Sprintf("c07_fifo_%d_%d_%d", os.Getpid(), c.ID, time.Now().UnixNano()))
	if err := syscall.Mkfifo(path, 0o600); err != nil {
		panic(err)
	}
	defer os.Remove(path)
	rd := newBudgetReader()
	go rd.run(path)
	var out pipeOut
	var mu sync.Mutex
	finished := make(chan struct{})
	go func() {
		defer close(finished)
		w := mkWriter(c.Fmt, c.N)
		if err := w.create(path); err != nil {
			panic(err)
		}
		herr := w.header()
		mu.Lock()
		out.hdrErr = herr
		mu.Unlock()
		i := 0
		closed := false
		for _, op := range c.Ops {
			if closed {
				break
			}
			switch op.Op {
			case "B":
				for k := 0; k < op.N; k++ {
					exp, err := w.record(i)
					i++
					mu.Lock()
					out.recs = append(out.recs, exp)
					out.oks = append(out.oks, err == nil)
					mu.Unlock()
				}
			case "A":
				rd.add(int64(op.N))
			case "S":
				rd.set(0)
			case "O":
				rd.set(-1)
			case "F":
				rd.set(-1)
				w.flush()
			case "Y":
				time.Sleep(time.Duration(op.N) * time.Microsecond) // only paces the burst; outcomes are judged, not predicted
			case "K":
				// Close while the reader stays stalled for op.N ms more (data pending behind a full pipe):
				// a stall of any length must only delay Close, never lose the tail
				cdone := make(chan struct{})
				go func() { w.close(); close(cdone) }()
				time.Sleep(time.Duration(op.N) * time.Millisecond)
				rd.set(-1)
				<-cdone
				closed = true
			}
		}
		rd.set(-1)
		if !closed {
			w.close()
		}
		<-rd.eof
	}()
	select {
	case <-finished:
		rd.mu.Lock()
		out.stream = append([]byte{}, rd.got...)
		rd.mu.Unlock()
		return out, false
	case <-time.After(limit):
		rd.set(-1)
		time.Sleep(100 * time.Millisecond)
		mu.Lock()
		defer mu.Unlock()
		rd.mu.Lock()
		o := pipeOut{recs: append([][]byte{}, out.recs...), oks: append([]bool{}, out.oks...), stream: append([]byte{}, rd.got...), hdrErr: out.hdrErr}
		rd.mu.Unlock()
		return o, true
	}
}

func runPipe(c Case) lib.Result {
	res := lib.Result{ID: c.ID, Hash: lib.Hash(struct {
		K, F string
		N    int
		O    []GOp
	}{"pipe", c.Fmt, c.N, c.Ops})}
	dir, _ := os.Getwd()
	tags := map[string]bool{"pipe": true, "pipe-" + c.Fmt: true}
	fixedLength = c.Align
	defer func() { fixedLength = false }()
	if c.Align {
		c.N = alignN(c.Fmt, c.N, dir, c.ID)
		tags["aligned-to-record-start"] = true
	}
	if c.N >= 2000 || (c.Fmt == "off" && c.N >= 500) {
		tags["long-records"] = true
	}
	hdr, err := referenceHeader(c.Fmt, c.N, dir, c.ID)
	if err != nil {
		panic(err)
	}
	// a watchdog expiry is inconclusive first: the case is run again with a five times longer limit
	out, hung := pipeAttempt(c, dir, 30*time.Second)
	if hung {
		tags["watchdog-retry"] = true
		out, hung = pipeAttempt(c, dir, 150*time.Second)
	}
	minLen := 1
	if c.Fmt == "off" {
		minLen = 64 * c.N // projectors and basis: 2 x N x 4 float64
	}
	if !plausibleHeader(c.Fmt, hdr, minLen) {
		hdr = headerStandIn(c.Fmt) // the reference is written by the implementation too: it must at least look like a header
		tags["reference-header-implausible"] = true
	}
	ob := pobs{N: c.N, Header: len(hdr), Calls: len(out.oks), Stream: len(out.stream), Hung: hung, FirstBad: -1}
	if out.hdrErr != nil {
		// a rejected header contributes nothing: the expected stream starts with the records
		ob.HdrErr = out.hdrErr.Error()
		hdr = nil
		tags["header-rejected"] = true
	}
	var rs []string
	for i, r := range out.recs {
		if out.oks[i] {
			rs = append(rs, fmt.Sprintf("(%s,true)", segs(r)))
		} else {
			rs = append(rs, "([],false)") // the bytes of a rejected record are of no interest to the checker
			ob.Rejected++
			if ob.FirstBad < 0 {
				ob.FirstBad = i
			}
		}
	}
	if ob.Rejected > 0 {
		tags["queue-full"] = true
		tags["record-rejected"] = true
	}
	if hung {
		tags["hung"] = true
	}
	res.Term = fmt.Sprintf("mkP %s\n  %s\n  %s %s", segs(hdr), nested(rs, 200), nested(segList(out.stream), 400), lib.B(hung))
	res.Impl = ob
	res.NonTrivial = ob.Rejected > 0
	for t := range tags {
		res.Tags = append(res.Tags, t)
	}
	sort.Strings(res.Tags)
	return res
}

var _ = io.EOF
