// C13 harness: runs (*DataStreamProcessor).AnalyzeData of the real implementation on generated records
// (through the verif export VerifAnalyze on a bench processor, projectors loaded through
// AnySource.ConfigureProjectorsBases) and renders inputs + the float64 results as exact hexadecimal
// float literals for the Coq side, which decides.
package main

import (
	"encoding/json"
	"fmt"
	"math"
	"sort"
	"strconv"
	"strings"

	"github.com/usnistgov/dastard"
	"gonum.org/v1/gonum/mat"
	"verifharness/lib"
)

// Step: one record, optionally with projectors/basis generated from (K, MStyle, MSeed) for the record's
// length. Case: a short HISTORY of steps run one after the other on ONE DataStreamProcessor (the model is a
// function of the record alone, so comparing every step with it demands that the results do not depend on
// what the processor analysed or how it was configured before).
type Step struct {
	Signed bool   `json:"signed"`
	Pre    int    `json:"pre"`
	Data   []int  `json:"data"` // raw 16-bit words
	K      int    `json:"k"`    // number of basis functions, 0 = no projectors
	MStyle int    `json:"mstyle"`
	MSeed  uint64 `json:"mseed"`
	Bad    int    `json:"bad"`    // 0 compatible shapes; 1 projector columns n+1; 2 basis rows n+1; 3 basis columns k+1
	Kind   string `json:"kind"`   // generator label (tag only)
	Batch  int    `json:"batch"`  // 0: the record alone; 1: [decoy, record]; 2: [record, decoy]; 3: [decoy, record, decoy] in ONE AnalyzeData call
	Reconf bool   `json:"reconf"` // call ConfigurePulseLengths(len, pre) before the step (when the pair is legal)
	Hold   bool   `json:"hold"`   // keep the analysed records and read their values only after ALL later steps of the history
	DLen   int    `json:"dlen"`   // decoys of a batch have length len+DLen (only when no projectors are loaded: projections need one length)
	DPre   int    `json:"dpre"`   // ... and presamples pre+DPre (clamped into 1..their length-1)
	DSign  bool   `json:"dsign"`  // ... and the opposite signedness
	Reload bool   `json:"reload"` // load this step's model OVER the loaded one (same record length): no pulse-length change in between
	Burst  int    `json:"burst"`  // >0: the record is analysed in ONE call together with Burst-1 other records of the same length (trigger burst)
	View   int    `json:"view"`   // 0: matrices from mat.NewDense (contiguous); 1,2: Slice views into larger matrices (Stride > Cols)
}

type Case struct {
	ID    int64  `json:"id"`
	Steps []Step `json:"steps"`
}

// ---------- float rendering ----------

func hexf(x float64) string {
	switch {
	case math.IsNaN(x):
		return "nan"
	case math.IsInf(x, 1):
		return "infinity"
	case math.IsInf(x, -1):
		return "neg_infinity"
	}
	s := strconv.FormatFloat(x, 'x', -1, 64)
	if strings.HasPrefix(s, "-") {
		return "(" + s + ")"
	}
	return s
}

func hexList(xs []float64) string {
	var sb strings.Builder
	sb.WriteByte('[')
	for i, x := range xs {
		if i > 0 {
			sb.WriteByte(';')
		}
		sb.WriteString(hexf(x))
	}
	sb.WriteString("]%float")
	return sb.String()
}

func hexMatrix(rows [][]float64) string {
	items := make([]string, len(rows))
	for i, r := range rows {
		items[i] = hexList(r)
	}
	return "[" + strings.Join(items, ";\n   ") + "]"
}

// ---------- matrices ----------

func randEntry(r *lib.Rng, emin, emax int) float64 {
	var m float64
	switch r.Intn(4) {
	case 0:
		m = float64(r.Range(1, 7))
	case 1:
		m = float64(r.U64()>>11) / (1 << 52) // 53 random bits in [0,2)
	default:
		m = 1 + float64(r.U64()>>12)/(1<<52)
	}
	x := math.Ldexp(m, r.Range(emin, emax))
	if r.Bool() {
		x = -x
	}
	if r.Chance(1, 25) {
		x = 0
	}
	return x
}

// matrices returns projectors (k x pc, as rows) and basis (br x bc, as rows).
func matrices(c Step, n int) (P, B [][]float64) {
	k := c.K
	pc, br, bc := n, n, k
	switch c.Bad {
	case 1:
		pc = n + 1
	case 2:
		br = n + 1
	case 3:
		bc = k + 1
	}
	r := lib.NewRng(c.MSeed ^ 0xC13)
	P = make([][]float64, k)
	for i := range P {
		P[i] = make([]float64, pc)
	}
	B = make([][]float64, br)
	for i := range B {
		B[i] = make([]float64, bc)
	}
	switch c.MStyle {
	case 0: // mixed magnitudes and signs, entry by entry
		for i := range P {
			for j := range P[i] {
				P[i][j] = randEntry(r, -40, 8)
			}
		}
		for i := range B {
			for j := range B[i] {
				B[i][j] = randEntry(r, -12, 30)
			}
		}
	case 1: // small integers: every product exact
		for i := range P {
			for j := range P[i] {
				P[i][j] = float64(r.Range(-3, 3))
			}
		}
		for i := range B {
			for j := range B[i] {
				B[i][j] = float64(r.Range(-2, 2))
			}
		}
	case 2: // rows of very different scale
		for i := range P {
			s := r.Range(-60, 20)
			for j := range P[i] {
				P[i][j] = randEntry(r, s-3, s+3)
			}
		}
		for j := 0; j < bc; j++ {
			s := r.Range(-30, 30)
			for i := range B {
				B[i][j] = randEntry(r, s-2, s+2)
			}
		}
	default: // a realistic linear model: basis = constant, decaying pulses, ramp; projectors = pseudo-inverse
		for i := range B {
			for j := range B[i] {
				t := float64(i)
				switch j % 4 {
				case 0:
					B[i][j] = 1
				case 1:
					B[i][j] = math.Exp(-t / float64(3+2*j+r.Intn(2)))
				case 2:
					B[i][j] = t / float64(n)
				default:
					B[i][j] = math.Exp(-t/float64(7*j)) - math.Exp(-t/float64(2*j))
				}
			}
		}
		// P = (B^T B)^-1 B^T over the first min(br,n) rows (any P is a legal input; this one makes the residual small)
		rows := br
		if rows > n {
			rows = n
		}
		bm := mat.NewDense(rows, bc, nil)
		for i := 0; i < rows; i++ {
			for j := 0; j < bc; j++ {
				bm.Set(i, j, B[i][j])
			}
		}
		var btb, inv, p mat.Dense
		btb.Mul(bm.T(), bm)
		if err := inv.Inverse(&btb); err == nil {
			p.Mul(&inv, bm.T())
			pr, pcc := p.Dims()
			for i := 0; i < k && i < pr; i++ {
				for j := 0; j < pc && j < pcc; j++ {
					v := p.At(i, j)
					if math.IsNaN(v) || math.IsInf(v, 0) {
						v = 0
					}
					P[i][j] = v
				}
			}
		} else {
			for i := range P {
				for j := range P[i] {
					P[i][j] = randEntry(r, -10, 0)
				}
			}
		}
	}
	return P, B
}

func dense(rows [][]float64) *mat.Dense {
	r := len(rows)
	c := len(rows[0])
	flat := make([]float64, 0, r*c)
	for _, row := range rows {
		flat = append(flat, row...)
	}
	return mat.NewDense(r, c, flat)
}

// denseView returns the same logical matrix as dense(rows), but as a Slice view into a larger matrix filled
// with other numbers (row offset ro, column offset co, extra rows/columns after it): Stride > Cols.
func denseView(rows [][]float64, ro, co, extra int) *mat.Dense {
	r := len(rows)
	c := len(rows[0])
	big := mat.NewDense(ro+r+extra, co+c+extra, nil)
	br, bc := big.Dims()
	for i := 0; i < br; i++ {
		for j := 0; j < bc; j++ {
			big.Set(i, j, float64(1000+37*i-11*j))
		}
	}
	for i := range rows {
		for j, v := range rows[i] {
			big.Set(ro+i, co+j, v)
		}
	}
	return big.Slice(ro, ro+r, co, co+c).(*mat.Dense)
}

func matrixFor(rows [][]float64, view int, which int) *mat.Dense {
	switch view {
	case 1:
		return denseView(rows, 0, 3+which, 2)
	case 2:
		return denseView(rows, 2-which, 0, 1+which)
	case 3:
		return denseView(rows, 1, 5, 0)
	}
	return dense(rows)
}

// ---------- running one case ----------

// rleTerm renders a record as a Coq list; runs of >= 24 equal words become (Rp count word) segments.
func rleTerm(d []int) string {
	var parts []string
	var lit []int
	flush := func() {
		if len(lit) > 0 {
			parts = append(parts, lib.ZListInt(lit))
			lit = nil
		}
	}
	for i := 0; i < len(d); {
		j := i
		for j < len(d) && d[j] == d[i] {
			j++
		}
		if j-i >= 24 {
			flush()
			parts = append(parts, fmt.Sprintf("Rp %d %d", j-i, d[i]))
		} else {
			lit = append(lit, d[i:j]...)
		}
		i = j
	}
	flush()
	if len(parts) == 0 {
		return "[]"
	}
	if len(parts) == 1 && strings.HasPrefix(parts[0], "[") {
		return parts[0]
	}
	return "(" + strings.Join(parts, " ++ ") + ")"
}

func boolStr(b bool) string {
	if b {
		return "true"
	}
	return "false"
}

type implOut struct {
	Panic    bool      `json:"panic,omitempty"`
	Accepted bool      `json:"accepted"`
	Scalars  []string  `json:"scalars,omitempty"` // ptm delta avg rms peak (hex)
	Values   []float64 `json:"-"`
	Coefs    []string  `json:"coefs,omitempty"`
	Resid    string    `json:"resid,omitempty"`
}

// benchState: one processor and what the harness knows about its configuration.
type benchState struct {
	b      *dastard.VerifBench
	dsp    *dastard.DataStreamProcessor
	curN   int // dsp.NSamples
	curP   int // dsp.NPresamples
	loaded bool
}

func (st *benchState) reconfigure(nsamp, npre int) {
	if err := st.b.Source().ConfigurePulseLengths(nsamp, npre); err != nil {
		panic(err)
	}
	if nsamp != st.curN || npre != st.curP {
		st.loaded = false // ConfigurePulseLengths drops projectors when the lengths change
	}
	st.curN, st.curP = nsamp, npre
}

// dropProjectors makes sure no projectors are loaded (through the production path: a change of lengths).
func (st *benchState) dropProjectors() {
	if st.loaded {
		st.reconfigure(st.curN+1, st.curP)
	}
}

func legalLengths(nsamp, npre int) bool { return npre >= 3 && nsamp >= npre+1 }

func runCase(c Case) lib.Result {
	res := lib.Result{ID: c.ID, Hash: lib.Hash(c.Steps)}
	b, err := dastard.VerifNewBench(1, 3, 4, 10000, nil)
	if err != nil {
		panic(err)
	}
	defer b.Close()
	st := &benchState{b: b, dsp: b.VerifDsp(0), curN: 4, curP: 3}
	if st.dsp.VerifDecimating() {
		panic("decimation is on")
	}
	tags := map[string]bool{}
	var terms []string
	var outs []implOut
	maxPre := -1
	fins := make([]func() (string, implOut, bool), len(c.Steps))
	terms = make([]string, len(c.Steps))
	outs = make([]implOut, len(c.Steps))
	done := make([]bool, len(c.Steps))
	finish := func(i int) {
		term, out, nt := fins[i]()
		terms[i], outs[i], done[i] = term, out, true
		if nt {
			res.NonTrivial = true
		}
	}
	for i, s := range c.Steps {
		fins[i] = runStep(st, s, tags)
		if !s.Hold || s.Burst > 0 {
			finish(i)
		}
		if s.Pre < maxPre {
			tags["pre-shorter-than-before"] = true
		}
		if s.Pre > maxPre {
			maxPre = s.Pre
		}
	}
	for i := range c.Steps {
		if !done[i] {
			finish(i)
		}
	}
	switch {
	case len(c.Steps) >= 4:
		tags["history>=4"] = true
	case len(c.Steps) >= 2:
		tags["history2-3"] = true
	default:
		tags["history1"] = true
	}
	res.Term = "(" + strings.Join(terms, "\n ++ ") + ")"
	res.Impl = outs
	res.Tags = sortedTags(tags)
	return res
}

// runStep analyses one record on the shared processor; returns the Coq term of type `case`.
func runStep(st *benchState, c Step, tags map[string]bool) func() (string, implOut, bool) {
	n := len(c.Data)
	data := make([]uint16, n)
	for i, v := range c.Data {
		data[i] = uint16(v)
	}
	if c.Kind != "" {
		tags["kind:"+c.Kind] = true
	}
	b, dsp := st.b, st.dsp
	out := implOut{}
	var P, B [][]float64
	withProj := c.K > 0 && n >= 4
	if c.Reload && withProj && c.Bad == 0 && st.loaded && st.curN == n {
		// the client refines its pulse model: a new model replaces the loaded one directly
		tags["model-reloaded"] = true
	} else {
		st.dropProjectors()
	}
	if c.Reconf && !st.loaded && legalLengths(n, c.Pre) {
		st.reconfigure(n, c.Pre)
		tags["reconfigured"] = true
	}
	if withProj {
		if st.curN != n {
			p := c.Pre
			if !legalLengths(n, p) {
				p = 3
			}
			st.reconfigure(n, p)
		}
		P, B = matrices(c, n)
		err := b.Source().ConfigureProjectorsBases(0, matrixFor(P, c.View, 0), matrixFor(B, c.View, 1), "verif")
		if c.View != 0 {
			tags["proj-slice-view"] = true
		}
		out.Accepted = err == nil
		st.loaded = out.Accepted
		tags[fmt.Sprintf("proj-k%d", c.K)] = true
		tags[fmt.Sprintf("proj-style%d", c.MStyle)] = true
		if c.Bad != 0 {
			tags["proj-bad-shape"] = true
		}
		if !out.Accepted {
			tags["proj-rejected"] = true
		}
	}
	if c.Pre != st.curP {
		tags["pre!=configured"] = true
	}
	dataTerm := rleTerm(c.Data)
	var held *dastard.VerifHeld
	var burst []dastard.VerifRecSpec
	idx := 0
	func() {
		defer func() {
			if e := recover(); e != nil {
				out.Panic = true
			}
		}()
		me := dastard.VerifRecSpec{Data: data, Pre: c.Pre, Signed: c.Signed}
		if c.Burst > 1 && withProj && st.loaded {
			// a burst of triggers: many records of one length in ONE call; record j is a deterministic variation
			burst = make([]dastard.VerifRecSpec, c.Burst)
			burst[0] = me
			for j := 1; j < c.Burst; j++ {
				dj := make([]uint16, n)
				for i := range dj {
					dj[i] = data[(i+j)%n] + uint16(97*j) + uint16((i*j)%13)
				}
				burst[j] = dastard.VerifRecSpec{Data: dj, Pre: c.Pre, Signed: c.Signed}
			}
			held = dsp.VerifAnalyzeMixed(burst)
			tags["burst"] = true
			return
		}
		if c.Batch == 0 || n == 0 {
			held = dsp.VerifAnalyzeMixed([]dastard.VerifRecSpec{me})
			return
		}
		// the same record analysed next to other records in one call: results must not depend on neighbours.
		// Without projectors the neighbours have another length, pre-trigger length and signedness
		// (variable-length records of edge-multi triggering); with projectors all records have one length.
		dn, dp, ds := n, c.Pre, c.Signed
		if !st.loaded {
			dn = n + c.DLen
			if dn < 2 {
				dn = 2
			}
			dp = c.Pre + c.DPre
			if dp > dn-1 {
				dp = dn - 1
			}
			if dp < 1 {
				dp = 1
			}
			ds = c.Signed != c.DSign
			switch {
			case dn > n:
				tags["batch-neighbour-longer"] = true
			case dn < n:
				tags["batch-neighbour-shorter"] = true
			}
		}
		decoy := make([]uint16, dn)
		for i := range decoy {
			decoy[i] = data[(i+1)%n]*3 + 12345 + uint16(7*i)
		}
		dc := dastard.VerifRecSpec{Data: decoy, Pre: dp, Signed: ds}
		tags[fmt.Sprintf("batch%d", c.Batch)] = true
		switch c.Batch {
		case 1:
			held, idx = dsp.VerifAnalyzeMixed([]dastard.VerifRecSpec{dc, me}), 1
		case 2:
			held, idx = dsp.VerifAnalyzeMixed([]dastard.VerifRecSpec{me, dc}), 0
		default:
			held, idx = dsp.VerifAnalyzeMixed([]dastard.VerifRecSpec{dc, me, dc}), 1
		}
	}()
	if c.Hold {
		tags["held"] = true
	}
	// the values are read when the caller asks for them: at once, or (Hold) after all later steps
	return func() (string, implOut, bool) {
		if out.Panic {
			tags["panic"] = true
			return fmt.Sprintf("[KPanic %s %s %s]", boolStr(c.Signed), lib.Z(int64(c.Pre)), dataTerm), out, false
		}
		if burst != nil {
			return burstTerm(dsp, c, burst, held, P, B, out, tags)
		}
		rec := held.Read(idx)
		var term string
		vals := []float64{rec.PretrigMean, rec.PretrigDelta, rec.PulseAverage, rec.PulseRMS, rec.PeakValue}
		sc := make([]string, len(vals))
		for i, v := range vals {
			sc[i] = hexf(v)
			out.Scalars = append(out.Scalars, strconv.FormatFloat(v, 'x', -1, 64))
		}
		for _, v := range rec.ModelCoefs {
			out.Coefs = append(out.Coefs, strconv.FormatFloat(v, 'x', -1, 64))
		}
		out.Resid = strconv.FormatFloat(rec.ResidualStdDev, 'x', -1, 64)
		if withProj {
			term = fmt.Sprintf("[KP %s %s %s\n  %s\n  %s\n  %s %s %s %s]",
				boolStr(c.Signed), lib.Z(int64(c.Pre)), dataTerm, hexMatrix(P), hexMatrix(B), boolStr(out.Accepted),
				strings.Join(sc, " "), hexList(rec.ModelCoefs), hexf(rec.ResidualStdDev))
		} else {
			term = fmt.Sprintf("[K0 %s %s %s %s]", boolStr(c.Signed), lib.Z(int64(c.Pre)), dataTerm, strings.Join(sc, " "))
		}
		// tags and the non-triviality rule: mu not an integer and at least one word >= 2^15
		if c.Signed {
			tags["signed"] = true
		}
		big := false
		var s0 int64
		for i, v := range c.Data {
			if v >= 32768 {
				big = true
			}
			if i < c.Pre {
				if c.Signed {
					s0 += int64(int16(uint16(v)))
				} else {
					s0 += int64(v)
				}
			}
		}
		nonInt := c.Pre > 0 && s0%int64(c.Pre) != 0
		if big {
			tags["word>=2^15"] = true
		}
		if nonInt {
			tags["mu-noninteger"] = true
		}
		if math.IsNaN(rec.PulseRMS) {
			tags["rms-nan"] = true
		}
		if rec.PulseRMS == 0 {
			tags["rms-zero"] = true
		}
		if rec.PeakValue == 0 {
			tags["peak-zero"] = true
		}
		switch {
		case n >= 1000:
			tags["n>=1000"] = true
		case n >= 100:
			tags["n>=100"] = true
		default:
			tags["n<100"] = true
		}
		switch {
		case c.Pre <= 5:
			tags[fmt.Sprintf("p=%d", c.Pre)] = true
		default:
			tags["p>5"] = true
		}
		return term, out, big && nonInt && c.Pre >= 3 && n >= c.Pre+1
	}
}

func sameBits(a, b dastard.VerifRecord) bool {
	eq := func(x, y float64) bool {
		return math.Float64bits(x) == math.Float64bits(y) || (math.IsNaN(x) && math.IsNaN(y))
	}
	if !eq(a.PretrigMean, b.PretrigMean) || !eq(a.PretrigDelta, b.PretrigDelta) || !eq(a.PulseAverage, b.PulseAverage) ||
		!eq(a.PulseRMS, b.PulseRMS) || !eq(a.PeakValue, b.PeakValue) || !eq(a.ResidualStdDev, b.ResidualStdDev) ||
		len(a.ModelCoefs) != len(b.ModelCoefs) {
		return false
	}
	for i := range a.ModelCoefs {
		if !eq(a.ModelCoefs[i], b.ModelCoefs[i]) {
			return false
		}
	}
	return true
}

// burstTerm renders a few records of a burst (the matrices once). Which records are shown is chosen by
// re-analysing every record ALONE and comparing bit for bit: records whose result inside the burst differs
// from their result alone are shown first (at most 3), then the first and the last record. The Coq side
// decides on what is shown; this function only chooses.
func burstTerm(dsp *dastard.DataStreamProcessor, c Step, burst []dastard.VerifRecSpec, held *dastard.VerifHeld,
	P, B [][]float64, out implOut, tags map[string]bool) (string, implOut, bool) {
	var show []int
	for j := range burst {
		alone := dsp.VerifAnalyzeMixed([]dastard.VerifRecSpec{burst[j]}).Read(0)
		if !sameBits(alone, held.Read(j)) && len(show) < 3 {
			show = append(show, j)
			tags["burst-differs-from-alone"] = true
		}
	}
	for _, j := range []int{0, len(burst) - 1} {
		dup := false
		for _, k := range show {
			dup = dup || k == j
		}
		if !dup {
			show = append(show, j)
		}
	}
	sort.Ints(show)
	var recs []string
	for _, j := range show {
		rec := held.Read(j)
		d := make([]int, len(burst[j].Data))
		for i, v := range burst[j].Data {
			d[i] = int(v)
		}
		recs = append(recs, fmt.Sprintf("BR %s %s %s %s %s %s %s %s", rleTerm(d), hexf(rec.PretrigMean), hexf(rec.PretrigDelta),
			hexf(rec.PulseAverage), hexf(rec.PulseRMS), hexf(rec.PeakValue), hexList(rec.ModelCoefs), hexf(rec.ResidualStdDev)))
		if j == 0 {
			for _, v := range []float64{rec.PretrigMean, rec.PretrigDelta, rec.PulseAverage, rec.PulseRMS, rec.PeakValue} {
				out.Scalars = append(out.Scalars, strconv.FormatFloat(v, 'x', -1, 64))
			}
		}
	}
	term := fmt.Sprintf("KPs %s %s\n  %s\n  %s\n  %s\n  [%s]", boolStr(c.Signed), lib.Z(int64(c.Pre)), hexMatrix(P), hexMatrix(B),
		boolStr(out.Accepted), strings.Join(recs, ";\n   "))
	return term, out, false
}

func sortedTags(m map[string]bool) []string {
	var t []string
	for k := range m {
		t = append(t, k)
	}
	sort.Strings(t)
	return t
}

// ---------- generators ----------

func clamp16(v int) int {
	if v < 0 {
		return 0
	}
	if v > 65535 {
		return 65535
	}
	return v
}

var kinds = []string{"constant", "fullscale-alt", "alt-lsb", "uniform", "pulse", "wrap-signed", "near-constant", "ramp", "dip", "edges"}

func genRecord(r *lib.Rng, kind string, n, p int) []int {
	d := make([]int, n)
	switch kind {
	case "constant":
		c := r.Pick([]int{0, 1, 32767, 32768, 65535, r.Range(0, 65535), r.Range(0, 65535)})
		for i := range d {
			d[i] = c
		}
	case "fullscale-alt":
		a, b := 0, 65535
		if r.Bool() {
			a, b = 32767, 32768
		}
		ph := r.Intn(2)
		for i := range d {
			if (i+ph)%2 == 0 {
				d[i] = a
			} else {
				d[i] = b
			}
		}
		if r.Bool() { // all full scale with a few zeros
			for i := range d {
				d[i] = 65535
			}
			for j := 0; j < 1+n/10; j++ {
				d[r.Intn(n)] = 0
			}
		}
	case "alt-lsb":
		c := r.Pick([]int{0, 32767, 65534, r.Range(0, 65534)})
		for i := range d {
			d[i] = c + (i & 1)
		}
	case "uniform":
		for i := range d {
			d[i] = r.Range(0, 65535)
		}
	case "pulse":
		base := r.Range(500, 60000)
		noise := r.Pick([]int{0, 1, 3, 20})
		amp := r.Range(100, 65535-base)
		tau := float64(r.Range(2, 2+n/3))
		for i := range d {
			v := base + r.Range(-noise, noise)
			if i >= p {
				v += int(float64(amp) * math.Exp(-float64(i-p)/tau))
			}
			d[i] = clamp16(v)
		}
	case "wrap-signed": // words around 0/65535 and 32767/32768: the signed reading wraps
		c := r.Pick([]int{0, 32768})
		w := r.Pick([]int{1, 3, 100})
		for i := range d {
			d[i] = (c + r.Range(-w, w) + 65536) % 65536
		}
	case "near-constant": // one or two LSB flickers on a large constant (cancellation in the mean square)
		c := r.Pick([]int{65535, 65534, 60000, 50000, 40001, r.Range(30000, 65535)})
		for i := range d {
			d[i] = c
		}
		for j := 0; j < r.Range(1, 2); j++ {
			d[r.Intn(p)] = c - 1
		}
		if r.Chance(1, 3) {
			d[p+r.Intn(n-p)] = c - 1
		}
	case "ramp":
		a := r.Range(0, 65535)
		s := r.Pick([]int{1, -1, 2, 7, -13, 100})
		for i := range d {
			d[i] = clamp16(a + s*i + r.Range(-1, 1))
		}
	case "dip": // pulse below the baseline: peak must be reported as 0
		base := r.Range(2000, 65535)
		for i := range d {
			d[i] = base
			if i < p {
				d[i] = clamp16(base + r.Range(0, 2))
			} else {
				d[i] = clamp16(base - r.Range(0, 2000))
			}
		}
	default: // "edges": words from the corner set
		pts := []int{0, 1, 2, 32766, 32767, 32768, 32769, 65533, 65534, 65535}
		for i := range d {
			d[i] = r.Pick(pts)
		}
	}
	return d
}

func genSizes(r *lib.Rng, big bool) (n, p int) {
	if big {
		n = r.Range(1500, 4000)
		if r.Bool() {
			p = r.Range(n/2, n-1)
		} else {
			p = r.Range(3, n/2)
		}
		return
	}
	switch r.Intn(6) {
	case 0:
		p = r.Pick([]int{3, 4, 5, 6, 7})
		n = p + r.Range(1, 6)
	case 1:
		p = r.Pick([]int{3, 4, 5, 8, 16})
		n = r.Range(p+1, 200)
	case 2:
		n = r.Range(20, 400)
		p = n - 1
	default:
		n = r.Range(8, 300)
		p = r.Range(3, n-1)
	}
	return
}

func corpus() []Case {
	nanWitness := make([]int, 2074)
	for i := range nanWitness {
		nanWitness[i] = 60000
	}
	nanWitness[0] = 59999
	full := func(n, v int) []int {
		d := make([]int, n)
		for i := range d {
			d[i] = v
		}
		return d
	}
	ramp := func(n, npre, base, slope int) []int {
		d := make([]int, n)
		for i := range d {
			if i < npre {
				d[i] = base + slope*i
			} else {
				d[i] = base + 500 - i
			}
		}
		return d
	}
	one := func(s Step) Case { return Case{Steps: []Step{s}} }
	pw := []int{1, 2, 4, 8, 16, 32, 64, 128}
	return []Case{
		// pre-fix defect: mean square comes out negative, pulseRMS = NaN
		one(Step{Pre: 2073, Data: nanWitness, Kind: "corpus-nan-witness"}),
		// the repository's own test vectors (TestAnalyzeData)
		one(Step{Pre: 4, Data: []int{0, 0, 0, 0, 0, 0, 10, 20, 30, 40}, Kind: "corpus"}),
		{Steps: []Step{
			{Pre: 3, Data: []int{65535, 65535, 65535, 65535}, Kind: "corpus"},
			{Pre: 3, Data: []int{65535, 65535, 65535, 65535}, Signed: true, Kind: "corpus"},
			{Pre: 3, Data: []int{32767, 32768, 32767, 32768, 0, 65535}, Signed: true, Kind: "corpus"},
			{Pre: 3, Data: []int{32767, 32768, 32767, 32768, 0, 65535}, Kind: "corpus"},
			{Pre: 5, Data: []int{100, 101, 102, 103, 104, 90, 80, 70}, Kind: "corpus"}}},
		// one processor: long pre-trigger, then a SHORTER one with a sloping baseline, then long again
		// (through ConfigurePulseLengths, and without it as for edge-multi short records)
		{Steps: []Step{
			{Pre: 12, Data: ramp(32, 12, 100, 10), Kind: "corpus-history", Reconf: true},
			{Pre: 4, Data: ramp(16, 4, 100, 10), Kind: "corpus-history", Reconf: true},
			{Pre: 12, Data: ramp(32, 12, 40000, -7), Kind: "corpus-history", Reconf: true}}},
		{Steps: []Step{
			{Pre: 20, Data: ramp(40, 20, 1000, 3), Kind: "corpus-history"},
			{Pre: 5, Data: ramp(40, 5, 1000, 3), Kind: "corpus-history"},
			{Pre: 3, Data: ramp(9, 3, 65000, -100), Signed: true, Kind: "corpus-history", Batch: 3},
			{Pre: 30, Data: ramp(40, 30, 0, 9), Kind: "corpus-history"}}},
		// projectors loaded, replaced, rejected (three incompatible shapes), dropped
		{Steps: []Step{
			{Pre: 4, Data: pw, K: 2, MStyle: 1, MSeed: 7, Kind: "corpus"},
			{Pre: 4, Data: full(12, 65535), K: 1, MStyle: 0, MSeed: 9, Kind: "corpus"},
			{Pre: 4, Data: pw, K: 2, MStyle: 1, MSeed: 7, Bad: 1, Kind: "corpus"},
			{Pre: 4, Data: pw, K: 2, MStyle: 1, MSeed: 7, Bad: 2, Kind: "corpus"},
			{Pre: 4, Data: pw, K: 2, MStyle: 1, MSeed: 7, Bad: 3, Kind: "corpus"},
			{Pre: 3, Data: pw, Kind: "corpus"}}},
		// projectors and basis that are Slice views into larger matrices (Stride > Cols)
		{Steps: []Step{
			{Pre: 4, Data: pw, K: 2, MStyle: 1, MSeed: 7, View: 1, Kind: "corpus-view"},
			{Pre: 3, Data: []int{9, 9, 9, 500, 400, 300}, K: 3, MStyle: 0, MSeed: 11, View: 2, Kind: "corpus-view"},
			{Pre: 5, Data: ramp(20, 5, 30000, 11), K: 2, MStyle: 3, MSeed: 3, View: 3, Signed: true, Kind: "corpus-view"}}},
		// records held while later blocks are analysed with the same projectors; their values are read at the end
		{Steps: []Step{
			{Pre: 4, Data: pw, K: 2, MStyle: 1, MSeed: 7, Hold: true, Kind: "corpus-held"},
			{Pre: 4, Data: []int{128, 64, 32, 16, 8, 4, 2, 1}, K: 2, MStyle: 1, MSeed: 7, Hold: true, Batch: 1, Kind: "corpus-held"},
			{Pre: 4, Data: []int{7, 7, 7, 7, 900, 800, 700, 600}, K: 2, MStyle: 1, MSeed: 7, Kind: "corpus-held"}}},
		// records of different lengths in ONE AnalyzeData call: long then short, short then long, both sides
		{Steps: []Step{
			{Pre: 3, Data: []int{100, 100, 100, 400, 300}, Batch: 1, DLen: 11, DPre: 5, Kind: "corpus-mixed"},
			{Pre: 6, Data: ramp(24, 6, 50000, -9), Batch: 2, DLen: -10, DPre: -2, Signed: true, DSign: true, Kind: "corpus-mixed"},
			{Pre: 4, Data: ramp(10, 4, 20, 5), Batch: 3, DLen: 30, Signed: true, Kind: "corpus-mixed"},
			{Pre: 3, Data: []int{65535, 0, 65535, 0, 65535, 0}, Batch: 1, DLen: 1, DSign: true, Kind: "corpus-mixed"}}},
	}
}

func gen(seed uint64, tier string) []interface{} {
	r := lib.NewRng(seed)
	nScalar, nBig, nProj, nProjBig, nBad := 230, 5, 100, 3, 9
	if tier == "thorough" {
		nScalar, nBig, nProj, nProjBig, nBad = 3000, 60, 1200, 30, 60
	}
	var out []interface{}
	id := int64(1)
	add := func(c Case) {
		c.ID = id
		id++
		out = append(out, c)
	}
	for _, c := range corpus() {
		add(c)
	}
	var steps []Step
	for i := 0; i < nScalar+nBig; i++ {
		q := r.Fork()
		n, p := genSizes(q, i >= nScalar)
		kind := kinds[i%len(kinds)]
		steps = append(steps, Step{Signed: q.Bool(), Pre: p, Data: genRecord(q, kind, n, p), Kind: kind,
			Batch: q.Pick([]int{0, 0, 1, 2, 3}), Reconf: q.Chance(1, 3), Hold: q.Bool(),
			DLen: q.Pick([]int{0, 1, 5, 40, -1, -3, -30, n, -n / 2}), DPre: q.Pick([]int{0, 0, 1, -1, 7, -7}), DSign: q.Chance(1, 3)})
	}
	for i := 0; i < nProj+nProjBig+nBad; i++ {
		q := r.Fork()
		var n, p, k int
		if i >= nProj && i < nProj+nProjBig {
			n = q.Range(600, 1500)
			p = q.Range(3, n-1)
			k = q.Range(1, 2)
		} else {
			n = q.Range(4, 120)
			p = q.Range(3, n-1)
			k = q.Pick([]int{1, 1, 2, 2, 3, 4, 5, 6, 7, 8})
		}
		kind := kinds[(i*7+3)%len(kinds)]
		c := Step{Signed: q.Bool(), Pre: p, Data: genRecord(q, kind, n, p), Kind: kind,
			K: k, MStyle: i % 4, MSeed: q.U64(), Batch: q.Pick([]int{0, 0, 1, 2, 3}), Reconf: q.Chance(1, 3), Hold: q.Bool(),
			View: q.Pick([]int{0, 0, 1, 2, 3}), DLen: q.Pick([]int{0, 3, -3, 20}), DPre: q.Pick([]int{0, 1, -1}), DSign: q.Chance(1, 3)}
		if i >= nProj+nProjBig {
			c.Bad = 1 + i%3
		}
		steps = append(steps, c)
	}
	// shuffle (Fisher-Yates on the one PRNG), then cut into histories of 1..6 steps on one processor each
	for i := len(steps) - 1; i > 0; i-- {
		j := r.Intn(i + 1)
		steps[i], steps[j] = steps[j], steps[i]
	}
	for i := 0; i < len(steps); {
		k := r.Pick([]int{1, 2, 3, 3, 4, 5, 6})
		if i+k > len(steps) {
			k = len(steps) - i
		}
		add(Case{Steps: steps[i : i+k]})
		i += k
	}
	// ---- families aimed at state and at accumulator width ----
	nReload, nLong, nBurst := 10, 3, 3
	if tier == "thorough" {
		nReload, nLong, nBurst = 60, 12, 12
	}
	// (1) the client refines its pulse model: models loaded one over the other for ONE record length, records
	// analysed in between; same number of bases (two times in three) or another one; a rejected shape in between
	for i := 0; i < nReload; i++ {
		q := r.Fork()
		n := q.Range(6, 90)
		k := q.Range(1, 5)
		var hs []Step
		for j, m := 0, q.Range(2, 4); j < m; j++ {
			kk := k
			if q.Chance(1, 3) {
				kk = q.Range(1, 6)
			}
			p := q.Range(3, n-1)
			kind := kinds[q.Intn(len(kinds))]
			st := Step{Signed: q.Bool(), Pre: p, Data: genRecord(q, kind, n, p), Kind: kind, K: kk, MStyle: q.Intn(4), MSeed: q.U64(),
				Reload: true, Batch: q.Pick([]int{0, 0, 1, 3}), Hold: q.Chance(1, 3), View: q.Pick([]int{0, 0, 1, 2})}
			if j > 0 && q.Chance(1, 6) {
				st.Bad = 1 + q.Intn(3)
			}
			hs = append(hs, st)
		}
		add(Case{Steps: hs})
	}
	// (2) very long pre-trigger / post-trigger stretches near full scale: sums of more than 2^15 words at 65535,
	// of more than 2^16 words on the negative rail of a signed channel (any accumulator narrower than the
	// float64 / 53-bit one of the code shows here); flat stretches are run-length encoded for the Coq side
	for i := 0; i < nLong; i++ {
		q := r.Fork()
		var p, n, level int
		signed := false
		switch i % 3 {
		case 0: // long pre-trigger at (nearly) full scale
			p = q.Range(32800, 36000)
			n = p + q.Range(1, 40)
			level = q.Pick([]int{65535, 65535, 65534})
		case 1: // long post-trigger at full scale
			p = q.Range(3, 50)
			n = p + q.Range(32800, 36000)
			level = 65535
		default: // negative rail of a signed channel, or a level of 60000 with more presamples
			if q.Bool() {
				signed = true
				p = q.Range(65600, 70000)
				level = 32768
			} else {
				p = q.Range(35900, 40000)
				level = q.Range(60000, 65535)
			}
			n = p + q.Range(1, 40)
		}
		d := make([]int, n)
		for j := range d {
			d[j] = level
		}
		for j, m := 0, q.Range(0, 6); j < m; j++ { // a few flickers, so that mu is not an integer
			d[q.Intn(n)] = level - 1 + 2*q.Intn(2)*(1-level/65535)
		}
		add(Case{Steps: []Step{{Signed: signed, Pre: p, Data: d, Kind: "long-flat"}}})
	}
	// (3) trigger bursts: 32..160 records of one length in ONE AnalyzeData call with projectors loaded; long records
	// and several bases, so that a wrong sharing of work between the records of a call has time to show
	for i := 0; i < nBurst; i++ {
		q := r.Fork()
		n := q.Range(500, 900)
		p := q.Range(3, n/2)
		k := q.Range(3, 5)
		add(Case{Steps: []Step{{Signed: q.Bool(), Pre: p, Data: genRecord(q, "pulse", n, p), Kind: "burst", K: k, MStyle: 1 + 2*q.Intn(2),
			MSeed: q.U64(), Burst: q.Pick([]int{32, 64, 96, 160})}}})
	}
	return out
}

func main() {
	h := lib.Harness{
		Gen: gen,
		RunCase: func(raw json.RawMessage) (lib.Result, error) {
			var c Case
			if err := json.Unmarshal(raw, &c); err != nil {
				return lib.Result{}, err
			}
			return runCase(c), nil
		},
		Header:   "From Coq Require Import Floats.\nFrom Dastard Require Import Common.ZX Common.CaseLib C13.Model C13.ModelFloat C13.Spec C13.Run.",
		Verdict:  "verdict_hist",
		PerShard: 14,
	}
	h.Main()
}
