package main

import "verifharness/lib"

func idxClass(q *lib.Rng, n int) []int {
	switch q.Intn(8) {
	case 0:
		return []int{}
	case 1:
		return []int{-1}
	case 2:
		return []int{n}
	case 3:
		return []int{0, n + 3}
	case 4:
		return []int{q.Intn(n), -1 - q.Intn(3)}
	case 5:
		all := make([]int, n)
		for i := range all {
			all[i] = i
		}
		return all
	default:
		return []int{q.Intn(n)}
	}
}

func randReq(q *lib.Rng, src string) Op {
	n := nchanOf[src]
	kinds := []string{"triggers", "triggers", "lengths", "projectors", "wc", "wc", "label", "comment", "coupleerr",
		"couplefb", "gadd", "gdel", "stopc", "storeraw", "mix"}
	k := kinds[q.Intn(len(kinds))]
	o := Op{Op: k}
	switch k {
	case "triggers":
		o.Idx = idxClass(q, n)
		o.Emt = q.Chance(1, 10)
	case "lengths":
		p := [][2]int{{16, 4}, {32, 8}, {8, 3}, {0, 4}, {-3, 2}, {8, 2}, {5, 5}, {6, 5}, {16, 0}}[q.Intn(9)]
		o.Ns, o.Np = p[0], p[1]
	case "projectors":
		o.PIdx = q.Pick([]int{-1, 0, 0, 1, n - 1, n, n + 5})
		o.B64Ok = !q.Chance(1, 8)
		o.MatOk = !q.Chance(1, 8)
		o.Pcols = q.Pick([]int{16, 16, 32, 8, 6})
		switch q.Intn(6) { // the basis of another model: wrong in one dimension, or in both
		case 0:
			o.BRows = o.Pcols + q.Range(1, 3)
		case 1:
			o.BCols = q.Range(2, 4)
		case 2:
			o.BRows, o.BCols = q.Range(2, 7), q.Range(2, 4)
		}
	case "wc":
		ws := []string{"start", "start", "start", "stop", "pause", "unpause", "unpause-label", "unpause-bad", "garbage"}
		o.W = ws[q.Intn(len(ws))]
		if o.W == "start" {
			o.Ljh = !q.Chance(1, 4)
			o.Off = q.Chance(1, 4)
			o.PathO = !q.Chance(1, 5)
			if src == "erroring" { // a source that dies with writing on is C10's finding, not this property's
				o.W = "pause"
			}
		}
	case "label":
		o.Empty = q.Chance(1, 4)
	case "comment":
		o.Empty = q.Chance(1, 5)
		o.Io = q.Chance(1, 2)
	case "coupleerr", "couplefb":
		o.On = q.Bool()
		o.Slow = src != "erroring" && q.Chance(1, 25)
	case "gadd", "gdel":
		m := q.Range(0, 3)
		for i := 0; i < m; i++ {
			o.Conns = append(o.Conns, [2]int{q.Range(-1, n+1), q.Range(-1, n+1)})
		}
		if o.Conns == nil {
			o.Conns = [][2]int{}
		}
	case "storeraw":
		o.N = q.Pick([]int{1, 4, 10, 0, -5})
		o.Io = q.Chance(1, 3)
	case "mix":
		o.Idx = [][]int{{}, {1}, {1, 3}, {0}, {2}, {-1}, {n + 1}, {1, n + 4}}[q.Intn(8)]
		o.Nfrac = len(o.Idx)
		if q.Chance(1, 3) {
			o.Nfrac = q.Range(0, 3)
		}
	}
	if o.Idx == nil && (k == "triggers" || k == "mix") {
		o.Idx = []int{}
	}
	return o
}

func corpus() []Case {
	st := Op{Op: "start"}
	sp := Op{Op: "stop"}
	trig := func(idx ...int) Op {
		if idx == nil {
			idx = []int{}
		}
		return Op{Op: "triggers", Idx: idx}
	}
	wstart := Op{Op: "wc", W: "start", Ljh: true, PathO: true}
	return []Case{
		// (1) WriteComment whose comment.txt cannot be created: one error reply, and the server stays usable
		{Source: "triangle", Seed: 1, Ops: []Op{st, wstart, {Op: "comment", Io: true}, trig(0), {Op: "wc", W: "stop"}, sp}},
		// (2) a request after the source ended by itself
		{Source: "erroring", Seed: 2, Ops: []Op{st, {Op: "settle"}, trig(0)}},
		{Source: "erroring", Seed: 3, Ops: []Op{st, trig(0), {Op: "settle"}, {Op: "stopc"}, sp, trig(0)}},
		// (3) negative channel index
		{Source: "triangle", Seed: 4, Ops: []Op{st, trig(-1), trig(1), sp}},
		{Source: "triangle", Seed: 5, Ops: []Op{st, trig(0, -2), sp}},
		// (4) mix on a stopped Lancero source; mismatched list lengths on a running one
		{Source: "lancero", Seed: 6, Ops: []Op{st, {Op: "mix", Idx: []int{1}, Nfrac: 1}, sp, {Op: "mix", Idx: []int{}, Nfrac: 0}}},
		{Source: "lancero", Seed: 7, Ops: []Op{st, {Op: "mix", Idx: []int{1, 3}, Nfrac: 1}, {Op: "mix", Idx: []int{3}, Nfrac: 1}, sp}},
		// (5) StoreRawDataBlock with a negative count
		{Source: "triangle", Seed: 8, Ops: []Op{st, {Op: "storeraw", N: -5}, {Op: "storeraw", N: 4}, sp}},
		// (6) coupling edits with indices outside the channel range
		{Source: "triangle", Seed: 9, Ops: []Op{st, {Op: "gadd", Conns: [][2]int{{7, 1}}}, {Op: "gadd", Conns: [][2]int{{0, 1}, {1, 9}}},
			{Op: "gdel", Conns: [][2]int{{0, -1}}}, {Op: "gadd", Conns: [][2]int{{0, 2}}}, sp}},
		// every request kind, valid, on a running source; then everything again with no source
		{Source: "triangle", Seed: 10, Ops: []Op{st, trig(0, 1, 2), {Op: "lengths", Ns: 32, Np: 8},
			{Op: "projectors", PIdx: 1, B64Ok: true, MatOk: true, Pcols: 32}, wstart, {Op: "label"}, {Op: "comment"},
			{Op: "wc", W: "pause"}, {Op: "wc", W: "unpause-label"}, {Op: "coupleerr"}, {Op: "couplefb"},
			{Op: "gadd", Conns: [][2]int{{0, 1}}}, {Op: "gdel", Conns: [][2]int{{0, 1}}}, {Op: "stopc"}, {Op: "storeraw", N: 4},
			{Op: "wc", W: "stop"}, sp}},
		{Source: "triangle", Seed: 11, Ops: []Op{trig(0), {Op: "lengths", Ns: 32, Np: 8}, {Op: "lengths", Ns: 16, Np: 4},
			{Op: "projectors", PIdx: 0, B64Ok: true, MatOk: true, Pcols: 16}, wstart, {Op: "label"}, {Op: "comment"}, {Op: "coupleerr"},
			{Op: "gadd", Conns: [][2]int{{0, 1}}}, {Op: "stopc"}, {Op: "storeraw", N: 4}, {Op: "mix", Idx: []int{1}, Nfrac: 1}, sp}},
		// state-dependent refusals and I/O failures
		{Source: "triangle", Seed: 12, Ops: []Op{st, {Op: "wc", W: "start", Ljh: true, PathO: false}, {Op: "wc", W: "start", Off: true, PathO: true},
			{Op: "label"}, wstart, wstart, {Op: "lengths", Ns: 32, Np: 8}, {Op: "wc", W: "unpause-bad"}, {Op: "wc", W: "garbage"},
			{Op: "wc", W: "stop"}, {Op: "lengths", Ns: 32, Np: 8}, sp}},
		{Source: "lancero", Seed: 13, Ops: []Op{st, {Op: "coupleerr", On: true}, {Op: "couplefb", On: true}, {Op: "stopc"},
			{Op: "mix", Idx: []int{0}, Nfrac: 1}, {Op: "mix", Idx: []int{1, 3}, Nfrac: 2}, trig(3), sp}},
		// a request that arrives when the core loop has ended by itself but the teardown is still going on
		{Source: "erroring", Seed: 15, Ops: []Op{st, {Op: "dying"}, trig(0)}},
		{Source: "erroring", Seed: 16, Ops: []Op{st, {Op: "dying"}, {Op: "wc", W: "pause"}, trig(0)}},
		{Source: "erroring", Seed: 17, Ops: []Op{st, {Op: "dying"}, {Op: "lengths", Ns: 32, Np: 8}, sp}},
		{Source: "erroring", Seed: 18, Ops: []Op{st, {Op: "dying"}, {Op: "projectors", PIdx: 0, B64Ok: true, MatOk: true, Pcols: 16}}},
		{Source: "erroring", Seed: 19, Ops: []Op{st, {Op: "dying"}, {Op: "label"}}},
		{Source: "erroring", Seed: 20, Ops: []Op{st, {Op: "dying"}, {Op: "comment"}}},
		{Source: "erroring", Seed: 21, Ops: []Op{st, {Op: "dying"}, {Op: "coupleerr"}}},
		{Source: "erroring", Seed: 22, Ops: []Op{st, {Op: "dying"}, {Op: "couplefb"}}},
		{Source: "erroring", Seed: 23, Ops: []Op{st, {Op: "dying"}, {Op: "gadd", Conns: [][2]int{{0, 0}}}}},
		{Source: "erroring", Seed: 24, Ops: []Op{st, {Op: "dying"}, {Op: "gdel", Conns: [][2]int{{0, 0}}}}},
		{Source: "erroring", Seed: 25, Ops: []Op{st, {Op: "dying"}, {Op: "stopc"}}},
		{Source: "erroring", Seed: 26, Ops: []Op{st, {Op: "dying"}, {Op: "storeraw", N: 4}}},
		{Source: "erroring", Seed: 27, Ops: []Op{st, {Op: "dying"}, {Op: "wc", W: "stop"}, sp, st}},
		// a handler that lasts 1.3 s (its report to clients blocks) while blocks keep coming: nothing may overlap
		{Source: "triangle", Seed: 28, Ops: []Op{st, {Op: "coupleerr", Slow: true}, trig(0), sp}},
		// the temporary file of StoreRawDataBlock cannot be created
		{Source: "triangle", Seed: 29, Ops: []Op{st, {Op: "storeraw", N: 4, Io: true}, trig(1), {Op: "storeraw", N: 4}, sp}},
		{Source: "triangle", Seed: 30, Ops: []Op{{Op: "storeraw", N: 4, Io: true}, st, {Op: "storeraw", N: 0, Io: true}, {Op: "storeraw", N: 2, Io: true}, {Op: "stopc"}, sp}},
		// the same invalid request again and again: an error every time, and the refused values stick nowhere
		{Source: "triangle", Seed: 31, Ops: []Op{st, {Op: "lengths", Ns: 8, Np: 2}, {Op: "lengths", Ns: 8, Np: 2}, {Op: "lengths", Ns: 8, Np: 2},
			{Op: "lengths", Ns: 5, Np: 5}, {Op: "lengths", Ns: 5, Np: 5}, sp, st, {Op: "lengths", Ns: 16, Np: 4}, sp}},
		{Source: "triangle", Seed: 32, Ops: []Op{st, trig(3), trig(3), {Op: "projectors", PIdx: 7, B64Ok: true, MatOk: true, Pcols: 16},
			{Op: "projectors", PIdx: 7, B64Ok: true, MatOk: true, Pcols: 16}, {Op: "gadd", Conns: [][2]int{{0, 9}}}, {Op: "gadd", Conns: [][2]int{{0, 9}}},
			{Op: "storeraw", N: -1}, {Op: "storeraw", N: -1}, {Op: "coupleerr", On: true}, {Op: "coupleerr", On: true}, {Op: "label"}, {Op: "label"},
			{Op: "wc", W: "garbage"}, {Op: "wc", W: "garbage"}, {Op: "mix", Idx: []int{1}, Nfrac: 1}, {Op: "mix", Idx: []int{1}, Nfrac: 1}, sp}},
		// WriteControl START whose run directory can be made but whose experiment-state file cannot
		// (no trigger is on: with that path every data file is uncreatable too, which would be a second failure)
		{Source: "triangle", Seed: 33, Ops: []Op{st, {Op: "wc", W: "start", Ljh: true, PathO: true, Io: true}, {Op: "stopc"}, {Op: "wc", W: "stop"}, trig(0), sp}},
		// two mix requests outstanding at the same moment (two connections)
		{Source: "lancero", Seed: 34, Ops: []Op{st, {Op: "mix2", Idx: []int{1}, Nfrac: 1}, {Op: "mix", Idx: []int{3}, Nfrac: 1}, sp}},
		// projector / basis pairs whose basis is wrong in exactly one dimension, or in both
		{Source: "triangle", Seed: 35, Ops: []Op{st, {Op: "projectors", PIdx: 0, B64Ok: true, MatOk: true, Pcols: 16, BCols: 3},
			{Op: "projectors", PIdx: 1, B64Ok: true, MatOk: true, Pcols: 16, BRows: 7}, {Op: "projectors", PIdx: 1, B64Ok: true, MatOk: true, Pcols: 16, BRows: 7, BCols: 2},
			{Op: "projectors", PIdx: 2, B64Ok: true, MatOk: true, Pcols: 16}, {Op: "wc", W: "start", Off: true, PathO: true}, {Op: "wc", W: "stop"}, sp}},
		// restart on the same server
		{Source: "triangle", Seed: 14, Ops: []Op{st, trig(1), sp, trig(1), st, st, trig(1), sp, sp}},
	}
}

func gen(seed uint64, tier string) []interface{} {
	r := lib.NewRng(seed)
	var out []interface{}
	id := int64(1)
	for _, c := range corpus() {
		c.ID = id
		id++
		out = append(out, c)
	}
	n := 130
	if tier == "thorough" {
		n = 1500
	}
	for i := 0; i < n; i++ {
		q := r.Fork()
		src := "triangle"
		switch x := q.Intn(10); {
		case x < 6:
		case x < 8:
			src = "erroring"
		default:
			src = "lancero"
		}
		var ops []Op
		for j := q.Pick([]int{0, 0, 0, 1, 2}); j > 0; j-- { // requests with no source
			ops = append(ops, randReq(q, src))
		}
		ops = append(ops, Op{Op: "start"})
		nreq := q.Range(1, 7)
		if src == "lancero" {
			nreq = q.Range(1, 4)
		}
		for j := 0; j < nreq; j++ {
			if j > 0 && q.Chance(1, 4) { // the previous request once more
				ops = append(ops, ops[len(ops)-1])
				continue
			}
			if src == "erroring" && q.Chance(1, 3) {
				ops = append(ops, Op{Op: "settle"})
			} else if src == "erroring" && q.Chance(1, 3) {
				ops = append(ops, Op{Op: "dying"})
			}
			ops = append(ops, randReq(q, src))
		}
		if q.Chance(2, 3) {
			ops = append(ops, Op{Op: "stop"})
			for j := q.Pick([]int{0, 1, 2}); j > 0; j-- { // requests on a stopped source
				ops = append(ops, randReq(q, src))
			}
			if q.Chance(1, 4) {
				ops = append(ops, Op{Op: "start"}, randReq(q, src), Op{Op: "stop"})
			}
		}
		out = append(out, Case{ID: id, Source: src, Seed: q.U64() % 1000003, Ops: ops})
		id++
	}
	return out
}
