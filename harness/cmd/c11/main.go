// C11 harness: an in-process SourceControl (no TCP) served by the real core loop; one client issues the
// case's operations in order while the serialising scheduler (shared with C10) places each request
// before/after a block and before/after the source's own death.  The recorded trace, the reply class of
// every call and the final readings are rendered as one Coq term.
package main

import (
	"encoding/base64"
	"encoding/json"
	"fmt"
	"io"
	"log"
	"os"
	"path/filepath"
	"sort"
	"strings"
	"time"

	"github.com/usnistgov/dastard"
	"gonum.org/v1/gonum/mat"
	"verifharness/cmd/c10/drv"
	"verifharness/cmd/c10/sched"
	"verifharness/lib"
)

type Op struct {
	Op    string   `json:"op"` // start stop settle dying | triggers lengths projectors wc label comment coupleerr couplefb gadd gdel stopc storeraw mix
	Idx   []int    `json:"idx,omitempty"`
	Emt   bool     `json:"emt,omitempty"`
	Ns    int      `json:"ns,omitempty"`
	Np    int      `json:"np,omitempty"`
	PIdx  int      `json:"pidx,omitempty"`
	B64Ok bool     `json:"b64ok,omitempty"`
	MatOk bool     `json:"matok,omitempty"`
	Pcols int      `json:"pcols,omitempty"`
	BRows int      `json:"brows,omitempty"` // basis dimensions (0: the right ones, pcols x 1)
	BCols int      `json:"bcols,omitempty"`
	W     string   `json:"w,omitempty"` // start stop pause unpause unpause-label unpause-bad garbage
	Ljh   bool     `json:"ljh,omitempty"`
	Off   bool     `json:"off,omitempty"`
	PathO bool     `json:"pathok,omitempty"`
	Empty bool     `json:"empty,omitempty"`
	On    bool     `json:"on,omitempty"`
	Conns [][2]int `json:"conns,omitempty"`
	N     int      `json:"n,omitempty"`
	Nfrac int      `json:"nfrac,omitempty"`
	Io    bool     `json:"io,omitempty"`
	Slow  bool     `json:"slow,omitempty"` // the consumer of the server's client updates stalls for 1.3 s: the handler's report to clients blocks that long
}

type Case struct {
	ID     int64  `json:"id"`
	Source string `json:"source"` // triangle erroring lancero
	Seed   uint64 `json:"seed"`
	Ops    []Op   `json:"ops"`
}

const (
	nsamp0 = 16
	npre0  = 4
)

var points = []string{"rpc:before-send", "rpc:between", "core:before-select", "core:after-request",
	"core:after-block", "core:before-return"}
var coqPoint = map[string]string{"rpc:before-send": "PRpcSend", "rpc:between": "PRpcBetween",
	"core:before-select": "PCoreSel", "core:after-request": "PCoreReq", "core:after-block": "PCoreBlk",
	"core:before-return": "PCoreRet"}
var coqKind = map[string]string{"triangle": "SrcTriangle", "erroring": "SrcErroring", "lancero": "SrcLancero"}
var nchanOf = map[string]int{"triangle": 3, "erroring": 1, "lancero": 4}

type outcome struct {
	Events   []sched.Event `json:"events"`
	Returned int           `json:"returned"`
	Hung     bool          `json:"hung"`
	Overlap  bool          `json:"overlap"`           // the core loop left a handler that was still blocked
	Foreign  []string      `json:"foreign,omitempty"` // loop-owned state touched outside the core loop during a request
	Running  bool          `json:"final_running"`
	Progress bool          `json:"progress"`
}

func zl(xs []int) string { return lib.ZListInt(xs) }

// projDims: the projectors are 1 x cols; the basis is br x bc (cols x 1 unless the case says otherwise)
func projDims(o Op) (cols, br, bc int) {
	cols = o.Pcols
	if cols < 1 {
		cols = 1
	}
	br, bc = o.BRows, o.BCols
	if br < 1 {
		br = cols
	}
	if bc < 1 {
		bc = 1
	}
	return
}

func coqOp(o Op) string {
	io := lib.B(o.Io)
	switch o.Op {
	case "start":
		return "OStart"
	case "stop":
		return "OStop"
	case "triggers":
		return fmt.Sprintf("OReq (RqTriggers %s %s) %s", zl(o.Idx), lib.B(o.Emt), io)
	case "lengths":
		return fmt.Sprintf("OReq (RqPulseLengths %s %s) %s", lib.Z(int64(o.Ns)), lib.Z(int64(o.Np)), io)
	case "projectors":
		cols, br, bc := projDims(o)
		return fmt.Sprintf("OReq (RqProjectors %s %s %s %d %d %d) %s", lib.Z(int64(o.PIdx)), lib.B(o.B64Ok), lib.B(o.MatOk), cols, br, bc, io)
	case "wc":
		w := ""
		switch o.W {
		case "start":
			w = fmt.Sprintf("(WStart %s %s %s)", lib.B(o.Ljh), lib.B(o.Off), lib.B(o.PathO))
		case "stop":
			w = "WStop"
		case "pause":
			w = "WPause"
		case "unpause":
			w = "(WUnpause ULNone)"
		case "unpause-label":
			w = "(WUnpause ULGood)"
		case "unpause-bad":
			w = "(WUnpause ULBad)"
		default:
			w = "WGarbage"
		}
		return fmt.Sprintf("OReq (RqWriteControl %s) %s", w, io)
	case "label":
		return fmt.Sprintf("OReq (RqStateLabel %s) %s", lib.B(o.Empty), io)
	case "comment":
		return fmt.Sprintf("OReq (RqComment %s) %s", lib.B(o.Empty), io)
	case "coupleerr":
		return fmt.Sprintf("OReq (RqCoupleErrToFB %s) %s", lib.B(o.On), io)
	case "couplefb":
		return fmt.Sprintf("OReq (RqCoupleFBToErr %s) %s", lib.B(o.On), io)
	case "gadd", "gdel":
		var ps []string
		for _, c := range o.Conns {
			ps = append(ps, fmt.Sprintf("(%s, %s)", lib.Z(int64(c[0])), lib.Z(int64(c[1]))))
		}
		k := "RqGroupAdd"
		if o.Op == "gdel" {
			k = "RqGroupDel"
		}
		return fmt.Sprintf("OReq (%s %s) %s", k, lib.List(ps), io)
	case "stopc":
		return "OReq RqStopCoupling " + io
	case "storeraw":
		return fmt.Sprintf("OReq (RqStoreRaw %s) %s", lib.Z(int64(o.N)), io)
	case "mix", "mix2":
		return fmt.Sprintf("OReq (RqMix %s %s) %s", zl(o.Idx), lib.Z(int64(o.Nfrac)), io)
	}
	return "OStop"
}

type env struct {
	sc      *dastard.SourceControl
	source  string
	tmp     string
	cleanup []string
}

// longBase makes a directory whose path is so long that <base>/YYYYMMDD/NNNN (14 more characters) still fits below
// PATH_MAX = 4096 but <that>/YYYYMMDD_runNNNN_experiment_state.txt (38 more) does not (ENAMETOOLONG, also for root).
func (e *env) longBase() string {
	const target = 4060
	base := filepath.Join(e.tmp, "long")
	for len(base) < target {
		n := target - len(base) - 1
		if n > 200 {
			n = 200
		}
		if n < 1 {
			break
		}
		base = filepath.Join(base, strings.Repeat("d", n))
	}
	os.MkdirAll(base, 0o755)
	return base
}

func (e *env) do(o Op) (call string, class string) {
	okerr := func(err error) string {
		if err == nil {
			return "ok"
		}
		return "err"
	}
	var okb bool
	sc := e.sc
	switch o.Op {
	case "start":
		name := map[string]string{"triangle": "TRIANGLESOURCE", "erroring": "ERRORINGSOURCE", "lancero": "LANCEROSOURCE"}[e.source]
		return "start", okerr(sc.Start(&name, &okb))
	case "stop":
		d := ""
		return "stop", okerr(sc.Stop(&d, &okb))
	case "triggers":
		st := &dastard.FullTriggerState{ChannelIndices: o.Idx}
		st.AutoTrigger = true
		st.AutoDelay = 10 * time.Millisecond
		if o.Emt {
			st.EdgeMulti = true
			st.EdgeMultiNoise = true
		}
		return "req", okerr(sc.ConfigureTriggers(st, &okb))
	case "lengths":
		return "req", okerr(sc.ConfigurePulseLengths(dastard.SizeObject{Nsamp: o.Ns, Npre: o.Np}, &okb))
	case "projectors":
		pb := &dastard.ProjectorsBasisObject{ChannelIndex: o.PIdx, ModelDescription: "verif"}
		cols, br, bc := projDims(o)
		pm := mat.NewDense(1, cols, nil)
		bm := mat.NewDense(br, bc, nil)
		pbytes, _ := pm.MarshalBinary()
		bbytes, _ := bm.MarshalBinary()
		if !o.MatOk {
			pbytes = []byte{1, 2, 3}
		}
		pb.ProjectorsBase64 = base64.StdEncoding.EncodeToString(pbytes)
		pb.BasisBase64 = base64.StdEncoding.EncodeToString(bbytes)
		if !o.B64Ok {
			pb.ProjectorsBase64 = "!!! not base64 !!!"
		}
		return "req", okerr(sc.ConfigureProjectorsBasis(pb, &okb))
	case "wc":
		cfg := &dastard.WriteControlConfig{}
		switch o.W {
		case "start":
			cfg.Request = "START"
			cfg.WriteLJH22 = o.Ljh
			cfg.WriteOFF = o.Off
			if o.PathO && o.Io {
				// the run directory can be made, the experiment-state file cannot: only its name exceeds PATH_MAX
				cfg.Path = e.longBase()
			} else if o.PathO {
				cfg.Path = filepath.Join(e.tmp, "data")
			} else {
				cfg.Path = filepath.Join(e.tmp, "regular_file", "sub") // the parent is a regular file
			}
		case "stop":
			cfg.Request = "STOP"
		case "pause":
			cfg.Request = "PAUSE"
		case "unpause":
			cfg.Request = "UNPAUSE"
		case "unpause-label":
			cfg.Request = "UNPAUSE labelA"
		case "unpause-bad":
			cfg.Request = "UNPAUSEx"
		default:
			cfg.Request = "FROBNICATE"
		}
		return "req", okerr(sc.WriteControl(cfg, &okb))
	case "label":
		l := "stateB"
		if o.Empty {
			l = ""
		}
		return "req", okerr(sc.SetExperimentStateLabel(&dastard.StateLabelConfig{Label: l, WaitForError: true}, &okb))
	case "comment":
		c := "a comment"
		if o.Empty {
			c = ""
		}
		if o.Io {
			// make comment.txt impossible to create: a directory of that name is in the way
			if a := sc.VerifActiveAny(); a != nil {
				if ws := a.ComputeWritingState(); ws.Active {
					os.MkdirAll(filepath.Join(filepath.Dir(ws.FilenamePattern), "comment.txt"), 0o755)
				}
			}
		}
		return "req", okerr(sc.WriteComment(&c, &okb))
	case "coupleerr":
		on := o.On
		return "req", okerr(sc.CoupleErrToFB(&on, &okb))
	case "couplefb":
		on := o.On
		return "req", okerr(sc.CoupleFBToErr(&on, &okb))
	case "gadd", "gdel":
		m := map[int][]int{}
		for _, c := range o.Conns {
			m[c[0]] = append(m[c[0]], c[1])
		}
		g := dastard.GroupTriggerState{Connections: m}
		if o.Op == "gadd" {
			return "req", okerr(sc.AddGroupTriggerCoupling(g, &okb))
		}
		return "req", okerr(sc.DeleteGroupTriggerCoupling(&g, &okb))
	case "stopc":
		b := false
		return "req", okerr(sc.StopTriggerCoupling(&b, &okb))
	case "storeraw":
		var name string
		if o.Io {
			// the temporary file cannot be created: TMPDIR names a directory that does not exist
			old, had := os.LookupEnv("TMPDIR")
			os.Setenv("TMPDIR", filepath.Join(e.tmp, "no_such_directory"))
			defer func() {
				if had {
					os.Setenv("TMPDIR", old)
				} else {
					os.Unsetenv("TMPDIR")
				}
			}()
		}
		err := sc.StoreRawDataBlock(o.N, &name)
		if name != "" {
			e.cleanup = append(e.cleanup, name, strings.Replace(name, ".npz", "_inprogress.npz", 1))
		}
		return "req", okerr(err)
	case "mix", "mix2":
		fr := make([]float64, o.Nfrac)
		return "req", okerr(sc.ConfigureMixFraction(&dastard.MixFractionObject{ChannelIndices: o.Idx, MixFractions: fr}, &okb))
	}
	return "req", "err"
}

func runOnce(c Case, watchdog time.Duration) (outcome, error) {
	var out outcome
	dastard.VerifC10Setup()
	tmp, err := os.MkdirTemp("", "verif_c11_")
	if err != nil {
		return out, err
	}
	e := &env{source: c.Source, tmp: tmp}
	defer func() {
		os.RemoveAll(tmp)
		for _, f := range e.cleanup {
			os.Remove(f)
		}
	}()
	os.WriteFile(filepath.Join(tmp, "regular_file"), []byte("x"), 0o644)
	sc := dastard.VerifC11NewSourceControl(npre0, nsamp0)
	e.sc = sc
	var okb bool
	switch c.Source {
	case "triangle":
		if err := sc.ConfigureTriangleSource(&dastard.TriangleSourceConfig{Nchan: nchanOf["triangle"], SampleRate: 10000, Min: 100, Max: 110}, &okb); err != nil {
			return out, err
		}
	case "erroring":
	case "lancero":
		sc.VerifSetLancero(dastard.VerifC10NewLancero(drv.NewCard(2, 1, ""), 2))
	default:
		return out, fmt.Errorf("unknown source %q", c.Source)
	}
	s := sched.New(lib.NewRng(c.Seed), points)
	dastard.VerifSetPointHook(s.Hook)
	defer dastard.VerifSetPointHook(nil)

	really := func() bool {
		a := sc.VerifActiveAny()
		return a != nil && a.GetState() == dastard.Active
	}
	next := 0
	var slowUntil time.Time // a handler is being held open until (at least) then
	slowBase := 0
	hold := false // the core loop is parked after its loop ended: keep that window open while the next request waits
	const maxSteps = 800
	for !out.Hung {
		if s.Pending() == 0 {
			if next >= len(c.Ops) {
				break
			}
			o := c.Ops[next]
			next++
			if o.Op == "settle" {
				// let the source run (and, if it is of that kind, die) before the next operation
				for i := 0; i < 40 && really(); i++ {
					if !s.Step(nil) && !s.WaitActivity(20*time.Millisecond) {
						break
					}
				}
				continue
			}
			if o.Op == "mix2" && c.Source == "lancero" && really() {
				// two connections: two mix requests outstanding at the same moment.  Keep the core loop parked at
				// core:before-select until the block assembler holds a finished block (it then serves no mix request),
				// queue both requests, and only then let the core loop go on.
				for i := 0; i < 80 && !s.ParkedAt("core:before-select"); i++ {
					if !s.Step(func(n string) bool { return strings.HasPrefix(n, "core:") && n != "core:before-select" }) &&
						!s.WaitActivity(20*time.Millisecond) {
						break
					}
				}
				time.Sleep(120 * time.Millisecond) // two reader ticks: the assembler is blocked handing over its block
				s.Go("req", func() string { _, cls := e.do(o); return cls })
				s.Go("req", func() string { _, cls := e.do(o); return cls })
				time.Sleep(20 * time.Millisecond)
				continue
			}
			if o.Op == "dying" {
				// let the core loop run into the source's own end and stop at core:before-return: its loop is over,
				// but until the deferred teardown has run the source still counts as running
				for i := 0; i < 60 && !s.ParkedAt("core:before-return") && really(); i++ {
					if !s.Step(func(n string) bool { return strings.HasPrefix(n, "core:") && n != "core:before-return" }) &&
						!s.WaitActivity(20*time.Millisecond) {
						break
					}
				}
				hold = s.ParkedAt("core:before-return")
				continue
			}
			call := "req"
			if o.Op == "start" || o.Op == "stop" {
				call = o.Op
			}
			if o.Slow {
				dastard.VerifC11HoldUpdates(1300 * time.Millisecond)
				slowUntil = time.Now().Add(1200 * time.Millisecond)
				slowBase = s.Count("core:after-request")
				time.Sleep(10 * time.Millisecond) // the consumer notices within 2 ms
			}
			s.SetJudge(call == "req")
			s.Go(call, func() string { _, cls := e.do(o); return cls })
			for i := 0; i < 50 && s.InFlightFrom("call:"+call); i++ {
				time.Sleep(100 * time.Microsecond)
			}
			continue
		}
		if s.Steps >= maxSteps {
			out.Hung = true
			break
		}
		if time.Now().Before(slowUntil) && s.Count("core:after-request") > slowBase {
			out.Overlap = true // the core loop is past the handler although the handler cannot have finished
		}
		if hold {
			if s.Step(func(n string) bool { return strings.HasPrefix(n, "rpc:") }) {
				continue
			}
			// the client is inside its send (or has been answered already): the teardown takes its time
			time.Sleep(60 * time.Millisecond)
			hold = false
		}
		if !s.Step(nil) && !s.WaitActivity(watchdog) {
			out.Hung = true
		}
	}
	// ---- tail: is the source (really) running, and do blocks still get processed? ----
	if !out.Hung {
		target := s.Count("core:after-block") + 2
		deadline := time.Now().Add(watchdog)
		for {
			out.Running = really()
			if !out.Running {
				break
			}
			if s.Count("core:after-block") >= target {
				out.Progress = true
				break
			}
			if time.Now().After(deadline) || s.Steps >= maxSteps+200 {
				break
			}
			if !s.Step(nil) {
				s.WaitActivity(50 * time.Millisecond)
			}
		}
	}
	out.Events = s.Events()
	out.Foreign = s.ForeignAccesses()
	s.SetJudge(false)
	for _, ev := range out.Events {
		if ev.Kind == "ret" {
			out.Returned++
		}
	}
	s.PassThrough()
	dastard.VerifSetPointHook(nil)
	if !out.Hung && sc.VerifIsSourceActive() {
		done := make(chan struct{})
		go func() { d := ""; sc.Stop(&d, &okb); close(done) }()
		select {
		case <-done:
		case <-time.After(watchdog):
		}
	}
	return out, nil
}

func render(c Case, out outcome, crashed bool) string {
	var ops []string
	for _, o := range c.Ops {
		if o.Op == "mix2" && c.Source == "lancero" {
			ops = append(ops, coqOp(o)) // two calls (the model serves them one after the other)
		}
		if o.Op != "settle" && o.Op != "dying" {
			ops = append(ops, coqOp(o))
		}
	}
	var es []string
	for _, e := range out.Events {
		switch e.Kind {
		case "pt":
			es = append(es, "pt "+coqPoint[e.Name])
		case "ret":
			call := map[string]string{"start": "CallStart", "stop": "CallStop", "req": "CallReq"}[e.Name]
			cls := "ROk"
			if e.Val != "ok" {
				cls = "RErr"
			}
			es = append(es, "ret "+call+" "+cls)
		}
	}
	return fmt.Sprintf("mk %s %d %d %d %s %s %d%%nat %s %s %s %s %s", coqKind[c.Source], nchanOf[c.Source], nsamp0, npre0,
		lib.List(ops), lib.List(es), out.Returned, lib.B(crashed), lib.B(out.Overlap), lib.B(len(out.Foreign) > 0), lib.B(out.Running), lib.B(out.Progress))
}

// tagsOf: input features, also the stable keys of findings (request kind x argument class x state)
func tagsOf(c Case) []string {
	t := map[string]bool{"source:" + c.Source: true}
	started, stopped := false, false
	for _, o := range c.Ops {
		switch o.Op {
		case "start":
			started, stopped = true, false
			continue
		case "stop":
			stopped = true
			continue
		case "settle":
			if started && c.Source == "erroring" {
				t["after-self-termination"] = true
			}
			continue
		case "dying":
			if started && c.Source == "erroring" {
				t["during-self-termination"] = true
			}
			continue
		}
		t["req:"+o.Op] = true
		if !started {
			t["state:no-source"] = true
		} else if stopped {
			t["state:stopped"] = true
		} else {
			t["state:running"] = true
		}
		if o.Io || (o.Op == "wc" && o.W == "start" && !o.PathO) {
			t["io-failure"] = true
		}
		if o.Slow {
			t["slow-handler"] = true
		}
		for _, i := range o.Idx {
			if i < 0 {
				t["negative-index"] = true
			}
			if i >= nchanOf[c.Source] {
				t["index-too-large"] = true
			}
		}
		for _, p := range o.Conns {
			if p[0] < 0 || p[1] < 0 || p[0] >= nchanOf[c.Source] || p[1] >= nchanOf[c.Source] {
				t["coupling-index-out-of-range"] = true
			}
		}
		if o.Op == "storeraw" && o.N <= 0 {
			t["non-positive-count"] = true
		}
		if o.Op == "mix" && o.Nfrac != len(o.Idx) {
			t["mismatched-lengths"] = true
		}
		if o.Op == "projectors" && (!o.B64Ok || !o.MatOk) {
			t["malformed-encoding"] = true
		}
		if o.Op == "projectors" && (o.BRows > 0 || o.BCols > 0) {
			t["basis-shape-mismatch"] = true
		}
	}
	var out []string
	for k := range t {
		out = append(out, k)
	}
	sort.Strings(out)
	return out
}

func runCase(c Case) (lib.Result, error) {
	res := lib.Result{ID: c.ID, Hash: lib.Hash(struct {
		S  string
		Sd uint64
		O  []Op
	}{c.Source, c.Seed, c.Ops})}
	out, err := runOnce(c, 3*time.Second)
	if err != nil {
		return res, err
	}
	res.Tags = tagsOf(c)
	if out.Hung {
		// inconclusive first: once more, alone, with a five times longer limit
		out2, err := runOnce(c, 15*time.Second)
		if err != nil {
			return res, err
		}
		out = out2
		if out.Hung {
			res.Tags = append(res.Tags, "watchdog-expired-twice")
		}
	}
	res.Term = render(c, out, false)
	res.Impl = out
	served, errs := false, false
	for _, e := range out.Events {
		if e.Kind == "pt" && e.Name == "core:after-request" {
			served = true
		}
		if e.Kind == "ret" && e.Name == "req" && e.Val != "ok" {
			errs = true
		}
	}
	res.NonTrivial = served || errs
	return res, nil
}

func main() {
	log.SetOutput(io.Discard)
	if os.Getenv("VERIF_C11_DEBUG") == "" {
		devnull, _ := os.OpenFile(os.DevNull, os.O_WRONLY, 0)
		os.Stdout = devnull
	}
	h := lib.Harness{
		Gen: gen,
		RunCase: func(raw json.RawMessage) (lib.Result, error) {
			var c Case
			if err := json.Unmarshal(raw, &c); err != nil {
				return lib.Result{}, err
			}
			return runCase(c)
		},
		Crash: func(raw json.RawMessage, stderr string) (lib.Result, error) {
			var c Case
			if err := json.Unmarshal(raw, &c); err != nil {
				return lib.Result{}, err
			}
			first := ""
			for _, l := range strings.Split(stderr, "\n") {
				if strings.HasPrefix(l, "panic:") || strings.HasPrefix(l, "fatal error:") {
					first = l
					break
				}
			}
			return lib.Result{ID: c.ID, Term: render(c, outcome{}, true), Impl: map[string]string{"crash": first},
				Tags: append(tagsOf(c), "crash"), Hash: lib.Hash(c), NonTrivial: true}, nil
		},
		Header:   "From Dastard Require Import Common.ZX Common.CaseLib C10.Conc C11.Model C11.Spec C11.Run.",
		Verdict:  "verdict",
		PerShard: 40,
		Isolate:  true,
		Chunk:    6,
		Workers:  12,
	}
	h.Main()
}
