// C18 harness: drives ringbuffer's public API on /dev/shm regions.
package main

import (
	"encoding/binary"
	"encoding/json"
	"fmt"
	"os"

	"github.com/usnistgov/dastard"
	"github.com/usnistgov/dastard/ringbuffer"
	"verifharness/lib"
)

type Op struct {
	Op   string `json:"op"` // W R RM RA DS DA ; CL = stop the AbacoRing device (the next ST opens it again) ; PS = store packet size N in the ring description ; WP = write of the pattern (A+i) mod 251, i < N ; ST = AbacoRing.discardStale
	Data []byte `json:"-"`
	D    []int  `json:"d,omitempty"`
	N    int64  `json:"n,omitempty"`
	A    int    `json:"a,omitempty"`
}
type Case struct {
	ID    int64  `json:"id"`
	Cap   int    `json:"cap"`
	Abaco bool   `json:"abaco,omitempty"` // drive discards through dastard's AbacoRing device (packet size 8192)
	Base  uint64 `json:"base,omitempty"`  // both free-running pointers are set to this value right after Create
	PSize int    `json:"psize,omitempty"` // packet size stored in the ring description (0 = the 8192 that Create puts there)
	Ops   []Op   `json:"ops"`
}

// bytesTerm renders a byte string, compactly when it follows the pattern (a+i) mod 251.
func bytesTerm(b []byte) string {
	if len(b) >= 64 {
		ok := true
		for i := 1; i < len(b); i++ {
			if int(b[i]) != (int(b[i-1])+1)%251 {
				ok = false
				break
			}
		}
		if ok && int(b[0]) < 251 {
			return fmt.Sprintf("(pat %d %d)", b[0], len(b))
		}
	}
	return lib.ZListBytes(b)
}

func sizeNear(r *lib.Rng, cap int) int {
	switch r.Intn(6) {
	case 0:
		return r.Range(0, 3)
	case 1:
		return cap - 1 + r.Range(-2, 2)
	case 2:
		return cap + r.Range(0, 3)
	case 3:
		return cap/2 + r.Range(-1, 1)
	default:
		return r.Range(0, cap)
	}
}

func genCase(r *lib.Rng, id int64, tier string) Case {
	caps := []int{2, 3, 4, 5, 7, 8, 11, 16, 16, 16, 32, 33, 64}
	cap := r.Pick(caps)
	nops := r.Range(5, 40)
	if tier == "thorough" {
		nops = r.Range(5, 200)
		if r.Chance(1, 50) {
			cap = 1 << 12
			nops = r.Range(3, 12)
		}
	}
	c := Case{ID: id, Cap: cap}
	if r.Chance(1, 6) {
		c.Base = r.PickU64([]uint64{1, 63, 1 << 31, 1<<32 - 1, 1 << 32, 1<<32 + 1, 3<<32 + 12345, 1 << 40, 1<<62 + 7})
	}
	next := 0
	malformed := r.Chance(1, 10)
	for i := 0; i < nops; i++ {
		var o Op
		switch r.Intn(12) {
		case 0, 1, 2, 3, 4:
			n := sizeNear(r, cap)
			if n < 0 {
				n = 0
			}
			o = Op{Op: "W"}
			for j := 0; j < n; j++ {
				o.D = append(o.D, next&0xff)
				next = next*1 + 1 + (next>>8)&1
			}
		case 5, 6, 7:
			o = Op{Op: "R", N: int64(sizeNear(r, cap))}
			if malformed && r.Chance(1, 4) {
				o.N = int64(r.Range(-5, 0))
			}
		case 8:
			o = Op{Op: "RM", N: int64(r.Range(1, cap+1))}
			if r.Chance(1, 2) {
				o.N = int64(r.Pick([]int{1, 2, 3, 4, 8}))
			}
			if malformed && r.Chance(1, 3) {
				o.N = int64(r.Pick([]int{0, -1, -8, cap, cap + 5}))
			}
		case 9:
			o = Op{Op: "RA"}
		case 10:
			o = Op{Op: "DS", N: int64(r.Pick([]int{1, 2, 3, 4, 5, 8, cap, cap + 3}))}
			if malformed && r.Chance(1, 3) {
				o.N = 0
			}
		case 11:
			if r.Chance(1, 3) {
				o = Op{Op: "DA"}
			} else {
				o = Op{Op: "DS", N: int64(r.Range(2, 9))}
			}
		}
		c.Ops = append(c.Ops, o)
	}
	return c
}

func corpus() []Case {
	b := func(n, from int) []int {
		x := make([]int, n)
		for i := range x {
			x[i] = (from + i) & 0xff
		}
		return x
	}
	return []Case{
		// witness of ring_refines_fifo_refuted (pre-fix DiscardStride moved the read pointer backwards)
		{Cap: 16, Ops: []Op{{Op: "W", D: b(7, 0)}, {Op: "R", N: 5}, {Op: "DS", N: 4}, {Op: "RA"}}},
		{Cap: 16, Ops: []Op{{Op: "W", D: b(7, 0)}, {Op: "RM", N: 0}}},
		{Cap: 16, Ops: []Op{{Op: "W", D: b(7, 0)}, {Op: "DS", N: 0}, {Op: "RA"}}},
		// exactly full, then wrap
		{Cap: 8, Ops: []Op{{Op: "W", D: b(9, 0)}, {Op: "R", N: 3}, {Op: "W", D: b(5, 9)}, {Op: "RA"}, {Op: "RA"}}},
		{Cap: 8, Ops: []Op{{Op: "W", D: b(7, 0)}, {Op: "RA"}, {Op: "W", D: b(1, 7)}, {Op: "W", D: b(7, 8)}, {Op: "RM", N: 3}, {Op: "DS", N: 5}, {Op: "RA"}}},
		{Cap: 2, Ops: []Op{{Op: "W", D: b(3, 0)}, {Op: "RA"}, {Op: "W", D: b(1, 1)}, {Op: "RA"}, {Op: "W", D: b(1, 2)}, {Op: "DA"}, {Op: "RA"}}},
		// a backlog above 1 MiB read with a chunk size that does not divide 2^20 (and then drained)
		{Cap: 1 << 21, Ops: []Op{{Op: "WP", A: 7, N: 1150000}, {Op: "RM", N: 3000}, {Op: "R", N: 70000}, {Op: "RA"}, {Op: "RA"}}},
		{Cap: 300000, Ops: []Op{{Op: "WP", A: 1, N: 299999}, {Op: "RM", N: 4097}, {Op: "WP", A: 9, N: 100000}, {Op: "RA"}}},
		// AbacoRing: stale data that end inside a packet must be discarded only up to a packet boundary
		{Cap: 8192*3 + 5, Abaco: true, Ops: []Op{{Op: "WP", A: 3, N: 5000}, {Op: "ST"}, {Op: "WP", A: 100, N: 8000}, {Op: "ST"}, {Op: "RM", N: 8192}, {Op: "RA"}}},
		{Cap: 8192 * 4, Abaco: true, Ops: []Op{{Op: "WP", A: 0, N: 20000}, {Op: "ST"}, {Op: "RA"}, {Op: "WP", A: 5, N: 13000}, {Op: "ST"}, {Op: "RM", N: 8192}}},
		// AbacoRing.ReadAllPackets takes whole packets only: 1 1/3 packets, poll, complete the packet, add one, poll
		{Cap: 8192 * 4, Abaco: true, Ops: []Op{{Op: "ST"}, {Op: "WP", A: 0, N: 10922}, {Op: "RP"}, {Op: "WP", A: 129, N: 5462}, {Op: "WP", A: 7, N: 8192}, {Op: "RP"}, {Op: "RA"}}},
		// a ring whose description gives a packet size other than 8192: stale data at start are discarded to a boundary
		// of THAT size, whole packets of that size are read; then the device is stopped, the size changes, started again
		{Cap: 8192 * 4, Abaco: true, PSize: 1000, Ops: []Op{{Op: "WP", A: 3, N: 9500}, {Op: "ST"}, {Op: "RA"}, {Op: "WP", A: 8, N: 2700}, {Op: "RP"}, {Op: "RA"}}},
		{Cap: 8192 * 4, Abaco: true, PSize: 3000, Ops: []Op{{Op: "WP", A: 3, N: 10000}, {Op: "ST"}, {Op: "RA"}, {Op: "CL"}, {Op: "PS", N: 700}, {Op: "WP", A: 8, N: 9000}, {Op: "ST"}, {Op: "RA"}, {Op: "WP", A: 8, N: 2000}, {Op: "RP"}, {Op: "RA"}}},
		// free-running pointers beyond 2^32 with strides that are not powers of two
		{Cap: 64, Base: 1 << 32, Ops: []Op{{Op: "W", D: b(40, 0)}, {Op: "R", N: 3}, {Op: "DS", N: 7}, {Op: "RA"}, {Op: "W", D: b(50, 40)}, {Op: "DS", N: 12}, {Op: "RM", N: 5}, {Op: "RA"}}},
		{Cap: 33, Base: 5*(1<<32) + 1792, Ops: []Op{{Op: "W", D: b(30, 0)}, {Op: "DS", N: 9}, {Op: "RA"}, {Op: "W", D: b(20, 30)}, {Op: "DS", N: 1000}, {Op: "RA"}}},
	}
}

func gen(seed uint64, tier string) []interface{} {
	r := lib.NewRng(seed)
	n := 500
	if tier == "thorough" {
		n = 8000
	}
	var out []interface{}
	id := int64(1)
	for _, c := range corpus() {
		c.ID = id
		id++
		out = append(out, c)
	}
	for i := 0; i < n; i++ {
		out = append(out, genCase(r.Fork(), id, tier))
		id++
	}
	// AbacoRing device on rings of 2..5 packets: writes that end inside and on packet boundaries, stale discards
	na := 12
	if tier == "thorough" {
		na = 150
	}
	for i := 0; i < na; i++ {
		q := r.Fork()
		c := Case{ID: id, Abaco: true, Cap: 8192*q.Range(2, 5) + q.Pick([]int{0, 1, 5, 4096})}
		psizes := []int{100, 700, 1000, 3000, 4096, 8000, 8192, 8200, 12288}
		if q.Chance(1, 2) {
			c.PSize = q.Pick(psizes)
		}
		for k := q.Range(3, 9); k > 0; k-- {
			if c.PSize != 0 && q.Chance(1, 5) {
				// stop the device; sometimes the ring comes back with another packet size; stale data; start
				c.Ops = append(c.Ops, Op{Op: "CL"})
				if q.Chance(1, 2) {
					c.Ops = append(c.Ops, Op{Op: "PS", N: int64(q.Pick(psizes))})
				}
				c.Ops = append(c.Ops, Op{Op: "WP", A: q.Intn(251), N: int64(q.Pick([]int{100, 5000, 8192, 9500, 12000}))}, Op{Op: "ST"})
				continue
			}
			switch q.Intn(6) {
			case 0, 1, 2:
				c.Ops = append(c.Ops, Op{Op: "WP", A: q.Intn(251), N: int64(q.Pick([]int{1, 100, 4096, 5000, 8191, 8192, 8193, 12000, 16384, 20000}))})
			case 3:
				c.Ops = append(c.Ops, Op{Op: "ST"})
			case 4:
				c.Ops = append(c.Ops, Op{Op: q.Pick2("RM", "RP"), N: 8192})
			default:
				c.Ops = append(c.Ops, Op{Op: q.Pick2("RA", "R"), N: int64(q.Range(1, 9000))})
			}
		}
		out = append(out, c)
		id++
	}
	return out
}

type obsv struct {
	Ret      string `json:"ret"`
	Data     []byte `json:"-"`
	D        []int  `json:"d,omitempty"`
	N        int    `json:"n,omitempty"`
	Readable int    `json:"readable"`
	Writable int    `json:"writeable"`
}

func runCase(c Case) lib.Result {
	res := lib.Result{ID: c.ID, Hash: lib.Hash(struct {
		C int
		A bool
		B uint64
		O []Op
		P int
	}{c.Cap, c.Abaco, c.Base, c.Ops, c.PSize})}
	if c.Abaco {
		// opening the device (start) discards stale data: make that an explicit operation in front of every
		// ReadAllPackets that would find the device closed (whatever was written before it is stale data)
		var ops []Op
		open := false
		for _, o := range c.Ops {
			switch o.Op {
			case "ST":
				open = true
			case "CL":
				open = false
			case "RP":
				if !open {
					ops = append(ops, Op{Op: "ST"})
					open = true
				}
			}
			ops = append(ops, o)
		}
		c.Ops = ops
	}
	name := fmt.Sprintf("verif_c18_%d_%d", os.Getpid(), c.ID)
	rawName, descName := name+"_raw", name+"_desc"
	ringnum := 0
	if c.Abaco {
		// NewAbacoRing accepts negative ring numbers "for testing only": one per process and case
		ringnum = -(1 + (os.Getpid()%30000)*1000 + int(c.ID%1000))
		var err error
		if rawName, descName, err = dastard.VerifRingNames(ringnum); err != nil {
			panic(err)
		}
	}
	rb, err := ringbuffer.NewRingBuffer(rawName, descName)
	if err != nil {
		panic(err)
	}
	if err = rb.Create(c.Cap); err != nil {
		panic(err)
	}
	defer func() { rb.Close(); rb.Unlink() }()
	if c.Base != 0 {
		// bufferDescription: magic u32, version u32, writePointer u64 (offset 8), readPointer u64 (offset 16)
		f, err := os.OpenFile("/dev/shm/"+descName, os.O_RDWR, 0)
		if err != nil {
			panic(err)
		}
		var b [16]byte
		binary.LittleEndian.PutUint64(b[0:], c.Base)
		binary.LittleEndian.PutUint64(b[8:], c.Base)
		if _, err := f.WriteAt(b[:], 8); err != nil {
			panic(err)
		}
		f.Close()
	}
	pokePSize := func(n int) {
		// bufferDescription: ... bufferSize u64 (offset 24), packetSize i64 (offset 32)
		f, err := os.OpenFile("/dev/shm/"+descName, os.O_RDWR, 0)
		if err != nil {
			panic(err)
		}
		var b [8]byte
		binary.LittleEndian.PutUint64(b[:], uint64(int64(n)))
		if _, err := f.WriteAt(b[:], 32); err != nil {
			panic(err)
		}
		f.Close()
	}
	descP := 8192 // the packet size in the ring description
	if c.Abaco && c.PSize > 0 {
		pokePSize(c.PSize)
		descP = c.PSize
	}
	devP := descP // the packet size the open device has to use: the description's value when it was opened
	var acc []byte // accepted bytes (harness bookkeeping, used to render what ReadAllPackets consumed)
	var dev *dastard.VerifAbacoRing
	defer func() {
		if dev != nil {
			dev.Stop()
		}
	}()
	var terms []string
	var impl []obsv
	tags := map[string]bool{}
	w, r := 0, 0 // harness-side bookkeeping for tags only
	wrapped, readAfterWrap := false, false
	for _, o := range c.Ops {
		var ob obsv
		var term string
		panicked := false
		if o.Op == "CL" || o.Op == "PS" {
			// not ring operations: they only decide which packet size the device must use from its next start
			if o.Op == "CL" && dev != nil {
				dev.Stop()
				dev = nil
				tags["abaco-restart"] = true
			}
			if o.Op == "PS" && o.N > 0 && c.Abaco {
				pokePSize(int(o.N))
				descP = int(o.N)
			}
			continue
		}
		func() {
			defer func() {
				if e := recover(); e != nil {
					panicked = true
				}
			}()
			switch o.Op {
			case "RP":
				// AbacoRing.ReadAllPackets: the bytes it takes from the ring are seen through Readable before/after;
				// they are rendered as a ReadMultipleOf(8192) whose data are the next bytes of the accepted stream
				if dev == nil {
					// cannot happen: an ST is inserted in front of an RP on a closed device
					ob = obsv{Ret: "err"}
					break
				}
				before := rb.BytesReadable()
				dev.ReadAllPackets() // pattern bytes are not valid packets: the parse error is irrelevant here
				took := before - rb.BytesReadable()
				if took < 0 || r+took > len(acc) {
					took = 0
				}
				cp := append([]byte(nil), acc[r:r+took]...)
				ob = obsv{Ret: "data", Data: cp, N: took}
				r += took
				tags["abaco-read-all-packets"] = true
			case "ST":
				// the device is opened by the first ST (start() = Open + discardStale), later ones call discardStale
				var err error
				if dev == nil {
					devP = descP
					dev, err = dastard.VerifOpenAbacoRing(ringnum)
				} else {
					err = dev.DiscardStale()
				}
				if err != nil {
					ob = obsv{Ret: "err"}
					tags["error-return"] = true
				} else {
					ob = obsv{Ret: "nil"}
				}
				tags["abaco-discard-stale"] = true
			case "W", "WP":
				d := make([]byte, len(o.D))
				for i, v := range o.D {
					d[i] = byte(v)
				}
				if o.Op == "WP" {
					d = make([]byte, o.N)
					for i := range d {
						d[i] = byte((o.A + i) % 251)
					}
					tags["long-pattern-write"] = true
				}
				n, _ := rb.Write(d)
				if c.Abaco && n >= 0 && n <= len(d) {
					acc = append(acc, d[:n]...)
				}
				ob = obsv{Ret: "written", N: n}
				if n < len(d) {
					tags["write-truncated"] = true
				}
				if n > 0 && (w+n)/c.Cap > w/c.Cap {
					wrapped = true
					tags["write-wraps"] = true
				}
				w += n
			case "R", "RA", "RM":
				var data []byte
				var err error
				switch o.Op {
				case "R":
					data, err = rb.Read(int(o.N))
				case "RA":
					data, err = rb.ReadAll()
				case "RM":
					data, err = rb.ReadMultipleOf(int(o.N))
				}
				if err != nil {
					ob = obsv{Ret: "err"}
					tags["error-return"] = true
				} else {
					cp := append([]byte(nil), data...)
					ob = obsv{Ret: "data", Data: cp}
					if len(cp) <= 4096 {
						for _, v := range cp {
							ob.D = append(ob.D, int(v))
						}
					} else {
						ob.N = len(cp)
					}
					if len(cp) == 0 {
						tags["empty-read"] = true
					} else if wrapped {
						readAfterWrap = true
					}
					if len(cp) > 0 && (r+len(cp))/c.Cap > r/c.Cap {
						tags["read-wraps"] = true
					}
					r += len(cp)
				}
			case "DS":
				if err := rb.DiscardStride(uint64(o.N)); err != nil {
					ob = obsv{Ret: "err"}
					tags["error-return"] = true
				} else {
					ob = obsv{Ret: "nil"}
					if o.N > 0 && w-w%int(o.N) < r {
						tags["discard-no-boundary"] = true
					}
				}
			case "DA":
				if err := rb.DiscardAll(); err != nil {
					ob = obsv{Ret: "err"}
				} else {
					ob = obsv{Ret: "nil"}
				}
			}
			ob.Readable = rb.BytesReadable()
			ob.Writable = rb.BytesWriteable()
			if o.Op == "DS" || o.Op == "DA" || o.Op == "ST" {
				r = w - ob.Readable
			}
		}()
		rw := lib.Z(int64(ob.Readable)) + " " + lib.Z(int64(ob.Writable))
		if panicked {
			ob = obsv{Ret: "panic"}
			tags["panic"] = true
			switch o.Op {
			case "RM":
				term = "RMp " + lib.Z(o.N)
			case "DS":
				term = "DSp " + lib.Z(o.N)
			default:
				term = "DSp 0" // cannot happen for the other calls; rendered as a mismatch
			}
		} else {
			switch o.Op {
			case "W":
				term = fmt.Sprintf("W %s %s %s", lib.ZListInt(o.D), lib.Z(int64(ob.N)), rw)
			case "WP":
				term = fmt.Sprintf("W (pat %d %d) %s %s", o.A%251, o.N, lib.Z(int64(ob.N)), rw)
			case "RP":
				if ob.Ret == "err" {
					term = fmt.Sprintf("RMe %d %s", devP, rw)
				} else {
					term = fmt.Sprintf("RM %d %s %s", devP, bytesTerm(ob.Data), rw)
				}
			case "ST":
				if ob.Ret == "err" {
					term = fmt.Sprintf("DSe %d %s", devP, rw)
				} else {
					term = fmt.Sprintf("DS %d %s", devP, rw)
				}
			case "R":
				if ob.Ret == "err" {
					term = "RMe (-1) " + rw
				} else {
					term = fmt.Sprintf("Rd %s %s %s", lib.Z(o.N), bytesTerm(ob.Data), rw)
				}
			case "RA":
				if ob.Ret == "err" {
					term = "RMe (-1) " + rw
				} else {
					term = fmt.Sprintf("RA %s %s", bytesTerm(ob.Data), rw)
				}
			case "RM":
				if ob.Ret == "err" {
					term = fmt.Sprintf("RMe %s %s", lib.Z(o.N), rw)
				} else {
					term = fmt.Sprintf("RM %s %s %s", lib.Z(o.N), bytesTerm(ob.Data), rw)
				}
			case "DS":
				if ob.Ret == "err" {
					term = fmt.Sprintf("DSe %s %s", lib.Z(o.N), rw)
				} else {
					term = fmt.Sprintf("DS %s %s", lib.Z(o.N), rw)
				}
			case "DA":
				term = "DA " + rw
			}
		}
		terms = append(terms, term)
		impl = append(impl, ob)
		if panicked {
			break
		}
	}
	if c.Base != 0 {
		res.Term = fmt.Sprintf("mkb %d %d %s", c.Cap, c.Base, lib.List(terms))
		tags["pointer-base"] = true
	} else {
		res.Term = fmt.Sprintf("mk %d %s", c.Cap, lib.List(terms))
	}
	res.Impl = impl
	res.NonTrivial = wrapped && readAfterWrap
	res.Heavy = c.Cap > 100000
	for t := range tags {
		res.Tags = append(res.Tags, t)
	}
	return res
}

func main() {
	h := lib.Harness{
		Gen: gen,
		RunCase: func(raw json.RawMessage) (lib.Result, error) {
			var c Case
			if err := json.Unmarshal(raw, &c); err != nil {
				return lib.Result{}, err
			}
			return runCase(c), nil
		},
		Header:   "From Dastard Require Import Common.ZX Common.CaseLib C18.Model C18.Run.",
		Verdict:  "verdict",
		PerShard: 150,
	}
	h.Main()
}
