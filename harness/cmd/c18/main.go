// C18 harness: drives ringbuffer's public API on /dev/shm regions.
package main

import (
	"encoding/json"
	"fmt"
	"os"

	"github.com/usnistgov/dastard/ringbuffer"
	"verifharness/lib"
)

type Op struct {
	Op   string `json:"op"` // W R RM RA DS DA
	Data []byte `json:"-"`
	D    []int  `json:"d,omitempty"`
	N    int64  `json:"n,omitempty"`
}
type Case struct {
	ID  int64 `json:"id"`
	Cap int   `json:"cap"`
	Ops []Op  `json:"ops"`
}

func sizeNear(r *lib.Rng, cap int) int {
	switch r.Intn(6) {
	case 0:
		return r.Range(0, 3)
	case 1:
		return cap - 1 + r.Range(-2, 2)
	case 2:
		return cap + r.Range(0, 3)
	case 3:
		return cap/2 + r.Range(-1, 1)
	default:
		return r.Range(0, cap)
	}
}

func genCase(r *lib.Rng, id int64, tier string) Case {
	caps := []int{2, 3, 4, 5, 7, 8, 11, 16, 16, 16, 32, 33, 64}
	cap := r.Pick(caps)
	nops := r.Range(5, 40)
	if tier == "thorough" {
		nops = r.Range(5, 200)
		if r.Chance(1, 50) {
			cap = 1 << 12
			nops = r.Range(3, 12)
		}
	}
	c := Case{ID: id, Cap: cap}
	next := 0
	malformed := r.Chance(1, 10)
	for i := 0; i < nops; i++ {
		var o Op
		switch r.Intn(12) {
		case 0, 1, 2, 3, 4:
			n := sizeNear(r, cap)
			if n < 0 {
				n = 0
			}
			o = Op{Op: "W"}
			for j := 0; j < n; j++ {
				o.D = append(o.D, next&0xff)
				next = next*1 + 1 + (next>>8)&1
			}
		case 5, 6, 7:
			o = Op{Op: "R", N: int64(sizeNear(r, cap))}
			if malformed && r.Chance(1, 4) {
				o.N = int64(r.Range(-5, 0))
			}
		case 8:
			o = Op{Op: "RM", N: int64(r.Range(1, cap+1))}
			if r.Chance(1, 2) {
				o.N = int64(r.Pick([]int{1, 2, 3, 4, 8}))
			}
			if malformed && r.Chance(1, 3) {
				o.N = int64(r.Pick([]int{0, -1, -8, cap, cap + 5}))
			}
		case 9:
			o = Op{Op: "RA"}
		case 10:
			o = Op{Op: "DS", N: int64(r.Pick([]int{1, 2, 3, 4, 5, 8, cap, cap + 3}))}
			if malformed && r.Chance(1, 3) {
				o.N = 0
			}
		case 11:
			if r.Chance(1, 3) {
				o = Op{Op: "DA"}
			} else {
				o = Op{Op: "DS", N: int64(r.Range(2, 9))}
			}
		}
		c.Ops = append(c.Ops, o)
	}
	return c
}

func corpus() []Case {
	b := func(n, from int) []int {
		x := make([]int, n)
		for i := range x {
			x[i] = (from + i) & 0xff
		}
		return x
	}
	return []Case{
		// witness of ring_refines_fifo_refuted (pre-fix DiscardStride moved the read pointer backwards)
		{Cap: 16, Ops: []Op{{Op: "W", D: b(7, 0)}, {Op: "R", N: 5}, {Op: "DS", N: 4}, {Op: "RA"}}},
		{Cap: 16, Ops: []Op{{Op: "W", D: b(7, 0)}, {Op: "RM", N: 0}}},
		{Cap: 16, Ops: []Op{{Op: "W", D: b(7, 0)}, {Op: "DS", N: 0}, {Op: "RA"}}},
		// exactly full, then wrap
		{Cap: 8, Ops: []Op{{Op: "W", D: b(9, 0)}, {Op: "R", N: 3}, {Op: "W", D: b(5, 9)}, {Op: "RA"}, {Op: "RA"}}},
		{Cap: 8, Ops: []Op{{Op: "W", D: b(7, 0)}, {Op: "RA"}, {Op: "W", D: b(1, 7)}, {Op: "W", D: b(7, 8)}, {Op: "RM", N: 3}, {Op: "DS", N: 5}, {Op: "RA"}}},
		{Cap: 2, Ops: []Op{{Op: "W", D: b(3, 0)}, {Op: "RA"}, {Op: "W", D: b(1, 1)}, {Op: "RA"}, {Op: "W", D: b(1, 2)}, {Op: "DA"}, {Op: "RA"}}},
	}
}

func gen(seed uint64, tier string) []interface{} {
	r := lib.NewRng(seed)
	n := 500
	if tier == "thorough" {
		n = 8000
	}
	var out []interface{}
	id := int64(1)
	for _, c := range corpus() {
		c.ID = id
		id++
		out = append(out, c)
	}
	for i := 0; i < n; i++ {
		out = append(out, genCase(r.Fork(), id, tier))
		id++
	}
	return out
}

type obsv struct {
	Ret      string `json:"ret"`
	Data     []byte `json:"-"`
	D        []int  `json:"d,omitempty"`
	N        int    `json:"n,omitempty"`
	Readable int    `json:"readable"`
	Writable int    `json:"writeable"`
}

func runCase(c Case) lib.Result {
	res := lib.Result{ID: c.ID, Hash: lib.Hash(struct {
		C int
		O []Op
	}{c.Cap, c.Ops})}
	name := fmt.Sprintf("verif_c18_%d_%d", os.Getpid(), c.ID)
	rb, err := ringbuffer.NewRingBuffer(name+"_raw", name+"_desc")
	if err != nil {
		panic(err)
	}
	if err = rb.Create(c.Cap); err != nil {
		panic(err)
	}
	defer func() { rb.Close(); rb.Unlink() }()
	var terms []string
	var impl []obsv
	tags := map[string]bool{}
	w, r := 0, 0 // harness-side bookkeeping for tags only
	wrapped, readAfterWrap := false, false
	for _, o := range c.Ops {
		var ob obsv
		var term string
		panicked := false
		func() {
			defer func() {
				if e := recover(); e != nil {
					panicked = true
				}
			}()
			switch o.Op {
			case "W":
				d := make([]byte, len(o.D))
				for i, v := range o.D {
					d[i] = byte(v)
				}
				n, _ := rb.Write(d)
				ob = obsv{Ret: "written", N: n}
				if n < len(d) {
					tags["write-truncated"] = true
				}
				if n > 0 && (w+n)/c.Cap > w/c.Cap {
					wrapped = true
					tags["write-wraps"] = true
				}
				w += n
			case "R", "RA", "RM":
				var data []byte
				var err error
				switch o.Op {
				case "R":
					data, err = rb.Read(int(o.N))
				case "RA":
					data, err = rb.ReadAll()
				case "RM":
					data, err = rb.ReadMultipleOf(int(o.N))
				}
				if err != nil {
					ob = obsv{Ret: "err"}
					tags["error-return"] = true
				} else {
					cp := append([]byte(nil), data...)
					ob = obsv{Ret: "data", Data: cp}
					for _, v := range cp {
						ob.D = append(ob.D, int(v))
					}
					if len(cp) == 0 {
						tags["empty-read"] = true
					} else if wrapped {
						readAfterWrap = true
					}
					if len(cp) > 0 && (r+len(cp))/c.Cap > r/c.Cap {
						tags["read-wraps"] = true
					}
					r += len(cp)
				}
			case "DS":
				if err := rb.DiscardStride(uint64(o.N)); err != nil {
					ob = obsv{Ret: "err"}
					tags["error-return"] = true
				} else {
					ob = obsv{Ret: "nil"}
					if o.N > 0 && w-w%int(o.N) < r {
						tags["discard-no-boundary"] = true
					}
				}
			case "DA":
				if err := rb.DiscardAll(); err != nil {
					ob = obsv{Ret: "err"}
				} else {
					ob = obsv{Ret: "nil"}
				}
			}
			ob.Readable = rb.BytesReadable()
			ob.Writable = rb.BytesWriteable()
			if o.Op == "DS" || o.Op == "DA" {
				r = w - ob.Readable
			}
		}()
		rw := lib.Z(int64(ob.Readable)) + " " + lib.Z(int64(ob.Writable))
		if panicked {
			ob = obsv{Ret: "panic"}
			tags["panic"] = true
			switch o.Op {
			case "RM":
				term = "RMp " + lib.Z(o.N)
			case "DS":
				term = "DSp " + lib.Z(o.N)
			default:
				term = "DSp 0" // cannot happen for the other calls; rendered as a mismatch
			}
		} else {
			switch o.Op {
			case "W":
				term = fmt.Sprintf("W %s %s %s", lib.ZListInt(o.D), lib.Z(int64(ob.N)), rw)
			case "R":
				if ob.Ret == "err" {
					term = "RMe (-1) " + rw
				} else {
					term = fmt.Sprintf("Rd %s %s %s", lib.Z(o.N), lib.ZListBytes(ob.Data), rw)
				}
			case "RA":
				if ob.Ret == "err" {
					term = "RMe (-1) " + rw
				} else {
					term = fmt.Sprintf("RA %s %s", lib.ZListBytes(ob.Data), rw)
				}
			case "RM":
				if ob.Ret == "err" {
					term = fmt.Sprintf("RMe %s %s", lib.Z(o.N), rw)
				} else {
					term = fmt.Sprintf("RM %s %s %s", lib.Z(o.N), lib.ZListBytes(ob.Data), rw)
				}
			case "DS":
				if ob.Ret == "err" {
					term = fmt.Sprintf("DSe %s %s", lib.Z(o.N), rw)
				} else {
					term = fmt.Sprintf("DS %s %s", lib.Z(o.N), rw)
				}
			case "DA":
				term = "DA " + rw
			}
		}
		terms = append(terms, term)
		impl = append(impl, ob)
		if panicked {
			break
		}
	}
	res.Term = fmt.Sprintf("mk %d %s", c.Cap, lib.List(terms))
	res.Impl = impl
	res.NonTrivial = wrapped && readAfterWrap
	for t := range tags {
		res.Tags = append(res.Tags, t)
	}
	return res
}

func main() {
	h := lib.Harness{
		Gen: gen,
		RunCase: func(raw json.RawMessage) (lib.Result, error) {
			var c Case
			if err := json.Unmarshal(raw, &c); err != nil {
				return lib.Result{}, err
			}
			return runCase(c), nil
		},
		Header:   "From Dastard Require Import Common.ZX Common.CaseLib C18.Model C18.Run.",
		Verdict:  "verdict",
		PerShard: 150,
	}
	h.Main()
}
