// C03 harness: drives the REAL AbacoSource reader loop (Sample, PrepareChannels, PrepareRun, StartRun,
// readerMainLoop, getNextBlock/distributeData) with scripted packet producers and renders the
// scripted input plus every delivered block as one Coq term.
package main

import (
	"encoding/json"
	"fmt"
	"os"
	"sort"
	"strings"
	"time"

	"github.com/usnistgov/dastard"
	"github.com/usnistgov/dastard/packets"
	"verifharness/lib"
)

// GroupCfg is one channel group: channels Off..Off+Nchan-1, 16- or 32-bit payload, fed by producer
// Prod; Sample = the packets seen while sampling: [sequence number, 1 if it carries a time stamp].
type GroupCfg struct {
	Off    int        `json:"off"`
	Nchan  int        `json:"nchan"`
	Wide   bool       `json:"wide,omitempty"`
	Prod   int        `json:"prod"`
	Fpp    int        `json:"gfpp,omitempty"` // out-of-premise cases only: frames per packet of this group
	Sample [][2]int64 `json:"sample"`
}

// Pkt is one data packet of group G arriving in a tick; D = frames x channels values, frame-major.
type Pkt struct {
	G    int     `json:"g"`
	SN   int64   `json:"sn"`
	D    []int32 `json:"d"`
	NoTS bool    `json:"nots,omitempty"` // the packet carries no time stamp (16 bytes less header)
}

// Tick is what arrives between two reads of the reader loop, in arrival order.
type Tick struct {
	P []Pkt `json:"p"`
}

type Case struct {
	ID     int64      `json:"id"`
	Fpp    int        `json:"fpp"`
	Groups []GroupCfg `json:"groups"`
	Ops    []Tick     `json:"ops"`
	Note   string     `json:"note,omitempty"`
	// Rings lists the producers that are REAL AbacoRing devices: their packets travel as bytes through a
	// shared-memory ring (padded to whole 8192-byte slots) and AbacoRing.ReadAllPackets.
	Rings []int `json:"rings,omitempty"`
	// Pre are earlier runs on the SAME AbacoSource object, each ended by a Stop before the next Start.
	Pre []Case `json:"pre,omitempty"`
}

// ---------------------------------------------------------------- generation

func value(r *lib.Rng, wide bool) int32 {
	if wide {
		switch r.Intn(8) {
		case 0:
			return int32(-1 - r.Intn(70000)) // small negatives: truncating vs flooring division differ
		case 1:
			return int32(r.Intn(70000))
		case 2:
			return int32(-2147483648 + r.Intn(3))
		case 3:
			return int32(2147483647 - r.Intn(3))
		default:
			return int32(uint32(r.U64()))
		}
	}
	switch r.Intn(8) {
	case 0:
		return int32(-32768 + r.Intn(3))
	case 1:
		return int32(32767 - r.Intn(3))
	case 2:
		return int32(-1 - r.Intn(5))
	default:
		return int32(int16(r.U64()))
	}
}

func payload(r *lib.Rng, fpp, nchan int, wide bool) []int32 {
	d := make([]int32, fpp*nchan)
	for i := range d {
		d[i] = value(r, wide)
	}
	return d
}

// lossPattern marks which of n consecutive sequence numbers arrive.
func lossPattern(r *lib.Rng, n int) []bool {
	ok := make([]bool, n)
	for i := range ok {
		ok[i] = true
	}
	switch r.Intn(7) {
	case 0: // none
	case 1: // single
		ok[r.Intn(n)] = false
	case 2: // burst
		a := r.Intn(n)
		for i := a; i < n && i < a+r.Range(2, 5); i++ {
			ok[i] = false
		}
	case 3: // the first packets of the run
		for i := 0; i < r.Range(1, 3) && i < n; i++ {
			ok[i] = false
		}
	case 4: // random 25 %
		for i := range ok {
			if r.Chance(1, 4) {
				ok[i] = false
			}
		}
	case 5: // two separate singles
		ok[r.Intn(n)] = false
		ok[r.Intn(n)] = false
	case 6: // heavy: half
		for i := range ok {
			if r.Bool() {
				ok[i] = false
			}
		}
	}
	return ok
}

// cuts distributes n items over nticks ticks: returns for every item its tick (non-decreasing).
func cuts(r *lib.Rng, n, nticks int, style int) []int {
	t := make([]int, n)
	switch style {
	case 0: // uniform
		for i := range t {
			t[i] = r.Intn(nticks)
		}
	case 1: // lagging: nothing in the first ticks, everything afterwards
		lag := r.Range(1, nticks-1)
		for i := range t {
			t[i] = r.Range(lag, nticks-1)
		}
	case 2: // bursty: a few ticks get everything
		a, b := r.Intn(nticks), r.Intn(nticks)
		for i := range t {
			if r.Bool() {
				t[i] = a
			} else {
				t[i] = b
			}
		}
	case 3: // steady: about the same number per tick
		for i := range t {
			t[i] = i * nticks / n
		}
	}
	sort.Ints(t)
	return t
}

func genCase(r *lib.Rng, id int64, tier string) Case {
	ngroups := r.Pick([]int{1, 2, 2, 2, 3, 3, 4})
	fpp := r.Pick([]int{1, 2, 2, 3, 4})
	nticks := r.Range(2, 9)
	npk := r.Range(4, 14)
	if tier == "thorough" {
		nticks = r.Range(2, 24)
		npk = r.Range(4, 40)
		if r.Chance(1, 6) {
			ngroups = r.Range(4, 6)
		}
	}
	c := Case{ID: id, Fpp: fpp}
	wideAll := r.Chance(1, 3)
	nprod := r.Range(1, min(3, ngroups))
	off := r.Intn(3)
	for g := 0; g < ngroups; g++ {
		nchan := r.Pick([]int{1, 1, 2, 2, 3})
		gc := GroupCfg{Off: off, Nchan: nchan, Wide: wideAll, Prod: g % nprod}
		if r.Chance(1, 8) {
			gc.Wide = !gc.Wide
		}
		if r.Chance(1, 4) {
			gc.Prod = r.Intn(nprod)
		}
		off += nchan + r.Pick([]int{0, 0, 1, 5})
		// sampled packets: 2..5 of them, possibly with holes, possibly the first without a time stamp
		base := int64(r.Pick([]int{0, 1, 1, 7, 100, 65535, 1000000}))
		if r.Chance(1, 10) {
			base = 4294967296 - 200 - int64(r.Intn(100))
		}
		sn := base
		ns := r.Range(2, 5)
		for k := 0; k < ns; k++ {
			ts := int64(1)
			if k == 0 && r.Chance(1, 4) {
				ts = 0
			}
			gc.Sample = append(gc.Sample, [2]int64{sn, ts})
			sn += int64(r.Pick([]int{1, 1, 1, 2, 3}))
		}
		nts := 0
		for _, s := range gc.Sample {
			nts += int(s[1])
		}
		if nts < 2 { // two stamped packets are needed for a sample rate
			gc.Sample = append(gc.Sample, [2]int64{sn, 1})
		}
		c.Groups = append(c.Groups, gc)
	}
	// the run: per group a window of consecutive sequence numbers after the last sampled one
	c.Ops = make([]Tick, nticks)
	perTick := make([][][]Pkt, nticks) // tick -> group -> packets
	for t := range perTick {
		perTick[t] = make([][]Pkt, ngroups)
	}
	for g := range c.Groups {
		gc := c.Groups[g]
		last := gc.Sample[len(gc.Sample)-1][0]
		n := npk + r.Range(-3, 3)
		if n < 1 {
			n = 1
		}
		ok := lossPattern(r, n)
		var sns []int64
		for i := 0; i < n; i++ {
			if ok[i] {
				sns = append(sns, last+1+int64(i))
			}
		}
		style := r.Intn(4)
		if nticks < 2 && style == 1 {
			style = 0
		}
		ts := cuts(r, len(sns), nticks, style)
		for i, sn := range sns {
			perTick[ts[i]][g] = append(perTick[ts[i]][g], Pkt{G: g, SN: sn, D: payload(r, fpp, gc.Nchan, gc.Wide)})
		}
	}
	if r.Chance(1, 7) { // some producers are real rings
		for pr := 0; pr < nprod; pr++ {
			if r.Bool() || pr == 0 {
				c.Rings = append(c.Rings, pr)
			}
		}
	}
	// within a tick, interleave the groups' packets at random (order within a group is kept)
	for t := range perTick {
		idx := make([]int, ngroups)
		for {
			var cand []int
			for g := 0; g < ngroups; g++ {
				if idx[g] < len(perTick[t][g]) {
					cand = append(cand, g)
				}
			}
			if len(cand) == 0 {
				break
			}
			g := cand[r.Intn(len(cand))]
			c.Ops[t].P = append(c.Ops[t].P, perTick[t][g][idx[g]])
			idx[g]++
		}
	}
	return c
}

func min(a, b int) int {
	if a < b {
		return a
	}
	return b
}

// seq builds packets of group g with the given sequence numbers and recognisable payloads.
func seqp(g, nchan, fpp int, sns ...int64) []Pkt {
	var out []Pkt
	for _, sn := range sns {
		d := make([]int32, fpp*nchan)
		for f := 0; f < fpp; f++ {
			for ch := 0; ch < nchan; ch++ {
				d[f*nchan+ch] = int32((int(sn)%30)*1000 + g*100 + f*10 + ch)
			}
		}
		out = append(out, Pkt{G: g, SN: sn, D: d})
	}
	return out
}

func cat(ps ...[]Pkt) Tick {
	var t Tick
	for _, p := range ps {
		t.P = append(t.P, p...)
	}
	return t
}

// longBurst: one frame per packet, few channels; group 0 loses `burst` consecutive packets (a link
// outage); with two groups the other one loses most of the same stretch too, but never more than
// `chunk` packets in a row, so that its gaps are ordinary ones.  kind 0: single group; 1: two groups,
// the burst inside one tick; 2: two groups, the packet after the burst arrives a tick later than the
// other group's.
func longBurst(r *lib.Rng, burst int64, kind int) Case {
	n0 := r.Range(1, 2)
	base := int64(r.Pick([]int{1, 10, 1000, 100000}))
	c := Case{Fpp: 1, Note: fmt.Sprintf("long burst %d kind %d", burst, kind)}
	c.Groups = []GroupCfg{{Off: 0, Nchan: n0, Sample: [][2]int64{{base, 1}, {base + 1, 1}}}}
	if kind > 0 {
		c.Groups = append(c.Groups, GroupCfg{Off: n0 + 1, Nchan: 3 - n0, Prod: r.Intn(2), Sample: [][2]int64{{base, 1}, {base + 1, 1}}})
	}
	pk := func(g int, sn int64) Pkt {
		return Pkt{G: g, SN: sn, D: payload(r, 1, c.Groups[g].Nchan, false)}
	}
	first := base + 2
	after := first + 2 + burst // first packet after the burst
	t0 := Tick{P: []Pkt{pk(0, first), pk(0, first+1)}}
	t1 := Tick{P: []Pkt{pk(0, after), pk(0, after+1)}}
	t2 := Tick{P: []Pkt{pk(0, after+2)}}
	if kind > 0 {
		t0.P = append(t0.P, pk(1, first), pk(1, first+1))
		chunk := int64(r.Range(1500, 3900))
		var mid []Pkt
		for sn := first + 2 + chunk; sn < after; sn += chunk {
			mid = append(mid, pk(1, sn))
		}
		mid = append(mid, pk(1, after), pk(1, after+1))
		if kind == 1 {
			t1.P = append(mid, t1.P...)
		} else {
			t0.P = append(t0.P, mid...)
		}
		t2.P = append(t2.P, pk(1, after+2))
	}
	c.Ops = []Tick{t0, {}, t1, t2}
	return c
}

// endPending appends a tick that leaves a filled-in gap unreported: a group that is not the one
// everybody waits for receives a packet beyond a gap while the slowest group stays silent, so the
// tick is abandoned with the fill counted.  Needs at least two groups.
func endPending(r *lib.Rng, c *Case) bool {
	if len(c.Groups) < 2 {
		return false
	}
	a := analyse(*c)
	m := 0
	for g := range c.Groups {
		if a.last[g]-a.sync[g] < a.last[m]-a.sync[m] {
			m = g
		}
	}
	if a.last[m]-a.sync[m] > a.consumed {
		return false
	}
	g := (m + 1 + r.Intn(len(c.Groups)-1)) % len(c.Groups)
	gc := c.Groups[g]
	sn := a.last[g] + 2 + int64(r.Intn(3))
	c.Ops = append(c.Ops, Tick{P: []Pkt{{G: g, SN: sn, D: payload(r, c.Fpp, gc.Nchan, gc.Wide)}}})
	if r.Bool() {
		c.Ops = append(c.Ops, Tick{})
	}
	return true
}

// restartCase: one or two earlier runs on the same source object, then the run proper.
func restartCase(r *lib.Rng, id int64, tier string) Case {
	c := genCase(r.Fork(), id, tier)
	npre := r.Range(1, 2)
	for k := 0; k < npre; k++ {
		pc := genCase(r.Fork(), 0, "quick")
		for len(pc.Groups) < 2 {
			pc = genCase(r.Fork(), 0, "quick")
		}
		if len(pc.Ops) > 5 {
			pc.Ops = pc.Ops[:5]
		}
		if r.Chance(3, 4) {
			endPending(r, &pc)
		}
		c.Pre = append(c.Pre, pc)
	}
	if r.Chance(1, 3) { // a run that loses nothing: any reported drop is a phantom
		c2 := c
		c2.Ops = nil
		a := analyse(c2)
		nt := r.Range(2, 4)
		c.Ops = make([]Tick, nt)
		for g, gc := range c.Groups {
			sn := a.last[g] + 1
			for t := 0; t < nt; t++ {
				for k := 0; k < r.Range(0, 2); k++ {
					c.Ops[t].P = append(c.Ops[t].P, Pkt{G: g, SN: sn, D: payload(r, c.Fpp, gc.Nchan, gc.Wide)})
					sn++
				}
			}
		}
	}
	return c
}

// slotCase: packets travelling through a real shared-memory ring whose 8192-byte slot they fill
// exactly (56 bytes of header with a time stamp + 8136 bytes of payload), or miss by the 16 bytes of the
// time stamp, or fill only half of (a second group with half the channels).  kind 0: every packet
// fills its slot; 1: run packets without time stamp (8176 bytes); 2: both kinds mixed, and a second
// group with short packets in the same ring.
func slotCase(r *lib.Rng, kind int) Case {
	type lay struct {
		nchan, fpp int
		wide       bool
	}
	lays := []lay{{4, 1017, false}, {2, 2034, false}, {3, 1356, false}, {6, 678, false}, {1, 2034, true}, {2, 1017, true}, {3, 678, true}}
	l := lays[r.Intn(len(lays))]
	if kind == 2 {
		l = []lay{{4, 1017, false}, {2, 1017, true}, {6, 678, false}}[r.Intn(3)]
	}
	c := Case{Fpp: l.fpp, Note: fmt.Sprintf("ring slot kind %d", kind), Rings: []int{0}}
	base := int64(r.Pick([]int{1, 11, 5000}))
	c.Groups = []GroupCfg{{Off: 0, Nchan: l.nchan, Wide: l.wide, Sample: [][2]int64{{base, 1}, {base + 1, 1}, {base + 2, 1}}}}
	if kind == 2 {
		c.Groups = append(c.Groups, GroupCfg{Off: l.nchan + 2, Nchan: l.nchan / 2, Wide: l.wide, Prod: r.Intn(2),
			Sample: [][2]int64{{base, 1}, {base + 1, 1}}})
	}
	npk := r.Range(5, 7)
	if kind == 2 {
		npk = 4
	}
	nt := 3
	c.Ops = make([]Tick, nt)
	for g, gc := range c.Groups {
		last := gc.Sample[len(gc.Sample)-1][0]
		lose := int64(-1)
		if r.Chance(1, 2) {
			lose = last + 1 + int64(r.Intn(npk))
		}
		for k := 0; k < npk; k++ {
			sn := last + 1 + int64(k)
			if sn == lose {
				continue
			}
			p := Pkt{G: g, SN: sn, D: payload(r, l.fpp, gc.Nchan, gc.Wide)}
			p.NoTS = kind == 1 || (kind == 2 && k%2 == 1)
			t := k * nt / npk
			c.Ops[t].P = append(c.Ops[t].P, p)
		}
	}
	return c
}

func corpus() []Case {
	s12 := [][2]int64{{1, 1}, {2, 1}}
	var out []Case
	// (1) the two-group witness of demux_exact_refuted_pre_fix: B empty in tick 1, A loses 5 in tick 2
	two := Case{Fpp: 2, Note: "leftover-then-gap, 2 groups",
		Groups: []GroupCfg{{Off: 0, Nchan: 1, Sample: s12}, {Off: 1, Nchan: 1, Prod: 1, Sample: s12}},
		Ops: []Tick{cat(seqp(0, 1, 2, 3, 4)), cat(seqp(0, 1, 2, 6), seqp(1, 1, 2, 3, 4, 5, 6))}}
	// (2) four groups, three with leftovers: whatever order Go visits the map in, the unrepaired code
	// fails unless the empty group happens to come first; repeated so that this is hit reliably
	four := Case{Fpp: 2, Note: "leftover-then-gap, 4 groups",
		Groups: []GroupCfg{{Off: 0, Nchan: 2, Sample: s12}, {Off: 2, Nchan: 1, Prod: 1, Sample: s12},
			{Off: 3, Nchan: 1, Prod: 1, Sample: s12}, {Off: 4, Nchan: 2, Prod: 2, Sample: s12}},
		Ops: []Tick{cat(seqp(0, 2, 2, 3, 4), seqp(1, 1, 2, 3, 4), seqp(2, 1, 2, 3, 4)),
			cat(seqp(0, 2, 2, 6), seqp(1, 1, 2, 6), seqp(2, 1, 2, 6), seqp(3, 2, 2, 3, 4, 5, 6)),
			cat(seqp(0, 2, 2, 7), seqp(1, 1, 2, 7), seqp(2, 1, 2, 7), seqp(3, 2, 2, 7))}}
	// (3) a tick abandoned after a gap was filled: the dropped-frame count must not get lost
	drop := Case{Fpp: 3, Note: "fill in an abandoned tick",
		Groups: []GroupCfg{{Off: 0, Nchan: 1, Sample: s12}, {Off: 1, Nchan: 2, Sample: s12},
			{Off: 3, Nchan: 1, Prod: 1, Sample: s12}, {Off: 4, Nchan: 1, Prod: 1, Sample: s12}},
		Ops: []Tick{cat(seqp(0, 1, 3, 5), seqp(1, 2, 3, 4), seqp(2, 1, 3, 6)),
			cat(seqp(3, 1, 3, 3, 4, 5, 6))}}
	// the same four-group script with every group in turn as the one that lags
	for lag := 0; lag < 4; lag++ {
		v := Case{Fpp: 2, Note: fmt.Sprintf("leftover-then-gap, 4 groups, group %d lags", lag), Groups: four.Groups, Ops: make([]Tick, 3)}
		for g, gc := range four.Groups {
			if g == lag {
				v.Ops[1].P = append(v.Ops[1].P, seqp(g, gc.Nchan, 2, 3, 4, 5, 6)...)
			} else {
				v.Ops[0].P = append(v.Ops[0].P, seqp(g, gc.Nchan, 2, 3, 4)...)
				v.Ops[1].P = append(v.Ops[1].P, seqp(g, gc.Nchan, 2, 6)...)
			}
			v.Ops[2].P = append(v.Ops[2].P, seqp(g, gc.Nchan, 2, 7)...)
		}
		out = append(out, v, v, v)
	}
	for i := 0; i < 3; i++ {
		out = append(out, two, four, drop)
	}
	// (3b) restart of the same source after a run that ended with a filled-in gap not yet reported:
	// the second run loses nothing and must report no dropped frame
	s56 := [][2]int64{{3, 1}, {4, 1}}
	s100 := [][2]int64{{103, 1}, {104, 1}}
	out = append(out, Case{Fpp: 5, Note: "restart after unreported fill",
		Pre: []Case{{Fpp: 5, Groups: []GroupCfg{{Off: 0, Nchan: 2, Sample: s56}, {Off: 2, Nchan: 3, Sample: s56}},
			Ops: []Tick{cat(seqp(0, 2, 5, 5, 6), seqp(1, 3, 5, 5, 6)), cat(seqp(0, 2, 5, 8, 9)), {}}}},
		Groups: []GroupCfg{{Off: 0, Nchan: 2, Sample: s100}, {Off: 2, Nchan: 3, Sample: s100}},
		Ops: []Tick{cat(seqp(0, 2, 5, 105, 106), seqp(1, 3, 5, 105)), cat(seqp(1, 3, 5, 106, 107), seqp(0, 2, 5, 107)),
			cat(seqp(0, 2, 5, 108, 109), seqp(1, 3, 5, 108, 109))}})
	// (4) one group: no loss; loss of the first / last packet of a batch; empty ticks
	out = append(out, Case{Fpp: 4, Groups: []GroupCfg{{Off: 0, Nchan: 3, Sample: [][2]int64{{10, 1}, {11, 1}, {12, 1}}}},
		Ops: []Tick{cat(seqp(0, 3, 4, 13, 14)), {}, cat(seqp(0, 3, 4, 15)), {}, {}, cat(seqp(0, 3, 4, 16, 17, 18))}})
	out = append(out, Case{Fpp: 2, Groups: []GroupCfg{{Off: 5, Nchan: 2, Sample: [][2]int64{{10, 0}, {11, 1}, {13, 1}}}},
		Ops: []Tick{cat(seqp(0, 2, 2, 15, 16)), cat(seqp(0, 2, 2, 18, 19)), {}, cat(seqp(0, 2, 2, 20, 21, 25)), cat(seqp(0, 2, 2, 29))}})
	// (5) groups whose sampling ended at different global sequence numbers: the leading packets of
	// the group that is behind are trimmed, one group lags for three ticks
	out = append(out, Case{Fpp: 1, Note: "start misaligned",
		Groups: []GroupCfg{{Off: 0, Nchan: 1, Sample: [][2]int64{{100, 1}, {101, 1}, {102, 1}, {103, 1}, {104, 1}}},
			{Off: 1, Nchan: 2, Prod: 1, Sample: [][2]int64{{7, 1}, {8, 1}}}},
		Ops: []Tick{cat(seqp(0, 1, 1, 105, 106), seqp(1, 2, 1, 9)), cat(seqp(1, 2, 1, 10, 12)), cat(seqp(1, 2, 1, 13)),
			cat(seqp(0, 1, 1, 108), seqp(1, 2, 1, 14, 15))}})
	// (6) 32-bit payloads with negative values (Go's / truncates towards zero)
	w := Case{Fpp: 2, Groups: []GroupCfg{{Off: 0, Nchan: 2, Wide: true, Sample: s12}, {Off: 2, Nchan: 1, Sample: s12}},
		Ops: []Tick{{P: []Pkt{{G: 0, SN: 3, D: []int32{-1, -65536, -65537, 65535}}, {G: 1, SN: 3, D: []int32{-1, 7}}}},
			{P: []Pkt{{G: 0, SN: 5, D: []int32{-2147483648, 2147483647, 131071, -131073}}, {G: 1, SN: 4, D: []int32{-32768, 32767}},
				{G: 1, SN: 5, D: []int32{1, 2}}}}}}
	out = append(out, w)
	// (7) outside the premise (a sequence number arrives twice): only model = implementation is compared
	out = append(out, Case{Fpp: 1, Note: "duplicate",
		Groups: []GroupCfg{{Off: 0, Nchan: 1, Sample: s12}, {Off: 1, Nchan: 1, Sample: s12}},
		Ops: []Tick{cat(seqp(0, 1, 1, 3, 3, 4), seqp(1, 1, 1, 3, 4, 5)), cat(seqp(0, 1, 1, 6), seqp(1, 1, 1, 6))}})
	// (8) outside the premise (groups with different frames per packet): demuxData panics
	out = append(out, Case{Fpp: 2, Note: "mixed frames per packet",
		Groups: []GroupCfg{{Off: 0, Nchan: 1, Sample: s12}, {Off: 1, Nchan: 1, Fpp: 3, Sample: s12}},
		Ops: []Tick{cat(seqp(0, 1, 2, 3, 4), seqp(1, 1, 3, 3, 4))}})
	return out
}

func gen(seed uint64, tier string) []interface{} {
	r := lib.NewRng(seed)
	n := 250
	if tier == "thorough" {
		n = 3000
	}
	var out []interface{}
	id := int64(1)
	for _, c := range corpus() {
		c.ID = id
		id++
		out = append(out, c)
	}
	// loss bursts longer than any plausible "give up filling" limit: 2 in quick, more in thorough
	bursts := [][2]int{{4097 + r.Intn(1500), 0}, {5000 + r.Intn(3000), 1 + r.Intn(2)}}
	if tier == "thorough" {
		bursts = append(bursts, [][2]int{{4097, 1}, {70000, 0}, {65536 + r.Intn(100), 2}, {r.Range(5000, 70000), 0},
			{r.Range(5000, 70000), 1}, {r.Range(5000, 70000), 2}}...)
	}
	nrestart, slots := 24, []int{0, 2}
	if tier == "thorough" {
		nrestart, slots = 250, []int{0, 1, 2, 0, 1, 2, 0, 2}
	}
	for i := 0; i < n; i++ {
		if i%(n/nrestart) == 1 {
			out = append(out, restartCase(r.Fork(), id, tier))
			id++
		}
		if k := i - n/2; k >= 0 && k < len(slots) {
			sc := slotCase(r.Fork(), slots[k])
			sc.ID = id
			id++
			out = append(out, sc)
		}
		if k := i - n/3; k >= 0 && k < len(bursts) {
			lb := longBurst(r.Fork(), int64(bursts[k][0]), bursts[k][1])
			lb.ID = id
			id++
			out = append(out, lb)
		}
		out = append(out, genCase(r.Fork(), id, tier))
		id++
	}
	return out
}

// ---------------------------------------------------------------- running one case

const tsRate = 1e8
const countsPerFrame = 100

func (c *Case) gfpp(g int) int {
	if c.Groups[g].Fpp > 0 {
		return c.Groups[g].Fpp
	}
	return c.Fpp
}

func inputTerm(c Case) (string, string) {
	var gs []string
	for _, g := range c.Groups {
		var ss []string
		for _, s := range g.Sample {
			ss = append(ss, fmt.Sprintf("(%s,%s)", lib.Z(s[0]), lib.B(s[1] != 0)))
		}
		gs = append(gs, fmt.Sprintf("G %d %d %s", g.Off, g.Nchan, lib.List(ss)))
	}
	nprod := 0
	for _, g := range c.Groups {
		if g.Prod+1 > nprod {
			nprod = g.Prod + 1
		}
	}
	var ts []string
	for _, t := range c.Ops {
		var ps []string
		// arrival order seen by the reader loop: producer after producer
		for pr := 0; pr < nprod; pr++ {
			for _, p := range t.P {
				if p.G < 0 || p.G >= len(c.Groups) || c.Groups[p.G].Prod != pr {
					continue
				}
				g := c.Groups[p.G]
				d := make([]int64, len(p.D))
				for i, v := range p.D {
					if g.Wide {
						d[i] = int64(v)
					} else {
						d[i] = int64(int16(v))
					}
				}
				ps = append(ps, fmt.Sprintf("P %d %d %s %s %s", g.Off, g.Nchan, lib.Z(p.SN), lib.B(g.Wide), lib.ZList64(d)))
			}
		}
		ts = append(ts, lib.List(ps))
	}
	return lib.List(gs), "[" + strings.Join(ts, ";\n   ") + "]"
}

type spec struct { // what the harness works out about the INPUT, for tags only
	lost, leftover, leftoverThenGap, misaligned, emptyTick, lag, longBurst bool
	pendingAtEnd                                                           int64   // lost packets counted in ticks after the last delivered block
	last, sync                                                             []int64 // per group, at the end of the script
	consumed                                                               int64   // global sequence number delivered so far
}

func analyse(c Case) spec {
	var s spec
	n := len(c.Groups)
	last := make([]int64, n)
	sync := make([]int64, n)
	C := int64(-1 << 62)
	for g, gc := range c.Groups {
		last[g] = gc.Sample[len(gc.Sample)-1][0]
		for _, sm := range gc.Sample {
			if sm[1] != 0 {
				sync[g] = sm[0]
				break
			}
		}
		if last[g]-sync[g] > C {
			C = last[g] - sync[g]
		}
	}
	for g := range c.Groups {
		if last[g]-sync[g] != C {
			s.misaligned = true
		}
	}
	queued := make([]bool, n)
	for _, t := range c.Ops {
		if len(t.P) == 0 {
			s.emptyTick = true
		}
		got := make([]bool, n)
		for _, p := range t.P {
			if p.G < 0 || p.G >= n {
				continue
			}
			if p.SN > last[p.G]+4097 {
				s.longBurst = true
			}
			if p.SN > last[p.G]+1 {
				s.lost = true
				s.pendingAtEnd += p.SN - last[p.G] - 1
				if queued[p.G] {
					s.leftoverThenGap = true
				}
			}
			if p.SN > last[p.G] {
				last[p.G] = p.SN
			}
			got[p.G] = true
		}
		for g := range got {
			if !got[g] && len(t.P) > 0 {
				s.lag = true
			}
		}
		av := int64(1 << 62)
		for g := range c.Groups {
			if last[g]-sync[g] < av {
				av = last[g] - sync[g]
			}
		}
		if av > C {
			C = av
			s.pendingAtEnd = 0
		}
		for g := range c.Groups {
			queued[g] = last[g]-sync[g] > C
			if queued[g] {
				s.leftover = true
			}
		}
	}
	s.last, s.sync, s.consumed = last, sync, C
	return s
}

func tagsOf(c Case) ([]string, bool) {
	s := analyse(c)
	tags := []string{fmt.Sprintf("groups=%d", len(c.Groups)), fmt.Sprintf("fpp=%d", c.Fpp)}
	add := func(b bool, t string) {
		if b {
			tags = append(tags, t)
		}
	}
	wide, narrow, prods := false, false, map[int]bool{}
	for _, g := range c.Groups {
		if g.Wide {
			wide = true
		} else {
			narrow = true
		}
		prods[g.Prod] = true
	}
	add(wide, "payload-32bit")
	add(narrow, "payload-16bit")
	add(len(prods) > 1, "multi-producer")
	add(s.lost, "packets-lost")
	add(s.leftover, "tick-left-packets-queued")
	add(s.leftoverThenGap, "gap-after-leftover")
	add(s.misaligned, "start-misaligned")
	add(s.emptyTick, "empty-tick")
	add(s.lag, "group-without-data-in-a-tick")
	add(s.longBurst, "loss-burst-over-4096-packets")
	add(len(c.Rings) > 0, "real-ring-producer")
	if len(c.Rings) > 0 {
		for _, gc := range c.Groups {
			isRing := false
			for _, pr := range c.Rings {
				isRing = isRing || pr == gc.Prod
			}
			hdr := 56
			wl := 2
			if gc.Wide {
				wl = 4
			}
			for _, t := range c.Ops {
				for _, p := range t.P {
					h := hdr
					if p.NoTS {
						h -= 16
					}
					if isRing && p.G >= 0 && p.G < len(c.Groups) && c.Groups[p.G].Off == gc.Off {
						add(h+wl*len(p.D) == 8192 && !has(tags, "packet-fills-ring-slot"), "packet-fills-ring-slot")
					}
				}
			}
		}
	}
	add(len(c.Pre) > 0, "restart-of-the-same-source")
	for _, pc := range c.Pre {
		if analyse(pc).pendingAtEnd > 0 && !has(tags, "restart-after-unreported-fill") {
			tags = append(tags, "restart-after-unreported-fill")
		}
	}
	if c.Note != "" {
		tags = append(tags, "corpus:"+strings.ReplaceAll(c.Note, " ", "-"))
	}
	return tags, s.lost && s.leftover
}

func has(tags []string, t string) bool {
	for _, x := range tags {
		if x == t {
			return true
		}
	}
	return false
}

func hashOf(c Case) string {
	return lib.Hash(struct {
		F int
		G []GroupCfg
		O []Tick
		R []int
		P []Case
	}{c.Fpp, c.Groups, c.Ops, c.Rings, c.Pre})
}

func sanitize(c *Case) error {
	if c.Fpp <= 0 || len(c.Groups) == 0 {
		return fmt.Errorf("case %d: no groups or fpp", c.ID)
	}
	for _, g := range c.Groups {
		if len(g.Sample) < 2 || g.Nchan <= 0 {
			return fmt.Errorf("case %d: group needs >= 2 sampled packets and channels", c.ID)
		}
	}
	return nil
}

// runCase runs the script; if the reader loop did not get through its script within the limit (it
// gives up by itself after 5 s without data, which a badly overloaded machine can provoke) the
// run is repeated, at most twice, before the failure is reported.
func runCase(c Case) (lib.Result, error) {
	var res lib.Result
	var err error
	for attempt := 0; attempt < 3; attempt++ {
		res, err = runOnce(c)
		if err == nil || !strings.Contains(err.Error(), "did not exhaust its script") {
			break
		}
	}
	return res, err
}

func runOnce(c Case) (lib.Result, error) {
	if err := sanitize(&c); err != nil {
		return lib.Result{}, err
	}
	for i := range c.Pre {
		if err := sanitize(&c.Pre[i]); err != nil {
			return lib.Result{}, err
		}
	}
	res := lib.Result{ID: c.ID, Hash: hashOf(c)}
	res.Tags, res.NonTrivial = tagsOf(c)
	var run *dastard.VerifAbacoRun
	var preTerms []string
	var allBlocks [][]dastard.VerifAbacoBlock
	scripts := append(append([]Case(nil), c.Pre...), c)
	for k, sc := range scripts {
		sc.ID = c.ID
		blocks, err := runScript(&run, sc)
		if err != nil {
			return res, err
		}
		allBlocks = append(allBlocks, blocks)
		t := caseTerm(sc, blocks)
		if k < len(scripts)-1 {
			preTerms = append(preTerms, t)
		} else if len(preTerms) > 0 {
			res.Term = "after [" + strings.Join(preTerms, ";\n ") + "]\n (" + t + ")"
		} else {
			res.Term = t
		}
	}
	heavy := false
	for _, sc := range scripts {
		if span(sc) > 2000 || volume(sc) > 12000 {
			heavy = true
		}
	}
	if heavy {
		res.Heavy = true
		var ci []interface{}
		for _, b := range allBlocks {
			ci = append(ci, compactImpl(b))
		}
		res.Impl = ci
	} else if len(allBlocks) == 1 {
		res.Impl = allBlocks[0]
	} else {
		res.Impl = allBlocks
	}
	return res, nil
}

// volume is the number of payload values a script carries.
func volume(c Case) int {
	n := 0
	for _, t := range c.Ops {
		for _, p := range t.P {
			n += len(p.D)
		}
	}
	return n
}

// runScript runs one script: on a fresh AbacoSource when *run is nil, else as a restart of the same
// object (the previous run was stopped).  The run is stopped before it returns.
func runScript(run **dastard.VerifAbacoRun, c Case) ([]dastard.VerifAbacoBlock, error) {
	nprod := 0
	for _, g := range c.Groups {
		if g.Prod+1 > nprod {
			nprod = g.Prod + 1
		}
	}
	prods := make([]*dastard.VerifScriptedProducer, nprod)
	for i := range prods {
		prods[i] = &dastard.VerifScriptedProducer{Batches: make([][]*packets.Packet, len(c.Ops))}
	}
	var rings []*dastard.VerifRing
	defer func() {
		for _, r := range rings {
			r.Remove()
		}
	}()
	for _, pr := range c.Rings {
		if pr < 0 || pr >= nprod {
			continue
		}
		most := len(c.Groups) * 8
		for _, t := range c.Ops {
			if len(t.P) > most {
				most = len(t.P)
			}
		}
		r, err := dastard.VerifNewRing(most + 8)
		if err != nil {
			return nil, fmt.Errorf("case %d: ring: %v", c.ID, err)
		}
		rings = append(rings, r)
		prods[pr].Ring = r
	}
	stamp := func(g int, sn int64) uint64 {
		base := c.Groups[g].Sample[0][0]
		return uint64(1000000 + (sn-base)*int64(c.gfpp(g))*countsPerFrame)
	}
	for g, gc := range c.Groups {
		for _, s := range gc.Sample {
			ts := uint64(0)
			if s[1] != 0 {
				ts = stamp(g, s[0])
			}
			p, err := dastard.VerifMakeAbacoPacket(gc.Off, gc.Nchan, uint32(s[0]), gc.Wide, make([]int32, c.gfpp(g)*gc.Nchan), ts, tsRate)
			if err != nil {
				return nil, err
			}
			prods[gc.Prod].Sampled = append(prods[gc.Prod].Sampled, p)
		}
	}
	for t, tk := range c.Ops {
		for _, pk := range tk.P {
			if pk.G < 0 || pk.G >= len(c.Groups) {
				continue
			}
			gc := c.Groups[pk.G]
			ts := stamp(pk.G, pk.SN)
			if pk.NoTS {
				ts = 0
			}
			p, err := dastard.VerifMakeAbacoPacket(gc.Off, gc.Nchan, uint32(pk.SN), gc.Wide, pk.D, ts, tsRate)
			if err != nil {
				return nil, err
			}
			prods[gc.Prod].Batches[t] = append(prods[gc.Prod].Batches[t], p)
		}
	}
	var err error
	if *run == nil {
		*run, err = dastard.VerifNewAbacoRun(prods)
	} else {
		err = (*run).Restart(prods)
	}
	if err != nil {
		return nil, fmt.Errorf("case %d: %v", c.ID, err)
	}
	r := *run
	// the groups must be known to the source in the order the case lists them
	keys, _ := r.GroupKeys()
	if len(keys) != len(c.Groups) {
		r.Close()
		return nil, fmt.Errorf("case %d: %d groups found, %d scripted", c.ID, len(keys), len(c.Groups))
	}
	for i, k := range keys {
		if k.Firstchan != c.Groups[i].Off || k.Nchan != c.Groups[i].Nchan {
			r.Close()
			return nil, fmt.Errorf("case %d: group %d is %v, scripted (%d,%d)", c.ID, i, k, c.Groups[i].Off, c.Groups[i].Nchan)
		}
	}
	if err := r.WaitScript(20 * time.Second); err != nil {
		r.Close()
		return nil, fmt.Errorf("case %d: %v", c.ID, err)
	}
	blocks := r.Blocks()
	r.Close()
	return blocks, nil
}

func caseTerm(c Case, blocks []dastard.VerifAbacoBlock) string {
	gterm, tterm := inputTerm(c)
	var bs []string
	for _, b := range blocks {
		var ss []string
		for _, s := range b.Segs {
			ss = append(ss, fmt.Sprintf("S %s %s %s", lib.Z(s.First), lib.Z(int64(s.Dropped)), rleTerm(s.Data)))
		}
		ns := int64(b.NSamp)
		if b.Err != "" {
			ns = -1
		}
		bs = append(bs, fmt.Sprintf("B %s %s", lib.Z(ns), lib.List(ss)))
	}
	return fmt.Sprintf("mk %d %s\n  %s\n  %s", c.Fpp, gterm, tterm, "["+strings.Join(bs, ";\n   ")+"]")
}

// rleTerm renders sample data as a Coq list; constant runs of 24 or more samples (filler for a long
// burst of lost packets) are written (rep v n), which Run.v expands. Lossless.
func rleTerm(d []uint16) string {
	const minRun = 24
	var parts []string
	var lit []uint16
	flush := func() {
		if len(lit) > 0 {
			parts = append(parts, lib.ZListU16(lit))
			lit = nil
		}
	}
	for i := 0; i < len(d); {
		j := i
		for j < len(d) && d[j] == d[i] {
			j++
		}
		if j-i >= minRun {
			flush()
			parts = append(parts, fmt.Sprintf("rep %d %d", d[i], j-i))
		} else {
			lit = append(lit, d[i:j]...)
		}
		i = j
	}
	flush()
	if len(parts) == 0 {
		return "[]"
	}
	if len(parts) == 1 && strings.HasPrefix(parts[0], "[") {
		return parts[0]
	}
	return "(" + strings.Join(parts, " ++ ") + ")"
}

// compactImpl is what the replay file records for a heavy case instead of every sample.
type compactSeg struct {
	First   int64
	Dropped int
	Len     int
	Runs    [][2]int // (value, length) of constant runs >= 24 samples
}

func compactImpl(blocks []dastard.VerifAbacoBlock) interface{} {
	var out [][]compactSeg
	for _, b := range blocks {
		var segs []compactSeg
		for _, s := range b.Segs {
			cs := compactSeg{First: s.First, Dropped: s.Dropped, Len: len(s.Data)}
			for i := 0; i < len(s.Data); {
				j := i
				for j < len(s.Data) && s.Data[j] == s.Data[i] {
					j++
				}
				if j-i >= 24 {
					cs.Runs = append(cs.Runs, [2]int{int(s.Data[i]), j - i})
				}
				i = j
			}
			segs = append(segs, cs)
		}
		out = append(out, segs)
	}
	return out
}

// span is the number of packet slots a case covers in its busiest group (for the Heavy mark).
func span(c Case) int64 {
	var m int64
	for g, gc := range c.Groups {
		last := gc.Sample[len(gc.Sample)-1][0]
		hi := last
		for _, t := range c.Ops {
			for _, p := range t.P {
				if p.G == g && p.SN > hi {
					hi = p.SN
				}
			}
		}
		if hi-last > m {
			m = hi - last
		}
	}
	return m
}

func crash(raw json.RawMessage, stderr string) (lib.Result, error) {
	var c Case
	if err := json.Unmarshal(raw, &c); err != nil {
		return lib.Result{}, err
	}
	if err := sanitize(&c); err != nil {
		return lib.Result{}, err
	}
	res := lib.Result{ID: c.ID, Hash: hashOf(c)}
	res.Tags, res.NonTrivial = tagsOf(c)
	res.Tags = append(res.Tags, "process-panicked")
	res.Heavy = span(c) > 2000
	gterm, tterm := inputTerm(c)
	res.Term = fmt.Sprintf("mkpanic %d %s\n  %s", c.Fpp, gterm, tterm)
	lines := strings.Split(strings.TrimSpace(stderr), "\n")
	first := ""
	for _, l := range lines {
		if strings.HasPrefix(l, "panic:") {
			first = l
			break
		}
	}
	res.Impl = map[string]string{"panic": first}
	return res, nil
}

func main() {
	h := lib.Harness{
		Gen: gen,
		RunCase: func(raw json.RawMessage) (lib.Result, error) {
			var c Case
			if err := json.Unmarshal(raw, &c); err != nil {
				return lib.Result{}, err
			}
			return runCase(c)
		},
		Crash:    crash,
		Header:   "From Dastard Require Import Common.ZX Common.CaseLib C03.Model C03.Spec C03.Run.",
		Verdict:  "verdict",
		PerShard: 25,
		Isolate:  true,
		Chunk:    6,
		Workers:  44,
	}
	if len(os.Args) > 1 && os.Args[1] == "runchunk" {
		// the reader loop and Sample print progress lines; keep the child's stdout quiet
		if f, err := os.OpenFile(os.DevNull, os.O_WRONLY, 0); err == nil {
			os.Stdout = f
		}
	}
	h.Main()
}
