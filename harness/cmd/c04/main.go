// C04 harness: the REAL Lancero reader goroutine (launchLanceroReader), getNextBlock, distributeData,
// MixRetardFb and ConfigureMixFraction run against a scripted card.  The card is indexed by call count:
// the k-th AvailableBuffer call blocks until the harness hands over the k-th chunk, then returns the
// unreleased bytes followed by that chunk with the scripted time stamp; ReleaseBytes drops bytes from the
// front.  A tick is complete when the reader asks for the next buffer.  Nothing depends on wall-clock time.
package main

import (
	"encoding/hex"
	"encoding/json"
	"fmt"
	"io"
	"log"
	"math"
	"os"
	"sort"
	"strings"
	"sync"
	"time"

	"github.com/usnistgov/dastard"
	"github.com/usnistgov/dastard/lancero"
	"verifharness/lib"
)

// ---------------------------------------------------------------- case format

type Op struct {
	Op string    `json:"op"`           // "C" chunk, "M" mix request
	N  int       `json:"n,omitempty"`  // C: number of bytes taken from the stream
	T  int64     `json:"t,omitempty"`  // C: card time stamp, whole seconds since the zero time
	Q  bool      `json:"q,omitempty"`  // C: leave the block of this read queued on buffersChan (the consumer lags behind the reader)
	Ch []int     `json:"ch,omitempty"` // M: channel indices
	Fr []float64 `json:"fr,omitempty"` // M: mix fractions
}

type Case struct {
	ID        int64  `json:"id"`
	Ncols     int    `json:"ncols"`
	Nrows     int    `json:"nrows"`
	Nsamp     int    `json:"nsamp"`
	Rate      int    `json:"rate"`   // frames per second (integral, so that the dropped-frame estimate is exact)
	Devnum    int    `json:"devnum"` // device number of the active card
	OtherDevs []int  `json:"otherdevs,omitempty"`
	Stream    string `json:"stream"`  // hex: the bytes the card delivers (after the cut)
	GapPos    int    `json:"gap_pos"` // stream position in front of which bytes were lost (-1: none)
	GapLen    int    `json:"gap_len"` // how many bytes were lost there
	Kind      string `json:"kind"`    // generator stream (for the evidence histogram)
	Ops       []Op   `json:"ops"`
	// runs performed before this one on the SAME LanceroSource object (stop, new geometry, start); uninterrupted
	// well-formed deliveries, their device numbers are those of the case
	Before []Case `json:"before,omitempty"`
}

// ---------------------------------------------------------------- scripted card

type chunk struct {
	data  []byte
	stamp int64
}

type tickLog struct {
	Len  int   // length of the buffer returned by AvailableBuffer
	Rels []int // ReleaseBytes calls until the next AvailableBuffer call
	Over bool  // a release exceeded the unreleased bytes
	buf  []byte
}

type Card struct {
	mu         sync.Mutex
	cond       *sync.Cond
	unreleased []byte
	queue      []chunk
	arrived    int // AvailableBuffer calls that have arrived
	closed     bool
	log        []tickLog
}

func NewCard() *Card {
	c := &Card{}
	c.cond = sync.NewCond(&c.mu)
	return c
}

func (c *Card) ChangeRingBuffer(int, int) error                { return nil }
func (c *Card) Close() error                                   { return nil }
func (c *Card) StartAdapter(int, int) error                    { return nil }
func (c *Card) StopAdapter() error                             { return nil }
func (c *Card) CollectorConfigure(int, int, uint32, int) error { return nil }
func (c *Card) StartCollector(bool) error                      { return nil }
func (c *Card) StopCollector() error                           { return nil }
func (c *Card) InspectAdapter() uint32                         { return 0 }
func (c *Card) Wait() (time.Time, time.Duration, error)        { return time.Time{}, 0, nil }

func (c *Card) AvailableBuffer() ([]byte, time.Time, error) {
	c.mu.Lock()
	defer c.mu.Unlock()
	c.arrived++
	c.cond.Broadcast()
	for len(c.queue) == 0 && !c.closed {
		c.cond.Wait()
	}
	if len(c.queue) == 0 { // shut down: an empty read lets the reader see abortSelf
		return []byte{}, time.Time{}, nil
	}
	ch := c.queue[0]
	c.queue = c.queue[1:]
	c.unreleased = append(c.unreleased, ch.data...)
	buf := append([]byte(nil), c.unreleased...)
	c.log = append(c.log, tickLog{Len: len(buf), buf: buf})
	return buf, time.Time{}.Add(time.Duration(ch.stamp) * time.Second), nil
}

func (c *Card) ReleaseBytes(n int) error {
	c.mu.Lock()
	defer c.mu.Unlock()
	if len(c.log) == 0 {
		return nil
	}
	t := &c.log[len(c.log)-1]
	t.Rels = append(t.Rels, n)
	if n < 0 || n > len(c.unreleased) {
		t.Over = true
		if n < 0 {
			n = 0
		} else {
			n = len(c.unreleased)
		}
	}
	c.unreleased = c.unreleased[n:]
	return nil
}

// deliver hands over the next chunk and waits until the tick that consumes it is complete
// (= the reader has come back for the next buffer).
func (c *Card) deliver(ch chunk, timeout time.Duration) (tickLog, error) {
	c.mu.Lock()
	k := len(c.log) // ticks completed so far; the reader is parked in call k+1
	c.queue = append(c.queue, ch)
	c.cond.Broadcast()
	c.mu.Unlock()
	ok := c.waitParked(k+2, timeout)
	c.mu.Lock()
	var t tickLog
	if len(c.log) > k {
		t = c.log[k]
		t.Rels = append([]int(nil), t.Rels...)
	}
	c.mu.Unlock()
	if !ok {
		return t, fmt.Errorf("tick %d did not complete within %v", k+1, timeout)
	}
	return t, nil
}

func (c *Card) waitParked(n int, timeout time.Duration) bool {
	deadline := time.Now().Add(timeout)
	for {
		c.mu.Lock()
		a := c.arrived
		c.mu.Unlock()
		if a >= n {
			return true
		}
		if time.Now().After(deadline) {
			return false
		}
		time.Sleep(200 * time.Microsecond)
	}
}

func (c *Card) shutdown() {
	c.mu.Lock()
	c.closed = true
	c.cond.Broadcast()
	c.mu.Unlock()
}

// ---------------------------------------------------------------- running one case

type blockObs struct {
	First   int64      `json:"first"`
	Dropped int        `json:"dropped"`
	Data    [][]uint16 `json:"data"`
	Ext     []int64    `json:"ext"`
}
type stepObs struct {
	Op    string    `json:"op"`
	Rels  []int     `json:"rels,omitempty"`
	Block *blockObs `json:"block,omitempty"`
	MixOK bool      `json:"mix_ok,omitempty"`
	Note  string    `json:"note,omitempty"`
}

// geometryOK predicts, with the real FindFrameBits, whether the reader takes the geometry-mismatch branch.
// Only used to decide whether to wait for a block in the one ambiguous situation (see runCase).
func geometryOK(buf []byte, ncols, nrows int) bool {
	q, p, n, err := lancero.FindFrameBits(buf, 2)
	if err != nil || n == 0 {
		return false
	}
	return n == ncols && (p-q)/n == nrows
}

func packWords(b []byte) string {
	var sb strings.Builder
	sb.WriteByte('[')
	for i := 0; i < len(b); i += 4 {
		var w uint32
		for k := 0; k < 4 && i+k < len(b); k++ {
			w |= uint32(b[i+k]) << (8 * k)
		}
		if i > 0 {
			sb.WriteByte(';')
		}
		fmt.Fprintf(&sb, "%d", w)
	}
	sb.WriteByte(']')
	return sb.String()
}

func floatTerm(f float64) string {
	if f == 0 || math.IsNaN(f) || math.IsInf(f, 0) {
		if math.Signbit(f) && f == 0 {
			return "F true 0 0"
		}
		return "F false 0 0" // generators never produce NaN/Inf
	}
	fr, e := math.Frexp(math.Abs(f)) // fr in [0.5,1)
	m := int64(fr * (1 << 53))
	return fmt.Sprintf("F %s %d %s", lib.B(f < 0), m, lib.Z(int64(e-53)))
}

func opTerm(o Op, data []byte) string {
	if o.Op == "M" {
		fs := make([]string, len(o.Fr))
		for i, f := range o.Fr {
			fs[i] = floatTerm(f)
		}
		return fmt.Sprintf("Mx %s %s", lib.ZListInt(o.Ch), lib.List(fs))
	}
	return fmt.Sprintf("Ch %s %d %s", packWords(data), len(data), lib.Z(o.T))
}

func u16Lists(d [][]uint16) string {
	items := make([]string, len(d))
	for i, x := range d {
		items[i] = lib.ZListU16(x)
	}
	return lib.List(items)
}

func (c Case) header() string {
	fs := 4 * c.Ncols * c.Nrows
	gap := "None"
	if c.GapPos >= 0 && fs > 0 && c.GapLen%fs != 0 {
		gap = fmt.Sprintf("(Some (%d, %d))", c.GapPos, (c.GapPos+c.GapLen)%fs)
	}
	return fmt.Sprintf("%d %d %d %d %s", c.Ncols, c.Nrows, c.Nsamp, c.Rate, gap)
}

// chunks of the stream, one per "C" op (empty once the stream is exhausted)
func (c Case) chunkData() ([][]byte, error) {
	stream, err := hex.DecodeString(c.Stream)
	if err != nil {
		return nil, err
	}
	out := make([][]byte, len(c.Ops))
	at := 0
	for i, o := range c.Ops {
		if o.Op != "C" {
			continue
		}
		n := o.N
		if n < 0 {
			n = 0
		}
		if at+n > len(stream) {
			n = len(stream) - at
		}
		out[i] = stream[at : at+n]
		at += n
	}
	return out, nil
}

// refFrameBits is the harness's own reading of the frame-bit pattern (bit 0 of byte 2 of every 4-byte word):
// q = first word whose frame bit is set after a word where it is clear, n = number of consecutive set words from
// there, p = next such edge behind them. Used only to classify INPUTS (tags); it is not dastard code.
func refFrameBits(b []byte) (q, p, n int, ok bool) {
	bit := func(w int) bool { return b[4*w+2]&1 == 1 }
	nw := (len(b) + 1) / 4
	seen := false
	q = -1
	for w := 0; w < nw; w++ {
		if seen {
			if bit(w) {
				q = w
				break
			}
		} else {
			seen = !bit(w)
		}
	}
	if q < 0 {
		return 0, 0, 0, false
	}
	for w := q; w < nw && bit(w); w++ {
		n++
	}
	prev := true
	for w := q + n; w < nw; w++ {
		if prev && !bit(w) {
			prev = false
		} else if !prev && bit(w) {
			return q, w, n, true
		}
	}
	return q, 0, n, false
}

// classifyInRead: a word-aligned loss that is not met as "gap-met-at-read-start". Either the reader sees it within
// the first two frame starts of a read (the geometry test fails and the read is given up, or the frame start found
// lies late: the NEXT block reports the loss) or the cut lies deeper in a read whose head looks fine (frames
// behind the cut are delivered without a drop report: the recorded finding).
func classifyInRead(stream []byte, ds []int, R, pos, glen, ncols, nrows int) string {
	W := ncols * nrows
	fs := 4 * W
	nb := pos + (fs-(pos+glen)%fs)%fs // first frame boundary behind the cut
	for _, D := range ds {
		if D > len(stream) {
			D = len(stream)
		}
		L := D - R
		if L < 3*fs {
			continue
		}
		q, p, n, ok := refFrameBits(stream[R:D])
		if !ok || n != ncols || (p-q)/n != nrows {
			if L%4 != 0 || (D-nb)%fs == 0 {
				// the whole read is given up, and (1) its length is not a multiple of 4: the reader itself shifts
				// the word grid and never finds the frames again, or (2) it happens to end on a frame boundary:
				// the next read looks aligned and the loss is never reported (both: part of the recorded finding)
				return "gap-word-aligned-inside-read"
			}
			return "gap-in-first-two-frames"
		}
		if q != W {
			return "gap-in-first-two-frames"
		}
		m := L / fs
		if R+m*fs > pos {
			return "gap-word-aligned-inside-read"
		}
		R += m * fs
	}
	return "gap-never-processed"
}

// features of the input (for the evidence histogram and the finding matchers)
func inputTags(c Case, data [][]byte) (tags map[string]bool, nontrivial bool) {
	tags = map[string]bool{"kind-" + c.Kind: true}
	fs := 4 * c.Ncols * c.Nrows
	tags[fmt.Sprintf("ncols-%d", c.Ncols)] = true
	if c.Devnum != 0 {
		tags["active-card-not-0"] = true
	}
	// the reader's accounting on a well-formed delivery: whole frames are consumed once 3 frames are there
	D, R := 0, 0
	blocks, carried := 0, false
	gapSeen, postGap := false, false
	gapDetectable := c.GapPos >= 0 && c.GapLen%fs != 0
	for i, o := range c.Ops {
		if o.Op == "M" {
			tags["mix-request"] = true
			for _, f := range o.Fr {
				if f != 0 {
					tags["mix-nonzero"] = true
				}
			}
			if len(o.Ch) != len(o.Fr) {
				tags["mix-length-mismatch"] = true
			}
			for _, ch := range o.Ch {
				if ch%2 == 0 || ch < 0 || ch >= 2*c.Ncols*c.Nrows {
					tags["mix-illegal-channel"] = true
				}
			}
			continue
		}
		n := len(data[i])
		if n == 0 {
			tags["empty-read"] = true
		}
		if postGap {
			continue
		}
		D += n
		if D%4 != 0 {
			tags["cut-inside-word"] = true
		}
		if D-R < 3*fs {
			if n > 0 {
				tags["read-too-small"] = true
			}
			continue
		}
		if gapDetectable && !gapSeen && D > c.GapPos {
			// first processed read that contains bytes from behind the cut
			gapSeen = true
			g := c.GapPos - R
			t0 := (c.GapPos + c.GapLen) % fs
			switch {
			case c.GapPos%4 != 0 || c.GapLen%4 != 0:
				tags["gap-not-word-aligned"] = true
			case g < fs && (g/4 < t0/4 || (t0 == 0 && g/4 > c.Ncols)):
				tags["gap-met-at-read-start"] = true
			default:
				// neither: follow the reader's bookkeeping (frame-bit pattern of the INPUT only) to see how the cut is met
				var ds []int
				dd := D - n
				for j := i; j < len(c.Ops); j++ {
					if c.Ops[j].Op == "C" {
						dd += len(data[j])
						ds = append(ds, dd)
					}
				}
				var all []byte
				for j := range c.Ops {
					all = append(all, data[j]...)
				}
				tags[classifyInRead(all, ds, R, c.GapPos, c.GapLen, c.Ncols, c.Nrows)] = true
			}
			postGap = true
			continue
		}
		m := (D - R) / fs
		if (D-R)%fs != 0 {
			carried = true
		}
		R += m * fs
		blocks++
		if blocks >= 2 && carried {
			nontrivial = true
		}
	}
	if gapDetectable {
		tags["gap"] = true
		if !gapSeen {
			tags["gap-never-processed"] = true
		}
	} else if c.GapPos >= 0 {
		tags["gap-multiple-of-frame"] = true
	}
	return tags, nontrivial
}

// runOne performs one run (start ... stop) on the source object *vp (created on the first run)
func runOne(vp **dastard.VerifLancero, c Case, devnum int, otherDevs []int, data [][]byte, tags map[string]bool) (string, []stepObs, error) {
	card := NewCard()
	if *vp == nil {
		nv, err := dastard.VerifNewLancero(dastard.VerifLanceroConfig{Card: card, Devnum: devnum, Ncols: c.Ncols,
			Nrows: c.Nrows, OtherDevs: otherDevs, SampleRate: float64(c.Rate), Nsamp: c.Nsamp})
		if err != nil {
			return "", nil, err
		}
		*vp = nv
	} else if err := (*vp).Restart(card, c.Ncols, c.Nrows, c.Nsamp, float64(c.Rate)); err != nil {
		// the same source object, stopped, now started again with this run's geometry
		return "", nil, err
	}
	v := *vp
	v.Launch()
	if !card.waitParked(1, 20*time.Second) {
		return "", nil, fmt.Errorf("case %d: the reader never asked for a buffer", c.ID)
	}

	const tickTimeout = 30 * time.Second
	terms := make([]string, len(c.Ops))
	obs := make([]stepObs, len(c.Ops))
	var lastStamp int64

	// renders one read: its releases and the block it produced (nil: none)
	render := func(i int, t tickLog, blk *dastard.VerifLanceroBlock, note string) error {
		o := c.Ops[i]
		so := stepObs{Op: "C", Rels: t.Rels, Note: note}
		if t.Over {
			so.Note = "release beyond the unreleased bytes"
			tags["over-release"] = true
		}
		if blk != nil {
			if blk.Closed || blk.Err != "" {
				return fmt.Errorf("case %d: source stopped: %s", c.ID, blk.Err)
			}
			bo := &blockObs{Data: blk.Data, Ext: blk.ExtTrig}
			if len(blk.FirstFrame) > 0 {
				bo.First, bo.Dropped = blk.FirstFrame[0], blk.Dropped[0]
			}
			same := true
			for k := range blk.FirstFrame {
				if blk.FirstFrame[k] != bo.First || blk.Dropped[k] != bo.Dropped || blk.Signed[k] != (k%2 == 0) {
					same = false
				}
			}
			if len(blk.Data) > 0 && blk.NSamp != len(blk.Data[0]) {
				same = false
			}
			if !same {
				// segments of one block disagree: render an impossible value so that it cannot pass
				bo.First = -1 << 40
				so.Note = "segments of one block disagree on first frame / dropped / signedness / nSamp"
			}
			so.Block = bo
			if len(bo.Ext) > 0 {
				tags["ext-trigger"] = true
			}
			if bo.Dropped != 0 {
				tags["drop-reported"] = true
			}
			terms[i] = fmt.Sprintf("(%s, TB %s %s %s %s %s)", opTerm(o, data[i]), lib.ZListInt(t.Rels),
				lib.Z(bo.First), lib.Z(int64(bo.Dropped)), u16Lists(bo.Data), lib.ZList64(bo.Ext))
		} else {
			if len(t.Rels) > 0 {
				tags["released-without-block"] = true
			}
			terms[i] = fmt.Sprintf("(%s, T %s)", opTerm(o, data[i]), lib.ZListInt(t.Rels))
		}
		obs[i] = so
		return nil
	}

	// reads whose blocks were left on buffersChan: the consumer (getNextBlock/distributeData) lags behind the
	// reader by that many reads; they are fetched, in order, before the next mix request / unqueued read / the end.
	type queued struct {
		i        int
		t        tickLog
		produced bool
	}
	var lag []queued
	nQueued := 0 // buffers sitting on buffersChan
	drain := func() error {
		if nQueued >= 2 {
			tags[fmt.Sprintf("consumer-lag-%d", nQueued)] = true
			tags["consumer-lag"] = true
		}
		for _, q := range lag {
			var blk *dastard.VerifLanceroBlock
			if q.produced {
				v.StartNextBlock()
				b, ok := v.Receive(tickTimeout)
				if !ok {
					return fmt.Errorf("case %d: queued block not delivered", c.ID)
				}
				blk = &b
			}
			if err := render(q.i, q.t, blk, ""); err != nil {
				return err
			}
		}
		lag, nQueued = nil, 0
		return nil
	}

	for i, o := range c.Ops {
		switch o.Op {
		case "M":
			if err := drain(); err != nil {
				return "", nil, err
			}
			v.StartNextBlock() // the mix request is answered by the getNextBlock goroutine; no buffer can arrive meanwhile
			_, merr := v.ConfigureMix(o.Ch, o.Fr)
			obs[i] = stepObs{Op: "M", MixOK: merr == nil}
			terms[i] = fmt.Sprintf("(%s, MR %s)", opTerm(o, nil), lib.B(merr == nil))
		case "C":
			if o.T <= lastStamp {
				return "", nil, fmt.Errorf("case %d: time stamps must increase", c.ID)
			}
			lastStamp = o.T
			queue := o.Q && !v.Outstanding() && nQueued < 90
			if !queue {
				if err := drain(); err != nil {
					return "", nil, err
				}
			}
			t, derr := card.deliver(chunk{data: data[i], stamp: o.T}, tickTimeout)
			if derr != nil {
				return "", nil, fmt.Errorf("case %d: %v", c.ID, derr)
			}
			if queue {
				// the tick is complete (the reader is parked in its next AvailableBuffer call) and nobody
				// consumes: the length of buffersChan tells whether this read sent a buffer
				n := v.BuffersLen()
				lag = append(lag, queued{i: i, t: t, produced: n > nQueued})
				nQueued = n
				continue
			}
			// did this tick send a buffer?
			var blk *dastard.VerifLanceroBlock
			note := ""
			if !v.Outstanding() {
				if v.BuffersLen() > 0 {
					v.StartNextBlock()
					b, ok := v.Receive(tickTimeout)
					if !ok {
						return "", nil, fmt.Errorf("case %d: block not delivered", c.ID)
					}
					blk = &b
				}
			} else {
				// a getNextBlock goroutine (started for a mix request) is waiting and takes the buffer itself
				expect := false
				switch {
				case len(t.Rels) == 0:
				case len(t.Rels) >= 2:
					expect = true
				case t.Rels[0] < t.Len:
					expect = true
				default: // one release of the whole read: either a geometry mismatch or a read of whole frames
					expect = geometryOK(t.buf, c.Ncols, c.Nrows)
				}
				if expect {
					b, ok := v.Receive(5 * time.Second)
					if ok {
						blk = &b
					} else {
						note = "expected a block, none arrived"
					}
				}
			}
			if err := render(i, t, blk, note); err != nil {
				return "", nil, err
			}
		default:
			return "", nil, fmt.Errorf("case %d: unknown op %q", c.ID, o.Op)
		}
	}
	if err := drain(); err != nil {
		return "", nil, err
	}
	// stop as Stop() would: abortSelf, the reader closes buffersChan, getNextBlock closes nextBlock
	v.Abort()
	card.shutdown()
	v.StartNextBlock()
	for k := 0; k < 3; k++ {
		b, ok := v.Receive(20 * time.Second)
		if !ok {
			return "", nil, fmt.Errorf("case %d: the source did not shut down", c.ID)
		}
		if b.Closed {
			break
		}
		v.StartNextBlock()
	}

	return fmt.Sprintf("mk %s %s", c.header(), lib.List(terms)), obs, nil
}

func runCase(c Case) (lib.Result, error) {
	res := lib.Result{ID: c.ID, Hash: lib.Hash(c)}
	runs := append(append([]Case(nil), c.Before...), c)
	for _, r := range runs {
		if r.Ncols < 1 || r.Nrows < 1 || r.Nsamp < 1 || r.Rate < 1 {
			return res, fmt.Errorf("case %d: bad configuration", c.ID)
		}
	}
	data, err := c.chunkData()
	if err != nil {
		return res, err
	}
	tags, nontrivial := inputTags(c, data)
	var v *dastard.VerifLancero
	defer func() {
		if v != nil {
			v.Cleanup()
		}
	}()
	var terms []string
	var impl [][]stepObs
	for k, r := range runs {
		r.ID = c.ID
		r.Before = nil
		d := data
		if k < len(runs)-1 {
			if d, err = r.chunkData(); err != nil {
				return res, err
			}
			tags["restart"] = true
			if 2*r.Ncols*r.Nrows == 2*c.Ncols*c.Nrows && (r.Ncols != c.Ncols || r.Nrows != c.Nrows) {
				tags["restart-same-channel-count-other-shape"] = true
			}
		}
		t, obs, err := runOne(&v, r, c.Devnum, c.OtherDevs, d, tags)
		if err != nil {
			return res, err
		}
		terms = append(terms, t)
		impl = append(impl, obs)
	}
	res.Term = lib.List(terms)
	res.Impl = impl
	res.NonTrivial = nontrivial
	for t := range tags {
		res.Tags = append(res.Tags, t)
	}
	sort.Strings(res.Tags)
	return res, nil
}

// a case that killed the process: the reader (or getNextBlock) goroutine panicked
func crashCase(c Case, stderr string) (lib.Result, error) {
	res := lib.Result{ID: c.ID, Hash: lib.Hash(c)}
	data, err := c.chunkData()
	if err != nil {
		return res, err
	}
	tags, _ := inputTags(c, data)
	tags["crash"] = true
	kind := "PIndex"
	switch {
	case strings.Contains(stderr, "integer divide by zero"):
		kind = "PDivZero"
	case strings.Contains(stderr, "expect dropFromEnd>0"):
		kind = "PDropFromEnd"
	case strings.Contains(stderr, "wont self fix"):
		kind = "PFirstWordZero"
	case strings.Contains(stderr, "should not get here"):
		kind = "PNoFrames"
	case strings.Contains(stderr, "index out of range") && strings.Contains(stderr, "getNextBlock"):
		kind = "PMixLen"
	case strings.Contains(stderr, "nil pointer dereference"):
		kind = "PNil"
	}
	var terms []string
	for i, o := range c.Ops {
		terms = append(terms, opTerm(o, data[i]))
	}
	res.Term = fmt.Sprintf("[mkcrash %s %s %s]", c.header(), lib.List(terms), kind)
	lines := strings.Split(strings.TrimSpace(stderr), "\n")
	msg := ""
	for _, l := range lines {
		if strings.HasPrefix(l, "panic:") {
			msg = l
			break
		}
	}
	res.Impl = map[string]string{"crash": kind, "panic": msg}
	for t := range tags {
		res.Tags = append(res.Tags, t)
	}
	sort.Strings(res.Tags)
	return res, nil
}

func main() {
	log.SetOutput(io.Discard)
	dastard.ProblemLogger = log.New(io.Discard, "", 0)
	if len(os.Args) > 1 && os.Args[1] == "one" { // development aid: run one case from stdin, print the result
		var c Case
		if err := json.NewDecoder(os.Stdin).Decode(&c); err != nil {
			panic(err)
		}
		r, err := runCase(c)
		if err != nil {
			panic(err)
		}
		b, _ := json.MarshalIndent(r, "", " ")
		fmt.Println(string(b))
		return
	}
	h := lib.Harness{
		Gen: gen,
		RunCase: func(raw json.RawMessage) (lib.Result, error) {
			var c Case
			if err := json.Unmarshal(raw, &c); err != nil {
				return lib.Result{}, err
			}
			return runCase(c)
		},
		Crash: func(raw json.RawMessage, stderr string) (lib.Result, error) {
			var c Case
			if err := json.Unmarshal(raw, &c); err != nil {
				return lib.Result{}, err
			}
			return crashCase(c, stderr)
		},
		Header:   "From Dastard Require Import Common.ZX Common.CaseLib C04.Base C04.Model C04.Spec C04.Run.",
		Verdict:  "verdict_runs",
		PerShard: 16,
		Isolate:  true,
		Chunk:    8,
		Workers:  40,
	}
	h.Main()
}
