package main

import (
	"encoding/hex"

	"verifharness/lib"
)

// ---------------------------------------------------------------- streams

// frameWords builds one frame: nrows*ncols words  errLo errHi fbLo fbHi ; frame bit = bit 0 of the feedback
// word, set exactly in row 0 ; external-trigger flag = bit 1 of the feedback word, identical across a row.
func putWord(b []byte, err, fb uint16) []byte {
	return append(b, byte(err), byte(err>>8), byte(fb), byte(fb>>8))
}

type streamSpec struct {
	ncols, nrows, nframes int
	values                int // 0 random, 1 full-scale corners, 2 position-coded
	flags                 int // 0 none, 1 sparse, 2 dense, 3 alternating
}

func makeStream(r *lib.Rng, sp streamSpec) []byte {
	var b []byte
	flag := false
	corners := []int{0, 1, 2, 3, 4, 5, 32766, 32767, 32768, 32769, 65531, 65532, 65533, 65534, 65535}
	for f := 0; f < sp.nframes; f++ {
		for row := 0; row < sp.nrows; row++ {
			switch sp.flags {
			case 0:
				flag = false
			case 1:
				if r.Chance(1, 6) {
					flag = !flag
				}
			case 2:
				if r.Chance(1, 2) {
					flag = !flag
				}
			case 3:
				flag = !flag
			}
			for col := 0; col < sp.ncols; col++ {
				var e, fb int
				switch sp.values {
				case 0:
					e, fb = r.Intn(65536), r.Intn(65536)
				case 1:
					e, fb = r.Pick(corners), r.Pick(corners)
				default:
					e = (f*64 + row*8 + col) & 0xffff
					fb = (40000 + f*256 + row*32 + col*4) & 0xffff
				}
				fb &^= 3
				if row == 0 {
					fb |= 1
				}
				if flag {
					fb |= 2
				}
				b = putWord(b, uint16(e), uint16(fb))
			}
		}
	}
	return b
}

// ---------------------------------------------------------------- chunkings

func chunkSize(r *lib.Rng, fs int) int {
	switch r.Intn(14) {
	case 0:
		return r.Range(1, 7)
	case 1:
		return fs / 2
	case 2:
		return fs + r.Range(-1, 1)
	case 3:
		return 2*fs + r.Range(-3, 3)
	case 4:
		return 3*fs - 1
	case 5:
		return 3 * fs
	case 6:
		return 3*fs + 1
	case 7:
		return r.Range(3, 8) * fs
	case 8:
		return r.Range(3*fs, 8*fs)
	case 9:
		return r.Range(3*fs, 8*fs) &^ 3
	case 10:
		return r.Range(1, 3*fs)
	case 11:
		return 0
	default:
		return r.Range(2*fs, 6*fs)
	}
}

func chunkOps(r *lib.Rng, total, fs int, style int) []Op {
	var ops []Op
	t := int64(0)
	at := 0
	for at < total && len(ops) < 40 {
		var n int
		switch style {
		case 0: // mixed
			n = chunkSize(r, fs)
		case 1: // whole frames
			n = r.Range(3, 10) * fs
		case 2: // small reads
			n = r.Range(1, fs+3)
			if r.Chance(1, 4) {
				n = r.Range(3*fs, 5*fs)
			}
		case 4: // many reads that each hold a little more than the 3-frame minimum
			n = r.Range(3*fs, 4*fs+fs/2)
			if r.Chance(1, 5) {
				n = r.Range(1, fs)
			}
		default: // large unaligned
			n = r.Range(3*fs+1, 9*fs)
		}
		if n > total-at {
			n = total - at
		}
		t += int64(r.Range(1, 3))
		ops = append(ops, Op{Op: "C", N: n, T: t})
		at += n
	}
	return ops
}

// addLag marks runs of 2..6 consecutive reads whose blocks stay queued on buffersChan (the run ends at the
// next unmarked read, mix request or the end of the script, where the harness fetches them in order)
func addLag(r *lib.Rng, ops []Op) []Op {
	runs := r.Range(1, 2)
	for k := 0; k < runs; k++ {
		at := r.Intn(len(ops))
		n := r.Range(2, 6)
		for i := at; i < len(ops) && n > 0; i++ {
			if ops[i].Op == "C" {
				ops[i].Q = true
				n--
			}
		}
	}
	return ops
}

func mixOp(r *lib.Rng, nchan int, illegal bool) Op {
	fracs := []float64{0, 0, 0.5, -0.25, 1, 2, 1.5, -1, 0.1, -0.37, 3.3, 100, -1000, 0.001, 7.25, -16, 1e-9, 65535}
	k := r.Range(1, 3)
	o := Op{Op: "M"}
	for i := 0; i < k; i++ {
		ch := 2*r.Intn(nchan/2) + 1
		if illegal && r.Chance(1, 2) {
			ch = r.Pick([]int{0, 2, -1, nchan, nchan + 1, nchan - 2})
		}
		o.Ch = append(o.Ch, ch)
		o.Fr = append(o.Fr, fracs[r.Intn(len(fracs))])
	}
	if illegal && r.Chance(1, 4) { // unequal numbers of channels and fractions
		if r.Bool() {
			o.Fr = append(o.Fr, 0.5)
		} else {
			o.Fr = o.Fr[:len(o.Fr)-1]
		}
		return o
	}
	if r.Chance(1, 4) { // every feedback channel at once
		o.Ch, o.Fr = nil, nil
		f := fracs[r.Intn(len(fracs))]
		for ch := 1; ch < nchan; ch += 2 {
			o.Ch = append(o.Ch, ch)
			o.Fr = append(o.Fr, f)
		}
	}
	return o
}

func insertMix(r *lib.Rng, ops []Op, nchan int, count int, illegal bool) []Op {
	for k := 0; k < count; k++ {
		at := r.Intn(len(ops) + 1)
		if k == 0 && r.Chance(1, 2) {
			at = 0 // before the first block
		}
		ops = append(ops[:at], append([]Op{mixOp(r, nchan, illegal)}, ops[at:]...)...)
	}
	return ops
}

// ---------------------------------------------------------------- cases

// beforeRun makes a short uninterrupted run (one or two reads, sometimes a mix request, trigger flags that may
// stay high at the end) with the given geometry, for the same source object
func beforeRun(r *lib.Rng, ncols, nrows, rate int) Case {
	sp := streamSpec{ncols: ncols, nrows: nrows, nframes: r.Range(4, 7), values: r.Pick([]int{0, 2}), flags: r.Pick([]int{0, 1, 2, 3})}
	s := makeStream(r, sp)
	fs := 4 * ncols * nrows
	c := Case{Ncols: ncols, Nrows: nrows, Nsamp: r.Pick([]int{1, 2, 3}), Rate: rate, GapPos: -1, Kind: "before", Stream: hex.EncodeToString(s)}
	if r.Bool() {
		c.Ops = []Op{{Op: "C", N: len(s), T: 1}}
	} else {
		n := 3*fs + r.Range(0, fs)
		c.Ops = []Op{{Op: "C", N: n, T: 1}, {Op: "C", N: len(s) - n, T: 2}}
	}
	if r.Chance(1, 2) {
		c.Ops = insertMix(r, c.Ops, 2*ncols*nrows, 1, false)
	}
	return c
}

// addBefore puts one or two earlier runs in front of the case: the same geometry, a transposed or re-shaped
// geometry with the same number of channels, or another number of channels
func addBefore(r *lib.Rng, c Case) Case {
	W := c.Ncols * c.Nrows
	n := r.Pick([]int{1, 1, 2})
	last := int64(0)
	for k := 0; k < n; k++ {
		nc, nr := c.Ncols, c.Nrows
		switch r.Intn(5) {
		case 0: // same shape
		case 1, 2: // same channel count, other shape
			var shapes [][2]int
			for a := 1; a <= W/2; a++ {
				if W%a == 0 && W/a >= 2 && a != c.Ncols {
					shapes = append(shapes, [2]int{a, W / a})
				}
			}
			if len(shapes) > 0 {
				sh := shapes[r.Intn(len(shapes))]
				nc, nr = sh[0], sh[1]
			} else {
				nc, nr = c.Ncols, c.Nrows+1
			}
		case 3:
			nc, nr = r.Range(1, 3), r.Range(2, 4)
		default:
			nc, nr = c.Nrows, c.Ncols // transposed when that is a legal geometry
			if nr < 2 {
				nc, nr = c.Ncols, c.Nrows
			}
		}
		b := beforeRun(r, nc, nr, c.Rate)
		for _, o := range b.Ops {
			if o.T > last {
				last = o.T
			}
		}
		c.Before = append(c.Before, b)
	}
	// the card's time stamps keep increasing over the runs
	for i := range c.Ops {
		if c.Ops[i].Op == "C" {
			c.Ops[i].T += 2
		}
	}
	return c
}

func geometry(r *lib.Rng, tier string) (int, int) {
	ncols := r.Pick([]int{1, 1, 2, 2, 2, 3, 3, 4})
	nrows := r.Pick([]int{2, 2, 2, 3, 3, 4, 5, 8})
	if tier == "thorough" && r.Chance(1, 10) {
		ncols, nrows = r.Range(1, 8), r.Range(2, 32)
	}
	for ncols*nrows > 24 && tier != "thorough" {
		nrows--
	}
	return ncols, nrows
}

func baseCase(r *lib.Rng, id int64, tier string, kind string) (Case, streamSpec) {
	ncols, nrows := geometry(r, tier)
	W := ncols * nrows
	maxWords := 260
	if tier == "thorough" {
		maxWords = 1500
	}
	nf := r.Range(8, 26)
	if nf*W > maxWords {
		nf = maxWords / W
	}
	if nf < 7 {
		nf = 7
	}
	sp := streamSpec{ncols: ncols, nrows: nrows, nframes: nf, values: r.Pick([]int{0, 0, 1, 2}), flags: r.Pick([]int{0, 1, 1, 2, 2, 3})}
	c := Case{ID: id, Ncols: ncols, Nrows: nrows, Nsamp: r.Pick([]int{1, 1, 2, 3, 4, 7, 16}), Rate: r.Pick([]int{1, 10, 50, 1000, 15625}),
		GapPos: -1, Kind: kind}
	switch r.Intn(8) {
	case 0:
		c.Devnum, c.OtherDevs = 1, []int{0}
	case 1:
		c.Devnum = 2
	case 2:
		c.Devnum, c.OtherDevs = 0, []int{1, 3}
	}
	return c, sp
}

func genCase(r *lib.Rng, id int64, tier string) Case {
	k := r.Intn(100)
	switch {
	case k < 22:
		c, sp := baseCase(r, id, tier, "chunking")
		s := makeStream(r, sp)
		c.Stream = hex.EncodeToString(s)
		c.Ops = chunkOps(r, len(s), 4*sp.ncols*sp.nrows, r.Pick([]int{0, 0, 0, 1, 2, 3}))
		if r.Chance(1, 3) {
			c.Ops = addLag(r, c.Ops)
		}
		return c
	case k < 36:
		// the consumer lags: several reads (each big enough for a block) queue up on buffersChan before
		// getNextBlock/distributeData fetch them
		c, sp := baseCase(r, id, tier, "lag")
		if sp.nframes < 20 {
			sp.nframes = 20
		}
		fs := 4 * sp.ncols * sp.nrows
		s := makeStream(r, sp)
		c.Stream = hex.EncodeToString(s)
		c.Ops = chunkOps(r, len(s), fs, 4)
		if r.Chance(1, 3) {
			c.Ops = insertMix(r, c.Ops, 2*sp.ncols*sp.nrows, 1, false)
		}
		c.Ops = addLag(r, c.Ops)
		return c
	case k < 58:
		c, sp := baseCase(r, id, tier, "mix")
		if r.Chance(1, 2) {
			sp.values = 1
		}
		s := makeStream(r, sp)
		c.Stream = hex.EncodeToString(s)
		c.Ops = chunkOps(r, len(s), 4*sp.ncols*sp.nrows, r.Pick([]int{0, 1, 3}))
		if c.Nsamp > 1 && r.Chance(1, 2) {
			// one channel asked for f and, later, for f/NSAMP - the number the first request left in the stored
			// scale: the second request is a change and must take effect (seed C04-18)
			ch := 2*r.Intn(sp.ncols*sp.nrows) + 1
			fs := []float64{1, 2, 0.5, -1, 4, 3}
			f := fs[r.Intn(len(fs))]
			a := r.Intn(len(c.Ops) + 1)
			c.Ops = append(c.Ops[:a], append([]Op{{Op: "M", Ch: []int{ch}, Fr: []float64{f}}}, c.Ops[a:]...)...)
			b := a + 1 + r.Intn(len(c.Ops)-a)
			c.Ops = append(c.Ops[:b], append([]Op{{Op: "M", Ch: []int{ch}, Fr: []float64{f / float64(c.Nsamp)}}}, c.Ops[b:]...)...)
		} else {
			c.Ops = insertMix(r, c.Ops, 2*sp.ncols*sp.nrows, r.Range(1, 4), r.Chance(1, 8))
		}
		if r.Chance(1, 4) {
			c.Ops = addLag(r, c.Ops)
		}
		return c
	case k < 70:
		c, sp := baseCase(r, id, tier, "ext")
		sp.flags = r.Pick([]int{2, 3})
		if sp.ncols == 1 {
			sp.ncols = 2
			c.Ncols = 2
		}
		s := makeStream(r, sp)
		c.Stream = hex.EncodeToString(s)
		c.Ops = chunkOps(r, len(s), 4*sp.ncols*sp.nrows, r.Pick([]int{0, 1, 3}))
		return c
	case k < 94:
		return genGap(r, id, tier)
	default:
		return genMalformed(r, id, tier)
	}
}

// one gap per script; the classes are balanced by rejection on the input tags
func genGap(r *lib.Rng, id int64, tier string) Case {
	// 0 met at read start, 1 not word aligned, 2 word aligned inside a read, 3 multiple of the frame size.
	// Classes 1 and 2 are the recorded findings (every such case fails and is shrunk by bin/check): a few per run.
	want := 0
	k := r.Intn(1000)
	rare := 0 // quick tier: the findings are exercised by their corpus witnesses only
	if tier == "thorough" {
		rare = 5
	}
	switch {
	case k < rare:
		want = 1
	case k < 2*rare:
		want = 2
	case k < 2*rare+120:
		want = 3
	case k < 2*rare+420:
		want = 4 // inside a read, within its first two frame starts: given up / realigned late, but REPORTED
	}
	for try := 0; try < 60; try++ {
		c, sp := baseCase(r, id, tier, "gap")
		fs := 4 * sp.ncols * sp.nrows
		s := makeStream(r, sp)
		ops := chunkOps(r, len(s), fs, r.Pick([]int{0, 1, 1, 3}))
		// candidate position: a release point of the well-formed accounting plus a few words, or anywhere
		D, R := 0, 0
		var points, starts []int
		for _, o := range ops {
			D += o.N
			if D-R >= 3*fs {
				starts = append(starts, R)
				R += (D - R) / fs * fs
				points = append(points, R, D)
			}
		}
		pos := r.Range(fs, len(s)-4*fs)
		if want == 4 && len(starts) > 0 {
			pos = starts[r.Intn(len(starts))] + 4*r.Range(1, 2*sp.ncols*sp.nrows)
		}
		if len(points) > 0 && want != 2 && want != 4 && r.Chance(3, 4) {
			pos = points[r.Intn(len(points))]
			if r.Chance(1, 2) {
				pos += 4 * r.Range(0, sp.ncols*sp.nrows-1)
			}
		}
		pos &^= 3
		glen := 4 * r.Range(1, 3*sp.ncols*sp.nrows)
		switch want {
		case 1:
			if r.Chance(1, 2) {
				pos += r.Range(1, 3)
			}
			if pos%4 == 0 || r.Chance(1, 2) {
				glen += r.Range(1, 3)
			}
		case 3:
			glen = fs * r.Range(1, 2)
		}
		if pos < fs || pos+glen+3*fs > len(s) {
			continue
		}
		cut := append(append([]byte(nil), s[:pos]...), s[pos+glen:]...)
		c.Stream = hex.EncodeToString(cut)
		c.GapPos, c.GapLen = pos, glen
		c.Ops = chunkOps(r, len(cut), fs, 0)
		// keep the chunk plan up to the cut so that the chosen release point is met, re-plan behind it
		c.Ops = nil
		at := 0
		t := int64(0)
		for _, o := range ops {
			if at >= len(cut) {
				break
			}
			n := o.N
			if at+n > len(cut) {
				n = len(cut) - at
			}
			t = o.T
			c.Ops = append(c.Ops, Op{Op: "C", N: n, T: o.T})
			at += n
		}
		if at < len(cut) {
			c.Ops = append(c.Ops, Op{Op: "C", N: len(cut) - at, T: t + 1})
		}
		if r.Chance(1, 5) {
			c.Ops = insertMix(r, c.Ops, 2*sp.ncols*sp.nrows, 1, false)
		}
		if r.Chance(1, 5) {
			c.Ops = addLag(r, c.Ops)
		}
		data, _ := c.chunkData()
		tags, _ := inputTags(c, data)
		ok := false
		switch want {
		case 0:
			ok = tags["gap-met-at-read-start"]
		case 1:
			ok = tags["gap-not-word-aligned"]
		case 2:
			ok = tags["gap-word-aligned-inside-read"]
		case 3:
			ok = tags["gap-multiple-of-frame"]
		case 4:
			ok = tags["gap-in-first-two-frames"]
		}
		if ok {
			return c
		}
	}
	c, sp := baseCase(r, id, tier, "chunking")
	s := makeStream(r, sp)
	c.Stream = hex.EncodeToString(s)
	c.Ops = chunkOps(r, len(s), 4*sp.ncols*sp.nrows, 0)
	return c
}

func genMalformed(r *lib.Rng, id int64, tier string) Case {
	c, sp := baseCase(r, id, tier, "malformed")
	fs := 4 * sp.ncols * sp.nrows
	var s []byte
	switch r.Intn(4) {
	case 0: // another geometry than configured
		sp2 := sp
		sp2.ncols = sp.ncols%4 + 1
		s = makeStream(r, sp2)
	case 1: // trigger flag not identical across a row
		s = makeStream(r, sp)
		for i := 2; i < len(s); i += 4 {
			if r.Chance(1, 5) {
				s[i] ^= 2
			}
		}
	case 2: // frame bits damaged
		s = makeStream(r, sp)
		for k := 0; k < 3; k++ {
			i := 2 + 4*r.Intn(len(s)/4)
			s[i] ^= 1
		}
	default: // well-formed stream, illegal mix requests
		s = makeStream(r, sp)
	}
	c.Stream = hex.EncodeToString(s)
	c.Ops = chunkOps(r, len(s), fs, 0)
	c.Ops = insertMix(r, c.Ops, 2*sp.ncols*sp.nrows, 2, true)
	return c
}

// ---------------------------------------------------------------- corpus (boundary cases and every defect witness)

func whole(fs, frames, per int, t0 int64) []Op {
	var ops []Op
	t := t0
	for f := 0; f < frames; f += per {
		n := per
		if f+n > frames {
			n = frames - f
		}
		t++
		ops = append(ops, Op{Op: "C", N: n * fs, T: t})
	}
	return ops
}

func corpus(tier string) []Case {
	r := lib.NewRng(4004)
	var out []Case
	// 1. external-trigger witness: ncols=2, nrows=3, the flag rises in frame 1 row 2 -> count 5 (the unchanged tree said 6)
	{
		sp := streamSpec{ncols: 2, nrows: 3, nframes: 4, values: 2}
		s := makeStream(r, sp)
		for w := 6 + 2*2; w < 4*6; w++ { // high from frame 1 row 2 on
			s[4*w+2] |= 2
		}
		out = append(out, Case{Ncols: 2, Nrows: 3, Nsamp: 1, Rate: 1000, GapPos: -1, Kind: "corpus", Stream: hex.EncodeToString(s),
			Ops: []Op{{Op: "C", N: len(s), T: 1}}})
	}
	// 2. frames-go-backwards witness: 24-byte frames, reads of 10 frames, 1.5 frames + 4 bytes lost after frame 20
	// 3. the same with 42 bytes lost (the word grid shifts): witness of realign_after_gap_refuted;
	//    and with the 40-byte cut moved by two bytes (one spliced word, the grid survives)
	for _, pl := range [][2]int{{480, 40}, {480, 42}, {482, 40}} {
		sp := streamSpec{ncols: 2, nrows: 3, nframes: 50, values: 2, flags: 1}
		if pl[1] == 42 {
			sp.flags = 0
			sp.nframes = 70
		}
		s := makeStream(r, sp)
		pos, glen := pl[0], pl[1]
		cut := append(append([]byte(nil), s[:pos]...), s[pos+glen:]...)
		cut = cut[:len(cut)/240*240]
		c := Case{Ncols: 2, Nrows: 3, Nsamp: 1, Rate: 50, GapPos: pos, GapLen: glen, Kind: "corpus", Stream: hex.EncodeToString(cut)}
		for k := 0; k < len(cut)/240; k++ {
			c.Ops = append(c.Ops, Op{Op: "C", N: 240, T: int64(k + 1)})
		}
		if pl[1] == 42 { // a known finding: every failing case is shrunk by bin/check, keep it short
			c.Ops = c.Ops[:5] // the checker tolerates one undelivered read: the finding shows from the second on
		}
		out = append(out, c)
	}
	// 4./5. the active card is not device 0 (the unchanged tree read the row count of device 0)
	for _, others := range [][]int{{0}, nil} {
		sp := streamSpec{ncols: 2, nrows: 3, nframes: 8, values: 0, flags: 2}
		s := makeStream(r, sp)
		out = append(out, Case{Ncols: 2, Nrows: 3, Nsamp: 1, Rate: 1000, Devnum: 1, OtherDevs: others, GapPos: -1, Kind: "corpus",
			Stream: hex.EncodeToString(s), Ops: whole(24, 8, 4, 0)})
	}
	// 6. tiny reads accumulate until three frames are there; reads of exactly 3 frames and 3 frames -/+ 1 byte
	{
		sp := streamSpec{ncols: 1, nrows: 2, nframes: 24, values: 2, flags: 3}
		s := makeStream(r, sp)
		c := Case{Ncols: 1, Nrows: 2, Nsamp: 1, Rate: 10, GapPos: -1, Kind: "corpus", Stream: hex.EncodeToString(s)}
		t := int64(0)
		for _, n := range []int{1, 2, 3, 5, 7, 5, 1, 24, 23, 25, 24, 8, 8, 7, 1, 48} {
			t++
			c.Ops = append(c.Ops, Op{Op: "C", N: n, T: t})
		}
		out = append(out, c)
	}
	// 7. mix: saturation at both ends, one-sample delay across blocks, change between blocks
	{
		sp := streamSpec{ncols: 2, nrows: 2, nframes: 16, values: 1, flags: 1}
		s := makeStream(r, sp)
		c := Case{Ncols: 2, Nrows: 2, Nsamp: 3, Rate: 1000, GapPos: -1, Kind: "corpus", Stream: hex.EncodeToString(s)}
		ops := whole(16, 16, 4, 0)
		c.Ops = []Op{{Op: "M", Ch: []int{1, 3, 5, 7}, Fr: []float64{0.5, -0.37, 100, -1000}}, ops[0], ops[1],
			{Op: "M", Ch: []int{1, 5}, Fr: []float64{0, 3.3}}, ops[2], {Op: "M", Ch: []int{2}, Fr: []float64{1}}, ops[3]}
		out = append(out, c)
	}
	// 8. a word-aligned gap in the middle of a read (a recorded finding, like 9: thorough tier only, to keep the
	//    quick tier inside its time budget - every failing case is shrunk)
	if tier == "thorough" {
		sp := streamSpec{ncols: 2, nrows: 3, nframes: 30, values: 2, flags: 1}
		s := makeStream(r, sp)
		pos, glen := 240+5*24+8, 16
		cut := append(append([]byte(nil), s[:pos]...), s[pos+glen:]...)
		c := Case{Ncols: 2, Nrows: 3, Nsamp: 1, Rate: 50, GapPos: pos, GapLen: glen, Kind: "corpus", Stream: hex.EncodeToString(cut)}
		for k := 0; k*240 < len(cut); k++ {
			c.Ops = append(c.Ops, Op{Op: "C", N: 240, T: int64(k + 1)})
		}
		out = append(out, c)
	}
	// 9. a word-aligned gap that starts inside row 0 right after a release point and ends on a frame boundary
	{
		sp := streamSpec{ncols: 2, nrows: 3, nframes: 30, values: 2, flags: 1}
		s := makeStream(r, sp)
		pos, glen := 240+4, 20
		cut := append(append([]byte(nil), s[:pos]...), s[pos+glen:]...)
		c := Case{Ncols: 2, Nrows: 3, Nsamp: 1, Rate: 50, GapPos: pos, GapLen: glen, Kind: "corpus", Stream: hex.EncodeToString(cut)}
		c.Ops = []Op{{Op: "C", N: 240, T: 1}, {Op: "C", N: 240, T: 2}, {Op: "C", N: len(cut) - 480, T: 3}}
		out = append(out, c)
	}
	// 10. gap met at the start of a read with a partial frame carried over
	{
		sp := streamSpec{ncols: 3, nrows: 2, nframes: 30, values: 0, flags: 2}
		s := makeStream(r, sp)
		pos, glen := 10*24+12, 24+4
		cut := append(append([]byte(nil), s[:pos]...), s[pos+glen:]...)
		c := Case{Ncols: 3, Nrows: 2, Nsamp: 2, Rate: 1000, GapPos: pos, GapLen: glen, Kind: "corpus", Stream: hex.EncodeToString(cut)}
		c.Ops = []Op{{Op: "C", N: 10*24 + 8, T: 2}, {Op: "M", Ch: []int{1, 3}, Fr: []float64{0.5, 0.5}}, {Op: "C", N: 200, T: 4},
			{Op: "C", N: len(cut) - 448, T: 5}}
		out = append(out, c)
	}
	// 13. rows 1-2 of frame 6 are lost and frame 6 is the second frame of a read (2 columns x 4 rows): the geometry
	//     test fails, the read is given up, and the NEXT block must report the loss (droppedFrames > 0)
	{
		sp := streamSpec{ncols: 2, nrows: 4, nframes: 30, values: 2, flags: 1}
		s := makeStream(r, sp)
		pos, glen := 6*32+8, 16
		cut := append(append([]byte(nil), s[:pos]...), s[pos+glen:]...)
		c := Case{Ncols: 2, Nrows: 4, Nsamp: 1, Rate: 5, GapPos: pos, GapLen: glen, Kind: "corpus", Stream: hex.EncodeToString(cut)}
		c.Ops = []Op{{Op: "C", N: 5 * 32, T: 1}, {Op: "C", N: 13*32 - 16, T: 2}, {Op: "C", N: len(cut) - 5*32 - 13*32 + 16, T: 4}}
		out = append(out, c)
	}
	// 11. the consumer lags four reads behind the reader (reads of 9.5, 7.25, 5 and 4.5 frames wait on buffersChan
	//     before the first block is fetched), then three more, with a mix request in between
	{
		sp := streamSpec{ncols: 2, nrows: 2, nframes: 44, values: 0, flags: 2}
		s := makeStream(r, sp)
		c := Case{Ncols: 2, Nrows: 2, Nsamp: 2, Rate: 1000, GapPos: -1, Kind: "corpus", Stream: hex.EncodeToString(s)}
		c.Ops = []Op{{Op: "C", N: 152, T: 1, Q: true}, {Op: "C", N: 116, T: 2, Q: true}, {Op: "C", N: 80, T: 3, Q: true},
			{Op: "C", N: 72, T: 4, Q: true}, {Op: "M", Ch: []int{1, 5}, Fr: []float64{0.5, -2}},
			{Op: "C", N: 64, T: 5, Q: true}, {Op: "C", N: 100, T: 6, Q: true}, {Op: "C", N: 60, T: 7, Q: true}, {Op: "C", N: 60, T: 8}}
		out = append(out, c)
	}
	// 12. three runs on one source object: 2 columns x 4 rows (with a mix request), then 4 x 2 (the same 16
	//     channels, another channel order), then 1 x 3; the trigger flag is high when the first run stops
	{
		mk := func(nc, nr, nf, flags int, ops func(fs, n int) []Op) Case {
			sp := streamSpec{ncols: nc, nrows: nr, nframes: nf, values: 2, flags: flags}
			s := makeStream(r, sp)
			return Case{Ncols: nc, Nrows: nr, Nsamp: 2, Rate: 1000, GapPos: -1, Kind: "corpus", Stream: hex.EncodeToString(s),
				Ops: ops(4*nc*nr, len(s))}
		}
		a := mk(2, 4, 6, 3, func(fs, n int) []Op {
			return []Op{{Op: "M", Ch: []int{1, 9}, Fr: []float64{0.5, 3}}, {Op: "C", N: 4 * fs, T: 1}, {Op: "C", N: n - 4*fs, T: 2}}
		})
		b := mk(4, 2, 8, 2, func(fs, n int) []Op { return []Op{{Op: "C", N: 5*fs + 6, T: 3}, {Op: "C", N: n - 5*fs - 6, T: 4}} })
		c := mk(1, 3, 9, 1, func(fs, n int) []Op {
			return []Op{{Op: "C", N: 4 * fs, T: 5}, {Op: "M", Ch: []int{3}, Fr: []float64{-0.25}}, {Op: "C", N: n - 4*fs, T: 6}}
		})
		c.Before = []Case{a, b}
		out = append(out, c)
	}
	return out
}

func gen(seed uint64, tier string) []interface{} {
	r := lib.NewRng(seed)
	n := 140
	if tier == "thorough" {
		n = 5000
	}
	var out []interface{}
	id := int64(1)
	for _, c := range corpus(tier) {
		c.ID = id
		id++
		out = append(out, c)
	}
	for i := 0; i < n; i++ {
		rr := r.Fork()
		c := genCase(rr, id, tier)
		if rr.Chance(1, 5) && c.Kind != "malformed" {
			c = addBefore(rr, c)
		}
		out = append(out, c)
		id++
	}
	return out
}
