package main

import (
	"sort"

	"verifharness/lib"
	"verifharness/pipe"
)

// ---------- stream construction ----------

type builder struct {
	r     *lib.Rng
	v     []int // samples (not yet clipped)
	sign  int   // +1 rising edges (threshold >= 1), -1 falling
	marks []int // positions of interest (edges), in coordinates of v
}

func clip(x int) int {
	if x < 0 {
		return 0
	}
	if x > 65535 {
		return 65535
	}
	return x
}

func (b *builder) add(at, val int) {
	if at >= 0 && at < len(b.v) {
		b.v[at] += b.sign * val
	}
}

// pulse: rise over `rise` samples to amp, then linear decay over `decay` samples
func (b *builder) pulse(at, amp, rise, decay int) {
	b.marks = append(b.marks, at)
	for k := 0; k < rise; k++ {
		b.add(at+k, amp*(k+1)/rise)
	}
	for k := 0; k < decay; k++ {
		b.add(at+rise+k, amp*(decay-k)/decay)
	}
}

// ramp: slope per sample for L samples, then the level stays (plateau) for `hold` samples and drops back
func (b *builder) ramp(at, L, slope, hold int) {
	b.marks = append(b.marks, at, at+L)
	for k := 0; k < L+hold; k++ {
		h := k + 1
		if h > L {
			h = L
		}
		b.add(at+k, slope*h)
	}
}

func (b *builder) noise(amp int) {
	if amp <= 0 {
		return
	}
	for i := range b.v {
		b.v[i] += b.r.Range(-amp, amp)
	}
}

func (b *builder) done() []int {
	out := make([]int, len(b.v))
	for i, x := range b.v {
		out[i] = clip(x)
	}
	return out
}

func abs(x int) int {
	if x < 0 {
		return -x
	}
	return x
}

// ---------- partitions ----------

// cutsNear: block boundaries at -3..+3 around every mark, and around mark +- npre, nsamp, 2nsamp+10
func cutsNear(r *lib.Rng, n int, marks []int, npre, nsamp, want int) []int {
	cand := map[int]bool{}
	for _, m := range marks {
		for _, base := range []int{0, npre, -npre, nsamp, -nsamp, nsamp - npre, 2*nsamp + 10, -(2*nsamp + 10)} {
			for d := -3; d <= 3; d++ {
				c := m + base + d
				if c > 0 && c < n {
					cand[c] = true
				}
			}
		}
	}
	var cs []int
	for c := range cand {
		cs = append(cs, c)
	}
	sort.Ints(cs)
	// choose `want` of them
	for len(cs) > want {
		k := r.Intn(len(cs))
		cs = append(cs[:k], cs[k+1:]...)
	}
	var lens []int
	prev := 0
	for _, c := range cs {
		lens = append(lens, c-prev)
		prev = c
	}
	lens = append(lens, n-prev)
	return lens
}

func partition(r *lib.Rng, n int, marks []int, npre, nsamp int) []int {
	if n == 0 {
		return []int{0}
	}
	var lens []int
	switch r.Intn(6) {
	case 0, 1, 2:
		lens = cutsNear(r, n, marks, npre, nsamp, r.Range(1, 29))
	case 3:
		lens = cutsNear(r, n, marks, npre, nsamp, r.Range(1, 3))
	default:
		lens = pipe.Partition(r, n, npre, nsamp)
		for len(lens) > 30 { // merge the tail
			lens[len(lens)-2] += lens[len(lens)-1]
			lens = lens[:len(lens)-1]
		}
	}
	if r.Chance(1, 8) { // an empty block somewhere
		k := r.Intn(len(lens) + 1)
		lens = append(lens[:k], append([]int{0}, lens[k:]...)...)
	}
	return lens
}

// ---------- cases ----------

func genCase(r *lib.Rng, id int64, tier string) Case {
	c := Case{ID: id}
	c.ZT = r.Chance(3, 5)
	if c.ZT {
		c.Npre = r.Pick([]int{4, 4, 5, 6, 8, 10})
		c.Nsamp = c.Npre + r.Pick([]int{4, 4, 5, 6, 8, 10, 16})
	} else {
		c.Npre = r.Pick([]int{3, 3, 4, 6, 8})
		c.Nsamp = c.Npre + r.Pick([]int{1, 2, 3, 4, 6, 10})
	}
	la := c.Nsamp - c.Npre
	c.Mode = r.Intn(3)
	mag := r.Pick([]int{1, 5, 20, 100, 100, 300, 1000})
	if r.Chance(2, 5) {
		c.Thr = int32(-mag)
	} else {
		c.Thr = int32(mag)
	}
	if r.Chance(1, 25) {
		c.Thr = 0
	}
	c.Nmono = r.Pick([]int{1, 1, 1, 2, 2, 3, 4, la, 0})
	if c.Nmono > la {
		c.Nmono = la
	}
	c.Signed = r.Chance(1, 5)
	switch r.Intn(4) {
	case 0, 1:
		c.F0 = 0
	case 2:
		c.F0 = int64(r.Range(1, 2000))
	default:
		c.F0 = int64(r.Range(100000, 100000000))
	}
	sign := 1
	if c.Thr < 1 {
		sign = -1
	}
	base := r.Range(1000, 8000)
	if sign < 0 {
		base = r.Range(40000, 60000)
	}
	thr := abs(int(c.Thr))
	if thr == 0 {
		thr = 1
	}
	amp := func() int { a := thr * r.Range(1, 12); if a > 30000 { a = 30000 }; return a }

	// ---- pre phase
	kinds := []string{"isolated", "pileup", "pileup", "first", "first", "monotone", "plateau", "walk", "noise", "mixed", "mixed"}
	c.Kind = kinds[r.Intn(len(kinds))]
	npreLen := 0
	switch {
	case c.Kind == "first":
		npreLen = r.Range(0, 10)
	case r.Chance(1, 2):
		npreLen = 0
	case r.Chance(1, 2):
		npreLen = r.Range(1, 10)
	default:
		npreLen = r.Range(2*c.Nsamp, 6*c.Nsamp)
		c.PreMode = r.Intn(4)
		if r.Chance(1, 3) || c.PreMode == 3 {
			c.PreNpre = r.Pick([]int{4, 6, 9})
			c.PreNsamp = c.PreNpre + r.Pick([]int{4, 7, 12})
			if c.PreNpre == c.Npre && c.PreNsamp == c.Nsamp {
				c.PreNsamp++
			}
		}
	}
	n := r.Range(4*c.Nsamp, 12*c.Nsamp)
	if n > 360 {
		n = 360
	}
	if tier == "thorough" && r.Chance(1, 4) {
		n = r.Range(12*c.Nsamp, 40*c.Nsamp)
	}
	total := npreLen + n
	b := &builder{r: r, v: make([]int, total), sign: sign}
	for i := range b.v {
		b.v[i] = base
	}
	flatNoise := 0
	switch c.Kind {
	case "isolated":
		at := npreLen + r.Range(0, 2*c.Nsamp)
		for at < total {
			b.pulse(at, amp(), r.Range(1, 4), r.Range(2, 3*c.Nsamp))
			at += r.Range(2*c.Nsamp+8, 5*c.Nsamp)
		}
		flatNoise = r.Pick([]int{0, 0, thr / 8})
	case "pileup":
		at := r.Range(0, total/2)
		for at < total {
			k := r.Range(2, 4)
			for j := 0; j < k; j++ {
				b.pulse(at, amp(), r.Range(1, 3), r.Range(2, 2*c.Nsamp))
				at += r.Range(1, 2*c.Nsamp)
			}
			at += r.Range(c.Nsamp, 4*c.Nsamp)
		}
		flatNoise = r.Pick([]int{0, 0, thr / 8})
	case "first":
		// an edge on (or next to) the first searchable sample: index npre of the stream retained at configuration
		at := c.Npre + r.Pick([]int{0, 0, 0, 1, 2, -1})
		if r.Chance(1, 2) {
			b.ramp(at, r.Range(c.Nmono+2, c.Nmono+2+2*c.Nsamp), thr+r.Range(0, thr), r.Range(0, c.Nsamp))
		} else {
			b.pulse(at, amp(), r.Range(1, 4), r.Range(2, 2*c.Nsamp))
		}
		if r.Chance(1, 2) {
			b.pulse(at+r.Range(2, 3*c.Nsamp), amp(), r.Range(1, 3), r.Range(2, c.Nsamp))
		}
	case "monotone":
		at := r.Range(0, 2*c.Nsamp)
		for at < total {
			L := r.Range(la, 4*c.Nsamp)
			b.ramp(at, L, thr+r.Range(0, 2*thr), r.Range(0, 2*c.Nsamp))
			at += L + r.Range(1, 3*c.Nsamp)
		}
	case "plateau":
		at := r.Range(0, 2*c.Nsamp)
		for at < total {
			L := r.Range(1, 3)
			b.ramp(at, L, amp(), r.Range(c.Nsamp/2, 3*c.Nsamp))
			at += r.Range(1, 3*c.Nsamp)
		}
	case "walk":
		v := 0
		for i := range b.v {
			v += r.Range(-2*thr, 2*thr)
			b.v[i] += v
			if r.Chance(1, 10) {
				b.marks = append(b.marks, i)
			}
		}
	case "noise":
		for i := range b.v {
			b.v[i] += r.Range(-thr, thr)
			if r.Chance(1, 12) {
				b.marks = append(b.marks, i)
			}
		}
	default: // mixed
		at := r.Range(0, c.Nsamp)
		for at < total {
			switch r.Intn(4) {
			case 0:
				b.pulse(at, amp(), r.Range(1, 4), r.Range(2, 3*c.Nsamp))
			case 1:
				b.ramp(at, r.Range(2, 3*c.Nsamp), thr+r.Range(0, thr), r.Range(0, c.Nsamp))
			case 2:
				b.pulse(at, amp(), 1, r.Range(1, 3))
			default:
				b.ramp(at, 1, amp(), r.Range(1, 2*c.Nsamp))
			}
			at += r.Range(1, 3*c.Nsamp)
		}
		flatNoise = r.Pick([]int{0, thr / 8, thr / 2})
	}
	b.noise(flatNoise)
	all := b.done()
	c.Pre = all[:npreLen]
	c.Data = all[npreLen:]
	if npreLen > 0 {
		c.PreCut = pipe.Partition(r, npreLen, c.Npre, c.Nsamp)
		if len(c.PreCut) > 12 {
			c.PreCut = []int{npreLen}
		}
	}
	var marks []int
	for _, m := range b.marks {
		marks = append(marks, m-npreLen)
	}
	c.Ops = partition(r, len(c.Data), marks, c.Npre, c.Nsamp)
	if r.Chance(1, 4) {
		setAlso(r, &c)
	}
	return c
}

// setAlso: the trigger state also has some of EdgeTrigger / LevelTrigger / AutoTrigger on, with a level the stream crosses
func setAlso(r *lib.Rng, c *Case) {
	c.Also = r.Range(1, 7)
	lo, hi := 65535, 0
	for _, v := range c.Data {
		if v < lo {
			lo = v
		}
		if v > hi {
			hi = v
		}
	}
	if hi < lo {
		lo, hi = 1000, 1000
	}
	c.AlsoLevel = (lo + hi) / 2
	if c.Signed {
		c.AlsoLevel = (c.AlsoLevel + 32768) & 0xffff // levelTriggerComputeAppend shifts signed data and level by 2^15
	}
}

// genStorm: 140-400 short clean pulses, small record lengths: more than 128 records out of ONE block
func genStorm(r *lib.Rng, id int64, tier string) Case {
	c := Case{ID: id, Kind: "storm"}
	c.Npre = r.Pick([]int{3, 3, 4})
	c.Nsamp = c.Npre + r.Pick([]int{4, 5, 5})
	c.ZT = c.Npre >= 4 && r.Chance(1, 3)
	c.Mode = r.Intn(3)
	c.Thr = int32(r.Pick([]int{20, 50, -20, -50}))
	c.Nmono = r.Pick([]int{1, 2})
	if r.Chance(1, 3) {
		c.F0 = int64(r.Range(1, 100000))
	}
	sign := 1
	base := 2000
	if c.Thr < 1 {
		sign, base = -1, 50000
	}
	npulse := r.Range(140, 260)
	if tier == "thorough" {
		npulse = r.Range(140, 400)
	}
	b := &builder{r: r, sign: sign}
	at := c.Npre + r.Range(0, 5)
	var ats []int
	for k := 0; k < npulse; k++ {
		ats = append(ats, at)
		at += r.Pick([]int{c.Nsamp + 1, c.Nsamp + 2, c.Nsamp + 5, c.Nsamp + 5, 2 * c.Nsamp, c.Nsamp - 2})
	}
	n := at + 3*c.Nsamp
	b.v = make([]int, n)
	for i := range b.v {
		b.v[i] = base
	}
	for _, a := range ats {
		b.pulse(a, 400+r.Range(0, 400), 2, 3)
	}
	c.Data = b.done()
	// B: blocks of a few hundred samples (every block well below 128 edges), or cuts near the pulses
	if r.Chance(1, 2) {
		for left := n; left > 0; {
			k := r.Range(150, 600)
			if k > left {
				k = left
			}
			c.Ops = append(c.Ops, k)
			left -= k
		}
	} else {
		c.Ops = cutsNear(r, n, ats, c.Npre, c.Nsamp, r.Range(4, 29))
	}
	if r.Chance(1, 4) {
		setAlso(r, &c)
	}
	return c
}

// genFirstMin: the minima the validity rule allows (refinement on: npre = 4, nsamp-npre = 4; off: npre = 3,
// nsamp-npre = 1; nmonotone = nsamp-npre) with a QUALIFYING edge exactly on (or one beside) the first searchable
// sample = index npre of the stream the channel retains when edge-multi is (re)configured: a new stream, a few
// retained samples, or a long pre phase followed by ConfigureTrigger (triggers off before / edge-multi on with the
// same / other parameters) or by ConfigurePulseLengths alone.
func genFirstMin(r *lib.Rng, id int64) Case {
	c := Case{ID: id, Kind: "firstmin"}
	c.ZT = r.Chance(3, 4)
	la := 0
	if c.ZT {
		c.Npre = r.Pick([]int{4, 4, 5})
		la = r.Pick([]int{4, 4, 5, 8})
	} else {
		c.Npre = r.Pick([]int{3, 3, 4})
		la = r.Pick([]int{1, 1, 2, 4})
	}
	c.Nsamp = c.Npre + la
	c.Nmono = la
	if r.Chance(1, 3) {
		c.Nmono = r.Range(1, la)
	}
	c.Mode = r.Intn(3)
	c.Thr = int32(r.Pick([]int{20, 100, 300, -20, -100, -300}))
	c.Signed = r.Chance(1, 5)
	c.F0 = int64(r.Pick([]int{0, 0, 7, 1234, 5000000}))
	sign, base := 1, r.Range(1000, 8000)
	if c.Thr < 1 {
		sign, base = -1, r.Range(40000, 60000)
	}
	thr := abs(int(c.Thr))
	// what is retained at the reconfiguration
	npreLen, nsamp0 := 0, c.Nsamp
	switch r.Intn(5) {
	case 0:
	case 1:
		npreLen = r.Range(1, 10)
	case 2:
		npreLen = -1
	case 3:
		npreLen = -1
		c.PreMode = r.Range(1, 2)
	default:
		npreLen = -1
		c.PreMode = 3
		c.PreNpre = r.Pick([]int{5, 6, 9})
		c.PreNsamp = c.PreNpre + 12
		nsamp0 = c.PreNsamp
	}
	k0 := 2*nsamp0 + 10
	if npreLen < 0 {
		npreLen = k0 + r.Range(-6, 40)
	}
	retained := npreLen
	if retained > k0 {
		retained = k0
	}
	at := npreLen - retained + c.Npre + r.Pick([]int{0, 0, 0, 0, 0, 1, -1})
	n := r.Range(3*c.Nsamp, 8*c.Nsamp)
	if at+la+8 > npreLen+n {
		n = at + la + 8 - npreLen + c.Nsamp
	}
	b := &builder{r: r, v: make([]int, npreLen+n), sign: sign}
	for i := range b.v {
		b.v[i] = base
	}
	if c.PreMode != 0 && at > 3*nsamp0 { // something for the pre phase to find and leave in its search state
		b.pulse(r.Range(nsamp0, at-2*nsamp0), thr*4, 2, r.Range(2, nsamp0))
	}
	if r.Chance(2, 3) {
		b.ramp(at, la+r.Range(2, 6), thr+r.Range(0, thr), r.Range(0, c.Nsamp))
	} else {
		b.pulse(at, thr*(la+2)+r.Range(0, thr), la+2, r.Range(2, 2*c.Nsamp))
	}
	if r.Chance(1, 2) {
		b.pulse(at+r.Range(la+3, 3*c.Nsamp), thr*r.Range(2, 6), r.Range(1, 2), r.Range(2, c.Nsamp))
	}
	all := b.done()
	c.Pre, c.Data = all[:npreLen], all[npreLen:]
	if npreLen > 0 {
		c.PreCut = []int{npreLen}
		if npreLen > 20 && r.Chance(1, 2) {
			k := r.Range(1, npreLen-1)
			c.PreCut = []int{k, npreLen - k}
		}
	}
	var marks []int
	for _, m := range b.marks {
		marks = append(marks, m-npreLen)
	}
	c.Ops = partition(r, len(c.Data), marks, c.Npre, c.Nsamp)
	return c
}

// malformed: configurations EMTState.valid refuses, zero-length deliveries
func genMalformed(r *lib.Rng, id int64) Case {
	c := genCase(r, id, "quick")
	c.Kind = "malformed"
	switch r.Intn(3) {
	case 0:
		c.ZT = true
		c.Npre = 3
		c.Nsamp = 3 + r.Range(4, 8)
	case 1:
		c.Nmono = c.Nsamp - c.Npre + r.Range(1, 3)
		if !r.Chance(1, 3) {
			// a refused nmonotone that would, if it were accepted, count monotone samples past the end of the
			// block: a ramp that starts on the last searchable sample and rises to the block's end (seed C01-17)
			la := c.Nsamp - c.Npre
			n := 3*c.Nsamp + r.Range(0, 20)
			c.Thr = 100
			c.Pre, c.PreCut = nil, nil
			c.Data = flatRamp(n, n-la-r.Range(0, 1), 150, la+5, 1000)
			c.Ops = []int{n}
			if r.Bool() {
				c.Data = append(c.Data, flatRamp(n, n-la, 150, la+5, 1000)...)
				c.Ops = []int{n, n}
			}
		}
	default:
		c.Data = nil
		c.Ops = []int{0}
	}
	return c
}

func flatRamp(n, flat, slope, L, base int) []int {
	d := make([]int, n)
	for i := range d {
		d[i] = base
		if i >= flat {
			h := i - flat + 1
			if h > L {
				h = L
			}
			d[i] = base + slope*h
		}
	}
	return d
}

func p2() []int {
	return []int{0, 0, 0, 0, 0, 0, 0, 0, 10, 20, 0, 10, 20, 0, 0, 0, 0, 0, 0, 0, 0, 0, 0, 0, 0, 0, 0, 0, 0, 0, 0, 0}
}

func corpus() []Case {
	var cs []Case
	// the known defect: refinement on, ramp starting at stream index npre of the first block after configuration
	w := flatRamp(80, 6, 150, 8, 1000)
	cs = append(cs, Case{Npre: 6, Nsamp: 16, Thr: 100, Nmono: 1, Mode: 2, ZT: true, Data: w, Ops: []int{30, 50}, Kind: "corpus"})
	cs = append(cs, Case{Npre: 6, Nsamp: 16, Thr: 100, Nmono: 1, Mode: 0, ZT: true, Data: w, Ops: []int{80}, Kind: "corpus"})
	// same edge, but three samples are already retained when edge-multi is configured
	cs = append(cs, Case{Npre: 6, Nsamp: 16, Thr: 100, Nmono: 1, Mode: 1, ZT: true, Pre: w[:3], PreCut: []int{3}, Data: w[3:], Ops: []int{2, 20, 55}, Kind: "corpus"})
	// falling ramp on the first searchable sample, negative threshold
	f := flatRamp(70, 4, -200, 6, 50000)
	cs = append(cs, Case{Npre: 4, Nsamp: 8, Thr: -100, Nmono: 2, Mode: 1, ZT: true, F0: 123456, Data: f, Ops: []int{9, 9, 9, 43}, Kind: "corpus"})
	// reconfiguration with leftover state: same ramp shape right after the retained stream's look-back limit
	long := append(flatRamp(120, 40, 150, 5, 1000), flatRamp(90, 0, 0, 0, 1750)...)
	cs = append(cs, Case{Npre: 6, Nsamp: 16, Thr: 100, Nmono: 1, Mode: 0, ZT: true, PreMode: 1, Pre: long[:120], PreCut: []int{50, 70}, Data: long[120:], Ops: []int{45, 45}, Kind: "corpus"})
	// edge-multi stays on across ConfigurePulseLengths: the pulse found last with the old lengths must be forgotten
	cs = append(cs, Case{Npre: 6, Nsamp: 16, Thr: 100, Nmono: 1, Mode: 0, ZT: true, PreMode: 3, PreNpre: 4, PreNsamp: 8, Pre: long[:120], PreCut: []int{50, 70}, Data: long[120:], Ops: []int{45, 45}, Kind: "corpus"})
	pl := append(flatRamp(60, 30, 300, 3, 1000), flatRamp(60, 50, 300, 3, 1900)...)
	cs = append(cs, Case{Npre: 4, Nsamp: 10, Thr: 100, Nmono: 1, Mode: 1, PreMode: 3, PreNpre: 6, PreNsamp: 13, Pre: pl[:60], PreCut: []int{60}, Data: append(pl[60:], flatRamp(40, 10, 300, 3, 2800)...), Ops: []int{20, 20, 60}, Kind: "corpus"})
	// a REFUSED configuration must not take effect: npre = 3 with the kink model on is invalid; before fix 9760bde
	// ConfigureTrigger installed it anyway and the next block indexed raw[-1] in zeroThreshold
	dip := flatRamp(36, 3, -7, 1, 41297) // falling edge on index npre = 3: the kink model reads raw[-1]
	for i := 7; i < len(dip); i++ {
		dip[i] = 41297
	}
	cs = append(cs, Case{Npre: 3, Nsamp: 10, Thr: -1, Nmono: 1, Mode: 2, ZT: true, PreMode: 1, Pre: dip, PreCut: []int{36}, Data: dip, Ops: []int{36}, Kind: "corpus"})
	// edge-multi is exclusive of the other trigger types: edge + level + auto also on (levels that would fire)
	cs = append(cs, Case{Npre: 4, Nsamp: 10, Thr: 100, Nmono: 1, Mode: 1, Also: 7, AlsoLevel: 1500, Data: append(pl[60:], flatRamp(40, 10, 300, 3, 2800)...), Ops: []int{33, 33, 34}, Kind: "corpus"})
	cs = append(cs, Case{Npre: 6, Nsamp: 16, Thr: 100, Nmono: 1, Mode: 0, ZT: true, Also: 5, AlsoLevel: 1500, Data: w, Ops: []int{40, 40}, Kind: "corpus"})
	cs = append(cs, Case{Npre: 3, Nsamp: 6, Thr: 1, Nmono: 1, Mode: 2, Also: 3, AlsoLevel: 5, Data: p2(), Ops: []int{10, 22}, Kind: "corpus"})
	// minima of the validity rule (npre 4, nsamp-npre 4, nmonotone 4), qualifying ramp exactly on the first
	// searchable sample: new stream; 3 retained samples; after ConfigureTrigger with edge-multi already on;
	// after ConfigureTrigger from triggers off; after ConfigurePulseLengths alone; falling
	m := flatRamp(70, 4, 150, 7, 1000)
	cs = append(cs, Case{Npre: 4, Nsamp: 8, Thr: 100, Nmono: 4, Mode: 0, ZT: true, Data: m, Ops: []int{30, 40}, Kind: "corpus"})
	cs = append(cs, Case{Npre: 4, Nsamp: 8, Thr: 100, Nmono: 4, Mode: 1, ZT: true, Pre: m[:3], PreCut: []int{3}, Data: m[3:], Ops: []int{6, 61}, Kind: "corpus"})
	lm := append(flatRamp(44, 44, 0, 0, 1000), m...) // retained at reconfiguration: the last 26 of 66 samples -> index 40 + 4
	cs = append(cs, Case{Npre: 4, Nsamp: 8, Thr: 100, Nmono: 4, Mode: 2, ZT: true, PreMode: 1, Pre: lm[:66], PreCut: []int{20, 46}, Data: lm[66:], Ops: []int{24, 24}, Kind: "corpus"})
	cs = append(cs, Case{Npre: 4, Nsamp: 8, Thr: 100, Nmono: 4, Mode: 0, ZT: true, PreMode: 0, Pre: lm[:66], PreCut: []int{66}, Data: lm[66:], Ops: []int{48}, Kind: "corpus"})
	lm3 := append(flatRamp(56, 56, 0, 0, 1000), m...) // pre lengths 6/18: 46 retained of 86 -> index 40 + 4... see below
	cs = append(cs, Case{Npre: 4, Nsamp: 8, Thr: 100, Nmono: 4, Mode: 0, ZT: true, PreMode: 3, PreNpre: 6, PreNsamp: 18, Pre: lm3[:102], PreCut: []int{60, 42}, Data: lm3[102:], Ops: []int{24}, Kind: "corpus"})
	fm := flatRamp(70, 4, -150, 7, 50000)
	cs = append(cs, Case{Npre: 4, Nsamp: 8, Thr: -100, Nmono: 4, Mode: 1, ZT: true, F0: 999, Data: fm, Ops: []int{5, 65}, Kind: "corpus"})
	cs = append(cs, Case{Npre: 3, Nsamp: 4, Thr: 100, Nmono: 1, Mode: 0, Data: flatRamp(40, 3, 150, 3, 1000), Ops: []int{4, 36}, Kind: "corpus"})
	// the repository's own examples, scaled to legal lengths: two pulses 3 apart, all three modes, cut between them
	p := []int{0, 0, 0, 0, 0, 0, 0, 0, 10, 20, 0, 10, 20, 0, 0, 0, 0, 0, 0, 0, 0, 0, 0, 0, 0, 0, 0, 0, 0, 0, 0, 0}
	for mode := 0; mode < 3; mode++ {
		cs = append(cs, Case{Npre: 3, Nsamp: 6, Thr: 1, Nmono: 1, Mode: mode, Data: p, Ops: []int{10, 22}, Kind: "corpus"})
		cs = append(cs, Case{Npre: 3, Nsamp: 6, Thr: 1, Nmono: 1, Mode: mode, Data: p, Ops: []int{12, 1, 1, 1, 17}, Kind: "corpus"})
	}
	// staircase: an edge every other sample (lots of overlapping records)
	st := make([]int, 60)
	for i := range st {
		st[i] = 100 + i/2
	}
	cs = append(cs, Case{Npre: 3, Nsamp: 6, Thr: 1, Nmono: 1, Mode: 0, Data: st, Ops: []int{7, 7, 7, 7, 7, 7, 7, 11}, Kind: "corpus"})
	cs = append(cs, Case{Npre: 4, Nsamp: 8, Thr: 1, Nmono: 1, Mode: 1, ZT: true, Data: st, Ops: []int{20, 20, 20}, Kind: "corpus"})
	return cs
}

func gen(seed uint64, tier string) []interface{} {
	r := lib.NewRng(seed)
	n := 330
	if tier == "thorough" {
		n = 2500
	}
	var out []interface{}
	id := int64(1)
	for _, c := range corpus() {
		c.ID = id
		id++
		out = append(out, c)
	}
	nmin := 30
	if tier == "thorough" {
		nmin = 300
	}
	for i := 0; i < nmin; i++ {
		out = append(out, genFirstMin(r.Fork(), id))
		id++
	}
	nstorm := 3
	if tier == "thorough" {
		nstorm = 40
	}
	for i := 0; i < nstorm; i++ {
		out = append(out, genStorm(r.Fork(), id, tier))
		id++
	}
	for i := 0; i < n; i++ {
		if i%25 == 24 {
			out = append(out, genMalformed(r.Fork(), id))
		} else {
			out = append(out, genCase(r.Fork(), id, tier))
		}
		id++
	}
	return out
}
