// C08 harness: edge-multi triggering through the real ProcessSegments (one channel), the same samples delivered
// once as a single block (A) and once cut into blocks (B).
//
// One case = configuration + "pre" samples delivered before edge-multi is configured (with triggers off, or with
// edge-multi already on so that search state is left over) + the samples X delivered afterwards + block lengths.
// Observed: the stream the channel retained at configuration time (input of the model), the kink-refinement
// oracle table (the real zeroThreshold on every 8-sample window of the ground truth), and the records of every
// ProcessSegments cycle of both deliveries.  A Go panic inside the worker goroutine kills the process: cases run
// in child processes (lib.Harness.Isolate) and the Crash handler re-runs the parts of the case one by one
// (subcommand `probe`) to find out which delivery died.
package main

import (
	"encoding/json"
	"fmt"
	"os"
	"os/exec"
	"sort"
	"strings"
	"time"

	"github.com/usnistgov/dastard"
	"verifharness/lib"
	"verifharness/pipe"
)

const (
	sampleRate = 10000.0
	periodNs   = int64(100000)
	timeBase   = int64(1000000000)
)

type Case struct {
	ID     int64 `json:"id"`
	Npre   int   `json:"npre"`
	Nsamp  int   `json:"nsamp"`
	Thr    int32 `json:"thr"`
	Nmono  int   `json:"nmono"`
	Mode   int   `json:"mode"`
	ZT     bool  `json:"zt"`
	Signed bool  `json:"signed"`
	F0     int64 `json:"f0"` // frame number of the first sample ever delivered
	// before the (re)configuration under test
	// 0 triggers off; 1 edge-multi on with the same parameters; 2 edge-multi on, other parameters;
	// 3 edge-multi on with the same parameters but other record lengths, and the reconfiguration under test is
	//   ConfigurePulseLengths alone (edge-multi stays on, its search state must be reset)
	PreMode  int   `json:"premode"`
	PreNpre  int   `json:"prenpre"` // record lengths during the pre phase (0: same as Npre/Nsamp)
	PreNsamp int   `json:"prensamp"`
	Pre      []int `json:"pre"`
	PreCut   []int `json:"precut"`
	// after it
	Data []int  `json:"data"`
	Ops  []int  `json:"ops"` // block lengths of delivery B; the delivered stream is Data[:sum(Ops)]
	Kind string `json:"kind"`
	// other trigger types ALSO switched on in the same trigger state (bit 0 edge, bit 1 level, bit 2 auto):
	// edge-multi is exclusive of them, so they must have no effect
	Also      int `json:"also"`
	AlsoLevel int `json:"alsolevel"` // LevelLevel for bit 1 (a value the stream crosses)
}

type rec struct {
	Frame  int64    `json:"frame"`
	TimeNs int64    `json:"time"`
	Pre    int      `json:"pre"`
	Data   []uint16 `json:"data"`
	Signed bool     `json:"signed"`
}

// what one part of a case produced
type part struct {
	Rejected bool     `json:"rejected"` // the configuration was refused (EMTState.valid)
	St0      []uint16 `json:"st0"`
	St0First int64    `json:"st0first"`
	St0Per   int64    `json:"st0period"`
	Blocks   [][]rec  `json:"blocks"`
	Err      string   `json:"err"`
}

// withOthers switches the other trigger types on in ts, with settings that fire on the case's stream.
func (c *Case) withOthers(ts dastard.TriggerState) dastard.TriggerState {
	if c.Also&1 != 0 {
		ts.EdgeTrigger = true
		ts.EdgeRising = c.Thr >= 1
		ts.EdgeFalling = c.Thr < 1
		lv := c.Thr
		if lv < 0 {
			lv = -lv
		}
		if lv < 1 {
			lv = 1
		}
		ts.EdgeLevel = lv
	}
	if c.Also&2 != 0 {
		ts.LevelTrigger = true
		ts.LevelRising = c.Thr >= 1
		ts.LevelLevel = dastard.RawType(c.AlsoLevel)
	}
	if c.Also&4 != 0 {
		ts.AutoTrigger = true
		ts.AutoDelay = time.Duration(2*c.Nsamp) * time.Duration(periodNs)
	}
	return ts
}

func u16(xs []int) []uint16 {
	out := make([]uint16, len(xs))
	for i, v := range xs {
		out[i] = uint16(v)
	}
	return out
}

func clipLens(lens []int, n int) []int {
	var out []int
	for _, k := range lens {
		if k < 0 {
			k = 0
		}
		if k > n {
			k = n
		}
		out = append(out, k)
		n -= k
	}
	return out
}

func sum(xs []int) int {
	s := 0
	for _, x := range xs {
		s += x
	}
	return s
}

// delivered returns X = Data[:min(len, sum(Ops))] and the clipped block lengths of delivery B.
func (c *Case) delivered() ([]uint16, []int) {
	n := sum(c.Ops)
	if n > len(c.Data) {
		n = len(c.Data)
	}
	return u16(c.Data[:n]), clipLens(c.Ops, n)
}

// runPart builds a fresh bench, plays the pre phase, (re)configures edge-multi and delivers X in blocks of the
// given lengths (what = "pre": stops after the configuration).
func runPart(c *Case, what string) part {
	var p part
	npre0, nsamp0 := c.PreNpre, c.PreNsamp
	if npre0 == 0 || nsamp0 == 0 {
		npre0, nsamp0 = c.Npre, c.Nsamp
	}
	b, err := dastard.VerifNewBench(1, npre0, nsamp0, sampleRate, nil)
	if err != nil {
		panic(err)
	}
	defer b.Close()
	dsp := b.VerifDsp(0)
	if dsp.VerifDecimating() {
		panic("decimation is on")
	}
	ch := []int{0}
	frame := c.F0
	deliver := func(d []uint16) dastard.VerifBlockResult {
		r := b.Block([][]uint16{d}, []bool{c.Signed}, frame, timeBase+frame*periodNs, periodNs, nil, 0)
		frame += int64(len(d))
		return r
	}
	// ---- pre phase
	emtStaysOn := false
	if c.PreMode != 0 {
		thr, nm, mode, zt := c.Thr, c.Nmono, c.Mode, c.ZT
		if c.PreMode == 2 {
			thr, nm, mode = -c.Thr/2-1, 1, (c.Mode+1)%3
		}
		ts, err := dastard.VerifEMTTriggerState(thr, nm, mode, zt)
		ts = c.withOthers(ts)
		if err == nil {
			err = b.Source().ChangeTriggerState(&dastard.FullTriggerState{ChannelIndices: ch, TriggerState: ts})
			emtStaysOn = err == nil && c.PreMode == 3 && (npre0 != c.Npre || nsamp0 != c.Nsamp)
		}
	}
	pre := u16(c.Pre)
	for _, k := range clipLens(c.PreCut, len(pre)) {
		deliver(pre[:k])
		pre = pre[k:]
	}
	if len(pre) > 0 {
		deliver(pre)
	}
	// ---- the (re)configuration under test
	if npre0 != c.Npre || nsamp0 != c.Nsamp {
		if err := b.Source().ConfigurePulseLengths(c.Nsamp, c.Npre); err != nil {
			p.Rejected = true
			p.Err = err.Error()
		}
	}
	ts, err := dastard.VerifEMTTriggerState(c.Thr, c.Nmono, c.Mode, c.ZT)
	ts = c.withOthers(ts)
	if emtStaysOn {
		// ConfigurePulseLengths alone was the reconfiguration
	} else if err != nil {
		p.Rejected = true
		p.Err = err.Error()
	} else if err := b.Source().ChangeTriggerState(&dastard.FullTriggerState{ChannelIndices: ch, TriggerState: ts}); err != nil {
		p.Rejected = true
		p.Err = err.Error()
	}
	p.St0 = dsp.VerifStreamData()
	_, _, _, per := dsp.VerifStreamInfo()
	p.St0Per = per
	p.St0First = frame - int64(len(p.St0))
	if what == "pre" || p.Rejected {
		return p
	}
	x, lensB := c.delivered()
	lens := lensB
	if what == "A" {
		lens = []int{len(x)}
	}
	for _, k := range lens {
		r := deliver(x[:k])
		x = x[k:]
		if r.Err != "" {
			p.Err = r.Err
		}
		blk := []rec{}
		for _, v := range r.Records[0] {
			blk = append(blk, rec{v.Frame, v.TimeNs, v.Pre, v.Data, v.Signed})
		}
		p.Blocks = append(p.Blocks, blk)
	}
	return p
}

// safeZeroThreshold calls the real zeroThreshold on g at index i (4 <= i, i+3 < len(g): everything the code is
// entitled to read is there). A panic in it (it runs in this goroutine) is caught: the table entry is then
// "no shift", and the crash of the real pipeline on the same data is what the case reports.
func safeZeroThreshold(g []uint16, i int) (v int, ok bool) {
	defer func() {
		if e := recover(); e != nil {
			v, ok = i, false
		}
	}()
	return dastard.VerifZeroThreshold(g, i), true
}

func outcomeTerm(p *part, crashed bool) string {
	if crashed {
		return "OCrash"
	}
	var blocks []string
	for _, blk := range p.Blocks {
		var rs []string
		for _, r := range blk {
			rs = append(rs, pipe.RecTerm(r.Frame, r.TimeNs, r.Pre, r.Data, r.Signed))
		}
		blocks = append(blocks, lib.List(rs))
	}
	return "(ORecs " + lib.List(blocks) + ")"
}

type observed struct {
	St0First int64   `json:"st0first"`
	St0Len   int     `json:"st0len"`
	A        [][]rec `json:"a"`
	B        [][]rec `json:"b"`
	CrashA   bool    `json:"crash_a,omitempty"`
	CrashB   bool    `json:"crash_b,omitempty"`
	Rejected bool    `json:"rejected,omitempty"`
	Note     string  `json:"note,omitempty"`
}

// render builds the Coq term and the evidence tags from the parts (pre may be nil when even the pre phase died).
func render(c *Case, pre, pa, pb *part, crashA, crashB bool) lib.Result {
	hc := *c
	hc.ID = 0
	hc.Kind = ""
	res := lib.Result{ID: c.ID, Hash: lib.Hash(hc)}
	tags := map[string]bool{}
	tags[fmt.Sprintf("mode-%d", c.Mode)] = true
	tags["kind-"+c.Kind] = true
	if c.ZT {
		tags["refinement-on"] = true
	}
	if c.Thr < 1 {
		tags["threshold-negative"] = true
	}
	if c.PreMode != 0 {
		tags["reconfigured-with-leftover-state"] = true
	}
	if c.PreMode == 3 {
		tags["reconfigured-by-pulse-lengths-only"] = true
	}
	if c.Signed {
		tags["signed"] = true
	}
	if c.Also != 0 {
		tags["other-trigger-types-also-on"] = true
	}
	x, lensB := c.delivered()
	var st0 []uint16
	st0First := c.F0 + int64(len(c.Pre))
	st0Per := periodNs
	rejected := false
	if pre != nil {
		st0, st0First, st0Per, rejected = pre.St0, pre.St0First, pre.St0Per, pre.Rejected
	} else {
		tags["crash-in-pre-phase"] = true
	}
	if rejected {
		tags["configuration-rejected"] = true
		x, lensB, st0 = nil, nil, nil // nothing is delivered to a refused configuration: a vacuous case, tagged
		pa, pb = &part{Blocks: [][]rec{{}}}, &part{}
		crashA, crashB = false, false
	}
	if crashA || crashB {
		tags["crash"] = true
	}
	// oracle table over the ground truth
	g := append(append([]uint16{}, st0...), x...)
	var tab []int64
	if c.ZT {
		for j := 0; j+8 <= len(g); j++ {
			v, ok := safeZeroThreshold(g, j+4)
			if !ok {
				tags["oracle-call-panicked"] = true // the real zeroThreshold indexed outside the window it is given
				v = j + 4
			}
			tab = append(tab, int64(v-(j+4)))
		}
	}
	lens64 := make([]int64, len(lensB))
	for i, k := range lensB {
		lens64[i] = int64(k)
	}
	firstDelivered := st0First + int64(len(st0))
	res.Term = fmt.Sprintf("mk (mkcfg %d %s %s %d %d %s) %d (mkst %s %s %s %s) %s %s %s %s %s %s %s %s",
		c.Mode, lib.Z(int64(c.Thr)), lib.Z(int64(c.Nmono)), c.Npre, c.Nsamp, lib.B(c.ZT), c.Also,
		lib.Z(st0First), lib.Z(st0Per), lib.B(c.Signed), lib.ZListU16(st0),
		lib.ZList64(tab), lib.Z(timeBase+firstDelivered*periodNs), lib.Z(periodNs), lib.B(c.Signed), lib.ZListU16(x),
		outcomeTerm(pa, crashA), lib.ZList64(lens64), outcomeTerm(pb, crashB))
	ob := observed{St0First: st0First, St0Len: len(st0), CrashA: crashA, CrashB: crashB, Rejected: rejected}
	if pa != nil {
		ob.A = pa.Blocks
	}
	if pb != nil {
		ob.B = pb.Blocks
	}
	res.Impl = ob
	// ---- evidence tags and the non-triviality rule
	var frames []int64
	nrec := 0
	if pa != nil {
		for _, blk := range pa.Blocks {
			for _, r := range blk {
				frames = append(frames, r.Frame)
				nrec++
				if len(r.Data) < c.Nsamp {
					tags["short-record"] = true
				}
				if r.Frame-st0First == int64(c.Npre) {
					tags["edge-on-first-searchable-sample"] = true
				}
			}
		}
	}
	for i := 1; i < len(frames); i++ {
		if frames[i]-frames[i-1] < int64(c.Nsamp) {
			tags["pile-up"] = true
		}
	}
	if nrec > 128 && len(lensB) >= 2 {
		tags["records-129+-in-one-block"] = true
	}
	switch {
	case nrec == 0:
		tags["records-0"] = true
	case nrec <= 3:
		tags["records-1-3"] = true
	default:
		tags["records-4+"] = true
	}
	nonEmpty := 0
	near := false
	pos := firstDelivered
	for i, k := range lensB {
		if k > 0 {
			nonEmpty++
		}
		pos += int64(k)
		if i == len(lensB)-1 {
			break
		}
		for _, f := range frames {
			d := pos - f
			if d < 0 {
				d = -d
			}
			if d <= int64(2*c.Nsamp+10) {
				near = true
			}
		}
	}
	if nonEmpty >= 2 {
		tags["blocks-2+"] = true
	}
	if nonEmpty >= 10 {
		tags["blocks-10+"] = true
	}
	res.NonTrivial = nrec >= 1 && nonEmpty >= 2 && near
	for t := range tags {
		res.Tags = append(res.Tags, t)
	}
	sort.Strings(res.Tags)
	return res
}

func runCase(c *Case) lib.Result {
	pa := runPart(c, "A")
	pb := runPart(c, "B")
	if len(pa.St0) != len(pb.St0) || pa.St0First != pb.St0First {
		panic("the two deliveries did not start from the same retained stream")
	}
	for i := range pa.St0 {
		if pa.St0[i] != pb.St0[i] {
			panic("the two deliveries did not start from the same retained stream")
		}
	}
	return render(c, &pa, &pa, &pb, false, false)
}

// probe runs one part in a child process; ok=false when the child died.
func probe(c *Case, what string) (part, bool) {
	raw, _ := json.Marshal(c)
	cmd := exec.Command(os.Args[0], "probe", what)
	cmd.Stdin = strings.NewReader(string(raw))
	out, err := cmd.Output()
	var p part
	if err != nil {
		return p, false
	}
	if json.Unmarshal(out, &p) != nil {
		return p, false
	}
	return p, true
}

func crash(raw json.RawMessage, stderr string) (lib.Result, error) {
	var c Case
	if err := json.Unmarshal(raw, &c); err != nil {
		return lib.Result{}, err
	}
	pre, okPre := probe(&c, "pre")
	if !okPre {
		r := render(&c, nil, nil, nil, true, true)
		return r, nil
	}
	pa, okA := probe(&c, "A")
	pb, okB := probe(&c, "B")
	r := render(&c, &pre, &pa, &pb, !okA, !okB)
	return r, nil
}

func main() {
	if len(os.Args) >= 3 && os.Args[1] == "probe" {
		var c Case
		if err := json.NewDecoder(os.Stdin).Decode(&c); err != nil {
			fmt.Fprintln(os.Stderr, err)
			os.Exit(2)
		}
		p := runPart(&c, os.Args[2])
		out, _ := json.Marshal(p)
		os.Stdout.Write(out)
		return
	}
	h := lib.Harness{
		Gen: gen,
		RunCase: func(raw json.RawMessage) (lib.Result, error) {
			var c Case
			if err := json.Unmarshal(raw, &c); err != nil {
				return lib.Result{}, err
			}
			return runCase(&c), nil
		},
		Crash:    crash,
		Header:   "From Dastard Require Import Common.ZX Common.CaseLib Pipeline.Stream C08.Model C08.Spec C08.Run.",
		Verdict:  "verdict",
		PerShard: 12,
		Isolate:  true,
		Chunk:    20,
		Workers:  4,
	}
	h.Main()
}
