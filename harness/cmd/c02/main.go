// C02 harness: trigger soundness / completeness across block edges. Same case format and runner as C01
// (package trig); the generator concentrates on pulses at block boundaries and on control histories, and the
// shards are judged by C02's checker.
package main

import (
	"encoding/json"

	"verifharness/cmd/c01/trig"
	"verifharness/lib"
)

func gen(seed uint64, tier string) []interface{} {
	r := lib.NewRng(seed)
	n := 320
	if tier == "thorough" {
		n = 6000
	}
	var out []interface{}
	id := int64(1)
	for _, c := range trig.Corpus() {
		c.ID = id
		id++
		out = append(out, c)
	}
	for i := 0; i < n; i++ {
		var c trig.Case
		switch q := r.Intn(20); {
		case q < 7:
			c = trig.GenBoundary(r.Fork(), id, tier)
		case q < 9:
			c = trig.GenRefused(r.Fork(), id, tier)
		case q < 11:
			c = trig.GenTailReconf(r.Fork(), id, tier)
		case q < 14:
			c = trig.GenShadow(r.Fork(), id, tier)
		case q < 16:
			c = trig.GenGrow(r.Fork(), id, tier)
		case q < 17:
			c = trig.GenRandom(r.Fork(), id, tier)
		case q < 19:
			c = trig.GenDrift(r.Fork(), id, tier)
		default:
			c = trig.GenMalformed(r.Fork(), id, tier)
		}
		id++
		out = append(out, c)
	}
	return out
}

func main() {
	trig.CritRule = true
	h := lib.Harness{
		Gen: gen,
		RunCase: func(raw json.RawMessage) (lib.Result, error) {
			var c trig.Case
			if err := json.Unmarshal(raw, &c); err != nil {
				return lib.Result{}, err
			}
			return trig.Run(c), nil
		},
		Crash:    trig.Crash,
		Header:   "From Dastard Require Import Common.ZX Common.CaseLib Pipeline.Stream C01.Model C01.Run C02.Run.",
		Verdict:  "verdict2",
		PerShard: 30,
		Isolate:  true,
		Chunk:    20,
	}
	h.Main()
}
