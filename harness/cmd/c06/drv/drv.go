// Package drv: the driver shared by the C06 (write control) and C20 (side files) harnesses.
// It runs request / publish / block histories on a prepared bench source through the real RPC entry
// points and observes behaviour by looking at the files under a scratch directory.
package drv

import (
	"bytes"
	"encoding/binary"
	"encoding/json"
	"fmt"
	"os"
	"path/filepath"
	"regexp"
	"sort"
	"strconv"
	"strings"
	"time"

	dastard "github.com/usnistgov/dastard"
	"verifharness/lib"
)

// CaseTimeout bounds one case (normally a few milliseconds); ReqTimeout bounds one RPC request.
const CaseTimeout = 15 * time.Second
const ReqTimeout = 4 * time.Second

const (
	NPre   = 2
	NSamp  = 8
	NBases = 2
	BlockN = 16 // samples per channel in a Block
)

// Op is one step of a history.
type Op struct {
	Op       string  `json:"op"` // WC LABEL PUB BLK
	Req      string  `json:"req,omitempty"`
	Path     int     `json:"path,omitempty"` // 0 none, 1 / 2 = scratch base directory A / B, 3 = a path that cannot be created (below a regular file)
	L22      bool    `json:"l22,omitempty"`
	L3       bool    `json:"l3,omitempty"`
	OFF      bool    `json:"off,omitempty"`
	Label    string  `json:"label,omitempty"`
	Ch       int     `json:"ch,omitempty"`
	N        int     `json:"n,omitempty"`
	Ext      []int64 `json:"ext,omitempty"`
	Drops    int     `json:"drops,omitempty"`
	First    int64   `json:"first,omitempty"`
	Empty    bool    `json:"empty,omitempty"`    // BLK: the block carries zero samples per channel
	TickExt  bool    `json:"tickext,omitempty"`  // BLK: the external-trigger flush ticker is due at this block
	TickDrop bool    `json:"tickdrop,omitempty"` // BLK: the data-drop flush ticker is due at this block
	Off      int64   `json:"tsoff,omitempty"`    // TLABEL: supplied time stamp = case start + Off ns (Off != 0)
}

// Case is a configuration plus a history.
type Case struct {
	ID         int64   `json:"id"`
	Proj       []bool  `json:"proj"`                 // per channel: has projectors
	Base       int     `json:"base"`                 // initial BasePath: 0 empty, 1, 2
	Pre        [][]int `json:"pre,omitempty"`        // numbered entries that already exist under base 1 / base 2 (value >= 10000: a plain file named value-10000)
	Map        int     `json:"map"`                  // -1 no map, else number of pixels in the loaded map
	Fault      bool    `json:"fault,omitempty"`      // fault stream: after the ops, break the experiment-state file and STOP
	FaultStart *Op     `json:"faultstart,omitempty"` // fault stream, second stage: then this START, then one record to every channel
	Ops        []Op    `json:"ops"`
}

// Rep is the projection of ComputeWritingState().
type Rep struct {
	Active, Paused, L22, L3, OFF bool
	PatBase, PatDir, BasePath    int
	Pattern                      string `json:"-"`
}

func (r Rep) Term() string {
	return fmt.Sprintf("(RS %s %s %s %s %s %s %s %s)", lib.B(r.Active), lib.B(r.Paused), lib.B(r.L22), lib.B(r.L3),
		lib.B(r.OFF), lib.Z(int64(r.PatBase)), lib.Z(int64(r.PatDir)), lib.Z(int64(r.BasePath)))
}

// ReqObs is what is seen after a request.
type ReqObs struct {
	OK      bool
	Rep     Rep
	Writers [][3]bool
	DirNew  bool
	Closed  bool
	Msg     bool
	Err     string `json:",omitempty"`
	Hung    bool   `json:",omitempty"` // the request was never answered (the case ends here)
}

// PubObs is what is seen after a publish + flush.
type PubObs struct {
	D22, D3, DOFF int
	Others        bool
	NW            int
}

// SideFiles is the content of a closed span's three side files.
type SideFiles struct {
	ExtPresent   bool
	Ext          []int64
	DropPresent  bool
	Drop         [][2]int64
	StatePresent bool
	Labels       []string
	Stamps       []int64 // per label line: 0 = stamped by the implementation, else the offset of the supplied time stamp
	FormatOK     bool    // headers exact, line formats exact, time stamps decimal, non-decreasing and inside the case's time window
	Why          string  `json:",omitempty"`
}

// Session is one case being run.
type Session struct {
	C        *Case
	B        *dastard.VerifBench
	RPC      *dastard.VerifRPC
	Root     string
	Bases    []string
	Today    string
	T0       time.Time
	Names    []string
	frame    int64
	patRe    *regexp.Regexp
	subDiv   int
	Tk       *dastard.VerifTickers
	supplied map[int64]int64 // absolute supplied time stamp -> offset
}

func bytesOf(s string) string { return lib.ZListBytes([]byte(s)) }

// StrTerm renders a Go string as a Coq list of byte codes.
func StrTerm(s string) string { return bytesOf(s) }

func boolList(xs []bool) string {
	it := make([]string, len(xs))
	for i, x := range xs {
		it[i] = lib.B(x)
	}
	return lib.List(it)
}

// CompactZList renders a list of integers as a Coq term, writing maximal runs x, x+1, x+2, ... of at least 8
// elements as (zrange x n) so that long external-trigger lists stay short in the shard files.
func CompactZList(xs []int64) string {
	var parts []string
	var lit []int64
	flush := func() {
		if len(lit) > 0 {
			parts = append(parts, lib.ZList64(lit))
			lit = nil
		}
	}
	for i := 0; i < len(xs); {
		j := i + 1
		for j < len(xs) && xs[j-1] < (1<<62) && xs[j] == xs[j-1]+1 {
			j++
		}
		if j-i >= 8 {
			flush()
			parts = append(parts, fmt.Sprintf("(zrange %s %d)", lib.Z(xs[i]), j-i))
			i = j
		} else {
			lit = append(lit, xs[i])
			i++
		}
	}
	flush()
	if len(parts) == 0 {
		return "[]"
	}
	if len(parts) == 1 {
		return parts[0]
	}
	return "(" + strings.Join(parts, " ++ ") + ")"
}

// WritersTerm renders per-channel (has22, has3, hasOFF).
func WritersTerm(w [][3]bool) string {
	it := make([]string, len(w))
	for i, x := range w {
		it[i] = fmt.Sprintf("(%s,%s,%s)", lib.B(x[0]), lib.B(x[1]), lib.B(x[2]))
	}
	return lib.List(it)
}

// UsedTerm renders the pre-existing numbered entries as (base, number) pairs, sorted.
func (c *Case) UsedTerm() string {
	var it []string
	for bi, pre := range c.Pre {
		if bi > 1 {
			break
		}
		xs := append([]int(nil), pre...)
		for i := range xs {
			xs[i] %= 10000
		}
		sort.Ints(xs)
		for _, d := range xs {
			it = append(it, fmt.Sprintf("(%d,%d)", bi+1, d))
		}
	}
	return lib.List(it)
}

// ConfigTerm renders "proj used map base".
func (c *Case) ConfigTerm() string {
	return fmt.Sprintf("%s %s %s %s", boolList(c.Proj), c.UsedTerm(), lib.Z(int64(c.Map)), lib.Z(int64(c.Base)))
}

// Sanitize clamps a (possibly shrunk or hand-written) case into the domain the driver supports.
func (c *Case) Sanitize() {
	if len(c.Proj) == 0 {
		c.Proj = []bool{false}
	}
	if len(c.Proj) > 8 {
		c.Proj = c.Proj[:8]
	}
	if c.Base < 0 || c.Base > 3 {
		c.Base = 0
	}
	if c.Map < -1 {
		c.Map = -1
	}
	for i := range c.Ops {
		o := &c.Ops[i]
		if o.Path < 0 || o.Path > 3 {
			o.Path = 0
		}
		if o.N > 40 {
			o.N = 40
		}
		if o.N < 0 {
			o.N = 0
		}
		if o.Drops < 0 {
			o.Drops = 0
		}
	}
}

// NewSession prepares the source, the scratch tree and the RPC stand-in.
func NewSession(c *Case) (*Session, error) {
	cwd, err := os.Getwd()
	if err != nil {
		return nil, err
	}
	s := &Session{C: c}
	s.Root = filepath.Join(cwd, "scratch_c06", fmt.Sprintf("p%d_c%d", os.Getpid(), c.ID))
	os.RemoveAll(s.Root)
	if err := os.MkdirAll(s.Root, 0o755); err != nil {
		return nil, err
	}
	// base 3 cannot be created: F is a regular file
	s.Bases = []string{filepath.Join(s.Root, "A"), filepath.Join(s.Root, "B"), filepath.Join(s.Root, "F", "sub")}
	if err := os.WriteFile(filepath.Join(s.Root, "F"), []byte("x"), 0o644); err != nil {
		return nil, err
	}
	s.T0 = time.Now()
	s.Today = s.T0.Format("20060102")
	for bi, pre := range c.Pre {
		if bi > 1 {
			break
		}
		for _, d := range pre {
			p := filepath.Join(s.Bases[bi], s.Today, fmt.Sprintf("%04d", d%10000))
			if d >= 10000 {
				os.MkdirAll(filepath.Dir(p), 0o755)
				os.WriteFile(p, []byte("x"), 0o644)
			} else {
				os.MkdirAll(p, 0o755)
			}
		}
	}
	b, err := dastard.VerifNewBench(len(c.Proj), NPre, NSamp, 10000.0, nil)
	if err != nil {
		return nil, err
	}
	s.B = b
	for ch, p := range c.Proj {
		if p {
			if err := b.VerifSetProjectors(ch, NBases); err != nil {
				b.Close()
				return nil, err
			}
		}
	}
	s.Tk = b.Source().VerifScriptTickers()
	s.supplied = map[int64]int64{}
	s.RPC = dastard.VerifNewRPC(b)
	s.RPC.SetMapPixels(c.Map)
	bp := ""
	if c.Base >= 1 {
		bp = s.Bases[c.Base-1]
	}
	b.Source().VerifSetWritingBasePath(bp)
	for i := 0; i < b.VerifNchan(); i++ {
		s.Names = append(s.Names, b.VerifDsp(i).Name)
	}
	s.subDiv = b.Source().VerifTables().SubframeDivisions
	s.patRe = regexp.MustCompile(`^(.*)/(\d{8})/(\d{4})/(\d{8})_run(\d{4})_%s\.%s$`)
	b.Messages()
	return s, nil
}

// Close releases everything and removes the scratch tree.
func (s *Session) Close() {
	// make sure no writer goroutine or open file outlives the case
	func() {
		defer func() { recover() }()
		s.B.Source().WriteControl(&dastard.WriteControlConfig{Request: "STOP"})
	}()
	s.RPC.Close()
	s.B.Close()
	os.RemoveAll(s.Root)
}

// DateChanged tells whether midnight passed while the case ran (the run must then be repeated).
func (s *Session) DateChanged() bool { return time.Now().Format("20060102") != s.Today }

func (s *Session) baseID(p string) int {
	if p == "" {
		return 0
	}
	for i, b := range s.Bases {
		if p == b {
			return i + 1
		}
	}
	return -1
}

// Reported projects ComputeWritingState().
func (s *Session) Reported() Rep {
	ws := s.B.Source().ComputeWritingState()
	return s.project(ws.Active, ws.Paused, ws.WriteLJH22, ws.WriteLJH3, ws.WriteOFF, ws.FilenamePattern, ws.BasePath)
}

func (s *Session) project(active, paused, l22, l3, off bool, pattern, basepath string) Rep {
	r := Rep{Active: active, Paused: paused, L22: l22, L3: l3, OFF: off, Pattern: pattern}
	r.BasePath = s.baseID(basepath)
	if pattern == "" {
		r.PatBase, r.PatDir = 0, -1
		return r
	}
	m := s.patRe.FindStringSubmatch(pattern)
	if m == nil || m[2] != s.Today || m[4] != s.Today || m[3] != m[5] || s.baseID(m[1]) < 1 {
		r.PatBase, r.PatDir = -1, -2
		return r
	}
	r.PatBase = s.baseID(m[1])
	r.PatDir, _ = strconv.Atoi(m[3])
	return r
}

// Writers reads HasLJH22/HasLJH3/HasOFF of every channel.
func (s *Session) Writers() [][3]bool {
	w := make([][3]bool, s.B.VerifNchan())
	for i := range w {
		dp := s.B.VerifDsp(i).VerifPublisher()
		w[i] = [3]bool{dp.HasLJH22(), dp.HasLJH3(), dp.HasOFF()}
	}
	return w
}

// openUnderRoot counts this process's open file descriptors that point below the scratch root.
func (s *Session) openUnderRoot() int {
	ents, err := os.ReadDir("/proc/self/fd")
	if err != nil {
		return -1
	}
	n := 0
	for _, e := range ents {
		t, err := os.Readlink(filepath.Join("/proc/self/fd", e.Name()))
		if err == nil && strings.HasPrefix(t, s.Root+"/") {
			n++
		}
	}
	return n
}

type writingMsg struct {
	Active, Paused, WriteLJH22, WriteOFF, WriteLJH3 bool
	BasePath, FilenamePattern                       string
}

// writingBroadcast: after a successful request exactly the reported state must have been broadcast as WRITING;
// after a failed one no WRITING message may appear.
func (s *Session) writingBroadcast(ok bool, rep Rep) bool {
	deadline := time.Now().Add(10 * time.Second)
	var seen []writingMsg
	for {
		for _, m := range s.B.Messages() {
			if m.Tag == "WRITING" {
				var w writingMsg
				if json.Unmarshal([]byte(m.JSON), &w) != nil {
					return false
				}
				seen = append(seen, w)
			}
		}
		if !ok || len(seen) > 0 || time.Now().After(deadline) {
			break
		}
	}
	if !ok {
		return len(seen) == 0
	}
	if len(seen) != 1 {
		return false
	}
	w := seen[0]
	got := s.project(w.Active, w.Paused, w.WriteLJH22, w.WriteLJH3, w.WriteOFF, w.FilenamePattern, w.BasePath)
	return got == rep
}

func dirExists(p string) bool {
	fi, err := os.Stat(p)
	return err == nil && fi.IsDir()
}

func (s *Session) after(ok bool, errs string, existedBefore map[string]bool) ReqObs {
	rep := s.Reported()
	o := ReqObs{OK: ok, Rep: rep, Writers: s.Writers(), Err: errs}
	if rep.Pattern != "" {
		d := filepath.Dir(rep.Pattern)
		o.DirNew = !existedBefore[d] && dirExists(d)
	}
	o.Closed = s.openUnderRoot() == 0
	o.Msg = s.writingBroadcast(ok, rep)
	return o
}

// existing numbered directories (any depth 3 below a base) before a request
func (s *Session) dirsBefore() map[string]bool {
	m := map[string]bool{}
	for _, b := range s.Bases {
		ds, _ := filepath.Glob(filepath.Join(b, "*", "*"))
		for _, d := range ds {
			m[d] = true
		}
	}
	return m
}

// answered runs an RPC call and reports whether it returned within ReqTimeout. A request that is never
// answered leaves its goroutine behind; the case ends there and is rendered as a crash of that request.
func answered(f func() error) (error, bool) {
	done := make(chan error, 1)
	go func() { done <- f() }()
	select {
	case e := <-done:
		return e, false
	case <-time.After(ReqTimeout):
		return nil, true
	}
}

// WC issues a write-control request through SourceControl.WriteControl.
func (s *Session) WC(o Op) ReqObs {
	cfg := &dastard.WriteControlConfig{Request: o.Req, WriteLJH22: o.L22, WriteLJH3: o.L3, WriteOFF: o.OFF}
	if o.Path >= 1 {
		cfg.Path = s.Bases[o.Path-1]
	}
	before := s.dirsBefore()
	var reply bool
	err, hung := answered(func() error { return s.RPC.SC.WriteControl(cfg, &reply) })
	if hung {
		return ReqObs{Hung: true}
	}
	es := ""
	if err != nil {
		es = err.Error()
	}
	ob := s.after(err == nil, es, before)
	if reply != (err == nil) {
		ob.Msg = false // the RPC reply flag contradicts the error
	}
	return ob
}

// Label issues SourceControl.SetExperimentStateLabel (waiting for the result).
func (s *Session) Label(o Op) ReqObs {
	before := s.dirsBefore()
	var reply bool
	err, hung := answered(func() error {
		return s.RPC.SC.SetExperimentStateLabel(&dastard.StateLabelConfig{Label: o.Label, WaitForError: true}, &reply)
	})
	if hung {
		return ReqObs{Hung: true}
	}
	es := ""
	if err != nil {
		es = err.Error()
	}
	// a label request never broadcasts WRITING, whatever its outcome
	ob := s.after(false, es, before)
	ob.OK = err == nil
	if reply != (err == nil) {
		ob.Msg = false
	}
	return ob
}

// FaultObs is what is seen after a STOP issued while the experiment-state file cannot be written.
type FaultObs struct {
	Writers [][3]bool
	Open    int // channel data files (not side files) still open below the scratch root
	Stored  bool
	Active  bool // ComputeWritingState().Active after the faulty STOP
	Reply   string
}

// FaultStop closes the experiment-state file behind the writer's back, issues STOP, then publishes one record
// to every channel. Returns nil when writing is not active (no such file to break).
func (s *Session) FaultStop() *FaultObs {
	if !s.Reported().Active || !s.B.Source().VerifBreakExperimentStateFile() {
		return nil
	}
	var reply bool
	err, hung := answered(func() error {
		return s.RPC.SC.WriteControl(&dastard.WriteControlConfig{Request: "STOP"}, &reply)
	})
	f := &FaultObs{Writers: s.Writers(), Active: s.Reported().Active}
	if hung {
		f.Reply = "never answered"
		f.Open = -1
		return f
	}
	if err != nil {
		f.Reply = err.Error()
	}
	ents, _ := os.ReadDir("/proc/self/fd")
	for _, e := range ents {
		t, err := os.Readlink(filepath.Join("/proc/self/fd", e.Name()))
		if err == nil && strings.HasPrefix(t, s.Root+"/") && !strings.HasSuffix(t, "_experiment_state.txt") &&
			!strings.HasSuffix(t, "_external_trigger.bin") && !strings.HasSuffix(t, "_data_drop.txt") {
			f.Open++
		}
	}
	flushAll := func() {
		for i := 0; i < s.B.VerifNchan(); i++ {
			s.B.VerifDsp(i).VerifPublisher().Flush()
		}
	}
	flushAll()
	before := s.snapshot()
	for ch := 0; ch < s.B.VerifNchan(); ch++ {
		s.frame++
		rec := dastard.VerifRecord{Chan: ch, Frame: s.frame, TimeNs: 1700000000000000000 + s.frame*1000,
			Pre: NPre, Data: make([]uint16, NSamp), ModelCoefs: make([]float64, NBases)}
		if err := s.B.VerifDsp(ch).VerifPublish([]dastard.VerifRecord{rec}); err != nil {
			f.Stored = true
		}
	}
	flushAll()
	after := s.snapshot()
	for p, sz := range after {
		if old, ok := before[p]; !ok || old != sz {
			f.Stored = true
		}
	}
	s.B.Messages()
	return f
}

// TLabel calls AnySource.SetExperimentStateLabel with a caller-supplied time stamp (case start + o.Off).
func (s *Session) TLabel(o Op) bool {
	abs := s.T0.UnixNano() + o.Off
	s.supplied[abs] = o.Off
	return s.B.Source().SetExperimentStateLabel(time.Unix(0, abs), o.Label) == nil
}

// FaultStartObs is what is seen after the START that follows a faulty STOP.
type FaultStartObs struct {
	Rep   Rep
	Pubs  []PubObs
	Reply string
}

// FaultStartStage issues the START (its label cannot be written: the failed handle is still in place) and
// publishes one record to every channel.
func (s *Session) FaultStartStage(o Op) *FaultStartObs {
	cfg := &dastard.WriteControlConfig{Request: o.Req, WriteLJH22: o.L22, WriteLJH3: o.L3, WriteOFF: o.OFF}
	if o.Path >= 1 {
		cfg.Path = s.Bases[o.Path-1]
	}
	var reply bool
	err, hung := answered(func() error { return s.RPC.SC.WriteControl(cfg, &reply) })
	if hung {
		return nil
	}
	f := &FaultStartObs{Rep: s.Reported()}
	if err != nil {
		f.Reply = err.Error()
	}
	for ch := 0; ch < s.B.VerifNchan(); ch++ {
		f.Pubs = append(f.Pubs, s.Pub(Op{Op: "PUB", Ch: ch, N: 1}))
	}
	s.B.Messages()
	return f
}

// ---- files ----

func (s *Session) snapshot() map[string]int64 {
	m := map[string]int64{}
	filepath.Walk(s.Root, func(p string, fi os.FileInfo, err error) error {
		if err == nil && !fi.IsDir() {
			m[p] = fi.Size()
		}
		return nil
	})
	return m
}

var exts = [3]string{"ljh", "ljh3", "off"}

func recSize(t int) int64 {
	switch t {
	case 0:
		return 16 + 2*NSamp
	case 1:
		return 24 + 2*NSamp
	default:
		return 36 + 4*NBases
	}
}

// recordsIn returns the number of records in a channel file (0 if absent, -1000 if its size is not header + k records).
func recordsIn(path string, t int) int {
	data, err := os.ReadFile(path)
	if err != nil {
		return 0
	}
	hdr := -1
	switch t {
	case 0:
		mark := []byte("#End of Header\n")
		if i := bytes.Index(data, mark); i >= 0 {
			hdr = i + len(mark)
		}
	case 1:
		if i := bytes.Index(data, []byte("\n}\n")); i >= 0 {
			hdr = i + 3
		}
	case 2:
		if i := bytes.Index(data, []byte("\n}\n")); i >= 0 {
			hdr = i + 3 + 8*2*NBases*NSamp
		}
	}
	if hdr < 0 || hdr > len(data) {
		return -1000
	}
	body := int64(len(data) - hdr)
	if body%recSize(t) != 0 {
		return -1000
	}
	return int(body / recSize(t))
}

// Pub publishes n records to channel ch through the real PublishData, flushes every channel and
// compares the scratch tree before and after.
func (s *Session) Pub(o Op) PubObs {
	if o.Ch < 0 || o.Ch >= s.B.VerifNchan() || o.N <= 0 {
		return PubObs{}
	}
	rep := s.Reported()
	var paths [3]string
	if rep.Pattern != "" && strings.Count(rep.Pattern, "%s") == 2 {
		for t := 0; t < 3; t++ {
			paths[t] = fmt.Sprintf(rep.Pattern, s.Names[o.Ch], exts[t])
		}
	}
	flushAll := func() {
		for i := 0; i < s.B.VerifNchan(); i++ {
			s.B.VerifDsp(i).VerifPublisher().Flush()
		}
	}
	flushAll()
	before := s.snapshot()
	var cb [3]int
	for t := 0; t < 3; t++ {
		if paths[t] != "" {
			cb[t] = recordsIn(paths[t], t)
		}
	}
	recs := make([]dastard.VerifRecord, o.N)
	for i := range recs {
		s.frame++
		recs[i] = dastard.VerifRecord{Chan: o.Ch, Frame: s.frame, TimeNs: 1700000000000000000 + s.frame*1000,
			Pre: NPre, Data: make([]uint16, NSamp), ModelCoefs: make([]float64, NBases)}
	}
	perr := s.B.VerifDsp(o.Ch).VerifPublish(recs)
	flushAll()
	after := s.snapshot()
	var ob PubObs
	var d [3]int
	for t := 0; t < 3; t++ {
		if paths[t] != "" {
			ca := recordsIn(paths[t], t)
			if ca < 0 || cb[t] < 0 {
				d[t] = -1000
			} else {
				d[t] = ca - cb[t]
			}
		}
	}
	ob.D22, ob.D3, ob.DOFF = d[0], d[1], d[2]
	expected := map[string]bool{}
	for _, p := range paths {
		if p != "" {
			expected[p] = true
		}
	}
	for p, sz := range after {
		if expected[p] {
			continue
		}
		if old, ok := before[p]; !ok || old != sz {
			ob.Others = true
		}
	}
	for p := range before {
		if _, ok := after[p]; !ok {
			ob.Others = true
		}
	}
	if perr != nil {
		ob.Others = true // PublishData must not fail on well-formed records
	}
	ob.NW = s.B.VerifDsp(o.Ch).VerifPublisher().VerifNumberWritten()
	return ob
}

// Blk runs one ProcessSegments cycle (no triggers configured, so no records) that delivers
// external-trigger counts and a dropped-frames report. Returns the error text ("" if none).
func (s *Session) Blk(o Op) string {
	n := s.B.VerifNchan()
	chans := make([][]uint16, n)
	signed := make([]bool, n)
	for i := range chans {
		if o.Empty {
			chans[i] = []uint16{}
			continue
		}
		chans[i] = make([]uint16, BlockN)
		for j := range chans[i] {
			chans[i][j] = 1000
		}
	}
	if o.TickExt {
		s.Tk.Tick("ext")
	}
	if o.TickDrop {
		s.Tk.Tick("drop")
	}
	r := s.B.Block(chans, signed, o.First, 1700000000000000000, 100000, o.Ext, o.Drops)
	s.B.Messages()
	return r.Err
}

const (
	stateHeader = "# unix time in nanoseconds, state label\n"
	dropHeader  = "# first framenum after drop, number of dropped frames\n"
)

// ReadSideFiles reads the three side files of the run whose pattern is given.
func (s *Session) ReadSideFiles(pattern string) SideFiles {
	sf := SideFiles{FormatOK: true}
	bad := func(why string) {
		sf.FormatOK = false
		if sf.Why == "" {
			sf.Why = why
		}
	}
	now := time.Now().UnixNano()
	// experiment state
	if data, err := os.ReadFile(fmt.Sprintf(pattern, "experiment_state", "txt")); err == nil {
		sf.StatePresent = true
		txt := string(data)
		if !strings.HasPrefix(txt, stateHeader) {
			bad("state header")
		} else {
			txt = txt[len(stateHeader):]
		}
		if txt != "" && !strings.HasSuffix(txt, "\n") {
			bad("state file does not end with a newline")
		}
		last := s.T0.UnixNano()
		for _, line := range strings.Split(strings.TrimSuffix(txt, "\n"), "\n") {
			if txt == "" {
				break
			}
			i := strings.Index(line, ", ")
			if i < 0 {
				bad("state line without time stamp: " + line)
				sf.Labels = append(sf.Labels, line)
				sf.Stamps = append(sf.Stamps, 0)
				continue
			}
			ts, err := strconv.ParseInt(line[:i], 10, 64)
			stamp := int64(0)
			if err != nil || strconv.FormatInt(ts, 10) != line[:i] {
				bad("time stamp not decimal: " + line)
			} else if off, ok := s.supplied[ts]; ok {
				stamp = off // a caller-supplied time stamp, reproduced verbatim
			} else {
				if ts < last || ts > now {
					bad("time stamp out of order or outside the run: " + line)
				}
				last = ts
			}
			sf.Stamps = append(sf.Stamps, stamp)
			sf.Labels = append(sf.Labels, line[i+2:])
		}
	}
	// external triggers
	if data, err := os.ReadFile(fmt.Sprintf(pattern, "external_trigger", "bin")); err == nil {
		sf.ExtPresent = true
		hdr := fmt.Sprintf("# external trigger rowcounts as int64 binary data follows, "+
			"subframeCounts = frameCounts*subframeDivisions+subframeOffset (subframeDivisions=%4d)\n", s.subDiv)
		if !bytes.HasPrefix(data, []byte(hdr)) {
			bad("external trigger header")
		} else {
			data = data[len(hdr):]
		}
		if len(data)%8 != 0 {
			bad("external trigger payload not a multiple of 8 bytes")
		}
		for i := 0; i+8 <= len(data); i += 8 {
			sf.Ext = append(sf.Ext, int64(binary.LittleEndian.Uint64(data[i:i+8])))
		}
	}
	// data drops
	if data, err := os.ReadFile(fmt.Sprintf(pattern, "data_drop", "txt")); err == nil {
		sf.DropPresent = true
		txt := string(data)
		if !strings.HasPrefix(txt, dropHeader) {
			bad("data drop header")
		} else {
			txt = txt[len(dropHeader):]
		}
		for _, line := range strings.SplitAfter(txt, "\n") {
			if line == "" {
				continue
			}
			var a, b int64
			if _, err := fmt.Sscanf(line, "%d %d\n", &a, &b); err != nil || fmt.Sprintf("%12d %8d\n", a, b) != line {
				bad("data drop line: " + line)
				continue
			}
			sf.Drop = append(sf.Drop, [2]int64{a, b})
		}
	}
	return sf
}

// ---- generator helpers shared by both harnesses ----

var reqStart = []string{"START", "START", "START", "Start", "start", "STARTING", "start now"}
var reqStop = []string{"STOP", "STOP", "Stop", "stop", "STOPPED"}
var reqPause = []string{"PAUSE", "PAUSE", "Pause", "pause", "PAUSED", "pause 3"}
var reqUnpause = []string{"UNPAUSE", "UNPAUSE", "Unpause", "unpause"}
var reqBad = []string{"", "GO", "RESUME", " START", "UNPAUS", "S", "STAR", "STO", "PAUS", "XPAUSE", "RESTART", "UN PAUSE", "ST0P"}
var labels = []string{"A", "B", "cal", "Fe55 on", "run 7, high", "STOP", "START", "x", " lead", "PAUSE"}

// GenLabel draws a state label (never empty).
func GenLabel(r *lib.Rng) string {
	if r.Chance(1, 4) {
		n := r.Range(1, 6)
		b := make([]byte, n)
		for i := range b {
			b[i] = byte(r.Range(33, 126))
		}
		return string(b)
	}
	return labels[r.Intn(len(labels))]
}

// GenTypes draws the three type flags of a START (sometimes none).
func GenTypes(r *lib.Rng, o *Op) {
	switch r.Intn(10) {
	case 0:
	case 1, 2:
		o.L22 = true
	case 3:
		o.L3 = true
	case 4, 5:
		o.OFF = true
	default:
		o.L22, o.L3, o.OFF = r.Bool(), r.Bool(), r.Bool()
	}
}

// GenWC draws one write-control request; kind: 0 start 1 stop 2 pause 3 unpause 4 unpause+label 5 malformed.
func GenWC(r *lib.Rng, kind int, twoBases bool) Op {
	o := Op{Op: "WC"}
	switch kind {
	case 0:
		o.Req = reqStart[r.Intn(len(reqStart))]
		GenTypes(r, &o)
		if r.Chance(1, 3) {
			o.Path = 1
			if twoBases {
				o.Path = r.Pick([]int{1, 2, 2, 3})
			}
		}
	case 1:
		o.Req = reqStop[r.Intn(len(reqStop))]
	case 2:
		o.Req = reqPause[r.Intn(len(reqPause))]
	case 3:
		o.Req = reqUnpause[r.Intn(len(reqUnpause))]
	case 4:
		l := GenLabel(r)
		if r.Chance(1, 4) { // a label the repaired code refuses: the request must then change nothing
			l = []string{"two\nlines", "cr\rlf", "end\n", "\n", "a\r\nb"}[r.Intn(5)]
		}
		o.Req = reqUnpause[r.Intn(len(reqUnpause))] + " " + l
	default:
		switch r.Intn(4) {
		case 0:
			o.Req = reqBad[r.Intn(len(reqBad))]
		case 1:
			o.Req = "UNPAUSE" + string(byte(r.Range(33, 126))) + "x" // no space after the verb
		case 2:
			o.Req = "unpause " // space but no label
		default:
			o.Req = "UNPAUSE  two" // label starts with a space
		}
		if r.Bool() {
			GenTypes(r, &o) // type flags on a non-START must be ignored
		}
	}
	return o
}
