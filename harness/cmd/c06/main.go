// C06 harness: write control. Histories of START/STOP/PAUSE/UNPAUSE (legal, redundant and malformed) and
// label requests through the real RPC entry points, interleaved with record publication; behaviour is read
// off the files in a scratch directory.
package main

import (
	"encoding/json"
	"fmt"
	"os"
	"sort"
	"strings"
	"time"

	"verifharness/cmd/c06/drv"
	"verifharness/lib"
)

func genCase(r *lib.Rng, id int64, tier string) drv.Case {
	nchan := r.Range(1, 5)
	c := drv.Case{ID: id, Map: -1}
	pm := r.Intn(5) // 0: nobody has projectors, 1: everybody, else random
	for i := 0; i < nchan; i++ {
		switch pm {
		case 0:
			c.Proj = append(c.Proj, false)
		case 1:
			c.Proj = append(c.Proj, true)
		default:
			c.Proj = append(c.Proj, r.Bool())
		}
	}
	c.Base = r.Pick([]int{1, 1, 1, 1, 1, 2, 0, 3})
	if r.Chance(1, 3) {
		pre := [][]int{{0}, {1}, {0, 1, 3}, {0, 2}, {10001}, {0, 10001, 2}, {5}}
		c.Pre = [][]int{pre[r.Intn(len(pre))], nil}
		if r.Chance(1, 3) {
			c.Pre[1] = pre[r.Intn(len(pre))]
		}
	}
	switch r.Intn(10) {
	case 0:
		c.Map = nchan
	case 1:
		c.Map = nchan + r.Pick([]int{1, -1, 3})
		if c.Map < 0 {
			c.Map = 0
		}
	}
	nops := r.Range(5, 40)
	if tier == "thorough" {
		nops = r.Range(5, 120)
	}
	pubBias := r.Range(1, 3)
	active := false // the generator's guess (steers the mix only; START may well be rejected)
	for len(c.Ops) < nops {
		k := r.Intn(100)
		startW, stopW := 30, 5
		if active {
			startW, stopW = 8, 20
		}
		switch {
		case k < startW:
			o := drv.GenWC(r, 0, true)
			c.Ops = append(c.Ops, o)
			if o.L22 || o.L3 || (o.OFF && pm != 0) {
				active = true
			}
		case k < startW+stopW:
			c.Ops = append(c.Ops, drv.GenWC(r, 1, true))
			active = false
		case k < 48:
			c.Ops = append(c.Ops, drv.GenWC(r, 2, true))
			if r.Chance(1, 3) { // paused now: a label-carrying UNPAUSE (refused in 1/4 of the draws), then a publish
				c.Ops = append(c.Ops, drv.Op{Op: "PUB", Ch: r.Intn(nchan), N: r.Range(1, 3)})
				c.Ops = append(c.Ops, drv.GenWC(r, 4, true))
				c.Ops = append(c.Ops, drv.Op{Op: "PUB", Ch: r.Intn(nchan), N: r.Range(1, 3)})
			}
		case k < 57:
			c.Ops = append(c.Ops, drv.GenWC(r, 3, true))
		case k < 63:
			c.Ops = append(c.Ops, drv.GenWC(r, 4, true))
		case k < 69:
			c.Ops = append(c.Ops, drv.GenWC(r, 5, true))
		case k < 73:
			l := drv.GenLabel(r)
			if r.Chance(1, 5) {
				l = ""
			}
			c.Ops = append(c.Ops, drv.Op{Op: "LABEL", Label: l})
		}
		for j := 0; j < pubBias; j++ {
			if r.Chance(2, 3) {
				c.Ops = append(c.Ops, drv.Op{Op: "PUB", Ch: r.Intn(nchan), N: r.Pick([]int{1, 1, 2, 3, 5, 17})})
			}
		}
	}
	return c
}

func corpus() []drv.Case {
	st := func(l22, l3, off bool) drv.Op { return drv.Op{Op: "WC", Req: "START", L22: l22, L3: l3, OFF: off} }
	wc := func(s string) drv.Op { return drv.Op{Op: "WC", Req: s} }
	pub := func(ch, n int) drv.Op { return drv.Op{Op: "PUB", Ch: ch, N: n} }
	pf := []bool{true, false}
	return []drv.Case{
		// the two witnesses of the pause flag left set on the channels (refuted pre-fix)
		{Proj: pf, Base: 1, Map: -1, Ops: []drv.Op{st(true, false, false), wc("PAUSE"), wc("STOP"), st(false, false, true), pub(0, 2)}},
		{Proj: pf, Base: 1, Map: -1, Ops: []drv.Op{wc("PAUSE"), st(false, false, true), pub(0, 3), pub(1, 1)}},
		// every type, eligible and ineligible channels, pause / unpause with and without label
		{Proj: pf, Base: 1, Map: -1, Ops: []drv.Op{st(true, true, true), pub(0, 2), pub(1, 2), wc("pause"), pub(0, 1), wc("UNPAUSE cal"), pub(0, 1), pub(1, 4),
			wc("Stop"), pub(0, 1), st(false, true, false), pub(1, 2), wc("STOP")}},
		// rejected requests: START while active, no type, OFF without projectors, malformed, label while idle
		{Proj: []bool{false, false}, Base: 1, Map: -1, Ops: []drv.Op{st(false, false, false), st(false, false, true), wc("UNPAUSE x"), wc("UNPAUSEx"), wc("unpause "),
			wc("GO"), st(true, false, false), st(false, true, false), pub(0, 1), wc(""), {Op: "LABEL", Label: ""}, {Op: "LABEL", Label: "ok"}, wc("STOP"), {Op: "LABEL", Label: "late"}}},
		// empty base path, then a path in the request; base path sticks; second base
		{Proj: pf, Base: 0, Map: -1, Ops: []drv.Op{st(true, false, false), {Op: "WC", Req: "START", L22: true, Path: 2}, pub(1, 1), wc("STOP"), st(false, true, false), pub(0, 1), wc("STOP"),
			{Op: "WC", Req: "START", L3: true, Path: 1}, wc("STOP")}},
		// numbered directories already present (one of them a plain file)
		{Proj: pf, Base: 1, Map: -1, Pre: [][]int{{0, 10001, 3}, nil}, Ops: []drv.Op{st(true, false, false), wc("STOP"), st(true, false, false), pub(0, 1), wc("STOP"), st(false, false, true), pub(0, 1), pub(1, 1)}},
		// pixel map of the wrong length: rejected once (and unloaded), then accepted
		{Proj: pf, Base: 1, Map: 3, Ops: []drv.Op{st(true, false, false), pub(0, 1), st(true, false, false), pub(0, 1), wc("STOP")}},
		{Proj: pf, Base: 1, Map: 2, Ops: []drv.Op{st(true, false, true), pub(0, 1), wc("STOP")}},
		// UNPAUSE with a refused (multi-line) label while active and paused: nothing may change, nothing is stored
		{Proj: pf, Base: 1, Map: -1, Ops: []drv.Op{st(true, false, true), wc("PAUSE"), pub(0, 1), wc("UNPAUSE two\nlines"), pub(0, 2), pub(1, 2), wc("unpause cr\rlf"), pub(0, 1),
			wc("UNPAUSEx"), pub(1, 1), wc("UNPAUSE ok"), pub(0, 3), wc("STOP")}},
		// fault stream: STOP while the experiment-state file cannot be written must still close every channel file
		{Proj: pf, Base: 1, Map: -1, Fault: true, Ops: []drv.Op{st(true, true, true), pub(0, 2), pub(1, 1)}},
		{Proj: pf, Base: 1, Map: -1, Fault: true, FaultStart: &drv.Op{Op: "WC", Req: "START", L22: true, OFF: true}, Ops: []drv.Op{st(false, true, false), pub(0, 1)}},
		// a rejected START that names a path which cannot be created must not change the remembered base path
		{Proj: pf, Base: 1, Map: -1, Ops: []drv.Op{{Op: "WC", Req: "START", L22: true, Path: 3}, st(true, false, false), pub(0, 1), wc("STOP"), {Op: "WC", Req: "START", L3: true, Path: 2}, wc("STOP"),
			{Op: "WC", Req: "START", L3: true, Path: 3}, st(false, true, false), pub(1, 1), wc("STOP")}},
		{Proj: pf, Base: 3, Map: -1, Ops: []drv.Op{st(true, false, false), {Op: "WC", Req: "START", L22: true, Path: 1}, wc("STOP"), st(true, false, false), pub(0, 1)}},
		// pause while idle, unpause while idle, stop while idle
		{Proj: []bool{true}, Base: 1, Map: -1, Ops: []drv.Op{wc("PAUSE"), pub(0, 1), wc("UNPAUSE"), wc("STOP"), wc("PAUSE"), st(true, false, true), pub(0, 2), wc("PAUSED"), pub(0, 2), wc("stopping"), st(false, false, true), pub(0, 1)}},
	}
}

func gen(seed uint64, tier string) []interface{} {
	r := lib.NewRng(seed)
	n := 300
	if tier == "thorough" {
		n = 4000
	}
	var out []interface{}
	id := int64(1)
	for _, c := range corpus() {
		c.ID = id
		id++
		out = append(out, c)
	}
	for i := 0; i < n; i++ {
		out = append(out, genCase(r.Fork(), id, tier))
		id++
	}
	// fault stream: histories that end with writing active, then STOP under a side-file fault
	rf := lib.NewRng(seed ^ 0xfa17)
	for i := 0; i < n/8+3; i++ {
		c := genCase(rf.Fork(), id, "quick")
		c.Fault = true
		c.Base = 1
		last := drv.Op{Op: "WC", Req: "START", L22: rf.Bool(), L3: rf.Bool()}
		if !last.L22 && !last.L3 {
			last.L22 = true
		}
		last.OFF = rf.Bool()
		c.Ops = append(c.Ops, drv.Op{Op: "WC", Req: "STOP"}, last, drv.Op{Op: "PUB", Ch: 0, N: 2})
		if rf.Chance(1, 3) {
			c.Ops = append(c.Ops, drv.Op{Op: "WC", Req: "PAUSE"})
		}
		if rf.Chance(3, 4) { // second stage: the START that follows finds the failed handle
			o := drv.GenWC(rf, 0, true)
			if rf.Chance(2, 3) && !o.L22 && !o.L3 && !o.OFF {
				o.L3 = true
			}
			c.FaultStart = &o
		}
		out = append(out, c)
		id++
	}
	return out
}

type stepOut struct {
	Op  string      `json:"op"`
	Obs interface{} `json:"obs"`
}

func typeKey(o drv.Op) string { return fmt.Sprintf("%v%v%v", o.L22, o.L3, o.OFF) }

func runOnce(c drv.Case) (lib.Result, bool) {
	res := lib.Result{ID: c.ID, Hash: lib.Hash(struct {
		P []bool
		B int
		R [][]int
		M int
		O []drv.Op
		F bool
		S *drv.Op
	}{c.Proj, c.Base, c.Pre, c.Map, c.Ops, c.Fault, c.FaultStart})}
	s, err := drv.NewSession(&c)
	if err != nil {
		panic(err)
	}
	defer s.Close()
	tags := map[string]bool{}
	if len(c.Pre) > 0 {
		tags["preexisting-dirs"] = true
	}
	rs0 := s.Reported()
	w0 := s.Writers()
	var terms []string
	var outs []stepOut
	startSets := map[string]bool{}
	pausedOK, stored, notStored := false, false, false
ops:
	for _, o := range c.Ops {
		switch o.Op {
		case "WC":
			before := s.Reported()
			ob := s.WC(o)
			if ob.Hung {
				terms = append(terms, fmt.Sprintf("WcX %s %d %s %s %s", drv.StrTerm(o.Req), o.Path, lib.B(o.L22), lib.B(o.L3), lib.B(o.OFF)))
				outs = append(outs, stepOut{"WC", ob})
				tags["request-never-answered"] = true
				break ops
			}
			terms = append(terms, fmt.Sprintf("Wc %s %d %s %s %s %s %s %s %s %s %s", drv.StrTerm(o.Req), o.Path, lib.B(o.L22), lib.B(o.L3), lib.B(o.OFF),
				lib.B(ob.OK), ob.Rep.Term(), drv.WritersTerm(ob.Writers), lib.B(ob.DirNew), lib.B(ob.Closed), lib.B(ob.Msg)))
			outs = append(outs, stepOut{"WC", ob})
			switch {
			case ob.OK && ob.Rep.Active && !before.Active:
				tags["start-ok"] = true
				startSets[typeKey(o)] = true
				if o.OFF && !o.L22 && !o.L3 {
					tags["start-off-only"] = true
					if before.Paused {
						tags["start-off-only-after-pause"] = true
					}
				}
				if o.Path != 0 {
					tags["start-with-path"] = true
				}
			case ob.OK && ob.Rep.Paused && !before.Paused:
				pausedOK = true
				if before.Active {
					tags["pause-active"] = true
				} else {
					tags["pause-idle"] = true
				}
			case ob.OK && before.Active && !ob.Rep.Active:
				tags["stop-active"] = true
				if before.Paused {
					tags["stop-while-paused"] = true
				}
			case ob.OK && before.Paused && !ob.Rep.Paused:
				tags["unpause"] = true
			case !ob.OK:
				tags["rejected"] = true
				if before.Active && before.Paused && len(o.Req) > 8 && strings.ContainsAny(o.Req, "\r\n") {
					tags["unpause-refused-label-while-paused"] = true
				}
				if before.Active {
					tags["rejected-while-active"] = true
				}
			}
		case "LABEL":
			ob := s.Label(o)
			if ob.Hung {
				terms = append(terms, fmt.Sprintf("LbX %s", drv.StrTerm(o.Label)))
				outs = append(outs, stepOut{"LABEL", ob})
				tags["request-never-answered"] = true
				break ops
			}
			terms = append(terms, fmt.Sprintf("Lb %s %s %s %s %s %s", drv.StrTerm(o.Label), lib.B(ob.OK), ob.Rep.Term(), drv.WritersTerm(ob.Writers), lib.B(ob.Closed), lib.B(ob.Msg)))
			outs = append(outs, stepOut{"LABEL", ob})
			if ob.OK {
				tags["label-ok"] = true
			} else {
				tags["label-rejected"] = true
			}
		case "PUB":
			ob := s.Pub(o)
			terms = append(terms, fmt.Sprintf("Pb %d %d %s %s %s %s %s", o.Ch, o.N, lib.Z(int64(ob.D22)), lib.Z(int64(ob.D3)), lib.Z(int64(ob.DOFF)), lib.B(ob.Others), lib.Z(int64(ob.NW))))
			outs = append(outs, stepOut{"PUB", ob})
			if ob.D22 > 0 || ob.D3 > 0 || ob.DOFF > 0 {
				stored = true
				tags["pub-stored"] = true
			} else if o.N > 0 {
				notStored = true
				tags["pub-not-stored"] = true
			}
		default:
			// unknown op kinds (e.g. BLK in a C20 replay) are ignored by this harness
		}
	}
	res.Term = fmt.Sprintf("mk %s %s %s %s", c.ConfigTerm(), rs0.Term(), drv.WritersTerm(w0), lib.List(terms))
	if c.Fault && !tags["request-never-answered"] {
		if f := s.FaultStop(); f != nil {
			fs := "NoFS"
			outs = append(outs, stepOut{"FAULT-STOP", f})
			tags["fault-stop"] = true
			if c.FaultStart != nil && f.Reply != "never answered" {
				o := *c.FaultStart
				if g := s.FaultStartStage(o); g != nil {
					var pubs []string
					others := false
					for _, p := range g.Pubs {
						pubs = append(pubs, fmt.Sprintf("(%s,%s,%s)", lib.Z(int64(p.D22)), lib.Z(int64(p.D3)), lib.Z(int64(p.DOFF))))
						others = others || p.Others
					}
					fs = fmt.Sprintf("(FS %s %d %s %s %s %s %s %s)", drv.StrTerm(o.Req), o.Path, lib.B(o.L22), lib.B(o.L3), lib.B(o.OFF),
						g.Rep.Term(), lib.List(pubs), lib.B(others))
					outs = append(outs, stepOut{"FAULT-START", g})
					tags["fault-start"] = true
					if g.Rep.Active {
						tags["fault-start-active"] = true
					}
				}
			}
			res.Term = fmt.Sprintf("mkF %s %s %s %s %s %s %s %s %s", c.ConfigTerm(), rs0.Term(), drv.WritersTerm(w0), lib.List(terms),
				drv.WritersTerm(f.Writers), lib.Z(int64(f.Open)), lib.B(f.Stored), lib.B(f.Active), fs)
		}
	}
	res.Impl = outs
	res.NonTrivial = len(startSets) >= 2 && pausedOK && stored && notStored
	for t := range tags {
		res.Tags = append(res.Tags, t)
	}
	sort.Strings(res.Tags)
	return res, s.DateChanged()
}

func runCase(c drv.Case) lib.Result {
	c.Sanitize()
	for i := 0; ; i++ {
		done := make(chan struct{})
		var res lib.Result
		var redo bool
		go func() { res, redo = runOnce(c); close(done) }()
		select {
		case <-done:
		case <-time.After(drv.CaseTimeout):
			// a request that is never answered (or a deadlock) must not hang the check: die, the
			// parent process then isolates this case and reports it as a crash
			fmt.Fprintf(os.Stderr, "case %d: no answer within %v (request never answered / deadlock)\n", c.ID, drv.CaseTimeout)
			os.Exit(3)
		}
		if !redo || i >= 2 {
			return res
		}
	}
}

func main() {
	h := lib.Harness{
		Gen: gen,
		RunCase: func(raw json.RawMessage) (lib.Result, error) {
			var c drv.Case
			if err := json.Unmarshal(raw, &c); err != nil {
				return lib.Result{}, err
			}
			return runCase(c), nil
		},
		Crash: func(raw json.RawMessage, stderr string) (lib.Result, error) {
			var c drv.Case
			json.Unmarshal(raw, &c)
			return lib.Result{ID: c.ID, Term: "crashed", Impl: map[string]string{"crash": stderr}, Tags: []string{"process-crash"}, Hash: lib.Hash(c)}, nil
		},
		Header:   "From Dastard Require Import Common.ZX Common.CaseLib C06.Model C06.Spec C06.Run.",
		Verdict:  "verdict",
		PerShard: 40,
		Isolate:  true,
		Chunk:    20,
		Workers:  8,
	}
	h.Main()
}
