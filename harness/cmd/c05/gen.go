package main

import (
	"fmt"
	"math"

	"verifharness/lib"
)

// ---------------------------------------------------------------- value generators

var f32Specials = []uint32{
	0x00000000, 0x80000000, // +-0
	0x7f800000, 0xff800000, // +-Inf
	0x7fc00000, 0xffc00000, 0x7fc00001, 0x7fffffff, 0xffc12345, // quiet NaNs with payloads
	0x00000001, 0x807fffff, 0x00800000, // denormals, smallest normal
	0x7f7fffff, 0xff7fffff, // largest finite
	0x3f800000, 0xbf800000, 0x40490fdb,
}

// float64 values that are not float32 values (the conversion rounds, overflows or underflows)
var f64Odd = []float64{0.1, -0.1, 1e300, -1e300, 1e-300, 3.4028235677973366e38, 1.0000000596046448, 16777217, math.Pi, 1e-46, -7e-46}

func genF64(r *lib.Rng) uint64 {
	switch r.Intn(10) {
	case 0, 1:
		return math.Float64bits(float64(math.Float32frombits(f32Specials[r.Intn(len(f32Specials))])))
	case 2:
		return math.Float64bits(f64Odd[r.Intn(len(f64Odd))])
	case 3:
		return math.Float64bits(float64(math.Float32frombits(uint32(r.U64())))) // any float32 (signalling NaNs become quiet)
	case 4:
		return math.Float64bits(math.NaN())
	default:
		return math.Float64bits(float64(r.Range(-2000000, 2000000)) / 64)
	}
}

func genTime(r *lib.Rng) int64 {
	switch r.Intn(12) {
	case 0:
		return int64(r.Pick([]int{0, 1, -1, 999, 1000, 1001, -999, -1000, -1001, -1500, 1999, -1999, 2000}))
	case 1:
		return math.MaxInt64 - int64(r.Range(0, 2000))
	case 2:
		return math.MinInt64 + int64(r.Range(0, 2000))
	case 3:
		return -int64(r.U64() >> uint(r.Range(1, 60)))
	case 4:
		return int64(r.U64() >> uint(r.Range(1, 60)))
	default:
		return 1700000000000000000 + int64(r.U64()%4000000000000000)
	}
}

// genFrame stays inside what the sub-frame counter can hold: frame*div+off within int64 (premise of the property).
func genFrame(r *lib.Rng, div, offset int) int64 {
	if div < 1 {
		div = 1
	}
	hi := (math.MaxInt64 - int64(offset)) / int64(div)
	lo := (math.MinInt64 + int64(div)) / int64(div)
	switch r.Intn(10) {
	case 0:
		return hi - int64(r.Range(0, 2))
	case 1:
		return lo + int64(r.Range(0, 2))
	case 2:
		return int64(r.Pick([]int{0, 1, -1, 2147483647, 2147483648, -2147483648, 4294967296}))
	case 3:
		v := int64(r.U64()>>1) % hi
		if r.Bool() {
			return -v
		}
		return v
	default:
		return int64(r.U64() % 100000000000)
	}
}

func genData(r *lib.Rng, n int) []uint16 {
	d := make([]uint16, n)
	mode := r.Intn(4)
	base := r.Range(0, 65535)
	for i := range d {
		switch mode {
		case 0:
			d[i] = uint16(r.Pick([]int{0, 1, 255, 256, 32767, 32768, 65534, 65535}))
		case 1:
			d[i] = uint16(base + i)
		default:
			d[i] = uint16(r.U64())
		}
	}
	return d
}

type recCtx struct {
	nsamp, npre, nb   int
	div, offset       int
	bench             bool // end to end: lengths in force are applied by the driver, Odd marks a wrong-length record
	wrongLen, wrongNb bool // allow records the LJH 2.2 / OFF writer refuses
	extremePre        bool
}

func genRec(r *lib.Rng, cx recCtx) Rec {
	n := cx.nsamp
	if cx.wrongLen && r.Chance(1, 4) {
		n = r.Pick([]int{0, 1, cx.nsamp - 1, cx.nsamp + 1, 2 * cx.nsamp, r.Range(0, 2*cx.nsamp+3)})
		if n < 0 {
			n = 0
		}
	}
	nb := cx.nb
	if cx.wrongNb && r.Chance(1, 5) {
		nb = r.Pick([]int{0, cx.nb - 1, cx.nb + 1, cx.nb + 3})
		if nb < 0 {
			nb = 0
		}
	}
	rec := Rec{Frame: genFrame(r, cx.div, cx.offset), Ns: genTime(r), Pre: cx.npre, Data: genData(r, n),
		Mean: genF64(r), Delta: genF64(r), Resid: genF64(r), Odd: cx.bench && n != cx.nsamp}
	if r.Chance(1, 6) {
		rec.Pre = r.Range(0, n)
	}
	if cx.extremePre && r.Chance(1, 8) {
		rec.Pre = r.Pick([]int{2147483646, 2147483645, -2147483648, -1, -2})
	}
	rec.Coefs = make([]uint64, nb)
	for i := range rec.Coefs {
		rec.Coefs[i] = genF64(r)
	}
	return rec
}

func genMatrix(r *lib.Rng, n int) []uint64 {
	m := make([]uint64, n)
	for i := range m {
		switch r.Intn(8) {
		case 0:
			m[i] = r.U64() // any bit pattern, NaNs and infinities included
		case 1:
			m[i] = math.Float64bits(float64(r.Range(-5, 5)))
		default:
			m[i] = math.Float64bits(float64(r.Range(-1000000, 1000000)) / 4096)
		}
	}
	return m
}

var sources = []string{"Triangle", "Lancero", "Abaco", "Roach", "SimPulse", "src with: colon"}
var descs = []string{"", "verif model", "basis v2: 3 components"}

// text that a careless formatter / encoder mangles: format verbs, quotes, backslashes, markup, non-ASCII, odd spacing.
// (No newlines: the LJH 2.2 header is one key/value pair per line. No '/': channel names become file names.)
var trickyFrags = []string{"AuBi 50%d absorber", "TES 100%", "%s", "%!", "%%", "%!e(MISSING)", "100%v %x %[1]d %-5.2f %e",
	`q"uote`, `back\slash`, `\n\t`, "tab\there", "\u00b5-cal \u03a9 \u65e5\u672c", "a: b", " lead", "trail ", "<&>", "it's", "{}[],", "%d%d%d%d"}

func tricky(r *lib.Rng, base string) string {
	if !r.Chance(1, 3) {
		return base
	}
	f := trickyFrags[r.Intn(len(trickyFrags))]
	switch r.Intn(3) {
	case 0:
		return f + base
	case 1:
		return base + " " + f
	default:
		return base + f + base
	}
}

var niceTb = []float64{5e-8, 1e-6, 6.4e-6, 8e-9, 1.0, 0.25, 3.2e-7, 9.999999e-7, 1.2345675e-5, 9.9999995e-4}

// timebases for the writer level (any positive normal double in a practical range)
func genTimebase(r *lib.Rng) uint64 {
	switch r.Intn(5) {
	case 0:
		return math.Float64bits(niceTb[r.Intn(len(niceTb))])
	case 1:
		return math.Float64bits(1.0 / float64(r.Range(50, 3000000)))
	case 2:
		return math.Float64bits(float64(r.Range(1, 1<<20)) / float64(int64(1)<<uint(r.Range(10, 50))))
	default:
		return math.Float64bits(float64(r.U64()%9000000+1000000) * math.Pow(10, float64(r.Range(-15, -4))))
	}
}

// sample rates for the bench: exact dyadic rationals num/den
func genRate(r *lib.Rng) (num, den int64) {
	switch r.Intn(6) {
	case 0:
		return int64(r.Pick([]int{50, 1000, 10000, 125000, 156250, 1000000, 3000000, 6250000, 3, 7, 999999, 1000001})), 1
	case 1:
		return 125000000, int64(r.Pick([]int{1024, 512, 256, 2048})) // 122070.3125 etc.
	case 2:
		return int64(r.Range(1, 4000000)), 1
	case 3:
		return int64(r.Range(1, 1<<30))*2 + 1, int64(1) << uint(r.Range(1, 20))
	default:
		return int64(r.Pick([]int{10000, 20000, 50000, 100000, 200000, 244140, 500000})), 1
	}
}

func genGeometry(r *lib.Rng, nchan int) (rows, cols int) {
	switch r.Intn(5) {
	case 0:
		return 1, nchan
	case 1:
		return nchan, 1
	case 2:
		cols = r.Range(1, 3)
		rows = (nchan + cols - 1) / cols
		return rows + r.Range(0, 2), cols
	case 3:
		return r.Range(nchan, 40), r.Range(1, 8)
	default:
		rows = r.Range(1, 4)
		cols = (nchan+rows-1)/rows + r.Range(0, 1)
		return rows, cols
	}
}

func genChans(r *lib.Rng, nchan, nsamp int, projChance int, sfByRow bool) []Chan {
	rows, cols := genGeometry(r, nchan)
	perm := make([]int, nchan)
	for i := range perm {
		perm[i] = i + 1
	}
	if r.Chance(1, 3) {
		for i := nchan - 1; i > 0; i-- {
			j := r.Intn(i + 1)
			perm[i], perm[j] = perm[j], perm[i]
		}
	}
	cells := r.Intn(rows*cols - nchan + 1) // first cell used
	chans := make([]Chan, nchan)
	colMajor := r.Bool()
	for i := range chans {
		k := cells + i
		row, col := k/cols, k%cols
		if colMajor {
			col, row = k/rows, k%rows
		}
		ch := Chan{Name: fmt.Sprintf("chan%d", perm[i]), Number: perm[i], Rows: rows, Cols: cols, Row: row, Col: col,
			PX: r.Range(-50, 50), PY: r.Range(-50, 50), PName: tricky(r, fmt.Sprintf("px%d", r.Range(0, 999)))}
		if r.Chance(1, 10) {
			ch.Name = fmt.Sprintf("err%d", perm[i])
		}
		if r.Chance(1, 4) {
			ch.Name = tricky(r, "") + ch.Name // the number at the end keeps names (= file names) distinct
		}
		if sfByRow {
			ch.SfOff = row
		} else if r.Chance(1, 3) {
			ch.SfOff = r.Range(0, 70)
		}
		if r.Chance(projChance, 100) {
			ch.NBases = r.Range(1, 4)
			if r.Chance(1, 10) {
				ch.NBases = r.Range(5, 8)
			}
			ch.Proj = genMatrix(r, ch.NBases*nsamp)
			ch.Basis = genMatrix(r, ch.NBases*nsamp)
			ch.Desc = tricky(r, descs[r.Intn(len(descs))])
		}
		chans[i] = ch
	}
	// Readout groups of different sizes (Abaco groups with different Nchan, Lancero devices with different
	// rows/cols): every channel carries its OWN array size. Half of the multi-channel configurations get
	// 2-3 groups whose (rows, cols) differ from the first group's.
	if nchan >= 2 && r.Chance(1, 2) {
		start := r.Range(1, nchan-1)
		for start < nchan {
			size := r.Range(1, nchan-start)
			grows, gcols := genGeometry(r, size)
			if grows == rows && gcols == cols {
				grows += r.Range(1, 4)
			}
			if r.Bool() && gcols == cols {
				gcols += r.Range(1, 3)
			}
			first := r.Intn(grows*gcols - size + 1)
			for j := 0; j < size; j++ {
				k := first + j
				ch := &chans[start+j]
				ch.Rows, ch.Cols, ch.Row, ch.Col = grows, gcols, k/gcols, k%gcols
				if sfByRow {
					ch.SfOff = ch.Row
				}
			}
			start += size
		}
	}
	return chans
}

func genLengths(r *lib.Rng, tier string) (npre, nsamp int) {
	switch r.Intn(20) {
	case 0:
		nsamp = r.Pick([]int{256, 500, 1024})
		if tier == "thorough" && r.Chance(1, 4) {
			nsamp = r.Pick([]int{2048, 4096, 10000})
		}
	case 1, 2:
		nsamp = r.Range(65, 128)
	case 3:
		nsamp = r.Range(1, 3)
	default:
		nsamp = r.Range(4, 64)
	}
	npre = r.Range(0, nsamp-1)
	if r.Chance(1, 2) {
		npre = nsamp / 4
	}
	// legal but unusual record geometries: nothing before START refuses them (PrepareRun takes any lengths; the RPC
	// layer only wants both positive): as many or more pre-trigger samples than samples, tiny records, one sample
	if r.Chance(1, 6) {
		switch r.Intn(5) {
		case 0:
			npre = nsamp
		case 1:
			npre = nsamp + r.Range(1, 9)
		case 2:
			nsamp = r.Range(1, 8)
			npre = nsamp
		case 3:
			nsamp, npre = 1, r.Pick([]int{0, 1, 2, 100})
		default:
			nsamp = r.Range(2, 4)
			npre = r.Pick([]int{0, nsamp - 1, nsamp, 3 * nsamp})
		}
	}
	return
}

func genSfDiv(r *lib.Rng, rows int) int {
	switch r.Intn(4) {
	case 0:
		return rows
	case 1:
		return 64
	default:
		// 0 = sources that never set subframeDivisions (Triangle, Roach): the counter is then just the offset
		return r.Pick([]int{0, 0, 0, 1, 1, 2, 4, 8, 32, 64, 100, 1000000})
	}
}

// ---------------------------------------------------------------- cases

func genWriterCase(r *lib.Rng, id int64, tier string) Case {
	kind := []string{"w22", "w3", "woff"}[r.Intn(3)]
	npre, nsamp := genLengths(r, tier)
	ch := genChans(r, 1, nsamp, 0, r.Bool())[0]
	c := Case{ID: id, Kind: kind, Source: tricky(r, sources[r.Intn(len(sources))]), NPre: npre, NSamp: nsamp,
		Nchan: r.Range(1, 300), Index: r.Range(0, 299), Spp: r.Pick([]int{1, 1, 1, 2, 4}), TbBits: genTimebase(r)}
	c.SfDiv = genSfDiv(r, ch.Rows)
	cx := recCtx{nsamp: nsamp, npre: npre, div: c.SfDiv, offset: ch.SfOff, wrongLen: r.Chance(1, 3), extremePre: kind != "w22" && r.Chance(1, 4)}
	if kind == "w3" {
		cx.wrongLen = r.Chance(2, 3) // variable length is the point of LJH 3
	}
	if kind == "woff" {
		ch.PRows, ch.PCols = r.Range(1, 5), r.Range(1, 12)
		ch.BRows, ch.BCols = ch.PCols, ch.PRows
		if r.Chance(1, 4) {
			ch.BRows, ch.BCols = r.Range(1, 6), r.Range(1, 6)
		}
		ch.Proj = genMatrix(r, ch.PRows*ch.PCols)
		ch.Basis = genMatrix(r, ch.BRows*ch.BCols)
		ch.Desc = tricky(r, descs[r.Intn(len(descs))])
		cx.nb = ch.PRows
		cx.wrongNb = r.Chance(1, 3)
		cx.wrongLen = true
	}
	c.Chans = []Chan{ch}
	nops := r.Range(0, 8)
	if r.Chance(1, 8) {
		nops = r.Range(8, 30)
	}
	long := nsamp > 128
	for i := 0; i < nops; i++ {
		switch r.Intn(10) {
		case 0:
			c.Ops = append(c.Ops, Op{Op: "flush"})
		case 1:
			if r.Chance(1, 3) {
				c.Ops = append(c.Ops, Op{Op: "create"})
			} else if kind != "w22" && r.Chance(1, 2) {
				c.Ops = append(c.Ops, Op{Op: "header"})
			} else {
				c.Ops = append(c.Ops, Op{Op: "flush"})
			}
		default:
			n := r.Range(1, 4)
			if long {
				n = 1
			}
			o := Op{Op: "rec"}
			for k := 0; k < n; k++ {
				o.Recs = append(o.Recs, genRec(r, cx))
			}
			c.Ops = append(c.Ops, o)
		}
	}
	return c
}

func genBenchCase(r *lib.Rng, id int64, tier string) Case {
	npre, nsamp := genLengths(r, tier)
	nchan := r.Pick([]int{1, 1, 2, 2, 3, 4, 4, 6, 8})
	if nsamp > 128 {
		nchan = r.Range(1, 2)
	}
	sfByRow := r.Bool()
	chans := genChans(r, nchan, nsamp, 50, sfByRow)
	if nsamp > 128 {
		for i := range chans {
			if chans[i].NBases > 1 {
				chans[i].NBases = 1
				chans[i].Proj = chans[i].Proj[:nsamp]
				chans[i].Basis = chans[i].Basis[:nsamp]
			}
		}
	}
	c := Case{ID: id, Kind: "bench", Source: tricky(r, sources[r.Intn(len(sources))]), NPre: npre, NSamp: nsamp, Chans: chans,
		UseMap: r.Chance(1, 2), Signed: r.Chance(1, 3)}
	if c.UseMap && r.Chance(1, 3) {
		// sparse / offset channel numbering: some channels (mostly not the first) carry a number outside the map
		usedZero := false
		for i := range c.Chans {
			if (i > 0 && r.Chance(1, 2)) || (i == 0 && r.Chance(1, 5)) {
				n := nchan + 1 + i + r.Intn(3)*nchan
				if !usedZero && r.Chance(1, 6) {
					n, usedZero = 0, true
				}
				c.Chans[i].Number = n
				c.Chans[i].Name = fmt.Sprintf("chan%d", n)
			}
		}
	}
	c.SfDiv = genSfDiv(r, chans[0].Rows)
	if sfByRow {
		c.SfDiv = chans[0].Rows
	}
	c.RateNum, c.RateDen = genRate(r)
	malformed := r.Chance(1, 6)
	anyProj := false
	for _, ch := range chans {
		if ch.NBases > 0 {
			anyProj = true
		}
	}
	nops := r.Range(3, 14)
	if tier == "thorough" {
		nops = r.Range(3, 40)
	}
	active := false
	budget := 60 // records per case
	if nsamp > 128 {
		budget = 6
	}
	pulse := func() Op {
		// record lengths asked for through SourceControl.ConfigurePulseLengths: another pre-trigger length with the same
		// record length (the change that an LJH 2.2 file cannot show), other lengths, the lengths in force, invalid ones
		ns, np := nsamp, npre
		switch r.Intn(8) {
		case 0, 1, 2:
			if nsamp >= 5 {
				np = r.Range(3, nsamp-1)
			} else {
				ns, np = r.Range(4, 40), 3
			}
		case 3, 4:
			ns = r.Range(4, 64)
			np = r.Range(3, ns-1)
		case 5:
			// unchanged
		case 6:
			ns, np = r.Pick([]int{0, -1, 2, 3, 5}), r.Pick([]int{0, -2, 1, 2, 5, 9})
		default:
			ns, np = nsamp+r.Range(1, 5), npre
		}
		return Op{Op: "pulse", NS: ns, NP: np}
	}
	pulseChance := r.Pick([]int{0, 0, 1, 2, 3}) // per case: how eager the operator is to change lengths (x/10 after a PAUSE, x/20 anywhere)
	for i := 0; i < nops; i++ {
		if pulseChance > 0 && r.Chance(pulseChance, 20) {
			c.Ops = append(c.Ops, pulse())
			continue
		}
		k := r.Intn(20)
		switch {
		case !active && k < 12:
			o := Op{Op: "start", T22: r.Chance(3, 5), T3: r.Chance(2, 5), TOFF: anyProj && r.Chance(3, 5)}
			if !(o.T22 || o.T3 || o.TOFF) {
				if malformed && r.Bool() {
					// all false: refused
				} else {
					switch r.Intn(3) {
					case 0:
						o.T22 = true
					case 1:
						o.T3 = true
					default:
						o.T22, o.T3, o.TOFF = true, true, anyProj
					}
				}
			}
			if malformed && !anyProj && r.Chance(1, 3) {
				o.TOFF = true // refused: no projectors
			}
			c.Ops = append(c.Ops, o)
			if o.T22 || o.T3 || (o.TOFF && anyProj) {
				active = !(o.TOFF && !anyProj)
			}
		case k < 12 || (k < 14 && budget > 0):
			ch := r.Intn(nchan)
			cx := recCtx{bench: true, nsamp: nsamp, npre: npre, nb: chans[ch].NBases, div: c.SfDiv, offset: chans[ch].SfOff,
				wrongLen: malformed || r.Chance(1, 8), wrongNb: malformed && r.Chance(1, 2)}
			n := r.Range(1, 5)
			if r.Chance(1, 12) {
				n = 0
			}
			if r.Chance(1, 25) && nsamp <= 16 {
				n = r.Range(20, 60)
			}
			if n > budget {
				n = budget
			}
			budget -= n
			o := Op{Op: "pub", Ch: ch, Recs: []Rec{}}
			for j := 0; j < n; j++ {
				o.Recs = append(o.Recs, genRec(r, cx))
			}
			c.Ops = append(c.Ops, o)
		case k == 14:
			c.Ops = append(c.Ops, Op{Op: "flush", Ch: r.Intn(nchan)})
		case k == 15 || k == 16:
			c.Ops = append(c.Ops, Op{Op: "pause"})
			if pulseChance > 0 && r.Chance(pulseChance, 10) { // PAUSE, change lengths, UNPAUSE, more records
				c.Ops = append(c.Ops, pulse(), Op{Op: "unpause"})
			}
		case k == 17:
			c.Ops = append(c.Ops, Op{Op: "unpause"})
		case k == 18:
			if malformed || !active {
				c.Ops = append(c.Ops, Op{Op: "start", T22: r.Bool(), T3: r.Bool(), TOFF: anyProj && r.Bool()}) // maybe while already writing
				if !active {
					last := c.Ops[len(c.Ops)-1]
					active = last.T22 || last.T3 || last.TOFF
				}
			} else {
				c.Ops = append(c.Ops, Op{Op: "unpause"})
			}
		default:
			c.Ops = append(c.Ops, Op{Op: "stop"})
			active = false
		}
	}
	return c
}

// ---------------------------------------------------------------- corpus

func simpleRec(frame, ns int64, pre int, data []uint16, coefs ...float64) Rec {
	r := Rec{Frame: frame, Ns: ns, Pre: pre, Data: data, Mean: math.Float64bits(1000.5), Delta: math.Float64bits(-2.25), Resid: math.Float64bits(3.0)}
	r.Coefs = []uint64{}
	for _, c := range coefs {
		r.Coefs = append(r.Coefs, math.Float64bits(c))
	}
	return r
}

func ramp(n, from int) []uint16 {
	d := make([]uint16, n)
	for i := range d {
		d[i] = uint16(from + i)
	}
	return d
}

func fbits(xs ...float64) []uint64 {
	out := make([]uint64, len(xs))
	for i, x := range xs {
		out[i] = math.Float64bits(x)
	}
	return out
}

func corpus() []Case {
	// a 4 x 2 array, 8 channels, row-major: channel index 5 sits at row 2 / column 1 (the LJH 3 defect witness)
	var arr []Chan
	for i := 0; i < 8; i++ {
		arr = append(arr, Chan{Name: fmt.Sprintf("chan%d", i+1), Number: i + 1, Rows: 4, Cols: 2, Row: i / 2, Col: i % 2, SfOff: i / 2,
			PX: 10 * i, PY: -i, PName: fmt.Sprintf("p%d", i)})
	}
	arrP := append([]Chan(nil), arr...)
	arrP[5].NBases = 2
	arrP[5].Proj = fbits(1, 0, 0, 0, 0, 1, 0, 0)
	arrP[5].Basis = fbits(1, 0, 0, 1, 0, 0, 0, 0)
	arrP[5].Desc = "verif model"
	nan := math.NaN()
	return []Case{
		// 1: the known defect: LJH 3 header of a channel away from row 0 / column 0
		{Kind: "bench", Source: "Lancero", SfDiv: 4, NPre: 1, NSamp: 4, RateNum: 100000, RateDen: 1, Chans: arr, Ops: []Op{
			{Op: "start", T3: true},
			{Op: "pub", Ch: 5, Recs: []Rec{simpleRec(7, 1700000000123456789, 1, ramp(4, 100)), simpleRec(9, 1700000000223456789, 1, ramp(4, 200))}},
			{Op: "stop"}}},
		// 2: all three types, pause gate, flush, two cycles, negative and extreme times
		{Kind: "bench", Source: "Lancero", SfDiv: 4, NPre: 1, NSamp: 4, RateNum: 125000000, RateDen: 1024, UseMap: true, Chans: arrP, Ops: []Op{
			{Op: "pause"},
			{Op: "start", T22: true, T3: true, TOFF: true},
			{Op: "pub", Ch: 5, Recs: []Rec{simpleRec(7, -1, 1, ramp(4, 100), 1.5, nan), simpleRec(8, -1500, 1, ramp(4, 65532), math.Inf(1), -0.0)}},
			{Op: "pub", Ch: 2, Recs: []Rec{simpleRec(3, math.MaxInt64, 1, ramp(4, 0))}},
			{Op: "pause"},
			{Op: "pub", Ch: 5, Recs: []Rec{simpleRec(10, 5000, 1, ramp(4, 7), 1, 2)}},
			{Op: "flush", Ch: 5},
			{Op: "unpause"},
			{Op: "pub", Ch: 5, Recs: []Rec{simpleRec(11, math.MinInt64, 1, ramp(4, 9), 3, 4), simpleRec(12, 999, 1, ramp(3, 9), 3, 4), simpleRec(13, 1000, 1, ramp(4, 9), 5)}},
			{Op: "stop"},
			{Op: "pub", Ch: 5, Recs: []Rec{simpleRec(14, 1, 1, ramp(4, 9), 3, 4)}},
			{Op: "start", TOFF: true},
			{Op: "pub", Ch: 5, Recs: []Rec{simpleRec(15, 2000, 1, ramp(4, 9), 6, 7)}},
			{Op: "pub", Ch: 0, Recs: []Rec{simpleRec(16, 2000, 1, ramp(4, 9))}},
			{Op: "stop"}}},
		// 3: PAUSE; STOP; START{OFF only}: the channel must write (C06's SetOFF fix)
		{Kind: "bench", Source: "Abaco", SfDiv: 64, NPre: 1, NSamp: 4, RateNum: 1000000, RateDen: 1, Chans: arrP[4:6], Ops: []Op{
			{Op: "start", T22: true}, {Op: "pause"}, {Op: "stop"}, {Op: "pause"}, {Op: "start", TOFF: true},
			{Op: "pub", Ch: 1, Recs: []Rec{simpleRec(1, 1000, 1, ramp(4, 1), 1, 2), simpleRec(2, 2000, 1, ramp(4, 2), 3, 4)}},
			{Op: "stop"}}},
		// 4: refused requests, stop while idle, nothing published
		{Kind: "bench", Source: "Triangle", SfDiv: 1, NPre: 2, NSamp: 8, RateNum: 10000, RateDen: 1, Chans: arr[:2], Ops: []Op{
			{Op: "stop"}, {Op: "start"}, {Op: "start", TOFF: true}, {Op: "start", T22: true}, {Op: "start", T3: true},
			{Op: "pub", Ch: 0, Recs: []Rec{}}, {Op: "stop"}, {Op: "start", T22: true, T3: true},
			{Op: "pub", Ch: 1, Recs: []Rec{simpleRec(1, 1, 2, ramp(7, 1))}}, {Op: "stop"}}},
		// two readout groups of different sizes: rcCode(0,0,4,2) and rcCode(5,1,8,2); every header must carry the channel's own array size
		{Kind: "bench", Source: "Abaco", SfDiv: 64, NPre: 1, NSamp: 4, RateNum: 1000000, RateDen: 1, Chans: []Chan{
			{Name: "chan1", Number: 1, Rows: 4, Cols: 2, Row: 0, Col: 0, NBases: 1, Proj: fbits(1, 0, 0, 0), Basis: fbits(1, 0, 0, 0), Desc: "m"},
			{Name: "chan2", Number: 2, Rows: 8, Cols: 2, Row: 5, Col: 1, NBases: 1, Proj: fbits(0, 1, 0, 0), Basis: fbits(0, 1, 0, 0), Desc: "m"},
			{Name: "chan3", Number: 3, Rows: 3, Cols: 5, Row: 2, Col: 4}}, Ops: []Op{
			{Op: "start", T22: true, T3: true, TOFF: true},
			{Op: "pub", Ch: 0, Recs: []Rec{simpleRec(1, 1000, 1, ramp(4, 1), 1)}},
			{Op: "pub", Ch: 1, Recs: []Rec{simpleRec(2, 2000, 1, ramp(4, 2), 2), simpleRec(3, 3000, 1, ramp(4, 3), 3)}},
			{Op: "pub", Ch: 2, Recs: []Rec{simpleRec(4, 4000, 1, ramp(4, 4))}},
			{Op: "stop"}}},
		// record lengths changed through the RPC entry point: refused while a cycle is open (writing or paused), so all
		// records of a file have the header's lengths; accepted between cycles (new lengths in the next headers, projectors gone)
		{Kind: "bench", Source: "Triangle", SfDiv: 1, NPre: 100, NSamp: 400, RateNum: 100000, RateDen: 1, Chans: []Chan{
			{Name: "chan1", Number: 1, Rows: 1, Cols: 2, Row: 0, Col: 0}, {Name: "chan2", Number: 2, Rows: 1, Cols: 2, Row: 0, Col: 1}}, Ops: []Op{
			{Op: "start", T22: true, T3: true},
			{Op: "pub", Ch: 0, Recs: []Rec{simpleRec(1, 1000, 0, ramp(4, 1)), simpleRec(2, 2000, 0, ramp(4, 2))}},
			{Op: "pulse", NS: 400, NP: 250},
			{Op: "pause"}, {Op: "pulse", NS: 400, NP: 250}, {Op: "unpause"},
			{Op: "pub", Ch: 0, Recs: []Rec{simpleRec(3, 3000, 0, ramp(4, 3)), simpleRec(4, 4000, 0, ramp(4, 4))}},
			{Op: "stop"},
			{Op: "pulse", NS: 8, NP: 0}, {Op: "pulse", NS: 8, NP: 8}, {Op: "pulse", NS: 8, NP: 5}, {Op: "pulse", NS: 8, NP: 5},
			{Op: "start", T22: true, T3: true},
			{Op: "pub", Ch: 1, Recs: []Rec{simpleRec(5, 5000, 0, ramp(4, 5)), {Frame: 6, Ns: 6000, Data: ramp(7, 1), Coefs: []uint64{}, Odd: true}}},
			{Op: "stop"}}},
		{Kind: "bench", Source: "Abaco", SfDiv: 64, NPre: 3, NSamp: 6, RateNum: 1000000, RateDen: 1, Chans: []Chan{
			{Name: "chan1", Number: 1, Rows: 2, Cols: 1, Row: 1, Col: 0, NBases: 1, Proj: fbits(1, 0, 0, 0, 0, 0), Basis: fbits(1, 0, 0, 0, 0, 0), Desc: "m"}}, Ops: []Op{
			{Op: "start", TOFF: true}, {Op: "pub", Ch: 0, Recs: []Rec{simpleRec(1, 1000, 0, ramp(6, 1), 2.5)}},
			{Op: "pause"}, {Op: "pulse", NS: 6, NP: 4}, {Op: "unpause"},
			{Op: "pub", Ch: 0, Recs: []Rec{simpleRec(2, 2000, 0, ramp(6, 2), 3.5)}}, {Op: "stop"},
			{Op: "pulse", NS: 6, NP: 4}, {Op: "start", TOFF: true}, {Op: "start", T22: true},
			{Op: "pub", Ch: 0, Recs: []Rec{simpleRec(3, 3000, 0, ramp(6, 3), 4.5)}}, {Op: "stop"}}},
		// as many pre-trigger samples as samples (8/8), all three types, two batches (the header is written with the first,
		// the second must find it written); a signed source: the files hold the samples as they are
		{Kind: "bench", Source: "Abaco", SfDiv: 64, NPre: 8, NSamp: 8, RateNum: 1000000, RateDen: 1, Signed: true, Chans: []Chan{
			{Name: "chan1", Number: 1, Rows: 2, Cols: 1, Row: 1, Col: 0, NBases: 1, Proj: fbits(1, 0, 0, 0, 0, 0, 0, 0), Basis: fbits(1, 0, 0, 0, 0, 0, 0, 0), Desc: "m"}}, Ops: []Op{
			{Op: "start", T22: true, T3: true, TOFF: true},
			{Op: "pub", Ch: 0, Recs: []Rec{simpleRec(1, 1000, 0, []uint16{65534, 65535, 0, 1, 2, 32767, 32768, 32769}, 2.5)}},
			{Op: "pub", Ch: 0, Recs: []Rec{simpleRec(2, 2000, 0, ramp(8, 65530), 3.5), simpleRec(3, 3000, 0, ramp(8, 32760), 4.5)}},
			{Op: "stop"}}},
		// one-sample records, more pre-trigger samples than samples
		{Kind: "bench", Source: "Roach", SfDiv: 0, NPre: 5, NSamp: 1, RateNum: 10000, RateDen: 1, Chans: []Chan{
			{Name: "chan1", Number: 1, Rows: 1, Cols: 1, NBases: 2, Proj: fbits(1, 2), Basis: fbits(3, 4), Desc: ""}}, Ops: []Op{
			{Op: "start", T22: true, T3: true, TOFF: true},
			{Op: "pub", Ch: 0, Recs: []Rec{simpleRec(1, 1000, 0, ramp(1, 7), 1, 2), simpleRec(2, 2000, 0, ramp(1, 8), 3, 4)}},
			{Op: "flush", Ch: 0},
			{Op: "pub", Ch: 0, Recs: []Rec{simpleRec(3, 3000, 0, ramp(1, 9), 5, 6)}},
			{Op: "stop"}}},
		{Kind: "woff", Source: "z", SfDiv: 1, NPre: 8, NSamp: 8, Nchan: 1, Index: 0, Spp: 1, TbBits: math.Float64bits(1e-6),
			Chans: []Chan{{Name: "chan0", Number: 0, Rows: 1, Cols: 1, PRows: 1, PCols: 8, BRows: 8, BCols: 1,
				Proj: fbits(1, 0, 0, 0, 0, 0, 0, 0), Basis: fbits(1, 0, 0, 0, 0, 0, 0, 0), Desc: "m"}},
			Ops: []Op{{Op: "rec", Recs: []Rec{simpleRec(1, 2, 8, ramp(8, 0), 1), simpleRec(2, 3, 8, ramp(8, 0), 2)}}}},
		// an OFF model of more than 4 MiB (33 basis vectors for 8192-sample records: the header with its two float64
		// matrices is one 4.3 MB payload); the matrices are +0.0 after a few entries so that the case stays cheap to ship
		{Kind: "bench", Source: "Abaco", SfDiv: 64, NPre: 2048, NSamp: 8192, RateNum: 1000000, RateDen: 1, Chans: []Chan{
			{Name: "chan1", Number: 1, Rows: 1, Cols: 1, NBases: 33, Proj: fbits(1, -2.5, 1e-300), Basis: fbits(3, math.Inf(1)), Desc: "large model"}}, Ops: []Op{
			{Op: "start", TOFF: true},
			{Op: "pub", Ch: 0, Recs: []Rec{{Frame: 1, Ns: 1000, Data: ramp(5, 100), Mean: math.Float64bits(1.5), Coefs: make([]uint64, 33)}}},
			{Op: "pub", Ch: 0, Recs: []Rec{{Frame: 2, Ns: 2000, Data: ramp(5, 200), Resid: math.Float64bits(2.5), Coefs: make([]uint64, 33)},
				{Frame: 3, Ns: 3000, Data: ramp(5, 300), Coefs: make([]uint64, 33)}}},
			{Op: "stop"}}},
		// sub-frame divisions 0 (Triangle, Roach) with a non-zero offset, divisions 1; a pixel name, channel name, source name
		// and model description full of format verbs, quotes, backslashes and non-ASCII text
		{Kind: "bench", Source: "Tri%dangle 100% \"q\" \\ \u00b5", SfDiv: 0, NPre: 1, NSamp: 4, RateNum: 156250, RateDen: 1, UseMap: true, Chans: []Chan{
			{Name: "50%d chan1", Number: 1, Rows: 1, Cols: 2, Row: 0, Col: 0, SfOff: 3, PX: 1, PY: 2, PName: "AuBi 50%d absorber",
				NBases: 1, Proj: fbits(1, 0, 0, 0), Basis: fbits(1, 0, 0, 0), Desc: "basis %s \"v2\" <&> \u65e5\u672c \\"},
			{Name: "chan2", Number: 2, Rows: 1, Cols: 2, Row: 0, Col: 1, SfOff: 0, PX: 3, PY: 4, PName: "TES 100%"}}, Ops: []Op{
			{Op: "start", T22: true, T3: true, TOFF: true},
			{Op: "pub", Ch: 0, Recs: []Rec{simpleRec(7, 1000, 1, ramp(4, 1), 1), simpleRec(8, 2000, 1, ramp(4, 2), 2)}},
			{Op: "pub", Ch: 1, Recs: []Rec{simpleRec(9, 3000, 1, ramp(4, 3))}},
			{Op: "stop"}}},
		{Kind: "w22", Source: "%!e(MISSING)", SfDiv: 0, NPre: 1, NSamp: 3, Nchan: 2, Index: 1, Spp: 1, TbBits: math.Float64bits(6.4e-6),
			Chans: []Chan{{Name: "chan%s", Number: 2, Rows: 1, Cols: 2, Row: 0, Col: 1, SfOff: 5, PX: 3, PY: 4, PName: "AuBi 50%d absorber"}},
			Ops: []Op{{Op: "rec", Recs: []Rec{simpleRec(100, 17, 1, ramp(3, 5)), simpleRec(-4, 18, 1, ramp(3, 6))}}}},
		{Kind: "w22", Source: "Roach", SfDiv: 1, NPre: 1, NSamp: 3, Nchan: 2, Index: 1, Spp: 1, TbBits: math.Float64bits(6.4e-6),
			Chans: []Chan{{Name: "chan2", Number: 2, Rows: 1, Cols: 2, Row: 0, Col: 1, SfOff: 9, PName: "TES 100%"}},
			Ops: []Op{{Op: "rec", Recs: []Rec{simpleRec(100, 17, 1, ramp(3, 5))}}}},
		// the writers directly
		{Kind: "w22", Source: "Lancero", SfDiv: 32, NPre: 2, NSamp: 6, Nchan: 64, Index: 12, Spp: 1, TbBits: math.Float64bits(5e-8),
			Chans: []Chan{{Name: "chan12", Number: 12, Rows: 32, Cols: 2, Row: 12, Col: 1, SfOff: 12, PX: 3, PY: 4, PName: "pixel"}},
			Ops: []Op{{Op: "rec", Recs: []Rec{simpleRec(100, 1700000000000000, 2, ramp(6, 65530)), simpleRec(101, -5, 2, ramp(5, 1)),
				simpleRec((math.MaxInt64-12)/32, math.MaxInt64, 2, ramp(6, 0)), simpleRec(-(math.MaxInt64 / 32), math.MinInt64, 2, ramp(6, 32766))}},
				{Op: "flush"}, {Op: "create"}, {Op: "rec", Recs: []Rec{simpleRec(102, 0, 2, ramp(6, 9))}}}},
		{Kind: "w3", Source: "x", SfDiv: 64, NPre: 2, NSamp: 6, Nchan: 1, Index: 0, Spp: 1, TbBits: math.Float64bits(1.0 / 122070.3125),
			Chans: []Chan{{Name: "chan1", Number: 1, Rows: 4, Cols: 2, Row: 2, Col: 1, SfOff: 2}},
			Ops: []Op{{Op: "rec", Recs: []Rec{simpleRec(math.MaxInt64, math.MinInt64, 2147483647, ramp(0, 0)), simpleRec(math.MinInt64, math.MaxInt64, -2147483648, ramp(9, 65530))}},
				{Op: "header"}, {Op: "rec", Recs: []Rec{simpleRec(5, 5, 3, ramp(1, 7))}}}},
		{Kind: "woff", Source: "y", SfDiv: 8, NPre: 100, NSamp: 400, Nchan: 3, Index: 2, Spp: 1, TbBits: math.Float64bits(6.4e-6),
			Chans: []Chan{{Name: "chan3", Number: 3, Rows: 8, Cols: 1, Row: 2, Col: 0, SfOff: 2, PRows: 2, PCols: 3, BRows: 3, BCols: 2,
				Proj: fbits(1, 2, 3, 4, 5, nan), Basis: fbits(-1, -2, math.Inf(-1), 0.1, 1e300, 5e-324), Desc: "verif model", PX: 1, PY: 2, PName: "n"}},
			Ops: []Op{{Op: "rec", Recs: []Rec{simpleRec(math.MaxInt64, math.MinInt64, 2147483647, ramp(3, 0), 1, nan), simpleRec(1, 2, 3, ramp(0, 0), 1),
				simpleRec(math.MinInt64, -1, -2147483648, ramp(2, 0), math.Inf(1), 1e300)}}, {Op: "header"}, {Op: "create"}}},
	}
}

func gen(seed uint64, tier string) []interface{} {
	r := lib.NewRng(seed)
	n := 260
	if tier == "thorough" {
		n = 4000
	}
	var out []interface{}
	id := int64(1)
	for _, c := range corpus() {
		c.ID = id
		id++
		out = append(out, c)
	}
	for i := 0; i < n; i++ {
		rr := r.Fork()
		if i%5 < 2 {
			out = append(out, genWriterCase(rr, id, tier))
		} else {
			out = append(out, genBenchCase(rr, id, tier))
		}
		id++
	}
	return out
}
