// C05 harness: output files (LJH 2.2, LJH 3, OFF) written by the real packages, read back from disk.
//
// Two levels:
//
//	w22 / w3 / woff : the writers of packages ljh and off through their public API
//	bench           : a prepared source (VerifNewBench) driven through WriteControl START/PAUSE/UNPAUSE/STOP,
//	                  PublishData with harness-made records, Flush; after every STOP the files of the cycle are read.
//
// Glue done here (outside the Coq model): splitting each file into header and body, parsing the header's
// key/value lines (LJH 2.2) or JSON value (LJH 3, OFF) into fields, float32() conversion of analysis values
// (oracle), and Go's rendering of 1.0/SampleRate (oracle for the model's header fields).
package main

import (
	"encoding/json"
	"fmt"
	"io"
	"math"
	"os"
	"path/filepath"
	"regexp"
	"sort"
	"strings"
	"time"

	"github.com/usnistgov/dastard"
	"github.com/usnistgov/dastard/ljh"
	"github.com/usnistgov/dastard/off"
	"gonum.org/v1/gonum/mat"
	"verifharness/lib"
)

// ---------------------------------------------------------------- case format

type Rec struct {
	Frame int64    `json:"f"`
	Ns    int64    `json:"t"`
	Pre   int      `json:"p"`
	Data  []uint16 `json:"d"`
	Mean  uint64   `json:"m"` // float64 bit patterns of the analysis values
	Delta uint64   `json:"dl"`
	Resid uint64   `json:"rs"`
	Coefs []uint64 `json:"c"`
	Odd   bool     `json:"odd,omitempty"` // bench: keep this record's own length (a record of the wrong length); otherwise it is cut to the length in force
}

type Op struct {
	Op   string `json:"op"` // writer level: rec flush create header; bench: start pub flush pause unpause stop
	Ch   int    `json:"ch,omitempty"`
	T22  bool   `json:"t22,omitempty"`
	T3   bool   `json:"t3,omitempty"`
	TOFF bool   `json:"toff,omitempty"`
	Recs []Rec  `json:"recs,omitempty"`
	NS   int    `json:"ns,omitempty"` // pulse: SizeObject.Nsamp
	NP   int    `json:"np,omitempty"` // pulse: SizeObject.Npre
}

type Chan struct {
	Name   string   `json:"name"`
	Number int      `json:"number"`
	Rows   int      `json:"rows"`
	Cols   int      `json:"cols"`
	Row    int      `json:"row"`
	Col    int      `json:"col"`
	SfOff  int      `json:"sfoff"`
	PX     int      `json:"px"`
	PY     int      `json:"py"`
	PName  string   `json:"pname"`
	NBases int      `json:"nbases"` // 0: no projectors
	Proj   []uint64 `json:"proj,omitempty"`
	Basis  []uint64 `json:"basis,omitempty"`
	PRows  int      `json:"prows,omitempty"` // writer level only: arbitrary shapes
	PCols  int      `json:"pcols,omitempty"`
	BRows  int      `json:"brows,omitempty"`
	BCols  int      `json:"bcols,omitempty"`
	Desc   string   `json:"desc,omitempty"`
}

type Case struct {
	ID     int64  `json:"id"`
	Kind   string `json:"kind"` // w22 w3 woff bench
	Source string `json:"source"`
	SfDiv  int    `json:"sfdiv"`
	NPre   int    `json:"npre"`
	NSamp  int    `json:"nsamp"`
	Nchan  int    `json:"nchan,omitempty"` // writer level: the "Number of channels" field
	Index  int    `json:"index,omitempty"` // writer level: ChannelIndex
	Spp    int    `json:"spp,omitempty"`   // writer level: FramesPerSample
	// bench: sample rate = RateNum / RateDen (RateDen a power of two);  writer level: Timebase = TbBits
	RateNum int64  `json:"ratenum,omitempty"`
	RateDen int64  `json:"rateden,omitempty"`
	TbBits  uint64 `json:"tbbits,omitempty"`
	UseMap  bool   `json:"usemap,omitempty"`
	Signed  bool   `json:"signed,omitempty"` // bench: the source delivers signed samples (DataRecord.signed)
	Chans   []Chan `json:"chans"`
	Ops     []Op   `json:"ops"`
}

// ---------------------------------------------------------------- Coq rendering

func zz(v int64) string {
	if v > -(1<<20) && v < (1<<20) {
		return lib.Z(v)
	}
	if v >= 0 && v < (1<<62) {
		return fmt.Sprintf("(IZ %d)", v)
	}
	neg := v < 0
	mag := uint64(v)
	if neg {
		mag = uint64(-v) // MinInt64: -v wraps to MinInt64 whose uint64 is 2^63, the right magnitude
	}
	return fmt.Sprintf("(J %s %d %d)", lib.B(neg), mag>>32, mag&0xffffffff)
}

func zu(v uint64) string {
	if v < (1 << 62) {
		return zz(int64(v))
	}
	return fmt.Sprintf("(J false %d %d)", v>>32, v&0xffffffff)
}

func text(s string) string { return lib.ZListBytes([]byte(s)) }

func pack(b []byte) string {
	var sb strings.Builder
	sb.WriteByte('[')
	for i := 0; i < len(b); i += 7 {
		var v uint64
		for k := 0; k < 7 && i+k < len(b); k++ {
			v |= uint64(b[i+k]) << (8 * uint(k))
		}
		if i > 0 {
			sb.WriteByte(';')
		}
		fmt.Fprintf(&sb, "%d", v)
	}
	sb.WriteString("]%uint63")
	return sb.String()
}

func packWords(w int, xs []uint64) string {
	b := make([]byte, 0, w*len(xs))
	for _, x := range xs {
		for k := 0; k < w; k++ {
			b = append(b, byte(x>>(8*uint(k))))
		}
	}
	return pack(b)
}

func f32bits(bits64 uint64) uint32 { return math.Float32bits(float32(math.Float64frombits(bits64))) }

func recTerm(r Rec) string {
	d := make([]uint64, len(r.Data))
	for i, v := range r.Data {
		d[i] = uint64(v)
	}
	c := make([]uint64, len(r.Coefs))
	for i, v := range r.Coefs {
		c[i] = uint64(f32bits(v))
	}
	return fmt.Sprintf("R %s %s %s %d %s %s %s %s %d %s", zz(r.Frame), zz(r.Ns), zz(int64(r.Pre)), len(d), packWords(2, d),
		zu(uint64(f32bits(r.Mean))), zu(uint64(f32bits(r.Delta))), zu(uint64(f32bits(r.Resid))), len(c), packWords(4, c))
}

// padBits: a matrix given with fewer than rows*cols entries is filled up with +0.0 (keeps big models small in the case file)
func padBits(bits []uint64, n int) []uint64 {
	if len(bits) >= n {
		return bits[:n]
	}
	out := make([]uint64, n)
	copy(out, bits)
	return out
}

func matTerm(rows, cols int, bits []uint64) string {
	bits = padBits(bits, rows*cols)
	k := len(bits)
	for k > 0 && bits[k-1] == 0 {
		k--
	}
	if len(bits)-k > 4096 { // a long tail of +0.0: not spelled out
		return fmt.Sprintf("(MXpad %d %d %d %s)", rows, cols, k, packWords(8, bits[:k]))
	}
	return fmt.Sprintf("(MX %d %d %s)", rows, cols, packWords(8, bits))
}

// rle renders a large body losslessly as raw chunks and runs of zero bytes.
func rle(b []byte) string {
	var parts []string
	raw := func(x []byte) {
		for len(x) > 0 {
			n := len(x)
			if n > 14000 {
				n = 14000
			}
			parts = append(parts, fmt.Sprintf("PRaw %d %s", n, pack(x[:n])))
			x = x[n:]
		}
	}
	start := 0
	for i := 0; i < len(b); {
		if b[i] != 0 {
			i++
			continue
		}
		j := i
		for j < len(b) && b[j] == 0 {
			j++
		}
		if j-i >= 4096 {
			raw(b[start:i])
			parts = append(parts, fmt.Sprintf("PZero %d", j-i))
			start = j
		}
		i = j
	}
	raw(b[start:])
	return lib.List(parts)
}

// ---------------------------------------------------------------- header fields

type H22 struct {
	VMaj, VMin                    int64
	Rows, Cols, Row, Col, Nchan   int64
	Name                          string
	Number, Index, SfDiv, SfOff   int64
	Word, NPre, NSamp, Spp        int64
	TbM, TbE                      int64
	PX, PY                        int64
	PName, Source                 string
}

func (h H22) term() string {
	return fmt.Sprintf("(mkh22 %s %s %s %s %s %s %s %s %s %s %s %s %s %s %s %s %s %s %s %s %s %s)",
		zz(h.VMaj), zz(h.VMin), zz(h.Rows), zz(h.Cols), zz(h.Row), zz(h.Col), zz(h.Nchan), text(h.Name), zz(h.Number), zz(h.Index),
		zz(h.SfDiv), zz(h.SfOff), zz(h.Word), zz(h.NPre), zz(h.NSamp), zz(h.Spp), zz(h.TbM), zz(h.TbE), zz(h.PX), zz(h.PY),
		text(h.PName), text(h.Source))
}

type H3 struct {
	Fmt, Ver                           string
	Tb                                 uint64
	Rows, Cols, SfDiv, Row, Col, SfOff int64
}

func (h H3) term() string {
	return fmt.Sprintf("(mkh3 %s %s %s %s %s %s %s %s %s)", text(h.Fmt), text(h.Ver), zu(h.Tb),
		zz(h.Rows), zz(h.Cols), zz(h.SfDiv), zz(h.Row), zz(h.Col), zz(h.SfOff))
}

type HOFF struct {
	Fmt, Ver                                      string
	Index                                         int64
	Name                                          string
	Number, MaxPre, MaxSamp                       int64
	Tb                                            uint64
	NBases, PRows, PCols, BRows, BCols            int64
	Desc                                          string
	Rows, Cols, Nchan, SfDiv, Col, Row, SfOff     int64
	PX, PY                                        int64
	PName, Source                                 string
}

func (h HOFF) term() string {
	return fmt.Sprintf("(mkhoff %s %s %s %s %s %s %s %s %s %s %s %s %s %s %s %s %s %s %s %s %s %s %s %s %s)",
		text(h.Fmt), text(h.Ver), zz(h.Index), text(h.Name), zz(h.Number), zz(h.MaxPre), zz(h.MaxSamp), zu(h.Tb),
		zz(h.NBases), zz(h.PRows), zz(h.PCols), zz(h.BRows), zz(h.BCols), text(h.Desc),
		zz(h.Rows), zz(h.Cols), zz(h.Nchan), zz(h.SfDiv), zz(h.Col), zz(h.Row), zz(h.SfOff), zz(h.PX), zz(h.PY),
		text(h.PName), text(h.Source))
}

// fileObs is what the harness saw of one file.
type fileObs struct {
	State string `json:"state"` // absent bad file
	Why   string `json:"why,omitempty"`
	Size  int64  `json:"size,omitempty"`
	HLen  int64  `json:"hlen,omitempty"`
	Hdr   string `json:"hdr,omitempty"`
	NRecB int    `json:"bodybytes,omitempty"`
	body  []byte
}

func (f fileObs) term() string {
	switch f.State {
	case "absent":
		return "FAbsent"
	case "bad":
		return "FBad"
	}
	if len(f.body) > 100000 {
		return fmt.Sprintf("(FFp %s %d %d %s)", f.Hdr, f.Size, f.HLen, rle(f.body))
	}
	return fmt.Sprintf("(FF %s %d %d %d %s)", f.Hdr, f.Size, f.HLen, len(f.body), pack(f.body))
}

// ---------------------------------------------------------------- reading files back (glue)

// parseDec7 reads a decimal like 5.000000e-08 / 5.000000E-8 as (m, e): value = m * 10^(e-6), 10^6 <= m < 10^7.
func parseDec7(s string) (m, e int64, ok bool) {
	s = strings.TrimSpace(s)
	idx := strings.IndexAny(s, "eE")
	mant, exp := s, int64(0)
	if idx >= 0 {
		mant = s[:idx]
		if _, err := fmt.Sscanf(s[idx+1:], "%d", &exp); err != nil {
			return 0, 0, false
		}
	}
	if len(mant) == 0 || mant[0] == '-' || mant[0] == '+' {
		return 0, 0, false
	}
	intpart, frac := mant, ""
	if p := strings.IndexByte(mant, '.'); p >= 0 {
		intpart, frac = mant[:p], mant[p+1:]
	}
	digits := intpart + frac
	exp -= int64(len(frac)) // value = digits * 10^exp
	for _, c := range digits {
		if c < '0' || c > '9' {
			return 0, 0, false
		}
	}
	digits = strings.TrimLeft(digits, "0")
	if len(digits) == 0 {
		return 0, 0, false
	}
	for len(digits) > 7 && digits[len(digits)-1] == '0' {
		digits = digits[:len(digits)-1]
		exp++
	}
	if len(digits) > 7 {
		return 0, 0, false
	}
	for len(digits) < 7 {
		digits += "0"
		exp--
	}
	fmt.Sscanf(digits, "%d", &m)
	return m, exp + 6, true
}

func atoi(s string) (int64, bool) {
	var v int64
	s = strings.TrimSpace(s)
	var rest string
	n, _ := fmt.Sscanf(s+" |", "%d %s", &v, &rest)
	return v, n == 2 && rest == "|"
}

func readLJH22(path string) fileObs {
	data, err := os.ReadFile(path)
	if err != nil {
		if os.IsNotExist(err) {
			return fileObs{State: "absent"}
		}
		return fileObs{State: "bad", Why: err.Error()}
	}
	const endTag = "#End of Header"
	idx := strings.Index(string(data), endTag)
	if idx < 0 || !strings.HasPrefix(string(data), "#LJH Memorial File Format") {
		return fileObs{State: "bad", Why: "no header delimiters"}
	}
	hl := idx + len(endTag)
	if hl < len(data) && data[hl] == '\r' {
		hl++
	}
	if hl < len(data) && data[hl] == '\n' {
		hl++
	}
	kv := map[string]string{}
	for _, line := range strings.Split(string(data[:idx]), "\n") {
		line = strings.TrimRight(line, "\r")
		if strings.HasPrefix(line, "#") {
			continue
		}
		p := strings.Index(line, ": ")
		if p < 0 {
			continue
		}
		key := line[:p]
		if strings.HasPrefix(key, "Row number (from 0-") {
			key = "Row number"
		}
		if strings.HasPrefix(key, "Column number (from 0-") {
			key = "Column number"
		}
		if _, dup := kv[key]; !dup {
			kv[key] = line[p+2:]
		}
	}
	bad := ""
	geti := func(key string) int64 {
		s, ok := kv[key]
		if !ok {
			bad = "missing key " + key
			return 0
		}
		v, ok := atoi(s)
		if !ok {
			bad = "not an integer: " + key
		}
		return v
	}
	gets := func(key string) string {
		s, ok := kv[key]
		if !ok {
			bad = "missing key " + key
		}
		return s
	}
	var h H22
	ver := strings.Split(gets("Save File Format Version"), ".")
	if len(ver) >= 2 {
		var ok1, ok2 bool
		h.VMaj, ok1 = atoi(ver[0])
		h.VMin, ok2 = atoi(ver[1])
		if !ok1 || !ok2 {
			bad = "version"
		}
	} else {
		bad = "version"
	}
	h.Rows, h.Cols = geti("Number of rows"), geti("Number of columns")
	h.Row, h.Col = geti("Row number"), geti("Column number")
	h.Nchan = geti("Number of channels")
	h.Name = gets("Channel name")
	h.Number = geti("Channel")
	h.Index = geti("ChannelIndex (in dastard)")
	h.SfDiv, h.SfOff = geti("Subframe divisions"), geti("Subframe offset")
	h.Word = 2 // doc/LJH.md: "always 2 bytes per sample, in practice"; the documented key decides when present
	if _, ok := kv["Digitized Word Size in Bytes"]; ok {
		h.Word = geti("Digitized Word Size in Bytes")
	}
	h.NPre, h.NSamp = geti("Presamples"), geti("Total Samples")
	h.Spp = geti("Number of samples per point")
	var ok bool
	h.TbM, h.TbE, ok = parseDec7(gets("Timebase"))
	if !ok {
		bad = "Timebase"
	}
	h.PX, h.PY = geti("Pixel X Position"), geti("Pixel Y Position")
	h.PName = gets("Pixel Name")
	h.Source = gets("Data source")
	if bad != "" {
		return fileObs{State: "bad", Why: bad}
	}
	return fileObs{State: "file", Size: int64(len(data)), HLen: int64(hl), Hdr: h.term(), body: data[hl:], NRecB: len(data) - hl}
}

// readJSONHeader delimits "a JSON value followed by a single newline".
func readJSONHeader(path string) (data []byte, hl int, m map[string]interface{}, st *fileObs) {
	data, err := os.ReadFile(path)
	if err != nil {
		if os.IsNotExist(err) {
			return nil, 0, nil, &fileObs{State: "absent"}
		}
		return nil, 0, nil, &fileObs{State: "bad", Why: err.Error()}
	}
	dec := json.NewDecoder(strings.NewReader(string(data)))
	dec.UseNumber()
	if err := dec.Decode(&m); err != nil {
		return nil, 0, nil, &fileObs{State: "bad", Why: "json: " + err.Error()}
	}
	hl = int(dec.InputOffset())
	if hl >= len(data) || data[hl] != '\n' {
		return nil, 0, nil, &fileObs{State: "bad", Why: "no newline after the JSON header"}
	}
	return data, hl + 1, m, nil
}

type jget struct{ bad string }

func (g *jget) obj(m map[string]interface{}, key string) map[string]interface{} {
	if v, ok := m[key].(map[string]interface{}); ok {
		return v
	}
	g.bad = "missing object " + key
	return map[string]interface{}{}
}
func (g *jget) i(m map[string]interface{}, key string) int64 {
	if n, ok := m[key].(json.Number); ok {
		if v, err := n.Int64(); err == nil {
			return v
		}
	}
	g.bad = "missing integer " + key
	return 0
}
func (g *jget) s(m map[string]interface{}, key string) string {
	if v, ok := m[key].(string); ok {
		return v
	}
	g.bad = "missing string " + key
	return ""
}
func (g *jget) f(m map[string]interface{}, key string) uint64 {
	if n, ok := m[key].(json.Number); ok {
		if v, err := n.Float64(); err == nil {
			return math.Float64bits(v)
		}
	}
	g.bad = "missing number " + key
	return 0
}

func readLJH3(path string) fileObs {
	data, hl, m, st := readJSONHeader(path)
	if st != nil {
		return *st
	}
	var g jget
	tdm := g.obj(m, "TDM")
	h := H3{Fmt: g.s(m, "File Format"), Ver: g.s(m, "File Format Version"), Tb: g.f(m, "frameperiod"),
		Rows: g.i(tdm, "NumberOfRows"), Cols: g.i(tdm, "NumberOfColumns"), SfDiv: g.i(tdm, "SubframeDivisions"),
		Row: g.i(tdm, "Row"), Col: g.i(tdm, "Column"), SfOff: g.i(tdm, "SubframeOffset")}
	if g.bad != "" {
		return fileObs{State: "bad", Why: g.bad}
	}
	return fileObs{State: "file", Size: int64(len(data)), HLen: int64(hl), Hdr: h.term(), body: data[hl:], NRecB: len(data) - hl}
}

func readOFF(path string) fileObs {
	data, hl, m, st := readJSONHeader(path)
	if st != nil {
		return *st
	}
	var g jget
	mi := g.obj(m, "ModelInfo")
	pj, bs := g.obj(mi, "Projectors"), g.obj(mi, "Basis")
	ro := g.obj(m, "ReadoutInfo")
	px := g.obj(m, "PixelInfo")
	ci := g.obj(m, "CreationInfo")
	h := HOFF{Fmt: g.s(m, "FileFormat"), Ver: g.s(m, "FileFormatVersion"), Index: g.i(m, "ChannelIndex"),
		Name: g.s(m, "ChannelName"), Number: g.i(m, "ChannelNumberMatchingName"),
		MaxPre: g.i(m, "MaxPresamples"), MaxSamp: g.i(m, "MaxSamples"), Tb: g.f(m, "FramePeriodSeconds"),
		NBases: g.i(m, "NumberOfBases"),
		PRows:  g.i(pj, "Rows"), PCols: g.i(pj, "Cols"), BRows: g.i(bs, "Rows"), BCols: g.i(bs, "Cols"),
		Desc: g.s(mi, "Description"),
		Rows: g.i(ro, "NumberOfRows"), Cols: g.i(ro, "NumberOfColumns"), Nchan: g.i(ro, "NumberOfChans"),
		SfDiv: g.i(ro, "SubframeDivisions"), Col: g.i(ro, "ColumnNum"), Row: g.i(ro, "RowNum"), SfOff: g.i(ro, "SubframeOffset"),
		PX: g.i(px, "XPosition"), PY: g.i(px, "YPosition"), PName: g.s(px, "Name"), Source: g.s(ci, "SourceName")}
	if g.bad != "" {
		return fileObs{State: "bad", Why: g.bad}
	}
	return fileObs{State: "file", Size: int64(len(data)), HLen: int64(hl), Hdr: h.term(), body: data[hl:], NRecB: len(data) - hl}
}

// ---------------------------------------------------------------- scratch space

func scratchRoot() string {
	if d := os.Getenv("VERIF_C05_SCRATCH"); d != "" {
		return d
	}
	wd, err := os.Getwd()
	if err == nil && strings.Contains(wd, string(filepath.Separator)+"build"+string(filepath.Separator)+"run") {
		return filepath.Join(wd, "c05_scratch")
	}
	return "/verif/build/run/c05_scratch"
}

func caseDir(id int64) string {
	d := filepath.Join(scratchRoot(), fmt.Sprintf("p%d_case%d", os.Getpid(), id))
	os.RemoveAll(d)
	if err := os.MkdirAll(d, 0o755); err != nil {
		panic(err)
	}
	return d
}

// ---------------------------------------------------------------- time base helpers

// exact rational value of a positive finite float64: num / 2^k
func ratOfFloat(bits uint64) (num string, den string) {
	ex := int((bits >> 52) & 0x7ff)
	frac := bits & (1<<52 - 1)
	var M uint64
	var E int
	if ex == 0 {
		M, E = frac, -1074
	} else {
		M, E = frac|(1<<52), ex-1075
	}
	for M != 0 && M%2 == 0 && E < 0 {
		M /= 2
		E++
	}
	if E >= 0 {
		return fmt.Sprintf("(%d * 2 ^ %d)", M, E), "1"
	}
	return zu(M), fmt.Sprintf("(2 ^ %d)", -E)
}

func dec7OfFloat(v float64) (m, e int64) {
	m, e, ok := parseDec7(fmt.Sprintf("%e", v))
	if !ok {
		return 0, 0
	}
	return m, e
}

// ---------------------------------------------------------------- level (i): writers

type wcall struct {
	Op  string `json:"op"`
	Ret string `json:"ret"`
}

func retName(err error) string {
	if err != nil {
		return "WErr"
	}
	return "WOk"
}

func guard(f func() error) (ret string) {
	defer func() {
		if e := recover(); e != nil {
			ret = "WPanic"
		}
	}()
	return retName(f())
}

func f32(bits64 uint64) float32 { return float32(math.Float64frombits(bits64)) }

func denseFromBits(r, c int, bits []uint64) *mat.Dense {
	bits = padBits(bits, r*c)
	d := make([]float64, len(bits))
	for i, b := range bits {
		d[i] = math.Float64frombits(b)
	}
	return mat.NewDense(r, c, d)
}

func runWriter(c Case) lib.Result {
	res := lib.Result{ID: c.ID, Hash: lib.Hash(c2hash(c))}
	dir := caseDir(c.ID)
	defer os.RemoveAll(dir)
	ch := Chan{Name: "chan0", Rows: 1, Cols: 1}
	if len(c.Chans) > 0 {
		ch = c.Chans[0]
	}
	tb := math.Float64frombits(c.TbBits)
	tags := map[string]bool{c.Kind: true}
	if c.NPre >= c.NSamp {
		tags["presamples>=samples"] = true
	}
	if c.SfDiv == 0 && c.Kind == "w22" {
		tags["subframe-divisions-0"] = true
	}
	if strings.ContainsAny(ch.Name+ch.Desc+c.Source+ch.PName, "%\"\\") {
		tags["header-text-with-verbs-quotes-backslashes"] = true
	}
	var create, header, flush, closeW func() error
	var record func(r Rec) error
	var readBack func() fileObs
	var truth string
	extra := ""
	pending, perRec := 0, 8
	switch c.Kind {
	case "w22":
		path := filepath.Join(dir, "w.ljh")
		w := &ljh.Writer{ChannelIndex: c.Index, Presamples: c.NPre, Samples: c.NSamp, FramesPerSample: c.Spp,
			SubframeDivisions: c.SfDiv, Timebase: tb, TimestampOffset: time.Unix(1700000000, 0),
			NumberOfRows: ch.Rows, NumberOfColumns: ch.Cols, NumberOfChans: c.Nchan, FileName: path,
			DastardVersion: "verif", GitHash: "0000000", SourceName: c.Source, ChanName: ch.Name,
			ChannelNumberMatchingName: ch.Number, ColumnNum: ch.Col, RowNum: ch.Row, SubframeOffset: ch.SfOff,
			PixelXPosition: ch.PX, PixelYPosition: ch.PY, PixelName: ch.PName}
		create = w.CreateFile
		header = func() error { return w.WriteHeader(time.Unix(1700000001, 0)) }
		record = func(r Rec) error { return w.WriteRecord(r.Frame, r.Ns, r.Data) }
		flush = func() error { w.Flush(); return nil }
		closeW = func() error { w.Close(); return nil }
		readBack = func() fileObs { return readLJH22(path) }
		m, e := dec7OfFloat(tb)
		truth = H22{VMaj: 2, VMin: 2, Rows: int64(ch.Rows), Cols: int64(ch.Cols), Row: int64(ch.Row), Col: int64(ch.Col),
			Nchan: int64(c.Nchan), Name: ch.Name, Number: int64(ch.Number), Index: int64(c.Index), SfDiv: int64(c.SfDiv),
			SfOff: int64(ch.SfOff), Word: 2, NPre: int64(c.NPre), NSamp: int64(c.NSamp), Spp: int64(c.Spp), TbM: m, TbE: e,
			PX: int64(ch.PX), PY: int64(ch.PY), PName: ch.PName, Source: c.Source}.term()
	case "w3":
		path := filepath.Join(dir, "w.ljh3")
		w := &ljh.Writer3{ChannelIndex: c.Index, ChannelName: ch.Name, ChannelNumberMatchingIndex: ch.Number, Timebase: tb,
			NumberOfRows: ch.Rows, NumberOfColumns: ch.Cols, SubframeDivisions: c.SfDiv, Row: ch.Row, Column: ch.Col,
			SubframeOffset: ch.SfOff, FileName: path}
		create = w.CreateFile
		header = w.WriteHeader
		record = func(r Rec) error { return w.WriteRecord(int32(r.Pre), r.Frame, r.Ns, r.Data) }
		flush = func() error { w.Flush(); return nil }
		closeW = func() error { w.Close(); return nil }
		readBack = func() fileObs { return readLJH3(path) }
		truth = H3{Fmt: "LJH3", Ver: "3.0.0", Tb: c.TbBits, Rows: int64(ch.Rows), Cols: int64(ch.Cols), SfDiv: int64(c.SfDiv),
			Row: int64(ch.Row), Col: int64(ch.Col), SfOff: int64(ch.SfOff)}.term()
	case "woff":
		path := filepath.Join(dir, "w.off")
		pj := denseFromBits(ch.PRows, ch.PCols, ch.Proj)
		bs := denseFromBits(ch.BRows, ch.BCols, ch.Basis)
		w := off.NewWriter(path, c.Index, ch.Name, ch.Number, c.NPre, c.NSamp, tb, pj, bs, ch.Desc, "verif", "0000000", c.Source,
			off.TimeDivisionMultiplexingInfo{NumberOfRows: ch.Rows, NumberOfColumns: ch.Cols, NumberOfChans: c.Nchan,
				SubframeDivisions: c.SfDiv, ColumnNum: ch.Col, RowNum: ch.Row, SubframeOffset: ch.SfOff},
			off.PixelInfo{XPosition: ch.PX, YPosition: ch.PY, Name: ch.PName})
		create = w.CreateFile
		header = w.WriteHeader
		record = func(r Rec) error {
			coefs := make([]float32, len(r.Coefs))
			for i, v := range r.Coefs {
				coefs[i] = f32(v)
			}
			return w.WriteRecord(int32(len(r.Data)), int32(r.Pre), r.Frame, r.Ns, f32(r.Mean), f32(r.Delta), f32(r.Resid), coefs)
		}
		flush = func() error { w.Flush(); return nil }
		closeW = func() error { w.Close(); return nil }
		readBack = func() fileObs { return readOFF(path) }
		truth = HOFF{Fmt: "OFF", Ver: "0.3.0", Index: int64(c.Index), Name: ch.Name, Number: int64(ch.Number),
			MaxPre: int64(c.NPre), MaxSamp: int64(c.NSamp), Tb: c.TbBits, NBases: int64(ch.PRows),
			PRows: int64(ch.PRows), PCols: int64(ch.PCols), BRows: int64(ch.BRows), BCols: int64(ch.BCols), Desc: ch.Desc,
			Rows: int64(ch.Rows), Cols: int64(ch.Cols), Nchan: int64(c.Nchan), SfDiv: int64(c.SfDiv), Col: int64(ch.Col),
			Row: int64(ch.Row), SfOff: int64(ch.SfOff), PX: int64(ch.PX), PY: int64(ch.PY), PName: ch.PName, Source: c.Source}.term()
		extra = " " + matTerm(ch.PRows, ch.PCols, ch.Proj) + " " + matTerm(ch.BRows, ch.BCols, ch.Basis)
	}
	var terms []string
	var calls []wcall
	add := func(op, term, ret string) {
		terms = append(terms, fmt.Sprintf("wo %s %s", term, ret))
		calls = append(calls, wcall{op, ret})
	}
	add("create", "WCreate", guard(create))
	add("header", "WHeader", guard(header))
	pending = 4
	nOK := 0
	for _, o := range c.Ops {
		switch o.Op {
		case "rec":
			for _, r := range o.Recs {
				if pending+perRec > 900 { // keep the 1000-deep queue of asyncbufio from ever filling (C07's subject)
					flush()
					pending = 0
				}
				ret := guard(func() error { return record(r) })
				pending += perRec
				add("rec", "(WRec ("+recTerm(r)+"))", ret)
				if ret == "WOk" {
					nOK++
				} else {
					tags["rejected-record"] = true
				}
				tagRec(tags, r)
			}
		case "flush":
			add("flush", "WFlush", guard(flush))
			pending = 0
			tags["flush"] = true
		case "create":
			add("create", "WCreate", guard(create))
			tags["create-twice"] = true
		case "header":
			add("header", "WHeader", guard(header))
			pending += 4
			tags["header-twice"] = true
		}
	}
	add("close", "WClose", guard(closeW))
	f := readBack()
	num, den := ratOfFloat(c.TbBits)
	kind := map[string]string{"w22": "CW22", "w3": "CW3", "woff": "CWOFF"}[c.Kind]
	res.Term = fmt.Sprintf("%s %s %s %s%s %s %s", kind, truth, num, den, extra, lib.List(terms), f.term())
	res.Impl = map[string]interface{}{"calls": calls, "file": f}
	res.NonTrivial = f.State == "file" && nOK >= 2
	res.Tags = sortedTags(tags)
	return res
}

func tagRec(tags map[string]bool, r Rec) {
	if r.Ns < 0 {
		tags["negative-time"] = true
		if r.Ns%1000 != 0 {
			tags["negative-time-not-multiple-of-1000"] = true
		}
	}
	if r.Ns == math.MaxInt64 || r.Ns == math.MinInt64 {
		tags["extreme-time"] = true
	}
	if r.Frame > 1<<40 || r.Frame < -(1<<40) {
		tags["extreme-frame"] = true
	}
	for _, b := range append([]uint64{r.Mean, r.Delta, r.Resid}, r.Coefs...) {
		v := math.Float64frombits(b)
		if math.IsNaN(v) {
			tags["nan"] = true
		}
		if math.IsInf(v, 0) {
			tags["inf"] = true
		}
	}
	if len(r.Data) == 0 {
		tags["empty-record"] = true
	}
	if len(r.Data) > 200 {
		tags["long-record"] = true
	}
}

func sortedTags(m map[string]bool) []string {
	var out []string
	for t := range m {
		out = append(out, t)
	}
	sort.Strings(out)
	return out
}

func c2hash(c Case) Case { c.ID = 0; return c }

// ---------------------------------------------------------------- level (ii): bench

type bcall struct {
	Op    string      `json:"op"`
	Ret   string      `json:"ret"`
	Files interface{} `json:"files,omitempty"`
}

func runBench(c Case) lib.Result {
	res := lib.Result{ID: c.ID, Hash: lib.Hash(c2hash(c))}
	dir := caseDir(c.ID)
	defer os.RemoveAll(dir)
	tags := map[string]bool{"bench": true}
	if c.Signed {
		tags["signed-samples"] = true
	}
	if c.NPre >= c.NSamp {
		tags["presamples>=samples"] = true
	}
	if c.NSamp == 1 {
		tags["one-sample-records"] = true
	}
	if c.SfDiv == 0 {
		tags["subframe-divisions-0"] = true
	}
	nchan := len(c.Chans)
	rate := float64(c.RateNum) / float64(c.RateDen)
	b, err := dastard.VerifNewBench(nchan, c.NPre, c.NSamp, 10000.0, nil)
	if err != nil {
		panic(err)
	}
	defer b.Close()
	ds := b.Source()
	rpc := dastard.VerifNewRPC(b) // SourceControl stand-in: pulse-length requests go through the RPC entry point
	defer rpc.Close()
	rpc.VerifC05SetStatusLengths(c.NPre, c.NSamp)
	ds.VerifSetWritingBasePath(dir)
	ds.VerifC05SetSource(c.Source, c.SfDiv, rate)
	var pixels []dastard.Pixel
	// START refuses a map whose length is not the channel count, but channel numbers need not be 1..nchan:
	// a channel whose number has no entry in the map must get the zero Pixel (seed C05-18)
	mapped := func(number int) bool { return c.UseMap && number >= 1 && number <= nchan }
	if c.UseMap {
		pixels = make([]dastard.Pixel, nchan)
		tags["pixel-map"] = true
		for _, ch := range c.Chans {
			if !mapped(ch.Number) {
				tags["pixel-map-channel-number-outside-map"] = true
			}
		}
	}
	for i, ch := range c.Chans {
		ds.VerifC05SetChannel(i, ch.Name, ch.Number, ch.Row, ch.Col, ch.Rows, ch.Cols, ch.SfOff)
		if ch.NBases > 0 {
			if err := ds.ConfigureProjectorsBases(i, denseFromBits(ch.NBases, c.NSamp, ch.Proj), denseFromBits(c.NSamp, ch.NBases, ch.Basis), ch.Desc); err != nil {
				panic(err)
			}
			tags["projectors"] = true
		}
		if mapped(ch.Number) {
			pixels[ch.Number-1] = dastard.Pixel{X: ch.PX, Y: ch.PY, Name: ch.PName}
		}
		if ch.Row != 0 || ch.Col != 0 {
			tags["row-or-column-nonzero"] = true
		}
		if strings.ContainsAny(ch.Name+ch.Desc+c.Source, "%\"\\") || (c.UseMap && strings.ContainsAny(ch.PName, "%\"\\")) {
			tags["header-text-with-verbs-quotes-backslashes"] = true
		}
		if ch.Rows != c.Chans[0].Rows || ch.Cols != c.Chans[0].Cols {
			tags["array-size-differs-between-channels"] = true
		}
	}
	tb := 1.0 / rate
	tbm, tbe := dec7OfFloat(tb)
	// Coq: srcp and chanp
	sp := fmt.Sprintf("(mksrcp %d %s %s %s %s %s %s %s %s %s)", nchan, text(c.Source), zz(int64(c.SfDiv)), zz(int64(c.NPre)),
		zz(int64(c.NSamp)), zz(c.RateDen), zz(c.RateNum), zu(math.Float64bits(tb)), zz(tbm), zz(tbe))
	var cps []string
	for i, ch := range c.Chans {
		proj := "None"
		if ch.NBases > 0 {
			proj = fmt.Sprintf("(Some (%s, %s, %s))", matTerm(ch.NBases, c.NSamp, ch.Proj), matTerm(c.NSamp, ch.NBases, ch.Basis), text(ch.Desc))
		}
		px, py, pn := 0, 0, ""
		if mapped(ch.Number) {
			px, py, pn = ch.PX, ch.PY, ch.PName
		}
		cps = append(cps, fmt.Sprintf("mkchanp %d %s %s %s %s %s %s %s %s %s %s %s", i, text(ch.Name), zz(int64(ch.Number)),
			zz(int64(ch.Rows)), zz(int64(ch.Cols)), zz(int64(ch.Row)), zz(int64(ch.Col)), zz(int64(ch.SfOff)),
			zz(int64(px)), zz(int64(py)), text(pn), proj))
	}

	var terms []string
	var calls []bcall
	active := false
	nStarts := 0
	cycleDir := ""
	pending := make([]int, nchan)
	nontrivial := false
	paused := false
	wc := func(req string, o Op) error {
		cfg := &dastard.WriteControlConfig{Request: req, WriteLJH22: o.T22, WriteLJH3: o.T3, WriteOFF: o.TOFF}
		if req == "START" && c.UseMap {
			cfg.MapInternalOnly = &dastard.Map{Spacing: 1, Pixels: pixels}
		}
		return ds.WriteControl(cfg)
	}
	bret := func(err error) string {
		if err != nil {
			return "BErr"
		}
		return "BOk"
	}
	doStop := func() {
		err := wc("STOP", Op{})
		if err != nil {
			panic("STOP failed: " + err.Error())
		}
		var cfs []string
		var seen []map[string]fileObs
		for _, ch := range c.Chans {
			f22, f3, fo := fileObs{State: "absent"}, fileObs{State: "absent"}, fileObs{State: "absent"}
			if active {
				find := func(ext string) string {
					// <date>_run<NNNN>_<channel name>.<ext>; the name is matched literally (it may hold any character)
					re := regexp.MustCompile(`^[0-9]{8}_run[0-9]{4}_` + regexp.QuoteMeta(ch.Name) + `\.` + ext + `$`)
					ents, _ := os.ReadDir(cycleDir)
					var m []string
					for _, e := range ents {
						if re.MatchString(e.Name()) {
							m = append(m, filepath.Join(cycleDir, e.Name()))
						}
					}
					if len(m) == 1 {
						return m[0]
					}
					return filepath.Join(cycleDir, "none")
				}
				f22, f3, fo = readLJH22(find("ljh")), readLJH3(find("ljh3")), readOFF(find("off"))
			}
			for _, f := range []fileObs{f22, f3, fo} {
				if f.State == "file" && f.NRecB > 100 {
					nontrivial = true
				}
			}
			cfs = append(cfs, fmt.Sprintf("mkcf %s %s %s", f22.term(), f3.term(), fo.term()))
			seen = append(seen, map[string]fileObs{"ljh22": f22, "ljh3": f3, "off": fo})
		}
		terms = append(terms, "bo BStop (BFiles "+lib.List(cfs)+")")
		calls = append(calls, bcall{Op: "stop", Ret: "files", Files: seen})
		active = false
		paused = false
		for i := range pending {
			pending[i] = 0
		}
	}
	for _, o := range c.Ops {
		switch o.Op {
		case "start":
			before, _ := filepath.Glob(filepath.Join(dir, "*", "*"))
			err := wc("START", o)
			terms = append(terms, fmt.Sprintf("bo (BStart %s %s %s) %s", lib.B(o.T22), lib.B(o.T3), lib.B(o.TOFF), bret(err)))
			calls = append(calls, bcall{Op: "start", Ret: bret(err)})
			if err == nil && !active {
				active = true
				paused = false
				// the directory this START made = the one that was not there before (independent of the date in its name)
				after, _ := filepath.Glob(filepath.Join(dir, "*", "*"))
				had := map[string]bool{}
				for _, d := range before {
					had[d] = true
				}
				var fresh []string
				for _, d := range after {
					if !had[d] {
						fresh = append(fresh, d)
					}
				}
				if len(fresh) != 1 {
					panic(fmt.Sprintf("cannot find the directory of writing cycle %d under %s: %v", nStarts, dir, fresh))
				}
				cycleDir = fresh[0]
				nStarts++
				tags[fmt.Sprintf("start-22:%v-3:%v-off:%v", o.T22, o.T3, o.TOFF)] = true
				if nStarts > 1 {
					tags["several-cycles"] = true
				}
			} else if err != nil {
				tags["start-refused"] = true
			}
		case "pub":
			if o.Ch < 0 || o.Ch >= nchan {
				continue
			}
			if pending[o.Ch]+8*len(o.Recs)+8 > 900 { // keep asyncbufio's 1000-deep queue from ever filling (C07's subject)
				b.VerifDsp(o.Ch).VerifPublisher().Flush()
				pending[o.Ch] = 0
			}
			vr := make([]dastard.VerifRecord, len(o.Recs))
			var rts []string
			for i, r := range o.Recs {
				// the processors cut records with the lengths in force: pre-trigger length always, record length unless
				// the case asks for a record of the wrong length
				dsp := b.VerifDsp(o.Ch)
				r.Pre = dsp.NPresamples
				if !r.Odd && len(r.Data) != dsp.NSamples {
					d := make([]uint16, dsp.NSamples)
					for k := range d {
						if len(r.Data) > 0 {
							d[k] = r.Data[k%len(r.Data)] + uint16(k/len(r.Data))
						} else {
							d[k] = uint16(k)
						}
					}
					r.Data = d
				}
				coefs := make([]float64, len(r.Coefs))
				for k, v := range r.Coefs {
					coefs[k] = math.Float64frombits(v)
				}
				vr[i] = dastard.VerifRecord{Chan: o.Ch, Frame: r.Frame, TimeNs: r.Ns, Pre: r.Pre, Data: append([]uint16(nil), r.Data...), Signed: c.Signed,
					PretrigMean: math.Float64frombits(r.Mean), PretrigDelta: math.Float64frombits(r.Delta),
					ResidualStdDev: math.Float64frombits(r.Resid), ModelCoefs: coefs}
				rts = append(rts, recTerm(r))
				tagRec(tags, r)
				if len(r.Data) != dsp.NSamples {
					tags["record-length-differs"] = true
				}
				if dsp.HasProjectors() && len(r.Coefs) != c.Chans[o.Ch].NBases {
					tags["coefficient-count-differs"] = true
				}
			}
			err := b.VerifDsp(o.Ch).VerifPublish(vr)
			pending[o.Ch] += 8*len(o.Recs) + 8
			terms = append(terms, fmt.Sprintf("bo (BPub %d %s) %s", o.Ch, lib.List(rts), bret(err)))
			calls = append(calls, bcall{Op: "pub", Ret: bret(err)})
			if !active {
				tags["publish-while-not-writing"] = true
			} else if paused {
				tags["publish-while-paused"] = true
			}
			if len(o.Recs) == 0 {
				tags["empty-batch"] = true
			}
		case "flush":
			if o.Ch < 0 || o.Ch >= nchan {
				continue
			}
			b.VerifDsp(o.Ch).VerifPublisher().Flush()
			pending[o.Ch] = 0
			terms = append(terms, fmt.Sprintf("bo (BFlush %d) BOk", o.Ch))
			calls = append(calls, bcall{Op: "flush", Ret: "BOk"})
			tags["flush"] = true
		case "pause", "unpause":
			err := wc(strings.ToUpper(o.Op), o)
			name := "BPause"
			if o.Op == "unpause" {
				name = "BUnpause"
			}
			terms = append(terms, fmt.Sprintf("bo %s %s", name, bret(err)))
			calls = append(calls, bcall{Op: o.Op, Ret: bret(err)})
			paused = o.Op == "pause"
			for i := range pending {
				pending[i] = 0
			}
			tags[o.Op] = true
		case "stop":
			if !active {
				tags["stop-while-not-writing"] = true
			}
			doStop()
		case "pulse":
			var reply bool
			pre0, n0 := b.VerifDsp(0).NPresamples, b.VerifDsp(0).NSamples
			err := rpc.SC.ConfigurePulseLengths(dastard.SizeObject{Nsamp: o.NS, Npre: o.NP}, &reply)
			terms = append(terms, fmt.Sprintf("bo (BPulse %s %s) %s", zz(int64(o.NS)), zz(int64(o.NP)), bret(err)))
			calls = append(calls, bcall{Op: fmt.Sprintf("pulse nsamp=%d npre=%d (in force afterwards: nsamp=%d npre=%d)", o.NS, o.NP, b.VerifDsp(0).NSamples, b.VerifDsp(0).NPresamples), Ret: bret(err)})
			switch {
			case err != nil && active && paused:
				tags["pulse-lengths-refused-while-paused"] = true
			case err != nil && active:
				tags["pulse-lengths-refused-while-writing"] = true
			case err != nil:
				tags["pulse-lengths-invalid"] = true
			case pre0 != b.VerifDsp(0).NPresamples || n0 != b.VerifDsp(0).NSamples:
				tags["pulse-lengths-changed"] = true
			default:
				tags["pulse-lengths-unchanged"] = true
			}
		}
	}
	if active {
		doStop() // "after writing is stopped": every history ends with STOP
	}
	res.Term = fmt.Sprintf("CB %s %s %s", sp, lib.List(cps), lib.List(terms))
	res.Impl = calls
	res.NonTrivial = nontrivial
	res.Tags = sortedTags(tags)
	return res
}

func runCase(c Case) lib.Result {
	if c.Kind == "bench" {
		return runBench(c)
	}
	return runWriter(c)
}

func main() {
	time.Local = time.UTC
	dastard.UpdateLogger.SetOutput(io.Discard) // "ConfigurePulseLengths: ..." lines of the RPC layer
	h := lib.Harness{
		Gen: gen,
		RunCase: func(raw json.RawMessage) (lib.Result, error) {
			var c Case
			if err := json.Unmarshal(raw, &c); err != nil {
				return lib.Result{}, err
			}
			return runCase(c), nil
		},
		Header:   "From Coq Require Import Uint63.\nFrom Dastard Require Import Common.ZX Common.CaseLib C05.Types C05.Model C05.Run.",
		Verdict:  "verdict",
		PerShard: 40,
	}
	h.Main()
}
