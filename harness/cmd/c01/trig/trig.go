// Package trig: case format, runner (real ProcessSegments through the verif bench), Coq rendering and
// stream-building helpers shared by the C01 and C02 harnesses.
package trig

import (
	"encoding/json"
	"fmt"
	"math"
	"os"
	"os/exec"
	"sort"
	"strings"
	"time"

	"github.com/usnistgov/dastard"
	"verifharness/lib"
	"verifharness/pipe"
)

// TS is the part of dastard.TriggerState the edge/level/auto passes read.
type TS struct {
	Auto     bool  `json:"auto,omitempty"`
	DelayNs  int64 `json:"delay_ns,omitempty"`
	Veto     int   `json:"veto,omitempty"`
	Level    bool  `json:"level,omitempty"`
	LRising  bool  `json:"lrising,omitempty"`
	LLevel   int   `json:"llevel,omitempty"`
	Edge     bool  `json:"edge,omitempty"`
	ERising  bool  `json:"erising,omitempty"`
	EFalling bool  `json:"efalling,omitempty"`
	ELevel   int32 `json:"elevel,omitempty"`
	EMulti   bool  `json:"emulti,omitempty"` // in restored settings PrepareRun forces it off; in a request see below
	// A ChangeTriggerState request with EMulti on carries the EMTState the RPC layer derives from these; the
	// harness only issues such requests when the record lengths in force make them REFUSED.
	EMNMono   int  `json:"em_nmono,omitempty"`
	EMZeroOff bool `json:"em_zero_off,omitempty"`
}

// ChanCfg describes one channel: signedness of its samples and the trigger settings restored at start (nil: none saved).
type ChanCfg struct {
	Signed   bool `json:"signed,omitempty"`
	Restored *TS  `json:"restored,omitempty"`
}

// Op is one step of a history: "B" block (D[c] = samples of channel c), "CT" ChangeTriggerState, "CL" ConfigurePulseLengths.
type Op struct {
	Op    string  `json:"op"`
	D     [][]int `json:"d,omitempty"`
	Jit   int64   `json:"jit,omitempty"`  // B: deviation (ns) of the block time stamp from the affine time
	Gap   int64   `json:"gap,omitempty"`  // B: frames the source lost before this block (its first frame is that much later)
	Drop  int     `json:"drop,omitempty"` // B: droppedFrames reported with the block (Lancero: = gap; Abaco: filled in, no gap)
	Chans []int   `json:"chans,omitempty"`
	TS    *TS     `json:"ts,omitempty"`
	Nsamp int     `json:"nsamp,omitempty"`
	Npre  int     `json:"npre,omitempty"`
}

// Case is one generated history for 1..n channels.
type Case struct {
	ID    int64 `json:"id"`
	Npre  int   `json:"npre"`
	Nsamp int   `json:"nsamp"`
	Rate  int64 `json:"rate"` // samples per second; 1e9 must be a multiple (sample period = a whole number of ns)
	// FRate, when > 0, replaces Rate: any sample rate; the blocks then carry the period a real source uses,
	// time.Duration(roundint(1e9/rate)) whole nanoseconds, which is NOT 1/rate
	FRate float64   `json:"frate,omitempty"`
	F0    int64     `json:"f0"`
	T0    int64     `json:"t0"`
	Chans []ChanCfg `json:"chans"`
	Ops   []Op      `json:"ops"`
	Note  string    `json:"note,omitempty"`
	// Stray: the saved configuration also names channels this source does not have (must be ignored by PrepareRun)
	Stray bool `json:"stray,omitempty"`
	// Lag: the published records of a block are read only after this many further blocks were processed
	Lag int `json:"lag,omitempty"`
}

// DefaultTS is what PrepareRun installs for a channel without saved settings.
var DefaultTS = TS{DelayNs: 250e6, ELevel: 100, ERising: true, LLevel: 4000}

func (t TS) goState() dastard.TriggerState {
	return dastard.TriggerState{AutoTrigger: t.Auto, AutoDelay: time.Duration(t.DelayNs), AutoVetoRange: dastard.RawType(t.Veto),
		LevelTrigger: t.Level, LevelRising: t.LRising, LevelLevel: dastard.RawType(t.LLevel),
		EdgeTrigger: t.Edge, EdgeRising: t.ERising, EdgeFalling: t.EFalling, EdgeLevel: t.ELevel, EdgeMulti: t.EMulti}
}

// DelaySamples is the oracle  int(AutoDelay.Seconds()*SampleRate + 0.5)  evaluated exactly as triggering.go does.
// For non-negative delays the harness only uses values for which the float expression is exact, and checks it.
// For sample rates whose period is not a whole number of nanoseconds (Case.FRate) there is nothing to compare with:
// the value of the float expression IS the specification of the delay in samples.
func DelaySamples(delayNs int64, frate float64, exactRate int64) int64 {
	v := int64(int(time.Duration(delayNs).Seconds()*frate + 0.5))
	if delayNs >= 0 && exactRate > 0 {
		rate := exactRate
		num := delayNs * rate // delayNs < 2^40, rate <= 1e6
		if num%1000000000 != 0 || num/1000000000 != v {
			panic(fmt.Sprintf("harness: auto delay %d ns at %d Hz is not an exact sample count (%d)", delayNs, rate, v))
		}
	}
	return v
}

// SampleRate is the rate handed to the source; PeriodNs the frame period its blocks carry.
func (c Case) SampleRate() float64 {
	if c.FRate > 0 {
		return c.FRate
	}
	return float64(c.Rate)
}

func roundint(x float64) int64 { return int64(x + math.Copysign(0.5, x)) } // as lancero_source.go

func (c Case) PeriodNs() int64 {
	if c.FRate > 0 {
		return roundint(1e9 / c.FRate)
	}
	return 1000000000 / c.Rate
}

// refusedBy tells whether EMTState.valid() rejects the request for these record lengths (Go restatement, used to
// keep the generated requests refused; the model has its own).
func (t TS) refusedBy(npre, nsamp int) bool {
	zero := !t.EMZeroOff
	return t.EMulti && ((zero && npre < 4) || (zero && nsamp-npre < 4) || t.EMNMono > nsamp-npre)
}

// reqTerm renders a ChangeTriggerState request (with the EMTState parameters when it switches edge-multi on).
func (t TS) reqTerm(c Case) string {
	if !t.EMulti {
		return t.term(c)
	}
	exact := c.Rate
	if c.FRate > 0 {
		exact = 0
	}
	return fmt.Sprintf("(TSm %s %s %d %s %s %d %s %s %s %s %s %d %s)", lib.B(t.Auto), lib.Z(DelaySamples(t.DelayNs, c.SampleRate(), exact)), t.Veto,
		lib.B(t.Level), lib.B(t.LRising), t.LLevel, lib.B(t.Edge), lib.B(t.ERising), lib.B(t.EFalling), lib.Z(int64(t.ELevel)), lib.B(t.EMulti),
		int32(t.EMNMono), lib.B(!t.EMZeroOff))
}

func (t TS) term(c Case) string {
	exact := c.Rate
	if c.FRate > 0 {
		exact = 0
	}
	return fmt.Sprintf("(TS %s %s %d %s %s %d %s %s %s %s %s)", lib.B(t.Auto), lib.Z(DelaySamples(t.DelayNs, c.SampleRate(), exact)), t.Veto,
		lib.B(t.Level), lib.B(t.LRising), t.LLevel, lib.B(t.Edge), lib.B(t.ERising), lib.B(t.EFalling), lib.Z(int64(t.ELevel)), lib.B(t.EMulti))
}

// Observation of one op for one channel (replay file / evidence).
type ChanObs struct {
	Chan     int     `json:"chan"`
	Frames   []int64 `json:"frames,omitempty"`
	Retained int     `json:"retained,omitempty"`
	First    int64   `json:"first,omitempty"`
	Err      bool    `json:"err,omitempty"`
	Panic    bool    `json:"panic,omitempty"`
}

func toU16(xs []int) []uint16 {
	out := make([]uint16, len(xs))
	for i, v := range xs {
		out[i] = uint16(v)
	}
	return out
}

type pendingBlock struct {
	held     *dastard.VerifHeldC01
	first    int64
	notFirst bool
	implIdx  int
	born     int
	nprim    []int
	termIdx  []int
	head     []string
	tail     []string
}

// Flags computed while running, for tags and the non-triviality rules.
type Facts struct {
	RecordAcrossBlocks bool // a record whose excerpt uses samples of >= 2 blocks (C01 rule)
	CritNearBoundary   bool // an enabled edge/level criterion holds within nsamp of a block boundary (C02 rule)
	Records            int
}

func shiftv(signed bool, v int) int {
	if signed {
		return (v + 32768) & 0xffff
	}
	return v
}

func neg32(x int32) int32 { return -x }

// critAt evaluates the enabled edge/level criteria on the ground truth g (independent Go restatement, used for tags only).
func critAt(t TS, signed bool, g []int, k int) bool {
	if k < 3 || k >= len(g) {
		return false
	}
	a, b, c, d := shiftv(signed, g[k]), shiftv(signed, g[k-1]), shiftv(signed, g[k-2]), shiftv(signed, g[k-3])
	if t.Edge {
		diff := int32(a + b - c - d)
		if (t.ERising && diff >= t.ELevel) || (t.EFalling && diff <= neg32(t.ELevel)) {
			return true
		}
	}
	if t.Level {
		thr := shiftv(signed, t.LLevel)
		if (t.LRising && a >= thr && b < thr) || (!t.LRising && a <= thr && b > thr) {
			return true
		}
	}
	return false
}

// Run drives the case through the real implementation. upto < 0: all ops.
func Run(c Case) lib.Result {
	res := lib.Result{ID: c.ID, Hash: lib.Hash(struct {
		A, B int
		R    int64
		F, T int64
		C    []ChanCfg
		O    []Op
		S    bool
		FR   float64
		L    int
	}{c.Npre, c.Nsamp, c.Rate, c.F0, c.T0, c.Chans, c.Ops, c.Stray, c.FRate, c.Lag})}
	nchan := len(c.Chans)
	if nchan == 0 || (c.FRate <= 0 && (c.Rate <= 0 || 1000000000%c.Rate != 0)) || (c.FRate > 0 && c.FRate < 100) {
		panic("harness: bad case")
	}
	period := c.PeriodNs()
	var restored []dastard.FullTriggerState
	tags := map[string]bool{}
	if c.FRate > 0 {
		tags["sample-period-not-whole-ns"] = true
	}
	cur := make([]TS, nchan) // settings in force per channel (harness-side bookkeeping for tags)
	for i, cc := range c.Chans {
		cur[i] = DefaultTS
		if cc.Restored != nil {
			restored = append(restored, dastard.FullTriggerState{ChannelIndices: []int{i}, TriggerState: cc.Restored.goState()})
			cur[i] = *cc.Restored
			cur[i].EMulti = false
		}
	}
	if c.Stray {
		stray := TS{Edge: true, ERising: true, ELevel: 1, Level: true, LRising: true, LLevel: 1, Auto: true}
		restored = append(restored, dastard.FullTriggerState{ChannelIndices: []int{nchan, nchan + 3}, TriggerState: stray.goState()})
		tags["saved-settings-for-absent-channels"] = true
	}
	b, err := dastard.VerifNewBench(nchan, c.Npre, c.Nsamp, c.SampleRate(), restored)
	if err != nil {
		panic(err)
	}
	defer b.Close()
	for i := 0; i < nchan; i++ {
		if b.VerifDsp(i).VerifDecimating() {
			panic("harness: decimation is on")
		}
	}
	terms := make([][]string, nchan)
	var impl [][]ChanObs
	var facts Facts
	ground := make([][]int, nchan)
	signed := make([]bool, nchan)
	for i, cc := range c.Chans {
		signed[i] = cc.Signed
		if cc.Signed {
			tags["signed"] = true
		} else {
			tags["unsigned"] = true
		}
		if cc.Restored != nil {
			tags["restored-settings"] = true
		}
	}
	npre, nsamp := c.Npre, c.Nsamp
	next := c.F0
	nblocks := 0
	if c.Lag > 0 {
		tags["records-read-blocks-later"] = true
	}
	// records are read (copied out of the objects PublishData queued) only after c.Lag further blocks were
	// processed, like a publishing goroutine that lags behind
	var pending []*pendingBlock
	flush := func(upto int) {
		for len(pending) > 0 && pending[0].born <= upto {
			pb := pending[0]
			pending = pending[1:]
			got := pb.held.Read()
			for i := 0; i < nchan; i++ {
				var recs []string
				var frames []int64
				for _, rec := range got[i] {
					recs = append(recs, pipe.RecTerm(rec.Frame, rec.TimeNs, rec.Pre, rec.Data, rec.Signed))
					frames = append(frames, rec.Frame)
					facts.Records++
					if rec.Frame-int64(rec.Pre) < pb.first && pb.notFirst {
						facts.RecordAcrossBlocks = true
					}
				}
				if len(frames) != pb.nprim[i] {
					panic("harness: records and primary trigger list differ in length (secondaries are not part of these cases)")
				}
				terms[i][pb.termIdx[i]] = pb.head[i] + " " + lib.List(recs) + " " + pb.tail[i]
				impl[pb.implIdx][i].Frames = frames
			}
		}
	}
	for _, o := range c.Ops {
		var ob []ChanObs
		switch o.Op {
		case "B":
			if len(o.D) != nchan {
				continue
			}
			n := len(o.D[0])
			ok := n > 0
			for _, d := range o.D {
				if len(d) != n {
					ok = false
				}
			}
			if !ok {
				continue
			}
			chans := make([][]uint16, nchan)
			for i := range chans {
				chans[i] = toU16(o.D[i])
			}
			if o.Gap > 0 && nblocks > 0 { // the source lost frames before this block
				next += o.Gap
				tags["frame-gap-before-block"] = true
			}
			if o.Drop > 0 {
				tags["block-reports-dropped-frames"] = true
			}
			tns := c.T0 + (next-c.F0)*period + o.Jit
			errText, prim, held := b.BlockHoldC01(chans, signed, next, tns, period, o.Drop)
			if errText != "" {
				panic("harness: ProcessSegments returned " + errText)
			}
			if n < nsamp {
				tags["block-shorter-than-record"] = true
			}
			pb := &pendingBlock{held: held, first: next, notFirst: nblocks > 0, implIdx: len(impl), born: nblocks}
			for i := 0; i < nchan; i++ {
				ground[i] = append(ground[i], o.D[i]...)
				nret, firstRet, _, _ := b.VerifDsp(i).VerifStreamInfo()
				pb.nprim = append(pb.nprim, len(prim[i]))
				pb.termIdx = append(pb.termIdx, len(terms[i]))
				pb.head = append(pb.head, fmt.Sprintf("B %s %s %s %d %s", lib.ZListInt(o.D[i]), lib.Z(next), lib.Z(tns), period, lib.B(signed[i])))
				pb.tail = append(pb.tail, fmt.Sprintf("%d %s", nret, lib.Z(firstRet)))
				terms[i] = append(terms[i], "")
				ob = append(ob, ChanObs{Chan: i, Retained: nret, First: firstRet})
				// C02 non-triviality: an enabled criterion holds within nsamp of this block's first sample
				if nblocks > 0 {
					kb := len(ground[i]) - n
					for k := kb - nsamp; k <= kb+nsamp && !facts.CritNearBoundary; k++ {
						if critAt(cur[i], signed[i], ground[i], k) {
							facts.CritNearBoundary = true
						}
					}
				}
			}
			pending = append(pending, pb)
			next += int64(n)
			nblocks++
		case "CT":
			if o.TS == nil || len(o.Chans) == 0 {
				continue
			}
			ok := true
			for _, ci := range o.Chans {
				if ci < 0 || ci >= nchan {
					ok = false
				}
			}
			if !ok {
				continue
			}
			gts := o.TS.goState()
			if o.TS.EMulti {
				if !o.TS.refusedBy(npre, nsamp) {
					continue // would switch edge-multi on (C08): not part of these cases
				}
				var err error
				gts, err = dastard.VerifWithEdgeMultiC01(gts, o.TS.EMNMono, o.TS.EMZeroOff, 100)
				if err != nil {
					panic(err)
				}
			}
			fts := dastard.FullTriggerState{ChannelIndices: append([]int(nil), o.Chans...), TriggerState: gts}
			e := b.Source().ChangeTriggerState(&fts)
			seen := map[int]bool{}
			for _, ci := range o.Chans {
				if seen[ci] {
					continue
				}
				seen[ci] = true
				terms[ci] = append(terms[ci], fmt.Sprintf("CT %s %s", o.TS.reqTerm(c), lib.B(e != nil)))
				ob = append(ob, ChanObs{Chan: ci, Err: e != nil})
				if e == nil {
					cur[ci] = *o.TS
				}
			}
			if e != nil {
				tags["trigger-request-refused"] = true
			}
			tags["reconfigure-trigger"] = true
		case "CL":
			e := b.Source().ConfigurePulseLengths(o.Nsamp, o.Npre)
			for i := 0; i < nchan; i++ {
				terms[i] = append(terms[i], fmt.Sprintf("CL %s %s %s", lib.Z(int64(o.Nsamp)), lib.Z(int64(o.Npre)), lib.B(e != nil)))
				ob = append(ob, ChanObs{Chan: i, Err: e != nil})
			}
			if e == nil {
				if o.Nsamp == nsamp && o.Npre == npre {
					tags["reconfigure-lengths-same"] = true
				} else {
					tags["reconfigure-lengths-changed"] = true
				}
				npre, nsamp = o.Npre, o.Nsamp
			} else {
				tags["lengths-rejected"] = true
			}
		default:
			continue
		}
		impl = append(impl, ob)
		flush(nblocks - 1 - c.Lag)
	}
	flush(nblocks)
	res.Term = caseTerm(c, terms)
	res.Impl = impl
	if os.Getenv("C01_CHAN_TERMS") != "" { // set by Crash for its prefix runs
		res.Impl = prefixImpl{ChanTerms: terms}
	}
	for i := range c.Chans {
		t := DefaultTS
		if c.Chans[i].Restored != nil {
			t = *c.Chans[i].Restored
		}
		kind := ""
		if t.Edge {
			kind += "E"
		}
		if t.Level {
			kind += "L"
		}
		if t.Auto {
			kind += "A"
		}
		if kind == "" {
			kind = "none"
		}
		tags["start-triggers-"+kind] = true
	}
	switch {
	case c.F0 == 0:
		tags["f0-zero"] = true
	case c.F0 < 1<<20:
		tags["f0-small"] = true
	case c.F0 < 1<<33:
		tags["f0-near-2^31"] = true
	default:
		tags["f0-2^40"] = true
	}
	if facts.Records > 0 {
		tags["has-records"] = true
	}
	if facts.RecordAcrossBlocks {
		tags["record-spans-blocks"] = true
	}
	if facts.CritNearBoundary {
		tags["criterion-near-block-boundary"] = true
	}
	for t := range tags {
		res.Tags = append(res.Tags, t)
	}
	sort.Strings(res.Tags)
	res.NonTrivial = facts.RecordAcrossBlocks
	if CritRule {
		res.NonTrivial = facts.CritNearBoundary
	}
	return res
}

type prefixImpl struct {
	ChanTerms [][]string `json:"chan_terms"`
}

// CritRule selects C02's non-triviality rule (criterion near a block boundary) instead of C01's (record spans blocks).
var CritRule = false

func caseTerm(c Case, terms [][]string) string {
	var chans []string
	for i := range c.Chans {
		t := DefaultTS
		if c.Chans[i].Restored != nil {
			t = *c.Chans[i].Restored
		}
		chans = append(chans, fmt.Sprintf("ch %d %d %s %s %s", c.Npre, c.Nsamp, t.term(c), lib.Z(c.F0), lib.List(terms[i])))
	}
	return lib.List(chans)
}

// Crash renders a case that killed the harness process: the longest prefix of ops that survives is rendered
// normally, the block after it is rendered as a panic for every channel.
func Crash(raw json.RawMessage, stderr string) (lib.Result, error) {
	var c Case
	if err := json.Unmarshal(raw, &c); err != nil {
		return lib.Result{}, err
	}
	dir, err := os.MkdirTemp("", "c01crash")
	if err != nil {
		return lib.Result{}, err
	}
	defer os.RemoveAll(dir)
	runPrefix := func(k int) (lib.Result, bool) {
		p := c
		p.Ops = c.Ops[:k]
		in, out := dir+"/in.jsonl", dir+"/out.jsonl"
		if err := lib.WriteJSONLines(in, []interface{}{p}); err != nil {
			return lib.Result{}, false
		}
		cmd := exec.Command(os.Args[0], "runchunk", "-in", in, "-out", out)
		cmd.Env = append(os.Environ(), "C01_CHAN_TERMS=1")
		if cmd.Run() != nil {
			return lib.Result{}, false
		}
		raws, err := lib.ReadCases(out)
		if err != nil || len(raws) != 1 {
			return lib.Result{}, false
		}
		var r lib.Result
		if json.Unmarshal(raws[0], &r) != nil {
			return lib.Result{}, false
		}
		return r, true
	}
	good := lib.Result{}
	k := 0
	for k = 0; k < len(c.Ops); k++ {
		r, ok := runPrefix(k + 1)
		if !ok {
			break
		}
		good = r
	}
	if k >= len(c.Ops) {
		return lib.Result{}, fmt.Errorf("case %d crashed the process but no prefix reproduces it: %s", c.ID, stderr)
	}
	// re-render: the surviving prefix, then a panicking block
	terms := make([][]string, len(c.Chans))
	if k > 0 {
		js, _ := json.Marshal(good.Impl)
		var pi prefixImpl
		if json.Unmarshal(js, &pi) == nil && len(pi.ChanTerms) == len(c.Chans) {
			terms = pi.ChanTerms
		}
	}
	o := c.Ops[k]
	period := c.PeriodNs()
	next := c.F0
	seen := 0
	for _, q := range c.Ops[:k] {
		if q.Op == "B" && len(q.D) == len(c.Chans) && len(q.D[0]) > 0 {
			if q.Gap > 0 && seen > 0 {
				next += q.Gap
			}
			next += int64(len(q.D[0]))
			seen++
		}
	}
	if o.Op == "B" && o.Gap > 0 && seen > 0 {
		next += o.Gap
	}
	for i := range c.Chans {
		if o.Op == "B" && len(o.D) == len(c.Chans) {
			terms[i] = append(terms[i], fmt.Sprintf("Bp %s %s %s %d %s", lib.ZListInt(o.D[i]), lib.Z(next), lib.Z(c.T0+(next-c.F0)*period+o.Jit), period, lib.B(c.Chans[i].Signed)))
		} else {
			terms[i] = append(terms[i], "Bp [] 0 0 0 false")
		}
	}
	res := lib.Result{ID: c.ID, Hash: lib.Hash(c), Tags: []string{"panic"}, NonTrivial: false}
	res.Term = caseTerm(c, terms)
	res.Impl = map[string]interface{}{"panic_at_op": k, "stderr": lastLines(stderr, 12)}
	return res, nil
}

func lastLines(s string, n int) string {
	ls := strings.Split(strings.TrimSpace(s), "\n")
	if len(ls) > n {
		ls = ls[:n]
	}
	return strings.Join(ls, "\n")
}
